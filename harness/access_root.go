// Injected into package secp256k1 at build time with `go build -overlay` (never written into /repo).
// Read/write access to the unexported representation, and entry points to unexported functions.
package secp256k1

import (
	"crypto"
	"errors"

	"github.com/bytemare/secp256k1/internal/field"
)

// VerifRaw returns the Montgomery limbs of the projective coordinates.
func VerifRaw(e *Element) [3][4]uint64 {
	return [3][4]uint64{[4]uint64(e.x.E), [4]uint64(e.y.E), [4]uint64(e.z.E)}
}

// VerifSetRaw overwrites the projective coordinates.
func VerifSetRaw(e *Element, c [3][4]uint64) *Element {
	e.x.E = field.MontgomeryDomainFieldElement(c[0])
	e.y.E = field.MontgomeryDomainFieldElement(c[1])
	e.z.E = field.MontgomeryDomainFieldElement(c[2])
	return e
}

// VerifExpandXMD calls the unexported expander.
func VerifExpandXMD(input, dst []byte, length uint) []byte { return expandXMD(input, dst, length) }

// VerifVetDST calls vetDSTXMD with a fresh SHA-256 state.
func VerifVetDST(dst []byte) []byte { return vetDSTXMD(crypto.SHA256.New(), dst) }

// VerifIsEqual calls the unexported comparison (used for the receiver == argument aliasing case).
func VerifIsEqual(e, u *Element) int { return e.isEqual(u) }

// VerifUniformOverride, when non-nil, replaces the output of the expander inside HashToGroup,
// EncodeToGroup and HashToScalar (the harness build routes their expandXMD calls through verifExpandXMD).
var VerifUniformOverride []byte

// VerifOverrideUsed counts how many times the override was consumed.
var VerifOverrideUsed int

func verifExpandXMD(input, dst []byte, length uint) []byte {
	if VerifUniformOverride != nil {
		VerifOverrideUsed++
		out := make([]byte, length)
		copy(out, VerifUniformOverride)
		return out
	}
	return expandXMD(input, dst, length)
}

// VerifErrKind names an error by the package variable it is (not by its message text, which is free to change).
func VerifErrKind(err error) string {
	switch {
	case err == nil:
		return "ok"
	case errors.Is(err, errParamInvalidPointEncoding):
		return "invalidPointEncoding"
	case errors.Is(err, errParamNilScalar):
		return "nilScalar"
	case errors.Is(err, errParamScalarLength):
		return "scalarLength"
	case errors.Is(err, errParamScalarTooBig):
		return "scalarTooBig"
	}
	return ""
}

// VerifIsZeroLenDST reports whether a recovered panic value is the package's zero-length-DST error.
func VerifIsZeroLenDST(r any) bool {
	e, ok := r.(error)
	return ok && errors.Is(e, errZeroLenDST)
}
