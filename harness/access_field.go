// Injected into package field at build time with `go build -overlay`.
package field

// VerifExpPMin3Div4 exposes the unexported addition chain x^((p-3)/4).
func VerifExpPMin3Div4(z, x *Element) *Element { return z.expPMin3Div4(x) }
