package main

// C16: goroutines with their own receivers share read-only arguments. Built with -race; a race report makes the
// process exit with status 66 (GORACE=halt_on_error=1 exitcode=66) and is the failing schedule. Every concurrent
// result is also compared with the sequential one.

import (
	"bytes"
	"encoding/json"
	"fmt"
	"os"
	"strconv"
	"sync"

	secp "github.com/bytemare/secp256k1"
)

type raceReport struct {
	Scenarios  int      `json:"scenarios"`
	Goroutines int      `json:"goroutines"`
	Calls      int      `json:"calls"`
	Mismatches []string `json:"mismatches"`
	Samples    []string `json:"samples"`
}

func raceCheck(args []string) {
	seed, _ := strconv.ParseUint(args[0], 10, 64)
	rounds, _ := strconv.Atoi(args[1])
	r := &rng{s: seed ^ 0xC16}
	const G = 8
	rep := raceReport{Goroutines: G}
	for round := 0; round < rounds; round++ {
		_, rawP := r.point()
		_, rawQ := r.point()
		shP, shQ := el(rawP), el(rawQ)
		shS, shT := sc(montN(r.scalarVal())), sc(montN(r.scalarVal()))
		msg := r.msg()
		// DST with spare capacity inside a larger buffer: the layout under which an in-place append is a shared write
		_, dst := carve(r, r.dst(false), 3, 8, 4)
		// an oversize DST (> 255 bytes: the hashing branch) shared by all goroutines, with and without spare capacity
		_, dstLong := carve(r, r.bytes(256+r.intn(80)), 2, []int{0, 5}[round%2], 3)
		encC := encCompressed(r.affinePoint())
		scB := make([]byte, 32)
		r.scalarVal().FillBytes(scB)
		type scen struct {
			name string
			f    func() []byte
		}
		scens := []scen{
			{"Element.Add(shared)", func() []byte { return el(rawQ).Add(shP).Encode() }},
			{"Element.Subtract(shared)", func() []byte { return el(rawQ).Subtract(shP).Encode() }},
			{"Element.Set/Copy(shared)", func() []byte { return secp.NewElement().Set(shP).Add(shQ.Copy()).Encode() }},
			{"Element.Equal(shared)", func() []byte { return []byte{byte(el(rawP).Equal(shP)), byte(el(rawQ).Equal(shP))} }},
			{"Element.Multiply(shared scalar)", func() []byte { return secp.Base().Multiply(shS).Encode() }},
			{"Element.Encode(shared receiver read-only)", func() []byte { return append(shP.Encode(), shP.EncodeUncompressed()...) }},
			{"Element.Decode(shared bytes)", func() []byte { e := secp.NewElement(); _ = e.Decode(encC); return e.Encode() }},
			{"Base/Identity/Order", func() []byte {
				return append(append(secp.Base().Encode(), secp.NewElement().Identity().Encode()...), secp.Order()...)
			}},
			{"Scalar.Add/Multiply(shared)", func() []byte { return sc(limbs(shT.S)).Add(shS).Multiply(shS).Encode() }},
			{"Scalar.Pow/Invert(shared)", func() []byte { return sc(limbs(shT.S)).Pow(shS).Invert().Encode() }},
			{"Scalar.Compare(shared)", func() []byte {
				return []byte{byte(sc(limbs(shT.S)).Equal(shS)), byte(sc(limbs(shT.S)).LessOrEqual(shS)), byte(shS.LessOrEqual(shT))}
			}},
			{"Scalar.Decode(shared bytes)", func() []byte { s := secp.NewScalar(); _ = s.Decode(scB); return s.Encode() }},
			{"Scalar.Random", func() []byte { return []byte{byte(b2i(secp.NewScalar().Random().IsZero()))} }},
			{"HashToGroup(shared msg,dst)", func() []byte { return secp.HashToGroup(msg, dst).Encode() }},
			{"EncodeToGroup(shared msg,dst)", func() []byte { return secp.EncodeToGroup(msg, dst).Encode() }},
			{"HashToScalar(shared msg,dst)", func() []byte { return secp.HashToScalar(msg, dst).Encode() }},
			{"HashToGroup(shared msg, oversize dst)", func() []byte { return secp.HashToGroup(msg, dstLong).Encode() }},
			{"EncodeToGroup(shared msg, oversize dst)", func() []byte { return secp.EncodeToGroup(msg, dstLong).Encode() }},
			{"HashToScalar(shared msg, oversize dst)", func() []byte { return secp.HashToScalar(msg, dstLong).Encode() }},
		}
		// per-goroutine arguments (nothing shared but the package itself): distinct oversize and ordinary DSTs, distinct messages
		var dstLongs, dsts, msgs [G][]byte
		for g := 0; g < G; g++ {
			dstLongs[g] = r.bytes(256 + r.intn(80))
			dsts[g] = r.dst(false)
			msgs[g] = r.msg()
		}
		type gscen struct {
			name string
			f    func(g int) []byte
		}
		// a message shared by all goroutines that has spare capacity behind it (a prefix of a larger buffer)
		_, msgSpare := carve(r, r.msg(), 2, 9, 3)
		gscens := []gscen{
			{"HashToScalar/HashToGroup/EncodeToGroup mixed on one shared message with spare capacity", func(g int) []byte {
				switch g % 3 {
				case 0:
					return secp.HashToScalar(msgSpare, dst).Encode()
				case 1:
					return secp.HashToGroup(msgSpare, dst).Encode()
				}
				return secp.EncodeToGroup(msgSpare, dst).Encode()
			}},
			{"HashToScalar(per-goroutine oversize dst)", func(g int) []byte { return secp.HashToScalar(msg, dstLongs[g]).Encode() }},
			{"HashToGroup(per-goroutine oversize dst)", func(g int) []byte { return secp.HashToGroup(msgs[g], dstLongs[g]).Encode() }},
			{"EncodeToGroup(per-goroutine dst)", func(g int) []byte { return secp.EncodeToGroup(msgs[g], dsts[g]).Encode() }},
			{"mixed API (goroutine g runs scenario g)", func(g int) []byte { return scens[(g*5+round)%len(scens)].f() }},
		}
		for _, s := range gscens {
			var want [G][]byte
			for g := 0; g < G; g++ {
				want[g] = s.f(g)
			}
			var wg sync.WaitGroup
			got := make([][]byte, G)
			for g := 0; g < G; g++ {
				wg.Add(1)
				go func(g int) {
					defer wg.Done()
					got[g] = s.f(g)
				}(g)
			}
			wg.Wait()
			rep.Scenarios++
			rep.Calls += G
			for g := 0; g < G; g++ {
				if !bytes.Equal(got[g], want[g]) {
					rep.Mismatches = append(rep.Mismatches, fmt.Sprintf("%s: goroutine %d returned %x, sequential run %x", s.name, g, got[g], want[g]))
				}
			}
			if round == 0 {
				rep.Samples = append(rep.Samples, s.name)
			}
		}
		for _, s := range scens {
			want := s.f()
			var wg sync.WaitGroup
			got := make([][]byte, G)
			for g := 0; g < G; g++ {
				wg.Add(1)
				go func(g int) {
					defer wg.Done()
					got[g] = s.f()
				}(g)
			}
			wg.Wait()
			rep.Scenarios++
			rep.Calls += G
			for g := 0; g < G; g++ {
				if !bytes.Equal(got[g], want) {
					rep.Mismatches = append(rep.Mismatches, fmt.Sprintf("%s: goroutine %d returned %x, sequential run %x", s.name, g, got[g], want))
				}
			}
			if round == 0 {
				rep.Samples = append(rep.Samples, s.name)
			}
		}
	}
	json.NewEncoder(os.Stdout).Encode(rep)
}

func b2i(b bool) int {
	if b {
		return 1
	}
	return 0
}

func init() { extraModes["race"] = raceCheck }
