package main

// C15: caller-owned memory is never written, returned buffers are fresh.
// Every slice argument is cut out of a larger sentinel-filled backing array in several layouts
// (interior slice, len < cap, len == cap); the whole backing array is compared before/after.

import (
	"bytes"
	"encoding/json"
	"fmt"
	"math/big"
	"os"
	"strconv"

	secp "github.com/bytemare/secp256k1"
)

type memViolation struct {
	Fn     string `json:"fn"`
	Layout string `json:"layout"`
	What   string `json:"what"`
}

type memReport struct {
	Calls      int            `json:"calls"`
	Layouts    int            `json:"layouts"`
	Violations []memViolation `json:"violations"`
	Samples    []string       `json:"samples"`
	PerFn      map[string]int `json:"per_fn"`
}

// carve returns a slice with the given content at offset off, spare capacity spare (cap = len+spare), inside a
// sentinel-filled backing array which extends `tail` bytes beyond the capacity.
func carve(r *rng, content []byte, off, spare, tail int) (backing, s []byte) {
	backing = make([]byte, off+len(content)+spare+tail)
	for i := range backing {
		backing[i] = byte(0xA0 + r.intn(16))
	}
	copy(backing[off:], content)
	s = backing[off : off+len(content) : off+len(content)+spare]
	return
}

func memCheck(args []string) {
	seed, _ := strconv.ParseUint(args[0], 10, 64)
	n, _ := strconv.Atoi(args[1])
	r := &rng{s: seed ^ 0xC15}
	rep := memReport{PerFn: map[string]int{}}
	layouts := [][3]int{{0, 0, 0}, {0, 1, 0}, {0, 12, 4}, {5, 0, 7}, {3, 1, 9}, {7, 40, 0}, {1, 300, 3}}
	rep.Layouts = len(layouts)
	viol := func(fn string, l [3]int, what string) {
		rep.Violations = append(rep.Violations, memViolation{fn, fmt.Sprintf("off=%d spare=%d tail=%d", l[0], l[1], l[2]), what})
	}
	// call f with carved copies of each slice; report any change in any backing array
	type sliceFn struct {
		name string
		f    func(in [][]byte)
		gen  func() [][]byte
	}
	validC := func() []byte { p := r.affinePoint(); return encCompressed(p) }
	validU := func() []byte {
		p := r.affinePoint()
		for p.inf {
			p = r.affinePoint()
		}
		return encUncompressed(p)
	}
	scal := func() []byte { b := make([]byte, 32); r.scalarVal().FillBytes(b); return b }
	fns := []sliceFn{
		{"HashToGroup", func(in [][]byte) { secp.HashToGroup(in[0], in[1]) }, func() [][]byte { return [][]byte{r.msg(), r.dst(false)} }},
		{"EncodeToGroup", func(in [][]byte) { secp.EncodeToGroup(in[0], in[1]) }, func() [][]byte { return [][]byte{r.msg(), r.dst(false)} }},
		{"HashToScalar", func(in [][]byte) { secp.HashToScalar(in[0], in[1]) }, func() [][]byte { return [][]byte{r.msg(), r.dst(false)} }},
		{"Element.Decode", func(in [][]byte) { _ = secp.NewElement().Decode(in[0]) }, func() [][]byte {
			if r.intn(2) == 0 {
				return [][]byte{validC()}
			}
			return [][]byte{validU()}
		}},
		{"Element.Decode(garbage)", func(in [][]byte) { _ = secp.NewElement().Decode(in[0]) }, func() [][]byte { return [][]byte{r.bytes([]int{1, 33, 65, 10}[r.intn(4)])} }},
		{"Element.DecodeCompressed", func(in [][]byte) { _ = secp.NewElement().DecodeCompressed(in[0]) }, func() [][]byte { return [][]byte{validC()} }},
		{"Element.DecodeUncompressed", func(in [][]byte) { _ = secp.NewElement().DecodeUncompressed(in[0]) }, func() [][]byte { return [][]byte{validU()} }},
		{"Element.UnmarshalBinary", func(in [][]byte) { _ = secp.NewElement().UnmarshalBinary(in[0]) }, func() [][]byte { return [][]byte{validC()} }},
		{"Scalar.Decode", func(in [][]byte) { _ = secp.NewScalar().Decode(in[0]) }, func() [][]byte {
			if r.intn(3) == 0 {
				return [][]byte{r.bytes32Edge(bigN)}
			}
			return [][]byte{scal()}
		}},
		{"Scalar.UnmarshalBinary", func(in [][]byte) { _ = secp.NewScalar().UnmarshalBinary(in[0]) }, func() [][]byte { return [][]byte{scal()} }},
	}
	for it := 0; it < n; it++ {
		for _, fn := range fns {
			content := fn.gen()
			for _, l := range layouts {
				var backs, before [][]byte
				var in [][]byte
				for _, c := range content {
					b, s := carve(r, c, l[0], l[1], l[2])
					backs = append(backs, b)
					before = append(before, append([]byte(nil), b...))
					in = append(in, s)
				}
				func() {
					defer func() { _ = recover() }()
					fn.f(in)
				}()
				rep.Calls++
				rep.PerFn[fn.name]++
				for k := range backs {
					if !bytes.Equal(backs[k], before[k]) {
						pos := 0
						for pos < len(backs[k]) && backs[k][pos] == before[k][pos] {
							pos++
						}
						viol(fn.name, l, fmt.Sprintf("argument %d: backing array changed at index %d (slice is [%d:%d:%d]): %#x -> %#x",
							k, pos, l[0], l[0]+len(content[k]), l[0]+len(content[k])+l[1], before[k][pos], backs[k][pos]))
					}
				}
				if len(rep.Samples) < 4 {
					rep.Samples = append(rep.Samples, fmt.Sprintf("%s lens=%v layout off=%d spare=%d tail=%d", fn.name, lens(content), l[0], l[1], l[2]))
				}
			}
		}
		// returned buffers are fresh: mutate them, the source value and later results are unaffected
		_, raw := r.point()
		e := el(raw)
		type retFn struct {
			name string
			f    func() []byte
		}
		s := sc(montN(r.scalarVal()))
		rets := []retFn{
			{"Element.Encode", func() []byte { return e.Encode() }},
			{"Element.EncodeUncompressed", func() []byte { return e.EncodeUncompressed() }},
			{"Element.XCoordinate", func() []byte { return e.XCoordinate() }},
			{"Element.MarshalBinary", func() []byte { b, _ := e.MarshalBinary(); return b }},
			{"Scalar.Encode", func() []byte { return s.Encode() }},
			{"Scalar.MarshalBinary", func() []byte { b, _ := s.MarshalBinary(); return b }},
			{"Order", func() []byte { return secp.Order() }},
		}
		for _, rf := range rets {
			a := rf.f()
			want := append([]byte(nil), a...)
			full := a[:cap(a)]
			for i := range full {
				full[i] ^= 0xff
			}
			b := rf.f()
			rep.Calls++
			rep.PerFn[rf.name]++
			if !bytes.Equal(b, want) {
				viol(rf.name, [3]int{}, "writing to a returned buffer changed a later result")
			}
			if len(a) > 0 && len(b) > 0 && &a[0] == &b[0] {
				viol(rf.name, [3]int{}, "two calls returned the same backing array")
			}
		}
		// pointer arguments keep their value
		sa, sb := sc(montN(r.scalarVal())), sc(montN(r.scalarVal()))
		keep := limbs(sb.S)
		for name, f := range map[string]func(){
			"Scalar.Add": func() { sa.Add(sb) }, "Scalar.Subtract": func() { sa.Subtract(sb) }, "Scalar.Multiply": func() { sa.Multiply(sb) },
			"Scalar.Set": func() { sa.Set(sb) }, "Scalar.Equal": func() { sa.Equal(sb) }, "Scalar.LessOrEqual": func() { sa.LessOrEqual(sb) },
			"Scalar.Pow": func() { sa.Pow(sb) }, "Scalar.CSelect": func() { _ = sa.CSelect(uint64(r.intn(3)), sb, sb) },
			"Element.Multiply": func() { e.Multiply(sb) },
		} {
			f()
			rep.Calls++
			rep.PerFn[name]++
			if limbs(sb.S) != keep {
				viol(name, [3]int{}, "scalar argument changed")
				sb.S = keep
			}
		}
	}
	// element arguments keep their value: every method taking an *Element, with the receiver in the states a fast path might
	// single out (identity as created, identity as a result, the base point, an unrelated point, a copy of the argument) and
	// the argument a valid element in some representation (or the identity)
	for it := 0; it < n; it++ {
		_, rawArg := r.point()
		argStates := []rawPt{rawArg, proj(apt{inf: true}, big.NewInt(1)), proj(aG, big.NewInt(1))}
		for _, ra := range argStates {
			recvs := map[string]func() *secp.Element{
				"identity(new)":    func() *secp.Element { return secp.NewElement() },
				"identity(P-P)":    func() *secp.Element { q := secp.Base(); return q.Subtract(secp.Base()) },
				"base":             func() *secp.Element { return secp.Base() },
				"point":            func() *secp.Element { _, rr := r.point(); return el(rr) },
				"copy-of-argument": func() *secp.Element { return el(ra) },
			}
			for rname, mk := range recvs {
				for name, f := range map[string]func(e, a *secp.Element){
					"Element.Add": func(e, a *secp.Element) { e.Add(a) }, "Element.Subtract": func(e, a *secp.Element) { e.Subtract(a) },
					"Element.Equal": func(e, a *secp.Element) { e.Equal(a) }, "Element.Set": func(e, a *secp.Element) { e.Set(a) },
				} {
					arg := el(ra)
					before := secp.VerifRaw(arg)
					f(mk(), arg)
					rep.Calls++
					rep.PerFn[name]++
					if secp.VerifRaw(arg) != before {
						viol(name, [3]int{}, "element argument changed (receiver: "+rname+", argument "+showP(ra)+")")
					}
				}
			}
		}
	}
	json.NewEncoder(os.Stdout).Encode(rep)
}

func lens(bs [][]byte) []int {
	var o []int
	for _, b := range bs {
		o = append(o, len(b))
	}
	return o
}

func init() { extraModes["mem"] = memCheck }
