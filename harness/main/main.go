// verifharness: built inside the module by overlay (virtual directory internal/verifharness).
//
//	verifharness gen <family> <seed> <n>     write an operation file to stdout
//	verifharness run                          execute operation lines from stdin against the real code
package main

import (
	"fmt"
	"os"
	"strconv"
)

func main() {
	if len(os.Args) < 2 {
		fmt.Fprintln(os.Stderr, "usage: verifharness gen|run|mem|race|rnd ...")
		os.Exit(2)
	}
	switch os.Args[1] {
	case "gen":
		seed, _ := strconv.ParseUint(os.Args[3], 10, 64)
		n, _ := strconv.Atoi(os.Args[4])
		genOps(os.Args[2], seed, n)
	case "run":
		runOps()
	default:
		if f, ok := extraModes[os.Args[1]]; ok {
			f(os.Args[2:])
			return
		}
		fmt.Fprintln(os.Stderr, "unknown mode")
		os.Exit(2)
	}
}

var extraModes = map[string]func([]string){}
