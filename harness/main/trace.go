//go:build verif_trace

package main

// C19: built only against the instrumented scratch copy of the tree (tag verif_trace).

import (
	"fmt"
	"math/big"
	"os"
	"strconv"

	secp "github.com/bytemare/secp256k1"
	"github.com/bytemare/secp256k1/internal/vtrace"
)

const traceM = (1 << 61) - 1

func hashTrace(log []string) uint64 {
	h := uint64(1)
	for _, s := range log {
		hs := uint64(7)
		for i := 0; i < len(s); i++ {
			hs = (hs*131 + uint64(s[i])) % 2147483647
		}
		// (h * 1000003 + hs) mod M without overflow: h < 2^61, 1000003 < 2^20 -> < 2^81: use big-free split
		hi, lo := mul64(h, 1000003)
		h = (mod128(hi, lo) + hs) % traceM
	}
	return h
}

func mul64(a, b uint64) (uint64, uint64) {
	x := new(big.Int).Mul(new(big.Int).SetUint64(a), new(big.Int).SetUint64(b))
	return new(big.Int).Rsh(x, 64).Uint64(), new(big.Int).And(x, new(big.Int).SetUint64(^uint64(0))).Uint64()
}
func mod128(hi, lo uint64) uint64 {
	x := new(big.Int).Lsh(new(big.Int).SetUint64(hi), 64)
	x.Or(x, new(big.Int).SetUint64(lo))
	return x.Mod(x, big.NewInt(traceM)).Uint64()
}

func traceCheck(args []string) {
	seed, _ := strconv.ParseUint(args[0], 10, 64)
	n, _ := strconv.Atoi(args[1])
	r := &rng{s: seed ^ 0xC19}
	n1 := new(big.Int).Sub(bigN, big1)
	fixed := []*big.Int{big.NewInt(0), big.NewInt(2), big.NewInt(3), n1, new(big.Int).Sub(bigN, big.NewInt(2)),
		new(big.Int).Lsh(big1, 255), new(big.Int).Add(new(big.Int).Lsh(big1, 255), big1), new(big.Int).Lsh(big1, 64),
		new(big.Int).Sub(new(big.Int).Lsh(big1, 200), big1), big.NewInt(1)}
	for i := 0; i < n+len(fixed)+1; i++ {
		_, raw := r.point()
		p := el(raw)
		var k *secp.Scalar
		kind := "other"
		var kv *big.Int
		switch {
		case i < len(fixed):
			kv = fixed[i]
		case i == len(fixed):
			kind = "nil"
		default:
			kv = r.scalarVal()
		}
		if kv != nil {
			k = sc(montN(kv))
			if kv.Cmp(big1) == 0 {
				kind = "one"
			}
		}
		vtrace.Log = vtrace.Log[:0]
		vtrace.On = true
		p.Multiply(k)
		vtrace.On = false
		ks := "nil"
		if kv != nil {
			ks = showBig(kv)
		}
		fmt.Fprintf(os.Stdout, "TR k=%s kind=%s len=%d h=%d\n", ks, kind, len(vtrace.Log), hashTrace(vtrace.Log))
	}
}

func init() { extraModes["trace"] = traceCheck }
