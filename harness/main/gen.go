package main

import (
	"bufio"
	"encoding/binary"
	"encoding/hex"
	"fmt"
	"math/big"
	"os"
	"strings"
)

// ---------- value generators (all randomness from the one rng) ----------

var edgeLimbs = []uint64{0, 1, 2, 1<<32 - 1, 1 << 32, 1<<32 + 977, 1 << 63, 1<<64 - 2, 1<<64 - 1, 0xfffffffefffffc2f, 0xfffffffefffffc2e,
	0xbfd25e8cd0364141, 0xbaaedce6af48a03b, 0xfffffffffffffffe}

func bigHex(s string) *big.Int { v, _ := new(big.Int).SetString(s, 16); return v }

func specialsMod(m *big.Int) []*big.Int {
	h := new(big.Int).Rsh(m, 1)
	return []*big.Int{big.NewInt(0), big.NewInt(1), big.NewInt(2), big.NewInt(3), new(big.Int).Sub(m, big1), new(big.Int).Sub(m, big.NewInt(2)),
		h, new(big.Int).Add(h, big1), new(big.Int).Mod(bigR, m), big.NewInt(977), new(big.Int).Lsh(big1, 255), new(big.Int).Lsh(big1, 128),
		new(big.Int).Mod(new(big.Int).Mul(bigR, bigR), m), new(big.Int).Sub(new(big.Int).Lsh(big1, 192), big1), new(big.Int).Lsh(big1, 64)}
}

// raw Montgomery limbs of a field (mod m) value. canon=false allows non-canonical limb patterns (>= m).
var carryPropCache = map[string][]limbs{}

func (r *rng) rawMod(m *big.Int, allowNonCanon bool) limbs {
	switch c := r.intn(100); {
	case c < 4:
		// operands constructed to push a carry through an all-ones limb of a Montgomery reduction round (carryprop.go)
		k := m.String()
		if _, ok := carryPropCache[k]; !ok {
			carryPropCache[k] = carryPropLimbs(m)
		}
		if cp := carryPropCache[k]; len(cp) > 0 {
			return cp[r.intn(len(cp))]
		}
		return bigToLimbs(new(big.Int).Mod(r.big256(), m))
	case c < 45:
		return bigToLimbs(new(big.Int).Mod(r.big256(), m))
	case c < 70:
		var l limbs
		mixed := r.intn(3) == 0 // some limbs random, the others boundary words
		for i := range l {
			if mixed && r.intn(2) == 0 {
				l[i] = r.next()
			} else {
				l[i] = edgeLimbs[r.intn(len(edgeLimbs))]
			}
		}
		v := limbsToBig(l)
		if v.Cmp(m) >= 0 && !(allowNonCanon && r.intn(2) == 0) {
			v.Mod(v, m)
		}
		return bigToLimbs(v)
	case c < 90:
		sp := specialsMod(m)
		v := sp[r.intn(len(sp))]
		if r.intn(2) == 0 { // the value itself as raw limbs
			return bigToLimbs(new(big.Int).Mod(v, m))
		}
		return bigToLimbs(new(big.Int).Mod(new(big.Int).Mul(v, bigR), m)) // Montgomery form of the value
	default: // near the modulus
		d := big.NewInt(int64(r.intn(5)))
		v := new(big.Int).Sub(m, d)
		if v.Cmp(m) >= 0 && !allowNonCanon {
			v.Sub(v, big1)
		}
		if v.Cmp(m) >= 0 && r.intn(2) == 0 {
			v.Sub(m, big1)
		}
		return bigToLimbs(v)
	}
}

func (r *rng) feRaw() limbs   { return r.rawMod(bigP, true) }
func (r *rng) feCanon() limbs { return r.rawMod(bigP, false) }
func (r *rng) scRaw() limbs   { return r.rawMod(bigN, true) }
func (r *rng) scCanon() limbs { return r.rawMod(bigN, false) }

// scalar values (canonical integers) with the edge classes of C01/C14
func (r *rng) scalarVal() *big.Int {
	n1 := new(big.Int).Sub(bigN, big1)
	switch c := r.intn(100); {
	case c < 30:
		return new(big.Int).Mod(r.big256(), bigN)
	case c < 45:
		v := new(big.Int).Mod(r.big256(), bigN)
		v.SetBit(v, 255, 1)
		return v.Mod(v, bigN)
	case c < 60:
		return []*big.Int{big.NewInt(0), big.NewInt(1), big.NewInt(2), big.NewInt(3), n1, new(big.Int).Sub(bigN, big.NewInt(2)),
			new(big.Int).Lsh(big1, 255), new(big.Int).Add(new(big.Int).Lsh(big1, 255), big1), new(big.Int).Sub(new(big.Int).Lsh(big1, 255), big1),
			new(big.Int).Rsh(bigN, 1), new(big.Int).Add(new(big.Int).Rsh(bigN, 1), big1)}[r.intn(11)]
	case c < 75:
		return new(big.Int).Lsh(big1, uint(r.intn(256)))
	case c < 85:
		v := new(big.Int).Sub(new(big.Int).Lsh(big1, uint(1+r.intn(256))), big1)
		return v.Mod(v, bigN)
	default:
		return big.NewInt(int64(r.intn(20)))
	}
}

// rInvP = R^-1 mod p: a value v*rInvP has Montgomery limbs equal to the plain limbs of v
var rInvP = new(big.Int).ModInverse(bigR, bigP)

// sparseMont returns a non-zero field value whose Montgomery representation has a single non-zero 64-bit limb (or two):
// scalings by such values give coordinates whose limbs are mostly zero, the blind spot of limb-wise comparisons
func (r *rng) sparseMont() *big.Int {
	k := []uint64{1, 2, 12, 1 << 63, ^uint64(0), r.next() | 1}[r.intn(6)]
	v := new(big.Int).Lsh(new(big.Int).SetUint64(k), uint(64*r.intn(4)))
	if r.intn(4) == 0 {
		v.Add(v, new(big.Int).Lsh(new(big.Int).SetUint64(r.next()|1), uint(64*r.intn(4))))
	}
	v.Mod(v, bigP)
	if v.Sign() == 0 {
		v.SetInt64(1)
	}
	return modP(new(big.Int).Mul(v, rInvP))
}

func (r *rng) lambda() *big.Int {
	switch r.intn(6) {
	case 5:
		return r.sparseMont()
	case 0:
		return big.NewInt(1)
	case 1:
		return big.NewInt(2)
	case 2:
		return new(big.Int).Sub(bigP, big1)
	default:
		v := new(big.Int).Mod(r.big256(), bigP)
		if v.Sign() == 0 {
			v.SetInt64(7)
		}
		return v
	}
}

var beta = bigHex("7ae96a2b657c07106e64479eac3434e99cf0497512f58995c1396c28719501ee")

func (r *rng) affinePoint() apt {
	switch c := r.intn(100); {
	case c < 12:
		return apt{inf: true}
	case c < 30:
		return aMul(big.NewInt(int64(1+r.intn(16))), aG)
	case c < 40:
		return aNeg(aMul(big.NewInt(int64(1+r.intn(16))), aG))
	case c < 50:
		p := aMul(new(big.Int).Mod(r.big256(), bigN), aG)
		if p.inf {
			return p
		}
		return apt{x: modP(new(big.Int).Mul(p.x, beta)), y: p.y} // same y, different x (endomorphism)
	default:
		return aMul(new(big.Int).Mod(r.big256(), bigN), aG)
	}
}

func (r *rng) point() (apt, rawPt) {
	p := r.affinePoint()
	return p, proj(p, r.lambda())
}

func (r *rng) msg() []byte {
	lens := []int{0, 1, 2, 3, 16, 55, 56, 63, 64, 65, 119, 120, 128, 512, 1000}
	if r.intn(3) == 0 {
		return r.bytes(r.intn(200))
	}
	return r.bytes(lens[r.intn(len(lens))])
}

func (r *rng) dst(allowEmpty bool) []byte {
	lens := []int{1, 2, 15, 16, 17, 49, 254, 255, 256, 257, 300, 1000}
	if allowEmpty && r.intn(12) == 0 {
		return []byte{}
	}
	if r.intn(3) == 0 {
		return r.bytes(1 + r.intn(80))
	}
	return r.bytes(lens[r.intn(len(lens))])
}

// ---------- families ----------

type emitter struct {
	w     *bufio.Writer
	n     int
	allow map[string]bool // nil: every op
}

func (e *emitter) line(parts ...string) {
	if e.allow != nil && !e.allow[parts[0]] {
		return
	}
	fmt.Fprintln(e.w, strings.Join(parts, " "))
	e.n++
}

func genField(e *emitter, r *rng, n int) {
	for guard := 0; e.n < n && guard < 200*n+1000; guard++ {
		a, b := showL(r.feRaw()), showL(r.feRaw())
		switch r.intn(17) {
		case 0:
			e.line("F.add", a, b)
		case 1:
			e.line("F.sub", a, b)
		case 2, 3:
			e.line("F.mul", a, b)
		case 4:
			e.line("F.sq", a)
		case 5:
			e.line("F.neg", a)
		case 6:
			if r.intn(4) == 0 {
				e.line("F.inv", a)
			} else {
				e.line("F.exp", a)
			}
		case 7:
			// ratio of a known square / non-square over a random denominator
			u, v := showL(r.feCanon()), showL(r.feCanon())
			e.line("F.sqrt", u, v)
		case 8:
			e.line("F.sgn", a)
		case 9:
			e.line("F.iszero", a)
		case 10:
			switch r.intn(4) {
			case 0:
				b = a
			case 1, 2:
				b = showL(r.nearEqual(parseL(a), bigP))
			}
			e.line("F.eq", a, b)
		case 11:
			c := []string{"0", "1", "0", "1", "2", "3", "100000000", "8000000000000000", "ffffffffffffffff", fmt.Sprintf("%x", r.next())}[r.intn(10)]
			e.line("F.cmov", c, a, b)
		case 12:
			e.line("F.frombytes", hex.EncodeToString(r.bytes32Edge(bigP)))
		case 13:
			e.line("F.bytes", a)
		case 14:
			e.line("F.h2f", hex.EncodeToString(r.bytes48Edge(bigP)))
		case 15:
			e.line("F.tomont", a)
		case 16:
			e.line("F.frommont", a)
		}
	}
}

// 32-byte strings around the modulus m
func (r *rng) bytes32Edge(m *big.Int) []byte {
	b := make([]byte, 32)
	switch c := r.intn(100); {
	case c < 12:
		return r.wordBytes(4)
	case c < 35:
		return r.bytes(32)
	case c < 55:
		v := new(big.Int).Add(m, big.NewInt(int64(r.intn(7)-3)))
		v.FillBytes(b)
	case c < 65: // differs from m in exactly one limb
		l := bigToLimbs(m)
		l[r.intn(4)] += uint64(r.intn(3)) - 1
		limbsToBig(l).FillBytes(b)
	case c < 75: // one bit flipped
		v := new(big.Int).Set(m)
		k := r.intn(256)
		v.SetBit(v, k, v.Bit(k)^1)
		v.FillBytes(b)
	case c < 85:
		sp := []*big.Int{big.NewInt(0), big.NewInt(1), new(big.Int).Sub(bigR, big1), new(big.Int).Lsh(big1, 255), new(big.Int).Sub(m, big1)}
		sp[r.intn(len(sp))].FillBytes(b)
	default:
		new(big.Int).Mod(r.big256(), m).FillBytes(b)
	}
	return b
}

// wordBytes: big-endian string of n 64-bit words, each word 0, all-ones, a small value or random (weighted towards the
// first two): carry/borrow chains and wide reductions break on such patterns, never on uniformly random strings
func (r *rng) wordBytes(n int) []byte {
	b := make([]byte, 8*n)
	for i := 0; i < n; i++ {
		var w uint64
		switch c := r.intn(20); {
		case c < 6:
			w = 0
		case c < 12:
			w = ^uint64(0)
		case c < 14:
			w = uint64(1 + r.intn(3))
		case c < 15:
			w = ^uint64(0) - uint64(r.intn(3))
		case c < 16:
			w = 1 << 63
		default:
			w = r.next()
		}
		binary.BigEndian.PutUint64(b[8*i:], w)
	}
	return b
}

func (r *rng) bytes48Edge(m *big.Int) []byte {
	b := r.bytes(48)
	switch r.intn(10) {
	case 8, 9:
		return r.wordBytes(6)
	case 0:
		for i := range b {
			b[i] = 0xff
		}
	case 1: // a maximal, b,c random
		for i := 24; i < 48; i++ {
			b[i] = 0xff
		}
	case 2:
		for i := 0; i < 24; i++ {
			b[i] = 0xff
		}
	case 3: // multiple of m, or m*k - 1
		k := new(big.Int).SetBytes(r.bytes(15))
		v := new(big.Int).Mul(m, k)
		if r.intn(2) == 0 && v.Sign() > 0 {
			v.Sub(v, big1)
		}
		v.FillBytes(b)
	case 4:
		for i := range b {
			b[i] = 0
		}
		b[r.intn(48)] = byte(1 << r.intn(8))
	}
	return b
}

func genScalarField(e *emitter, r *rng, n int) {
	for guard := 0; e.n < n && guard < 200*n+1000; guard++ {
		a, b := showL(r.scRaw()), showL(r.scRaw())
		switch r.intn(12) {
		case 0:
			e.line("S.add", a, b)
		case 1:
			e.line("S.sub", a, b)
		case 2, 3:
			e.line("S.mul", a, b)
		case 4:
			e.line("S.sq", a)
		case 5:
			if r.intn(3) == 0 {
				e.line("S.inv", a)
			} else {
				e.line("S.iszero", a)
			}
		case 6:
			e.line("S.tomont", a)
		case 7:
			e.line("S.frommont", a)
		case 8:
			e.line("S.reducebytes", hex.EncodeToString(r.bytes32Edge(bigN)))
		case 9:
			e.line("S.h2f", hex.EncodeToString(r.bytes48Edge(bigN)))
		case 10:
			switch r.intn(4) {
			case 0:
				b = a
			case 1, 2:
				b = showL(r.nearEqual(parseL(a), bigN))
			}
			e.line("S.eq", a, b)
		case 11:
			c := []string{"0", "1", "2", "ffffffffffffffff", fmt.Sprintf("%x", r.next())}[r.intn(5)]
			e.line("S.cmov", c, a, b)
		}
	}
}

func optS(r *rng, s string) string {
	if r.intn(10) == 0 {
		return "nil"
	}
	return s
}

func genScalarAPI(e *emitter, r *rng, n int) {
	e.line("SC.zero")
	e.line("SC.one")
	e.line("SC.minusone")
	// boundary x boundary: every binary operation on every pair of boundary values (and nil), every unary one on each
	n1 := new(big.Int).Sub(bigN, big1)
	edge := []string{}
	for _, v := range []*big.Int{big.NewInt(0), big1, big.NewInt(2), n1, new(big.Int).Sub(bigN, big.NewInt(2)), new(big.Int).Rsh(bigN, 1),
		new(big.Int).Lsh(big1, 255), new(big.Int).Mod(bigR, bigN)} {
		edge = append(edge, showL(montN(v)))
	}
	// and as *stored* limbs: values whose Montgomery representation is 1, 2, a single high limb, all-ones in the low limb
	for _, l := range []limbs{{1, 0, 0, 0}, {2, 0, 0, 0}, {0, 1, 0, 0}, {0, 0, 0, 1}, {^uint64(0), 0, 0, 0}, {0, 0, 0, 1 << 63}} {
		edge = append(edge, showL(l))
	}
	seenA0 := map[uint64]bool{}
	for _, l := range carryPropLimbs(bigN) { // one tuple per constructed low limb (the prefix is quadratic in this list)
		if !seenA0[l[0]] {
			seenA0[l[0]] = true
			edge = append(edge, showL(l))
		}
	}
	for _, a := range edge {
		for _, op := range []string{"SC.addself", "SC.subself", "SC.mulself", "SC.sq", "SC.inv", "SC.powself", "SC.bits", "SC.enc", "SC.iszero", "SC.isone"} {
			e.line(op, a)
		}
		for _, b := range append([]string{"nil"}, edge...) {
			for _, op := range []string{"SC.add", "SC.sub", "SC.mul", "SC.pow", "SC.set", "SC.eq"} {
				e.line(op, a, b)
			}
			if b != "nil" {
				e.line("SC.leq", a, b)
			}
		}
	}
	for guard := 0; e.n < n && guard < 200*n+1000; guard++ {
		a, b := showL(montN(r.scalarVal())), showL(montN(r.scalarVal()))
		if r.intn(4) == 0 {
			a = showL(r.scCanon())
		}
		if r.intn(4) == 0 {
			b = showL(r.scCanon())
		}
		switch r.intn(24) {
		case 0:
			e.line("SC.add", a, optS(r, b))
		case 1:
			e.line("SC.sub", a, optS(r, b))
		case 2:
			e.line("SC.mul", a, optS(r, b))
		case 3:
			e.line([]string{"SC.addself", "SC.subself", "SC.mulself", "SC.sq"}[r.intn(4)], a)
		case 4:
			if r.intn(4) == 0 {
				e.line("SC.inv", a)
			} else {
				e.line("SC.set", a, optS(r, b))
			}
		case 5:
			if r.intn(4) == 0 {
				e.line("SC.pow", a, optS(r, b))
			} else if r.intn(6) == 0 {
				e.line("SC.powself", a)
			} else {
				e.line("SC.pow", a, showL(montN(big.NewInt(int64(r.intn(5))))))
			}
		case 6:
			e.line("SC.setu64", []string{"0", "1", "ffffffffffffffff", "8000000000000000", fmt.Sprintf("%x", r.next())}[r.intn(5)])
		case 7:
			switch r.intn(4) {
			case 0:
				b = a
			case 1, 2:
				b = showL(r.nearEqual(parseL(a), bigN))
			}
			e.line("SC.eq", a, optS(r, b))
		case 8:
			e.line("SC.iszero", a)
		case 9:
			e.line("SC.isone", a)
		case 10, 11, 12:
			switch r.intn(4) {
			case 0:
				b = a
			case 1: // neighbours
				v := limbsToBig(parseL(a))
				_ = v
			}
			e.line("SC.leq", a, b)
		case 13, 14:
			c := []string{"0", "1", "2", "3", "100000000", "8000000000000000", "ffffffffffffffff", "fffffffffffffffe", fmt.Sprintf("%x", r.next())}[r.intn(9)]
			rc := showL(r.scCanon())
			switch r.intn(3) { // receiver holding the same value as an operand: run.go then passes the very same object
			case 1:
				rc = a
			case 2:
				rc = b
			}
			e.line("SC.csel", rc, c, optS(r, a), optS(r, b))
		case 15, 16, 17:
			e.line("SC.bits", a)
		case 18:
			e.line("SC.enc", a)
		case 19, 20, 21:
			var by []byte
			switch c := r.intn(10); {
			case c < 6:
				by = r.bytes32Edge(bigN)
			case c < 8:
				by = r.bytes(r.intn(71))
			default:
				by = make([]byte, 32)
				r.scalarVal().FillBytes(by)
			}
			op := "SC.dec"
			if r.intn(5) == 0 {
				op = "SC.unmarshal"
			}
			e.line(op, showL(r.scCanon()), showB(by))
		case 22, 23:
			var s string
			switch c := r.intn(10); {
			case c < 5:
				s = hex.EncodeToString(r.bytes32Edge(bigN))
			case c < 7:
				s = strings.ToUpper(hex.EncodeToString(r.bytes32Edge(bigN)))
			case c < 8:
				s = hex.EncodeToString(r.bytes(r.intn(40)))
			case c < 9:
				s = hex.EncodeToString(r.bytes(32))[:63]
			default:
				s = "zz" + hex.EncodeToString(r.bytes(31))
			}
			e.line("SC.dechex", showL(r.scCanon()), showB([]byte(s)))
		}
	}
}

// pair of points covering the exceptional classes of the addition law
// lineMate returns another curve point Q with x(Q) + s*y(Q) = x(P) + s*y(P) (s = +-1), if one exists: distinct elements
// whose coordinate differences cancel under a comparison that merges the two cross-multiplied tests linearly.
func lineMate(p apt, sign int64) (apt, bool) {
	if p.inf {
		return p, false
	}
	// y = s*(c - x), c = x1 + s*y1  =>  x^3 - x^2 + 2c x + 7 - c^2 = 0; dividing by (x - x1): x^2 + a x + b
	c := modP(new(big.Int).Add(p.x, new(big.Int).Mul(big.NewInt(sign), p.y)))
	a := modP(new(big.Int).Sub(p.x, big1))
	b := modP(new(big.Int).Add(new(big.Int).Lsh(c, 1), new(big.Int).Mul(a, p.x)))
	disc := modP(new(big.Int).Sub(new(big.Int).Mul(a, a), new(big.Int).Lsh(b, 2)))
	sq, ok := sqrtP(disc)
	if !ok {
		return p, false
	}
	inv2 := new(big.Int).ModInverse(big.NewInt(2), bigP)
	x2 := modP(new(big.Int).Mul(new(big.Int).Sub(sq, a), inv2))
	y2 := modP(new(big.Int).Mul(big.NewInt(sign), new(big.Int).Sub(c, x2)))
	// on-curve check (guards the derivation)
	lhs := modP(new(big.Int).Mul(y2, y2))
	rhs := modP(new(big.Int).Add(new(big.Int).Mul(x2, new(big.Int).Mul(x2, x2)), big.NewInt(7)))
	if lhs.Cmp(rhs) != 0 || (x2.Cmp(p.x) == 0 && y2.Cmp(p.y) == 0) {
		return p, false
	}
	return apt{x: x2, y: y2}, true
}

// endoMate returns the point (beta^k * x, y), beta a primitive cube root of unity mod p: a different point with the same y
// coordinate (the curve has j-invariant 0), which a comparison that looks at one coordinate only cannot tell from P.
func endoMate(p apt, k int) (apt, bool) {
	if p.inf || p.x.Sign() == 0 {
		return p, false
	}
	sq, ok := sqrtP(modP(big.NewInt(-3)))
	if !ok {
		return p, false
	}
	inv2 := new(big.Int).ModInverse(big.NewInt(2), bigP)
	beta := modP(new(big.Int).Mul(new(big.Int).Sub(sq, big1), inv2))
	if k == 2 {
		beta = modP(new(big.Int).Mul(beta, beta))
	}
	return apt{x: modP(new(big.Int).Mul(beta, p.x)), y: new(big.Int).Set(p.y)}, true
}

func (r *rng) pointPair() (rawPt, rawPt) {
	p := r.affinePoint()
	var q apt
	if r.intn(10) == 0 {
		if m, ok := endoMate(p, 1+r.intn(2)); ok {
			return proj(p, r.lambda()), proj(m, r.lambda())
		}
	}
	if r.intn(8) == 0 {
		if m, ok := lineMate(p, []int64{1, -1}[r.intn(2)]); ok {
			return proj(p, r.lambda()), proj(m, r.lambda())
		}
	}
	switch r.intn(6) {
	case 0:
		q = p
	case 1:
		q = aNeg(p)
	case 2:
		q = apt{inf: true}
	default:
		q = r.affinePoint()
	}
	if r.intn(8) == 0 {
		p, q = q, p
	}
	return proj(p, r.lambda()), proj(q, r.lambda())
}

func genPoints(e *emitter, r *rng, n int, withMul int) {
	e.line("G.base")
	e.line("G.order")
	e.line("G.consts")
	for guard := 0; e.n < n && guard < 200*n+1000; guard++ {
		p, q := r.pointPair()
		switch r.intn(15) {
		case 0, 1, 2:
			e.line("PT.add", argsP(p), argsP(q))
		case 3:
			e.line([]string{"PT.addself", "PT.dbl", "PT.addnil", "PT.subnil", "PT.subself"}[r.intn(5)], argsP(p))
		case 4:
			e.line("PT.dbl", argsP(p))
		case 5:
			e.line("PT.neg", argsP(p))
		case 6, 7:
			e.line("PT.sub", argsP(p), argsP(q))
		case 8, 9:
			e.line("PT.eq", argsP(p), argsP(q))
		case 10:
			if r.intn(2) == 0 {
				e.line("PT.isid", argsP(p))
			} else {
				e.line("PT.eqself", argsP(p))
			}
		case 11, 12:
			e.line("PT.enc", argsP(p))
		case 14:
			if r.intn(2) == 0 {
				// an operand with a history: created as the base point or by decoding, then overwritten in place
				k := showL(montN(r.scalarVal()))
				if r.intn(4) == 0 {
					k = showL(montN(big.NewInt(int64(2 + r.intn(6)))))
				}
				e.line("PT.viaapi", argsP(p), argsP(q), []string{"base", "dec"}[r.intn(2)],
					[]string{"set", "mul", "dbl", "add", "neg", "ident", "none"}[r.intn(7)], k)
				break
			}
			// operands that an API call turned into the identity while they held another point
			e.line("PT.viaid", argsP(p), argsP(q), []string{"identity", "mulnil", "decode00"}[r.intn(3)])
		case 13:
			// raw garbage coordinates: only the model/implementation agreement is checked
			e.line("PT.add", argsP(rawPt{r.feRaw(), r.feRaw(), r.feRaw()}), argsP(q))
		}
	}
	base := e.n
	for guard := 0; e.n < base+withMul && guard < 50*withMul; guard++ {
		_, p := r.point()
		k := "nil"
		if c := r.intn(12); c == 1 {
			// raw limb patterns (a value used directly as Montgomery limbs: catches canonical/Montgomery domain confusions)
			k = showL(r.scCanon())
		} else if c == 2 {
			k = showL([]limbs{{1, 0, 0, 0}, {2, 0, 0, 0}, {0, 1, 0, 0}, {0, 0, 0, 1}, bigToLimbs(new(big.Int).Mod(bigR, bigN)),
				bigToLimbs(new(big.Int).Mod(new(big.Int).Mul(bigR, bigR), bigN)), bigToLimbs(new(big.Int).Sub(bigN, big1))}[r.intn(7)])
		} else if c != 0 {
			k = showL(montN(r.scalarVal()))
		}
		e.line("PT.mul", argsP(p), k)
	}
}

// the three exceptional u of the SSWU map: 0 and ±sqrt(-1/Z), Z = -11
func exceptionalU() []*big.Int {
	inv11 := new(big.Int).ModInverse(big.NewInt(11), bigP) // -1/Z = 1/11
	s, ok := sqrtP(inv11)
	if !ok {
		return []*big.Int{big.NewInt(0)}
	}
	return []*big.Int{big.NewInt(0), s, new(big.Int).Sub(bigP, s)}
}

// sparseTv2U: field elements u for which the quantity the exceptional branch of SSWU tests, tv2 = Z^2 u^4 + Z u^2, is
// non-zero but has a Montgomery representation with a single non-zero limb (solve tv1^2 + tv1 = t, u^2 = tv1/Z):
// inputs on which a zero test that looks at only part of the limbs takes the wrong branch
func sparseTv2U(max int) []*big.Int {
	var out []*big.Int
	z := modP(big.NewInt(-11))
	zinv := new(big.Int).ModInverse(z, bigP)
	inv2 := new(big.Int).ModInverse(big.NewInt(2), bigP)
	for j := 3; j >= 0 && len(out) < max; j-- {
		found := 0
		for k := int64(1); k < 400 && found < max/4+1; k++ {
			t := modP(new(big.Int).Mul(new(big.Int).Lsh(big.NewInt(k), uint(64*j)), rInvP))
			disc := modP(new(big.Int).Add(big1, new(big.Int).Lsh(t, 2)))
			sq, ok := sqrtP(disc)
			if !ok {
				continue
			}
			for _, sg := range []*big.Int{sq, new(big.Int).Sub(bigP, sq)} {
				tv1 := modP(new(big.Int).Mul(new(big.Int).Sub(sg, big1), inv2))
				u2 := modP(new(big.Int).Mul(tv1, zinv))
				if u, ok := sqrtP(u2); ok && u.Sign() != 0 {
					out = append(out, u)
					found++
					break
				}
			}
		}
	}
	return out
}

func genMap(e *emitter, r *rng, n int) {
	for _, u := range exceptionalU() {
		e.line("PT.sswu", showL(montP(u)))
		e.line("PT.map", showL(montP(u)))
	}
	for _, u := range sparseTv2U(12) {
		e.line("PT.sswu", showL(montP(u)))
		e.line("PT.map", showL(montP(u)))
	}
	for guard := 0; e.n < n && guard < 200*n+1000; guard++ {
		u := showL(r.feCanon())
		switch r.intn(6) {
		case 0, 1:
			e.line("PT.sswu", u)
		case 2, 3:
			e.line("PT.map", u)
		case 4:
			e.line("PT.map", u)
		case 5:
			// a point of E' obtained from the map, then the isogeny alone is exercised through PT.map; raw garbage through PT.iso
			e.line("PT.iso", argsP(rawPt{r.feCanon(), r.feCanon(), montP(big1)}))
		}
	}
}

// cube root in F_p (p = 1 mod 3): defined when p mod 9 in {4,7}
func cbrtP(c *big.Int) (*big.Int, bool) {
	var e *big.Int
	switch new(big.Int).Mod(bigP, big.NewInt(9)).Int64() {
	case 4:
		e = new(big.Int).Div(new(big.Int).Add(new(big.Int).Lsh(bigP, 1), big1), big.NewInt(9))
	case 7:
		e = new(big.Int).Div(new(big.Int).Add(bigP, big.NewInt(2)), big.NewInt(9))
	default:
		return nil, false
	}
	x := new(big.Int).Exp(c, e, bigP)
	x3 := modP(new(big.Int).Mul(x, new(big.Int).Mul(x, x)))
	return x, x3.Cmp(modP(new(big.Int).Set(c))) == 0
}

// points with y < 2^32+977 (so that y+p still fits in 32 bytes)
func smallYPoints(k int) []apt {
	var out []apt
	for y := int64(1); len(out) < k && y < 2000; y++ {
		yy := big.NewInt(y)
		c := modP(new(big.Int).Sub(new(big.Int).Mul(yy, yy), big.NewInt(7)))
		if x, ok := cbrtP(c); ok {
			out = append(out, apt{x: x, y: yy})
		}
	}
	return out
}

// small x with x^3+7 a square (so that x+p is an on-curve-after-reduction non-canonical abscissa)
func smallXPoints(k int) []apt {
	var out []apt
	for x := int64(1); len(out) < k && x < 2000; x++ {
		xx := big.NewInt(x)
		c := modP(new(big.Int).Add(new(big.Int).Mul(xx, new(big.Int).Mul(xx, xx)), big.NewInt(7)))
		if y, ok := sqrtP(c); ok {
			out = append(out, apt{x: xx, y: y})
		}
	}
	return out
}

// points whose x (resp. y) is just below p: canonical encodings at the top of the range
func highXPoints(k int) []apt {
	var out []apt
	for d := int64(1); len(out) < k && d < 4000; d++ {
		x := new(big.Int).Sub(bigP, big.NewInt(d))
		c := modP(new(big.Int).Add(new(big.Int).Mul(x, new(big.Int).Mul(x, x)), big.NewInt(7)))
		if y, ok := sqrtP(c); ok {
			out = append(out, apt{x: x, y: y})
		}
	}
	return out
}

func highYPoints(k int) []apt {
	var out []apt
	for d := int64(1); len(out) < k && d < 4000; d++ {
		y := new(big.Int).Sub(bigP, big.NewInt(d))
		c := modP(new(big.Int).Sub(new(big.Int).Mul(y, y), big.NewInt(7)))
		if x, ok := cbrtP(c); ok {
			out = append(out, apt{x: x, y: y})
		}
	}
	return out
}

var highPts []apt

func (r *rng) encodingCase(smallX, smallY []apt) []byte {
	p := r.affinePoint()
	for p.inf {
		p = r.affinePoint()
	}
	if highPts == nil {
		highPts = append(highXPoints(6), highYPoints(3)...)
		highPts = append(highPts, smallX...)
		highPts = append(highPts, smallY...)
	}
	if r.intn(7) == 0 { // valid points with extreme coordinates (x or y within a few thousand of 0 or p)
		p = highPts[r.intn(len(highPts))]
		if r.intn(2) == 0 {
			p = aNeg(p)
		}
	}
	c := encCompressed(p)
	u := encUncompressed(p)
	switch k := r.intn(40); {
	case k < 6:
		return c
	case k < 10:
		return u
	case k < 11:
		return []byte{0}
	case k < 13: // every prefix byte on a valid compressed body
		c[0] = byte(r.intn(256))
		return c
	case k < 15:
		u[0] = byte(r.intn(256))
		return u
	case k < 16: // wrong parity root still decodes (to the other point)
		c[0] ^= 1
		return c
	case k < 18: // x >= p, on curve after reduction
		q := smallX[r.intn(len(smallX))]
		out := make([]byte, 33)
		out[0] = 2 + byte(r.intn(2))
		new(big.Int).Add(q.x, bigP).FillBytes(out[1:])
		return out
	case k < 20: // uncompressed with x+p or y+p
		if r.intn(2) == 0 {
			q := smallX[r.intn(len(smallX))]
			out := encUncompressed(q)
			new(big.Int).Add(q.x, bigP).FillBytes(out[1:33])
			return out
		}
		if len(smallY) > 0 {
			q := smallY[r.intn(len(smallY))]
			out := encUncompressed(q)
			new(big.Int).Add(q.y, bigP).FillBytes(out[33:])
			return out
		}
		return u
	case k < 22: // x with x^3+7 a non-square
		for {
			x := new(big.Int).Mod(r.big256(), bigP)
			cc := modP(new(big.Int).Add(new(big.Int).Mul(x, new(big.Int).Mul(x, x)), big.NewInt(7)))
			if _, ok := sqrtP(cc); !ok {
				out := make([]byte, 33)
				out[0] = 2 + byte(r.intn(2))
				x.FillBytes(out[1:])
				return out
			}
		}
	case k < 24: // off-curve pair: y off by one, or negated x
		if r.intn(2) == 0 {
			u[64] ^= 1
		} else {
			u[1] ^= 0x40
		}
		return u
	case k < 26: // hybrid prefixes
		u[0] = 6 + byte(p.y.Bit(0))
		return u
	case k < 28: // prefix / length cross-overs
		if r.intn(2) == 0 {
			return append([]byte{4}, c[1:]...)
		}
		return append([]byte{2}, u[1:]...)
	case k < 30: // x = p, p+1, 2^256-1, 0
		out := make([]byte, 33)
		out[0] = 2 + byte(r.intn(2))
		[]*big.Int{bigP, new(big.Int).Add(bigP, big1), new(big.Int).Sub(bigR, big1), big.NewInt(0)}[r.intn(4)].FillBytes(out[1:])
		return out
	case k < 32: // all lengths
		return r.bytes(r.intn(71))
	case k < 33:
		return []byte{byte(r.intn(256))}
	case k < 35: // truncated / extended valid encodings
		if r.intn(2) == 0 {
			return c[:32]
		}
		return append(c, 0)
	case k < 37: // y = p - y (valid), y = 2^256-1
		if r.intn(2) == 0 {
			return encUncompressed(aNeg(p))
		}
		for i := 33; i < 65; i++ {
			u[i] = 0xff
		}
		return u
	default:
		return c
	}
}

func genDecode(e *emitter, r *rng, n int) {
	smallX, smallY := smallXPoints(8), smallYPoints(4)
	for guard := 0; e.n < n && guard < 200*n+1000; guard++ {
		_, recv := r.point()
		b := r.encodingCase(smallX, smallY)
		switch k := r.intn(20); {
		case k < 8:
			e.line("DEC.any", argsP(recv), showB(b))
		case k < 10:
			e.line("DEC.unmarshal", argsP(recv), showB(b))
		case k < 13:
			e.line("DEC.comp", argsP(recv), showB(b))
		case k < 15:
			e.line("DEC.uncomp", argsP(recv), showB(b))
		case k < 18:
			if len(b) == 65 {
				e.line("DEC.coords", argsP(recv), showB(b[1:33]), showB(b[33:]))
			} else {
				e.line("DEC.coords", argsP(recv), showB(r.bytes32Edge(bigP)), showB(r.bytes32Edge(bigP)))
			}
		default:
			s := hex.EncodeToString(b)
			switch r.intn(6) {
			case 0:
				s = strings.ToUpper(s)
			case 1:
				if len(s) > 0 {
					s = s[:len(s)-1]
				}
			case 2:
				s = "0x" + s
			}
			e.line("DEC.hex", argsP(recv), showB([]byte(s)))
		}
	}
}

// valid encodings only (C04 round trip): Decode(Encode(P)) gives back P
func genRoundTrip(e *emitter, r *rng, n int) {
	ext := append(append(append(highXPoints(6), highYPoints(3)...), smallXPoints(4)...), smallYPoints(2)...)
	for guard := 0; e.n < n && guard < 200*n+1000; guard++ {
		_, recv := r.point()
		p := r.affinePoint()
		if r.intn(5) == 0 {
			p = ext[r.intn(len(ext))]
			if r.intn(2) == 0 {
				p = aNeg(p)
			}
		}
		switch r.intn(5) {
		case 0:
			e.line("DEC.any", argsP(recv), showB(encCompressed(p)))
		case 1:
			if p.inf {
				e.line("DEC.any", argsP(recv), showB([]byte{0}))
			} else {
				e.line("DEC.any", argsP(recv), showB(encUncompressed(p)))
			}
		case 2:
			if !p.inf {
				e.line("DEC.comp", argsP(recv), showB(encCompressed(p)))
			}
		case 3:
			if !p.inf {
				e.line("DEC.uncomp", argsP(recv), showB(encUncompressed(p)))
			}
		case 4:
			e.line("DEC.unmarshal", argsP(recv), showB(encCompressed(p)))
		}
	}
}

func genXMD(e *emitter, r *rng, n int) {
	for guard := 0; e.n < n && guard < 200*n+1000; guard++ {
		switch r.intn(3) {
		case 0:
			e.line("XMD.sha", showB(r.msg()))
		default:
			l := []string{"30", "60", "30", "60", "1", "1f", "20", "21", "40", "64"}[r.intn(10)]
			e.line("XMD.expand", showB(r.msg()), showB(r.dst(true)), l)
		}
	}
}

func genH2C(e *emitter, r *rng, n int) {
	for guard := 0; e.n < n && guard < 200*n+1000; guard++ {
		op := []string{"H2C.h2g", "H2C.e2g", "H2C.h2s"}[r.intn(3)]
		e.line(op, showB(r.msg()), showB(r.dst(true)))
	}
}

// chosen expander outputs: u0, u1 picked freely (including the exceptional u and u0 = ±u1)
func genChosenU(e *emitter, r *rng, n int) {
	enc48 := func(v *big.Int) []byte { b := make([]byte, 48); v.FillBytes(b); return b }
	pick := func() *big.Int {
		ex := exceptionalU()
		switch c := r.intn(10); {
		case c < 2:
			return ex[r.intn(len(ex))]
		case c < 3:
			return big.NewInt(int64(r.intn(5)))
		default:
			return new(big.Int).Mod(r.big256(), bigP)
		}
	}
	for guard := 0; e.n < n && guard < 200*n+1000; guard++ {
		u0, u1 := pick(), pick()
		switch r.intn(8) {
		case 0:
			u1 = u0
		case 1:
			u1 = new(big.Int).Mod(new(big.Int).Neg(u0), bigP)
		}
		// a non-reduced representative of the same u now and then (u + p fits in 48 bytes)
		if r.intn(4) == 0 {
			u0 = new(big.Int).Add(u0, new(big.Int).Mul(bigP, new(big.Int).SetBytes(r.bytes(15))))
		}
		switch r.intn(4) {
		case 0:
			e.line("H2C.e2gu", showB(enc48(u0)))
		case 1:
			e.line("H2C.h2su", showB(r.bytes48Edge(bigN)))
		default:
			e.line("H2C.h2gu", showB(append(enc48(u0), enc48(u1)...)))
		}
	}
}

// scripted entropy streams for Scalar.Random: blocks equal to 0 or n (skipped), >= n (reduced), short streams (panic)
func genRnd(e *emitter, r *rng, n int) {
	blk := func(v *big.Int) []byte { b := make([]byte, 32); v.FillBytes(b); return b }
	for guard := 0; e.n < n && guard < 200*n+1000; guard++ {
		var data []byte
		nblocks := 1 + r.intn(4)
		for i := 0; i < nblocks; i++ {
			switch c := r.intn(12); {
			case c < 3:
				data = append(data, blk(big.NewInt(0))...)
			case c < 5:
				data = append(data, blk(bigN)...)
			case c < 6:
				data = append(data, blk(new(big.Int).Add(bigN, big.NewInt(int64(1+r.intn(3)))))...)
			case c < 7:
				data = append(data, blk(new(big.Int).Sub(bigR, big1))...)
			case c < 8:
				data = append(data, blk(new(big.Int).Sub(bigN, big1))...)
			case c < 9:
				data = append(data, blk(big.NewInt(int64(1+r.intn(3))))...)
			default:
				data = append(data, r.bytes32Edge(bigN)...)
			}
		}
		if r.intn(3) == 0 { // cut the stream short: the source fails in the middle of a block
			data = data[:r.intn(len(data))]
		}
		e.line("RND", showB(data), fmt.Sprint([]int{0, 1, 7, 31, 32, 33}[r.intn(6)]))
	}
}

// DST slices carved out of a caller's backing array in many layouts (C15): interior slices, len < cap, len == cap
func genMemVet(e *emitter, r *rng, n int) {
	lens := []int{1, 2, 16, 31, 32, 33, 254, 255, 256, 257, 300}
	for guard := 0; e.n < n && guard < 200*n+1000; guard++ {
		ln := lens[r.intn(len(lens))]
		if r.intn(3) == 0 {
			ln = 1 + r.intn(300)
		}
		off := []int{0, 0, 1, 5, 17}[r.intn(5)]
		spare := []int{0, 0, 1, 1, 2, 8, 40, 300}[r.intn(8)]
		tail := []int{0, 0, 3, 9}[r.intn(4)]
		back := r.bytes(off + ln + spare + tail)
		e.line("MEM.vet", showB(back), fmt.Sprint(off), fmt.Sprint(ln), fmt.Sprint(spare))
	}
}

func genH2S(e *emitter, r *rng, n int) {
	for guard := 0; e.n < n && guard < 200*n+1000; guard++ {
		e.line("H2C.h2s", showB(r.msg()), showB(r.dst(true)))
	}
}

func genHistory(e *emitter, r *rng, histories, length int) {
	smallX, smallY := smallXPoints(4), smallYPoints(2)
	idx := func() string { return fmt.Sprint(r.intn(4)) }
	for h := 0; h < histories; h++ {
		e.line("H.reset")
		e.line("H.base", idx())
		e.line("H.ssetu", idx(), fmt.Sprintf("%x", 2+r.intn(50)))
		for s := 0; s < length; s++ {
			i := idx()
			j := idx()
			if r.intn(10) < 4 {
				j = i // aliased choice
			}
			oj := j
			if r.intn(12) == 0 {
				oj = "nil"
			}
			switch k := r.intn(60); {
			case k < 2:
				e.line("H.base", i)
			case k < 3:
				e.line("H.identity", i)
			case k < 6:
				e.line("H.set", i, j)
			case k < 9:
				e.line("H.copy", i, j)
			case k < 16:
				e.line("H.add", i, oj)
			case k < 19:
				e.line("H.dbl", i)
			case k < 22:
				e.line("H.neg", i)
			case k < 28:
				e.line("H.sub", i, oj)
			case k < 30:
				e.line("H.mul", i, oj)
			case k < 33:
				e.line("H.dec", i, showB(r.encodingCase(smallX, smallY)))
			case k < 34:
				if r.intn(2) == 0 {
					e.line("H.h2g", i, showB(r.bytes(r.intn(20))), showB(r.bytes(1+r.intn(20))))
				} else {
					e.line("H.e2g", i, showB(r.bytes(r.intn(20))), showB(r.bytes(1+r.intn(20))))
				}
			case k < 38:
				e.line("H.sadd", i, oj)
			case k < 41:
				e.line("H.ssub", i, oj)
			case k < 44:
				e.line("H.smul", i, oj)
			case k < 46:
				e.line("H.ssq", i)
			case k < 47:
				e.line("H.sinv", i)
			case k < 49:
				e.line("H.sset", i, oj)
			case k < 51:
				e.line("H.scopy", i, j)
			case k < 53:
				e.line("H.ssetu", i, fmt.Sprintf("%x", r.next()>>uint(r.intn(64))))
			case k < 55:
				var by []byte
				if r.intn(2) == 0 {
					by = r.bytes32Edge(bigN)
				} else {
					by = make([]byte, 32)
					r.scalarVal().FillBytes(by)
				}
				e.line("H.sdec", i, showB(by))
			case k < 56:
				e.line([]string{"H.sone", "H.szero", "H.sminus"}[r.intn(3)], i)
			case k < 57:
				e.line("H.h2s", i, showB(r.bytes(r.intn(20))), showB(r.bytes(1+r.intn(20))))
			case k < 58:
				e.line("H.spow", i, oj)
			default:
				e.line("H.add", i, j)
			}
		}
	}
}

func genOps(family string, seed uint64, n int) {
	w := bufio.NewWriter(os.Stdout)
	defer w.Flush()
	e := &emitter{w: w}
	r := &rng{s: seed ^ fnvStr(family)}
	if fam, ok := subFamilies[family]; ok {
		e.allow = map[string]bool{}
		for _, o := range fam.ops {
			e.allow[o] = true
		}
		family = fam.base
	}
	switch family {
	case "field":
		genField(e, r, n)
	case "scalarfield":
		genScalarField(e, r, n)
	case "scalarapi":
		genScalarAPI(e, r, n)
	case "points":
		genPoints(e, r, n, 0)
	case "mul":
		genPoints(e, r, 0, n)
	case "map":
		genMap(e, r, n)
	case "decode":
		genDecode(e, r, n)
	case "roundtrip":
		genRoundTrip(e, r, n)
	case "xmd":
		genXMD(e, r, n)
	case "h2c":
		genH2C(e, r, n)
	case "h2s":
		genH2S(e, r, n)
	case "rnd":
		genRnd(e, r, n)
	case "memvet":
		genMemVet(e, r, n)
	case "chosenu":
		genChosenU(e, r, n)
	case "history":
		genHistory(e, r, n, 40)
	case "historylong":
		genHistory(e, r, n, 400)
	default:
		fmt.Fprintln(os.Stderr, "unknown family", family)
		os.Exit(2)
	}
}

func fnvStr(s string) uint64 {
	h := uint64(14695981039346656037)
	for i := 0; i < len(s); i++ {
		h ^= uint64(s[i])
		h *= 1099511628211
	}
	return h
}

type subFamily struct {
	base string
	ops  []string
}

// sub-families: a base generator restricted to the operations a property is about
var subFamilies = map[string]subFamily{
	"bits":     {"scalarapi", []string{"SC.bits"}},
	"cmp":      {"scalarapi", []string{"SC.eq", "SC.iszero", "SC.isone", "SC.leq", "SC.csel"}},
	"scarith":  {"scalarapi", []string{"SC.add", "SC.sub", "SC.mul", "SC.addself", "SC.subself", "SC.mulself", "SC.sq", "SC.inv", "SC.set", "SC.pow", "SC.powself", "SC.setu64", "SC.zero", "SC.one", "SC.minusone"}},
	"scenc":    {"scalarapi", []string{"SC.enc", "SC.dec", "SC.unmarshal", "SC.dechex"}},
	"grouplaw": {"points", []string{"PT.viaid", "PT.viaapi", "PT.add", "PT.addnil", "PT.addself", "PT.dbl", "PT.neg", "PT.sub", "PT.subnil", "PT.subself"}},
	"eq":       {"points", []string{"PT.eq", "PT.eqself", "PT.isid"}},
	"enc":      {"points", []string{"PT.enc", "G.base", "G.consts", "G.order"}},
	"sfcmp":    {"scalarfield", []string{"S.eq", "S.iszero", "S.cmov"}},
	"sfarith":  {"scalarfield", []string{"S.add", "S.sub", "S.mul", "S.sq", "S.inv", "S.tomont", "S.frommont"}},
	"sfenc":    {"scalarfield", []string{"S.reducebytes", "S.tomont", "S.frommont"}},
	"sfh2f":    {"scalarfield", []string{"S.h2f"}},
	"fh2f":     {"field", []string{"F.h2f"}},
	"fsqrt":    {"field", []string{"F.sqrt", "F.inv", "F.exp", "F.sgn", "F.cmov", "F.iszero"}},
	"expand":   {"xmd", []string{"XMD.expand"}},
}

// nearEqual derives b from a by xor-ing masks into a chosen subset of limbs (the same mask in every chosen limb half
// of the time): operands that differ but would compare equal under a comparison that drops or merges limbs.
func (r *rng) nearEqual(a limbs, m *big.Int) limbs {
	b := a
	mask := uint64(1) << uint(r.intn(64))
	if r.intn(3) == 0 {
		mask = r.next()
	}
	same := r.intn(2) == 0
	n := 0
	for i := range b {
		if r.intn(2) == 0 {
			mk := mask
			if !same {
				mk = uint64(1) << uint(r.intn(64))
			}
			b[i] ^= mk
			n++
		}
	}
	if n == 0 {
		b[r.intn(4)] ^= mask
	}
	if limbsToBig(b).Cmp(m) >= 0 {
		b[3] &= 0x7fffffffffffffff
	}
	return b
}
