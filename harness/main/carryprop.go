package main

import "math/big"

// Carry-propagation operands for the Montgomery reduction rounds (FromMontgomery, and the first round of Mul/Square).
//
// One reduction round computes x = a0 * m' mod 2^64 and adds x*m to the accumulator; the carry out of limb j+1 is taken
// only if limb j of the running sum is all ones while a carry comes in — a 2^-64 event for random operands, so a dropped or
// mis-routed carry in that chain is invisible to random testing. Here such operands are *constructed*: x with limb j of
// x*m (j = 1, 2, 3) equal to 2^64-1 is a short vector of the (weighted) lattice {(x, x*c mod M)} (M = 2^(64(j+1)), c = -m mod M),
// found by Lagrange-Gauss reduction; a0 = x * m'^-1 mod 2^64 and the next limbs all ones make the carry come in.

// shortResidue returns x in (0, 2^64) with x*m mod M in [M - M/2^64, M), if the reduced basis yields one.
func shortResidue(m, M *big.Int) *big.Int {
	X := new(big.Int).Lsh(big1, 64)
	B := new(big.Int).Div(M, X)
	c := new(big.Int).Mod(new(big.Int).Neg(m), M) // we want x*c mod M small and positive
	// basis scaled so that the target box is a square: x < 2^64 is weighted by S = B/2^64, the residue is below B
	S := new(big.Int).Div(B, X)
	if S.Sign() == 0 {
		S = big.NewInt(1)
	}
	type vec struct{ a, b *big.Int }
	norm := func(v vec) *big.Int {
		return new(big.Int).Add(new(big.Int).Mul(v.a, v.a), new(big.Int).Mul(v.b, v.b))
	}
	dot := func(u, v vec) *big.Int {
		return new(big.Int).Add(new(big.Int).Mul(u.a, v.a), new(big.Int).Mul(u.b, v.b))
	}
	u, v := vec{new(big.Int).Set(S), c}, vec{big.NewInt(0), new(big.Int).Set(M)}
	for i := 0; i < 400; i++ {
		if norm(u).Cmp(norm(v)) > 0 {
			u, v = v, u
		}
		nu := norm(u)
		if nu.Sign() == 0 {
			break
		}
		// q = round(dot(u,v)/norm(u))
		d := dot(u, v)
		q := new(big.Int).Div(new(big.Int).Add(new(big.Int).Lsh(d, 1), nu), new(big.Int).Lsh(nu, 1))
		if q.Sign() == 0 {
			break
		}
		v = vec{new(big.Int).Sub(v.a, new(big.Int).Mul(q, u.a)), new(big.Int).Sub(v.b, new(big.Int).Mul(q, u.b))}
	}
	for i := int64(-12); i <= 12; i++ {
		for j := int64(-12); j <= 12; j++ {
			a := new(big.Int).Add(new(big.Int).Mul(big.NewInt(i), u.a), new(big.Int).Mul(big.NewInt(j), v.a))
			if a.Sign() <= 0 || new(big.Int).Mod(a, S).Sign() != 0 {
				continue
			}
			x := new(big.Int).Div(a, S)
			if x.Cmp(X) >= 0 {
				continue
			}
			res := new(big.Int).Mod(new(big.Int).Mul(x, m), M)
			if res.Cmp(new(big.Int).Sub(M, B)) >= 0 {
				return x
			}
		}
	}
	return nil
}

// carryPropLimbs: stored (Montgomery-form) limb tuples below the modulus m that drive a carry through an all-ones limb in
// the first reduction round.
func carryPropLimbs(m *big.Int) []limbs {
	two64 := new(big.Int).Lsh(big1, 64)
	mInv := new(big.Int).ModInverse(m, two64)                 // m^-1 mod 2^64
	mPrime := new(big.Int).Mod(new(big.Int).Neg(mInv), two64) // m' = -m^-1
	mPrimeInv := new(big.Int).ModInverse(mPrime, two64)
	var out []limbs
	for j := 1; j <= 3; j++ {
		M := new(big.Int).Lsh(big1, uint(64*(j+1)))
		x := shortResidue(m, M)
		if x == nil {
			continue
		}
		a0 := new(big.Int).Mod(new(big.Int).Mul(x, mPrimeInv), two64).Uint64()
		ones := ^uint64(0)
		for _, hi := range []limbs{{a0, ones, ones, 0}, {a0, ones, ones - 2, ones}, {a0, ones, 0, 0}, {a0, ones - 1, ones, 1}} {
			if limbsToBig(hi).Cmp(m) < 0 {
				out = append(out, hi)
			}
		}
	}
	return out
}
