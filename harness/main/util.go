package main

import (
	"encoding/hex"
	"fmt"
	"math/big"
	"strings"
)

// SplitMix64: every random choice of the harness derives from one state seeded by VERIF_SEED.
type rng struct{ s uint64 }

func (r *rng) next() uint64 {
	r.s += 0x9e3779b97f4a7c15
	z := r.s
	z = (z ^ (z >> 30)) * 0xbf58476d1ce4e5b9
	z = (z ^ (z >> 27)) * 0x94d049bb133111eb
	return z ^ (z >> 31)
}
func (r *rng) intn(n int) int { return int(r.next() % uint64(n)) }
func (r *rng) bytes(n int) []byte {
	b := make([]byte, n)
	for i := range b {
		b[i] = byte(r.next())
	}
	return b
}
func (r *rng) big256() *big.Int { return new(big.Int).SetBytes(r.bytes(32)) }

var (
	bigP, _ = new(big.Int).SetString("fffffffffffffffffffffffffffffffffffffffffffffffffffffffefffffc2f", 16)
	bigN, _ = new(big.Int).SetString("fffffffffffffffffffffffffffffffebaaedce6af48a03bbfd25e8cd0364141", 16)
	bigR    = new(big.Int).Lsh(big.NewInt(1), 256)
	big1    = big.NewInt(1)
)

type limbs = [4]uint64

func bigToLimbs(v *big.Int) limbs {
	var l limbs
	b := make([]byte, 32)
	v.FillBytes(b)
	for i := 0; i < 4; i++ {
		for j := 0; j < 8; j++ {
			l[i] |= uint64(b[31-8*i-j]) << (8 * j)
		}
	}
	return l
}

func limbsToBig(l limbs) *big.Int {
	v := new(big.Int)
	for i := 3; i >= 0; i-- {
		v.Lsh(v, 64)
		v.Or(v, new(big.Int).SetUint64(l[i]))
	}
	return v
}

func showL(l limbs) string { return fmt.Sprintf("%016x%016x%016x%016x", l[3], l[2], l[1], l[0]) }
func parseL(s string) limbs {
	v, ok := new(big.Int).SetString(s, 16)
	if !ok {
		panic("bad limbs " + s)
	}
	return bigToLimbs(v)
}
func showB(b []byte) string {
	if len(b) == 0 {
		return "-"
	}
	return hex.EncodeToString(b)
}
func parseB(s string) []byte {
	if s == "-" {
		return []byte{}
	}
	b, err := hex.DecodeString(s)
	if err != nil {
		panic("bad hex " + s)
	}
	return b
}
func showBig(v *big.Int) string { b := make([]byte, 32); v.FillBytes(b); return hex.EncodeToString(b) }

// Montgomery form of a canonical value
func montP(v *big.Int) limbs { return bigToLimbs(new(big.Int).Mod(new(big.Int).Mul(v, bigR), bigP)) }
func montN(v *big.Int) limbs { return bigToLimbs(new(big.Int).Mod(new(big.Int).Mul(v, bigR), bigN)) }

func kv(k, v string) string    { return k + "=" + v }
func join(xs ...string) string { return strings.Join(xs, " ") }
func b2s(b bool) string {
	if b {
		return "1"
	}
	return "0"
}

// --- independent affine arithmetic on secp256k1 (math/big), used only to *generate* inputs ---

type apt struct {
	x, y *big.Int
	inf  bool
}

func modP(v *big.Int) *big.Int { return v.Mod(v, bigP) }

func aAdd(p, q apt) apt {
	if p.inf {
		return q
	}
	if q.inf {
		return p
	}
	var l *big.Int
	if p.x.Cmp(q.x) == 0 {
		if p.y.Cmp(q.y) != 0 || p.y.Sign() == 0 {
			return apt{inf: true}
		}
		num := modP(new(big.Int).Mul(big.NewInt(3), new(big.Int).Mul(p.x, p.x)))
		den := new(big.Int).ModInverse(modP(new(big.Int).Lsh(p.y, 1)), bigP)
		l = modP(num.Mul(num, den))
	} else {
		num := modP(new(big.Int).Sub(q.y, p.y))
		den := new(big.Int).ModInverse(modP(new(big.Int).Sub(q.x, p.x)), bigP)
		l = modP(num.Mul(num, den))
	}
	x3 := modP(new(big.Int).Sub(new(big.Int).Sub(new(big.Int).Mul(l, l), p.x), q.x))
	y3 := modP(new(big.Int).Sub(new(big.Int).Mul(l, new(big.Int).Sub(p.x, x3)), p.y))
	return apt{x: x3, y: y3}
}

func aNeg(p apt) apt {
	if p.inf {
		return p
	}
	return apt{x: p.x, y: modP(new(big.Int).Neg(p.y))}
}

func aMul(k *big.Int, p apt) apt {
	r := apt{inf: true}
	for i := k.BitLen() - 1; i >= 0; i-- {
		r = aAdd(r, r)
		if k.Bit(i) == 1 {
			r = aAdd(r, p)
		}
	}
	return r
}

var gx, _ = new(big.Int).SetString("79be667ef9dcbbac55a06295ce870b07029bfcdb2dce28d959f2815b16f81798", 16)
var gy, _ = new(big.Int).SetString("483ada7726a3c4655da4fbfc0e1108a8fd17b448a68554199c47d08ffb10d4b8", 16)
var aG = apt{x: gx, y: gy}

// projective representation (λx : λy : λ) in Montgomery limbs; the identity as (0 : λ : 0)
type rawPt [3]limbs

func proj(p apt, lambda *big.Int) rawPt {
	if p.inf {
		return rawPt{montP(big.NewInt(0)), montP(lambda), montP(big.NewInt(0))}
	}
	return rawPt{montP(modP(new(big.Int).Mul(p.x, lambda))), montP(modP(new(big.Int).Mul(p.y, lambda))), montP(lambda)}
}

func showP(p rawPt) string { return showL(p[0]) + "," + showL(p[1]) + "," + showL(p[2]) }
func argsP(p rawPt) string { return showL(p[0]) + " " + showL(p[1]) + " " + showL(p[2]) }

func encCompressed(p apt) []byte {
	if p.inf {
		return []byte{0}
	}
	out := make([]byte, 33)
	out[0] = 2 + byte(p.y.Bit(0))
	p.x.FillBytes(out[1:])
	return out
}

func encUncompressed(p apt) []byte {
	out := make([]byte, 65)
	out[0] = 4
	p.x.FillBytes(out[1:33])
	p.y.FillBytes(out[33:])
	return out
}

// sqrt mod p (p = 3 mod 4); ok reports whether v is a square
func sqrtP(v *big.Int) (*big.Int, bool) {
	e := new(big.Int).Rsh(new(big.Int).Add(bigP, big1), 2)
	r := new(big.Int).Exp(v, e, bigP)
	return r, modP(new(big.Int).Mul(r, r)).Cmp(modP(new(big.Int).Set(v))) == 0
}
