package main

import (
	"bufio"
	"bytes"
	"crypto/rand"
	"crypto/sha256"
	"errors"
	"fmt"
	"hash/fnv"
	"math/big"
	"os"
	"strconv"
	"strings"
	"unsafe"

	secp "github.com/bytemare/secp256k1"
	"github.com/bytemare/secp256k1/internal/field"
	"github.com/bytemare/secp256k1/internal/scalar"
)

func fe(l limbs) *field.Element  { return &field.Element{E: field.MontgomeryDomainFieldElement(l)} }
func feL(e *field.Element) limbs { return limbs(e.E) }

func rv(e *field.Element) string { return join(kv("r", showL(feL(e))), kv("v", showB(e.Bytes()))) }

func sc(l limbs) *secp.Scalar {
	s := secp.NewScalar()
	s.S = scalar.MontgomeryDomainFieldElement(l)
	return s
}
func scOpt(s string) *secp.Scalar {
	if s == "nil" {
		return nil
	}
	return sc(parseL(s))
}
func rvN(s *secp.Scalar) string                          { return join(kv("r", showL(limbs(s.S))), kv("v", showB(s.Encode()))) }
func rvNm(m *scalar.MontgomeryDomainFieldElement) string { return rvN(sc(limbs(*m))) }

func el(p rawPt) *secp.Element    { return secp.VerifSetRaw(secp.NewElement(), [3][4]uint64(p)) }
func elRaw(e *secp.Element) rawPt { return rawPt(secp.VerifRaw(e)) }
func parseP(a []string) rawPt     { return rawPt{parseL(a[0]), parseL(a[1]), parseL(a[2])} }
func ptOut(e *secp.Element) string {
	return join(kv("r", showP(elRaw(e))), kv("c", showB(stable(e.Encode))))
}

func errName(err error) string {
	if err == nil {
		return "ok"
	}
	if k := secp.VerifErrKind(err); k != "" {
		return k
	}
	if strings.HasPrefix(err.Error(), "encoding/hex:") {
		return "hexError"
	}
	return "other:" + strings.ReplaceAll(err.Error(), " ", "_")
}

func panicName(r any) string {
	if secp.VerifIsZeroLenDST(r) {
		return "zeroLenDST"
	}
	s := fmt.Sprint(r)
	return strings.ReplaceAll(s, " ", "_")
}

// alias selects, deterministically per line, which receiver/argument aliasing a field-level op uses.
// stable calls an encoder, scribbles over the returned buffer and calls it again: a returned buffer must be fresh, so the
// second result must equal the first. When it does not, the second result is reported (and disagrees with the specification).
func stable(f func() []byte) []byte {
	a := f()
	keep := append([]byte{}, a...)
	for i := range a {
		a[i] ^= 0xa5
	}
	b := f()
	if !bytes.Equal(b, keep) {
		return b
	}
	return keep
}

// buffers that survive from one operation line to the next (a caller re-using its message / DST buffers)
var persistMsg, persistDst [4096]byte

// layoutArgs places the message and the DST of a hashing call in one of the memory layouts a caller may use: separate
// buffers; adjacent windows of one buffer (msg then dst: the DST lies in the message's spare capacity; and dst then msg);
// buffers re-used from the previous call and overwritten in place. The contents are the same in every layout.
func layoutArgs(line string, msg, dst []byte) ([]byte, []byte) {
	switch aliasChoice(line+"layout", 5) {
	case 1:
		buf := append(append(append([]byte{}, msg...), dst...), 0x5a, 0x5a, 0x5a, 0x5a, 0x5a, 0x5a, 0x5a, 0x5a)
		return buf[:len(msg)], buf[len(msg) : len(msg)+len(dst)]
	case 2:
		buf := append(append(append([]byte{}, dst...), msg...), 0x5a, 0x5a, 0x5a, 0x5a, 0x5a, 0x5a, 0x5a, 0x5a)
		return buf[len(dst) : len(dst)+len(msg)], buf[:len(dst)]
	case 3, 4:
		if len(msg) <= len(persistMsg) && len(dst) <= len(persistDst) {
			copy(persistMsg[:], msg)
			copy(persistDst[:], dst)
			return persistMsg[:len(msg)], persistDst[:len(dst)]
		}
	}
	return msg, dst
}

var persistIn [4096]byte

// reuseIn: every other line the input bytes live in a buffer re-used (overwritten in place) from line to line
func reuseIn(line string, b []byte) []byte {
	if len(b) == 0 || len(b) > len(persistIn) || aliasChoice(line+"reuse", 2) == 0 {
		return b
	}
	copy(persistIn[:], b)
	return persistIn[:len(b)]
}

func aliasChoice(line string, n int) int {
	h := fnv.New32a()
	h.Write([]byte(line))
	return int(h.Sum32() % uint32(n))
}

type hist struct {
	e [4]*secp.Element
	s [4]*secp.Scalar
}

func (h *hist) reset() {
	for i := range h.e {
		h.e[i] = secp.NewElement()
		h.s[i] = secp.NewScalar()
	}
}

func (h *hist) observe(tag string) string {
	out := []string{kv("t", tag)}
	for k, e := range h.e {
		out = append(out, kv(fmt.Sprintf("R%d", k), showP(elRaw(e))), kv(fmt.Sprintf("E%d", k), showB(e.Encode())),
			kv(fmt.Sprintf("I%d", k), b2s(e.IsIdentity())), kv(fmt.Sprintf("Q%d", k), strconv.Itoa(e.Equal(h.e[0]))))
	}
	for k, s := range h.s {
		out = append(out, kv(fmt.Sprintf("T%d", k), showL(limbs(s.S))), kv(fmt.Sprintf("S%d", k), showB(s.Encode())),
			kv(fmt.Sprintf("Z%d", k), b2s(s.IsZero())))
	}
	return strings.Join(out, " ")
}

func atoi(s string) int { v, _ := strconv.Atoi(s); return v }

func (h *hist) eOpt(s string) *secp.Element {
	if s == "nil" {
		return nil
	}
	return h.e[atoi(s)]
}
func (h *hist) sOpt(s string) *secp.Scalar {
	if s == "nil" {
		return nil
	}
	return h.s[atoi(s)]
}

func (h *hist) step(op string, a []string) string {
	tag := "ok"
	setErr := func(err error) {
		if err != nil {
			tag = errName(err)
		}
	}
	switch op {
	case "H.reset":
		h.reset()
	case "H.base":
		h.e[atoi(a[0])].Base()
	case "H.identity":
		h.e[atoi(a[0])].Identity()
	case "H.set":
		h.e[atoi(a[0])].Set(h.e[atoi(a[1])])
	case "H.copy":
		h.e[atoi(a[0])] = h.e[atoi(a[1])].Copy()
	case "H.add":
		h.e[atoi(a[0])].Add(h.eOpt(a[1]))
	case "H.dbl":
		h.e[atoi(a[0])].Double()
	case "H.neg":
		h.e[atoi(a[0])].Negate()
	case "H.sub":
		h.e[atoi(a[0])].Subtract(h.eOpt(a[1]))
	case "H.mul":
		h.e[atoi(a[0])].Multiply(h.sOpt(a[1]))
	case "H.dec":
		setErr(h.e[atoi(a[0])].Decode(parseB(a[1])))
	case "H.h2g":
		func() {
			defer func() {
				if r := recover(); r != nil {
					tag = "panic"
				}
			}()
			h.e[atoi(a[0])] = secp.HashToGroup(parseB(a[1]), parseB(a[2]))
		}()
	case "H.e2g":
		func() {
			defer func() {
				if r := recover(); r != nil {
					tag = "panic"
				}
			}()
			h.e[atoi(a[0])] = secp.EncodeToGroup(parseB(a[1]), parseB(a[2]))
		}()
	case "H.sadd":
		h.s[atoi(a[0])].Add(h.sOpt(a[1]))
	case "H.ssub":
		h.s[atoi(a[0])].Subtract(h.sOpt(a[1]))
	case "H.smul":
		h.s[atoi(a[0])].Multiply(h.sOpt(a[1]))
	case "H.ssq":
		h.s[atoi(a[0])].Square()
	case "H.sinv":
		h.s[atoi(a[0])].Invert()
	case "H.sset":
		h.s[atoi(a[0])].Set(h.sOpt(a[1]))
	case "H.scopy":
		h.s[atoi(a[0])] = h.s[atoi(a[1])].Copy()
	case "H.ssetu":
		v, _ := strconv.ParseUint(a[1], 16, 64)
		h.s[atoi(a[0])].SetUInt64(v)
	case "H.sdec":
		setErr(h.s[atoi(a[0])].Decode(parseB(a[1])))
	case "H.sone":
		h.s[atoi(a[0])].One()
	case "H.szero":
		h.s[atoi(a[0])].Zero()
	case "H.sminus":
		h.s[atoi(a[0])].MinusOne()
	case "H.h2s":
		func() {
			defer func() {
				if r := recover(); r != nil {
					tag = "panic"
				}
			}()
			h.s[atoi(a[0])] = secp.HashToScalar(parseB(a[1]), parseB(a[2]))
		}()
	case "H.spow":
		h.s[atoi(a[0])].Pow(h.sOpt(a[1]))
	default:
		return "bad-op"
	}
	return h.observe(tag)
}

func execLine(h *hist, line string) (out string) {
	defer func() {
		if r := recover(); r != nil {
			out = kv("panic", panicName(r))
		}
	}()
	f := strings.Fields(line)
	if len(f) == 0 {
		return ""
	}
	op, a := f[0], f[1:]
	if strings.HasPrefix(op, "H.") {
		return h.step(op, a)
	}
	switch op {
	// ---------------- field ----------------
	case "F.add", "F.sub", "F.mul":
		x, y := fe(parseL(a[0])), fe(parseL(a[1]))
		var r *field.Element
		switch aliasChoice(line, 3) {
		case 0:
			r = field.New()
		case 1:
			r = x
		default:
			r = y
		}
		switch op {
		case "F.add":
			r.Add(x, y)
		case "F.sub":
			r.Subtract(x, y)
		default:
			r.Multiply(x, y)
		}
		return rv(r)
	case "F.sq", "F.neg":
		x := fe(parseL(a[0]))
		r := field.New()
		if aliasChoice(line, 2) == 1 {
			r = x
		}
		if op == "F.sq" {
			r.Square(x)
		} else {
			r.Negate(x)
		}
		return rv(r)
	case "F.inv":
		x := fe(parseL(a[0]))
		r := field.New()
		if aliasChoice(line, 2) == 1 {
			r = x
			r.Invert(*x)
		} else {
			r.Invert(*x)
		}
		return rv(r)
	case "F.exp":
		x := fe(parseL(a[0]))
		return rv(field.VerifExpPMin3Div4(field.New(), x))
	case "F.sqrt":
		u, v := fe(parseL(a[0])), fe(parseL(a[1]))
		r := field.New()
		switch aliasChoice(line, 3) { // the receiver may be either operand
		case 1:
			r = u
		case 2:
			r = v
		}
		y, f := r.SqrtRatio(u, v)
		// the square of the returned value, computed with math/big from its raw limbs (independent of the code under test):
		// the specification fixes the flag and this square, not which of the two roots is returned
		yv := modP(new(big.Int).Mul(limbsToBig(feL(y)), rInvP))
		sq := make([]byte, 32)
		modP(new(big.Int).Mul(yv, yv)).FillBytes(sq)
		return join(rv(y), kv("f", strconv.FormatUint(f, 10)), kv("sq", showB(sq)))
	case "F.sgn":
		return kv("r", strconv.FormatUint(fe(parseL(a[0])).Sgn0(), 10))
	case "F.iszero":
		return kv("r", strconv.FormatUint(fe(parseL(a[0])).IsZero(), 10))
	case "F.eq":
		return kv("r", strconv.FormatUint(fe(parseL(a[0])).Equals(fe(parseL(a[1]))), 10))
	case "F.cmov":
		c, _ := strconv.ParseUint(a[0], 16, 64)
		x, y := fe(parseL(a[1])), fe(parseL(a[2]))
		r := field.New()
		switch aliasChoice(line, 3) {
		case 1:
			r = x
		case 2:
			r = y
		}
		return kv("r", showL(feL(r.CMove(c, x, y))))
	case "F.frombytes":
		e, f := field.New().FromBytesWithReduce([32]byte(parseB(a[0])))
		return join(rv(e), kv("f", strconv.FormatUint(f, 10)))
	case "F.bytes":
		return kv("v", showB(fe(parseL(a[0])).Bytes()))
	case "F.h2f":
		return rv(field.New().HashToFieldElement([48]byte(parseB(a[0]))))
	case "F.tomont":
		x := field.NonMontgomeryDomainFieldElement(parseL(a[0]))
		var o field.MontgomeryDomainFieldElement
		field.ToMontgomery(&o, &x)
		return kv("r", showL(limbs(o)))
	case "F.frommont":
		x := field.MontgomeryDomainFieldElement(parseL(a[0]))
		var o field.NonMontgomeryDomainFieldElement
		field.FromMontgomery(&o, &x)
		return kv("r", showL(limbs(o)))
	// ---------------- scalar field ----------------
	case "S.add", "S.sub", "S.mul":
		x := scalar.MontgomeryDomainFieldElement(parseL(a[0]))
		y := scalar.MontgomeryDomainFieldElement(parseL(a[1]))
		var o scalar.MontgomeryDomainFieldElement
		r := &o
		switch aliasChoice(line, 3) {
		case 1:
			r = &x
		case 2:
			r = &y
		}
		switch op {
		case "S.add":
			scalar.Add(r, &x, &y)
		case "S.sub":
			scalar.Sub(r, &x, &y)
		default:
			scalar.Mul(r, &x, &y)
		}
		return rvNm(r)
	case "S.sq":
		x := scalar.MontgomeryDomainFieldElement(parseL(a[0]))
		var o scalar.MontgomeryDomainFieldElement
		r := &o
		if aliasChoice(line, 2) == 1 {
			r = &x
		}
		scalar.Square(r, &x)
		return rvNm(r)
	case "S.inv":
		x := scalar.MontgomeryDomainFieldElement(parseL(a[0]))
		var o scalar.MontgomeryDomainFieldElement
		scalar.Invert(&o, x)
		return rvNm(&o)
	case "S.tomont":
		x := scalar.NonMontgomeryDomainFieldElement(parseL(a[0]))
		var o scalar.MontgomeryDomainFieldElement
		scalar.ToMontgomery(&o, &x)
		return kv("r", showL(limbs(o)))
	case "S.frommont":
		x := scalar.MontgomeryDomainFieldElement(parseL(a[0]))
		var o scalar.NonMontgomeryDomainFieldElement
		scalar.FromMontgomery(&o, &x)
		return kv("r", showL(limbs(o)))
	case "S.reducebytes":
		var o scalar.MontgomeryDomainFieldElement
		f := scalar.ReduceBytes(&o, [32]byte(parseB(a[0])))
		return join(rvNm(&o), kv("f", strconv.FormatUint(f, 10)))
	case "S.h2f":
		var o scalar.MontgomeryDomainFieldElement
		scalar.HashToFieldElement(&o, [48]byte(parseB(a[0])))
		return rvNm(&o)
	case "S.eq":
		x := scalar.MontgomeryDomainFieldElement(parseL(a[0]))
		y := scalar.MontgomeryDomainFieldElement(parseL(a[1]))
		return kv("r", strconv.FormatUint(scalar.Equal(&x, &y), 10))
	case "S.iszero":
		x := scalar.MontgomeryDomainFieldElement(parseL(a[0]))
		return kv("r", strconv.FormatUint(scalar.IsFEZero(&x), 10))
	case "S.cmov":
		c, _ := strconv.ParseUint(a[0], 16, 64)
		x := scalar.MontgomeryDomainFieldElement(parseL(a[1]))
		y := scalar.MontgomeryDomainFieldElement(parseL(a[2]))
		var o scalar.MontgomeryDomainFieldElement
		r := &o
		switch aliasChoice(line, 3) { // out may be either operand
		case 1:
			r = &x
		case 2:
			r = &y
		}
		scalar.CMove(r, c, &x, &y)
		return kv("r", showL(limbs(*r)))
	// ---------------- Scalar API ----------------
	case "SC.add":
		return rvN(sc(parseL(a[0])).Add(scOpt(a[1])))
	case "SC.sub":
		return rvN(sc(parseL(a[0])).Subtract(scOpt(a[1])))
	case "SC.mul":
		return rvN(sc(parseL(a[0])).Multiply(scOpt(a[1])))
	case "SC.addself":
		s := sc(parseL(a[0]))
		return rvN(s.Add(s))
	case "SC.subself":
		s := sc(parseL(a[0]))
		return rvN(s.Subtract(s))
	case "SC.mulself":
		s := sc(parseL(a[0]))
		return rvN(s.Multiply(s))
	case "SC.sq":
		return rvN(sc(parseL(a[0])).Square())
	case "SC.inv":
		return rvN(sc(parseL(a[0])).Invert())
	case "SC.set":
		return rvN(sc(parseL(a[0])).Set(scOpt(a[1])))
	case "SC.pow":
		return rvN(sc(parseL(a[0])).Pow(scOpt(a[1])))
	case "SC.powself":
		s := sc(parseL(a[0]))
		return rvN(s.Pow(s))
	case "SC.setu64":
		v, _ := strconv.ParseUint(a[0], 16, 64)
		return rvN(secp.NewScalar().SetUInt64(v))
	case "SC.zero":
		return rvN(sc(limbs{1, 2, 3, 4}).Zero())
	case "SC.one":
		return rvN(sc(limbs{1, 2, 3, 4}).One())
	case "SC.minusone":
		return rvN(sc(limbs{1, 2, 3, 4}).MinusOne())
	case "SC.eq":
		return kv("r", strconv.Itoa(sc(parseL(a[0])).Equal(scOpt(a[1]))))
	case "SC.iszero":
		return kv("r", b2s(sc(parseL(a[0])).IsZero()))
	case "SC.isone":
		return kv("r", b2s(sc(parseL(a[0])).IsOne()))
	case "SC.leq":
		return kv("r", strconv.FormatUint(sc(parseL(a[0])).LessOrEqual(sc(parseL(a[1]))), 10))
	case "SC.csel":
		r := sc(parseL(a[0]))
		c, _ := strconv.ParseUint(a[1], 16, 64)
		u, v := scOpt(a[2]), scOpt(a[3])
		// the receiver may be one of its own operands (then its prior value is that operand's)
		switch aliasChoice(line, 3) {
		case 1:
			if u != nil && limbs(u.S) == limbs(r.S) {
				r = u
			}
		case 2:
			if v != nil && limbs(v.S) == limbs(r.S) {
				r = v
			}
		}
		err := r.CSelect(c, u, v)
		return join(kv("e", errName(err)), kv("r", showL(limbs(r.S))))
	case "SC.bits":
		bits := sc(parseL(a[0])).Bits()
		var l limbs
		var mx uint8
		for i, b := range bits {
			l[i/64] += uint64(b) << (i % 64) // entries are expected to be 0/1; `m` reports the maximum entry
			if b > mx {
				mx = b
			}
		}
		return join(kv("n", strconv.Itoa(len(bits))), kv("b", showL(l)), kv("m", strconv.Itoa(int(mx))))
	case "SC.enc":
		s := sc(parseL(a[0]))
		enc := stable(s.Encode)
		mb := stable(func() []byte { b, _ := s.MarshalBinary(); return b })
		return join(kv("v", showB(enc)), kv("h", s.Hex()), kv("m", showB(mb)))
	case "SC.dec", "SC.unmarshal":
		r := sc(parseL(a[0]))
		var err error
		in := reuseIn(line, parseB(a[1]))
		if op == "SC.dec" {
			err = r.Decode(in)
		} else {
			err = r.UnmarshalBinary(in)
		}
		return join(kv("e", errName(err)), rvN(r))
	case "SC.dechex":
		r := sc(parseL(a[0]))
		err := r.DecodeHex(string(parseB(a[1])))
		return join(kv("e", errName(err)), rvN(r))
	// ---------------- points ----------------
	case "PT.add":
		p, q := el(parseP(a)), el(parseP(a[3:]))
		p.Add(q)
		return join(ptOut(p), kv("a", showP(elRaw(q))))
	case "PT.addnil":
		p := el(parseP(a))
		return ptOut(p.Add(nil))
	case "PT.addself":
		p := el(parseP(a))
		return ptOut(p.Add(p))
	case "PT.dbl":
		return ptOut(el(parseP(a)).Double())
	case "PT.neg":
		return ptOut(el(parseP(a)).Negate())
	case "PT.sub":
		p, q := el(parseP(a)), el(parseP(a[3:]))
		p.Subtract(q)
		return join(ptOut(p), kv("a", showP(elRaw(q))))
	case "PT.subnil":
		return ptOut(el(parseP(a)).Subtract(nil))
	case "PT.subself":
		p := el(parseP(a))
		return ptOut(p.Subtract(p))
	case "PT.eq":
		p, q := el(parseP(a)), el(parseP(a[3:]))
		return join(kv("r", strconv.Itoa(p.Equal(q))), kv("r2", strconv.Itoa(q.Equal(p))))
	case "PT.eqself":
		p := el(parseP(a))
		return kv("r", strconv.Itoa(p.Equal(p)))
	case "PT.isid":
		return kv("r", b2s(el(parseP(a)).IsIdentity()))
	case "PT.viaid":
		// a[0..2]: a point P; a[3..5]: a point Q; a[6]: route by which a variable holding P is turned into the identity
		mk := func() *secp.Element {
			p := el(parseP(a[0:3]))
			switch a[6] {
			case "identity":
				p.Identity()
			case "mulnil":
				p.Multiply(nil)
			default:
				_ = p.Decode([]byte{0})
			}
			return p
		}
		q := func() *secp.Element { return el(parseP(a[3:6])) }
		return join(kv("c", showB(stable(q().Add(mk()).Encode))), kv("c1", showB(mk().Add(q()).Encode())),
			kv("c2", showB(q().Subtract(mk()).Encode())), kv("c3", showB(mk().Double().Add(q()).Encode())),
			kv("c4", showB(mk().Negate().Add(q()).Encode())), kv("c5", b2s(mk().Add(mk()).IsIdentity())))
	case "PT.viaapi":
		// a[0..2]: a point P; a[3..5]: a point Q; a[6]: where the variable comes from (base | dec: decoded from Encode(P));
		// a[7]: how it is then overwritten in place (set | mul | dbl | add | neg | ident | none); a[8]: a scalar for mul.
		// An operand with a history: whatever an element remembers about how it was produced must not outlive the value.
		mk := func() *secp.Element {
			var v *secp.Element
			if a[6] == "base" {
				v = secp.Base()
			} else {
				v = secp.NewElement()
				if err := v.Decode(el(parseP(a[0:3])).Encode()); err != nil {
					v = secp.Base()
				}
			}
			switch a[7] {
			case "set":
				v.Set(el(parseP(a[3:6])))
			case "mul":
				v.Multiply(scOpt(a[8]))
			case "dbl":
				v.Double()
			case "add":
				v.Add(el(parseP(a[3:6])))
			case "neg":
				v.Negate()
			case "ident":
				v.Identity()
			}
			return v
		}
		p := func() *secp.Element { return el(parseP(a[0:3])) }
		return join(kv("c", showB(stable(p().Add(mk()).Encode))), kv("c1", showB(mk().Add(p()).Encode())),
			kv("c2", showB(p().Subtract(mk()).Encode())), kv("c3", showB(mk().Double().Encode())),
			kv("c4", showB(mk().Encode())), kv("r", strconv.Itoa(p().Equal(mk()))))
	case "PT.enc":
		p := el(parseP(a))
		mb := stable(func() []byte { b, _ := p.MarshalBinary(); return b })
		return join(kv("c", showB(stable(p.Encode))), kv("u", showB(stable(p.EncodeUncompressed))), kv("x", showB(stable(p.XCoordinate))),
			kv("h", p.Hex()), kv("m", showB(mb)))
	case "PT.mul":
		p := el(parseP(a))
		return ptOut(p.Multiply(scOpt(a[3])))
	case "PT.sswu":
		r := secp.SSWU(fe(parseL(a[0])))
		raw := elRaw(r)
		return join(kv("r", showP(raw)), kv("ax", showB(fe(raw[0]).Bytes())), kv("ay", showB(fe(raw[1]).Bytes())))
	case "PT.iso":
		return ptOut(secp.IsogenySecp256k13iso(el(parseP(a))))
	case "PT.map":
		r := secp.IsogenySecp256k13iso(secp.SSWU(fe(parseL(a[0]))))
		return join(ptOut(r), kv("u", showB(r.EncodeUncompressed())))
	// ---------------- decoders ----------------
	case "DEC.any", "DEC.unmarshal", "DEC.comp", "DEC.uncomp", "DEC.hex":
		r := el(parseP(a))
		b := reuseIn(line, parseB(a[3]))
		var err error
		switch op {
		case "DEC.any":
			err = r.Decode(b)
		case "DEC.unmarshal":
			err = r.UnmarshalBinary(b)
		case "DEC.comp":
			err = r.DecodeCompressed(b)
		case "DEC.uncomp":
			err = r.DecodeUncompressed(b)
		case "DEC.hex":
			err = r.DecodeHex(string(b))
		}
		return join(kv("e", errName(err)), ptOut(r))
	case "DEC.coords":
		r := el(parseP(a))
		err := r.DecodeCoordinates([32]byte(parseB(a[3])), [32]byte(parseB(a[4])))
		return join(kv("e", errName(err)), ptOut(r))
	// ---------------- hashing ----------------
	case "XMD.sha":
		d := sha256.Sum256(parseB(a[0]))
		return kv("o", showB(d[:]))
	case "XMD.expand":
		l, _ := strconv.ParseUint(a[2], 16, 32)
		m, d := layoutArgs(line, parseB(a[0]), parseB(a[1]))
		return kv("o", showB(secp.VerifExpandXMD(m, d, uint(l))))
	case "H2C.h2g":
		m, d := layoutArgs(line, parseB(a[0]), parseB(a[1]))
		return ptOut(secp.HashToGroup(m, d))
	case "H2C.e2g":
		m, d := layoutArgs(line, parseB(a[0]), parseB(a[1]))
		return ptOut(secp.EncodeToGroup(m, d))
	case "H2C.h2s":
		m, d := layoutArgs(line, parseB(a[0]), parseB(a[1]))
		return rvN(secp.HashToScalar(m, d))
	case "H2C.h2gu", "H2C.e2gu", "H2C.h2su":
		secp.VerifUniformOverride = parseB(a[0])
		secp.VerifOverrideUsed = 0
		defer func() { secp.VerifUniformOverride = nil }()
		var res string
		switch op {
		case "H2C.h2gu":
			res = ptOut(secp.HashToGroup([]byte("m"), []byte("d")))
		case "H2C.e2gu":
			res = ptOut(secp.EncodeToGroup([]byte("m"), []byte("d")))
		default:
			res = rvN(secp.HashToScalar([]byte("m"), []byte("d")))
		}
		if secp.VerifOverrideUsed != 1 {
			return kv("panic", "expander-override-not-used")
		}
		return res
	case "MEM.vet":
		back := parseB(a[0])
		off, _ := strconv.Atoi(a[1])
		ln, _ := strconv.Atoi(a[2])
		spare, _ := strconv.Atoi(a[3])
		dst := back[off : off+ln : off+ln+spare]
		out := secp.VerifVetDST(dst)
		fresh := true
		if len(out) > 0 && len(back) > 0 {
			po := uintptr(unsafe.Pointer(&out[0]))
			pb := uintptr(unsafe.Pointer(&back[0]))
			if po >= pb && po < pb+uintptr(len(back)) {
				fresh = false
			}
		}
		return join(kv("b", showB(back)), kv("o", showB(out)), kv("fresh", b2s(fresh)))
	case "RND":
		// scripted entropy: a[0] = all bytes the source will deliver, a[1] = chunk size of each Read
		data := parseB(a[0])
		chunk, _ := strconv.Atoi(a[1])
		rd := &scriptReader{data: data, chunk: chunk}
		old := rand.Reader
		rand.Reader = rd
		defer func() { rand.Reader = old }()
		var res string
		func() {
			defer func() {
				if r := recover(); r != nil {
					res = join(kv("panic", "1"), kv("used", strconv.Itoa(rd.pos)))
				}
			}()
			s := sc(limbs{5, 6, 7, 8}).Random()
			res = join(rvN(s), kv("used", strconv.Itoa(rd.pos)))
		}()
		return res
	case "G.order":
		return kv("o", showB(stable(secp.Order)))
	case "G.consts":
		return join(kv("cs", secp.Ciphersuite()), kv("sl", strconv.Itoa(secp.ScalarLength())), kv("el", strconv.Itoa(secp.ElementLength())))
	case "G.base":
		return ptOut(secp.Base())
	}
	return "bad-op"
}

func runOps() {
	h := &hist{}
	h.reset()
	in := bufio.NewScanner(os.Stdin)
	in.Buffer(make([]byte, 1<<20), 1<<24)
	out := bufio.NewWriter(os.Stdout)
	defer out.Flush()
	for in.Scan() {
		fmt.Fprintln(out, execLine(h, in.Text()))
		out.Flush()
	}
}

// scriptReader delivers a fixed byte string in chunks and then fails.
type scriptReader struct {
	data  []byte
	pos   int
	chunk int
}

func (s *scriptReader) Read(p []byte) (int, error) {
	if s.pos >= len(s.data) {
		return 0, errors.New("scripted entropy source exhausted")
	}
	n := len(p)
	if s.chunk > 0 && n > s.chunk {
		n = s.chunk
	}
	if n > len(s.data)-s.pos {
		n = len(s.data) - s.pos
	}
	copy(p, s.data[s.pos:s.pos+n])
	s.pos += n
	return n, nil
}
