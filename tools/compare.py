#!/usr/bin/env python3
"""Three-way comparison of implementation output, model output and specification values.

usage: compare.py ops impl model  -> JSON summary on stdout
Rules: every key printed by the implementation must be printed with the same value by the model
(impl != model: the model misreads the code, tie broken). Every model key `s_<k>` is the
specification value of observable <k> and must equal the implementation's <k> (impl != spec:
the code violates the property at this input). `chk=0`: the model's output fails a spec predicate.
"""
import sys, json, collections

def parse(line):
    d = {}
    for tok in line.split():
        if '=' in tok:
            k, v = tok.split('=', 1)
            d[k] = v
        else:
            d['_raw'] = tok
    return d

def main():
    ops = open(sys.argv[1]).read().split('\n')
    impl = open(sys.argv[2]).read().split('\n')
    model = open(sys.argv[3]).read().split('\n')
    n = len([l for l in ops if l.strip()])
    res = {"lines": n, "impl_vs_model": [], "impl_vs_spec": [], "model_vs_spec": [], "per_op": {}, "with_spec": 0,
           "distinct_nontrivial": 0}
    per = collections.defaultdict(lambda: {"n": 0, "spec": 0, "errors": collections.Counter()})
    seen = set()
    if len(impl) < n or len(model) < n:
        res["truncated"] = {"impl": len(impl), "model": len(model), "ops": n}
    for i in range(n):
        op = ops[i]
        if not op.strip():
            continue
        name = op.split()[0]
        a = parse(impl[i]) if i < len(impl) else {"_raw": "missing"}
        b = parse(model[i]) if i < len(model) else {"_raw": "missing"}
        p = per[name]
        p["n"] += 1
        for k in ("e", "t", "panic"):
            if k in a:
                p["errors"][a[k]] += 1
        if '_raw' in a or '_raw' in b:
            res["impl_vs_model"].append({"line": i + 1, "op": op, "impl": impl[i] if i < len(impl) else None,
                                         "model": model[i] if i < len(model) else None, "key": "_raw"})
            continue
        bad = False
        for k, v in a.items():
            if b.get(k) != v:
                res["impl_vs_model"].append({"line": i + 1, "op": op, "key": k, "impl": v, "model": b.get(k)})
                bad = True
                break
        for k in b:
            if not k.startswith('s_') and k != 'chk' and k not in a:
                res["impl_vs_model"].append({"line": i + 1, "op": op, "key": k, "impl": None, "model": b[k]})
                bad = True
                break
        has_spec = False
        for k, v in b.items():
            if k.startswith('s_'):
                has_spec = True
                ik = k[2:]
                if a.get(ik) != v:
                    res["impl_vs_spec"].append({"line": i + 1, "op": op, "key": ik, "impl": a.get(ik), "spec": v})
                    bad = True
                    break
            elif k == 'chk':
                has_spec = True
                if v != '1':
                    res["model_vs_spec"].append({"line": i + 1, "op": op, "key": "chk", "model": impl[i]})
                    bad = True
        if has_spec:
            res["with_spec"] += 1
            p["spec"] += 1
            if op not in seen:
                seen.add(op)
    res["distinct_nontrivial"] = len(seen)
    res["per_op"] = {k: {"n": v["n"], "with_spec": v["spec"], "outcomes": dict(v["errors"])} for k, v in sorted(per.items())}
    json.dump(res, sys.stdout)

main()
