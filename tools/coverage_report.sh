#!/bin/bash
# Statement coverage of the three library packages by the correspondence families (evaluation tool, not a registered
# command): builds the harness with -cover in a scratch copy of the repository (the cover tool does not follow -overlay),
# runs every family, prints the functions that are not fully covered.
# usage: coverage_report.sh [lines per family, default 3000]
set -euo pipefail
N="${1:-3000}"
VERIF="$(cd "$(dirname "$0")/.." && pwd)"
REPO="${VERIF_REPO:-/repo}"
export GOFLAGS=-mod=mod GOPROXY=off GOSUMDB=off GOTOOLCHAIN=local
W="$(mktemp -d)"; trap 'rm -rf "$W"' EXIT
cp -r "$REPO" "$W/repo"; rm -rf "$W/repo/.git"
cp "$VERIF/harness/access_root.go" "$W/repo/zz_verif_access.go"
cp "$VERIF/harness/access_field.go" "$W/repo/internal/field/zz_verif_access.go"
mkdir -p "$W/repo/internal/verifharness"; cp "$VERIF"/harness/main/*.go "$W/repo/internal/verifharness/"
sed -i 's/\bexpandXMD(/verifExpandXMD(/g' "$W/repo/group.go"
(cd "$W/repo" && go build -cover -coverpkg=./... -o "$W/h" ./internal/verifharness)
mkdir "$W/data"
for fam in field scalarfield scalarapi points mul map decode roundtrip xmd h2c h2s chosenu rnd memvet history; do
  "$W/h" gen "$fam" 1 "$N" > "$W/ops" 2>/dev/null || continue
  GOCOVERDIR="$W/data" "$W/h" run < "$W/ops" > /dev/null 2>&1 || true
done
GOCOVERDIR="$W/data" "$W/h" mem 1 3 > /dev/null 2>&1 || true
go tool covdata textfmt -i="$W/data" -o "$W/cover.txt"
(cd "$W/repo" && go tool cover -func="$W/cover.txt") | grep -v "verifharness\|zz_verif" | grep -v "100.0%" || true
