#!/usr/bin/env python3
"""Mutation campaign: how many small source changes that compile and pass the repository's own tests do the checks detect?

Usage: mutation_campaign.py <n candidates> <workers> <seed> [out.json]

For each candidate (one token-level change on one line of a non-test Go file): apply it to a private copy of the repository,
`go build ./...`, run the unedited test suite; if both succeed the mutant is "live": run the property checks (private copy of
/verif, VERIF_REPO pointing at the mutated copy) in a file-dependent order until one reports a violation. A live mutant no
check reports is a survivor, listed for inspection (it is either equivalent — behaviour unchanged — or a gap).
This is an evaluation tool for the checks; it is not part of any registered command.
"""
import os, re, sys, json, random, shutil, subprocess, tempfile, time
from concurrent.futures import ThreadPoolExecutor

VERIF = os.path.dirname(os.path.dirname(os.path.abspath(__file__)))
REPO = os.environ.get("VERIF_REPO", "/repo")
GOENV = dict(os.environ, GOFLAGS="-mod=mod", GOPROXY="off", GOSUMDB="off", GOTOOLCHAIN="local")

FILES = {  # file -> (weight, check order)
    "element.go": (6, ["C02", "C04", "C03", "C01", "C05", "C10", "C19", "C15", "C16"]),
    "scalar.go": (6, ["C06", "C13", "C07", "C14", "C18", "C01", "C10", "C16"]),
    "xmd.go": (4, ["C08", "C09", "C15", "C16", "C17"]),
    "group.go": (3, ["C08", "C09", "C04", "C15", "C17"]),
    "mapping.go": (4, ["C11", "C08"]),
    "internal/field/element.go": (4, ["C12", "C02", "C03", "C04", "C11", "C05"]),
    "internal/field/reduce.go": (2, ["C12", "C03", "C04"]),
    "internal/field/fe_invert.go": (1, ["C12", "C04"]),
    "internal/field/fe_expPMin3Div4.go": (1, ["C12", "C03", "C11"]),
    "internal/field/secp256k1montgomery.go": (3, ["C12", "C02"]),
    "internal/scalar/scalar.go": (4, ["C06", "C13", "C07", "C09", "C18", "C14"]),
    "internal/scalar/scalar_invert.go": (1, ["C06"]),
    "internal/scalar/secp256k1montgomeryscalar.go": (3, ["C06", "C07", "C13", "C14"]),
}
ALL = ["C%02d" % i for i in range(1, 20)]

SWAPS = [(" + ", " - "), (" - ", " + "), (" | ", " & "), (" & ", " | "), (" ^ ", " | "), (" == ", " != "), (" != ", " == "),
         (" < ", " <= "), (" <= ", " < "), (" > ", " >= "), (" >= ", " > "), (" && ", " || "), (" || ", " && "), (" >> ", " << "),
         ("|=", "^="), ("^=", "|="), ("&=", "|="), (".Add(", ".Subtract("), (".Subtract(", ".Add("), (".x", ".y"), (".y", ".z"),
         (".z", ".x"), ("[0]", "[1]"), ("[1]", "[2]"), ("[2]", "[3]"), ("[3]", "[0]"), ("u,", "v,"), ("&u.", "&v."), ("&v.", "&u.")]


def candidates(path, text, rnd):
    out = []
    lines = text.split("\n")
    in_block_comment = False
    for i, ln in enumerate(lines):
        s = ln.strip()
        if "/*" in s:
            in_block_comment = True
        if in_block_comment:
            if "*/" in s:
                in_block_comment = False
            continue
        if not s or s.startswith("//") or s.startswith("package") or s.startswith("import") or s.startswith('"'):
            continue
        code = ln.split("//")[0]
        # operator / token swaps
        for a, b in SWAPS:
            for m in re.finditer(re.escape(a), code):
                out.append((i, "swap %r->%r" % (a.strip(), b.strip()), code[:m.start()] + b + code[m.end():]))
        # integer literal +-1
        for m in re.finditer(r"(?<![\w.])(\d+)(?![\w.])", code):
            v = int(m.group(1))
            for d in (1, -1):
                if v + d >= 0:
                    out.append((i, "literal %d->%d" % (v, v + d), code[:m.start()] + str(v + d) + code[m.end():]))
        # hex literal: flip one digit
        for m in re.finditer(r"0x([0-9a-fA-F]+)", code):
            h = m.group(1)
            k = rnd.randrange(len(h))
            nh = h[:k] + "%x" % ((int(h[k], 16) + 1) % 16) + h[k + 1:]
            out.append((i, "hex digit", code[:m.start()] + "0x" + nh + code[m.end():]))
        # statement deletion (a call statement on its own line)
        if re.match(r"^\s+[\w.&()*\[\]]+\(.*\)\s*$", code) and not s.startswith("return") and not s.startswith("if"):
            out.append((i, "delete statement", re.match(r"^\s*", code).group(0) + "_ = 0"))
        # condition negation
        m = re.match(r"^(\s*if )(.*)( \{\s*)$", code)
        if m and ":=" not in m.group(2) and ";" not in m.group(2):
            out.append((i, "negate condition", m.group(1) + "!(" + m.group(2) + ")" + m.group(3)))
        # identifier neighbours t3 -> t4, tv2 -> tv1, x13 -> x15 (Fiat variables)
        for m in re.finditer(r"\b(t|tv|x|y)(\d+)\b", code):
            v = int(m.group(2))
            for d in (1, -1):
                if v + d >= 0:
                    out.append((i, "ident %s%d->%s%d" % (m.group(1), v, m.group(1), v + d),
                                code[:m.start()] + m.group(1) + str(v + d) + code[m.end():]))
    return [(path, i, what, new) for (i, what, new) in out if new != lines[i].split("//")[0]]


def sh(cmd, cwd=None, env=None, timeout=None):
    try:
        r = subprocess.run(cmd, cwd=cwd, env=env, stdout=subprocess.PIPE, stderr=subprocess.STDOUT, text=True, timeout=timeout)
        return r.returncode, r.stdout
    except subprocess.TimeoutExpired:
        return 124, "timeout"


class Worker:
    def __init__(self, k, root):
        self.dir = os.path.join(root, "w%d" % k)
        os.makedirs(self.dir)
        self.repo = os.path.join(self.dir, "repo")
        self.verif = os.path.join(self.dir, "verif")
        shutil.copytree(REPO, self.repo, ignore=shutil.ignore_patterns(".git"))
        shutil.copytree(VERIF, self.verif, ignore=shutil.ignore_patterns(".git", "replays", "seeded", "seeded2", ".lock"), symlinks=True)
        os.makedirs(os.path.join(self.verif, "replays"), exist_ok=True)

    def run(self, mut):
        path, line, what, new = mut
        full = os.path.join(self.repo, path)
        orig = open(full).read()
        lines = orig.split("\n")
        old = lines[line]
        lines[line] = new
        open(full, "w").write("\n".join(lines))
        res = {"file": path, "line": line + 1, "op": what, "before": old.strip(), "after": new.strip()}
        try:
            rc, out = sh(["go", "build", "./..."], cwd=self.repo, env=GOENV, timeout=300)
            if rc != 0:
                res["status"] = "no-compile"
                return res
            rc, out = sh(["go", "test", "-vet=off", "-count=1", "./..."], cwd=self.repo, env=GOENV, timeout=600)
            if rc != 0:
                res["status"] = "killed-by-tests"
                return res
            order = FILES[path][1] + [p for p in ALL if p not in FILES[path][1]]
            env = dict(os.environ, VERIF_REPO=self.repo)
            t0 = time.time()
            for pid in order:
                rc, out = sh([os.path.join(self.verif, "check"), pid], cwd=self.verif, env=env, timeout=1500)
                if rc != 0:
                    m = re.search(r"VIOLATION.*", out)
                    res["status"] = "detected"
                    res["by"] = pid
                    res["how"] = (m.group(0) if m else out[-200:]).replace(self.verif, "")
                    res["no_input"] = "no-failing-input-found" in out
                    res["secs"] = round(time.time() - t0)
                    return res
            res["status"] = "SURVIVED"
            res["secs"] = round(time.time() - t0)
            return res
        finally:
            open(full, "w").write(orig)


def main():
    n, workers, seed = int(sys.argv[1]), int(sys.argv[2]), int(sys.argv[3])
    outp = sys.argv[4] if len(sys.argv) > 4 else os.path.join(tempfile.gettempdir(), "mutation_results.json")
    rnd = random.Random(seed)
    pool = []
    for path, (w, _) in FILES.items():
        text = open(os.path.join(REPO, path)).read()
        cs = candidates(path, text, rnd)
        rnd.shuffle(cs)
        pool += cs[: max(1, n * w // sum(v[0] for v in FILES.values()))]
    rnd.shuffle(pool)
    pool = pool[:n]
    root = tempfile.mkdtemp(prefix="mutcamp-")
    ws = [Worker(k, root) for k in range(workers)]
    results = []
    import queue
    free = queue.Queue()
    for w in ws:
        free.put(w)

    def job(m):
        w = free.get()
        try:
            r = w.run(m)
        except Exception as ex:  # keep the campaign going
            r = {"file": m[0], "line": m[1] + 1, "op": m[2], "status": "error", "detail": str(ex)}
        finally:
            free.put(w)
        results.append(r)
        print("[%d/%d] %-16s %s:%d %s %s" % (len(results), len(pool), r["status"], r["file"], r["line"], r["op"], r.get("by", "")), flush=True)
        json.dump(results, open(outp, "w"), indent=1)
        return r

    with ThreadPoolExecutor(max_workers=workers) as ex:
        list(ex.map(job, pool))
    shutil.rmtree(root, ignore_errors=True)
    live = [r for r in results if r["status"] in ("detected", "SURVIVED")]
    print("candidates %d, live (compile + pass tests) %d, detected %d, survived %d" % (
        len(results), len(live), sum(r["status"] == "detected" for r in live), sum(r["status"] == "SURVIVED" for r in live)))
    for r in live:
        if r["status"] == "SURVIVED":
            print("SURVIVOR", json.dumps(r))


if __name__ == "__main__":
    main()
