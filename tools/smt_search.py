#!/usr/bin/env python3-vt
"""Search for a concrete input on which a regenerated straight-line limb function differs from its baseline.

Usage: smt_search.py <baseline dir> <current Gen dir> <timeout seconds per function> > ops

Both directories hold FiatField.lean and FiatScalar.lean as written by go2lean (flat `let` chains over the word
primitives of Secp.Prim). Every definition is evaluated symbolically over 64-bit bit-vectors in both versions; for each
definition whose two terms are not syntactically identical z3 is asked for inputs, within the function's precondition
(canonical limbs), on which the outputs differ. A witness is printed as operation lines of the correspondence protocol,
which then runs it on the real code and on the specification: the SMT query only *proposes* inputs, the three-way
comparison decides. This is a search aid (DESIGN section 6), not a proof step.
"""
import sys, re, os
import z3

W = 64
P = 2**256 - 2**32 - 977
N = 0xFFFFFFFFFFFFFFFFFFFFFFFFFFFFFFFEBAAEDCE6AF48A03BBFD25E8CD0364141


def bv(v):
    return z3.BitVecVal(v, W) if isinstance(v, int) else v


def mul64(a, b):
    p = z3.ZeroExt(W, bv(a)) * z3.ZeroExt(W, bv(b))
    return (z3.Extract(2 * W - 1, W, p), z3.Extract(W - 1, 0, p))


def add64(a, b, c):
    s = z3.ZeroExt(2, bv(a)) + z3.ZeroExt(2, bv(b)) + z3.ZeroExt(2, bv(c))
    return (z3.Extract(W - 1, 0, s), z3.ZeroExt(W - 2, z3.Extract(W + 1, W, s)))


def sub64(a, b, c):
    bc = z3.ZeroExt(2, bv(b)) + z3.ZeroExt(2, bv(c))
    d = bv(a) - bv(b) - bv(c)
    return (d, z3.If(z3.ULT(z3.ZeroExt(2, bv(a)), bc), z3.BitVecVal(1, W), z3.BitVecVal(0, W)))


BUILTINS = {
    "mul64": mul64, "add64": add64, "sub64": sub64,
    "wadd": lambda a, b: bv(a) + bv(b), "wmul": lambda a, b: bv(a) * bv(b), "wsub": lambda a, b: bv(a) - bv(b),
    "wneg": lambda a: -bv(a), "wnot": lambda a: ~bv(a),
    "Nat.land": lambda a, b: bv(a) & bv(b), "Nat.lor": lambda a, b: bv(a) | bv(b), "Nat.xor": lambda a, b: bv(a) ^ bv(b),
    "wshr": lambda a, k: z3.LShR(bv(a), bv(k)), "wshl": lambda a, k: bv(a) << bv(k),
}
ARITY = {"mul64": 2, "add64": 3, "sub64": 3, "wadd": 2, "wmul": 2, "wsub": 2, "wneg": 1, "wnot": 1, "Nat.land": 2, "Nat.lor": 2,
         "Nat.xor": 2, "wshr": 2, "wshl": 2}

TOK = re.compile(r"\s*(⟨|⟩|\(|\)|,|[A-Za-z_][A-Za-z0-9_.']*|\d+)")


def tokenize(s):
    out, i = [], 0
    s = s.strip()
    while i < len(s):
        m = TOK.match(s, i)
        if not m:
            raise ValueError("cannot tokenize %r at %d" % (s, i))
        out.append(m.group(1))
        i = m.end()
    return out


class FnRef:
    def __init__(self, name):
        self.name = name


class Def:
    def __init__(self, name, params, ret, body):
        self.name, self.params, self.ret, self.body = name, params, ret, body


def parse_file(path):
    defs, cur = {}, None
    order = []
    for line in open(path):
        line = line.rstrip("\n")
        m = re.match(r"^def (\S+)\s*(.*?)\s*:\s*([^:=()]+?)\s*:=\s*(.*)$", line)
        if m:
            params = re.findall(r"\((\w+) : (\w+)\)", m.group(2))
            cur = Def(m.group(1), params, m.group(3).strip(), [])
            if m.group(4).strip():
                cur.body.append(m.group(4).strip())
            defs[cur.name] = cur
            order.append(cur.name)
            continue
        if cur is not None:
            if line.startswith("  "):
                cur.body.append(line.strip())
            elif line.strip() == "" or line.startswith("end "):
                cur = None
    return defs, order


class Ev:
    def __init__(self, defs):
        self.defs = defs

    def call(self, name, args, trace=None):
        d = self.defs[name]
        env = {}
        for (pn, _), a in zip(d.params, args):
            env[pn] = a
        val = None
        for ln in d.body:
            m = re.match(r"^let (\S+) := (.*)$", ln)
            if m:
                env[m.group(1)] = self.expr(tokenize(m.group(2)), env)
                if trace is not None:
                    trace.append((m.group(1), env[m.group(1)]))
            else:
                val = self.expr(tokenize(ln), env)
        return val

    def expr(self, toks, env):
        v, rest = self.app(toks, env)
        if rest:
            raise ValueError("trailing tokens %r" % rest)
        return v

    def lookup(self, name, env):
        parts = name.split(".")
        # longest prefix that is a variable
        for k in range(len(parts), 0, -1):
            base = ".".join(parts[:k])
            if base in env:
                v = env[base]
                for proj in parts[k:]:
                    if proj in ("l0", "l1", "l2", "l3"):
                        v = v[int(proj[1])]
                    elif proj == "1":
                        v = v[0]
                    elif proj == "2":
                        v = v[1] if len(v) == 2 else tuple(v[1:])
                    else:
                        raise ValueError("projection " + name)
                return v
        return None

    def atom(self, toks, env):
        t = toks[0]
        if t == "(":
            v, rest = self.app(toks[1:], env)
            items = [v]
            while rest and rest[0] == ",":
                v, rest = self.app(rest[1:], env)
                items.append(v)
            assert rest[0] == ")", rest
            rest = rest[1:]
            val = items[0] if len(items) == 1 else tuple(items)
            return val, rest
        if t == "⟨":
            items = []
            rest = toks[1:]
            while True:
                v, rest = self.app(rest, env)
                items.append(v)
                if rest[0] == ",":
                    rest = rest[1:]
                    continue
                assert rest[0] == "⟩"
                return list(items), rest[1:]
        if t.isdigit():
            return int(t), toks[1:]
        v = self.lookup(t, env)
        if v is not None:
            return v, toks[1:]
        return FnRef(t), toks[1:]

    def app(self, toks, env):
        head, rest = self.atom(toks, env)
        if isinstance(head, FnRef):
            name = head.name
            if name in ARITY:
                n = ARITY[name]
            elif name in self.defs:
                n = len(self.defs[name].params)
            else:
                raise ValueError("unknown function " + name)
            args = []
            for _ in range(n):
                a, rest = self.atom(rest, env)
                args.append(a)
            if name in ARITY:
                if name in ("wshr", "wshl"):
                    return BUILTINS[name](args[0], args[1]), rest
                return BUILTINS[name](*args), rest
            return self.call(name, args), rest
        return head, rest


def flatten(v):
    if isinstance(v, (list, tuple)):
        out = []
        for x in v:
            out += flatten(x)
        return out
    return [bv(v)]


def val256(l):
    return z3.Concat(l[3], l[2], l[1], l[0])


def hexl(model, l):
    v = 0
    for i in range(4):
        v |= model.eval(l[i], model_completion=True).as_long() << (64 * i)
    return "%064x" % v


# which canonical-range precondition applies to the L4 parameters, and how a witness becomes operation lines
def lines_for(ns, name, params, model, syms):
    a = [hexl(model, s) if isinstance(s, list) else "%x" % model.eval(s, model_completion=True).as_long() for s in syms]
    F = ns == "FiatField"
    pre = "F." if F else "S."
    out = []
    base = name[2:].lower() if name.startswith("el") else name
    m = {"mul": "mul", "multiply": "mul", "square": "sq", "add": "add", "sub": "sub", "subtract": "sub", "opp": "neg", "negate": "neg"}
    if base in m and len(a) >= 1:
        if m[base] == "neg" and not F:
            return out
        out.append(pre + m[base] + " " + " ".join(a))
        if not F:
            api = {"mul": "SC.mul", "add": "SC.add", "sub": "SC.sub"}.get(m[base])
            if api:
                out.append(api + " " + " ".join(a))
            if m[base] == "sq":
                out.append("SC.sq " + a[0])
                out.append("SC.pow " + a[0] + " " + "%064x" % (2 * 2**256 % N))
        else:
            # the same operands as coordinates of group operations are out of reach of a generic lifting; field level only
            pass
    elif base == "fromMontgomery":
        out.append(pre + "frommont " + a[0])
        if F:
            out += ["F.bytes " + a[0], "F.sgn " + a[0]]
        else:
            out += ["SC.enc " + a[0], "SC.bits " + a[0], "SC.leq " + a[0] + " " + a[0]]
    elif base == "toMontgomery":
        out.append(pre + "tomont " + a[0])
        if F:
            out.append("F.frombytes " + a[0])
        else:
            out.append("S.reducebytes " + a[0])
            out.append("SC.dec " + "0" * 64 + " " + a[0])
    elif base == "reduce":
        out.append(("F.frombytes " if F else "S.reducebytes ") + a[0])
        if not F:
            out.append("SC.dec " + "0" * 64 + " " + a[0])
    elif base in ("nonzero", "iszero", "isFEZero"):
        out.append(pre + "iszero " + a[0])
        if not F:
            out.append("SC.iszero " + a[0])
    elif base in ("selectznz", "cmove", "cMove") and len(a) == 3:
        out.append(pre + "cmov " + a[0] + " " + a[1] + " " + a[2])
        if not F:
            out.append("SC.csel " + a[1] + " " + a[0] + " " + a[1] + " " + a[2])
    elif base in ("equals", "equal") and len(a) == 2:
        out.append(pre + "eq " + a[0] + " " + a[1])
        if not F:
            out.append("SC.eq " + a[0] + " " + a[1])
    elif base == "sgn0":
        out.append("F.sgn " + a[0])
    return out


def main():
    basedir, curdir, timeout = sys.argv[1], sys.argv[2], int(sys.argv[3])
    for ns, mod in (("FiatField", P), ("FiatScalar", N)):
        fb, fc = os.path.join(basedir, ns + ".lean"), os.path.join(curdir, ns + ".lean")
        if not (os.path.exists(fb) and os.path.exists(fc)):
            continue
        if open(fb).read() == open(fc).read():
            continue
        db, ob = parse_file(fb)
        dc, oc = parse_file(fc)
        eb, ec = Ev(db), Ev(dc)
        for name in oc:
            if name not in db or name in ("cmovznzU64", "isNonZero", "isZero", "isEqual", "setOne", "elOne"):
                continue
            d = dc[name]
            if (name.startswith("el") or name == "cMove") and d.body == db[name].body:
                continue  # a wrapper whose own text is unchanged: its callee is examined directly
            if [t for _, t in d.params] != [t for _, t in db[name].params]:
                sys.stderr.write("smt: signature of %s.%s changed\n" % (ns, name))
                continue
            syms, cons = [], []
            for pn, ty in d.params:
                if ty == "L4":
                    l = [z3.BitVec("%s_%d" % (pn, i), W) for i in range(4)]
                    syms.append(l)
                    if name != "reduce":
                        cons.append(z3.ULT(val256(l), z3.BitVecVal(mod, 256)))
                else:
                    s = z3.BitVec(pn, W)
                    syms.append(s)
                    if name in ("selectznz", "elCMove", "cMove"):
                        cons.append(z3.ULE(s, 1))
            try:
                tb, tc = [], []
                vb = flatten(eb.call(name, syms, tb))
                vc = flatten(ec.call(name, syms, tc))
            except Exception as ex:  # construct outside the mini-language
                sys.stderr.write("smt: cannot evaluate %s.%s: %s\n" % (ns, name, ex))
                continue
            if len(vb) != len(vc):
                continue
            diff = z3.Or([x != y for x, y in zip(vb, vc)])
            if z3.is_false(z3.simplify(diff)):
                continue
            # queries, cheapest first: the first intermediate values (same `let` name) that differ between the two
            # versions - a small cone of the computation - then the outputs themselves
            queries = []
            cb = dict(tb)
            for nm, v in tc:
                if nm in cb:
                    fb_, fc_ = flatten(cb[nm]), flatten(v)
                    if len(fb_) == len(fc_):
                        dd = z3.simplify(z3.Or([x != y for x, y in zip(fb_, fc_)]))
                        if not z3.is_false(dd):
                            queries.append(("intermediate " + nm, dd))
                            if len(queries) >= 2:
                                break
            queries.append(("outputs", diff))
            found = False
            allv = []
            for sy in syms:
                allv += sy if isinstance(sy, list) else [sy]
            import random
            rnd = random.Random(12345)
            edge = [0, 1, 2, 2**32, 2**63, 2**64 - 1, 2**64 - 2, 2**32 - 1]

            def attempt(what, q, fixed, tmo):
                sub = [(v, z3.BitVecVal(c, W)) for v, c in fixed.items()]
                s = z3.Solver()
                s.set("timeout", tmo)
                for c in cons:
                    s.add(z3.substitute(c, *sub) if sub else c)
                s.add(z3.substitute(q, *sub) if sub else q)
                r = s.check()
                if r != z3.sat:
                    return r, False
                m = s.model()
                for v, c in sub:
                    pass
                full = z3.Solver()
                # evaluate under the combined assignment
                assign = dict((str(v), c) for v, c in fixed.items())
                vals = []
                for v in allv:
                    if str(v) in assign:
                        vals.append((v, z3.BitVecVal(assign[str(v)], W)))
                    else:
                        vals.append((v, m.eval(v, model_completion=True)))
                outs_differ = z3.is_true(z3.simplify(z3.substitute(diff, *vals)))
                mm = z3.Solver()
                for v, c in vals:
                    mm.add(v == c)
                mm.check()
                for l in lines_for(ns, name, d.params, mm.model(), syms):
                    print(l)
                sys.stderr.write("smt: %s.%s differs from baseline (%s, %d limbs fixed): witness; outputs differ on it: %s\n"
                                 % (ns, name, what, len(fixed), outs_differ))
                return r, outs_differ

            # 1. partial concretisation: all input words but one or two are fixed to boundary/random constants, so the
            #    products become linear and the query is easy; many cheap attempts
            import time
            t_end = time.time() + timeout
            for what, q in queries:
                if found:
                    break
                for it in range(60):
                    if time.time() > t_end - timeout / 3:
                        break
                    nfree = 1 if it % 3 else 2
                    free = rnd.sample(range(len(allv)), min(nfree, len(allv)))
                    fixed = {}
                    for i, v in enumerate(allv):
                        if i in free:
                            continue
                        fixed[v] = rnd.choice(edge) if rnd.random() < 0.5 else rnd.getrandbits(64)
                    # keep the top limb small enough for the canonical range when it is fixed
                    r, ok = attempt(what, q, fixed, 3000)
                    if ok:
                        found = True
                        break
            # 2. the unrestricted query
            for what, q in queries:
                if found:
                    break
                left = max(2, int(t_end - time.time()))
                r, ok = attempt(what, q, {}, left * 1000)
                sys.stderr.write("smt: %s.%s differs from baseline (%s): %s\n" % (ns, name, what, r))
                if ok:
                    found = True


if __name__ == "__main__":
    main()
