#!/bin/bash
# usage: try_seeded.sh <patch.diff> <demo_test.go or -> <property ids...>
# Applies a seeded change to /repo, confirms (suite passes, demo fails), runs the given checks, reverts.
set -u
PATCH="$1"; DEMO="$2"; shift 2
export GOFLAGS=-mod=mod GOPROXY=off GOSUMDB=off GOTOOLCHAIN=local
cd /repo
git diff --quiet || { echo "repo dirty"; exit 2; }
git apply "$PATCH" || { echo "patch does not apply"; exit 2; }
trap 'cd /repo && git checkout -- . && git clean -fdq -- tests internal . 2>/dev/null; cd /verif && git checkout -q -- evidence replays 2>/dev/null; echo "[reverted]"' EXIT
go build ./... && go test -vet=off -count=1 ./... 2>&1 | tail -3
if [ "$DEMO" != "-" ]; then
  dest=tests/$(basename "$DEMO"); case "$DEMO" in */internal/*) dest=${DEMO#/tmp/wt_*/};; esac
  cp "$DEMO" "/repo/$dest"
  echo "--- demo with change (expected FAIL):"
  go test -vet=off -count=1 -run TestSeededDemo ./... 2>&1 | grep -E "^(FAIL|ok|---)" | head -5
  rm -f "/repo/$dest"
fi
cd /verif
for id in "$@"; do
  echo "--- check $id"
  timeout 1500 ./check "$id" 2>&1 | grep -E "VIOLATION|OK:|BROKEN|KNOWN" | head -6
done
