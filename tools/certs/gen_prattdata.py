#!/usr/bin/env python3
"""pratt.json -> Secp/Proofs/PrattData.lean (run with python3-vt; sympy only used to get exponents)."""
import json
from sympy import factorint
cert = json.load(open('/verif/tools/certs/pratt.json'))
qs = sorted(int(k) for k in cert)
out = ['import Secp.Proofs.Pratt', '/-!',
       '# Pratt certificates for p and n (static data, computed offline by tools/certs/pratt.py; every step is checked by the kernel)',
       '-/', 'namespace PrattData', '']
for q in qs:
    g, fs = cert[str(q)]
    fac = factorint(q - 1)
    items = ', '.join('(%d, %d)' % (r, fac[r]) for r in sorted(fac))
    out.append('theorem prime_%d : Nat.Prime %d := by' % (q, q))
    out.append('  apply pratt %d %d [%s]' % (q, g, items))
    out.append('  · intro f hf')
    out.append('    simp only [List.mem_cons, List.mem_nil_iff, or_false] at hf')
    alts = sorted(fac)
    if len(alts) > 1:
        out.append('    rcases hf with %s' % ' | '.join(['rfl'] * len(alts)))
        for r in alts:
            out.append('    · norm_num' if r < 100 else '    · exact prime_%d' % r)
    else:
        out.append('    subst hf')
        out.append('    norm_num' if alts[0] < 100 else '    exact prime_%d' % alts[0])
    out.append('  · decide +kernel')
    out.append('')
out.append('end PrattData')
open('/verif/lean/Secp/Proofs/PrattData.lean', 'w').write('\n'.join(out) + '\n')
print(len(qs))
