#!/usr/bin/env python3
"""Certificate for 'the 3-isogeny image lies on secp256k1': with g'(x) = x^3 + A'x + B',
   g'(x) * yNum(x)^2 * xDen(x)^3 - (xNum(x)^3 + 7*xDen(x)^3) * yDen(x)^2 = P * Q(x)  over the integers.
Writes the coefficients of Q as a Lean definition; the identity is then checked by `ring` in Lean."""
from sympy import symbols, Poly, expand
x = symbols('x')
P = 2**256 - 2**32 - 977
A = 0x3f8731abdd661adca08a5558f0f5d272e953d363cb6f0e5d405447c01a444533
B = 1771
k10=0x8e38e38e38e38e38e38e38e38e38e38e38e38e38e38e38e38e38e38daaaaa8c7
k11=0x7d3d4c80bc321d5b9f315cea7fd44c5d595d2fc0bf63b92dfff1044f17c6581
k12=0x534c328d23f234e6e2a413deca25caece4506144037c40314ecbd0b53d9dd262
k13=0x8e38e38e38e38e38e38e38e38e38e38e38e38e38e38e38e38e38e38daaaaa88c
k20=0xd35771193d94918a9ca34ccbb7b640dd86cd409542f8487d9fe6b745781eb49b
k21=0xedadc6f64383dc1df7c4b2d51b54225406d36b641f5e41bbc52a56612a8c6d14
k30=0x4bda12f684bda12f684bda12f684bda12f684bda12f684bda12f684b8e38e23c
k31=0xc75e0c32d5cb7c0fa9d0a54b12a0a6d5647ab046d686da6fdffc90fc201d71a3
k32=0x29a6194691f91a73715209ef6512e576722830a201be2018a765e85a9ecee931
k33=0x2f684bda12f684bda12f684bda12f684bda12f684bda12f684bda12f38e38d84
k40=0xfffffffffffffffffffffffffffffffffffffffffffffffffffffffefffff93b
k41=0x7a06534bb8bdb49fd5e9e6632722c2989467c1bfc8e8d978dfb425d2685c2573
k42=0x6484aa716545ca2cf3a70c3fa8fe337e0a3d21162f0d6299a7bf8192bfd2a76f
xNum = k13*x**3 + k12*x**2 + k11*x + k10
xDen = x**2 + k21*x + k20
yNum = k33*x**3 + k32*x**2 + k31*x + k30
yDen = x**3 + k42*x**2 + k41*x + k40
g = x**3 + A*x + B
E = Poly(expand(g*yNum**2*xDen**3 - (xNum**3 + 7*xDen**3)*yDen**2), x)
cs = E.all_coeffs()[::-1]
assert all(c % P == 0 for c in cs), [c % P for c in cs]
q = [int(c)//P for c in cs]
print("degree", E.degree(), "coefficient bits", max(abs(c).bit_length() for c in q))
with open('/verif/lean/Secp/Proofs/IsoCert.lean','w') as f:
    f.write("/-! Cofactor polynomial for the isogeny on-curve identity (static data computed by tools/certs/iso_cert.py; the\nidentity it certifies is re-checked by `ring` in `Secp.Proofs.Isogeny`). -/\nnamespace IsoCert\n")
    f.write("def Q (x : Int) : Int :=\n  " + " +\n  ".join("(%d) * x ^ %d" % (c, i) for i, c in enumerate(q)) + "\nend IsoCert\n")
print("written")
