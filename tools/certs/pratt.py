#!/usr/bin/env python3
"""Computes Pratt primality certificates for p and n (offline, sympy) and writes them as a Lean data file.
Run once; the output Secp/Proofs/PrattData.lean is *checked* by the Lean kernel, not trusted."""
import sys, json
from sympy import factorint
sys.setrecursionlimit(10000)
p = 2**256 - 2**32 - 977
n = 0xfffffffffffffffffffffffffffffffebaaedce6af48a03bbfd25e8cd0364141
cert = {}
def pratt(q):
    if q in cert or q < 100:
        return
    f = factorint(q - 1)
    g = 2
    while not (pow(g, q - 1, q) == 1 and all(pow(g, (q - 1) // r, q) != 1 for r in f)):
        g += 1
    cert[q] = (g, sorted(f))
    for r in f:
        pratt(r)
pratt(p); pratt(n)
json.dump({str(k): [v[0], [str(x) for x in v[1]]] for k, v in cert.items()}, open('pratt.json', 'w'), indent=0)
print(len(cert), "primes")
