"""Per-property claim texts for MANIFEST.json (kept next to the code that decides them)."""

NOT_APPLICABLE = {}

TB = ("Trusted: Lean 4.33 kernel (axioms propext, Classical.choice, Quot.sound only, audited per theorem on every run), Mathlib's "
      "definitions of ZMod and the elliptic-curve group; the go2lean translator's reading of Go (cross-checked on raw limbs by the "
      "correspondence families); the correspondence check is differential testing. ")

CLAIMS = {
 "C01": dict(
  technique="Lean 4 proof: ladder invariant by induction over the bit list on the regenerated complete add/double formulas at the proved limb-level field; Multiply itself regenerated from element.go and proved equal to the model; correspondence against the real code",
  text="Kernel-checked (C01, C01_ladder, C01_full, C01_nil): for every valid projective triple P in any representation and every canonical scalar k, "
       "the model of Multiply returns a valid point equal to (value of k) • P in Mathlib's elliptic-curve group over ZMod p; nil scalar gives the identity. "
       "The premises about Bits and IsOne are the proved C14/C13 theorems; the formulas and FromMontgomery are regenerated from the source on every run.",
  note=TB + "Multiply/multiply are regenerated whole on every run (nil test, IsOne shortcut, Bits, the 256-iteration loop over the regenerated Add/Double, set) and proved equal to the model "
       "(multiply_regenerated, multiply_tied); the PT.mul family (raw limbs of the result, edge scalars x representations, also against an independent affine double-and-add) runs the real code."),
 "C02": dict(
  technique="Lean 4 proof: Renes-Costello-Batina completeness against Mathlib's WeierstrassCurve.Affine.Point, bridged to the regenerated step sequences by ring; limb-level field laws proved",
  text="Kernel-checked for all pairs of valid operands in all projective representations and both aliasing patterns (a separate generated specialisation for e.Add(e)): "
       "add, double, negate, subtract compute the group law of y^2=x^3+7 over ZMod p (p prime by checked Pratt certificates; no 2-torsion), results stay valid, "
       "nil arguments are no-ops, arguments are never written.",
  note=TB + "The API methods Add/Double/Negate/Subtract (nil handling, the copy inside Subtract, both aliasing patterns) are regenerated with their callees inlined and tied to the model by rfl; "
       "additionally compared by the grouplaw family on raw triples incl. Z not in {0,1}, (0:Y:0), P=+-Q."),
 "C03": dict(
  technique="Lean 4 proof: limb-level decoder models refine an executable SEC1 acceptance specification (Reduce borrow chain, ToMontgomery, SqrtRatio chain proved); the decoders and their wrappers regenerated from element.go and proved equal to the model; correspondence against the real code",
  text="Kernel-checked (decode_spec, decode_accepts_iff and one theorem per decoder): for every receiver and every byte string the decoder accepts iff the SEC1 specification does "
       "(00; 02/03||x with x<p and x^3+7 square; 04||x||y canonical and on the curve; nothing else), returns the specified point as a valid element, and on rejection returns "
       "invalidPointEncoding with the receiver unchanged.",
  note=TB + "The four point decoders (length switch, prefix and parity logic, early returns with the receiver as it is at that point) are regenerated and proved equal to the model; DecodeHex/UnmarshalBinary wrappers and the 32-byte parser are hand models tied by the decode family (all 256 prefixes, lengths 0..70, x>=p aliases, y+p aliases, hybrid prefixes, wrong parity, off-curve)."),
 "C04": dict(
  technique="Lean 4 proof: encoders of any projective representation equal the SEC1 encoding of the abstract point; round trips by composition with the C03 theorem; encoders, wrappers and Base regenerated and proved equal to the model",
  text="Kernel-checked: Encode/EncodeUncompressed are the SEC1 compressed/uncompressed forms of the abstract point (00 for the identity) for every valid triple, hence identical for all "
       "representations of a group element; Decode(Encode(P)) and Decode(EncodeUncompressed(P)) succeed and give the same group element; XCoordinate is a view of Encode.",
  note=TB + "Encode/EncodeUncompressed/XCoordinate are regenerated (byte array, constant-time select/copy, append) and proved equal to the model; Hex/MarshalBinary wrappers and Bytes() are hand models tied by the enc and roundtrip families (re-scaled representations, every identity representation, points with x just below p)."),
 "C05": dict(
  technique="Lean 4 proof: cross-multiplied comparison decides equality in the group for all representations, on the regenerated isEqual (both alias patterns)",
  text="Kernel-checked: Equal returns 1 iff the operands are the same element of Mathlib's group, else 0, is symmetric, and IsIdentity holds exactly for the identity, for all valid projective triples.",
  note=TB + "Equal (both aliasing patterns) and IsIdentity are regenerated and tied by rfl. eq family: re-scaled pairs (incl. sparse-Montgomery scalings), P/-P, endomorphism pairs sharing y, line mates (x1+y1=x2+y2), identity representations."),
 "C06": dict(
  technique="Lean 4 proof: generated Fiat scalar functions = structured Montgomery reference by rfl, reference correct for any valid modulus; chain exponent evaluated in the kernel; Fermat; every method of scalar.go (Pow, Invert included) regenerated and proved equal to the model",
  text="Kernel-checked over canonical limbs and ZMod n: Add, Subtract, Multiply, Square exact and canonical (aliasing is sound: the translator refuses reads after the first output write); "
       "Invert = x^-1 (0 -> 0) through the regenerated 293-step chain; SetUInt64 for every 64-bit value; Zero/One/MinusOne; nil conventions; Pow = s^t.",
  note=TB + "Pow goes through math/big, modelled as exact modular powering (assumed). The methods Zero/One/MinusOne/Add/Subtract/Multiply/Square/Set/SetUInt64/IsZero/IsOne of scalar.go are regenerated (nil as none) and tied by rfl; "
       "Pow (math/big modelled: SetBytes, Exp, Bytes), Invert (through scalar.Invert and the regenerated chain), Set and Copy are regenerated too and proved equal to the model (pow_regenerated, "
       "invert_regenerated); the scarith/sfarith families (boundary x boundary prefix) run the real code."),
 "C07": dict(
  technique="Lean 4 proof: scalar Encode/Decode refine big-endian integers below n (Reduce borrow chain and Montgomery conversions proved); codec and byte-level functions regenerated and proved equal to the model",
  text="Kernel-checked: Encode is the 32-byte big-endian canonical value; Decode accepts exactly 32-byte strings below n and stores that integer, rejects the empty input, other lengths and values >= n "
       "with their distinct errors; both round trips; hex variants agree.",
  note=TB + "Encode/Decode/Hex/DecodeHex/MarshalBinary/UnmarshalBinary and the byte-level functions of internal/scalar are regenerated on every run (byte-slice mode) and proved equal to the model "
       "(codec_regenerated, byte_functions_regenerated, regenerated_roundtrip); encoding/hex and encoding/binary are modelled; the scenc/sfenc families (window around n, all lengths 0..70) run the real code."),
 "C08": dict(
  technique="Lean 4 proof: refinement of the expander, wide reduction, regenerated SSWU and isogeny, and complete addition to an independent RFC 9380 specification, for every hash with 32-byte output; xmd.go and group.go regenerated (Option monad, checked alias classes) and proved equal to the model",
  text="Kernel-checked for every hash function H with 32-byte output, every message, every non-empty DST of any length: HashToGroup/EncodeToGroup return a valid element whose abstract point is "
       "hash_to_curve/encode_to_curve of RFC 9380 (expand_message_xmd incl. the oversize rule, hash_to_field, textbook SSWU, E.1 isogeny, addition in the group); an empty DST panics.",
  note=TB + "SHA-256 is a parameter of the theorems (the driver's Lean SHA-256 is sampled against crypto/sha256). xmd.go and the three compositions of group.go are regenerated by go2lean on every run (byte-slice mode: Option monad, loops, bounds checks, alias classes checked) "
       "and proved equal to the model (expander_regenerated, hashToGroup_regenerated, encodeToGroup_regenerated); the wide reduction's byte parsing is a hand model tied by the fh2f family; the xmd, h2c and chosenu "
       "families run the real function bodies (the latter on chosen expander outputs)."),
 "C09": dict(
  technique="Lean 4 proof: HashToScalar refines OS2IP(expand_message_xmd) mod n; 48-byte wide reduction proved for all inputs; expander, HashToScalar and the wide reduction regenerated and proved equal to the model",
  text="Kernel-checked for every hash with 32-byte output: HashToScalar returns the canonical scalar OS2IP(expand_message_xmd(msg, DST, 48)) mod n; the wide reduction is exact on all 2^384 inputs; empty DST panics.",
  note=TB + "Same hash assumption as C08; expandXMD and HashToScalar are regenerated on every run and proved equal to the model (expander_regenerated, hashToScalar_regenerated); "
       "the wide reduction's byte parsing is a hand model tied by the h2s and sfh2f families."),
 "C10": dict(
  technique="Lean 4 proof: invariant + refinement of a concrete pool machine (built from the API model) to an abstract machine on points and integers mod n, by induction over the operation list",
  text="Kernel-checked (step_refines, obs_refines, history_refines, always_valid, non_receivers_unchanged, copy_independent): for every finite history of API calls from the initial pools, with any "
       "receiver/argument aliasing, error tags and all observations (Encode, IsIdentity, pairwise Equal, scalar Encode, IsZero, Equal) after every step equal those of the abstract machine; every element stays a "
       "valid curve point; a step changes no variable but its receiver; copies are independent.",
  note=TB + "The machine's steps are the API models of C01-C09/C13/C14; the arithmetic, comparison, Set/Copy/Identity steps are the regenerated methods (ties in the same file), decoding and hashing steps hand models; "
       "tied by the history (40-step) and historylong (400-step) families observed after every step in Go and in both machines."),
 "C11": dict(
  technique="Lean 4 proof: regenerated SSWU equals the textbook map on every field element via a determining relation; regenerated isogeny equals the E.1 map; image on the curve by a checked polynomial certificate",
  text="Kernel-checked: for every field element u (the exceptional inputs 0 and +-sqrt(-1/Z) included, no side condition) SSWU returns the RFC 9380 6.6.2 point with sgn0(y)=sgn0(u); the 3-isogeny is the E.1 rational map; "
       "the composition is total, lands on secp256k1 and is valid.",
  note=TB + "map and chosenu families (exceptional u first)."),
 "C12": dict(
  technique="Lean 4 proof: generated Fiat functions = structured reference by rfl, reference correct for any valid Montgomery modulus; bit tricks, chains, byte conversion proved; lawful-field instance",
  text="Kernel-checked for all canonical limb tuples: Add, Sub, Mul, Square, Neg exact in F_p and canonical; Invert (270-step chain) = x^-1; SqrtRatio meets the RFC 9380 F.2.1.2 contract; Sgn0, IsZero, Equals, CMove, "
       "FromBytesWithReduce, Bytes, HashToFieldElement, To/FromMontgomery; canonical forms are unique; p is prime.",
  note=TB + "The method wrappers of internal/field/element.go (Add ... CMove, IsZero, Sgn0, Equals) are regenerated and tied to the operations record by rfl; Bytes, FromBytesWithReduce, FromBytesNoReduce, HashToFieldElement and the byte/limb conversions are regenerated (byte-slice mode) and "
       "proved equal to the model (byte_functions_regenerated); the field family (4000 / thorough 1000000 edge-heavy operand tuples, near-equal pairs, alias variants) runs the real code."),
 "C13": dict(
  technique="Lean 4 proof: bit-trick lemmas and Montgomery conversion give LessOrEqual = integer order, CSelect for every condition word",
  text="Kernel-checked: Equal/IsZero/IsOne decide equality of canonical values; LessOrEqual is the integer order of the canonical values; CSelect returns u for cond = 0 and v for every non-zero 64-bit condition word; nil cases.",
  note=TB + "Equal/LessOrEqual/IsZero/IsOne/CSelect of scalar.go and scalar.CMove are regenerated and tied by rfl. cmp/sfcmp families (condition words 0,1,2,3,2^32,2^63,2^64-1,random; raw-limb patterns; receiver aliasing either operand)."),
 "C14": dict(
  technique="Lean 4 proof: Bits = binary expansion of the canonical value, over Bits regenerated statement by statement and the regenerated FromMontgomery",
  text="Kernel-checked: Bits returns exactly 256 entries, entry i is bit i of the canonical value, and their weighted sum is the value; the loop bound and body are read from the source on every run.",
  note=TB + "Bits is regenerated statement by statement on every run (range-over-int loop, computed limb index, store) and proved equal to the model (bits_regenerated); bits family (bit 255 set, powers of two, k*2^64, n-1) runs the real code."),
 "C15": dict(
  technique="Lean 4 proof over a heap/slice model of vetDSTXMD (frame theorem for every heap and layout) + regenerated static write analysis + run-time backing-array comparison",
  text="Kernel-checked: in the Go-slice model of vetDSTXMD every pre-existing buffer is unchanged and the result is a new buffer, for every heap, offset, length, capacity and spare-capacity content; "
       "the regenerated analysis shows no statement reachable from a slice-taking API function can write through a slice parameter. Run time: every such function on slices carved out of "
       "sentinel-filled arrays in 7 layouts, backing arrays compared before/after, returned buffers mutated and sources re-read.",
  note=TB + "The regenerated expander (byte-slice mode of go2lean) records every overwrite of / append into a slice parameter's memory while checking that value semantics is sound "
       "(expander_leaves_arguments_alone), and its vetDSTXMD is proved to be the model's (vetDST_regenerated). Partial: the Go allocator and escape analysis are not modelled ('fresh' = not aliasing "
       "any buffer the model knows); h.Write is taken to only read its argument."),
 "C16": dict(
  technique="Lean 4 proof over an interleaving/footprint model (race freedom and solo-run equivalence for every schedule, by induction) instantiated with the API's footprint table regenerated by a may-write analysis + race-detector run",
  text="Kernel-checked (api_schedule_disciplined, api_race_free, api_deterministic): for any number of goroutines, any API functions, any sharing of arguments and any interleaving, if every goroutine owns its receivers "
       "then no two accesses conflict and every written location ends as in the solo run. The premise that an API call writes only through its receiver (api_writes_only_output, 60 functions), that no package variable is written "
       "and that no slice parameter is written through are re-derived from the source on every run. The harness built with -race runs 8 goroutines per scenario over every API function with shared arguments and compares with sequential results.",
  note=TB + "Partial: the Go memory model and scheduler are modelled by sequentially consistent interleavings of per-call access sets; the may-write analysis is part of the translator (trusted, cross-checked by the race detector, which only observes executed schedules)."),
 "C17": dict(
  technique="Lean 4 proof about a linker/registry model over the regenerated import closure (intersection over build tags) + build and run of a minimal main per tag",
  text="Kernel-checked over a linker/registry model: every program linking the package links the implementation of every hash the package requests from the crypto registry, because that implementation is in the "
       "package's own import closure under every build-tag configuration; a plain main importing only the package is built and run per tag and its outputs compared with the executable RFC specification.",
  note=TB + "Partial: the Go linker and package initialisation order are modelled (linked set = import closure; a hash is registered iff its implementing package is linked), not verified; the minimal-main run per build tag is the correspondence."),
 "C18": dict(
  technique="Lean 4 proof over a byte-stream model of Random (rejection loop, Reduce, ToMontgomery proved); Random regenerated (explicit iteration bound, entropy stream as a parameter) and proved equal to the model for every stream + correspondence with a scripted entropy source",
  text="Kernel-checked: for every byte stream Random returns the first 32-byte block whose value mod n is non-zero, reduced and canonical, never zero, and panics exactly when the stream ends before such a block; one conditional subtraction suffices.",
  note=TB + "Random is regenerated on every run (for-cond loop with an explicit iteration bound, crypto/rand.Reader as a hidden stream parameter, io.ReadFull modelled) and proved to return what the model "
       "returns for every stream and every sufficient bound (random_regenerated); the rnd family (blocks 0, n, n+k, 2^256-1, short reads, early EOF) runs the real code."),
 "C19": dict(
  technique="Lean 4 proof over the statically extracted schedule of field operations of multiply + recorded traces from an instrumented scratch copy",
  text="Kernel-checked on the regenerated schedule: both branches of a ladder iteration perform the same list of calls into the field/scalar packages, so the trace of Multiply is the same for every scalar that does not take the "
       "documented IsOne shortcut (78872 calls). Recorded traces of an instrumented copy are compared with each other and with the extracted schedule.",
  note=TB + "Granularity is function entries of internal/field and internal/scalar; instruction-level timing is out of reach of this technique."),
}
