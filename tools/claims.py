"""Per-property claim texts for MANIFEST.json (kept next to the code that decides them; updated as proofs land)."""

NOT_APPLICABLE = {}

GEN = "model regenerated from the Go source by go2lean on every run"
CORR = "hand-written glue tied to the code by the correspondence check (same operation lines on the real code, the Lean model and the Lean specification; three-way diff)"

CLAIMS = {
 "C01": dict(
  technique="Lean 4 proof: ladder invariant by induction over the bit list on the regenerated add/double formulas; correspondence for the glue",
  text="Kernel-checked: for every valid projective triple P (any representation) and every bit string, the ladder over the generated complete addition/doubling at the limb implementation yields [k]P in Mathlib's elliptic-curve group over ZMod p (theorems C01_ladder, C01, C01_nil), resting on the proved limb-level field laws (Montgomery mul/square/add/sub/neg, cmove, zero/equality tests). The scalar-side premises of C01 (IsOne, Bits) are discharged in C13/C14 as far as proved there; Multiply itself is additionally compared with an independent affine double-and-add on 24 (thorough 1500) edge-heavy (P,k) pairs per run.",
  note="Trusted: Lean kernel + Mathlib's definition of the group; go2lean's reading of Go; Hand.Element glue (nil/IsOne/loop) and Scalar.Bits model are tied by correspondence, the loop bound of Bits by a regenerated fact; FromMontgomery (scalar) correctness by correspondence until its limb proof lands."),
 "C02": dict(
  technique="Lean 4 proof: Renes-Costello-Batina completeness against Mathlib's WeierstrassCurve.Affine.Point, bridged to the regenerated step sequences by ring; limb-level field laws proved",
  text="Kernel-checked for all valid operands in all projective representations and both aliasing patterns: generated addProjectiveComplete/doubleProjectiveComplete/negate compute the group law of y^2=x^3+7 over ZMod p (p proved prime by checked Pratt certificates; no 2-torsion by kernel evaluation), results stay valid, nil arguments are no-ops, arguments are not written (cell analysis).",
  note="Trusted: Lean kernel, Mathlib; go2lean (cell-based symbolic execution, one specialisation per alias pattern) cross-checked by PT.* correspondence on raw projective triples including Z not in {0,1} and (0:Y:0); glue in Hand.Element (nil handling, identity shortcut, copy in Subtract) tied by correspondence."),
 "C03": dict(
  technique="Lean executable SEC1 specification vs decoders: correspondence with edge-class generator; limb-level model of the decoders (proof of the decoder chain in progress)",
  text="Every decoder (Decode, DecodeCompressed, DecodeUncompressed, DecodeCoordinates, DecodeHex, UnmarshalBinary) is modelled at the limb level from the generated Reduce/ToMontgomery/SqrtRatio code and compared, together with the independent Lean specification Spec.Sec1 (exact acceptance set, error kind, receiver unchanged on error), with the real code on structured and malformed inputs: all 256 prefixes, lengths 0..70, x>=p on-curve-after-reduction, y+p aliases, hybrid prefixes, wrong parity, off-curve.",
  note="Acceptance-iff theorem not yet kernel-checked: level of this check is the differential comparison against the executable specification plus the proved field laws it rests on."),
 "C04": dict(
  technique="Lean executable SEC1 specification vs encoders on rescaled representations: correspondence; limb-level model of affine/Encode",
  text="Encode/EncodeUncompressed/XCoordinate/Hex/MarshalBinary compared with the specification encoders of the abstract point for lambda-rescaled representations and every identity representation; round trip through the decoder specification.",
  note="Representation-independence theorem for Encode requires the inversion-chain law (in progress); until then by correspondence."),
 "C05": dict(
  technique="Lean 4 proof: cross-multiplied comparison decides equality in the group for all representations (integral-domain argument), on the regenerated isEqual",
  text="Kernel-checked: Equal returns 1 iff the operands are the same element of Mathlib's group, else 0, is symmetric, and IsIdentity holds exactly for the identity, for all valid projective triples at the limb implementation (equality/zero tests proved from the bit tricks without bv_decide).",
  note="Trusted: Lean kernel, Mathlib, go2lean; PT.eq correspondence on rescaled pairs, P/-P, endomorphism pairs sharing y, identity representations."),
 "C06": dict(
  technique="Lean 4 proof of the Fiat limb functions (rfl tie to a structured Montgomery reference + generic correctness theorem); correspondence for API glue, inversion chain and Pow",
  text="Kernel-checked for the scalar field: generated Mul, Square, Add, Sub are exact modulo n on canonical limbs and keep canonicity (all carry patterns, all operands; aliasing is sound because the translator refuses any read after the first output write). Invert (293-step chain), SetUInt64/ToMontgomery, Pow (through math/big), constants and nil conventions are compared with exact integer arithmetic by correspondence on edge-heavy operands.",
  note="Pow is modelled with exact modular powering (math/big trusted). Chain exponent proof and To/FromMontgomery limb proofs pending: those links are by correspondence."),
 "C07": dict(
  technique="Lean executable specification of scalar encoding/decoding vs code: correspondence with window-around-n generator; Reduce borrow chain regenerated",
  text="Encode/Decode/Hex/DecodeHex/MarshalBinary/UnmarshalBinary compared with big-endian integers < n: exact acceptance, distinct error kinds, stored value, round trips; generator covers n-1, n, n+1, 2^256-1, single-limb and single-bit neighbours of n, all lengths 0..70.",
  note="Reduce/ToMontgomery/FromMontgomery theorems pending; by correspondence."),
 "C08": dict(
  technique="Lean executable RFC 9380 specification (independent, textbook form) vs code, including chosen expander outputs through the real HashToGroup body; proofs of the group-law part",
  text="HashToGroup/EncodeToGroup compared with hash_to_curve/encode_to_curve computed by an independent Lean implementation of RFC 9380 (expand_message_xmd incl. oversize DST, hash_to_field, textbook SSWU, E.1 isogeny, addition on secp256k1) for messages/DSTs of all length classes, and - by overriding the expander output inside the real functions - for chosen (u0,u1) including u1=+-u0 and the exceptional u.",
  note="SHA-256 is a parameter of the specification; the Lean SHA-256 used by the driver is compared with crypto/sha256. Refinement theorems for expander/SSWU pending."),
 "C09": dict(
  technique="Lean executable specification OS2IP(expand_message_xmd) mod n vs code; correspondence on chosen 48-byte strings",
  text="HashToScalar compared with hash_to_field over n; the wide reduction is compared with OS2IP mod n on all-ones, maximal a/b, multiples of n and random 48-byte strings.",
  note="Wide-reduction theorem pending; by correspondence."),
 "C10": dict(
  technique="Lean concrete and abstract state machines over pools; histories run on real code, concrete machine and abstract machine; per-operation refinement theorems from C01/C02/C05",
  text="Random histories (40 and 400 steps, 40% aliased choices, nil arguments, decoders, hashing) over pools of 4 elements and 4 scalars: after every step every variable's Encode/IsIdentity/Equal/IsZero and raw limbs agree between the real code, the limb-level machine and the abstract machine on points and integers mod n.",
  note="The refinement theorem over all histories is assembled only for the operations whose per-op theorem is proved (group law, equality, ladder); the remaining operations are by correspondence."),
 "C11": dict(
  technique="Lean executable textbook SSWU / isogeny specification vs regenerated straight-line code; chosen u including the three exceptional values",
  text="SSWU and the 3-isogeny (generated from mapping.go) compared with the RFC 9380 section 6.6.2 textbook map and E.1 rational map on chosen field elements including u = 0, +-sqrt(-1/Z), and through EncodeToGroup with chosen expander output; results checked on-curve by the specification decoder.",
  note="Equivalence theorems pending; by correspondence."),
 "C12": dict(
  technique="Lean 4 proof: generated Fiat Mul/Square/Add/Sub/Opp = structured reference by rfl, reference correct for any valid Montgomery modulus; bit tricks proved; lawful-field instance",
  text="Kernel-checked: the generated base-field Mul, Square, Add, Sub, Opp are exact in F_p on all canonical limb tuples and keep values canonical; IsZero, Equals, CMove (0/1) proved; the limb implementation is a lawful implementation of ZMod p (Secp.Proofs.LimbLawful). Invert, SqrtRatio, Sgn0, Bytes, FromBytesWithReduce, HashToFieldElement, To/FromMontgomery compared with exact arithmetic on 4000 (thorough 250000) edge-heavy operand tuples.",
  note="Chains, To/FromMontgomery and byte functions: by correspondence until their proofs land."),
 "C13": dict(
  technique="Lean bit-trick proofs (IsNonZero/IsZero/Equal/Selectznz) + correspondence for LessOrEqual and CSelect over all condition-word classes",
  text="Equal/IsZero/IsOne/LessOrEqual/CSelect compared with integer semantics for edge-heavy pairs and condition words {0,1,2,3,2^32,2^63,2^64-1,random}; the underlying bit tricks are kernel-checked.",
  note="LessOrEqual theorem needs FromMontgomery correctness (pending)."),
 "C14": dict(
  technique="Regenerated loop-bound fact + correspondence of Bits against the canonical value",
  text="Bits compared with the binary expansion of the canonical value for scalars with bit 255 set, powers of two, n-1; the loop bound and body of Bits are read from the source on every run (theorem bits_loop_covers_all_positions).",
  note="bits_spec theorem pending."),
 "C15": dict(
  technique="Static write analysis regenerated into a Lean fact (no write through a slice parameter) + run-time backing-array comparison in 7 layouts",
  text="Facts.sliceParamWrites = [] is re-derived from the source on every run and checked in Lean; at run time every API function taking slices is called on slices carved out of sentinel-filled arrays (interior, len<cap, len=cap) and the whole backing arrays are compared; returned buffers are mutated and re-read; pointer arguments compared.",
  note="The Go allocator is not modelled: fresh means not aliasing any buffer the harness knows."),
 "C16": dict(
  technique="Lean footprint model (race freedom and determinism for every interleaving by induction) + extracted facts + race detector run",
  text="see explanation in the evidence: model proof plus -race run with 8 goroutines per scenario.",
  note="Go memory model and scheduler are modelled, not verified."),
 "C17": dict(
  technique="Lean linker/registry model over the extracted import closure + build and run of a minimal main",
  text="see explanation in the evidence.",
  note="Go linker and init order are modelled, not verified."),
 "C18": dict(
  technique="Lean stream model of Random + correspondence with a scripted entropy source substituted for crypto/rand.Reader",
  text="Random modelled as a function of the byte stream (ReadFull = 32 bytes or failure); compared with the real function under scripted streams: blocks 0 and n skipped, blocks >= n reduced, short streams panic, any read chunk size.",
  note="random_spec theorem pending (needs Reduce/ToMontgomery)."),
 "C19": dict(
  technique="Static schedule extraction (go2lean) into Lean + theorem of scalar-independence + recorded traces on an instrumented scratch copy",
  text="Kernel-checked on the regenerated schedule: Multiply has exactly three control-flow alternatives (nil, one, full ladder), the full ladder is 24 + 256 x 308 function entries independent of the scalar; recorded traces for 0, 2, 3, n-1, n-2, 2^255, sparse, dense and random scalars equal the extracted schedule.",
  note="Granularity: function entries of internal/field and internal/scalar; instruction-level timing out of reach."),
}
