#!/usr/bin/env python3
"""Writes /verif/MANIFEST.json from tools/props.py and tools/claims.py."""
import json, os, sys
sys.path.insert(0, os.path.dirname(os.path.abspath(__file__)))
from props import PROPS
from claims import CLAIMS, NOT_APPLICABLE

VERIF = os.path.dirname(os.path.dirname(os.path.abspath(__file__)))
checks = []
for pid in sorted(PROPS):
    if pid in NOT_APPLICABLE:
        continue
    c = CLAIMS[pid]
    checks.append({
        "property_id": pid,
        "quick_cmd": "./check %s --tier quick" % pid,
        "thorough_cmd": "./check %s --tier thorough" % pid,
        "evidence_file": "evidence/%s.json" % pid,
        "replay_cmd_template": "./check %s --replay {path}" % pid,
        "engine": "lean-proof+correspondence",
        "level_claimed": {"category": PROPS[pid]["level"], "text": c["text"], "design_ref": c.get("design_ref", "DESIGN.md section 5, " + pid)},
        "level_note": c["note"],
        "technique": c["technique"],
    })
m = {
    "version": 1,
    "setup_cmd": "./setup.sh",
    "hooks": {
        "guard": "verif",
        "enable": "no hooks in /repo: accessor files and the harness main package are injected at build time with `go build -overlay` (tools/build_harness.sh); the C19 trace instrumentation is applied to a scratch copy of the tree",
        "baseline_off_cmd": "cd /repo && GOFLAGS=-mod=mod GOPROXY=off go test -vet=off -count=1 ./...",
        "source_commits": [],
        "add_only": True,
    },
    "engines": [
        {"name": "lean-proof+correspondence", "path": "lean/ (Lean 4 library Secp, theorems in Secp/Props), go2lean/ (translator), harness/ (overlay harness), check (runner)",
         "serves_properties": sorted(p for p in PROPS if p not in NOT_APPLICABLE),
         "kind_free_text": "machine-checked proof in Lean 4 about a model regenerated from the Go source (go2lean) plus hand-written glue tied to the code by a line-protocol correspondence check (real code in-process vs compiled Lean driver)"},
    ],
    "checks": checks,
    "not_applicable": [{"property_id": p, "reason": r} for p, r in sorted(NOT_APPLICABLE.items())],
    "notes": "Fix commits in /repo (each 'fix:'): see known_findings.txt. Thorough tier: more seeds, larger families, leanchecker re-check.",
}
json.dump(m, open(os.path.join(VERIF, "MANIFEST.json"), "w"), indent=1)
print("MANIFEST.json written:", len(checks), "checks")
