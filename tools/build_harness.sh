#!/bin/bash
# Build the correspondence harness from /repo's current working tree, injecting the
# accessor files and the harness main package with `go build -overlay` (nothing is written into /repo).
# usage: build_harness.sh <outdir> [extra go build flags...]
set -euo pipefail
OUT="$1"; shift
REPO="${VERIF_REPO:-/repo}"
VERIF="$(cd "$(dirname "$0")/.." && pwd)"
export GOFLAGS=-mod=mod GOPROXY=off GOSUMDB=off GOTOOLCHAIN=local CGO_ENABLED="${CGO_ENABLED:-0}"
mkdir -p "$OUT"
# group.go as it is now, with the expander calls routed through an override hook (chosen expander
# output -> chosen u values through the *real* HashToGroup/EncodeToGroup/HashToScalar bodies)
sed 's/\bexpandXMD(/verifExpandXMD(/g' "$REPO/group.go" > "$OUT/group_verif.go"
{
  echo '{"Replace":{'
  echo "\"$REPO/zz_verif_access.go\":\"$VERIF/harness/access_root.go\","
  echo "\"$REPO/internal/field/zz_verif_access.go\":\"$VERIF/harness/access_field.go\","
  echo "\"$REPO/group.go\":\"$OUT/group_verif.go\","
  first=1
  for f in "$VERIF"/harness/main/*.go; do
    [ $first = 1 ] || echo ","
    first=0
    echo -n "\"$REPO/internal/verifharness/$(basename "$f")\":\"$f\""
  done
  echo
  echo '}}'
} > "$OUT/overlay.json"
cd "$REPO"
go build -overlay="$OUT/overlay.json" "$@" -o "$OUT/verifharness" ./internal/verifharness
