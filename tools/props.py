"""Per-property configuration of the check runner: operation families (family, quick count, thorough count),
the operations whose disagreement belongs to this property, special run-time checks, and evidence text."""
import os, json, subprocess, shutil, re, sys

VERIF = os.path.dirname(os.path.dirname(os.path.abspath(__file__)))
REPO = os.environ.get("VERIF_REPO", "/repo")
LEAN = os.path.join(VERIF, "lean")
GOENV = dict(os.environ, GOFLAGS="-mod=mod", GOPROXY="off", GOSUMDB="off", GOTOOLCHAIN="local")

TB_COMMON = [
    "Lean 4.33.0 kernel; axioms allowed: propext, Classical.choice, Quot.sound (audited by #print axioms on every property theorem)",
    "go2lean translator (reading of Go uint64 arithmetic, math/bits intrinsics, pointer aliasing as cell sharing); cross-checked by the correspondence families",
    "correspondence harness: differential testing of model/spec against the compiled Go code (bounds what it has seen, not a proof of the tie)",
    "Go compiler, runtime and hardware",
]


def sh(cmd, **kw):
    return subprocess.run(cmd, stdout=subprocess.PIPE, stderr=subprocess.STDOUT, text=True, **kw)


# ------------------------------------------------------------------ special checks

class _Hung:
    """result of a run that hit its time limit (a call of the code under test that never returns must not hang the check)"""
    def __init__(self, cmd, limit):
        self.returncode, self.stdout, self.stderr = 124, "", "time limit of %d s exceeded: %s" % (limit, " ".join(cmd[:3]))


def run_limited(cmd, limit, **kw):
    try:
        return subprocess.run(cmd, timeout=limit, **kw)
    except subprocess.TimeoutExpired:
        return _Hung(cmd, limit)


def special_mem(ctx):
    from check_helpers import build_harness
    h = build_harness(ctx)
    if not h:
        return
    n = 3 if ctx.tier == "quick" else 40
    r = run_limited([h, "mem", str(ctx.seed), str(n)], 900, stdout=subprocess.PIPE, stderr=subprocess.PIPE, text=True)
    try:
        rep = json.loads(r.stdout)
    except Exception:
        ctx.violations.append({"kind": "correspondence-broken", "detail": "mem mode failed: " + (r.stdout + r.stderr)[-800:]})
        return
    ctx.coverage["mem_calls"] = rep["calls"]
    ctx.coverage["mem_layouts"] = rep["layouts"]
    ctx.coverage["mem_per_fn"] = rep["per_fn"]
    ctx.coverage["evaluations"] = ctx.coverage.get("evaluations", 0) + rep["calls"]
    ctx.coverage["distinct_nontrivial"] = ctx.coverage.get("distinct_nontrivial", 0) + len(rep["per_fn"]) * rep["layouts"]
    ctx.samples.extend(rep.get("samples", [])[:3])
    for v in rep["violations"] or []:
        ctx.violations.append({"kind": "special", "op": "MEM %s %s" % (v["fn"], v["layout"]), "detail": v})


def special_race(ctx):
    from check_helpers import build_harness
    h = build_harness(ctx, extra=("-race",))
    if not h:
        return
    n = 2 if ctx.tier == "quick" else 25
    env = dict(os.environ, GORACE="halt_on_error=1 exitcode=66")
    r = run_limited([h, "race", str(ctx.seed), str(n)], 1800, stdout=subprocess.PIPE, stderr=subprocess.PIPE, text=True, env=env)
    if r.returncode == 66 or "DATA RACE" in r.stderr:
        m = re.search(r"WARNING: DATA RACE(.*?)(?:={10,}|\Z)", r.stderr, flags=re.S)
        rep = (m.group(0) if m else r.stderr)[:3000]
        ctx.violations.append({"kind": "special", "op": "RACE", "detail": {"race_report": rep}})
        ctx.coverage["race_detected"] = True
        return
    try:
        rep = json.loads(r.stdout)
    except Exception:
        ctx.violations.append({"kind": "correspondence-broken", "detail": "race mode failed: " + (r.stdout + r.stderr)[-800:]})
        return
    ctx.coverage["race_scenarios"] = rep["scenarios"]
    ctx.coverage["race_goroutines"] = rep["goroutines"]
    ctx.coverage["evaluations"] = ctx.coverage.get("evaluations", 0) + rep["calls"]
    ctx.coverage["distinct_nontrivial"] = ctx.coverage.get("distinct_nontrivial", 0) + len(rep.get("samples") or [])
    ctx.samples.extend((rep.get("samples") or [])[:4])
    for m in rep.get("mismatches") or []:
        ctx.violations.append({"kind": "special", "op": "RACE-RESULT", "detail": m})


MINIMAL_MAIN = '''package main

import (
	"fmt"

	"github.com/bytemare/secp256k1"
)

func main() {
	dst := []byte("QUUX-V01-CS02-with-secp256k1_XMD:SHA-256_SSWU_RO_")
	fmt.Printf("%x\\n", secp256k1.HashToGroup([]byte("abc"), dst).Encode())
	fmt.Printf("%x\\n", secp256k1.EncodeToGroup([]byte("abc"), dst).Encode())
	fmt.Printf("%x\\n", secp256k1.HashToScalar([]byte("abc"), dst).Encode())
	// every branch of the DST handling: an oversize DST (> 255 bytes) takes the hashing branch
	long := make([]byte, 300)
	for i := range long {
		long[i] = byte(i)
	}
	fmt.Printf("%x\\n", secp256k1.HashToGroup([]byte("abc"), long).Encode())
	fmt.Printf("%x\\n", secp256k1.EncodeToGroup([]byte("abc"), long).Encode())
	fmt.Printf("%x\\n", secp256k1.HashToScalar([]byte("abc"), long).Encode())
}
'''


WRAPPED_MAIN = MINIMAL_MAIN.replace('import (\n\t"fmt"\n', 'import (\n\t"crypto"\n\t"crypto/sha256"\n\t"fmt"\n\t"hash"\n').replace(
    "func main() {", "// another package of the program may register its own (correct) SHA-256 under the identifier: only hash.Hash is promised\n"
    "func init() {\n\tcrypto.RegisterHash(crypto.SHA256, func() hash.Hash { return struct{ hash.Hash }{sha256.New()} })\n}\n\nfunc main() {")


def special_link(ctx):
    """Build and run a plain main that imports only the package (no test binary, no harness)."""
    d = os.path.join(ctx.scratch, "minimal")
    os.makedirs(d, exist_ok=True)
    open(os.path.join(d, "main.go"), "w").write(MINIMAL_MAIN)
    gomod = open(os.path.join(REPO, "go.mod")).read()
    gover = re.search(r"^go\s+(\S+)", gomod, flags=re.M).group(1)
    open(os.path.join(d, "go.mod"), "w").write(
        "module minimal\n\ngo %s\n\nrequire github.com/bytemare/secp256k1 v0.0.0\n\nreplace github.com/bytemare/secp256k1 => %s\n" % (gover, REPO))
    shutil.copy(os.path.join(REPO, "go.sum"), os.path.join(d, "go.sum"))
    # every build configuration the module distinguishes: default, plus each custom //go:build tag (Facts.buildTags)
    tags = []
    try:
        facts = open(os.path.join(LEAN, "Secp", "Gen", "Facts.lean")).read()
        m = re.search(r"def buildTags : List String := \[(.*?)\]", facts)
        tags = [t.strip().strip('"') for t in m.group(1).split(",") if t.strip()]
    except Exception:
        pass
    for tag in tags:
        rt = sh(["go", "build", "-tags", tag, "-o", "minimal_" + tag, "."], cwd=d, env=GOENV)
        if rt.returncode != 0:
            continue
        rr = run_limited([os.path.join(d, "minimal_" + tag)], 300, stdout=subprocess.PIPE, stderr=subprocess.STDOUT, text=True)
        ctx.coverage["evaluations"] = ctx.coverage.get("evaluations", 0) + 3
        ctx.samples.append("minimal main built with -tags %s: exit %d" % (tag, rr.returncode))
        if rr.returncode != 0:
            ctx.violations.append({"kind": "special", "op": "LINK minimal-main -tags " + tag,
                                   "detail": {"exit": rr.returncode, "build": "go build -tags " + tag, "output": rr.stdout[-600:], "program": MINIMAL_MAIN}})
    r = sh(["go", "build", "-o", "minimal", "."], cwd=d, env=GOENV)
    if r.returncode != 0:
        ctx.violations.append({"kind": "correspondence-broken", "detail": "minimal main does not build: " + r.stdout[-800:]})
        return
    r = run_limited([os.path.join(d, "minimal")], 300, stdout=subprocess.PIPE, stderr=subprocess.STDOUT, text=True)
    ctx.coverage["evaluations"] = ctx.coverage.get("evaluations", 0) + 6
    ctx.coverage["distinct_nontrivial"] = ctx.coverage.get("distinct_nontrivial", 0) + 6
    ctx.samples.append("minimal main importing only the package: exit %d, output %s" % (r.returncode, r.stdout.strip()[:200]))
    if r.returncode != 0:
        ctx.violations.append({"kind": "special", "op": "LINK minimal-main", "detail": {"exit": r.returncode, "output": r.stdout[-600:], "program": MINIMAL_MAIN}})
        return
    # a program in which another package registered a wrapper of SHA-256 (same digests, only the hash.Hash interface)
    dw = os.path.join(ctx.scratch, "minimal_wrapped")
    os.makedirs(dw, exist_ok=True)
    open(os.path.join(dw, "main.go"), "w").write(WRAPPED_MAIN)
    shutil.copy(os.path.join(d, "go.mod"), os.path.join(dw, "go.mod"))
    shutil.copy(os.path.join(d, "go.sum"), os.path.join(dw, "go.sum"))
    rw = sh(["go", "build", "-o", "minimal_wrapped", "."], cwd=dw, env=GOENV)
    if rw.returncode == 0:
        rr = run_limited([os.path.join(dw, "minimal_wrapped")], 300, stdout=subprocess.PIPE, stderr=subprocess.STDOUT, text=True)
        ctx.coverage["evaluations"] = ctx.coverage.get("evaluations", 0) + 6
        ctx.samples.append("main with a wrapped SHA-256 registered by the program: exit %d" % rr.returncode)
        if rr.returncode != 0 or rr.stdout != r.stdout:
            ctx.violations.append({"kind": "special", "op": "LINK program-registered-sha256-wrapper",
                                   "detail": {"exit": rr.returncode, "output": rr.stdout[-600:], "expected": r.stdout[-300:], "program": WRAPPED_MAIN}})
    else:
        ctx.violations.append({"kind": "correspondence-broken", "detail": "wrapped-registry main does not build: " + rw.stdout[-600:]})
    # reference values: the same calls in a program that links everything (the harness binary, which imports crypto/sha256
    # itself). The property is about the program around the package, so the reference is the package's own result in another
    # program — whether that result is the RFC's is C08/C09's business, not this property's.
    from check_helpers import build_harness
    msg, dst = "616263", "QUUX-V01-CS02-with-secp256k1_XMD:SHA-256_SSWU_RO_".encode().hex()
    long = bytes(i % 256 for i in range(300)).hex()
    ops = "H2C.h2g %s %s\nH2C.e2g %s %s\nH2C.h2s %s %s\n" % (msg, dst, msg, dst, msg, dst)
    ops += "H2C.h2g %s %s\nH2C.e2g %s %s\nH2C.h2s %s %s\n" % (msg, long, msg, long, msg, long)
    h = build_harness(ctx)
    if not h:
        return
    m = run_limited([h, "run"], 300, input=ops, stdout=subprocess.PIPE, stderr=subprocess.PIPE, text=True).stdout.strip().split("\n")
    got = r.stdout.strip().split("\n")
    want = []
    for line in m:
        d2 = dict(t.split("=", 1) for t in line.split() if "=" in t)
        want.append(d2.get("c") or d2.get("v"))
    if got != want:
        ctx.violations.append({"kind": "special", "op": "LINK minimal-main-output", "detail": {"got": got, "want": want}})


def special_trace(ctx):
    """Instrument a scratch copy of the tree, record the function-entry traces of Multiply, compare with each other
    and with the statically extracted schedule (Lean side)."""
    from check_helpers import build_harness
    inst = os.path.join(ctx.scratch, "instrumented")
    r = sh([os.path.join(VERIF, "bin", "go2lean"), "-repo", REPO, "-instrument", inst])
    if r.returncode != 0:
        ctx.violations.append({"kind": "correspondence-broken", "detail": "instrumentation failed: " + r.stdout[-800:]})
        return
    h = build_harness(ctx, extra=("-tags", "verif_trace"), repo=inst)
    if not h:
        return
    n = 12 if ctx.tier == "quick" else 400
    r = run_limited([h, "trace", str(ctx.seed), str(n)], 1800, stdout=subprocess.PIPE, stderr=subprocess.PIPE, text=True)
    shutil.rmtree(inst, ignore_errors=True)
    drv = os.path.join(LEAN, ".lake", "build", "bin", "secpdriver")
    m = subprocess.run([drv], input="TR.alts\n", stdout=subprocess.PIPE, text=True).stdout.strip()
    alts = dict(t.split("=", 1) for t in m.split() if "=" in t)
    lines = [l for l in r.stdout.split("\n") if l.startswith("TR ")]
    if r.returncode != 0 or not lines:
        ctx.violations.append({"kind": "correspondence-broken", "detail": "trace mode failed: " + (r.stdout + r.stderr)[-800:]})
        return
    idx = {"nil": "0", "one": "1", "other": "2"}
    seen = {}
    distinct = set()
    for l in lines:
        d = dict(t.split("=", 1) for t in l.split()[1:])
        distinct.add(d["k"])
        i = idx[d["kind"]]
        ref = seen.setdefault(d["kind"], d)
        if (d["len"], d["h"]) != (ref["len"], ref["h"]):
            ctx.violations.append({"kind": "special", "op": "TRACE k=%s vs k=%s" % (d["k"], ref["k"]),
                                   "detail": {"what": "Multiply executed a different schedule of field operations for two scalars (neither is 1)",
                                              "k": d["k"], "len": d["len"], "k_ref": ref["k"], "len_ref": ref["len"]}})
        elif "n" in alts and (alts.get("len" + i), alts.get("h" + i)) != (d["len"], d["h"]):
            ctx.violations.append({"kind": "impl-vs-model", "op": "TRACE k=%s" % d["k"],
                                   "detail": {"what": "recorded trace differs from the statically extracted schedule",
                                              "recorded": [d["len"], d["h"]], "model": [alts.get("len" + i), alts.get("h" + i)]}})
    ctx.coverage["traces_recorded"] = len(lines)
    ctx.coverage["trace_length_full"] = int(seen.get("other", {"len": 0})["len"])
    ctx.coverage["evaluations"] = ctx.coverage.get("evaluations", 0) + len(lines)
    ctx.coverage["distinct_nontrivial"] = ctx.coverage.get("distinct_nontrivial", 0) + len(distinct)
    ctx.samples.extend(lines[:3])


# ------------------------------------------------------------------ property table

def P(level, families=(), ops=None, special=(), rule="", explanation="", trusted=(), assumptions=(), model_ignore=()):
    return {"model_ignore": list(model_ignore), "level": level, "families": list(families), "ops": ops, "special": list(special), "rule": rule,
            "explanation": explanation, "trusted_base": TB_COMMON + list(trusted), "assumptions": list(assumptions)}


RULE = ("operation lines generated from VERIF_SEED by the harness (mostly-valid structured stream + edge classes + malformed stream); "
        "a line is non-trivial when the inputs meet the property's well-formedness predicate so that a specification value is compared; "
        "distinct = distinct operation lines")

PROPS = {
    "C01": P("proof", [("mul", 24, 6000)], ["PT.mul"], rule=RULE, model_ignore=["c"]),
    "C02": P("proof", [("grouplaw", 1500, 200000)], ["PT.add", "PT.addnil", "PT.addself", "PT.dbl", "PT.neg", "PT.sub", "PT.subnil", "PT.subself", "PT.viaid", "PT.viaapi"], rule=RULE, model_ignore=["c", "c1", "c2", "c3", "c4"]),
    "C03": P("proof", [("decode", 1200, 150000)], ["DEC.*"], rule=RULE),
    "C04": P("proof", [("enc", 600, 80000), ("roundtrip", 300, 40000)], ["PT.enc", "G.base", "G.consts", "G.order", "DEC.*"], rule=RULE),
    "C05": P("proof", [("eq", 1500, 200000)], ["PT.eq", "PT.eqself", "PT.isid"], rule=RULE),
    "C06": P("proof", [("scarith", 2000, 400000), ("sfarith", 2000, 400000)], ["SC.*", "S.*"], rule=RULE,
             trusted=["math/big Exp/SetBytes/Bytes (Scalar.Pow goes through math/big; modelled as exact modular powering)"]),
    "C07": P("proof", [("scenc", 2000, 240000), ("sfenc", 1000, 160000)], ["SC.*", "S.*"], rule=RULE,
             trusted=["encoding/hex, encoding/binary (modelled)"]),
    "C08": P("proof", [("h2c", 60, 10000), ("expand", 300, 60000), ("chosenu", 80, 12000), ("fh2f", 500, 80000)],
             ["H2C.h2g", "H2C.e2g", "H2C.h2gu", "H2C.e2gu", "XMD.*", "F.h2f"], rule=RULE, model_ignore=["c"],
             trusted=["crypto/sha256 (a parameter H in the theorems; the Lean SHA-256 used by the driver is itself compared with crypto/sha256 by XMD.sha)"]),
    "C09": P("proof", [("h2s", 100, 20000), ("sfh2f", 1500, 240000), ("expand", 200, 60000), ("chosenu", 40, 12000)],
             ["H2C.h2s", "H2C.h2su", "S.h2f", "XMD.*"], rule=RULE,
             trusted=["crypto/sha256 (parameter H)"]),
    "C10": P("proof", [("history", 12, 1500), ("historylong", 0, 40)], ["H.*"], rule=RULE +
             "; a history is a sequence of 40 (long: 400) API calls over pools of 4 elements and 4 scalars with 40% aliased choices, every pool variable observed after every step"),
    "C11": P("proof", [("map", 250, 40000), ("chosenu", 40, 12000)], ["PT.sswu", "PT.map", "PT.iso", "H2C.e2gu"], rule=RULE, model_ignore=["c"]),
    "C12": P("proof", [("field", 4000, 1000000), ("fh2f", 300, 40000)], ["F.*"], rule=RULE),
    "C13": P("proof", [("cmp", 3000, 600000), ("sfcmp", 1000, 200000)], ["SC.*", "S.*"], rule=RULE),
    "C14": P("proof", [("bits", 1500, 300000)], ["SC.bits"], rule=RULE),
    "C15": P("proof", [("memvet", 250, 30000)], ["MEM.vet"], special=[special_mem], model_ignore=["o"], rule=RULE +
             "; memory: every slice argument carved out of a sentinel-filled backing array in 7 layouts, backing arrays compared before/after",
             trusted=["Go runtime allocator and escape analysis are not modelled: 'fresh' means not aliasing any buffer the model knows"]),
    "C16": P("proof", [], None, special=[special_race],
             explanation="Lean: footprint model; race freedom and solo-run equivalence for every interleaving by induction over the schedule; instantiated for "
                         "every set of concurrent API calls on owned receivers from the footprint table of the API, which a may-write analysis re-derives from the "
                         "source on every run (theorem api_writes_only_output: no API function can write through an argument), together with: no write to a package "
                         "variable, no write through a slice parameter. Run time: the harness built with -race runs 8 goroutines per scenario over every API function with shared "
                         "arguments (DST with spare capacity) and compares every result with the sequential one; a race report is the failing schedule.",
             rule="scenarios x 8 goroutines; distinct = distinct scenarios",
             trusted=["Go memory model and scheduler (modelled by the footprint semantics)", "the race detector only observes executed schedules"]),
    "C17": P("proof", [], None, special=[special_link],
             explanation="Lean: linker/registry model (packages linked = import closure; a hash is registered iff its implementing package is linked); "
                         "theorem for every program importing the package, from facts extracted on every run (go list -deps, crypto.<ID>.New() uses). "
                         "Run time: a plain main importing only the package is built in a scratch module and run; its three outputs are compared with "
                         "the executable RFC 9380 specification.",
             rule="one minimal program per build configuration, three hashing functions x {ordinary DST, oversize DST}",
             trusted=["Go linker and package initialisation order (modelled)"]),
    "C18": P("proof", [("rnd", 400, 80000)], ["RND"], rule=RULE + "; a case is a scripted entropy stream (blocks 0, n, >= n, short reads, failure point) and a read chunk size",
             trusted=["crypto/rand.Reader and io.ReadFull (the stream model: ReadFull assembles 32 bytes or fails)"]),
    "C19": P("proof", [], None, special=[special_trace],
             rule="recorded function-entry traces of Multiply on an instrumented scratch copy; distinct = distinct scalars",
             trusted=["granularity: entries of functions of internal/field and internal/scalar; instruction-level timing is out of reach"]),
}
