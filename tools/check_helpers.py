import os, hashlib, subprocess

VERIF = os.path.dirname(os.path.dirname(os.path.abspath(__file__)))
GOENV = dict(os.environ, GOFLAGS="-mod=mod", GOPROXY="off", GOSUMDB="off", GOTOOLCHAIN="local")


def build_harness(ctx, extra=(), repo=None):
    key = " ".join(extra) + (repo or "")
    out = os.path.join(ctx.scratch, "h" + hashlib.md5(key.encode()).hexdigest()[:6])
    exe = os.path.join(out, "verifharness")
    if os.path.exists(exe):
        return exe
    env = dict(GOENV)
    if "-race" in extra:
        env["CGO_ENABLED"] = "1"
    if repo:
        env["VERIF_REPO"] = repo
    r = subprocess.run([os.path.join(VERIF, "tools", "build_harness.sh"), out] + list(extra), env=env,
                       stdout=subprocess.PIPE, stderr=subprocess.STDOUT, text=True)
    if r.returncode != 0:
        ctx.obligations.append(("harness builds against the current tree (overlay accessors) %s" % " ".join(extra), False, r.stdout[-2500:]))
        return None
    return exe
