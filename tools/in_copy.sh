#!/bin/bash
# Run a command in a private copy of /verif (and of the repository), so that long evaluation runs do not collide with
# edits in the working copy.  usage: in_copy.sh '<shell command run with cwd = the copy of /verif>'
set -euo pipefail
VERIF="$(cd "$(dirname "$0")/.." && pwd)"
W="$(mktemp -d -p /tmp incopy-XXXX)"
trap 'rm -rf "$W"' EXIT
rsync -a --exclude .git --exclude replays "$VERIF/" "$W/verif/"
mkdir -p "$W/verif/replays"
rsync -a --exclude .git "${VERIF_REPO:-/repo}/" "$W/repo/"
cd "$W/verif"
VERIF_REPO="$W/repo" bash -c "$1"
