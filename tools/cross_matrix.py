#!/usr/bin/env python3
"""For every kept seeded change: which of the 19 checks report a violation (and whether with a failing input)?
Usage: cross_matrix.py <workers> [out.json]   (evaluation tool, not part of any registered command)"""
import os, sys, json, glob, subprocess, tempfile, shutil, queue, re
from concurrent.futures import ThreadPoolExecutor
sys.path.insert(0, os.path.dirname(os.path.abspath(__file__)))
from mutation_campaign import Worker, sh, GOENV, VERIF, ALL

def main():
    workers = int(sys.argv[1])
    outp = sys.argv[2] if len(sys.argv) > 2 else "/tmp/cross_matrix.json"
    patches = sorted(glob.glob(os.path.join(VERIF, "seeded", "C*", "patch.diff")) + glob.glob(os.path.join(VERIF, "seeded2", "C*", "patch.diff")) + glob.glob(os.path.join(VERIF, "seeded3", "C*", "patch.diff")) + glob.glob(os.path.join(VERIF, "seeded4", "C*", "patch.diff")) + glob.glob(os.path.join(VERIF, "seeded5", "C*", "patch.diff")))
    only = os.environ.get("CROSS_ONLY")
    if only:
        patches = [p for p in patches if "/".join(p.split("/")[-3:-1]) in only.split(",")]
    root = tempfile.mkdtemp(prefix="crossm-")
    ws = [Worker(k, root) for k in range(workers)]
    free = queue.Queue()
    for w in ws:
        free.put(w)
    results = {}

    def job(patch):
        w = free.get()
        name = "/".join(patch.split("/")[-3:-1])
        try:
            subprocess.run(["git", "init", "-q"], cwd=w.repo) if not os.path.exists(os.path.join(w.repo, ".git")) else None
            rc, out = sh(["git", "apply", patch], cwd=w.repo)
            if rc != 0:
                results[name] = {"error": out[-200:]}
                return
            row = {}
            env = dict(os.environ, VERIF_REPO=w.repo)
            cols = ALL
            if os.environ.get("CROSS_OWN"):  # only the check of the property the change was written against
                cols = [name.split("/")[1]]
            for pid in cols:
                rc, out = sh([os.path.join(w.verif, "check"), pid], cwd=w.verif, env=env, timeout=2400)
                row[pid] = "ok" if rc == 0 else ("broken-only" if "no-failing-input-found" in out else "failing-input")
            results[name] = row
            print(name, " ".join("%s:%s" % (p[1:], {"ok": ".", "broken-only": "b", "failing-input": "F"}[v]) for p, v in row.items()), flush=True)
        finally:
            sh(["git", "apply", "-R", patch], cwd=w.repo)
            free.put(w)
            json.dump(results, open(outp, "w"), indent=1)

    with ThreadPoolExecutor(max_workers=workers) as ex:
        list(ex.map(job, patches))
    shutil.rmtree(root, ignore_errors=True)

if __name__ == "__main__":
    main()
