#!/bin/bash
# Run once after a fresh restore, offline: builds the translator, regenerates the model from /repo,
# builds the whole Lean library (all property theorems) and the compiled driver.
set -euo pipefail
cd "$(dirname "$0")"
export GOFLAGS=-mod=mod GOPROXY=off GOSUMDB=off GOTOOLCHAIN=local
mkdir -p bin evidence replays
(cd go2lean && go build -o ../bin/go2lean .)
./bin/go2lean -repo "${VERIF_REPO:-/repo}" -out lean/Secp/Gen
cd lean
lake build Secp secpdriver 2>&1 | grep -v "^✔\|^ℹ\|Replayed" | tail -40 || true
test -x .lake/build/bin/secpdriver
