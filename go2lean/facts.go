package main

import (
	"strings"
)

func genFacts(repo string, field, scal, root *pkgSrc, out string) {
	var b strings.Builder
	b.WriteString(header)
	b.WriteString("\nnamespace Facts\n\n")
	b.WriteString("/-- parameters whose cells the translated function never rebinds (hence unchanged by the call) -/\n")
	b.WriteString("def untouched : List (String × List String) := [\n  " + strings.Join(untouchedFacts, ",\n  ") + "]\n\n")
	b.WriteString("end Facts\n")
	writeIfChanged(out+"/Facts.lean", b.String())
}
