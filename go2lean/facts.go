package main

import (
	"fmt"
	"go/ast"
	"go/build/constraint"
	"go/printer"
	"go/token"
	"go/types"
	"io/fs"
	"os"
	"os/exec"
	"path/filepath"
	"sort"
	"strings"
)

// genFacts emits plain data about the source that several theorems take as premises (C15, C16, C17).
func genFacts(repo string, field, scal, root *pkgSrc, out string) {
	var b strings.Builder
	b.WriteString(header)
	b.WriteString("\nnamespace Facts\n\n")
	b.WriteString("/-- parameters whose cells the translated function never rebinds (hence unchanged by the call) -/\n")
	b.WriteString("def untouched : List (String × List String) := [\n  " + strings.Join(untouchedFacts, ",\n  ") + "]\n\n")

	// C17: transitive import closure of the root package as the Go tool computes it
	listDeps := func(tag string) []string {
		args := []string{"list", "-deps"}
		if tag != "" {
			args = append(args, "-tags", tag)
		}
		cmd := exec.Command("go", append(args, ".")...)
		cmd.Dir = repo
		cmd.Env = append(os.Environ(), "GOFLAGS=-mod=mod", "GOPROXY=off", "GOSUMDB=off", "GOTOOLCHAIN=local")
		o, err := cmd.Output()
		if err != nil {
			fatal("go list -deps (tags %q) failed: %v", tag, err)
		}
		return strings.Fields(string(o))
	}
	// build configurations: the default one plus one per custom build tag mentioned by a //go:build line of the module
	tags := buildTags(repo)
	count := map[string]int{}
	for _, d := range listDeps("") {
		count[d]++
	}
	for _, t := range tags {
		for _, d := range uniqSorted(listDeps(t)) {
			count[d]++
		}
	}
	var deps []string
	for d, c := range count {
		if c == 1+len(tags) {
			deps = append(deps, d)
		}
	}
	sort.Strings(deps)
	b.WriteString("/-- custom build tags mentioned by `//go:build` lines in the module (each is a build configuration) -/\n")
	b.WriteString("def buildTags : List String := [" + quoteAll(tags) + "]\n\n")
	b.WriteString("/-- intersection over all those build configurations of `go list -deps .`: the packages linked into *every*\nprogram that imports the root package -/\n")
	b.WriteString("def rootDeps : List String := [" + quoteAll(deps) + "]\n\n")

	// hashes obtained through the crypto registry: crypto.<ID>.New() / .Size() / .Available()
	ids := map[string]bool{}
	direct := map[string]bool{}
	for _, f := range root.files {
		ast.Inspect(f, func(n ast.Node) bool {
			sel, ok := n.(*ast.SelectorExpr)
			if !ok {
				return true
			}
			if inner, ok := sel.X.(*ast.SelectorExpr); ok {
				if id, ok := inner.X.(*ast.Ident); ok && id.Name == "crypto" && sel.Sel.Name == "New" {
					ids[inner.Sel.Name] = true
				}
			}
			if id, ok := sel.X.(*ast.Ident); ok && sel.Sel.Name == "New" && (id.Name == "sha256" || id.Name == "sha512" || id.Name == "sha3") {
				direct[id.Name] = true
			}
			return true
		})
	}
	// any mention of a crypto.Hash constant anywhere in the module (covers `h := crypto.SHA256; h.New()`, tables, …)
	if sharedImporter != nil {
		for _, obj := range sharedImporter.info.Uses {
			if c, ok := obj.(*types.Const); ok && c.Pkg() != nil && c.Pkg().Path() == "crypto" && c.Type().String() == "crypto.Hash" {
				ids[c.Name()] = true
			}
		}
	}
	// what the package demands of a hash obtained from the registry beyond the hash.Hash interface: type assertions on a
	// hash value, calls of methods that hash.Hash does not have
	var extra []string
	if sharedImporter != nil {
		info := sharedImporter.info
		isHash := func(t types.Type) bool {
			return t != nil && (t.String() == "hash.Hash" || strings.HasSuffix(t.String(), "crypto.Hash"))
		}
		hashMethods := map[string]bool{"Write": true, "Sum": true, "Reset": true, "Size": true, "BlockSize": true}
		for _, files := range sharedImporter.files {
			for _, f := range files {
				ast.Inspect(f, func(n ast.Node) bool {
					switch x := n.(type) {
					case *ast.TypeAssertExpr:
						if tv, ok := info.Types[x.X]; ok && isHash(tv.Type) {
							extra = append(extra, "type assertion on a hash value: "+nodeText(sharedImporter.fset, x))
						}
					case *ast.CallExpr:
						if sel, ok := x.Fun.(*ast.SelectorExpr); ok {
							if tv, ok := info.Types[sel.X]; ok && tv.Type != nil && tv.Type.String() == "hash.Hash" && !hashMethods[sel.Sel.Name] {
								extra = append(extra, "method outside hash.Hash: "+nodeText(sharedImporter.fset, x.Fun))
							}
						}
					}
					return true
				})
			}
		}
	}
	sort.Strings(extra)
	b.WriteString("/-- demands on a registry hash beyond the `hash.Hash` interface (type assertions, extra methods) -/\n")
	b.WriteString("def hashExtraRequirements : List String := [" + quoteAll(uniq(extra)) + "]\n\n")
	b.WriteString("/-- hash identifiers looked up through the `crypto` registry (`crypto.<ID>.New()`) in the root package -/\n")
	b.WriteString("def registryHashes : List String := [" + quoteAll(sortedKeys(ids)) + "]\n\n")
	b.WriteString("/-- hash packages whose constructor is called directly (no registry lookup) -/\n")
	b.WriteString("def directHashes : List String := [" + quoteAll(sortedKeys(direct)) + "]\n\n")

	// C16: package-level variables and every statement that can write one
	gl, writes, addr := globalFacts(repo)
	b.WriteString("/-- package-level variables of the three packages -/\n")
	b.WriteString("def globalVars : List String := [" + quoteAll(gl) + "]\n\n")
	b.WriteString("/-- statements that assign to, increment, or call a pointer-receiver method on a package-level variable -/\n")
	b.WriteString("def globalWrites : List String := [" + quoteAll(writes) + "]\n\n")
	b.WriteString("/-- places where the address of (part of) a package-level variable is passed: `callee#argIndex` -/\n")
	b.WriteString("def globalAddrArgs : List String := [" + quoteAll(addr) + "]\n\n")
	sort.Strings(globalAddrWritten)
	b.WriteString("/-- those of them where the callee may write through that parameter (may-write analysis of the callee) -/\n")
	b.WriteString("def globalAddrArgsWritten : List String := [" + quoteAll(uniq(globalAddrWritten)) + "]\n\n")
	bound, body := bitsLoopFacts(root)
	b.WriteString("/-- `for i := range N` in `(*Scalar).Bits`: the trip count N and the text of the loop body -/\n")
	fmt.Fprintf(&b, "def bitsLoopBound : Nat := %d\n", bound)
	fmt.Fprintf(&b, "def bitsLoopBody : String := %q\n\n", body)
	apis, sw := sliceWriteFacts()
	b.WriteString("/-- exported functions of the root package taking a byte-slice parameter -/\n")
	b.WriteString("def sliceAPIs : List String := [" + quoteAll(apis) + "]\n\n")
	b.WriteString("/-- every statement through which such a function (or a callee) can write to a caller-supplied slice -/\n")
	b.WriteString("def sliceParamWrites : List String := [" + quoteAll(sw) + "]\n\n")
	tbl, aw := apiFootprints()
	b.WriteString("/-- footprint table of the API (C16): for every exported function or method of the root package, whether it is a\nmethod, and for every parameter through which caller memory is reachable (receiver = position 0 of a method):\n`(position, name, may the call write memory reachable through it)` -/\n")
	b.WriteString("def apiFootprints : List (String × Bool × List (Nat × String × Bool)) := [\n  " + strings.Join(tbl, ",\n  ") + "]\n\n")
	b.WriteString("/-- every statement through which an API function may write memory reachable from a parameter other than its receiver -/\n")
	b.WriteString("def apiArgWrites : List String := [" + quoteAll(aw) + "]\n\n")
	b.WriteString("end Facts\n")
	writeIfChanged(out+"/Facts.lean", b.String())
}

var sharedImporter *srcImporter
var globalAddrWritten []string // address of a package variable passed to a parameter the callee may write through

func rootIdent(e ast.Expr) *ast.Ident {
	for {
		switch x := e.(type) {
		case *ast.Ident:
			return x
		case *ast.SelectorExpr:
			e = x.X
		case *ast.IndexExpr:
			e = x.X
		case *ast.StarExpr:
			e = x.X
		case *ast.ParenExpr:
			e = x.X
		case *ast.SliceExpr:
			e = x.X
		default:
			return nil
		}
	}
}

func globalFacts(repo string) (globals, writes, addr []string) {
	imp := sharedImporter
	info := imp.info
	isGlobal := func(id *ast.Ident) (string, bool) {
		if id == nil {
			return "", false
		}
		v, ok := info.Uses[id].(*types.Var)
		if !ok {
			return "", false
		}
		if v.Pkg() == nil || !strings.HasPrefix(v.Pkg().Path(), modPath) || v.Parent() != v.Pkg().Scope() {
			return "", false
		}
		return strings.TrimPrefix(strings.TrimPrefix(v.Pkg().Path(), modPath), "/") + "." + v.Name(), true
	}
	for path, pkg := range imp.pkgs {
		_ = path
		for _, n := range pkg.Scope().Names() {
			if v, ok := pkg.Scope().Lookup(n).(*types.Var); ok {
				globals = append(globals, strings.TrimPrefix(strings.TrimPrefix(pkg.Path(), modPath), "/")+"."+v.Name())
			}
		}
	}
	sort.Strings(globals)
	pos := func(n ast.Node) string {
		p := imp.fset.Position(n.Pos())
		return fmt.Sprintf("%s:%d", strings.TrimPrefix(p.Filename, repo+"/"), p.Line)
	}
	for _, files := range imp.files {
		for _, f := range files {
			ast.Inspect(f, func(n ast.Node) bool {
				switch x := n.(type) {
				case *ast.AssignStmt:
					if x.Tok == token.DEFINE {
						return true
					}
					for _, l := range x.Lhs {
						if g, ok := isGlobal(rootIdent(l)); ok {
							writes = append(writes, pos(x)+" assign "+g)
						}
					}
				case *ast.IncDecStmt:
					if g, ok := isGlobal(rootIdent(x.X)); ok {
						writes = append(writes, pos(x)+" incdec "+g)
					}
				case *ast.CallExpr:
					if sel, ok := x.Fun.(*ast.SelectorExpr); ok {
						if fn, ok := info.Uses[sel.Sel].(*types.Func); ok {
							if sig, ok := fn.Type().(*types.Signature); ok && sig.Recv() != nil {
								if _, ptr := sig.Recv().Type().(*types.Pointer); ptr {
									if g, ok := isGlobal(rootIdent(sel.X)); ok {
										writes = append(writes, pos(x)+" pointer-method "+fn.Name()+" on "+g)
									}
								}
							}
						}
					}
					for i, a := range x.Args {
						if u, ok := a.(*ast.UnaryExpr); ok && u.Op == token.AND {
							if g, ok := isGlobal(rootIdent(u.X)); ok {
								callee := "?"
								switch f := x.Fun.(type) {
								case *ast.SelectorExpr:
									callee = f.Sel.Name
								case *ast.Ident:
									callee = f.Name
								}
								addr = append(addr, fmt.Sprintf("%s#%d %s", callee, i, g))
								if w, why := newPtrAnalysis().writesArg(x, i); w {
									globalAddrWritten = append(globalAddrWritten, fmt.Sprintf("%s %s#%d %s: %s", pos(x), callee, i, g, why))
								}
							}
						}
					}
				}
				return true
			})
		}
	}
	sort.Strings(writes)
	sort.Strings(addr)
	// de-duplicate
	addr = uniq(addr)
	return
}

func uniq(xs []string) []string {
	var out []string
	for i, x := range xs {
		if i == 0 || x != xs[i-1] {
			out = append(out, x)
		}
	}
	return out
}

// bitsLoopFacts reads the single loop of (*Scalar).Bits.
func bitsLoopFacts(root *pkgSrc) (int, string) {
	fd, ok := root.funcs["Scalar.Bits"]
	if !ok {
		fatal("method Scalar.Bits not found (renamed or removed): the model cannot be regenerated")
	}
	bound, body := 0, ""
	n := 0
	ast.Inspect(fd.Body, func(nd ast.Node) bool {
		switch x := nd.(type) {
		case *ast.RangeStmt:
			n++
			if v, ok := constExpr(x.X); ok {
				fmt.Sscan(v, &bound)
			}
			body = nodeText(root.fset, x.Body)
		case *ast.ForStmt:
			n++
			if a, b, ok := countedLoop(x); ok && a == 0 {
				bound = b
			}
			body = nodeText(root.fset, x.Body)
		}
		return true
	})
	if n != 1 {
		return 0, fmt.Sprintf("expected exactly one loop, found %d", n)
	}
	return bound, body
}

func nodeText(fset *token.FileSet, n ast.Node) string {
	var sb strings.Builder
	printer.Fprint(&sb, fset, n)
	return strings.Join(strings.Fields(sb.String()), " ")
}

func uniqSorted(xs []string) []string {
	sort.Strings(xs)
	return uniq(xs)
}

var knownOSArch = map[string]bool{"linux": true, "darwin": true, "windows": true, "freebsd": true, "netbsd": true, "openbsd": true, "js": true,
	"wasip1": true, "amd64": true, "arm64": true, "arm": true, "386": true, "wasm": true, "riscv64": true, "ppc64le": true, "s390x": true,
	"mips": true, "mips64": true, "cgo": true, "unix": true, "gc": true, "gccgo": true, "ignore": true, "race": true, "msan": true, "asan": true}

// buildTags collects the identifiers used in //go:build lines of the module's non-test Go files that are not
// operating systems, architectures or toolchain tags.
func buildTags(repo string) []string {
	set := map[string]bool{}
	filepath.WalkDir(repo, func(path string, d fs.DirEntry, err error) error {
		if err != nil {
			return nil
		}
		if d.IsDir() && (d.Name() == ".git" || d.Name() == "tests") {
			return filepath.SkipDir
		}
		if !strings.HasSuffix(path, ".go") || strings.HasSuffix(path, "_test.go") {
			return nil
		}
		data, err := os.ReadFile(path)
		if err != nil {
			return nil
		}
		for _, line := range strings.Split(string(data), "\n") {
			line = strings.TrimSpace(line)
			if strings.HasPrefix(line, "package ") {
				break
			}
			if !constraint.IsGoBuild(line) && !constraint.IsPlusBuild(line) {
				continue
			}
			ex, err := constraint.Parse(line)
			if err != nil {
				continue
			}
			ex.Eval(func(tag string) bool {
				if !knownOSArch[tag] && !strings.HasPrefix(tag, "go1.") {
					set[tag] = true
				}
				return false
			})
		}
		return nil
	})
	return sortedKeys(set)
}
