package main

// C16 footprint analysis: for every function of the three packages and every parameter (receiver = position 0 of a
// method) through which memory of the caller is reachable (pointers, slices), the statements that may WRITE that
// memory. May-analysis, conservative: a name is tainted by a parameter when it may point into the parameter's
// pointee (q := p, q := &p.x, s := p.E[:], results of module functions given a tainted argument); writes are
// `*q = …`, `q.f = …`, `q[i] = …`, `q.f[i] op= …`, `q.f++`, copy(q…, …), append(q, …), known writers of the standard
// library, calls of module functions whose own summary writes the corresponding parameter (fixpoint by recursion;
// a cycle is resolved pessimistically), pointer-receiver method calls on tainted operands, and any tainted value
// passed to an unknown external function.

import (
	"fmt"
	"go/ast"
	"go/token"
	"go/types"
	"os"
	"sort"
	"strings"
)

type ptrAnalysis struct {
	imp   *srcImporter
	decls map[*types.Func]*ast.FuncDecl
	mod   map[*types.Func]map[int][]string
	ret   map[*types.Func][]int // parameter positions whose memory a returned pointer/slice may point into
	state map[*types.Func]int   // 0 new, 1 in progress, 2 done
}

// reachesCallerMemory: values of this type let the callee reach memory owned by the caller
func reachesCallerMemory(t types.Type) bool {
	return reachesDepth(t, 0)
}

func reachesDepth(t types.Type, d int) bool {
	if d > 6 {
		return true
	}
	switch u := t.Underlying().(type) {
	case *types.Pointer, *types.Slice, *types.Map, *types.Interface, *types.Chan, *types.Signature:
		return true
	case *types.Struct:
		for i := 0; i < u.NumFields(); i++ {
			if reachesDepth(u.Field(i).Type(), d+1) {
				return true
			}
		}
	case *types.Array:
		return reachesDepth(u.Elem(), d+1)
	}
	return false
}

// external functions/methods that only read the memory reachable from their arguments
var ptrKnownReaders = map[string]bool{
	"len": true, "cap": true, "Write": true, "EncodeToString": true, "DecodeString": true, "SetBytes": true,
	"Uint64": true, "Uint32": true, "Uint16": true, "Equal": true, "ConstantTimeCompare": true, "ConstantTimeEq": true,
	"ConstantTimeSelect": true, "ConstantTimeByteEq": true, "Errorf": true, "Sprintf": true, "New": true, "Size": true,
	"Reset": false, "Mul64": true, "Add64": true, "Sub64": true, "Exp": true, "Cmp": true, "Sign": true, "panic": true,
	"string": true, "Is": true, "Unwrap": true, "Compare": true, "BlockSize": true,
	"HasPrefix": true, "HasSuffix": true, "Index": true, "IndexByte": true, "Contains": true, "Sum256": true, "NewReader": true,
}

// external functions that write through a given argument position (-1: the receiver)
var ptrKnownWriters = map[string][]int{
	"copy": {0}, "append": {0}, "PutUint16": {0}, "PutUint32": {0}, "PutUint64": {0}, "ConstantTimeCopy": {1},
	"Sum": {0}, "ReadFull": {1}, "Read": {0}, "FillBytes": {0}, "Grow": {}, "Clip": {},
}

func (a *ptrAnalysis) paramObjs(fn *types.Func) []*types.Var {
	sig := fn.Type().(*types.Signature)
	var ps []*types.Var
	if r := sig.Recv(); r != nil {
		ps = append(ps, r)
	}
	for i := 0; i < sig.Params().Len(); i++ {
		ps = append(ps, sig.Params().At(i))
	}
	return ps
}

func (a *ptrAnalysis) analyse(fn *types.Func) map[int][]string {
	switch a.state[fn] {
	case 2:
		return a.mod[fn]
	case 1:
		// recursion: pessimistic summary (every reaching parameter written)
		res := map[int][]string{}
		var all []int
		for i, p := range a.paramObjs(fn) {
			if reachesCallerMemory(p.Type()) {
				res[i] = []string{fn.Name() + " (recursive: assumed written)"}
				all = append(all, i)
			}
		}
		if _, ok := a.ret[fn]; !ok {
			a.ret[fn] = all
		}
		return res
	}
	a.state[fn] = 1
	res := map[int][]string{}
	decl := a.decls[fn]
	params := a.paramObjs(fn)
	if decl == nil || decl.Body == nil {
		// no source: pessimistic
		for i, p := range params {
			if reachesCallerMemory(p.Type()) {
				res[i] = []string{fn.Name() + " (no body: assumed written)"}
				a.ret[fn] = append(a.ret[fn], i)
			}
		}
		a.mod[fn] = res
		a.state[fn] = 2
		return res
	}
	info := a.imp.info
	taint := map[types.Object][]int{}
	// parameter objects as declared in the AST (the *types.Var of the signature are the same objects as Defs)
	idx := 0
	if decl.Recv != nil {
		for _, f := range decl.Recv.List {
			for _, nm := range f.Names {
				if obj := info.Defs[nm]; obj != nil && reachesCallerMemory(obj.Type()) {
					taint[obj] = []int{idx}
				}
			}
		}
		idx = 1
	}
	for _, f := range decl.Type.Params.List {
		if len(f.Names) == 0 {
			idx++
			continue
		}
		for _, nm := range f.Names {
			if obj := info.Defs[nm]; obj != nil && reachesCallerMemory(obj.Type()) {
				taint[obj] = []int{idx}
			}
			idx++
		}
	}
	var into func(e ast.Expr) []int
	into = func(e ast.Expr) []int {
		switch x := e.(type) {
		case *ast.Ident:
			if obj := info.Uses[x]; obj != nil {
				return taint[obj]
			}
			if obj := info.Defs[x]; obj != nil {
				return taint[obj]
			}
		case *ast.ParenExpr:
			return into(x.X)
		case *ast.StarExpr:
			return into(x.X)
		case *ast.UnaryExpr:
			if x.Op == token.AND {
				return into(x.X)
			}
		case *ast.SelectorExpr:
			// field of a tainted pointer/struct; (package-qualified identifiers have no taint)
			return into(x.X)
		case *ast.IndexExpr:
			return into(x.X)
		case *ast.SliceExpr:
			return into(x.X)
		case *ast.TypeAssertExpr:
			return into(x.X)
		case *ast.CompositeLit:
			var t []int
			for _, el := range x.Elts {
				if kv, ok := el.(*ast.KeyValueExpr); ok {
					t = append(t, into(kv.Value)...)
				} else {
					t = append(t, into(el)...)
				}
			}
			return t
		case *ast.CallExpr:
			// conversion T(x)
			if tv, ok := info.Types[x.Fun]; ok && tv.IsType() {
				if len(x.Args) == 1 && reachesCallerMemory(tv.Type) {
					return into(x.Args[0])
				}
				return nil
			}
			name := calleeName(x)
			if name == "append" || name == "Grow" || name == "Clip" || name == "Sum" {
				// the result shares the backing array of the first argument (hash.Sum appends to it)
				if len(x.Args) > 0 {
					return into(x.Args[0])
				}
				return nil
			}
			if name == "make" || name == "new" {
				return nil
			}
			if fn2 := calleeFunc(info, x); fn2 != nil && strings.HasPrefix(pkgPath(fn2), modPath) {
				if tv, ok := info.Types[x]; !ok || tv.Type == nil || !reachesCallerMemory(tv.Type) {
					return nil
				}
				a.analyse(fn2)
				sig := fn2.Type().(*types.Signature)
				off := 0
				var t []int
				for _, pi := range a.ret[fn2] {
					if sig.Recv() != nil {
						off = 1
						if pi == 0 {
							if sel, ok := x.Fun.(*ast.SelectorExpr); ok {
								t = append(t, into(sel.X)...)
							}
							continue
						}
					}
					ai := pi - off
					if sig.Variadic() && ai >= sig.Params().Len()-1 {
						for j := sig.Params().Len() - 1; j < len(x.Args); j++ {
							t = append(t, into(x.Args[j])...)
						}
					} else if ai < len(x.Args) {
						t = append(t, into(x.Args[ai])...)
					}
				}
				return t
			}
			// an external call returning a pointer/slice may return (part of) any tainted operand
			if tv, ok := info.Types[x]; ok && tv.Type != nil && reachesCallerMemory(tv.Type) {
				var t []int
				if sel, ok := x.Fun.(*ast.SelectorExpr); ok {
					if s := info.Selections[sel]; s != nil {
						t = append(t, into(sel.X)...)
					}
				}
				for _, ar := range x.Args {
					t = append(t, into(ar)...)
				}
				return t
			}
		}
		return nil
	}
	pos := func(n ast.Node) string {
		p := a.imp.fset.Position(n.Pos())
		return fmt.Sprintf("%s:%d", p.Filename[strings.LastIndex(p.Filename, "/")+1:], p.Line)
	}
	record := func(ps []int, what string, n ast.Node) {
		for _, p := range ps {
			res[p] = append(res[p], fmt.Sprintf("%s %s %s", fn.Name(), pos(n), what))
		}
	}
	writeLHS := func(l ast.Expr, n ast.Node) {
		switch l.(type) {
		case *ast.Ident:
			return // rebinding a local name writes no caller memory
		}
		if t := into(l); len(t) > 0 {
			record(t, "store", n)
		}
	}
	// two passes so that aliases introduced late in a loop body are seen by earlier statements
	var retT []int
	for pass := 0; pass < 2; pass++ {
		if pass == 1 {
			for k := range res {
				delete(res, k)
			}
			retT = nil
		}
		ast.Inspect(decl.Body, func(n ast.Node) bool {
			switch x := n.(type) {
			case *ast.AssignStmt:
				for i, l := range x.Lhs {
					writeLHS(l, x)
					if id, ok := l.(*ast.Ident); ok {
						obj := info.Defs[id]
						if obj == nil {
							obj = info.Uses[id]
						}
						if obj == nil || !reachesCallerMemory(obj.Type()) {
							continue
						}
						var rhs ast.Expr
						if len(x.Lhs) == len(x.Rhs) {
							rhs = x.Rhs[i]
						} else if len(x.Rhs) == 1 {
							rhs = x.Rhs[0]
						}
						if rhs != nil {
							if t := into(rhs); len(t) > 0 {
								taint[obj] = uniqInts(append(taint[obj], t...))
							}
						}
					}
				}
			case *ast.ValueSpec:
				for i, nm := range x.Names {
					obj := info.Defs[nm]
					if obj == nil || !reachesCallerMemory(obj.Type()) || i >= len(x.Values) {
						continue
					}
					if t := into(x.Values[i]); len(t) > 0 {
						taint[obj] = uniqInts(append(taint[obj], t...))
					}
				}
			case *ast.RangeStmt:
				// for _, v := range tainted: v of reaching type points into the same memory
				if id, ok := x.Value.(*ast.Ident); ok {
					if obj := info.Defs[id]; obj != nil && reachesCallerMemory(obj.Type()) {
						if t := into(x.X); len(t) > 0 {
							taint[obj] = uniqInts(append(taint[obj], t...))
						}
					}
				}
			case *ast.IncDecStmt:
				writeLHS(x.X, x)
			case *ast.ReturnStmt:
				for _, r := range x.Results {
					if tv, ok := info.Types[r]; ok && tv.Type != nil && reachesCallerMemory(tv.Type) {
						retT = uniqInts(append(retT, into(r)...))
					}
				}
			case *ast.CallExpr:
				if tv, ok := info.Types[x.Fun]; ok && tv.IsType() {
					return true // conversion
				}
				name := calleeName(x)
				fn2 := calleeFunc(info, x)
				var recvExpr ast.Expr
				if sel, ok := x.Fun.(*ast.SelectorExpr); ok {
					if s := info.Selections[sel]; s != nil && s.Kind() == types.MethodVal {
						recvExpr = sel.X
					}
				}
				if fn2 != nil && strings.HasPrefix(pkgPath(fn2), modPath) {
					sub := a.analyse(fn2)
					sig := fn2.Type().(*types.Signature)
					off := 0
					if sig.Recv() != nil {
						off = 1
						if recvExpr != nil {
							if _, isPtr := sig.Recv().Type().Underlying().(*types.Pointer); isPtr {
								if t := into(recvExpr); len(t) > 0 {
									for _, w := range sub[0] {
										record(t, "via "+w, x)
									}
								}
							}
						}
					}
					for i, ar := range x.Args {
						t := into(ar)
						if len(t) == 0 {
							continue
						}
						pi := i
						if sig.Variadic() && i >= sig.Params().Len()-1 {
							pi = sig.Params().Len() - 1
						}
						for _, w := range sub[pi+off] {
							record(t, "via "+w, x)
						}
					}
					return true
				}
				// external
				if wr, ok := ptrKnownWriters[name]; ok {
					for _, i := range wr {
						if i < len(x.Args) {
							if t := into(x.Args[i]); len(t) > 0 {
								record(t, name, x)
							}
						}
					}
					return true
				}
				if ptrKnownReaders[name] {
					return true
				}
				// unknown external: anything tainted that reaches it may be written
				if recvExpr != nil {
					if t := into(recvExpr); len(t) > 0 {
						record(t, "unknown-extern method "+name, x)
					}
				}
				for _, ar := range x.Args {
					if tv, ok := info.Types[ar]; ok && tv.Type != nil && !reachesCallerMemory(tv.Type) {
						continue // passed by value
					}
					if t := into(ar); len(t) > 0 {
						record(t, "unknown-extern "+name, x)
					}
				}
			}
			return true
		})
	}
	for k := range res {
		sort.Strings(res[k])
		res[k] = uniq(res[k])
	}
	a.mod[fn] = res
	a.ret[fn] = retT
	a.state[fn] = 2
	return res
}

func uniqInts(xs []int) []int {
	sort.Ints(xs)
	var out []int
	for i, x := range xs {
		if i == 0 || x != xs[i-1] {
			out = append(out, x)
		}
	}
	return out
}

// apiFootprints: for every exported function/method of the root package, its parameters that reach caller memory
// (position, name, written?) and the descriptions of writes through non-receiver parameters.
var sharedPtr *ptrAnalysis

func newPtrAnalysis() *ptrAnalysis {
	if sharedPtr != nil {
		return sharedPtr
	}
	imp := sharedImporter
	a := &ptrAnalysis{imp: imp, decls: map[*types.Func]*ast.FuncDecl{}, mod: map[*types.Func]map[int][]string{}, ret: map[*types.Func][]int{}, state: map[*types.Func]int{}}
	for _, files := range imp.files {
		for _, f := range files {
			for _, d := range f.Decls {
				if fd, ok := d.(*ast.FuncDecl); ok {
					if fn, ok := imp.info.Defs[fd.Name].(*types.Func); ok {
						a.decls[fn] = fd
					}
				}
			}
		}
	}
	sharedPtr = a
	return a
}

// writesParam: may the call x write the memory reachable through its argument number argIdx?
func (a *ptrAnalysis) writesArg(x *ast.CallExpr, argIdx int) (bool, string) {
	fn := calleeFunc(a.imp.info, x)
	if fn == nil || !strings.HasPrefix(pkgPath(fn), modPath) {
		name := calleeName(x)
		if wr, ok := ptrKnownWriters[name]; ok {
			for _, i := range wr {
				if i == argIdx {
					return true, name
				}
			}
			return false, ""
		}
		if ptrKnownReaders[name] {
			return false, ""
		}
		return true, "unknown callee " + name
	}
	mod := a.analyse(fn)
	sig := fn.Type().(*types.Signature)
	pi := argIdx
	if sig.Variadic() && pi >= sig.Params().Len()-1 {
		pi = sig.Params().Len() - 1
	}
	if sig.Recv() != nil {
		pi++
	}
	if len(mod[pi]) > 0 {
		return true, mod[pi][0]
	}
	return false, ""
}

func apiFootprints() (table []string, argWrites []string) {

	a := newPtrAnalysis()
	var fns []*types.Func
	for fn := range a.decls {
		if fn.Pkg().Path() != modPath || !fn.Exported() {
			continue
		}
		sig := fn.Type().(*types.Signature)
		if r := sig.Recv(); r != nil {
			// methods of unexported types are not API
			t := r.Type()
			if p, ok := t.(*types.Pointer); ok {
				t = p.Elem()
			}
			if n, ok := t.(*types.Named); ok && !n.Obj().Exported() {
				continue
			}
		}
		if strings.HasPrefix(fn.Name(), "Example") || strings.HasPrefix(fn.Name(), "Test") {
			continue
		}
		fns = append(fns, fn)
	}
	sort.Slice(fns, func(i, j int) bool { return shortName(fns[i]) < shortName(fns[j]) })
	for _, fn := range fns {
		mod := a.analyse(fn)
		if os.Getenv("PTRDBG") != "" {
			for f2, m := range a.mod {
				if f2.Name() == os.Getenv("PTRDBG") {
					fmt.Fprintln(os.Stderr, "DBG", f2.FullName(), m, a.ret[f2])
				}
			}
		}
		sig := fn.Type().(*types.Signature)
		isMethod := sig.Recv() != nil
		var ps []string
		for i, p := range a.paramObjs(fn) {
			if !reachesCallerMemory(p.Type()) {
				continue
			}
			w := len(mod[i]) > 0
			ps = append(ps, fmt.Sprintf("(%d, %q, %v)", i, p.Name(), w))
			if w && !(isMethod && i == 0) {
				for _, d := range mod[i] {
					argWrites = append(argWrites, fmt.Sprintf("%s param %d (%s): %s", shortName(fn), i, p.Name(), d))
				}
			}
		}
		table = append(table, fmt.Sprintf("(%q, %v, [%s])", shortName(fn), isMethod, strings.Join(ps, ", ")))
	}
	sort.Strings(argWrites)
	return
}
