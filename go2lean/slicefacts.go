package main

// C15 write analysis: for every function of the root package, every statement that can write through a
// byte-slice parameter (or through a local that may share its backing array). Forms that can write through a
// slice s: s[i] = v, copy(s, …), append(s, …) (in place when len < cap), binary.BigEndian.Put*(s, …),
// subtle.ConstantTimeCopy(_, s, _), h.Sum(s), and passing s to a module function that writes its parameter.
// Passing s to any other external function is reported as "unknown-extern" unless the callee is a known reader.

import (
	"fmt"
	"go/ast"
	"go/token"
	"go/types"
	"sort"
	"strings"
)

var knownReaders = map[string]bool{
	"Write": true, "len": true, "cap": true, "EncodeToString": true, "SetBytes": true, "Uint64": true, "Uint32": true, "Uint16": true,
	"Equal": true, "string": true, "DecodeString": true, "ReadFull": false,
	// read-only functions of bytes, crypto/subtle, crypto/sha256 that a rewrite of the codecs is likely to reach for
	"Compare": true, "HasPrefix": true, "HasSuffix": true, "Index": true, "IndexByte": true, "Contains": true,
	"ConstantTimeCompare": true, "Sum256": true, "NewReader": true, "Errorf": true, "Sprintf": true,
}

type sliceAnalysis struct {
	imp    *srcImporter
	decls  map[*types.Func]*ast.FuncDecl
	writes map[*types.Func]map[int][]string // function -> parameter index -> write descriptions
	done   map[*types.Func]bool
}

func isByteSlice(t types.Type) bool {
	s, ok := t.Underlying().(*types.Slice)
	if !ok {
		return false
	}
	b, ok := s.Elem().Underlying().(*types.Basic)
	return ok && (b.Kind() == types.Uint8 || b.Kind() == types.Byte)
}

func (a *sliceAnalysis) analyse(fn *types.Func) map[int][]string {
	if a.done[fn] {
		return a.writes[fn]
	}
	a.done[fn] = true
	res := map[int][]string{}
	a.writes[fn] = res
	decl := a.decls[fn]
	if decl == nil || decl.Body == nil {
		return res
	}
	info := a.imp.info
	// taint: variable object -> set of parameter indices whose backing array it may share
	taint := map[types.Object][]int{}
	idx := 0
	for _, f := range decl.Type.Params.List {
		for _, nm := range f.Names {
			if obj := info.Defs[nm]; obj != nil && isByteSlice(obj.Type()) {
				taint[obj] = []int{idx}
			}
			idx++
		}
		if len(f.Names) == 0 {
			idx++
		}
	}
	// variadic ...[]byte parameters: elements are slices the callee may write (hashAll(h, input ...[]byte))
	var taintOf func(e ast.Expr) []int
	taintOf = func(e ast.Expr) []int {
		switch x := e.(type) {
		case *ast.Ident:
			return taint[info.Uses[x]]
		case *ast.ParenExpr:
			return taintOf(x.X)
		case *ast.SliceExpr:
			return taintOf(x.X)
		case *ast.IndexExpr:
			return taintOf(x.X)
		case *ast.CallExpr:
			// results that may alias an argument: append(s, …), slices.Grow(s, n), slices.Clip…
			name := calleeName(x)
			if name == "append" || name == "Grow" || name == "Clip" {
				if len(x.Args) > 0 {
					return taintOf(x.Args[0])
				}
			}
			if fn2 := calleeFunc(info, x); fn2 != nil && strings.HasPrefix(pkgPath(fn2), modPath) {
				// conservatively: a module function returning a slice may return (a view of) any slice argument
				var t []int
				for _, ar := range x.Args {
					t = append(t, taintOf(ar)...)
				}
				if sig, ok := fn2.Type().(*types.Signature); ok && sig.Results().Len() > 0 && isByteSlice(sig.Results().At(0).Type()) {
					return t
				}
			}
		}
		return nil
	}
	pos := func(n ast.Node) string {
		p := a.imp.fset.Position(n.Pos())
		return fmt.Sprintf("%s:%d", p.Filename[strings.LastIndex(p.Filename, "/")+1:], p.Line)
	}
	record := func(ps []int, what string, n ast.Node) {
		for _, p := range ps {
			res[p] = append(res[p], fmt.Sprintf("%s %s %s", fn.Name(), pos(n), what))
		}
	}
	var walk func(n ast.Node) bool
	walk = func(n ast.Node) bool {
		switch x := n.(type) {
		case *ast.AssignStmt:
			for i, l := range x.Lhs {
				// write through index
				if ie, ok := l.(*ast.IndexExpr); ok {
					if t := taintOf(ie.X); len(t) > 0 {
						record(t, "index-assign", x)
					}
				}
				// alias propagation
				if id, ok := l.(*ast.Ident); ok && i < len(x.Rhs) {
					obj := info.Defs[id]
					if obj == nil {
						obj = info.Uses[id]
					}
					if obj != nil {
						if t := taintOf(x.Rhs[i]); len(t) > 0 {
							taint[obj] = append(taint[obj], t...)
						} else if x.Tok == token.ASSIGN && len(x.Lhs) == len(x.Rhs) {
							// reassigned to something fresh: the name no longer aliases the parameter
							if _, isCall := x.Rhs[i].(*ast.CallExpr); isCall {
								delete(taint, obj)
							}
						}
					}
				}
			}
		case *ast.RangeStmt:
			// for _, i := range variadicSlices { … i … }: elements of a [][]byte parameter
			if id, ok := x.Value.(*ast.Ident); ok {
				if t := a.variadicTaint(info, decl, x.X); len(t) > 0 {
					taint[info.Defs[id]] = t
				}
			}
		case *ast.CallExpr:
			name := calleeName(x)
			switch name {
			case "copy":
				if len(x.Args) == 2 {
					record(taintOf(x.Args[0]), "copy-into", x)
				}
			case "append":
				if len(x.Args) > 0 {
					record(taintOf(x.Args[0]), "append-onto (in place when len < cap)", x)
				}
			case "PutUint16", "PutUint32", "PutUint64":
				if len(x.Args) > 0 {
					record(taintOf(x.Args[0]), "binary.Put", x)
				}
			case "ConstantTimeCopy":
				if len(x.Args) == 3 {
					record(taintOf(x.Args[1]), "ConstantTimeCopy-into", x)
				}
			case "Sum":
				if len(x.Args) == 1 {
					record(taintOf(x.Args[0]), "hash.Sum appends onto", x)
				}
			default:
				fn2 := calleeFunc(info, x)
				if fn2 != nil && strings.HasPrefix(pkgPath(fn2), modPath) {
					sub := a.analyse(fn2)
					sig := fn2.Type().(*types.Signature)
					for i, ar := range x.Args {
						t := taintOf(ar)
						if len(t) == 0 {
							continue
						}
						pi := i
						if sig.Variadic() && i >= sig.Params().Len()-1 {
							pi = sig.Params().Len() - 1
						}
						for _, w := range sub[pi] {
							record(t, "via "+w, x)
						}
					}
				} else if !knownReaders[name] && name != "Grow" && name != "Clip" {
					for _, ar := range x.Args {
						if t := taintOf(ar); len(t) > 0 {
							if _, conv := info.Types[x.Fun]; conv && info.Types[x.Fun].IsType() {
								continue // conversion such as [32]byte(s) or string(s): copies
							}
							record(t, "unknown-extern "+name, x)
						}
					}
				}
			}
		}
		return true
	}
	ast.Inspect(decl.Body, walk)
	for k := range res {
		sort.Strings(res[k])
		res[k] = uniq(res[k])
	}
	return res
}

// variadicTaint: `input ...[]byte` ranges over caller slices
func (a *sliceAnalysis) variadicTaint(info *types.Info, decl *ast.FuncDecl, e ast.Expr) []int {
	id, ok := e.(*ast.Ident)
	if !ok {
		return nil
	}
	obj := info.Uses[id]
	idx := 0
	for _, f := range decl.Type.Params.List {
		for _, nm := range f.Names {
			if info.Defs[nm] == obj {
				if _, ok := f.Type.(*ast.Ellipsis); ok {
					return []int{idx}
				}
			}
			idx++
		}
	}
	return nil
}

func calleeName(x *ast.CallExpr) string {
	switch f := x.Fun.(type) {
	case *ast.Ident:
		return f.Name
	case *ast.SelectorExpr:
		return f.Sel.Name
	}
	return ""
}

func calleeFunc(info *types.Info, x *ast.CallExpr) *types.Func {
	var id *ast.Ident
	switch f := x.Fun.(type) {
	case *ast.Ident:
		id = f
	case *ast.SelectorExpr:
		id = f.Sel
	}
	if id == nil {
		return nil
	}
	fn, _ := info.Uses[id].(*types.Func)
	return fn
}

func pkgPath(f *types.Func) string {
	if f.Pkg() == nil {
		return ""
	}
	return f.Pkg().Path()
}

// sliceWriteFacts returns, for every exported function/method of the root package with a byte-slice parameter,
// the list of possible writes through that parameter.
func sliceWriteFacts() (apis []string, writes []string) {
	imp := sharedImporter
	a := &sliceAnalysis{imp: imp, decls: map[*types.Func]*ast.FuncDecl{}, writes: map[*types.Func]map[int][]string{}, done: map[*types.Func]bool{}}
	for _, files := range imp.files {
		for _, f := range files {
			for _, d := range f.Decls {
				if fd, ok := d.(*ast.FuncDecl); ok {
					if fn, ok := imp.info.Defs[fd.Name].(*types.Func); ok {
						a.decls[fn] = fd
					}
				}
			}
		}
	}
	var fns []*types.Func
	for fn := range a.decls {
		if fn.Pkg().Path() == modPath && fn.Exported() {
			fns = append(fns, fn)
		}
	}
	sort.Slice(fns, func(i, j int) bool { return fns[i].FullName() < fns[j].FullName() })
	for _, fn := range fns {
		sig := fn.Type().(*types.Signature)
		has := false
		for i := 0; i < sig.Params().Len(); i++ {
			if isByteSlice(sig.Params().At(i).Type()) {
				has = true
			}
		}
		if !has {
			continue
		}
		apis = append(apis, shortName(fn))
		for p, ws := range a.analyse(fn) {
			for _, w := range ws {
				writes = append(writes, fmt.Sprintf("%s param %d: %s", shortName(fn), p, w))
			}
		}
	}
	sort.Strings(writes)
	return
}
