package main

// Limb values in byte-slice mode: the byte-level functions of internal/field and internal/scalar (`Bytes`,
// `FromBytesWithReduce`, `FromBytesNoReduce`, `HashToFieldElement`, `ReduceBytes`, the byte<->limb conversions).
// A `*[4]uint64`-like value (`MontgomeryDomainFieldElement`, `NonMontgomeryDomainFieldElement`, and in package field the
// one-field struct `Element`) is an `L4`; pointers to it live in alias classes like byte slices do. Calls of functions the
// Fiat mode translated (`ToMontgomery`, `FromMontgomery`, `Reduce`, `Mul`, `Add`, ...) become applications of the generated
// definitions: they are functions of their inputs' values because the Fiat mode checks that no pointer parameter is read
// after the first write.

import (
	"fmt"
	"go/ast"
	"go/token"
	"go/types"
	"strings"
)

// slMode: "root", "field" or "scalar" — the package being translated
var slMode = "root"

func isLimbArray(t types.Type) bool {
	a, ok := t.Underlying().(*types.Array)
	if !ok || a.Len() != 4 {
		return false
	}
	b, ok := a.Elem().Underlying().(*types.Basic)
	return ok && b.Kind() == types.Uint64
}

func isLimbType(t types.Type) bool {
	if p, ok := t.Underlying().(*types.Pointer); ok {
		t = p.Elem()
	}
	if isLimbArray(t) {
		return true
	}
	if slMode == "field" && t.String() == modPath+"/internal/field.Element" {
		return true
	}
	if slMode == "scalar" && t.String() == modPath+"/internal/scalar.scalar" {
		return true // struct{ s *MontgomeryDomainFieldElement }: a pointer to limbs
	}
	return false
}

// pointerLike: a limb type whose values are references (a copy of the value is another name for the same limbs)
func pointerLike(t types.Type) bool {
	if _, ok := t.Underlying().(*types.Pointer); ok {
		return true
	}
	return t.String() == modPath+"/internal/scalar.scalar"
}

// limbExpr: (Lean expression, alias class, the variable it denotes or nil)
func (f *slFn) limbExpr(e ast.Expr) (string, int, *slVar) {
	switch x := e.(type) {
	case *ast.ParenExpr:
		return f.limbExpr(x.X)
	case *ast.StarExpr:
		return f.limbExpr(x.X)
	case *ast.UnaryExpr:
		if x.Op == token.AND {
			return f.limbExpr(x.X)
		}
	case *ast.SelectorExpr:
		if x.Sel.Name == "E" || x.Sel.Name == "S" || x.Sel.Name == "s" {
			if isLimbType(f.g.info.TypeOf(x.X)) {
				return f.limbExpr(x.X)
			}
			if k, ok := slKindOf(f.g.info.TypeOf(x.X)); ok && k == kScalar && x.Sel.Name == "S" {
				return f.limbExpr(x.X)
			}
		}
	case *ast.Ident:
		if v := f.lookup(x); v != nil && (v.kind == kLimbs || v.kind == kScalar) {
			return v.name, v.class, v
		}
	case *ast.CompositeLit:
		if f.g.info.TypeOf(x).String() == modPath+".Scalar" && len(x.Elts) == 1 {
			// Scalar{S: ...}
			if kv, ok := x.Elts[0].(*ast.KeyValueExpr); ok {
				if key, ok := kv.Key.(*ast.Ident); ok && key.Name == "S" {
					return f.limbExpr(kv.Value)
				}
			}
		}
		if isLimbType(f.g.info.TypeOf(x)) && !isLimbArray(f.g.info.TypeOf(x)) && len(x.Elts) == 1 {
			// the one-field struct: Element{E: ...}
			if kv, ok := x.Elts[0].(*ast.KeyValueExpr); ok {
				if k, ok := kv.Key.(*ast.Ident); ok && (k.Name == "E" || k.Name == "S" || k.Name == "s") {
					return f.limbExpr(kv.Value)
				}
			} else if f.g.info.TypeOf(x).String() == modPath+"/internal/scalar.scalar" {
				return f.limbExpr(x.Elts[0]) // scalar{p}
			}
		}
		if isLimbType(f.g.info.TypeOf(x)) && len(x.Elts) == 4 {
			var el []string
			for _, a := range x.Elts {
				if _, ok := a.(*ast.KeyValueExpr); ok {
					f.fail("keyed literal")
				}
				el = append(el, f.natExpr(a))
			}
			return "(⟨" + strings.Join(el, ", ") + "⟩ : L4)", f.newClass(), nil
		}
		if isLimbType(f.g.info.TypeOf(x)) && len(x.Elts) == 0 {
			return "(⟨0, 0, 0, 0⟩ : L4)", f.newClass(), nil
		}
	case *ast.CallExpr:
		if to, ok := f.isConv(x); ok && isLimbType(to) {
			return f.limbExpr(x.Args[0])
		}
		if id, ok := x.Fun.(*ast.Ident); ok && id.Name == "new" && len(x.Args) == 1 {
			if tv, ok := f.g.info.Types[x.Args[0]]; ok && tv.IsType() && isLimbType(tv.Type) {
				return "(⟨0, 0, 0, 0⟩ : L4)", f.newClass(), nil
			}
		}
		f.lastRetVar = nil
		r, c, k := f.call(x)
		if k != kLimbs && k != kScalar {
			f.fail("call %s does not return limbs", nodeText(f.g.imp.fset, x.Fun))
		}
		rv := f.lastRetVar
		f.lastRetVar = nil
		if rv != nil && rv.name == r {
			return r, c, rv
		}
		return r, c, nil
	}
	f.fail("limb expression %s", nodeText(f.g.imp.fset, e))
	return "", 0, nil
}

func limbField(i string) string {
	switch i {
	case "0", "1", "2", "3":
		return "l" + i
	}
	return ""
}

// fiatCall emits the application of a Fiat-mode definition; returns the returned value's expression ("" if none).
func (f *slFn) fiatCall(x *ast.CallExpr, sg *fiatSig, ns string) string {
	if len(x.Args) != len(sg.params) {
		f.fail("call arity")
	}
	var ins, outs []string
	for i, p := range sg.params {
		a := x.Args[i]
		isLimb := (p.isPtr || p.arrayVal) && p.n == 4 || p.wrapped
		if sg.input[i] {
			if isLimb {
				e, _, _ := f.limbExpr(a)
				ins = append(ins, slAtom(e))
			} else if p.isPtr {
				f.fail("scalar pointer argument")
			} else {
				ins = append(ins, slAtom(f.natExpr(a)))
			}
		}
	}
	for i, p := range sg.params {
		if !sg.output[i] {
			continue
		}
		isLimb := p.isPtr && p.n == 4 || p.wrapped
		if !isLimb {
			f.fail("output parameter of %s", sg.lean)
		}
		_, _, v := f.limbExpr(x.Args[i])
		if v == nil {
			f.fail("output argument of %s is not a variable", sg.lean)
		}
		f.write(v, false, "call of "+sg.lean)
		outs = append(outs, v.name)
	}
	res := ""
	if sg.ret {
		res = f.fresh()
		outs = append(outs, res)
	}
	lhs := "_"
	if len(outs) == 1 {
		lhs = outs[0]
	} else if len(outs) > 1 {
		lhs = "(" + strings.Join(outs, ", ") + ")"
	}
	f.emit("let %s := %s.%s %s", lhs, ns, sg.lean, strings.Join(ins, " "))
	return res
}

// limbStore: x[i] = v on a limb variable
func (f *slFn) limbStore(ix *ast.IndexExpr, rhs ast.Expr) bool {
	if !isLimbType(f.g.info.TypeOf(ix.X)) {
		return false
	}
	_, _, v := f.limbExpr(ix.X)
	if v == nil {
		f.fail("limb store into %s", nodeText(f.g.imp.fset, ix.X))
	}
	c, ok := f.constVal(ix.Index)
	fld := limbField(c)
	if !ok || fld == "" {
		f.fail("limb index")
	}
	val := f.natExpr(rhs)
	f.write(v, false, "limb store")
	f.emit("let %s : L4 := { %s with %s := %s }", v.name, v.name, fld, val)
	return true
}

func lowerFirst(s string) string {
	if s == "" {
		return s
	}
	return strings.ToLower(s[:1]) + s[1:]
}

func leanFnName(key string) string {
	if i := strings.Index(key, "."); i >= 0 {
		return lowerFirst(key[:i]) + "_" + lowerFirst(key[i+1:])
	}
	if key == "New" {
		return "newElement"
	}
	return lowerFirst(key)
}

func (f *slFn) tmpVar(kind slKind, class int, expr string) *slVar {
	n := f.fresh()
	f.emit("let %s : %s := %s", n, leanKind(kind), expr)
	return &slVar{name: n, kind: kind, class: class, param: -1}
}

var _ = fmt.Sprint
