package main

// L0/L1 translator: straight-line uint64 code (Fiat-Crypto output and the small
// bit-trick helpers) -> flat Lean `let` chains over the primitives of Secp.Prim.
//
// Accepted subset (anything else aborts with file:line):
//   x := e | x = e | var x T | x op= e (|=, &=, ^=)
//   hi, lo = bits.Mul64(a,b) | s, c = bits.Add64(a,b,c) | d, b = bits.Sub64(a,b,c)   (`_` targets allowed, := or =)
//   cmovznzU64(&x, c, a, b)
//   p[i] = e | *p = e        (p a pointer parameter)   a[i] = e (a a local array)
//   a := Callee()            (callee returning a pointer to a literal array: constants such as Order())
//   return e
//   e ::= ident | p[i] | literal | e (+|-|*|&|^|'|'|>>|<<) e | ^e | -e | uint64(e) | uint1(e) | (e) | f(e,..)
//         where f is another translated pure helper returning one uint64.
// Pointer parameters are arrays of uint64 (or a single *uint64); the function is
// read as a pure function from the initial contents of all parameters to the
// final contents of every written pointer parameter plus the return value.
// Soundness under aliasing of distinct pointer parameters (every caller passes
// out1 == arg1) is established by refusing any read of a pointer parameter
// after the first write to a *different* pointer parameter.

import (
	"fmt"
	"go/ast"
	"go/token"
	"sort"
	"strconv"
	"strings"
)

type fiatParam struct {
	name     string
	isPtr    bool
	n        int // array length for pointer-to-array, 0 for *uint64 scalar pointer / plain value
	arrayVal bool
	wrapped  bool // struct with one limb-array field (field.Element.E, Scalar.S)
}

// fiatSig describes a translated function for callers: its parameters in Go order (which are inputs of the Lean
// definition, which are written pointer parameters) and whether it returns a value.
type fiatSig struct {
	lean   string
	params []fiatParam
	input  []bool
	output []bool
	ret    bool
}

var fiatSigs = map[string]map[string]*fiatSig{} // package -> Go function name -> signature

type fiatTr struct {
	fset    *token.FileSet
	pkg     string
	fname   string
	params  []fiatParam
	pmap    map[string]*fiatParam
	cur     map[string]string // variable or "p[i]" -> current Lean expression
	written map[string]bool   // pointer params written
	firstW  string
	lines   []string
	np      int
	nt      int
	ret     string
	helpers map[string]bool // callable pure helpers (same package) returning uint64
	consts  map[string][]string
	arrays  map[string]int // local arrays
	// API mode (methods of the root package): nil guards, package-qualified callees, Bool/error results
	api      bool
	qual     map[string]string   // imported package name -> Lean namespace of its translated functions
	methods  map[string]*fiatSig // "Recv.Method" of the package being translated
	guards   []apiGuard
	retKind  string            // "", "nat", "bool", "error"
	ptrAlias map[string]string // local `q := &p.S` -> p (API mode)
	optional map[string]bool
}

// apiGuard: `if x == nil [|| y == nil] { return E }` at the top of a method
type apiGuard struct {
	names []string
	ret   ast.Expr
}

func (t *fiatTr) fail(n ast.Node, msg string) {
	panic(fmt.Sprintf("%s: unsupported construct in %s.%s: %s", t.fset.Position(n.Pos()), t.pkg, t.fname, msg))
}

func (t *fiatTr) emit(name, rhs string) {
	t.lines = append(t.lines, fmt.Sprintf("  let %s := %s", name, rhs))
}

func litVal(b *ast.BasicLit) (string, bool) {
	if b.Kind != token.INT {
		return "", false
	}
	s := strings.ReplaceAll(b.Value, "_", "")
	v, err := strconv.ParseUint(s, 0, 64)
	if err != nil {
		return "", false
	}
	return strconv.FormatUint(v, 10), true
}

func atom(s string) string {
	if strings.ContainsAny(s, " ") {
		return "(" + s + ")"
	}
	return s
}

func (t *fiatTr) readIdx(e *ast.IndexExpr) string {
	id := t.baseIdent(e.X)
	if id == nil {
		t.fail(e, "index base")
	}
	idx, ok := e.Index.(*ast.BasicLit)
	if !ok {
		t.fail(e, "non-literal index")
	}
	key := id.Name + "[" + idx.Value + "]"
	if p, ok := t.pmap[id.Name]; ok && (p.isPtr || p.arrayVal) {
		if p.isPtr && t.firstW != "" && t.firstW != id.Name {
			t.fail(e, "read of pointer parameter "+id.Name+" after write to "+t.firstW+" (aliasing-unsafe)")
		}
		if v, ok := t.cur[key]; ok {
			return v
		}
		t.fail(e, "index out of range "+key)
	}
	if _, ok := t.arrays[id.Name]; ok {
		if v, ok := t.cur[key]; ok {
			return v
		}
		return "0"
	}
	if c, ok := t.consts[id.Name]; ok {
		i, _ := strconv.Atoi(idx.Value)
		if i < len(c) {
			return c[i]
		}
	}
	t.fail(e, "index of unknown "+id.Name)
	return ""
}

var fiatBin = map[token.Token]string{
	token.ADD: "wadd", token.MUL: "wmul", token.SUB: "wsub", token.AND: "Nat.land", token.OR: "Nat.lor",
	token.XOR: "Nat.xor",
}

func (t *fiatTr) expr(e ast.Expr) string {
	switch x := e.(type) {
	case *ast.ParenExpr:
		return t.expr(x.X)
	case *ast.Ident:
		if v, ok := t.cur[x.Name]; ok {
			return v
		}
		t.fail(e, "unknown identifier "+x.Name)
	case *ast.BasicLit:
		if v, ok := litVal(x); ok {
			return v
		}
		t.fail(e, "literal")
	case *ast.IndexExpr:
		return t.readIdx(x)
	case *ast.StarExpr:
		if id, ok := x.X.(*ast.Ident); ok {
			if v, ok := t.cur["*"+id.Name]; ok {
				return v
			}
		}
		t.fail(e, "deref")
	case *ast.UnaryExpr:
		switch x.Op {
		case token.XOR:
			return "wnot " + atom(t.expr(x.X))
		case token.SUB:
			return "wneg " + atom(t.expr(x.X))
		}
		t.fail(e, "unary "+x.Op.String())
	case *ast.BinaryExpr:
		if t.api && x.Op == token.EQL {
			return "decide (" + t.expr(x.X) + " = " + t.expr(x.Y) + ")"
		}
		if op, ok := fiatBin[x.Op]; ok {
			return op + " " + atom(t.expr(x.X)) + " " + atom(t.expr(x.Y))
		}
		if x.Op == token.SHR || x.Op == token.SHL {
			k, ok := x.Y.(*ast.BasicLit)
			if !ok {
				t.fail(e, "non-literal shift")
			}
			f := "wshr"
			if x.Op == token.SHL {
				f = "wshl"
			}
			return f + " " + atom(t.expr(x.X)) + " " + k.Value
		}
		t.fail(e, "binary "+x.Op.String())
	case *ast.CallExpr:
		if t.api {
			if v, ok := t.apiCallExpr(x); ok {
				return v
			}
		}
		if id, ok := x.Fun.(*ast.Ident); ok {
			switch id.Name {
			case "uint64", "uint1", "int":
				// `type uint1 uint64`: both conversions are the identity on uint64 values.
				if len(x.Args) != 1 {
					t.fail(e, "conversion arity")
				}
				return t.expr(x.Args[0])
			}
			if t.helpers[id.Name] {
				var as []string
				for _, a := range x.Args {
					as = append(as, atom(t.expr(a)))
				}
				return lname(id.Name) + " " + strings.Join(as, " ")
			}
		}
		t.fail(e, "call")
	}
	t.fail(e, fmt.Sprintf("expression %T", e))
	return ""
}

// baseIdent resolves `p`, `p.E` and `p.S` (the single limb-array field of field.Element / Scalar) to p.
func (t *fiatTr) baseIdent(e ast.Expr) *ast.Ident {
	switch x := e.(type) {
	case *ast.Ident:
		return x
	case *ast.SelectorExpr:
		if id, ok := x.X.(*ast.Ident); ok && (x.Sel.Name == "E" || x.Sel.Name == "S") {
			if p, ok := t.pmap[id.Name]; ok && p.wrapped {
				return id
			}
		}
	}
	return nil
}

func lname(s string) string { return strings.ToLower(s[:1]) + s[1:] }

func (t *fiatTr) assignTo(lhs ast.Expr, val string, node ast.Node) {
	switch l := lhs.(type) {
	case *ast.Ident:
		if l.Name == "_" {
			return
		}
		nm := t.ssa(l.Name)
		t.emit(nm, val)
		t.cur[l.Name] = nm
	case *ast.IndexExpr:
		id := t.baseIdent(l.X)
		if id == nil {
			t.fail(node, "index assign base")
		}
		idx, ok := l.Index.(*ast.BasicLit)
		if !ok {
			t.fail(node, "non-literal index assign")
		}
		key := id.Name + "[" + idx.Value + "]"
		if p, ok := t.pmap[id.Name]; ok && p.isPtr {
			i, _ := strconv.Atoi(idx.Value)
			if i >= p.n {
				t.fail(node, "index out of range")
			}
			if t.firstW == "" {
				t.firstW = id.Name
			}
			t.written[id.Name] = true
		} else if _, ok := t.arrays[id.Name]; !ok {
			t.fail(node, "assignment to unknown array "+id.Name)
		}
		nm := t.ssa(id.Name + "_" + idx.Value)
		t.emit(nm, val)
		t.cur[key] = nm
	case *ast.StarExpr:
		id, ok := l.X.(*ast.Ident)
		if !ok {
			t.fail(node, "deref assign")
		}
		p, ok := t.pmap[id.Name]
		if !ok || !p.isPtr || p.n != 0 {
			t.fail(node, "deref assign to non scalar pointer")
		}
		if t.firstW == "" {
			t.firstW = id.Name
		}
		t.written[id.Name] = true
		nm := t.ssa(id.Name)
		t.emit(nm, val)
		t.cur["*"+id.Name] = nm
	default:
		t.fail(node, "assignment target")
	}
}

// ssa returns a fresh Lean name for a (re)assignment of Go variable v.
func (t *fiatTr) ssa(v string) string {
	t.nt++
	if _, used := t.cur["#"+v]; !used {
		t.cur["#"+v] = "1"
		return v
	}
	return fmt.Sprintf("%s_%d", v, t.nt)
}

func (t *fiatTr) stmt(s ast.Stmt) {
	switch x := s.(type) {
	case *ast.DeclStmt:
		gd := x.Decl.(*ast.GenDecl)
		if gd.Tok != token.VAR {
			t.fail(s, "decl")
		}
		for _, sp := range gd.Specs {
			vs := sp.(*ast.ValueSpec)
			if len(vs.Values) != 0 {
				t.fail(s, "var with initialiser")
			}
			for _, nm := range vs.Names {
				switch ty := vs.Type.(type) {
				case *ast.Ident:
					switch ty.Name {
					case "MontgomeryDomainFieldElement", "NonMontgomeryDomainFieldElement":
						t.arrays[nm.Name] = 4
					default:
						t.cur[nm.Name] = "0"
					}
				case *ast.SelectorExpr:
					switch ty.Sel.Name {
					case "MontgomeryDomainFieldElement", "NonMontgomeryDomainFieldElement":
						t.arrays[nm.Name] = 4
					default:
						t.fail(s, "var type")
					}
				case *ast.ArrayType:
					n, _ := strconv.Atoi(ty.Len.(*ast.BasicLit).Value)
					t.arrays[nm.Name] = n
				default:
					t.fail(s, "var type")
				}
			}
		}
	case *ast.AssignStmt:
		if t.api && x.Tok == token.DEFINE && len(x.Lhs) == 1 && len(x.Rhs) == 1 {
			// q := &p.S — a local name for the limbs of a pointer parameter
			if u, ok := x.Rhs[0].(*ast.UnaryExpr); ok && u.Op == token.AND {
				if id, ok := x.Lhs[0].(*ast.Ident); ok {
					if base := t.locOf(x.Rhs[0]); base != "" {
						if t.ptrAlias == nil {
							t.ptrAlias = map[string]string{}
						}
						t.ptrAlias[id.Name] = base
						return
					}
				}
			}
		}
		if len(x.Lhs) == 2 && len(x.Rhs) == 1 {
			call, ok := x.Rhs[0].(*ast.CallExpr)
			if !ok {
				t.fail(s, "2-assign")
			}
			sel, ok := call.Fun.(*ast.SelectorExpr)
			if !ok {
				t.fail(s, "2-assign callee")
			}
			pk, _ := sel.X.(*ast.Ident)
			if pk == nil || pk.Name != "bits" {
				t.fail(s, "2-assign callee")
			}
			f, ok := map[string]string{"Mul64": "mul64", "Add64": "add64", "Sub64": "sub64"}[sel.Sel.Name]
			if !ok {
				t.fail(s, "bits."+sel.Sel.Name)
			}
			var as []string
			for _, a := range call.Args {
				as = append(as, atom(t.expr(a)))
			}
			t.np++
			p := fmt.Sprintf("p%d", t.np)
			t.emit(p, f+" "+strings.Join(as, " "))
			t.assignTo(x.Lhs[0], p+".1", s)
			t.assignTo(x.Lhs[1], p+".2", s)
			return
		}
		if len(x.Lhs) != 1 || len(x.Rhs) != 1 {
			t.fail(s, "assign arity")
		}
		// constant-array callee: order := Order()
		if call, ok := x.Rhs[0].(*ast.CallExpr); ok {
			if id, ok := call.Fun.(*ast.Ident); ok && len(call.Args) == 0 {
				if c, ok := t.consts[id.Name+"()"]; ok {
					t.consts[x.Lhs[0].(*ast.Ident).Name] = c
					return
				}
			}
		}
		if cl, ok := x.Rhs[0].(*ast.CompositeLit); ok && t.api {
			id, ok := x.Lhs[0].(*ast.Ident)
			if !ok || len(cl.Elts) != 4 {
				t.fail(s, "composite literal")
			}
			t.arrays[id.Name] = 4
			for j, el := range cl.Elts {
				t.cur[fmt.Sprintf("%s[%d]", id.Name, j)] = t.expr(el)
			}
			return
		}
		switch x.Tok {
		case token.DEFINE, token.ASSIGN:
			t.assignTo(x.Lhs[0], t.expr(x.Rhs[0]), s)
		case token.OR_ASSIGN, token.AND_ASSIGN, token.XOR_ASSIGN:
			op := map[token.Token]string{token.OR_ASSIGN: "Nat.lor", token.AND_ASSIGN: "Nat.land", token.XOR_ASSIGN: "Nat.xor"}[x.Tok]
			t.assignTo(x.Lhs[0], op+" "+atom(t.expr(x.Lhs[0]))+" "+atom(t.expr(x.Rhs[0])), s)
		default:
			t.fail(s, "assign op "+x.Tok.String())
		}
	case *ast.ExprStmt:
		call, ok := x.X.(*ast.CallExpr)
		if !ok {
			t.fail(s, "expr stmt")
		}
		id, ok := call.Fun.(*ast.Ident)
		if ok && id.Name != "cmovznzU64" {
			if sg := fiatSigs[t.pkg][id.Name]; sg != nil {
				t.callStmt(call, sg, s)
				return
			}
		}
		if t.api {
			if t.apiCallStmt(call, s) {
				return
			}
		}
		if !ok || id.Name != "cmovznzU64" || len(call.Args) != 4 {
			t.fail(s, "call statement")
		}
		ad, ok := call.Args[0].(*ast.UnaryExpr)
		if !ok || ad.Op != token.AND {
			t.fail(s, "cmovznzU64 target")
		}
		v := "cmovznzU64 " + atom(t.expr(call.Args[1])) + " " + atom(t.expr(call.Args[2])) + " " + atom(t.expr(call.Args[3]))
		t.assignTo(ad.X, v, s)
	case *ast.IfStmt:
		if !t.api || x.Init != nil || x.Else != nil || len(t.lines) != 0 {
			t.fail(s, "if statement")
		}
		body := x.Body.List
		if len(body) == 2 {
			// `p.M(); return p` is `return p.M()` when M returns its receiver (every method of the API does)
			if es, ok := body[0].(*ast.ExprStmt); ok {
				if call, ok := es.X.(*ast.CallExpr); ok {
					if sel, ok := call.Fun.(*ast.SelectorExpr); ok {
						if r2, ok := body[1].(*ast.ReturnStmt); ok && len(r2.Results) == 1 {
							a, okA := sel.X.(*ast.Ident)
							b, okB := r2.Results[0].(*ast.Ident)
							if okA && okB && a.Name == b.Name {
								body = []ast.Stmt{&ast.ReturnStmt{Return: r2.Return, Results: []ast.Expr{call}}}
							}
						}
					}
				}
			}
		}
		if len(body) != 1 {
			t.fail(s, "if statement")
		}
		rs, ok := body[0].(*ast.ReturnStmt)
		if !ok || len(rs.Results) != 1 {
			t.fail(s, "guard body")
		}
		var names []string
		var collect func(e ast.Expr)
		collect = func(e ast.Expr) {
			if b, ok := e.(*ast.BinaryExpr); ok {
				if b.Op == token.LOR {
					collect(b.X)
					collect(b.Y)
					return
				}
				if b.Op == token.EQL {
					if id, ok := b.X.(*ast.Ident); ok {
						if nl, ok := b.Y.(*ast.Ident); ok && nl.Name == "nil" {
							if p, ok := t.pmap[id.Name]; ok && p.isPtr {
								names = append(names, id.Name)
								return
							}
						}
					}
				}
			}
			t.fail(s, "guard condition")
		}
		collect(x.Cond)
		for _, n := range names {
			t.optional[n] = true
		}
		t.guards = append(t.guards, apiGuard{names: names, ret: rs.Results[0]})
	case *ast.ReturnStmt:
		if len(x.Results) == 0 {
			return
		}
		if t.api && len(x.Results) == 1 {
			if t.apiReturn(x.Results[0], s) {
				return
			}
		}
		if len(x.Results) != 1 {
			t.fail(s, "return arity")
		}
		if id, ok := x.Results[0].(*ast.Ident); ok {
			if p, ok := t.pmap[id.Name]; ok && p.isPtr {
				return // `return e`: the (written) receiver itself
			}
		}
		t.ret = t.expr(x.Results[0])
	default:
		t.fail(s, fmt.Sprintf("statement %T", s))
	}
}

// locOf resolves an argument that denotes a memory location: `&x`, `&x.E`, `(*[4]uint64)(&x.E)`, `p` (pointer
// parameter), `(*[4]uint64)(p)`. Returns the base name (a parameter, local array or local scalar) or "".
func (t *fiatTr) locOf(e ast.Expr) string {
	switch x := e.(type) {
	case *ast.ParenExpr:
		return t.locOf(x.X)
	case *ast.UnaryExpr:
		if x.Op == token.AND {
			if id := t.baseIdent(x.X); id != nil {
				return id.Name
			}
		}
	case *ast.CallExpr: // conversion (*[4]uint64)(…)
		if len(x.Args) == 1 {
			if pe, ok := x.Fun.(*ast.ParenExpr); ok {
				if _, ok := pe.X.(*ast.StarExpr); ok {
					return t.locOf(x.Args[0])
				}
			}
		}
	case *ast.Ident:
		if p, ok := t.pmap[x.Name]; ok && p.isPtr {
			return x.Name
		}
		if base, ok := t.ptrAlias[x.Name]; ok {
			return base
		}
	}
	return ""
}

// arrayValue is the current content of the n-limb location `base` as a Lean term
func (t *fiatTr) arrayValue(base string, n int, node ast.Node) string {
	if p, ok := t.pmap[base]; ok && p.isPtr && t.firstW != "" && t.firstW != base {
		t.fail(node, "read of pointer parameter "+base+" after write to "+t.firstW+" (aliasing-unsafe)")
	}
	var ls []string
	same := true
	for j := 0; j < n; j++ {
		key := fmt.Sprintf("%s[%d]", base, j)
		v, ok := t.cur[key]
		if !ok {
			if _, isArr := t.arrays[base]; isArr {
				v = "0"
			} else {
				t.fail(node, "unknown location "+key)
			}
		}
		if v != fmt.Sprintf("%s.l%d", base, j) {
			same = false
		}
		ls = append(ls, v)
	}
	if same {
		return base
	}
	return "⟨" + strings.Join(ls, ", ") + "⟩"
}

// callStmt: `F(a0, a1, …)` where F is an already translated function of the same package. Inputs are read first
// (the callee itself refuses reads after its first write), then every written pointer parameter of F is rebound.
func (t *fiatTr) callStmt(call *ast.CallExpr, sg *fiatSig, node ast.Node) {
	t.invoke(sg.lean, sg, call.Args, node, true)
}

// arrayArg: an n-limb argument as a Lean term: a location, or (API mode) a constant such as `scalar.One()`
func (t *fiatTr) arrayArg(e ast.Expr, n int, node ast.Node) string {
	if base := t.locOf(e); base != "" {
		return t.arrayValue(base, n, node)
	}
	if c, ok := e.(*ast.CallExpr); ok && len(c.Args) == 0 {
		if sel, ok := c.Fun.(*ast.SelectorExpr); ok {
			if pk, ok := sel.X.(*ast.Ident); ok && t.qual[pk.Name] != "" {
				return t.qual[pk.Name] + "." + lname(sel.Sel.Name) + "Const"
			}
		}
	}
	t.fail(node, "array argument is not a location")
	return ""
}

// invoke emits a call of a translated function. With bind=true the written pointer parameters are rebound and ""
// is returned; with bind=false the callee must be pure (no written parameter) and the Lean term is returned.
func (t *fiatTr) invoke(lean string, sg *fiatSig, callArgs []ast.Expr, node ast.Node, bind bool) string {
	call := struct{ Args []ast.Expr }{callArgs}
	if len(call.Args) != len(sg.params) {
		t.fail(node, "call arity")
	}
	var ins []string
	for i, p := range sg.params {
		if !sg.input[i] {
			continue
		}
		if (p.isPtr || p.arrayVal) && p.n > 0 {
			ins = append(ins, atom(t.arrayArg(call.Args[i], p.n, node)))
		} else if p.isPtr {
			base := t.locOf(call.Args[i])
			if base == "" {
				t.fail(node, "scalar pointer argument")
			}
			if v, ok := t.cur["*"+base]; ok {
				ins = append(ins, atom(v))
			} else {
				ins = append(ins, atom(t.cur[base]))
			}
		} else {
			ins = append(ins, atom(t.expr(call.Args[i])))
		}
	}
	term := strings.TrimSpace(lean + " " + strings.Join(ins, " "))
	if !bind {
		for i := range sg.params {
			if sg.output[i] {
				t.fail(node, "call with side effects used as an expression")
			}
		}
		return term
	}
	t.np++
	r := fmt.Sprintf("c%d", t.np)
	t.emit(r, term)
	nout := 0
	for i := range sg.params {
		if sg.output[i] {
			nout++
		}
	}
	if sg.ret {
		nout++ // the return value of a call statement is discarded, but it is a component of the tuple
	}
	k := 0
	comp := func() string {
		defer func() { k++ }()
		if nout == 1 {
			return r
		}
		s := r
		for j := 0; j < k; j++ {
			s += ".2"
		}
		if k < nout-1 {
			s += ".1"
		}
		return s
	}
	for i, p := range sg.params {
		if !sg.output[i] {
			continue
		}
		val := comp()
		base := t.locOf(call.Args[i])
		if base == "" {
			t.fail(node, "output argument is not a location")
		}
		if p.n > 0 {
			if q, ok := t.pmap[base]; ok && q.isPtr {
				if t.firstW == "" {
					t.firstW = base
				}
				t.written[base] = true
			} else if _, ok := t.arrays[base]; !ok {
				t.fail(node, "output into unknown array "+base)
			}
			for j := 0; j < p.n; j++ {
				t.cur[fmt.Sprintf("%s[%d]", base, j)] = fmt.Sprintf("%s.l%d", atom(val), j)
			}
		} else {
			if q, ok := t.pmap[base]; ok && q.isPtr {
				if t.firstW == "" {
					t.firstW = base
				}
				t.written[base] = true
				t.cur["*"+base] = val
			} else {
				t.cur[base] = val
			}
		}
	}
	return ""
}

// translateFiat emits one Lean definition for fn.
func translateFiat(fset *token.FileSet, pkg string, fn *ast.FuncDecl, helpers map[string]bool, consts map[string][]string) string {
	return translateFiatAs(fset, pkg, fn, helpers, consts, lname(fn.Name.Name))
}

func translateFiatAs(fset *token.FileSet, pkg string, fn *ast.FuncDecl, helpers map[string]bool, consts map[string][]string, leanName string) string {
	return translateWith(fset, pkg, fn, helpers, consts, leanName, nil)
}

// apiCtx switches the translator to API mode (methods of the root package)
type apiCtx struct {
	qual    map[string]string
	methods map[string]*fiatSig
	recv    string
}

func translateWith(fset *token.FileSet, pkg string, fn *ast.FuncDecl, helpers map[string]bool, consts map[string][]string, leanName string, api *apiCtx) string {
	t := &fiatTr{optional: map[string]bool{}, fset: fset, pkg: pkg, fname: fn.Name.Name, pmap: map[string]*fiatParam{}, cur: map[string]string{},
		written: map[string]bool{}, helpers: helpers, consts: map[string][]string{}, arrays: map[string]int{}}
	for k, v := range consts {
		t.consts[k] = v
	}
	if api != nil {
		t.api, t.qual, t.methods = true, api.qual, api.methods
		if fn.Type.Results != nil && len(fn.Type.Results.List) == 1 {
			switch ty := fn.Type.Results.List[0].Type.(type) {
			case *ast.Ident:
				t.retKind = map[string]string{"int": "nat", "uint64": "nat", "bool": "bool", "error": "error"}[ty.Name]
			}
		}
	}
	arrLen := func(e ast.Expr) (int, bool) {
		switch y := e.(type) {
		case *ast.ArrayType:
			n, err := strconv.Atoi(y.Len.(*ast.BasicLit).Value)
			return n, err == nil
		case *ast.Ident:
			switch y.Name {
			case "MontgomeryDomainFieldElement", "NonMontgomeryDomainFieldElement", "Element", "Scalar":
				return 4, true
			}
		case *ast.SelectorExpr:
			switch y.Sel.Name {
			case "MontgomeryDomainFieldElement", "NonMontgomeryDomainFieldElement":
				return 4, true
			}
		}
		return 0, false
	}
	var sig []string
	plist := fn.Type.Params.List
	if fn.Recv != nil {
		plist = append(append([]*ast.Field{}, fn.Recv.List...), plist...)
	}
	for _, f := range plist {
		for _, nm := range f.Names {
			p := fiatParam{name: nm.Name}
			switch ty := f.Type.(type) {
			case *ast.StarExpr:
				p.isPtr = true
				if n, ok := arrLen(ty.X); ok {
					p.n = n
					if id, ok := ty.X.(*ast.Ident); ok && (id.Name == "Element" || id.Name == "Scalar") {
						p.wrapped = true
					}
				} else if id, ok := ty.X.(*ast.Ident); ok && id.Name == "uint64" {
					p.n = 0
				} else {
					t.fail(f, "parameter type")
				}
			case *ast.Ident:
				if ty.Name != "uint64" && ty.Name != "uint1" {
					if n, ok := arrLen(ty); ok {
						p.n = n
						p.arrayVal = true
					} else {
						t.fail(f, "parameter type "+ty.Name)
					}
				}
			default:
				t.fail(f, "parameter type")
			}
			t.params = append(t.params, p)
		}
	}
	for i := range t.params {
		p := &t.params[i]
		t.pmap[p.name] = p
		switch {
		case (p.isPtr || p.arrayVal) && p.n > 0:
			sig = append(sig, fmt.Sprintf("(%s : L%d)", p.name, p.n))
			for j := 0; j < p.n; j++ {
				t.cur[fmt.Sprintf("%s[%d]", p.name, j)] = fmt.Sprintf("%s.l%d", p.name, j)
			}
		case p.isPtr:
			// *uint64 out parameter: initial content irrelevant unless read
			sig = append(sig, fmt.Sprintf("(%s : Nat)", p.name))
			t.cur["*"+p.name] = p.name
		default:
			sig = append(sig, fmt.Sprintf("(%s : Nat)", p.name))
			t.cur[p.name] = p.name
			t.cur["#"+p.name] = "1"
		}
	}
	body := fn.Body.List
	if t.api {
		body = normaliseGuard(body)
	}
	for _, s := range body {
		t.stmt(s)
	}
	// outputs: written pointer params (in parameter order), then return value
	var outs, tys []string
	for _, p := range t.params {
		if !p.isPtr || !t.written[p.name] {
			continue
		}
		if p.n == 0 {
			outs = append(outs, t.cur["*"+p.name])
			tys = append(tys, "Nat")
		} else {
			var ls []string
			for j := 0; j < p.n; j++ {
				ls = append(ls, t.cur[fmt.Sprintf("%s[%d]", p.name, j)])
			}
			outs = append(outs, "⟨"+strings.Join(ls, ", ")+"⟩")
			tys = append(tys, fmt.Sprintf("L%d", p.n))
		}
	}
	if t.ret != "" {
		outs = append(outs, t.ret)
		tys = append(tys, map[string]string{"": "Nat", "nat": "Nat", "bool": "Bool", "error": "Option String"}[t.retKind])
	}
	if len(outs) == 0 {
		t.fail(fn, "function has no output")
	}
	// drop pointer params that are never read and only written (pure outputs) from the signature
	var sig2 []string
	fs := &fiatSig{lean: leanName, ret: t.ret != ""}
	for i, p := range t.params {
		fs.params = append(fs.params, p)
		fs.output = append(fs.output, p.isPtr && t.written[p.name])
		if p.isPtr && t.written[p.name] && !t.paramRead(p) {
			fs.input = append(fs.input, false)
			continue
		}
		fs.input = append(fs.input, true)
		sig2 = append(sig2, sig[i])
	}
	if fn.Recv == nil {
		if fiatSigs[pkg] == nil {
			fiatSigs[pkg] = map[string]*fiatSig{}
		}
		fiatSigs[pkg][fn.Name.Name] = fs
	}
	if api != nil {
		key := fn.Name.Name
		if fn.Recv != nil {
			key = api.recv + "." + key
		}
		api.methods[key] = fs
	}
	for i := range sig2 {
		for n := range t.optional {
			if strings.HasPrefix(sig2[i], "("+n+" : L") {
				sig2[i] = "(" + n + " : Option " + sig2[i][len(n)+4:]
			}
		}
	}
	var b strings.Builder
	fmt.Fprintf(&b, "def %s %s : %s :=\n", leanName, strings.Join(sig2, " "), strings.Join(tys, " × "))
	if len(t.guards) > 1 {
		t.fail(fn, "more than one nil guard")
	}
	if len(t.guards) == 1 {
		g := t.guards[0]
		early := t.earlyValue(g, fn)
		var somes, wild []string
		for _, n := range g.names {
			somes = append(somes, "some "+n)
			wild = append(wild, "_")
		}
		fmt.Fprintf(&b, "  match %s with\n  | %s =>\n", strings.Join(g.names, ", "), strings.Join(somes, ", "))
		for _, l := range t.lines {
			b.WriteString("  " + l + "\n")
		}
		if len(outs) == 1 {
			b.WriteString("    " + outs[0] + "\n")
		} else {
			b.WriteString("    (" + strings.Join(outs, ", ") + ")\n")
		}
		fmt.Fprintf(&b, "  | %s => %s\n", strings.Join(wild, ", "), early)
		return b.String()
	}
	for _, l := range t.lines {
		b.WriteString(l + "\n")
	}
	if len(outs) == 1 {
		b.WriteString("  " + outs[0] + "\n")
	} else {
		b.WriteString("  (" + strings.Join(outs, ", ") + ")\n")
	}
	return b.String()
}

// paramRead reports whether the initial content of pointer param p can reach any emitted line or output.
func (t *fiatTr) paramRead(p fiatParam) bool {
	if len(t.guards) > 0 && p.isPtr && p.n > 0 {
		return true // the early branch of a nil guard returns the parameter as it was
	}
	pat := p.name + ".l"
	if p.n == 0 {
		pat = p.name
	}
	for _, l := range t.lines {
		rhs := l[strings.Index(l, ":=")+2:]
		for _, tok := range strings.FieldsFunc(rhs, func(r rune) bool { return r == ' ' || r == '(' || r == ')' }) {
			if p.n == 0 && tok == pat {
				return true
			}
			if p.n > 0 && (strings.HasPrefix(tok, pat) || tok == p.name) {
				return true
			}
		}
	}
	// an unwritten limb of a partially written array flows to the output
	for j := 0; j < p.n; j++ {
		if t.cur[fmt.Sprintf("%s[%d]", p.name, j)] == fmt.Sprintf("%s.l%d", p.name, j) {
			return true
		}
	}
	return false
}

func sortedKeys(m map[string]bool) []string {
	var ks []string
	for k := range m {
		ks = append(ks, k)
	}
	sort.Strings(ks)
	return ks
}

// normaliseGuard rewrites the positive form of a nil guard, `if x != nil { S }; return r`, into the form the API
// mode understands, `if x == nil { return r }; S; return r` (same behaviour: S runs exactly when x is not nil).
func normaliseGuard(body []ast.Stmt) []ast.Stmt {
	if len(body) < 2 {
		return body
	}
	last, ok := body[len(body)-1].(*ast.ReturnStmt)
	if !ok || len(last.Results) != 1 {
		return body
	}
	ifs, ok := body[len(body)-2].(*ast.IfStmt)
	if !ok || ifs.Init != nil || ifs.Else != nil {
		return body
	}
	be, ok := ifs.Cond.(*ast.BinaryExpr)
	if !ok || be.Op != token.NEQ {
		return body
	}
	if nl, ok := be.Y.(*ast.Ident); !ok || nl.Name != "nil" {
		return body
	}
	guard := &ast.IfStmt{If: ifs.If, Cond: &ast.BinaryExpr{X: be.X, OpPos: be.OpPos, Op: token.EQL, Y: be.Y},
		Body: &ast.BlockStmt{Lbrace: ifs.Body.Lbrace, List: []ast.Stmt{last}, Rbrace: ifs.Body.Rbrace}}
	out := append([]ast.Stmt{}, body[:len(body)-2]...)
	out = append(out, guard)
	out = append(out, ifs.Body.List...)
	return append(out, last)
}
