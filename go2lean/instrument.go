package main

// -instrument <dst>: write a copy of the module into <dst> in which every function of the two internal packages
// records its entry (function-entry granularity is the granularity of property C19). Used only for the C19
// correspondence; the copy lives in a scratch directory and is removed after the run.

import (
	"bytes"
	"fmt"
	"go/ast"
	"go/parser"
	"go/printer"
	"go/token"
	"io/fs"
	"os"
	"path/filepath"
	"strings"
)

func instrument(repo, dst string) {
	err := filepath.WalkDir(repo, func(path string, d fs.DirEntry, err error) error {
		if err != nil {
			return err
		}
		rel, _ := filepath.Rel(repo, path)
		if d.IsDir() {
			if d.Name() == ".git" || d.Name() == ".github" || rel == "tests" {
				return filepath.SkipDir
			}
			return os.MkdirAll(filepath.Join(dst, rel), 0o755)
		}
		if !(strings.HasSuffix(path, ".go") || d.Name() == "go.mod" || d.Name() == "go.sum") || strings.HasSuffix(path, "_test.go") {
			return nil
		}
		data, err := os.ReadFile(path)
		if err != nil {
			return err
		}
		dir := filepath.Dir(rel)
		if dir == "internal/field" || dir == "internal/scalar" {
			data = instrumentFile(path, data, filepath.Base(dir))
		}
		return os.WriteFile(filepath.Join(dst, rel), data, 0o644)
	})
	if err != nil {
		fatal("instrument: %v", err)
	}
	vt := filepath.Join(dst, "internal", "vtrace")
	os.MkdirAll(vt, 0o755)
	os.WriteFile(filepath.Join(vt, "vtrace.go"), []byte(`// Package vtrace records function entries (verification scratch copy only).
package vtrace

var (
	On  bool
	Log []string
)

func T(s string) {
	if On {
		Log = append(Log, s)
	}
}
`), 0o644)
}

func instrumentFile(path string, data []byte, pkg string) []byte {
	fset := token.NewFileSet()
	f, err := parser.ParseFile(fset, path, data, parser.ParseComments)
	if err != nil {
		fatal("instrument %s: %v", path, err)
	}
	n := 0
	for _, d := range f.Decls {
		fd, ok := d.(*ast.FuncDecl)
		if !ok || fd.Body == nil {
			continue
		}
		name := pkg + "." + fd.Name.Name
		if fd.Recv != nil && len(fd.Recv.List) == 1 {
			switch r := fd.Recv.List[0].Type.(type) {
			case *ast.StarExpr:
				name = fmt.Sprintf("(*%s.%s).%s", pkg, typeName(r.X), fd.Name.Name)
			default:
				name = fmt.Sprintf("(%s.%s).%s", pkg, typeName(r), fd.Name.Name)
			}
		}
		call := &ast.ExprStmt{X: &ast.CallExpr{
			Fun:  &ast.SelectorExpr{X: ast.NewIdent("vtrace"), Sel: ast.NewIdent("T")},
			Args: []ast.Expr{&ast.BasicLit{Kind: token.STRING, Value: fmt.Sprintf("%q", name)}},
		}}
		fd.Body.List = append([]ast.Stmt{call}, fd.Body.List...)
		n++
	}
	if n == 0 {
		return data
	}
	var buf bytes.Buffer
	if err := printer.Fprint(&buf, fset, f); err != nil {
		fatal("instrument print %s: %v", path, err)
	}
	// add the import textually after the package clause (keeps existing import blocks untouched)
	src := buf.String()
	idx := strings.Index(src, "\npackage "+f.Name.Name)
	if idx < 0 {
		if strings.HasPrefix(src, "package "+f.Name.Name) {
			idx = -1
		} else {
			fatal("instrument %s: package clause not found", path)
		}
	}
	eol := strings.Index(src[idx+1:], "\n") + idx + 1
	src = src[:eol+1] + "\nimport \"" + modPath + "/internal/vtrace\"\n" + src[eol+1:]
	return []byte(src)
}
