package main

// Decoder mode (on top of the cell translator): the point decoders of element.go. What is new compared with the API
// mode: byte-string parameters and expressions over them (len, index, re-slicing, conversion to a fixed array), named
// integer constants, comparisons as propositions, and *control flow in tail position*: any number of `if … { return … }`
// guards (with or without an init statement), a `switch` on an integer whose clauses all return, and `return f(…)` of
// another method of the package, whose body is then translated in place. The result of a decoder is the pair
// (error, receiver afterwards); the receiver component of an early return is the content of the receiver's cells *at that
// point*, so a decoder that scribbles on its receiver before rejecting an input produces a different term.

import (
	"fmt"
	"go/ast"
	"go/token"
	"strings"
)

// pkgConsts: integer constants of the package (const blocks with literal values)
func pkgConsts(p *pkgSrc) map[string]string {
	c := map[string]string{}
	for _, f := range p.files {
		for _, d := range f.Decls {
			gd, ok := d.(*ast.GenDecl)
			if !ok || gd.Tok != token.CONST {
				continue
			}
			for _, sp := range gd.Specs {
				vs := sp.(*ast.ValueSpec)
				for i, nm := range vs.Names {
					if i < len(vs.Values) {
						if bl, ok := vs.Values[i].(*ast.BasicLit); ok {
							if v, ok := litVal(bl); ok {
								c[nm.Name] = v
							}
						}
					}
				}
			}
		}
	}
	return c
}

type cellSnap struct {
	cur   map[*cell]string
	dirty map[*cell]bool
	env   map[string]cval
}

func (t *cellTr) snapshot() cellSnap {
	s := cellSnap{map[*cell]string{}, map[*cell]bool{}, map[string]cval{}}
	for k, v := range t.cur {
		s.cur[k] = v
	}
	for k, v := range t.dirty {
		s.dirty[k] = v
	}
	for k, v := range t.env {
		s.env[k] = v
	}
	return s
}

func (t *cellTr) restore(s cellSnap) { t.cur, t.dirty, t.env = s.cur, s.dirty, s.env }

// natExpr: an integer-valued expression over byte strings and constants
func (t *cellTr) natExpr(e ast.Expr) string {
	switch x := e.(type) {
	case *ast.ParenExpr:
		return t.natExpr(x.X)
	case *ast.BasicLit:
		if v, ok := litVal(x); ok {
			return v
		}
	case *ast.Ident:
		if v, ok := t.consts[x.Name]; ok {
			return v
		}
		if v, ok := t.env[x.Name]; ok && (v.kind == "u64" || v.kind == "nat") {
			return v.expr
		}
	case *ast.CallExpr:
		if sel, ok := x.Fun.(*ast.SelectorExpr); ok {
			if pk, ok := sel.X.(*ast.Ident); ok {
				switch {
				case pk.Name == "subtle" && sel.Sel.Name == "ConstantTimeSelect" && len(x.Args) == 3:
					// subtle.ConstantTimeSelect(v, x, y): x if v == 1, y if v == 0
					return fmt.Sprintf("(if %s = 1 then %s else %s)", t.natExpr(x.Args[0]), t.natExpr(x.Args[1]), t.natExpr(x.Args[2]))
				case pk.Name == "field" && sel.Sel.Name == "IsZero" && len(x.Args) == 1:
					return "FiatField.isZero " + atom(t.natExpr(x.Args[0]))
				}
			}
		}
		if id, ok := x.Fun.(*ast.Ident); ok && len(x.Args) == 1 {
			switch id.Name {
			case "len":
				return atom(t.bytesExpr(x.Args[0])) + ".length"
			case "uint64", "int", "byte":
				return t.natExpr(x.Args[0])
			}
		}
		v := t.eval(x)
		if v.kind == "u64" || v.kind == "nat" {
			return v.expr
		}
	case *ast.IndexExpr:
		if lit, ok := x.Index.(*ast.BasicLit); ok {
			b := t.bytesExpr(x.X)
			if lit.Value == "0" {
				return "List.headD " + atom(b) + " 0"
			}
			return "List.getD " + atom(b) + " " + lit.Value + " 0"
		}
	case *ast.BinaryExpr:
		if op, ok := map[token.Token]string{token.AND: "Nat.land", token.OR: "Nat.lor", token.XOR: "Nat.xor"}[x.Op]; ok {
			return op + " " + atom(t.natExpr(x.X)) + " " + atom(t.natExpr(x.Y))
		}
	}
	t.fail(e, "integer expression")
	return ""
}

// bytesExpr: a byte-string-valued expression
func (t *cellTr) bytesExpr(e ast.Expr) string {
	switch x := e.(type) {
	case *ast.ParenExpr:
		return t.bytesExpr(x.X)
	case *ast.Ident:
		if v, ok := t.env[x.Name]; ok && v.kind == "bytes" {
			return v.expr
		}
	case *ast.SliceExpr:
		b := t.bytesExpr(x.X)
		lo := "0"
		if x.Low != nil {
			lo = t.natExpr(x.Low)
		}
		r := b
		if lo != "0" {
			r = "List.drop " + lo + " " + atom(b)
		}
		if x.High != nil {
			hi := t.natExpr(x.High)
			if lo == "0" {
				r = fmt.Sprintf("List.take %s %s", atom(hi), atom(r))
			} else {
				r = fmt.Sprintf("List.take (%s - %s) %s", hi, lo, atom(r))
			}
		}
		return r
	case *ast.CallExpr:
		// [32]byte(s): the bytes themselves
		if _, ok := x.Fun.(*ast.ArrayType); ok && len(x.Args) == 1 {
			return t.bytesExpr(x.Args[0])
		}
		if id, ok := x.Fun.(*ast.Ident); ok && id.Name == "append" && len(x.Args) == 2 {
			a := t.bytesExpr(x.Args[0])
			if x.Ellipsis != token.NoPos {
				return atom(a) + " ++ " + atom(t.bytesExpr(x.Args[1]))
			}
			return atom(a) + " ++ [" + t.natExpr(x.Args[1]) + "]"
		}
		if sel, ok := x.Fun.(*ast.SelectorExpr); ok && sel.Sel.Name == "Bytes" && len(x.Args) == 0 {
			return "B.bytes " + atom(t.val(sel.X))
		}
		if v := t.eval(x); v.kind == "bytes" {
			return v.expr
		}
	case *ast.UnaryExpr:
		if x.Op == token.AND {
			return t.bytesExpr(x.X)
		}
	}
	t.fail(e, "byte-string expression")
	return ""
}

// cond: a condition as a Lean proposition
func (t *cellTr) cond(e ast.Expr) string {
	switch x := e.(type) {
	case *ast.ParenExpr:
		return "(" + t.cond(x.X) + ")"
	case *ast.BinaryExpr:
		switch x.Op {
		case token.LAND:
			return t.cond(x.X) + " ∧ " + t.cond(x.Y)
		case token.LOR:
			return t.cond(x.X) + " ∨ " + t.cond(x.Y)
		case token.NEQ:
			return t.natExpr(x.X) + " ≠ " + t.natExpr(x.Y)
		case token.EQL:
			return t.natExpr(x.X) + " = " + t.natExpr(x.Y)
		}
	}
	t.fail(e, "condition")
	return ""
}

// recvTriple: the current content of the top-level receiver
func (t *cellTr) recvTriple() string {
	g := t.topElems[t.recvName]
	return fmt.Sprintf("⟨%s, %s, %s⟩", t.cur[g.xyz[0]], t.cur[g.xyz[1]], t.cur[g.xyz[2]])
}

func indentLines(s, pad string) string {
	ls := strings.Split(s, "\n")
	for i := range ls {
		if ls[i] != "" {
			ls[i] = pad + ls[i]
		}
	}
	return strings.Join(ls, "\n")
}

// block translates a statement list in tail position: the Lean text of the decoder's result from here on.
func (t *cellTr) block(stmts []ast.Stmt) string {
	start := len(t.out)
	take := func() string {
		pre := strings.Join(t.out[start:], "\n")
		t.out = t.out[:start]
		if pre != "" {
			pre += "\n"
		}
		return pre
	}
	branch := func(body []ast.Stmt) string {
		s := t.snapshot()
		r := t.block(body)
		t.restore(s)
		return r
	}
	for i, s := range stmts {
		switch x := s.(type) {
		case *ast.IfStmt:
			if x.Else != nil {
				t.fail(s, "if/else in a decoder")
			}
			if x.Init != nil {
				t.stmt(x.Init)
			}
			c := t.cond(x.Cond)
			pre := take()
			thenS := branch(x.Body.List)
			rest := t.block(stmts[i+1:])
			return pre + "  if " + c + " then (\n" + indentLines(thenS, "  ") + ") else\n" + rest
		case *ast.SwitchStmt:
			if x.Init != nil || x.Tag == nil {
				t.fail(s, "switch form")
			}
			tag := t.natExpr(x.Tag)
			pre := take()
			var def []ast.Stmt
			type arm struct {
				vals []string
				body []ast.Stmt
			}
			var arms []arm
			for _, cl := range x.Body.List {
				cc := cl.(*ast.CaseClause)
				if cc.List == nil {
					def = cc.Body
					continue
				}
				var vs []string
				for _, v := range cc.List {
					vs = append(vs, t.natExpr(v))
				}
				arms = append(arms, arm{vs, cc.Body})
			}
			if def == nil {
				def = stmts[i+1:]
			} else if len(stmts[i+1:]) != 0 {
				t.fail(s, "statements after a switch with a default clause")
			}
			out := pre
			for _, a := range arms {
				var cs []string
				for _, v := range a.vals {
					cs = append(cs, tag+" = "+v)
				}
				out += "  if " + strings.Join(cs, " ∨ ") + " then (\n" + indentLines(branch(a.body), "  ") + ") else\n"
			}
			return out + branch(def)
		case *ast.ReturnStmt:
			if len(x.Results) != 1 {
				t.fail(s, "return arity")
			}
			switch r := x.Results[0].(type) {
			case *ast.Ident:
				pre := take()
				if r.Name == "nil" {
					return pre + "  (none, " + t.recvTriple() + ")"
				}
				return pre + fmt.Sprintf("  (some %q, %s)", r.Name, t.recvTriple())
			case *ast.CallExpr:
				// tail call of another decoder of the package on the same receiver
				sel, ok := r.Fun.(*ast.SelectorExpr)
				if !ok {
					t.fail(s, "return of a call")
				}
				recv := t.eval(sel.X)
				fd, ok := t.src.funcs["Element."+sel.Sel.Name]
				if !ok || recv.kind != "elem" {
					t.fail(s, "tail call of an unknown method")
				}
				var args []cval
				for _, a := range r.Args {
					args = append(args, t.decodeArg(a))
				}
				pre := take()
				saveEnv, saveName := t.env, t.fname
				t.env, t.fname = map[string]cval{}, fd.Name.Name
				t.depth++
				for _, f := range fd.Recv.List {
					for _, nm := range f.Names {
						t.env[nm.Name] = recv
					}
				}
				k := 0
				for _, f := range fd.Type.Params.List {
					for _, nm := range f.Names {
						t.env[nm.Name] = args[k]
						k++
					}
				}
				res := t.block(fd.Body.List)
				t.depth--
				t.env, t.fname = saveEnv, saveName
				return pre + res
			}
			t.fail(s, "return form")
		default:
			t.stmt(s)
		}
	}
	t.fail(ast.NewIdent("end"), "a decoder body must end with a return")
	return ""
}

// decodeArg: an argument of a tail call: a byte string or an element
func (t *cellTr) decodeArg(e ast.Expr) cval {
	if id, ok := e.(*ast.Ident); ok {
		if v, ok := t.env[id.Name]; ok && v.kind != "bytes" {
			return v
		}
	}
	return cval{kind: "bytes", expr: t.bytesExpr(e)}
}

// translateDecoder emits one Lean definition `name B F e <bytes params> : Option String × Pt α`.
func translateDecoder(p *pkgSrc, fn *ast.FuncDecl, leanName string) string {
	t := &cellTr{fset: p.fset, pkg: "root", fname: fn.Name.Name, cur: map[*cell]string{}, dirty: map[*cell]bool{}, env: map[string]cval{},
		globals: pkgGlobals(p), src: p, apiMode: true, optional: map[string]bool{}, topElems: map[string]cval{}, maybeNil: map[string]bool{},
		consts: pkgConsts(p), bytesMode: true}
	recv := fn.Recv.List[0].Names[0].Name
	t.recvName = recv
	var v cval
	v.kind = "elem"
	for i, f := range []string{"x", "y", "z"} {
		v.xyz[i] = t.newCell(recv + "." + f)
	}
	t.env[recv] = v
	t.topElems[recv] = v
	sig := fmt.Sprintf("def %s {α : Type} (B : ByteOps α) (F : FieldOps α) (%s : Pt α)", leanName, recv)
	for _, f := range fn.Type.Params.List {
		for _, nm := range f.Names {
			t.env[nm.Name] = cval{kind: "bytes", expr: nm.Name}
			sig += fmt.Sprintf(" (%s : List Nat)", nm.Name)
		}
	}
	body := t.block(fn.Body.List)
	return sig + " : Option String × Pt α :=\n" + body + "\n"
}

// encStmt: the statements of the encoders that work on byte arrays; false: not one of them
func (t *cellTr) encStmt(s ast.Stmt) bool {
	bindBytes := func(name, expr string) {
		n := t.fresh("b")
		t.emit(n, expr)
		t.env[name] = cval{kind: "bytes", expr: n}
	}
	switch x := s.(type) {
	case *ast.DeclStmt:
		gd := x.Decl.(*ast.GenDecl)
		if gd.Tok == token.VAR && len(gd.Specs) == 1 {
			vs := gd.Specs[0].(*ast.ValueSpec)
			if at, ok := vs.Type.(*ast.ArrayType); ok && len(vs.Names) == 1 && len(vs.Values) == 0 && typeName(at.Elt) == "byte" {
				t.env[vs.Names[0].Name] = cval{kind: "bytes", expr: "List.replicate " + atom(t.natExpr(at.Len)) + " 0"}
				return true
			}
		}
	case *ast.AssignStmt:
		if len(x.Lhs) != 1 || len(x.Rhs) != 1 {
			return false
		}
		// out[k] = byte(v)
		if ie, ok := x.Lhs[0].(*ast.IndexExpr); ok {
			if id, ok := ie.X.(*ast.Ident); ok {
				if v, ok := t.env[id.Name]; ok && v.kind == "bytes" {
					bindBytes(id.Name, fmt.Sprintf("List.set %s %s %s", atom(v.expr), atom(t.natExpr(ie.Index)), atom(t.natExpr(x.Rhs[0]))))
					return true
				}
			}
			return false
		}
		id, ok := x.Lhs[0].(*ast.Ident)
		if !ok {
			return false
		}
		if call, ok := x.Rhs[0].(*ast.CallExpr); ok {
			if sel, ok := call.Fun.(*ast.SelectorExpr); ok {
				if pk, ok := sel.X.(*ast.Ident); ok && pk.Name == "subtle" && sel.Sel.Name == "ConstantTimeSelect" {
					n := t.fresh("c")
					t.emit(n, t.natExpr(call))
					t.env[id.Name] = cval{kind: "u64", expr: n}
					return true
				}
			}
			if f, ok := call.Fun.(*ast.Ident); ok && f.Name == "append" {
				bindBytes(id.Name, t.bytesExpr(call))
				return true
			}
		}
	case *ast.ExprStmt:
		call, ok := x.X.(*ast.CallExpr)
		if !ok {
			return false
		}
		sel, ok := call.Fun.(*ast.SelectorExpr)
		if !ok {
			return false
		}
		if pk, ok := sel.X.(*ast.Ident); ok && pk.Name == "subtle" && sel.Sel.Name == "ConstantTimeCopy" && len(call.Args) == 3 {
			// subtle.ConstantTimeCopy(v, dst, src): dst (a window out[a:] of a local array) receives src when v == 1
			se, ok := call.Args[1].(*ast.SliceExpr)
			if !ok || se.High != nil {
				t.fail(s, "ConstantTimeCopy destination")
			}
			id, ok := se.X.(*ast.Ident)
			if !ok {
				t.fail(s, "ConstantTimeCopy destination")
			}
			v, ok := t.env[id.Name]
			if !ok || v.kind != "bytes" {
				t.fail(s, "ConstantTimeCopy destination")
			}
			lo := "0"
			if se.Low != nil {
				lo = t.natExpr(se.Low)
			}
			src := t.fresh("b")
			t.emit(src, t.bytesExpr(call.Args[2]))
			bindBytes(id.Name, fmt.Sprintf("if %s = 1 then List.take %s %s ++ %s ++ List.drop (%s + %s.length) %s else %s",
				t.natExpr(call.Args[0]), lo, atom(v.expr), src, lo, src, atom(v.expr), v.expr))
			return true
		}
	}
	return false
}

// translateEncoder emits `name B F e : List Nat` for a straight-line encoder ending in `return <bytes>`.
func translateEncoder(p *pkgSrc, fn *ast.FuncDecl, leanName string) string {
	t := &cellTr{fset: p.fset, pkg: "root", fname: fn.Name.Name, cur: map[*cell]string{}, dirty: map[*cell]bool{}, env: map[string]cval{},
		globals: pkgGlobals(p), src: p, apiMode: true, optional: map[string]bool{}, topElems: map[string]cval{}, maybeNil: map[string]bool{},
		consts: pkgConsts(p), bytesMode: true}
	recv := fn.Recv.List[0].Names[0].Name
	t.recvName = recv
	var v cval
	v.kind = "elem"
	for i, f := range []string{"x", "y", "z"} {
		v.xyz[i] = t.newCell(recv + "." + f)
	}
	t.env[recv] = v
	t.topElems[recv] = v
	res := t.encBody(fn.Body.List)
	body := strings.Join(t.out, "\n")
	if body != "" {
		body += "\n"
	}
	return fmt.Sprintf("def %s {α : Type} (B : ByteOps α) (F : FieldOps α) (%s : Pt α) : List Nat :=\n%s  %s\n", leanName, recv, body, res)
}

// encBody runs a straight-line encoder body and returns the Lean term of the returned byte string
func (t *cellTr) encBody(stmts []ast.Stmt) string {
	for _, s := range stmts {
		if rs, ok := s.(*ast.ReturnStmt); ok {
			if len(rs.Results) != 1 {
				t.fail(s, "return arity")
			}
			return t.bytesExpr(rs.Results[0])
		}
		if !t.encStmt(s) {
			t.stmt(s)
		}
	}
	t.fail(ast.NewIdent("end"), "an encoder body must end with a return")
	return ""
}

func genDecoders(root *pkgSrc, outPath string) {
	var b strings.Builder
	b.WriteString(header)
	b.WriteString("import Secp.Gen.Curve\n\n/-- the byte-level methods of `field.Element` the decoders call -/\nstructure ByteOps (α : Type) where\n  fromBytesWithReduce : List Nat → α × Nat\n  bytes : α → List Nat\n\nnamespace GenDecode\n\n")
	for _, j := range []struct{ fn, lean string }{
		{"Element.DecodeCoordinates", "decodeCoordinates"},
		{"Element.DecodeCompressed", "decodeCompressed"},
		{"Element.DecodeUncompressed", "decodeUncompressed"},
		{"Element.Decode", "decode"},
	} {
		fd, ok := root.funcs[j.fn]
		if !ok {
			fmt.Fprintf(&b, "-- NOT TRANSLATED: %s (not found)\n\n", j.fn)
			continue
		}
		func() {
			defer func() {
				if r := recover(); r != nil {
					fmt.Fprintf(&b, "-- NOT TRANSLATED: %s (%v)\n\n", j.fn, strings.ReplaceAll(fmt.Sprint(r), "\n", " "))
				}
			}()
			b.WriteString(translateDecoder(root, fd, j.lean) + "\n")
		}()
	}
	for _, j := range []struct{ fn, lean string }{
		{"Element.Encode", "encode"},
		{"Element.EncodeUncompressed", "encodeUncompressed"},
		{"Element.XCoordinate", "xCoordinate"},
	} {
		fd, ok := root.funcs[j.fn]
		if !ok {
			fmt.Fprintf(&b, "-- NOT TRANSLATED: %s (not found)\n\n", j.fn)
			continue
		}
		func() {
			defer func() {
				if r := recover(); r != nil {
					fmt.Fprintf(&b, "-- NOT TRANSLATED: %s (%v)\n\n", j.fn, strings.ReplaceAll(fmt.Sprint(r), "\n", " "))
				}
			}()
			b.WriteString(translateEncoder(root, fd, j.lean) + "\n")
		}()
	}
	b.WriteString("end GenDecode\n")
	writeIfChanged(outPath, b.String())
}
