package main

// L1/L2 translator: straight-line sequences of field-method calls through pointers
// -> Lean `let` chains generic over a record `FieldOps α`.
//
// Method: symbolic execution over *cells*. Every addressable field value (a
// `field.Element`, a coordinate of a group `Element`, the limb array behind a
// `*scalar`) is a cell; pointer-typed expressions denote cells; the walk keeps
// `cell -> current SSA name`. A call `p.Op(q, r)` reads the current names of q and r,
// emits `let vN := F.op vq vr`, and rebinds p's cell. Aliased parameters share cells,
// so a write that clobbers a still-needed input shows up as a different term.
//
// Output of a translated function: the final content of every parameter cell group
// that was written (in parameter order), then any extra returned values (a freshly
// built element, a uint64 flag). Parameters whose cells are never rebound are, by
// construction, unchanged by the function; they are listed in Facts.untouched.

import (
	"fmt"
	"go/ast"
	"go/token"
	"strings"
)

type cell struct{ id int }

type cval struct {
	kind string // "ptr" field cell | "elem" group element (3 cells) | "u64" | "multi"
	c    *cell
	xyz  [3]*cell
	expr string
	more []cval
}

type cellTr struct {
	fset    *token.FileSet
	pkg     string // "root" | "field" | "scalar"
	fname   string
	cur     map[*cell]string
	dirty   map[*cell]bool
	env     map[string]cval
	out     []string
	n       int
	ncell   int
	globals map[string]ast.Expr // package-level var initialisers
	ret     []cval
	// element-API mode: methods of *Element are inlined (aliasing is cell identity), nil guards become Option
	src       *pkgSrc
	apiMode   bool
	depth     int
	optional  map[string]bool   // top-level parameters tested against nil
	nilGuard  *cellGuard        // `if p == nil { return … }` at the top of the translated method
	ifGuard   *cellGuard        // `if <bool> { return … }` at the top of the translated method (after the lets of the condition)
	done      bool              // a return was executed in the current (inlined) body
	consts    map[string]string // integer constants of the package (decoder mode)
	bytesMode bool              // byte-string parameters and expressions are accepted (decoder mode)
	recvName  string            // name of the top-level receiver (decoder mode)
	topElems  map[string]cval   // top-level element parameters (representative of each alias class)
	maybeNil  map[string]bool   // top-level parameters that the caller may pass as nil (not yet guarded)
}

// cellGuard: an early return at the top of an API method
type cellGuard struct {
	names    []string // nil-tested parameters (nilGuard)
	cond     string   // Lean Bool term (ifGuard)
	nout     int      // number of emitted lines before the guard
	retParam string   // the top-level parameter the early return hands back
}

// topParamOf: the top-level element parameter whose cells v denotes ("" if v is some other object)
func (t *cellTr) topParamOf(v cval) string {
	if v.kind != "elem" {
		return ""
	}
	for name, g := range t.topElems {
		if g.xyz == v.xyz {
			return name
		}
	}
	return ""
}

func (t *cellTr) fresh(prefix string) string { t.n++; return fmt.Sprintf("%s%d", prefix, t.n) }
func (t *cellTr) newCell(init string) *cell {
	t.ncell++
	c := &cell{t.ncell}
	t.cur[c] = init
	return c
}
func (t *cellTr) emit(name, rhs string) {
	t.out = append(t.out, fmt.Sprintf("  let %s := %s", name, rhs))
}
func (t *cellTr) fail(n ast.Node, msg string) {
	panic(fmt.Sprintf("%s: unsupported construct in %s.%s: %s", t.fset.Position(n.Pos()), t.pkg, t.fname, msg))
}
func (t *cellTr) set(c *cell, name string) { t.cur[c] = name; t.dirty[c] = true }

var cellBin = map[string]string{"Add": "add", "Subtract": "sub", "Multiply": "mul"}
var cellUn = map[string]string{"Square": "square", "Negate": "neg"}
var xyzIdx = map[string]int{"x": 0, "y": 1, "z": 2}

// val evaluates e to the SSA name of a field value (through pointers, derefs and value selectors).
func (t *cellTr) val(e ast.Expr) string {
	v := t.eval(e)
	if v.kind != "ptr" {
		t.fail(e, "operand is not a field value")
	}
	return t.cur[v.c]
}

func (t *cellTr) u64(e ast.Expr) string {
	v := t.eval(e)
	if v.kind == "nat" {
		return v.expr
	}
	if v.kind != "u64" {
		t.fail(e, "operand is not a uint64")
	}
	return v.expr
}

func (t *cellTr) montLit(cl *ast.CompositeLit) cval {
	// field.Element{E: field.MontgomeryDomainFieldElement{a,b,c,d}} | Element{MontgomeryDomainFieldElement{...}}
	if len(cl.Elts) != 1 {
		t.fail(cl, "field element literal")
	}
	var inner *ast.CompositeLit
	switch x := cl.Elts[0].(type) {
	case *ast.KeyValueExpr:
		inner, _ = x.Value.(*ast.CompositeLit)
	case *ast.CompositeLit:
		inner = x
	}
	if inner == nil || len(inner.Elts) != 4 {
		t.fail(cl, "field element literal")
	}
	var lits []string
	for _, l := range inner.Elts {
		v, ok := constExpr(l)
		if !ok {
			t.fail(cl, "non-constant limb")
		}
		lits = append(lits, v)
	}
	name := t.fresh("k")
	t.emit(name, "F.ofMont "+strings.Join(lits, " "))
	return cval{kind: "ptr", c: t.newCell(name)}
}

func typeName(e ast.Expr) string {
	switch x := e.(type) {
	case *ast.Ident:
		return x.Name
	case *ast.SelectorExpr:
		return x.Sel.Name
	case *ast.StarExpr:
		return typeName(x.X)
	}
	return ""
}

func (t *cellTr) composite(cl *ast.CompositeLit) cval {
	tn := typeName(cl.Type)
	if _, qualified := cl.Type.(*ast.SelectorExpr); qualified && tn == "Element" {
		return t.montLit(cl)
	}
	if tn == "Element" && t.pkg == "root" {
		// Element{x: *a, y: *b, z: *c}
		var v cval
		v.kind = "elem"
		seen := 0
		for _, el := range cl.Elts {
			kv, ok := el.(*ast.KeyValueExpr)
			if !ok {
				t.fail(cl, "element literal")
			}
			idx, ok := xyzIdx[kv.Key.(*ast.Ident).Name]
			if !ok {
				t.fail(cl, "element literal field")
			}
			v.xyz[idx] = t.newCell(t.val(kv.Value))
			seen++
		}
		if seen != 3 {
			t.fail(cl, "element literal must set x, y, z")
		}
		return v
	}
	if tn == "Element" {
		return t.montLit(cl)
	}
	if tn == "MontgomeryDomainFieldElement" && len(cl.Elts) == 4 {
		// a local limb array of constants (the coordinates of the base point): only usable as the source of a copy
		var lits []string
		for _, l := range cl.Elts {
			v, ok := constExpr(l)
			if !ok {
				t.fail(cl, "non-constant limb")
			}
			lits = append(lits, v)
		}
		return cval{kind: "limbs", expr: "F.ofMont " + strings.Join(lits, " ")}
	}
	t.fail(cl, "composite literal "+tn)
	return cval{}
}

func (t *cellTr) eval(e ast.Expr) cval {
	switch x := e.(type) {
	case *ast.Ident:
		if v, ok := t.env[x.Name]; ok {
			return v
		}
		if init, ok := t.globals[x.Name]; ok {
			v := t.eval(init)
			t.env[x.Name] = v
			return v
		}
		if c, ok := t.consts[x.Name]; ok && t.bytesMode {
			return cval{kind: "u64", expr: c}
		}
		t.fail(e, "unknown identifier "+x.Name)
	case *ast.ParenExpr:
		return t.eval(x.X)
	case *ast.SelectorExpr:
		base := t.eval(x.X)
		if base.kind != "elem" {
			t.fail(e, "selector on non-element")
		}
		idx, ok := xyzIdx[x.Sel.Name]
		if !ok {
			t.fail(e, "selector "+x.Sel.Name)
		}
		return cval{kind: "ptr", c: base.xyz[idx]}
	case *ast.UnaryExpr:
		if x.Op == token.AND {
			return t.eval(x.X)
		}
		t.fail(e, "unary "+x.Op.String())
	case *ast.StarExpr:
		// *p used as a value: a copy
		v := t.eval(x.X)
		if v.kind != "ptr" {
			t.fail(e, "deref of non field pointer")
		}
		return cval{kind: "ptr", c: t.newCell(t.cur[v.c])}
	case *ast.CompositeLit:
		return t.composite(x)
	case *ast.IndexExpr:
		if t.bytesMode {
			return cval{kind: "u64", expr: t.natExpr(x)}
		}
	case *ast.SliceExpr:
		if t.bytesMode {
			return cval{kind: "bytes", expr: t.bytesExpr(x)}
		}
	case *ast.BasicLit:
		if t.bytesMode {
			if v, ok := litVal(x); ok {
				return cval{kind: "u64", expr: v}
			}
		}
	case *ast.BinaryExpr:
		if t.apiMode && (x.Op == token.NEQ || x.Op == token.EQL) {
			if lit, ok := x.Y.(*ast.BasicLit); ok {
				rel := map[token.Token]string{token.NEQ: "!=", token.EQL: "=="}[x.Op]
				return cval{kind: "bool", expr: fmt.Sprintf("(%s %s %s)", t.u64(x.X), rel, lit.Value)}
			}
		}
		op := map[token.Token]string{token.AND: "Nat.land", token.OR: "Nat.lor", token.XOR: "Nat.xor"}[x.Op]
		if op == "" {
			t.fail(e, "binary "+x.Op.String())
		}
		n := t.fresh("c")
		t.emit(n, fmt.Sprintf("%s %s %s", op, atom(t.u64(x.X)), atom(t.u64(x.Y))))
		return cval{kind: "u64", expr: n}
	case *ast.CallExpr:
		return t.call(x)
	}
	t.fail(e, fmt.Sprintf("expression %T", e))
	return cval{}
}

func (t *cellTr) call(x *ast.CallExpr) cval {
	// package-level constructors and helpers
	fname := ""
	switch f := x.Fun.(type) {
	case *ast.Ident:
		fname = f.Name
	case *ast.SelectorExpr:
		if id, ok := f.X.(*ast.Ident); ok && id.Name == "field" {
			fname = f.Sel.Name
		}
	}
	switch fname {
	case "copy":
		// copy(p.E[:], k[:]) with k a local array of four constant limbs: p becomes that constant
		if len(x.Args) == 2 {
			ds, ok1 := x.Args[0].(*ast.SliceExpr)
			ss, ok2 := x.Args[1].(*ast.SliceExpr)
			if ok1 && ok2 && ds.Low == nil && ds.High == nil && ss.Low == nil && ss.High == nil {
				if sel, ok := ds.X.(*ast.SelectorExpr); ok && sel.Sel.Name == "E" {
					dst := t.eval(sel.X)
					src := t.eval(ss.X)
					if dst.kind == "ptr" && src.kind == "limbs" {
						n := t.fresh("k")
						t.emit(n, src.expr)
						t.set(dst.c, n)
						return cval{kind: "unit"}
					}
				}
			}
		}
		t.fail(x, "copy")
	case "New", "newScalar":
		if len(x.Args) != 0 {
			t.fail(x, "New arity")
		}
		return cval{kind: "ptr", c: t.newCell("F.zero")}
	case "newEmptyElement":
		var v cval
		v.kind = "elem"
		for i := range v.xyz {
			v.xyz[i] = t.newCell("F.zero")
		}
		return v
	case "newElement":
		if t.apiMode {
			if fd, ok := t.src.funcs["newElement"]; ok {
				return t.inline(fd, nil, nil, x)
			}
		}
		t.fail(x, "call to newElement")
	case "int", "uint64":
		// conversions between integer types: the values converted here are 0/1 flags
		if len(x.Args) != 1 {
			t.fail(x, "conversion arity")
		}
		return cval{kind: "u64", expr: t.u64(x.Args[0])}
	case "IsEqual":
		n := t.fresh("c")
		t.emit(n, fmt.Sprintf("FiatField.isEqual %s %s", t.u64(x.Args[0]), t.u64(x.Args[1])))
		return cval{kind: "u64", expr: n}
	}
	if fname != "" && t.bytesMode {
		// a function of the package without receiver (Secp256Polynomial): inlined on the caller's cells
		if _, isSel := x.Fun.(*ast.SelectorExpr); !isSel {
			if fd, ok := t.src.funcs[fname]; ok && fd.Recv == nil {
				var as []cval
				for _, a := range x.Args {
					as = append(as, t.eval(a))
				}
				return t.inline(fd, nil, as, x)
			}
		}
	}
	if fname != "" {
		t.fail(x, "call to "+fname)
	}
	sel, ok := x.Fun.(*ast.SelectorExpr)
	if !ok {
		t.fail(x, "call")
	}
	recv := t.eval(sel.X)
	m := sel.Sel.Name
	if recv.kind == "elem" && t.apiMode {
		fd, ok := t.src.funcs["Element."+m]
		if !ok {
			t.fail(x, "unknown method Element."+m)
		}
		var args []cval
		for _, a := range x.Args {
			args = append(args, t.eval(a))
		}
		return t.inline(fd, &recv, args, x)
	}
	if recv.kind != "ptr" {
		t.fail(x, "method "+m+" on non field value")
	}
	args := func(n int) {
		if len(x.Args) != n {
			t.fail(x, fmt.Sprintf("%s expects %d arguments", m, n))
		}
	}
	if op, ok := cellBin[m]; ok {
		args(2)
		a, b := t.val(x.Args[0]), t.val(x.Args[1])
		n := t.fresh("v")
		t.emit(n, fmt.Sprintf("F.%s %s %s", op, a, b))
		t.set(recv.c, n)
		return recv
	}
	if op, ok := cellUn[m]; ok {
		args(1)
		n := t.fresh("v")
		t.emit(n, fmt.Sprintf("F.%s %s", op, t.val(x.Args[0])))
		t.set(recv.c, n)
		return recv
	}
	switch m {
	case "Set":
		args(1)
		t.set(recv.c, t.val(x.Args[0]))
		return recv
	case "One":
		args(0)
		t.set(recv.c, "F.one")
		return recv
	case "Invert":
		args(1)
		n := t.fresh("v")
		if t.pkg == "scalar" {
			t.fail(x, "nested scalar Invert")
		}
		t.emit(n, "FieldChains.invert F "+t.val(x.Args[0]))
		t.set(recv.c, n)
		return recv
	case "expPMin3Div4":
		args(1)
		n := t.fresh("v")
		t.emit(n, "FieldChains.expPMin3Div4 F "+t.val(x.Args[0]))
		t.set(recv.c, n)
		return recv
	case "CMove":
		args(3)
		c := t.u64(x.Args[0])
		a, b := t.val(x.Args[1]), t.val(x.Args[2])
		n := t.fresh("v")
		t.emit(n, fmt.Sprintf("F.cmove %s %s %s", c, a, b))
		t.set(recv.c, n)
		return recv
	case "IsZero", "Sgn0":
		args(0)
		n := t.fresh("c")
		t.emit(n, fmt.Sprintf("F.%s %s", lname(m), t.cur[recv.c]))
		return cval{kind: "u64", expr: n}
	case "Equals":
		args(1)
		n := t.fresh("c")
		t.emit(n, fmt.Sprintf("F.equals %s %s", t.cur[recv.c], t.val(x.Args[0])))
		return cval{kind: "u64", expr: n}
	case "FromBytesWithReduce":
		if !t.bytesMode {
			t.fail(x, "FromBytesWithReduce outside decoder mode")
		}
		args(1)
		p := t.fresh("p")
		t.emit(p, "B.fromBytesWithReduce "+atom(t.bytesExpr(x.Args[0])))
		t.set(recv.c, p+".1")
		return cval{kind: "multi", more: []cval{recv, {kind: "u64", expr: p + ".2"}}}
	case "SqrtRatio":
		args(2)
		a, b := t.val(x.Args[0]), t.val(x.Args[1])
		p := t.fresh("p")
		t.emit(p, fmt.Sprintf("FieldChains.sqrtRatio F %s %s", a, b))
		t.set(recv.c, p+".1")
		return cval{kind: "multi", more: []cval{recv, {kind: "u64", expr: p + ".2"}}}
	}
	t.fail(x, "method "+m)
	return cval{}
}

// inline executes the body of another method of the package on the caller's cells: parameters are bound to the
// caller's objects, so aliasing between receiver and arguments is simply cell identity.
func (t *cellTr) inline(fd *ast.FuncDecl, recv *cval, args []cval, node ast.Node) cval {
	if t.depth > 6 {
		t.fail(node, "inlining too deep")
	}
	saveEnv, saveRet, saveName := t.env, t.ret, t.fname
	t.env, t.ret, t.fname = map[string]cval{}, nil, fd.Name.Name
	t.depth++
	if fd.Recv != nil {
		if recv == nil {
			t.fail(node, "method without receiver object")
		}
		for _, f := range fd.Recv.List {
			for _, nm := range f.Names {
				t.env[nm.Name] = *recv
			}
		}
	}
	i := 0
	for _, f := range fd.Type.Params.List {
		for _, nm := range f.Names {
			if i >= len(args) {
				t.fail(node, "inline arity")
			}
			t.env[nm.Name] = args[i]
			i++
		}
	}
	if i != len(args) {
		t.fail(node, "inline arity")
	}
	for _, s := range fd.Body.List {
		if t.bytesMode && t.encStmt(s) {
			continue
		}
		if t.stmt(s) {
			break
		}
	}
	var res cval
	if len(t.ret) == 1 {
		res = t.ret[0]
	} else if len(t.ret) > 1 {
		res = cval{kind: "multi", more: t.ret}
	}
	t.depth--
	t.env, t.ret, t.fname = saveEnv, saveRet, saveName
	return res
}

func (t *cellTr) bind(name string, v cval) {
	if name == "_" {
		return
	}
	t.env[name] = v
}

func (t *cellTr) stmt(s ast.Stmt) bool {
	switch x := s.(type) {
	case *ast.ExprStmt:
		t.eval(x.X)
	case *ast.AssignStmt:
		if len(x.Lhs) == 2 && len(x.Rhs) == 1 {
			v := t.eval(x.Rhs[0])
			if v.kind != "multi" || len(v.more) != 2 {
				t.fail(s, "2-value assignment")
			}
			for i, l := range x.Lhs {
				t.bind(l.(*ast.Ident).Name, v.more[i])
			}
			return false
		}
		if len(x.Lhs) != 1 || len(x.Rhs) != 1 {
			t.fail(s, "assignment arity")
		}
		id, ok := x.Lhs[0].(*ast.Ident)
		if !ok {
			t.fail(s, "assignment target")
		}
		switch x.Tok {
		case token.DEFINE, token.ASSIGN:
			v := t.eval(x.Rhs[0])
			if v.kind == "multi" {
				t.fail(s, "multi-value in single assignment")
			}
			if old, ok := t.env[id.Name]; ok && x.Tok == token.ASSIGN && old.kind != v.kind {
				t.fail(s, "assignment changes kind")
			}
			t.bind(id.Name, v)
		case token.OR_ASSIGN, token.AND_ASSIGN, token.XOR_ASSIGN:
			op := map[token.Token]string{token.OR_ASSIGN: "Nat.lor", token.AND_ASSIGN: "Nat.land", token.XOR_ASSIGN: "Nat.xor"}[x.Tok]
			n := t.fresh("c")
			t.emit(n, fmt.Sprintf("%s %s %s", op, t.u64(id), t.u64(x.Rhs[0])))
			t.bind(id.Name, cval{kind: "u64", expr: n})
		default:
			t.fail(s, "assignment operator")
		}
	case *ast.DeclStmt:
		gd := x.Decl.(*ast.GenDecl)
		if gd.Tok != token.VAR {
			t.fail(s, "declaration")
		}
		for _, sp := range gd.Specs {
			vs := sp.(*ast.ValueSpec)
			for i, nm := range vs.Names {
				if len(vs.Values) > i {
					t.bind(nm.Name, t.eval(vs.Values[i]))
				} else if typeName(vs.Type) == "Element" {
					t.bind(nm.Name, cval{kind: "ptr", c: t.newCell("F.zero")})
				} else {
					t.fail(s, "var of type "+typeName(vs.Type))
				}
			}
		}
	case *ast.ForStmt:
		// for s := a; s < b; s++ { z.Square(z) }  ->  z := sqn F (b-a) z
		a, b, ok := countedLoop(x)
		if !ok || len(x.Body.List) != 1 {
			t.fail(s, "loop shape")
		}
		es, ok := x.Body.List[0].(*ast.ExprStmt)
		if !ok {
			t.fail(s, "loop body")
		}
		call, ok := es.X.(*ast.CallExpr)
		if !ok {
			t.fail(s, "loop body")
		}
		sel, ok := call.Fun.(*ast.SelectorExpr)
		if !ok || sel.Sel.Name != "Square" || len(call.Args) != 1 {
			t.fail(s, "loop body is not a squaring")
		}
		// the loop variable may shadow an outer name (addchain emits `for s := ...` inside method on s)
		lv := x.Init.(*ast.AssignStmt).Lhs[0].(*ast.Ident).Name
		if refersTo(sel.X, lv) || refersTo(call.Args[0], lv) {
			t.fail(s, "loop body uses the loop variable")
		}
		r, arg := t.eval(sel.X), t.eval(call.Args[0])
		if r.kind != "ptr" || arg.kind != "ptr" || r.c != arg.c {
			t.fail(s, "loop body is not z.Square(z)")
		}
		if b > a {
			n := t.fresh("v")
			t.emit(n, fmt.Sprintf("FieldOps.sqn F %d %s", b-a, t.cur[r.c]))
			t.set(r.c, n)
		}
	case *ast.IfStmt:
		if !t.apiMode || x.Init != nil || x.Else != nil || len(x.Body.List) != 1 {
			t.fail(s, "if statement")
		}
		rs, ok := x.Body.List[0].(*ast.ReturnStmt)
		if !ok || len(rs.Results) != 1 {
			t.fail(s, "guard body")
		}
		retParam := func() string {
			rv := t.eval(rs.Results[0])
			top := t.topParamOf(rv)
			if top == "" {
				t.fail(s, "early return of something other than a parameter")
			}
			return top
		}
		// nil test of a parameter
		if be, ok := x.Cond.(*ast.BinaryExpr); ok && be.Op == token.EQL {
			if nl, ok := be.Y.(*ast.Ident); ok && nl.Name == "nil" {
				id, ok := be.X.(*ast.Ident)
				if !ok {
					t.fail(s, "nil test of a non-identifier")
				}
				v, bound := t.env[id.Name]
				if !bound {
					t.fail(s, "nil test of unknown "+id.Name)
				}
				top := t.topParamOf(v)
				if top == "" || !t.maybeNil[top] {
					// an object of the caller (or a parameter already known to be non-nil): the guard is not taken
					return false
				}
				if t.nilGuard != nil || t.ifGuard != nil || len(t.out) != 0 {
					t.fail(s, "second guard")
				}
				t.optional[top] = true
				t.maybeNil[top] = false
				t.nilGuard = &cellGuard{names: []string{top}, retParam: retParam()}
				return false
			}
		}
		if t.depth > 0 {
			t.fail(s, "data-dependent early return in an inlined method")
		}
		if t.nilGuard != nil || t.ifGuard != nil {
			t.fail(s, "second guard")
		}
		c := t.eval(x.Cond)
		if c.kind != "bool" {
			t.fail(s, "guard condition is not a boolean")
		}
		t.ifGuard = &cellGuard{cond: c.expr, nout: len(t.out), retParam: retParam()}
	case *ast.ReturnStmt:
		for _, r := range x.Results {
			t.ret = append(t.ret, t.eval(r))
		}
		return true
	default:
		t.fail(s, fmt.Sprintf("statement %T", s))
	}
	return false
}

func refersTo(e ast.Expr, name string) bool {
	found := false
	ast.Inspect(e, func(n ast.Node) bool {
		if id, ok := n.(*ast.Ident); ok && id.Name == name {
			found = true
		}
		return true
	})
	return found
}

func countedLoop(x *ast.ForStmt) (int, int, bool) {
	init, ok := x.Init.(*ast.AssignStmt)
	if !ok || init.Tok != token.DEFINE || len(init.Lhs) != 1 {
		return 0, 0, false
	}
	v := init.Lhs[0].(*ast.Ident).Name
	a, ok := constExpr(init.Rhs[0])
	if !ok {
		return 0, 0, false
	}
	cond, ok := x.Cond.(*ast.BinaryExpr)
	if !ok || cond.Op != token.LSS {
		return 0, 0, false
	}
	if id, ok := cond.X.(*ast.Ident); !ok || id.Name != v {
		return 0, 0, false
	}
	b, ok := constExpr(cond.Y)
	if !ok {
		return 0, 0, false
	}
	post, ok := x.Post.(*ast.IncDecStmt)
	if !ok || post.Tok != token.INC {
		return 0, 0, false
	}
	if id, ok := post.X.(*ast.Ident); !ok || id.Name != v {
		return 0, 0, false
	}
	var ai, bi int
	fmt.Sscan(a, &ai)
	fmt.Sscan(b, &bi)
	return ai, bi, true
}

type cellParam struct {
	name string
	kind string // "elem" | "ptr" | "val" (value-typed field element: own cell)
}

type cellResult struct {
	text      string
	untouched []string
}

// translateCells emits one Lean definition for fn. classes groups parameter names that alias.
var cellsAPIMode bool
var cellsParamsNonNil bool // parameters of the translated block are local objects, never nil

func translateCells(p *pkgSrc, pkg string, fn *ast.FuncDecl, leanName string, classes [][]string, globals map[string]ast.Expr) cellResult {
	t := &cellTr{fset: p.fset, pkg: pkg, fname: fn.Name.Name, cur: map[*cell]string{}, dirty: map[*cell]bool{}, env: map[string]cval{}, globals: globals,
		src: p, apiMode: cellsAPIMode, optional: map[string]bool{}, topElems: map[string]cval{}, maybeNil: map[string]bool{}}
	kinds := map[string]string{}
	var order []string
	plist := fn.Type.Params.List
	if fn.Recv != nil {
		plist = append(append([]*ast.Field{}, fn.Recv.List...), plist...)
	}
	for _, f := range plist {
		tn := typeName(f.Type)
		_, isPtr := f.Type.(*ast.StarExpr)
		for _, nm := range f.Names {
			var k string
			switch {
			case tn == "Element" && pkg == "root" && isPtr:
				if _, q := f.Type.(*ast.StarExpr).X.(*ast.SelectorExpr); q {
					k = "ptr" // *field.Element
				} else {
					k = "elem"
				}
			case tn == "Element" && isPtr, tn == "scalar" && isPtr:
				k = "ptr"
			case tn == "Element" && pkg == "field":
				k = "val"
			default:
				t.fail(f, "parameter type "+tn)
			}
			kinds[nm.Name] = k
			order = append(order, nm.Name)
		}
	}
	if classes == nil {
		for _, n := range order {
			classes = append(classes, []string{n})
		}
	}
	type group struct {
		rep  string
		kind string
		v    cval
	}
	var groups []group
	covered := map[string]bool{}
	for _, cl := range classes {
		rep := cl[0]
		k, ok := kinds[rep]
		if !ok {
			t.fail(fn, "alias class names unknown parameter "+rep)
		}
		var v cval
		if k == "elem" {
			v.kind = "elem"
			for i, f := range []string{"x", "y", "z"} {
				v.xyz[i] = t.newCell(rep + "." + f)
			}
		} else {
			v.kind = "ptr"
			v.c = t.newCell(rep)
		}
		hasRecv := false
		for _, nm := range cl {
			if kinds[nm] != k {
				t.fail(fn, "alias class mixes kinds")
			}
			t.env[nm] = v
			covered[nm] = true
			if fn.Recv != nil && len(fn.Recv.List) == 1 && len(fn.Recv.List[0].Names) == 1 && fn.Recv.List[0].Names[0].Name == nm {
				hasRecv = true
			}
		}
		if k == "elem" {
			t.topElems[rep] = v
			t.maybeNil[rep] = !hasRecv && !cellsParamsNonNil
		}
		groups = append(groups, group{rep, k, v})
	}
	for _, n := range order {
		if !covered[n] {
			t.fail(fn, "parameter "+n+" not in any alias class")
		}
	}
	for _, s := range fn.Body.List {
		if t.stmt(s) {
			break
		}
	}
	paramCells := map[*cell]bool{}
	var outs, tys, untouched []string
	for _, g := range groups {
		if g.kind == "elem" {
			d := false
			for _, c := range g.v.xyz {
				paramCells[c] = true
				d = d || t.dirty[c]
			}
			if d {
				outs = append(outs, fmt.Sprintf("⟨%s, %s, %s⟩", t.cur[g.v.xyz[0]], t.cur[g.v.xyz[1]], t.cur[g.v.xyz[2]]))
				tys = append(tys, "Pt α")
			} else {
				untouched = append(untouched, g.rep)
			}
		} else {
			paramCells[g.v.c] = true
			if t.dirty[g.v.c] && g.kind == "ptr" {
				outs = append(outs, t.cur[g.v.c])
				tys = append(tys, "α")
			} else if g.kind == "ptr" {
				untouched = append(untouched, g.rep)
			}
		}
	}
	for _, r := range t.ret {
		switch r.kind {
		case "u64":
			outs = append(outs, r.expr)
			tys = append(tys, "Nat")
		case "bool":
			outs = append(outs, r.expr)
			tys = append(tys, "Bool")
		case "ptr":
			if !paramCells[r.c] {
				outs = append(outs, t.cur[r.c])
				tys = append(tys, "α")
			}
		case "elem":
			if !paramCells[r.xyz[0]] {
				outs = append(outs, fmt.Sprintf("⟨%s, %s, %s⟩", t.cur[r.xyz[0]], t.cur[r.xyz[1]], t.cur[r.xyz[2]]))
				tys = append(tys, "Pt α")
			}
		default:
			t.fail(fn, "return kind")
		}
	}
	if len(outs) == 0 {
		t.fail(fn, "function has no effect")
	}
	body := strings.Join(t.out, "\n")
	used := func(name string, elem bool) bool {
		all := body + "\n" + strings.Join(outs, " ")
		if elem {
			return strings.Contains(all, name+".x") || strings.Contains(all, name+".y") || strings.Contains(all, name+".z")
		}
		for _, tok := range strings.FieldsFunc(all, func(r rune) bool { return strings.ContainsRune(" ()⟨⟩,\n", r) }) {
			if tok == name {
				return true
			}
		}
		return false
	}
	// the value of the function when an early return at its top is taken: written parameters keep their initial value
	early := func(g *cellGuard) string {
		if _, isParam := kinds[g.retParam]; !isParam {
			t.fail(fn, "early return of a non-parameter")
		}
		var ev []string
		for _, g2 := range groups {
			d := false
			if g2.kind == "elem" {
				for _, c := range g2.v.xyz {
					d = d || t.dirty[c]
				}
			} else {
				d = t.dirty[g2.v.c]
			}
			if d {
				ev = append(ev, g2.rep)
			}
		}
		if len(ev) != len(outs) {
			t.fail(fn, "early return in a method that also returns a value")
		}
		if len(ev) == 1 {
			return ev[0]
		}
		return "(" + strings.Join(ev, ", ") + ")"
	}
	var b strings.Builder
	fmt.Fprintf(&b, "def %s {α : Type} (F : FieldOps α)", leanName)
	for _, g := range groups {
		if g.kind == "elem" {
			if t.optional[g.rep] {
				fmt.Fprintf(&b, " (%s : Option (Pt α))", g.rep)
			} else if used(g.rep, true) || t.nilGuard != nil || t.ifGuard != nil {
				fmt.Fprintf(&b, " (%s : Pt α)", g.rep)
			}
		} else if used(g.rep, false) {
			fmt.Fprintf(&b, " (%s : α)", g.rep)
		}
	}
	b.WriteString(" : " + strings.Join(tys, " × ") + " :=\n")
	result := "  " + outs[0]
	if len(outs) != 1 {
		result = "  (" + strings.Join(outs, ", ") + ")"
	}
	switch {
	case t.nilGuard != nil:
		n := t.nilGuard.names[0]
		fmt.Fprintf(&b, "  match %s with\n  | none => %s\n  | some %s =>\n", n, early(t.nilGuard), n)
		if body != "" {
			b.WriteString(body + "\n")
		}
		b.WriteString(result + "\n")
	case t.ifGuard != nil:
		lines := t.out
		pre, post := lines[:t.ifGuard.nout], lines[t.ifGuard.nout:]
		for _, l := range pre {
			b.WriteString(l + "\n")
		}
		fmt.Fprintf(&b, "  if %s then %s else\n", t.ifGuard.cond, early(t.ifGuard))
		for _, l := range post {
			b.WriteString(l + "\n")
		}
		b.WriteString(result + "\n")
	default:
		if body != "" {
			b.WriteString(body + "\n")
		}
		b.WriteString(result + "\n")
	}
	return cellResult{text: b.String(), untouched: untouched}
}

func pkgGlobals(p *pkgSrc) map[string]ast.Expr {
	g := map[string]ast.Expr{}
	for _, f := range p.files {
		for _, d := range f.Decls {
			gd, ok := d.(*ast.GenDecl)
			if !ok || gd.Tok != token.VAR {
				continue
			}
			for _, sp := range gd.Specs {
				vs := sp.(*ast.ValueSpec)
				for i, nm := range vs.Names {
					if i < len(vs.Values) {
						g[nm.Name] = vs.Values[i]
					}
				}
			}
		}
	}
	return g
}

type cellJob struct {
	pkg     *pkgSrc
	pkgName string
	fn      string
	lean    string
	classes [][]string
	stub    string // signature and placeholder body used when the function leaves the accepted subset (keeps the driver building)
}

var untouchedFacts []string
var notTranslated = map[string][]string{}

func genCells(jobs []cellJob, ns, imports, outPath string) {
	var b strings.Builder
	b.WriteString(header)
	b.WriteString(imports + "\nnamespace " + ns + "\n\n")
	for _, j := range jobs {
		fd, ok := j.pkg.funcs[j.fn]
		if !ok {
			fatal("function %s.%s not found (renamed or removed): the model cannot be regenerated", j.pkgName, j.fn)
		}
		func() {
			defer func() {
				if r := recover(); r != nil {
					if j.stub == "" {
						panic(r)
					}
					// outside the subset: a placeholder with the same signature keeps every *other* definition (and the driver)
					// building; the name is listed in `notTranslated`, the theorems about this function stop checking, and the
					// correspondence shows where the real function and the placeholder differ
					fmt.Fprintf(&b, "-- NOT TRANSLATED: %s (%v)\ndef %s {α : Type} (F : FieldOps α) %s\n\n", j.fn,
						strings.ReplaceAll(fmt.Sprint(r), "\n", " "), j.lean, j.stub)
					notTranslated[ns] = append(notTranslated[ns], j.lean)
				}
			}()
			r := translateCells(j.pkg, j.pkgName, fd, j.lean, j.classes, pkgGlobals(j.pkg))
			b.WriteString(r.text + "\n")
			untouchedFacts = append(untouchedFacts, fmt.Sprintf("(\"%s.%s\", [%s])", ns, j.lean, quoteAll(r.untouched)))
		}()
	}
	if ns == "Curve" {
		fmt.Fprintf(&b, "/-- functions that left the translator's subset in this run (each is a placeholder above) -/\ndef notTranslated : List String := [%s]\n\n",
			quoteAll(notTranslated[ns]))
	}
	b.WriteString("end " + ns + "\n")
	writeIfChanged(outPath, b.String())
}

func quoteAll(xs []string) string {
	var q []string
	for _, x := range xs {
		q = append(q, "\""+x+"\"")
	}
	return strings.Join(q, ", ")
}

func genCurve(field, scal, root *pkgSrc, out string) {
	genCells([]cellJob{
		{field, "field", "Element.Invert", "invert", nil, ""},
		{field, "field", "Element.expPMin3Div4", "expPMin3Div4", nil, ""},
	}, "FieldChains", "import Secp.FieldOps\nimport Secp.Gen.FiatField", out+"/FieldChains.lean")
	// SqrtRatio refers to FieldChains.expPMin3Div4, so it lives in a second namespace block of its own file
	genCells([]cellJob{
		{field, "field", "Element.SqrtRatio", "sqrtRatio", nil, ""},
		// the receiver may be either operand (aliasing patterns of the receiver)
		{field, "field", "Element.SqrtRatio", "sqrtRatio_eu", [][]string{{"e", "u"}, {"v"}}, ""},
		{field, "field", "Element.SqrtRatio", "sqrtRatio_ev", [][]string{{"e", "v"}, {"u"}}, ""},
	}, "FieldChains", "import Secp.Gen.FieldChains", out+"/SqrtRatio.lean")
	genCells([]cellJob{
		{scal, "scalar", "scalar.Invert", "invert", nil, ""},
	}, "ScalarChain", "import Secp.FieldOps", out+"/ScalarChain.lean")
	genCells([]cellJob{
		{root, "root", "Element.addProjectiveComplete", "addProjectiveComplete_eu_v", [][]string{{"e", "u"}, {"v"}}, "(e : Pt α) (v : Pt α) : Pt α := e"},
		{root, "root", "Element.addProjectiveComplete", "addProjectiveComplete_euv", [][]string{{"e", "u", "v"}}, "(e : Pt α) : Pt α := e"},
		{root, "root", "Element.doubleProjectiveComplete", "doubleProjectiveComplete_eu", [][]string{{"e", "u"}}, "(e : Pt α) : Pt α := e"},
		{root, "root", "Element.negate", "negate", nil, "(e : Pt α) : Pt α := e"},
		{root, "root", "Element.isEqual", "isEqual", nil, "(e : Pt α) (u : Pt α) : Nat := 0"},
		{root, "root", "Element.isEqual", "isEqual_same", [][]string{{"e", "u"}}, "(e : Pt α) : Nat := 0"},
		{root, "root", "Element.affine", "affine", nil, "(e : Pt α) : Pt α := e"},
		{root, "root", "Secp256Polynomial", "secp256Polynomial", nil, "(x : α) : α := x"},
		{root, "root", "SSWU", "sswu", nil, "(e : α) : Pt α := ⟨e, e, e⟩"},
		{root, "root", "IsogenySecp256k13iso", "isogeny", nil, "(e : Pt α) : Pt α := e"},
	}, "Curve", "import Secp.Gen.SqrtRatio", out+"/Curve.lean")
	// the API methods of element.go, with the methods they call inlined on shared cells (one definition per aliasing pattern)
	cellsAPIMode = true
	genCellsTolerant([]cellJob{
		{root, "root", "Element.Identity", "identity", nil, ""},
		{root, "root", "Element.IsIdentity", "isIdentity", nil, ""},
		{root, "root", "Element.Add", "add_e_v", [][]string{{"e"}, {"element"}}, ""},
		{root, "root", "Element.Add", "add_ev", [][]string{{"e", "element"}}, ""},
		{root, "root", "Element.Double", "double", nil, ""},
		{root, "root", "Element.Negate", "negate", nil, ""},
		{root, "root", "Element.Subtract", "subtract_e_v", [][]string{{"e"}, {"element"}}, ""},
		{root, "root", "Element.Subtract", "subtract_ev", [][]string{{"e", "element"}}, ""},
		{root, "root", "Element.Equal", "equal_e_v", [][]string{{"e"}, {"element"}}, ""},
		{root, "root", "Element.Equal", "equal_ev", [][]string{{"e", "element"}}, ""},
		{root, "root", "Element.Set", "set", [][]string{{"e"}, {"element"}}, ""},
		{root, "root", "Element.Copy", "copy", nil, ""},
		// the unexported helpers `multiply` calls directly
		{root, "root", "Element.set", "setRaw", [][]string{{"e"}, {"element"}}, ""},
		{root, "root", "Element.copy", "copyRaw", nil, ""},
		{root, "root", "newElement", "newElement", nil, ""},
		{root, "root", "Element.Base", "base", nil, ""},
	}, "GenElementAPI", "import Secp.FieldOps", out+"/ElementAPI.lean")
	genLadder(root, out+"/Ladder.lean")
	genDecoders(root, out+"/Decode.lean")
	cellsAPIMode = false
}

// genLadder reads the loop of (*Element).multiply: its header (start, bound, direction), the condition of its single
// if/else, and translates the two branches as functions of the two registers (callees inlined on shared cells).
func genLadder(root *pkgSrc, outPath string) {
	var b strings.Builder
	b.WriteString(header)
	b.WriteString("import Secp.FieldOps\nnamespace GenLadder\n\n")
	note := func(msg string) {
		fmt.Fprintf(&b, "-- NOT TRANSLATED: %s\n\nend GenLadder\n", msg)
		writeIfChanged(outPath, b.String())
	}
	fd, ok := root.funcs["Element.multiply"]
	if !ok {
		note("Element.multiply not found")
		return
	}
	var loop *ast.ForStmt
	nloops := 0
	var before, after []string
	for _, st := range fd.Body.List {
		if f, ok := st.(*ast.ForStmt); ok {
			loop = f
			nloops++
			continue
		}
		if loop == nil {
			before = append(before, nodeText(root.fset, st))
		} else {
			after = append(after, nodeText(root.fset, st))
		}
	}
	if nloops != 1 {
		note(fmt.Sprintf("expected one loop in multiply, found %d", nloops))
		return
	}
	hdr := nodeText(root.fset, loop.Init) + "; " + nodeText(root.fset, loop.Cond) + "; " + nodeText(root.fset, loop.Post)
	if len(loop.Body.List) != 1 {
		note("loop body is not a single if/else")
		return
	}
	ifs, ok := loop.Body.List[0].(*ast.IfStmt)
	els, ok2 := func() (*ast.BlockStmt, bool) {
		if !ok || ifs.Else == nil || ifs.Init != nil {
			return nil, false
		}
		e, ok := ifs.Else.(*ast.BlockStmt)
		return e, ok
	}()
	if !ok || !ok2 {
		note("loop body is not a single if/else")
		return
	}
	fmt.Fprintf(&b, "/-- header of the loop of `multiply` (init; condition; post) -/\ndef loopHeader : String := %q\n\n", hdr)
	fmt.Fprintf(&b, "/-- condition selecting the first branch -/\ndef branchCondition : String := %q\n\n", nodeText(root.fset, ifs.Cond))
	fmt.Fprintf(&b, "/-- statements of `multiply` before and after the loop -/\ndef prelude : List String := [%s]\ndef epilogue : List String := [%s]\n\n",
		quoteAll(before), quoteAll(after))
	mk := func(name string, body *ast.BlockStmt) *ast.FuncDecl {
		star := func() ast.Expr { return &ast.StarExpr{X: ast.NewIdent("Element")} }
		return &ast.FuncDecl{Name: ast.NewIdent(name), Type: &ast.FuncType{Params: &ast.FieldList{List: []*ast.Field{
			{Names: []*ast.Ident{ast.NewIdent("r0")}, Type: star()}, {Names: []*ast.Ident{ast.NewIdent("r1")}, Type: star()}}}}, Body: body}
	}
	for _, br := range []struct {
		name string
		body *ast.BlockStmt
	}{{"branchThen", ifs.Body}, {"branchElse", els}} {
		func() {
			defer func() {
				if r := recover(); r != nil {
					fmt.Fprintf(&b, "-- NOT TRANSLATED: %s (%v)\n\n", br.name, strings.ReplaceAll(fmt.Sprint(r), "\n", " "))
				}
			}()
			cellsParamsNonNil = true
			defer func() { cellsParamsNonNil = false }()
			r := translateCells(root, "root", mk(br.name, br.body), br.name, [][]string{{"r0"}, {"r1"}}, pkgGlobals(root))
			b.WriteString(r.text + "\n")
		}()
	}
	b.WriteString("end GenLadder\n")
	writeIfChanged(outPath, b.String())
}

// genCellsTolerant: like genCells, but a method outside the accepted subset is left out (with a note) instead of stopping
// the whole regeneration: only the ties that mention it then fail.
func genCellsTolerant(jobs []cellJob, ns, imports, outPath string) {
	var b strings.Builder
	b.WriteString(header)
	b.WriteString(imports + "\nnamespace " + ns + "\n\n")
	for _, j := range jobs {
		fd, ok := j.pkg.funcs[j.fn]
		if !ok {
			fmt.Fprintf(&b, "-- NOT TRANSLATED: %s (not found)\n\n", j.fn)
			continue
		}
		func() {
			defer func() {
				if r := recover(); r != nil {
					fmt.Fprintf(&b, "-- NOT TRANSLATED: %s as %s (%v)\n\n", j.fn, j.lean, strings.ReplaceAll(fmt.Sprint(r), "\n", " "))
				}
			}()
			r := translateCells(j.pkg, j.pkgName, fd, j.lean, j.classes, pkgGlobals(j.pkg))
			b.WriteString(r.text + "\n")
		}()
	}
	b.WriteString("end " + ns + "\n")
	writeIfChanged(outPath, b.String())
}
