package main

// API mode of the straight-line translator: methods of the root package that are a nil guard followed by calls into
// the internal packages (scalar.go). See fiat.go for the shared machinery.

import (
	"fmt"
	"go/ast"
	"go/token"
	"strings"
)

// resolve finds the translated callee of a call: `pkg.F(...)` or `recv.Method(...)`. args is the Go argument list with
// the receiver prepended for methods.
func (t *fiatTr) resolve(call *ast.CallExpr) (lean string, sg *fiatSig, args []ast.Expr, ok bool) {
	sel, isSel := call.Fun.(*ast.SelectorExpr)
	if !isSel {
		return
	}
	id, isId := sel.X.(*ast.Ident)
	if !isId {
		return
	}
	if ns := t.qual[id.Name]; ns != "" {
		if s := fiatSigs[id.Name][sel.Sel.Name]; s != nil {
			return ns + "." + s.lean, s, call.Args, true
		}
		return
	}
	if p, isParam := t.pmap[id.Name]; isParam && p.isPtr && p.wrapped {
		for k, s := range t.methods {
			if strings.HasSuffix(k, "."+sel.Sel.Name) {
				return s.lean, s, append([]ast.Expr{id}, call.Args...), true
			}
		}
	}
	return
}

func (t *fiatTr) apiCallExpr(x *ast.CallExpr) (string, bool) {
	lean, sg, args, ok := t.resolve(x)
	if !ok || !sg.ret {
		return "", false
	}
	return t.invoke(lean, sg, args, x, false), true
}

func (t *fiatTr) apiCallStmt(call *ast.CallExpr, node ast.Node) bool {
	if id, ok := call.Fun.(*ast.Ident); ok && id.Name == "copy" && len(call.Args) == 2 {
		dst, src := t.sliceBase(call.Args[0]), t.sliceBase(call.Args[1])
		if dst == "" || src == "" {
			t.fail(node, "copy operands")
		}
		val := t.arrayValue(src, 4, node)
		t.np++
		r := fmt.Sprintf("c%d", t.np)
		t.emit(r, val)
		if q, ok := t.pmap[dst]; ok && q.isPtr {
			if t.firstW == "" {
				t.firstW = dst
			}
			t.written[dst] = true
		}
		for j := 0; j < 4; j++ {
			t.cur[fmt.Sprintf("%s[%d]", dst, j)] = fmt.Sprintf("%s.l%d", r, j)
		}
		return true
	}
	lean, sg, args, ok := t.resolve(call)
	if !ok {
		return false
	}
	t.invoke(lean, sg, args, node, true)
	return true
}

// sliceBase: `x[:]`, `x.S[:]` -> x
func (t *fiatTr) sliceBase(e ast.Expr) string {
	se, ok := e.(*ast.SliceExpr)
	if !ok || se.Low != nil || se.High != nil {
		return ""
	}
	if id := t.baseIdent(se.X); id != nil {
		return id.Name
	}
	return ""
}

// apiReturn handles the return forms of API methods; false: fall back to the value path.
func (t *fiatTr) apiReturn(e ast.Expr, node ast.Node) bool {
	switch x := e.(type) {
	case *ast.Ident:
		if p, ok := t.pmap[x.Name]; ok && p.isPtr {
			return true
		}
		if t.retKind == "error" {
			if x.Name == "nil" {
				t.ret = "none"
			} else {
				t.ret = fmt.Sprintf("some %q", x.Name)
			}
			return true
		}
	case *ast.CallExpr:
		if lean, sg, args, ok := t.resolve(x); ok && !sg.ret {
			t.invoke(lean, sg, args, node, true)
			return true
		}
	}
	return false
}

// earlyValue: the result of the function when its nil guard fires (nothing has been written before a guard)
func (t *fiatTr) earlyValue(g apiGuard, fn *ast.FuncDecl) string {
	over := map[string]string{} // written pointer parameter -> value in the early branch
	ret := ""
	switch x := g.ret.(type) {
	case *ast.Ident:
		if p, ok := t.pmap[x.Name]; ok && p.isPtr {
			// return the receiver unchanged
		} else if t.retKind == "error" {
			ret = fmt.Sprintf("some %q", x.Name)
		} else {
			t.fail(fn, "early return value")
		}
	case *ast.BasicLit:
		v, ok := litVal(x)
		if !ok {
			t.fail(fn, "early return literal")
		}
		ret = v
	case *ast.CallExpr:
		// `return s.Zero()`: a method of the receiver without inputs
		sel, ok := x.Fun.(*ast.SelectorExpr)
		if !ok || len(x.Args) != 0 {
			t.fail(fn, "early return call")
		}
		id, _ := sel.X.(*ast.Ident)
		var sg *fiatSig
		for k, s := range t.methods {
			if strings.HasSuffix(k, "."+sel.Sel.Name) {
				sg = s
			}
		}
		if id == nil || sg == nil || sg.ret {
			t.fail(fn, "early return call")
		}
		for i := range sg.params {
			if sg.input[i] {
				t.fail(fn, "early return call with inputs")
			}
		}
		over[id.Name] = sg.lean
	default:
		t.fail(fn, "early return form")
	}
	var outs []string
	for _, p := range t.params {
		if !p.isPtr || !t.written[p.name] {
			continue
		}
		if v, ok := over[p.name]; ok {
			outs = append(outs, v)
		} else {
			outs = append(outs, p.name)
		}
	}
	for n := range over {
		if !t.written[n] {
			t.fail(fn, "early branch writes a parameter the main branch does not")
		}
	}
	if t.ret != "" {
		if ret == "" {
			t.fail(fn, "early return without a value")
		}
		outs = append(outs, ret)
	}
	if len(outs) == 1 {
		return outs[0]
	}
	return "(" + strings.Join(outs, ", ") + ")"
}

var _ = token.ADD

// genScalarAPI translates the straight-line methods of scalar.go.
func genScalarAPI(root *pkgSrc, outPath string) {
	api := &apiCtx{qual: map[string]string{"scalar": "FiatScalar"}, methods: map[string]*fiatSig{}, recv: "Scalar"}
	var b strings.Builder
	b.WriteString(header)
	b.WriteString("import Secp.Gen.FiatScalar\n\nnamespace GenScalarAPI\n\n")
	for _, n := range []string{"Zero", "One", "MinusOne", "Add", "Subtract", "Multiply", "Square", "Equal", "LessOrEqual", "IsZero", "IsOne",
		"set", "Set", "SetUInt64", "CSelect"} {
		fd, ok := root.funcs["Scalar."+n]
		if !ok {
			fatal("method Scalar.%s not found (renamed or removed): the model cannot be regenerated", n)
		}
		nm := lname(n)
		if n == "set" {
			nm = "setRaw"
		}
		// a method outside the accepted subset does not stop the others: its definition is simply absent, so exactly
		// the ties (and properties) that mention it stop checking
		func() {
			defer func() {
				if r := recover(); r != nil {
					fmt.Fprintf(&b, "-- NOT TRANSLATED: Scalar.%s (%v)\n\n", n, strings.ReplaceAll(fmt.Sprint(r), "\n", " "))
				}
			}()
			b.WriteString(translateWith(root.fset, "secp", fd, map[string]bool{}, map[string][]string{}, nm, api))
			b.WriteString("\n")
		}()
	}
	b.WriteString("end GenScalarAPI\n")
	writeIfChanged(outPath, b.String())
}
