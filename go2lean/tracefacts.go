package main

// Static call-schedule extraction (C19). For a function of the module, `expand` computes the sequence of
// entries into functions of the two internal packages that one execution performs, as a list of alternatives:
// an early-return `if` adds an alternative, an `if/else` whose branches have the same schedule contributes that
// schedule once, and a data-dependent choice inside a loop is refused (that is a C19 violation in itself).
// The result is emitted as Lean definitions built from per-function trace definitions.

import (
	"fmt"
	"go/ast"
	"go/importer"
	"go/parser"
	"go/token"
	"go/types"
	"os"
	"path/filepath"
	"sort"
	"strings"
)

const modPath = "github.com/bytemare/secp256k1"

type srcImporter struct {
	repo  string
	fset  *token.FileSet
	std   types.Importer
	pkgs  map[string]*types.Package
	info  *types.Info
	files map[string][]*ast.File
}

func (s *srcImporter) Import(path string) (*types.Package, error) {
	if strings.HasPrefix(path, modPath) {
		if p, ok := s.pkgs[path]; ok {
			return p, nil
		}
		p, err := s.check(path, filepath.Join(s.repo, strings.TrimPrefix(path, modPath)))
		if err == nil {
			s.pkgs[path] = p
		}
		return p, err
	}
	return s.std.Import(path)
}

func (s *srcImporter) check(path, dir string) (*types.Package, error) {
	pkgs, err := parser.ParseDir(s.fset, dir, func(fi os.FileInfo) bool { return !strings.HasSuffix(fi.Name(), "_test.go") }, 0)
	if err != nil {
		return nil, err
	}
	var files []*ast.File
	for _, p := range pkgs {
		var names []string
		for n := range p.Files {
			names = append(names, n)
		}
		sort.Strings(names)
		for _, n := range names {
			files = append(files, p.Files[n])
		}
	}
	s.files[path] = files
	conf := types.Config{Importer: s}
	return conf.Check(path, s.fset, files, s.info)
}

// a schedule is a list of items: either a reference to another function's trace or a repetition
type sched struct {
	items []string // Lean expressions of type List String
	guard int      // >0: alternative taken only when parameter number guard-1 is nil (an `if p == nil` early exit)
}

type callSite struct {
	fn   *types.Func
	args []ast.Expr
}

type tracer struct {
	imp   *srcImporter
	decls map[*types.Func]*ast.FuncDecl
	memo  map[*types.Func][]sched // alternatives
	busy  map[*types.Func]bool
	order []*types.Func
	fail  string
	cur   *ast.FuncDecl
}

func internalPkg(p *types.Package) bool {
	return p != nil && (strings.HasSuffix(p.Path(), "/internal/field") || strings.HasSuffix(p.Path(), "/internal/scalar"))
}

func mangle(f *types.Func) string {
	n := f.FullName()
	n = strings.ReplaceAll(n, modPath+"/internal/", "")
	n = strings.ReplaceAll(n, modPath, "secp")
	r := strings.NewReplacer("(", "", ")", "", "*", "", ".", "_", "/", "_")
	return "tr_" + r.Replace(n)
}

func shortName(f *types.Func) string {
	n := f.FullName()
	n = strings.ReplaceAll(n, modPath+"/internal/", "")
	n = strings.ReplaceAll(n, modPath, "secp")
	return n
}

// calls returns, in evaluation order, the module functions called inside expression e.
func (t *tracer) calls(e ast.Node, out *[]callSite) {
	switch x := e.(type) {
	case nil:
		return
	case *ast.CallExpr:
		// receiver / function expression first, then arguments, then the call itself
		switch f := x.Fun.(type) {
		case *ast.SelectorExpr:
			t.calls(f.X, out)
		case *ast.Ident:
		default:
			t.calls(f, out)
		}
		for _, a := range x.Args {
			t.calls(a, out)
		}
		var id *ast.Ident
		switch f := x.Fun.(type) {
		case *ast.SelectorExpr:
			id = f.Sel
		case *ast.Ident:
			id = f
		}
		if id != nil {
			if fn, ok := t.imp.info.Uses[id].(*types.Func); ok && fn.Pkg() != nil && strings.HasPrefix(fn.Pkg().Path(), modPath) {
				*out = append(*out, callSite{fn, x.Args})
			}
		}
	case *ast.FuncLit:
		t.fail = "function literal"
	default:
		// generic traversal in source order
		ast.Inspect(e, func(n ast.Node) bool {
			if n == e {
				return true
			}
			if ce, ok := n.(*ast.CallExpr); ok {
				t.calls(ce, out)
				return false
			}
			return true
		})
	}
}

func isNilLit(e ast.Expr) bool {
	id, ok := e.(*ast.Ident)
	return ok && id.Name == "nil"
}

// refOf: the alternatives of a call. Nil-guarded early exits of the callee apply only when the argument is the
// literal nil; other arguments at call sites inside the module are taken to be non-nil (they are receivers and
// freshly built locals; the trace correspondence exercises exactly these paths).
func (t *tracer) refOf(cs callSite) []sched {
	fn := cs.fn
	alts := t.expandFunc(fn)
	var res []sched
	for i := range alts {
		if g := alts[i].guard; g > 0 {
			if g-1 < len(cs.args) && isNilLit(cs.args[g-1]) {
				name := mangle(fn)
				if len(alts) > 1 {
					name = fmt.Sprintf("%s_alt%d", name, i)
				}
				return []sched{{items: []string{name}}}
			}
			continue
		}
		name := mangle(fn)
		if len(alts) > 1 {
			name = fmt.Sprintf("%s_alt%d", name, i)
		}
		res = append(res, sched{items: []string{name}})
	}
	return res
}

func seqAlts(a, b []sched) []sched {
	var out []sched
	for _, x := range a {
		for _, y := range b {
			g := x.guard
			if y.guard > 0 {
				g = y.guard
			}
			out = append(out, sched{items: append(append([]string{}, x.items...), y.items...), guard: g})
		}
	}
	return out
}

func (t *tracer) exprAlts(e ast.Node) []sched {
	var fs []callSite
	t.calls(e, &fs)
	alts := []sched{{}}
	for _, f := range fs {
		alts = seqAlts(alts, t.refOf(f))
	}
	return alts
}

func key(s sched) string  { return strings.Join(s.items, " ++ ") }
func gkey(s sched) string { return fmt.Sprintf("%d|%s", s.guard, key(s)) }

func dedup(a []sched) []sched {
	seen := map[string]bool{}
	var out []sched
	for _, s := range a {
		if !seen[gkey(s)] {
			seen[gkey(s)] = true
			out = append(out, s)
		}
	}
	return out
}

// block returns (alternatives that fall through, alternatives that returned)
func (t *tracer) block(stmts []ast.Stmt) (cont []sched, done []sched) {
	cont = []sched{{}}
	for _, s := range stmts {
		if len(cont) == 0 {
			break
		}
		c2, d2 := t.stmt(s)
		done = append(done, seqAlts(cont, d2)...)
		cont = seqAlts(cont, c2)
		if len(cont)+len(done) > 64 {
			t.fail = "too many alternative schedules"
			return
		}
	}
	return
}

func intConst(info *types.Info, e ast.Expr) (int, bool) {
	tv, ok := info.Types[e]
	if !ok || tv.Value == nil {
		return 0, false
	}
	var v int
	if _, err := fmt.Sscan(tv.Value.ExactString(), &v); err != nil {
		return 0, false
	}
	return v, true
}

func (t *tracer) loopCount(s ast.Stmt) (int, bool) {
	info := t.imp.info
	switch x := s.(type) {
	case *ast.RangeStmt:
		return intConst(info, x.X)
	case *ast.ForStmt:
		init, ok := x.Init.(*ast.AssignStmt)
		if !ok || len(init.Rhs) != 1 {
			return 0, false
		}
		a, ok := intConst(info, init.Rhs[0])
		if !ok {
			return 0, false
		}
		cond, ok := x.Cond.(*ast.BinaryExpr)
		if !ok {
			return 0, false
		}
		b, ok := intConst(info, cond.Y)
		if !ok {
			return 0, false
		}
		switch post := x.Post.(type) {
		case *ast.IncDecStmt:
			if post.Tok == token.INC && cond.Op == token.LSS {
				return b - a, true
			}
			if post.Tok == token.INC && cond.Op == token.LEQ {
				return b - a + 1, true
			}
			if post.Tok == token.DEC && cond.Op == token.GEQ {
				return a - b + 1, true
			}
			if post.Tok == token.DEC && cond.Op == token.GTR {
				return a - b, true
			}
		}
	}
	return 0, false
}

func (t *tracer) stmt(s ast.Stmt) (cont []sched, done []sched) {
	switch x := s.(type) {
	case *ast.ReturnStmt:
		alts := []sched{{}}
		for _, r := range x.Results {
			alts = seqAlts(alts, t.exprAlts(r))
		}
		return nil, alts
	case *ast.IfStmt:
		pre := []sched{{}}
		if x.Init != nil {
			c, _ := t.stmt(x.Init)
			pre = c
		}
		pre = seqAlts(pre, t.exprAlts(x.Cond))
		tc, td := t.block(x.Body.List)
		var ec, ed []sched
		ec = []sched{{}}
		if x.Else != nil {
			switch e := x.Else.(type) {
			case *ast.BlockStmt:
				ec, ed = t.block(e.List)
			default:
				ec, ed = t.stmt(e)
			}
		}
		if g := t.nilGuard(x.Cond); g > 0 && x.Else == nil {
			for i := range td {
				td[i].guard = g
			}
		}
		cont = dedup(seqAlts(pre, append(tc, ec...)))
		done = dedup(seqAlts(pre, append(td, ed...)))
		return
	case *ast.ForStmt, *ast.RangeStmt:
		n, ok := t.loopCount(s)
		if !ok {
			t.fail = fmt.Sprintf("%s: loop without a constant trip count", t.imp.fset.Position(s.Pos()))
			return []sched{{}}, nil
		}
		var body *ast.BlockStmt
		var hdr []sched = []sched{{}}
		if f, ok := x.(*ast.ForStmt); ok {
			body = f.Body
			hdr = t.exprAlts(f.Cond)
		} else {
			body = x.(*ast.RangeStmt).Body
		}
		bc, bd := t.block(body.List)
		bc = dedup(seqAlts(hdr, bc))
		if len(bd) != 0 || len(bc) != 1 {
			t.fail = fmt.Sprintf("%s: the schedule of a loop iteration depends on data (%d alternatives, %d early exits)",
				t.imp.fset.Position(s.Pos()), len(bc), len(bd))
			return []sched{{}}, nil
		}
		if len(bc[0].items) == 0 || n <= 0 {
			return []sched{{}}, nil
		}
		return []sched{{items: []string{fmt.Sprintf("(List.replicate %d (%s)).flatten", n, key(bc[0]))}}}, nil
	case *ast.BlockStmt:
		return t.block(x.List)
	case *ast.SwitchStmt:
		// switch with early returns in every clause: alternatives in source order
		pre := []sched{{}}
		if x.Tag != nil {
			pre = t.exprAlts(x.Tag)
		}
		var cc, dd []sched
		hasDefault := false
		for _, c := range x.Body.List {
			cl := c.(*ast.CaseClause)
			if cl.List == nil {
				hasDefault = true
			}
			c1, d1 := t.block(cl.Body)
			cc = append(cc, c1...)
			dd = append(dd, d1...)
		}
		if !hasDefault {
			cc = append(cc, sched{})
		}
		return dedup(seqAlts(pre, cc)), dedup(seqAlts(pre, dd))
	case *ast.BranchStmt:
		return []sched{{}}, nil
	default:
		return t.exprAlts(s), nil
	}
}

// nilGuard recognises `p == nil` (possibly `p == nil || ...` on its left) for a parameter p of the current function.
func (t *tracer) nilGuard(cond ast.Expr) int {
	be, ok := cond.(*ast.BinaryExpr)
	if !ok {
		return 0
	}
	if be.Op == token.LOR {
		return t.nilGuard(be.X)
	}
	if be.Op != token.EQL || !isNilLit(be.Y) {
		return 0
	}
	id, ok := be.X.(*ast.Ident)
	if !ok || t.cur == nil {
		return 0
	}
	i := 0
	for _, f := range t.cur.Type.Params.List {
		for _, nm := range f.Names {
			if nm.Name == id.Name {
				return i + 1
			}
			i++
		}
	}
	return 0
}

func (t *tracer) expandFunc(fn *types.Func) []sched {
	if a, ok := t.memo[fn]; ok {
		return a
	}
	if t.busy[fn] {
		t.fail = "recursion through " + fn.FullName()
		return []sched{{}}
	}
	t.busy[fn] = true
	decl := t.decls[fn]
	var alts []sched
	if decl == nil || decl.Body == nil {
		alts = []sched{{}}
	} else {
		saved := t.cur
		t.cur = decl
		c, d := t.block(decl.Body.List)
		t.cur = saved
		alts = dedup(append(d, c...))
	}
	if internalPkg(fn.Pkg()) {
		for i := range alts {
			alts[i].items = append([]string{fmt.Sprintf("[\"%s\"]", shortName(fn))}, alts[i].items...)
		}
	}
	t.busy[fn] = false
	t.memo[fn] = alts
	t.order = append(t.order, fn)
	return alts
}

// genTraceFacts writes Secp/Gen/TraceFacts.lean with the schedules of the listed root functions.
func typeCheckModule(repo string) {
	fset := token.NewFileSet()
	imp := &srcImporter{repo: repo, fset: fset, std: importer.ForCompiler(fset, "source", nil), pkgs: map[string]*types.Package{},
		files: map[string][]*ast.File{},
		info:  &types.Info{Types: map[ast.Expr]types.TypeAndValue{}, Uses: map[*ast.Ident]types.Object{}, Defs: map[*ast.Ident]types.Object{}, Selections: map[*ast.SelectorExpr]*types.Selection{}}}
	root, err := imp.check(modPath, repo)
	if err != nil {
		fatal("type-check of the module failed: %v", err)
	}
	imp.pkgs[modPath] = root
	sharedImporter = imp
}

func genTraceFacts(repo, out string) {
	imp := sharedImporter
	root := imp.pkgs[modPath]
	t := &tracer{imp: imp, decls: map[*types.Func]*ast.FuncDecl{}, memo: map[*types.Func][]sched{}, busy: map[*types.Func]bool{}}
	for _, files := range imp.files {
		for _, f := range files {
			for _, d := range f.Decls {
				if fd, ok := d.(*ast.FuncDecl); ok {
					if fn, ok := imp.info.Defs[fd.Name].(*types.Func); ok {
						t.decls[fn] = fd
					}
				}
			}
		}
	}
	elem := root.Scope().Lookup("Element")
	if elem == nil {
		fatal("type Element not found")
	}
	var mult *types.Func
	ms := types.NewMethodSet(types.NewPointer(elem.Type()))
	for i := 0; i < ms.Len(); i++ {
		if ms.At(i).Obj().Name() == "Multiply" {
			mult = ms.At(i).Obj().(*types.Func)
		}
	}
	if mult == nil {
		fatal("method (*Element).Multiply not found")
	}
	alts := t.expandFunc(mult)
	var b strings.Builder
	b.WriteString(header)
	b.WriteString("\nnamespace TraceFacts\n\n")
	if t.fail != "" {
		// the schedule of Multiply is not a function of (nil?, one?) alone: recorded, and the C19 theorem will not build
		// (the names the driver refers to stay defined, so only the C19 theorems stop checking, not every build)
		fmt.Fprintf(&b, "/-- extraction failed: %s -/\ndef extractionFailure : String := %q\n\n", t.fail, t.fail)
		b.WriteString("def ladderPrefix : List String := []\ndef ladderLoops : List String := []\ndef ladderSuffix : List String := []\ndef multiplyAlternatives : List (List String) := []\n\ndef multiplyGuards : List Nat := []\n\nend TraceFacts\n")
		writeIfChanged(out+"/TraceFacts.lean", b.String())
		return
	}
	// the ladder alternative (the last one, of the function that contains the loop), cut at its repetitions: what comes
	// before the first, the repetitions themselves, what comes after the last
	var ladderFn *types.Func
	ladderDefs := "def ladderPrefix : List String := []\ndef ladderLoops : List String := []\ndef ladderSuffix : List String := []\n"
	{
		var pre, loops, post []string
		for _, fn := range t.order {
			as := t.memo[fn]
			if len(as) == 0 {
				continue
			}
			last := as[len(as)-1]
			hasLoop := false
			for _, it := range last.items {
				if strings.HasPrefix(it, "(List.replicate ") {
					hasLoop = true
				}
			}
			if !hasLoop || !strings.HasSuffix(mangle(fn), "_multiply") {
				continue
			}
			pre, loops, post = nil, nil, nil
			ladderFn = fn
			for _, it := range last.items {
				switch {
				case strings.HasPrefix(it, "(List.replicate "):
					loops = append(loops, post...) // anything between two repetitions stays with the loops
					post = nil
					loops = append(loops, it)
				case len(loops) == 0:
					pre = append(pre, it)
				default:
					post = append(post, it)
				}
			}
		}
		join := func(xs []string) string {
			if len(xs) == 0 {
				return "[]"
			}
			return strings.Join(xs, " ++ ")
		}
		ladderDefs = fmt.Sprintf("/-- the ladder alternative of `multiply`, cut at its loop -/\ndef ladderPrefix : List String := %s\ndef ladderLoops : List String := %s\ndef ladderSuffix : List String := %s\n", join(pre), join(loops), join(post))
	}
	for _, fn := range t.order {
		as := t.memo[fn]
		for i, a := range as {
			name := mangle(fn)
			if len(as) > 1 {
				name = fmt.Sprintf("%s_alt%d", name, i)
			}
			body := key(a)
			if body == "" {
				body = "[]"
			}
			if fn == ladderFn && i == len(as)-1 {
				b.WriteString(ladderDefs)
				ladderDefs = ""
				body = "ladderPrefix ++ ladderLoops ++ ladderSuffix"
			}
			fmt.Fprintf(&b, "def %s : List String := %s\n", name, body)
		}
	}
	b.WriteString(ladderDefs)
	fmt.Fprintf(&b, "\n/-- alternatives of `(*Element).Multiply`, early exits first, in source order -/\ndef multiplyAlternatives : List (List String) := [")
	for i := range alts {
		if i > 0 {
			b.WriteString(", ")
		}
		name := mangle(mult)
		if len(alts) > 1 {
			name = fmt.Sprintf("%s_alt%d", name, i)
		}
		b.WriteString(name)
	}
	b.WriteString("]\n\n/-- for each alternative: 0, or 1 + the index of the parameter whose nil-ness selects it -/\ndef multiplyGuards : List Nat := [")
	for i, a := range alts {
		if i > 0 {
			b.WriteString(", ")
		}
		fmt.Fprintf(&b, "%d", a.guard)
	}
	b.WriteString("]\n\nend TraceFacts\n")
	writeIfChanged(out+"/TraceFacts.lean", b.String())
}
