package main

// Byte-slice mode: the imperative byte-slice code of xmd.go (expand_message_xmd and its helpers) is translated into
// Lean functions in the `Option` monad over `List Nat` (`none` = the Go code panics or does not terminate).
//
// Value semantics is justified by an alias discipline that the translator *checks* while translating and refuses
// (NOT TRANSLATED) when it cannot establish it:
//   - every slice variable belongs to an alias class (make / literal / conversion / h.Sum(nil) open a fresh class, a
//     re-slice or an append stays in the class of its operand, a call result is in the class of the argument the callee
//     may return, two branches of an `if` merge their classes);
//   - a write through a variable (index store, copy destination, append base, PutUint16 destination, an argument a
//     callee writes) is accepted only when no other variable of the same class is in scope, so no other variable's
//     value can change behind the model's back;
//   - a write into a parameter's class is only accepted through the parameter itself and is returned to the caller
//     (write-back: the callee returns the parameter's final value, the call site rebinds the argument variable);
//   - an append to a parameter's class is recorded (`callerMemoryAppends`): it cannot change any value the model sees
//     but it writes into the caller's backing array beyond the slice's length — exactly the defect C15 is about;
//   - at a call the written argument must not share its class with any other argument;
//   - around a loop the partition of the variables into classes must be the same after the body as before it.
//
// Integers: `uint` is 64 bits (wrap-around explicit), `uint16`, `byte` conversions are `% 2^w`; `int` arithmetic is only
// accepted on slice lengths and constants, where it cannot overflow. `hash.Hash` values are modelled by the bytes written
// since the last Reset, `Sum(nil)` by the hash function parameter `H` applied to them; `crypto.SHA256.Size()` is 32;
// `binary.BigEndian.PutUint16` stores the two big-endian bytes; `uint(math.Ceil(float64(a)/float64(d)))` with `d` a
// power of two is `Prim.ceilDivF64` (IEEE-754 rounding of `a` to 53 bits modelled exactly).

import (
	"fmt"
	"go/ast"
	"go/constant"
	"go/token"
	"go/types"
	"path/filepath"
	"sort"
	"strings"
)

type slKind int

const (
	kNat slKind = iota
	kBytes
	kBytesList
	kHash
	kUnit
	kElem   // *field.Element: a value of the abstract field type α
	kPoint  // *Element: Pt α
	kScalar // *Scalar: its four limbs
	kLimbs  // (pointer to) four uint64 limbs, in the packages internal/field and internal/scalar
	kErr    // error: none, or the name of the package's error variable
	kString // string
	kBig    // *big.Int: a natural number (the package only builds them from byte strings)
)

type slVar struct {
	name     string
	kind     slKind
	class    int
	param    int // index among the parameters, -1 for locals
	reassign bool
	declPos  token.Pos
	nonneg   bool // an int variable that cannot be negative (a loop index)
	wrapped  bool // an optional parameter before its nil test: an `Option` value
}

type slParam struct {
	name     string
	kind     slKind
	optional bool // a pointer parameter the function tests against nil: an `Option`
	byValue  bool // an array parameter: the callee works on a copy
}

type slSum struct {
	goName, leanName string
	params           []slParam
	writes           []int    // parameters written and handed back (index order)
	appends          []int    // parameters whose backing array may be appended into
	rets             []int    // parameters the result may share memory with
	ret              slKind   // kind of the call's value in an expression
	results          []slKind // results that are components of the returned tuple (after the written parameters)
	retParam         int      // >= 0: the function returns this pointer parameter (not a tuple component)
	owner            *slGen
	usesH            bool
	usesF, usesB     bool
	usesBY           bool     // the byte-level methods of field.Element the point codec calls (ByteOps)
	usesOPS          bool     // the operations record the scalar inversion chain is generic over
	usesFuel         bool     // contains (or calls) a `for cond { }` loop: an explicit bound on its iterations
	rngParam         int      // >= 0: index of the hidden parameter holding the entropy stream (crypto/rand.Reader)
	aux              []string // loop bodies, emitted before the function
	text             string
	failed           string
}

type slGen struct {
	imp   *srcImporter
	info  *types.Info
	decls map[string]*ast.FuncDecl
	sums  map[string]*slSum
	busy  map[string]bool
	order []string
	// the package being translated and, for internal/field and internal/scalar, where its Fiat-mode definitions are
	pkgPath, fiatPkg, fiatNS string
	bytesRoots               map[string]bool
	mode, ns                 string            // slMode while translating this package; Lean namespace of its output
	subs                     map[string]*slGen // generators of the packages this one may call into
}

type slFn struct {
	g          *slGen
	sum        *slSum
	vars       map[types.Object]*slVar
	classes    map[int]map[int]bool // class -> parameter indices whose memory it may be
	next       int
	tmp        int
	lines      *[]string
	ind        string
	paramVar   []*slVar
	usesH      bool
	touched    map[*slVar]bool
	loops      int
	inIndex    int // >0 while translating an index or slice bound: a negative value there is a panic
	inNilTest  bool
	lastRetVar *slVar // set by call() when the call's value is one of its argument variables
	rngVar     *slVar // the entropy stream, when the function reads crypto/rand.Reader
}

func slKindOf(t types.Type) (slKind, bool) {
	if isLimbType(t) {
		return kLimbs, true
	}
	switch u := t.Underlying().(type) {
	case *types.Basic:
		if u.Info()&types.IsInteger != 0 {
			return kNat, true
		}
		if u.Info()&types.IsString != 0 {
			return kString, true
		}
	case *types.Slice:
		if b, ok := u.Elem().Underlying().(*types.Basic); ok && b.Kind() == types.Uint8 {
			return kBytes, true
		}
		if s, ok := u.Elem().Underlying().(*types.Slice); ok {
			if b, ok := s.Elem().Underlying().(*types.Basic); ok && b.Kind() == types.Uint8 {
				return kBytesList, true
			}
		}
	case *types.Array:
		if b, ok := u.Elem().Underlying().(*types.Basic); ok && b.Kind() == types.Uint8 {
			return kBytes, true
		}
	case *types.Interface:
		if t.String() == "hash.Hash" {
			return kHash, true
		}
		if t.String() == "error" {
			return kErr, true
		}
	case *types.Pointer:
		if u.Elem().String() == "math/big.Int" {
			return kBig, true
		}
		switch u.Elem().String() {
		case modPath + ".Element":
			return kPoint, true
		case modPath + ".Scalar":
			return kScalar, true
		case modPath + "/internal/field.Element":
			return kElem, true
		}
	}
	return 0, false
}

// classed: kinds whose values are references into memory that may be shared
func classed(k slKind) bool {
	return k == kBytes || k == kBytesList || k == kPoint || k == kLimbs || k == kScalar
}

func leanKind(k slKind) string {
	switch k {
	case kNat:
		return "Nat"
	case kBytes, kHash:
		return "List Nat"
	case kBytesList:
		return "List (List Nat)"
	case kElem:
		return "α"
	case kPoint:
		return "Pt α"
	case kScalar, kLimbs:
		return "L4"
	case kErr:
		return "Option String"
	case kString:
		return "String"
	case kBig:
		return "Nat"
	}
	return "Unit"
}

func (f *slFn) fail(format string, a ...any) { panic(fmt.Sprintf(format, a...)) }

func (f *slFn) emit(format string, a ...any) {
	*f.lines = append(*f.lines, f.ind+fmt.Sprintf(format, a...))
}

func (f *slFn) fresh() string { f.tmp++; return fmt.Sprintf("t%d", f.tmp) }

func (f *slFn) newClass(params ...int) int {
	f.next++
	m := map[int]bool{}
	for _, p := range params {
		m[p] = true
	}
	f.classes[f.next] = m
	return f.next
}

func (f *slFn) members(c int, except *slVar) []string {
	var out []string
	for _, v := range f.vars {
		if v != except && classed(v.kind) && v.class == c {
			out = append(out, v.name)
		}
	}
	sort.Strings(out)
	return out
}

func (f *slFn) mergeClasses(a, b int) int {
	if a == b {
		return a
	}
	for p := range f.classes[b] {
		f.classes[a][p] = true
	}
	for _, v := range f.vars {
		if v.class == b {
			v.class = a
		}
	}
	delete(f.classes, b)
	return a
}

// write records a write through variable v (isAppend: beyond its length only).
func (f *slFn) write(v *slVar, isAppend bool, what string) {
	if v.kind == kHash {
		if v.param >= 0 {
			f.addWrite(v.param)
		}
		return
	}
	if o := f.members(v.class, v); len(o) > 0 {
		f.fail("%s writes through %s while %s may share its memory", what, v.name, strings.Join(o, ", "))
	}
	ps := f.classes[v.class]
	if len(ps) == 0 {
		return
	}
	if len(ps) != 1 || v.param < 0 || !ps[v.param] || v.class != f.paramVar[v.param].class {
		f.fail("%s writes caller memory through %s, which is not the parameter itself", what, v.name)
	}
	if isAppend {
		for _, q := range f.sum.appends {
			if q == v.param {
				return
			}
		}
		f.sum.appends = append(f.sum.appends, v.param)
		sort.Ints(f.sum.appends)
		return
	}
	if v.reassign {
		f.fail("%s writes through parameter %s after it was reassigned", what, v.name)
	}
	f.addWrite(v.param)
}

func (f *slFn) addWrite(p int) {
	for _, q := range f.sum.writes {
		if q == p {
			return
		}
	}
	f.sum.writes = append(f.sum.writes, p)
	sort.Ints(f.sum.writes)
}

func (f *slFn) lookup(id *ast.Ident) *slVar {
	obj := f.g.info.Uses[id]
	if obj == nil {
		obj = f.g.info.Defs[id]
	}
	if v, ok := f.vars[obj]; ok {
		if f.touched != nil {
			f.touched[v] = true
		}
		if v.wrapped && !f.inNilTest {
			f.fail("use of %s before its nil test", v.name)
		}
		return v
	}
	return nil
}

func (f *slFn) constVal(e ast.Expr) (string, bool) {
	if tv, ok := f.g.info.Types[e]; ok && tv.Value != nil && tv.Value.Kind() == constant.Int {
		if constant.Sign(tv.Value) < 0 {
			f.fail("negative constant %s", tv.Value)
		}
		return tv.Value.ExactString(), true
	}
	// crypto.SHA256.Size(): the digest size of the registered SHA-256 (modelled external)
	if c, ok := e.(*ast.CallExpr); ok && len(c.Args) == 0 {
		if s, ok := c.Fun.(*ast.SelectorExpr); ok && s.Sel.Name == "Size" {
			if tv, ok := f.g.info.Types[s.X]; ok && tv.Value != nil && tv.Type.String() == "crypto.Hash" && tv.Value.ExactString() == "5" {
				return "32", true
			}
		}
	}
	return "", false
}

func bitsOf(t types.Type) (int, bool) { // width, unsigned
	b, ok := t.Underlying().(*types.Basic)
	if !ok {
		return 0, false
	}
	switch b.Kind() {
	case types.Uint8:
		return 8, true
	case types.Uint16:
		return 16, true
	case types.Uint32:
		return 32, true
	case types.Uint64, types.Uint, types.Uintptr:
		return 64, true
	case types.Int, types.Int64:
		return 63, false
	case types.UntypedInt:
		return 63, false
	}
	return 0, false
}

// lengthLike: an int expression built from len(..), non-negative constants and `+`: cannot be negative or overflow.
func (f *slFn) lengthLike(e ast.Expr) bool {
	if _, ok := f.constVal(e); ok {
		return true
	}
	switch x := e.(type) {
	case *ast.ParenExpr:
		return f.lengthLike(x.X)
	case *ast.CallExpr:
		if id, ok := x.Fun.(*ast.Ident); ok && id.Name == "len" {
			return true
		}
	case *ast.BinaryExpr:
		if x.Op == token.ADD {
			return f.lengthLike(x.X) && f.lengthLike(x.Y)
		}
		if x.Op == token.QUO || x.Op == token.REM {
			if c, ok := f.constVal(x.Y); ok && c != "0" {
				return f.lengthLike(x.X)
			}
		}
	case *ast.Ident:
		if v := f.lookup(x); v != nil && v.kind == kNat {
			_, uns := bitsOf(f.g.info.TypeOf(x))
			return uns || v.nonneg
		}
	}
	return false
}

func (f *slFn) isConv(c *ast.CallExpr) (types.Type, bool) {
	if tv, ok := f.g.info.Types[c.Fun]; ok && tv.IsType() && len(c.Args) == 1 {
		return tv.Type, true
	}
	return nil, false
}

func selName(e ast.Expr) string {
	switch x := e.(type) {
	case *ast.Ident:
		return x.Name
	case *ast.SelectorExpr:
		return selName(x.X) + "." + x.Sel.Name
	}
	return "?"
}

func (f *slFn) natExpr(e ast.Expr) string {
	if c, ok := f.constVal(e); ok {
		return c
	}
	switch x := e.(type) {
	case *ast.ParenExpr:
		return f.natExpr(x.X)
	case *ast.Ident:
		if v := f.lookup(x); v != nil && v.kind == kNat {
			return v.name
		}
	case *ast.IndexExpr:
		if isLimbType(f.g.info.TypeOf(x.X)) {
			l, _, _ := f.limbExpr(x.X)
			c, ok := f.constVal(x.Index)
			if fld := limbField(c); ok && fld != "" {
				return slAtom(l) + "." + fld
			}
			if !ok && f.lengthLike(x.Index) {
				t := f.fresh()
				f.emit("let %s ← Prim.limbAt %s %s", t, slAtom(l), slAtom(f.natExpr(x.Index)))
				return t
			}
			f.fail("limb index")
		}
		b, _ := f.bytesExpr(x.X)
		f.inIndex++
		i := f.natExpr(x.Index)
		f.inIndex--
		t := f.fresh()
		f.emit("let %s ← (%s)[%s]?", t, b, i)
		return t
	case *ast.CallExpr:
		if id, ok := x.Fun.(*ast.Ident); ok && id.Name == "len" && len(x.Args) == 1 {
			if k, ok := slKindOf(f.g.info.TypeOf(x.Args[0])); ok && k == kBytesList {
				if v := f.lookup(x.Args[0].(*ast.Ident)); v != nil {
					return v.name + ".length"
				}
			}
			b, _ := f.bytesExpr(x.Args[0])
			return "(" + b + ").length"
		}
		if selName(x.Fun) == "binary.BigEndian.Uint64" && len(x.Args) == 1 {
			b, _ := f.bytesExpr(x.Args[0])
			t := f.fresh()
			f.emit("let %s ← Prim.beUint64 %s", t, slAtom(b))
			return t
		}
		if _, isC := f.isConv(x); !isC {
			if id, ok := x.Fun.(*ast.Ident); !ok || (id.Name != "len" && id.Name != "cap") {
				r, _, k := f.call(x)
				if k != kNat {
					f.fail("call %s does not return an integer", nodeText(f.g.imp.fset, x.Fun))
				}
				return r
			}
		}
		if to, ok := f.isConv(x); ok {
			// uint(math.Ceil(float64(a) / float64(d)))
			if in, ok := x.Args[0].(*ast.CallExpr); ok && selName(in.Fun) == "math.Ceil" && len(in.Args) == 1 {
				if q, ok := in.Args[0].(*ast.BinaryExpr); ok && q.Op == token.QUO {
					a, okA := q.X.(*ast.CallExpr)
					d, okD := q.Y.(*ast.CallExpr)
					if okA && okD && selName(a.Fun) == "float64" && selName(d.Fun) == "float64" {
						dv, isC := f.constVal(d.Args[0])
						wa, ua := bitsOf(f.g.info.TypeOf(a.Args[0]))
						wt, ut := bitsOf(to)
						pow2 := map[string]bool{"1": true, "2": true, "4": true, "8": true, "16": true, "32": true, "64": true, "128": true, "256": true, "512": true, "1024": true}
						if isC && pow2[dv] && ua && wa == 64 && ut && wt == 64 {
							return fmt.Sprintf("(Prim.ceilDivF64 %s %s)", f.natExpr(a.Args[0]), dv)
						}
					}
				}
				f.fail("floating point expression outside the modelled pattern")
			}
			wt, ut := bitsOf(to)
			if wt == 0 {
				f.fail("conversion to %s", to)
			}
			src := f.g.info.TypeOf(x.Args[0])
			ws, us := bitsOf(src)
			a := f.natExpr(x.Args[0])
			if !us && !f.lengthLike(x.Args[0]) {
				f.fail("conversion of a possibly negative value")
			}
			if ut && (ws <= wt) {
				return a
			}
			if !ut { // to int: value must fit
				if f.lengthLike(x.Args[0]) {
					return a
				}
				f.fail("conversion to a signed type")
			}
			return fmt.Sprintf("(%s %% %s)", a, pow2str(wt))
		}
	case *ast.BinaryExpr:
		w, uns := bitsOf(f.g.info.TypeOf(e))
		a, b := f.natExpr(x.X), f.natExpr(x.Y)
		if !uns {
			if x.Op == token.ADD && f.lengthLike(e) {
				return fmt.Sprintf("(%s + %s)", a, b)
			}
			if c, ok := f.constVal(x.Y); ok && c != "0" && (x.Op == token.QUO || x.Op == token.REM) && f.lengthLike(x.X) {
				if x.Op == token.QUO {
					return fmt.Sprintf("(%s / %s)", a, b)
				}
				return fmt.Sprintf("(%s %% %s)", a, b)
			}
			if x.Op == token.SUB && f.lengthLike(x.X) && f.lengthLike(x.Y) {
				t := f.fresh()
				f.emit("let %s ← Prim.subNat %s %s", t, slAtom(a), slAtom(b))
				return t
			}
			f.fail("signed arithmetic %s", x.Op)
		}
		m := pow2str(w)
		switch x.Op {
		case token.ADD:
			return fmt.Sprintf("((%s + %s) %% %s)", a, b, m)
		case token.SUB:
			return fmt.Sprintf("((%s + %s - %s) %% %s)", a, m, b, m)
		case token.MUL:
			return fmt.Sprintf("((%s * %s) %% %s)", a, b, m)
		case token.XOR:
			return fmt.Sprintf("(Nat.xor %s %s)", a, b)
		case token.AND:
			return fmt.Sprintf("(Nat.land %s %s)", a, b)
		case token.OR:
			return fmt.Sprintf("(Nat.lor %s %s)", a, b)
		case token.SHR:
			return fmt.Sprintf("(%s >>> %s)", a, b)
		case token.SHL:
			return fmt.Sprintf("((%s <<< %s) %% %s)", a, b, m)
		case token.QUO, token.REM:
			if c, ok := f.constVal(x.Y); ok && c != "0" {
				if x.Op == token.QUO {
					return fmt.Sprintf("(%s / %s)", a, b)
				}
				return fmt.Sprintf("(%s %% %s)", a, b)
			}
		}
	}
	f.fail("integer expression %s", nodeText(f.g.imp.fset, e))
	return ""
}

func pow2str(w int) string {
	switch w {
	case 8:
		return "256"
	case 16:
		return "65536"
	case 32:
		return "4294967296"
	case 64:
		return "18446744073709551616"
	}
	panic(fmt.Sprintf("width %d", w))
}

// bytesExpr returns the Lean expression and the alias class of a byte-slice expression.
func (f *slFn) bytesExpr(e ast.Expr) (string, int) {
	switch x := e.(type) {
	case *ast.ParenExpr:
		return f.bytesExpr(x.X)
	case *ast.Ident:
		if x.Name == "nil" {
			return "[]", f.newClass()
		}
		if v := f.lookup(x); v != nil && v.kind == kBytes {
			return v.name, v.class
		}
	case *ast.SliceExpr:
		if x.Slice3 {
			f.fail("three-index slice")
		}
		b, c := f.bytesExpr(x.X)
		if x.Low == nil && x.High == nil {
			return b, c
		}
		lo, hi := "0", "("+b+").length"
		f.inIndex++
		if x.Low != nil {
			lo = f.natExpr(x.Low)
		}
		if x.High != nil {
			hi = f.natExpr(x.High)
		}
		f.inIndex--
		t := f.fresh()
		f.emit("let %s ← Prim.slice %s %s %s", t, slAtom(b), slAtom(lo), slAtom(hi))
		return t, c
	case *ast.CompositeLit:
		var el []string
		for _, a := range x.Elts {
			if _, ok := a.(*ast.KeyValueExpr); ok {
				f.fail("keyed literal")
			}
			el = append(el, f.natExpr(a))
		}
		return "[" + strings.Join(el, ", ") + "]", f.newClass()
	case *ast.CallExpr:
		if to, ok := f.isConv(x); ok {
			if k, ok := slKindOf(to); ok && k == kBytes {
				if tv := f.g.info.Types[x.Args[0]]; tv.Value != nil && tv.Value.Kind() == constant.String {
					s := constant.StringVal(tv.Value)
					var el []string
					for _, c := range []byte(s) {
						el = append(el, fmt.Sprint(int(c)))
					}
					return "[" + strings.Join(el, ", ") + "]", f.newClass()
				}
			}
			f.fail("conversion %s", nodeText(f.g.imp.fset, e))
		}
		if selName(x.Fun) == "slices.Grow" && len(x.Args) == 2 {
			// slices.Grow(s, n): the same bytes; the result may or may not share the backing array of s (kept in its class)
			_ = f.natExpr(x.Args[1])
			return f.bytesExpr(x.Args[0])
		}
		if id, ok := x.Fun.(*ast.Ident); ok {
			switch id.Name {
			case "make":
				if len(x.Args) >= 2 {
					n := f.natExpr(x.Args[1])
					if len(x.Args) == 3 {
						_ = f.natExpr(x.Args[2]) // the capacity does not exist in the value model
					}
					if n == "0" {
						return "[]", f.newClass()
					}
					return fmt.Sprintf("(List.replicate %s 0)", slAtom(n)), f.newClass()
				}
			case "append":
				base, c := f.bytesExpr(x.Args[0])
				if v := f.baseVar(x.Args[0]); v != nil {
					f.write(v, true, "append")
				} else if len(f.classes[c]) > 0 {
					f.fail("append to caller memory through an expression")
				}
				if x.Ellipsis.IsValid() {
					s, _ := f.bytesExpr(x.Args[1])
					return fmt.Sprintf("(%s ++ %s)", base, s), c
				}
				var el []string
				for _, a := range x.Args[1:] {
					el = append(el, f.natExpr(a))
				}
				return fmt.Sprintf("(%s ++ [%s])", base, strings.Join(el, ", ")), c
			}
		}
		if s, ok := x.Fun.(*ast.SelectorExpr); ok {
			if fn, ok := f.g.info.Uses[s.Sel].(*types.Func); ok && fn.FullName() == "(*"+modPath+".Element).Encode" && len(x.Args) == 0 {
				// the regenerated point encoder (decoder/encoder mode): a fresh buffer, the receiver is only read
				if len(f.ptrRet(fn)) != 0 || f.ptrWrites(fn, 0) {
					f.fail("Encode writes its receiver or returns memory of it")
				}
				r, _, k := f.opaqueExpr(s.X)
				if k != kPoint {
					f.fail("receiver of Encode")
				}
				f.sum.usesF, f.sum.usesBY = true, true
				return fmt.Sprintf("(GenDecode.encode BY F %s)", slAtom(r)), f.newClass()
			}
			if id, ok := s.X.(*ast.Ident); ok {
				if v := f.lookup(id); v != nil && v.kind == kBig && s.Sel.Name == "Bytes" && len(x.Args) == 0 {
					return fmt.Sprintf("(Prim.natBytes %s)", v.name), f.newClass()
				}
				if v := f.lookup(id); v != nil && v.kind == kHash && s.Sel.Name == "Sum" && len(x.Args) == 1 {
					if a, ok := x.Args[0].(*ast.Ident); ok && a.Name == "nil" {
						f.usesH = true
						return fmt.Sprintf("(H %s)", v.name), f.newClass()
					}
					f.fail("Sum with a non-nil argument")
				}
			}
		}
		r, c, k := f.call(x)
		if k != kBytes {
			f.fail("call %s does not return bytes", nodeText(f.g.imp.fset, x.Fun))
		}
		return r, c
	}
	f.fail("byte expression %s", nodeText(f.g.imp.fset, e))
	return "", 0
}

// ptrRet: the parameter positions (receiver first) a pointer returned by the module function may point into, from the
// may-write/return analysis of ptrfacts.go.
func (f *slFn) ptrRet(fn *types.Func) []int {
	a := newPtrAnalysis()
	a.analyse(fn)
	r := append([]int{}, a.ret[fn]...)
	sort.Ints(r)
	return r
}

// ptrWrites: may the function write the memory its parameter number idx (receiver first) points to?
func (f *slFn) ptrWrites(fn *types.Func, idx int) bool {
	a := newPtrAnalysis()
	return len(a.analyse(fn)[idx]) > 0
}

func sameInts(a, b []int) bool {
	if len(a) != len(b) {
		return false
	}
	for i := range a {
		if a[i] != b[i] {
			return false
		}
	}
	return true
}

// toArray: `[N]byte(s)` — panics when s is shorter than N
func (f *slFn) toArray(e ast.Expr) string {
	c, ok := e.(*ast.CallExpr)
	if !ok {
		f.fail("array argument %s", nodeText(f.g.imp.fset, e))
	}
	to, ok := f.isConv(c)
	if !ok {
		f.fail("array argument %s", nodeText(f.g.imp.fset, e))
	}
	arr, ok := to.Underlying().(*types.Array)
	if !ok {
		f.fail("array argument %s", nodeText(f.g.imp.fset, e))
	}
	if k, ok := slKindOf(to); !ok || k != kBytes {
		f.fail("array argument %s", nodeText(f.g.imp.fset, e))
	}
	b, _ := f.bytesExpr(c.Args[0])
	t := f.fresh()
	f.emit("let %s ← Prim.toArray %s %d", t, slAtom(b), arr.Len())
	return t
}

// opaqueExpr translates an expression of kind field element / point / scalar: (Lean expression, alias class, kind).
func (f *slFn) opaqueExpr(e ast.Expr) (string, int, slKind) {
	switch x := e.(type) {
	case *ast.ParenExpr:
		return f.opaqueExpr(x.X)
	case *ast.Ident:
		if v := f.lookup(x); v != nil && (v.kind == kElem || v.kind == kPoint || v.kind == kScalar) {
			return v.name, v.class, v.kind
		}
	case *ast.CallExpr:
		if sel, ok := x.Fun.(*ast.SelectorExpr); ok {
			// field.New().HashToFieldElement([48]byte(..))
			if in, ok := sel.X.(*ast.CallExpr); ok && selName(in.Fun) == "field.New" && sel.Sel.Name == "HashToFieldElement" && len(x.Args) == 1 {
				arr := f.toArray(x.Args[0])
				f.sum.usesB = true
				return fmt.Sprintf("(B.hashToField %s)", arr), -1, kElem
			}
			if fn, ok := f.g.info.Uses[sel.Sel].(*types.Func); ok && strings.HasPrefix(fn.FullName(), "(*"+modPath+".Element).") {
				switch fn.Name() {
				case "Double", "Identity":
					rv := f.baseVar(sel.X)
					if rv == nil || rv.kind != kPoint || len(x.Args) != 0 {
						f.fail("receiver of %s is not a variable", fn.Name())
					}
					if !sameInts(f.ptrRet(fn), []int{0}) {
						f.fail("%s no longer returns its receiver only", fn.Name())
					}
					f.sum.usesF = true
					f.write(rv, false, fn.Name())
					if fn.Name() == "Double" {
						f.emit("let %s := GenElementAPI.double F %s", rv.name, rv.name)
					} else {
						f.emit("let %s := GenElementAPI.identity F", rv.name)
					}
					return rv.name, rv.class, kPoint
				case "set":
					rv := f.baseVar(sel.X)
					if rv == nil || rv.kind != kPoint || len(x.Args) != 1 {
						f.fail("receiver of set is not a variable")
					}
					if !sameInts(f.ptrRet(fn), []int{0}) {
						f.fail("set no longer returns its receiver only")
					}
					arg, _, ak := f.opaqueExpr(x.Args[0])
					if ak != kPoint {
						f.fail("argument of set")
					}
					f.sum.usesF = true
					f.write(rv, false, "set")
					f.emit("let %s := GenElementAPI.setRaw F %s", rv.name, slAtom(arg))
					return rv.name, rv.class, kPoint
				case "Base":
					// overwrites all three coordinates of its receiver and returns it
					if !sameInts(f.ptrRet(fn), []int{0}) || len(x.Args) != 0 {
						f.fail("Base no longer returns its receiver only")
					}
					f.sum.usesF = true
					if rv := f.baseVar(sel.X); rv != nil && rv.kind == kPoint {
						f.write(rv, false, "Base")
						f.emit("let %s := GenElementAPI.base F", rv.name)
						return rv.name, rv.class, kPoint
					}
					_, c, rk := f.opaqueExpr(sel.X)
					if rk != kPoint {
						f.fail("receiver of Base")
					}
					return "(GenElementAPI.base F)", c, kPoint
				case "copy":
					if len(f.ptrRet(fn)) != 0 || len(x.Args) != 0 {
						f.fail("copy may return its receiver")
					}
					r, _, rk := f.opaqueExpr(sel.X)
					if rk != kPoint {
						f.fail("receiver of copy")
					}
					f.sum.usesF = true
					return fmt.Sprintf("(GenElementAPI.copyRaw F %s)", slAtom(r)), f.newClass(), kPoint
				}
			}
			// q0.Add(q1)
			if fn, ok := f.g.info.Uses[sel.Sel].(*types.Func); ok && fn.FullName() == "(*"+modPath+".Element).Add" && len(x.Args) == 1 {
				rv := f.baseVar(sel.X)
				if rv == nil || rv.kind != kPoint {
					f.fail("receiver of Add is not a variable")
				}
				if !sameInts(f.ptrRet(fn), []int{0}) {
					f.fail("Add no longer returns its receiver only")
				}
				arg, ac, ak := f.opaqueExpr(x.Args[0])
				if ak != kPoint {
					f.fail("argument of Add")
				}
				f.sum.usesF = true
				if av := f.baseVar(x.Args[0]); av == rv {
					f.write(rv, false, "Add")
					f.emit("let %s := GenElementAPI.add_ev F %s", rv.name, rv.name)
					return rv.name, rv.class, kPoint
				}
				if ac == rv.class {
					f.fail("Add: receiver and argument may be the same element")
				}
				f.write(rv, false, "Add")
				f.emit("let %s := GenElementAPI.add_e_v F %s (some %s)", rv.name, rv.name, slAtom(arg))
				return rv.name, rv.class, kPoint
			}
		}
		if id, ok := x.Fun.(*ast.Ident); ok {
			if fn, ok := f.g.info.Uses[id].(*types.Func); ok && fn.Pkg() != nil && fn.Pkg().Path() == modPath {
				switch fn.Name() {
				case "SSWU":
					if len(f.ptrRet(fn)) != 0 {
						f.fail("SSWU may return its argument")
					}
					a, _, k := f.opaqueExpr(x.Args[0])
					if k != kElem {
						f.fail("argument of SSWU")
					}
					f.sum.usesF = true
					return fmt.Sprintf("(Curve.sswu F %s)", slAtom(a)), f.newClass(), kPoint
				case "IsogenySecp256k13iso":
					if !sameInts(f.ptrRet(fn), []int{0}) {
						f.fail("IsogenySecp256k13iso no longer returns its argument only")
					}
					a, c, k := f.opaqueExpr(x.Args[0])
					if k != kPoint {
						f.fail("argument of IsogenySecp256k13iso")
					}
					f.sum.usesF = true
					if v := f.baseVar(x.Args[0]); v != nil {
						f.write(v, false, "IsogenySecp256k13iso")
						f.emit("let %s := Curve.isogeny F %s", v.name, v.name)
						return v.name, c, kPoint
					}
					return fmt.Sprintf("(Curve.isogeny F %s)", slAtom(a)), c, kPoint
				case "NewScalar":
					if len(x.Args) == 0 {
						return "(⟨0, 0, 0, 0⟩ : L4)", -1, kScalar
					}
				case "newElement":
					if len(f.ptrRet(fn)) != 0 || len(x.Args) != 0 {
						f.fail("newElement")
					}
					f.sum.usesF = true
					return "(GenElementAPI.newElement F)", f.newClass(), kPoint
				}
			}
		}
	}
	if c, ok := e.(*ast.CallExpr); ok {
		if fn, _, _, _ := f.resolveCallee(c); fn != nil {
			r, cl, k := f.call(c)
			if k == kElem || k == kPoint || k == kScalar {
				return r, cl, k
			}
		}
	}
	f.fail("expression %s", nodeText(f.g.imp.fset, e))
	return "", 0, 0
}

func slAtom(s string) string {
	if strings.ContainsAny(s, " ") && !(strings.HasPrefix(s, "(") && strings.HasSuffix(s, ")")) && !(strings.HasPrefix(s, "[") && strings.HasSuffix(s, "]")) {
		return "(" + s + ")"
	}
	return s
}

func (f *slFn) baseVar(e ast.Expr) *slVar {
	switch x := e.(type) {
	case *ast.ParenExpr:
		return f.baseVar(x.X)
	case *ast.Ident:
		return f.lookup(x)
	}
	return nil
}

// call translates a call of a function of the module; returns (result expression, class, kind).
// resolveCallee: the module function or method a call refers to, the generator that owns its package, its key
// ("Name" or "Recv.Name") and the arguments with the receiver first.
func (f *slFn) resolveCallee(x *ast.CallExpr) (*types.Func, *slGen, string, []ast.Expr) {
	var fn *types.Func
	var key string
	var args []ast.Expr
	switch fun := x.Fun.(type) {
	case *ast.Ident:
		fn, _ = f.g.info.Uses[fun].(*types.Func)
		key = fun.Name
		args = x.Args
	case *ast.SelectorExpr:
		if si := f.g.info.Selections[fun]; si != nil && si.Kind() == types.MethodVal {
			if m, ok := si.Obj().(*types.Func); ok {
				fn = m
				key = recvTypeName(m.Type().(*types.Signature).Recv().Type()) + "." + m.Name()
				args = append([]ast.Expr{fun.X}, x.Args...)
			}
		} else if pk, ok := fun.X.(*ast.Ident); ok {
			if _, isPkg := f.g.info.Uses[pk].(*types.PkgName); isPkg {
				fn, _ = f.g.info.Uses[fun.Sel].(*types.Func)
				key = fun.Sel.Name
				args = x.Args
			}
		}
	}
	if fn == nil || fn.Pkg() == nil {
		return nil, nil, "", nil
	}
	og := f.g
	if fn.Pkg().Path() != f.g.pkgPath {
		og = f.g.subs[fn.Pkg().Path()]
	}
	if og == nil {
		return nil, nil, "", nil
	}
	return fn, og, key, args
}

func (g *slGen) fiatSig(key string) *fiatSig {
	if g.fiatPkg == "" || g.bytesRoots[key] || strings.Contains(key, ".") {
		return nil
	}
	return fiatSigs[g.fiatPkg][key]
}

// translateIn translates a function of this generator's package under its own reading of the types
func (g *slGen) translateIn(key string) *slSum {
	old := slMode
	slMode = g.mode
	defer func() { slMode = old }()
	return g.translate(key)
}

func recvTypeName(t types.Type) string {
	if p, ok := t.(*types.Pointer); ok {
		t = p.Elem()
	}
	if n, ok := t.(*types.Named); ok {
		return n.Obj().Name()
	}
	return "?"
}

func hasInt(xs []int, x int) bool {
	for _, y := range xs {
		if y == x {
			return true
		}
	}
	return false
}

// call translates a call of a function or method of the package being translated (or of one of its Fiat-mode
// definitions); returns (value of the call as an expression, its alias class, its kind).
func (f *slFn) call(x *ast.CallExpr) (string, int, slKind) {
	fn, og, key, callArgs := f.resolveCallee(x)
	if fn == nil {
		f.fail("call %s", nodeText(f.g.imp.fset, x.Fun))
	}
	if sg := og.fiatSig(key); sg != nil {
		r := f.fiatCall(x, sg, og.fiatNS)
		if r == "" {
			return "", -1, kUnit
		}
		return r, -1, kNat
	}
	if og.mode == "scalar" && key == "scalar.Invert" && len(callArgs) == 2 {
		// the addition chain, translated by the chain mode generically over the operations record
		_, _, rv := f.limbExpr(callArgs[0])
		xe, _, _ := f.limbExpr(callArgs[1])
		if rv == nil {
			f.fail("receiver of the inversion chain is not a variable")
		}
		if !sameInts(f.ptrRet(fn), []int{0}) {
			f.fail("the inversion chain no longer returns its receiver only")
		}
		f.sum.usesOPS = true
		f.write(rv, false, "Invert")
		f.emit("let %s := ScalarChain.invert OPS %s", rv.name, slAtom(xe))
		return rv.name, rv.class, kLimbs
	}
	s := og.translateIn(key)
	if s.failed != "" {
		f.fail("callee %s not translated", key)
	}
	callee := s.leanName
	if og != f.g {
		callee = og.ns + "." + callee
	}
	var args []string
	var argVars []*slVar
	var argClass []int
	if s.usesOPS {
		f.sum.usesOPS = true
		args = append(args, "OPS")
	}
	if s.usesBY {
		f.sum.usesBY = true
		args = append(args, "BY")
	}
	if s.usesF {
		f.sum.usesF = true
		args = append(args, "F")
	}
	if s.usesB {
		f.sum.usesB = true
		args = append(args, "B")
	}
	if s.usesH {
		f.usesH = true
		args = append(args, "H")
	}
	if s.usesFuel {
		f.sum.usesFuel = true
		args = append(args, "fuel")
	}
	sig := fn.Type().(*types.Signature)
	for i, p := range s.params {
		if sig.Variadic() && i == len(s.params)-1 {
			if x.Ellipsis.IsValid() {
				f.fail("variadic forwarding")
			}
			var el []string
			for _, a := range callArgs[i:] {
				b, c := f.bytesExpr(a)
				el = append(el, b)
				argClass = append(argClass, c)
			}
			args = append(args, "["+strings.Join(el, ", ")+"]")
			argVars = append(argVars, nil)
			continue
		}
		if i == s.rngParam {
			if f.rngVar == nil {
				f.fail("%s reads the entropy source; the caller does not", s.goName)
			}
			args = append(args, f.rngVar.name)
			argVars = append(argVars, f.rngVar)
			argClass = append(argClass, f.rngVar.class)
			continue
		}
		if i >= len(callArgs) {
			f.fail("call arity")
		}
		a := callArgs[i]
		switch p.kind {
		case kNat:
			args = append(args, slAtom(f.natExpr(a)))
			argVars = append(argVars, nil)
			argClass = append(argClass, -1)
		case kBytes:
			if c, ok := a.(*ast.CallExpr); ok {
				if to, ok := f.isConv(c); ok {
					if _, isArr := to.Underlying().(*types.Array); isArr {
						args = append(args, f.toArray(a))
						argVars = append(argVars, nil)
						argClass = append(argClass, f.newClass())
						continue
					}
				}
			}
			b, c := f.bytesExpr(a)
			args = append(args, slAtom(b))
			argVars = append(argVars, f.baseVar(a))
			argClass = append(argClass, c)
		case kString:
			args = append(args, slAtom(f.strExpr(a)))
			argVars = append(argVars, nil)
			argClass = append(argClass, -1)
		case kLimbs, kScalar:
			e, c, v := f.limbExpr(a)
			if v == nil && hasInt(s.writes, i) {
				v = f.tmpVar(kLimbs, c, e)
				e = v.name
			}
			args = append(args, slAtom(e))
			argVars = append(argVars, v)
			if p.byValue {
				c = -1
			}
			argClass = append(argClass, c)
		case kHash:
			v := f.baseVar(a)
			if v == nil || v.kind != kHash {
				f.fail("hash argument")
			}
			args = append(args, v.name)
			argVars = append(argVars, v)
			argClass = append(argClass, -1)
		case kPoint, kElem:
			e, c, _ := f.opaqueExpr(a)
			v := f.baseVar(a)
			if v == nil && hasInt(s.writes, i) {
				v = f.tmpVar(p.kind, c, e)
				e = v.name
			}
			args = append(args, slAtom(e))
			argVars = append(argVars, v)
			argClass = append(argClass, c)
		default:
			f.fail("argument kind")
		}
		if p.optional {
			args[len(args)-1] = "(some " + args[len(args)-1] + ")"
		}
	}
	var outs []string
	touched := append(append([]int{}, s.writes...), s.appends...)
	for _, w := range touched {
		v := argVars[w]
		if v == nil {
			f.fail("%s writes its argument %d, which is not a variable here", s.goName, w)
		}
		if v.kind == kBytes || v.kind == kLimbs {
			for j, c := range argClass {
				if j != w && c == v.class && c >= 0 {
					f.fail("%s writes argument %d, which may share memory with argument %d", s.goName, w, j)
				}
			}
		}
	}
	for _, w := range s.appends {
		f.write(argVars[w], true, "call of "+s.goName)
	}
	for _, w := range s.writes {
		if argVars[w].declPos != token.NoPos || argVars[w].param >= 0 {
			f.write(argVars[w], false, "call of "+s.goName)
		}
		outs = append(outs, argVars[w].name)
	}
	var results []string
	for range s.results {
		r := f.fresh()
		results = append(results, r)
		outs = append(outs, r)
	}
	lhs := "_"
	if len(outs) == 1 {
		lhs = outs[0]
	} else if len(outs) > 1 {
		lhs = "(" + strings.Join(outs, ", ") + ")"
	}
	f.emit("let %s ← %s %s", lhs, callee, strings.Join(args, " "))
	if s.retParam >= 0 && len(s.results) == 0 {
		f.lastRetVar = argVars[s.retParam]
		return argVars[s.retParam].name, argClass[s.retParam], s.params[s.retParam].kind
	}
	if len(s.results) != 1 {
		return "", -1, kUnit
	}
	cls := -1
	if s.ret == kBytes || s.ret == kLimbs {
		switch len(s.rets) {
		case 0:
			cls = f.newClass()
		case 1:
			cls = argClass[s.rets[0]]
		default:
			f.fail("%s may return memory of several arguments", s.goName)
		}
	}
	return results[0], cls, s.ret
}

func (f *slFn) cond(e ast.Expr) string {
	if c, ok := e.(*ast.CallExpr); ok && len(c.Args) == 0 {
		if sel, ok := c.Fun.(*ast.SelectorExpr); ok && (sel.Sel.Name == "IsOne" || sel.Sel.Name == "IsZero") {
			if k, ok := slKindOf(f.g.info.TypeOf(sel.X)); ok && k == kScalar {
				v, _, _ := f.limbExpr(sel.X)
				return fmt.Sprintf("GenScalarAPI.%s %s = true", lowerFirst(sel.Sel.Name), slAtom(v))
			}
		}
	}
	switch x := e.(type) {
	case *ast.ParenExpr:
		return "(" + f.cond(x.X) + ")"
	case *ast.UnaryExpr:
		if x.Op == token.NOT {
			return "¬ (" + f.cond(x.X) + ")"
		}
	case *ast.BinaryExpr:
		if k, ok := slKindOf(f.g.info.TypeOf(x.X)); ok && k == kErr && (x.Op == token.NEQ || x.Op == token.EQL) {
			o := "="
			if x.Op == token.NEQ {
				o = "≠"
			}
			return fmt.Sprintf("%s %s %s", f.errExpr(x.X), o, f.errExpr(x.Y))
		}
		op := map[token.Token]string{token.LSS: "<", token.LEQ: "≤", token.GTR: ">", token.GEQ: "≥", token.EQL: "=", token.NEQ: "≠"}
		if o, ok := op[x.Op]; ok {
			return fmt.Sprintf("%s %s %s", f.natExpr(x.X), o, f.natExpr(x.Y))
		}
		if x.Op == token.LAND {
			return fmt.Sprintf("(%s) ∧ (%s)", f.cond(x.X), f.cond(x.Y))
		}
		if x.Op == token.LOR {
			return fmt.Sprintf("(%s) ∨ (%s)", f.cond(x.X), f.cond(x.Y))
		}
	}
	f.fail("condition %s", nodeText(f.g.imp.fset, e))
	return ""
}

// assigned lists the variables declared before `from` that the statements may assign or write (in order of name).
func (f *slFn) assigned(stmts []ast.Stmt, from token.Pos) []*slVar {
	set := map[*slVar]bool{}
	mark := func(e ast.Expr) {
		for {
			switch x := e.(type) {
			case *ast.ParenExpr:
				e = x.X
				continue
			case *ast.IndexExpr:
				e = x.X
				continue
			case *ast.SliceExpr:
				e = x.X
				continue
			case *ast.StarExpr:
				e = x.X
				continue
			case *ast.UnaryExpr:
				if x.Op == token.AND {
					e = x.X
					continue
				}
			case *ast.SelectorExpr:
				if x.Sel.Name == "E" || x.Sel.Name == "S" || x.Sel.Name == "s" {
					e = x.X
					continue
				}
			case *ast.CallExpr:
				if _, isConv := f.isConv(x); isConv {
					e = x.Args[0]
					continue
				}
			case *ast.Ident:
				if v := f.lookup(x); v != nil && v.declPos < from {
					set[v] = true
				}
			}
			return
		}
	}
	for _, s := range stmts {
		ast.Inspect(s, func(n ast.Node) bool {
			switch x := n.(type) {
			case *ast.AssignStmt:
				for _, l := range x.Lhs {
					mark(l)
				}
			case *ast.IncDecStmt:
				mark(x.X)
			case *ast.CallExpr:
				if id, ok := x.Fun.(*ast.Ident); ok {
					if id.Name == "copy" && len(x.Args) == 2 {
						mark(x.Args[0])
					}
				}
				pointMethod := false
				if sel, ok := x.Fun.(*ast.SelectorExpr); ok {
					if k, ok := slKindOf(f.g.info.TypeOf(sel.X)); ok && k == kPoint && f.g.info.Selections[sel] != nil {
						pointMethod = true // the methods of *Element go through the table of opaqueExpr (marked below)
					}
				}
				if fn, og, key, callArgs := f.resolveCallee(x); fn != nil && !pointMethod {
					if sg := og.fiatSig(key); sg != nil {
						for i := range sg.params {
							if sg.output[i] && i < len(x.Args) {
								mark(x.Args[i])
							}
						}
					} else if og.mode == "scalar" && key == "scalar.Invert" && len(callArgs) > 0 {
						mark(callArgs[0])
					} else {
						cs := og.translateIn(key)
						for _, w := range cs.writes {
							if w < len(callArgs) {
								mark(callArgs[w])
							}
						}
					}
				}
				if sel, ok := x.Fun.(*ast.SelectorExpr); ok {
					if id, ok := sel.X.(*ast.Ident); ok {
						if v := f.lookup(id); v != nil && v.kind == kHash && (sel.Sel.Name == "Write" || sel.Sel.Name == "Reset") {
							mark(id)
						}
						if v := f.lookup(id); v != nil && v.kind == kPoint {
							switch sel.Sel.Name {
							case "Add", "Double", "Identity", "set":
								mark(id)
							}
						}
					}
					if selName(sel) == "binary.BigEndian.PutUint16" && len(x.Args) == 2 {
						mark(x.Args[0])
					}
					if selName(sel) == "binary.BigEndian.PutUint64" && len(x.Args) == 2 {
						mark(x.Args[0])
					}
					if selName(sel) == "io.ReadFull" && len(x.Args) == 2 {
						mark(x.Args[1])
						if f.rngVar != nil {
							set[f.rngVar] = true
						}
					}
				}
			}
			return true
		})
	}
	var out []*slVar
	for v := range set {
		out = append(out, v)
	}
	sort.Slice(out, func(i, j int) bool { return out[i].name < out[j].name })
	return out
}

func tupleOf(vs []*slVar) string {
	switch len(vs) {
	case 0:
		return "()"
	case 1:
		return vs[0].name
	}
	var n []string
	for _, v := range vs {
		n = append(n, v.name)
	}
	return "(" + strings.Join(n, ", ") + ")"
}

func patOf(vs []*slVar) string {
	if len(vs) == 0 {
		return "_"
	}
	return tupleOf(vs)
}

func (f *slFn) declare(id *ast.Ident, k slKind, class int) *slVar {
	obj := f.g.info.Defs[id]
	if obj == nil {
		f.fail("declaration of %s", id.Name)
	}
	name := id.Name
	if strings.HasPrefix(name, "_") {
		name = "u" + name
	}
	switch name {
	case "at", "from", "at_", "end", "fun", "then", "else", "do", "let", "in", "open", "by", "show", "have", "type", "local":
		name = name + "_"
	}
	v := &slVar{name: name, kind: k, class: class, param: -1, declPos: id.Pos()}
	f.vars[obj] = v
	return v
}

func (f *slFn) snapshotPartition(vs map[types.Object]*slVar) string {
	byClass := map[int][]string{}
	for _, v := range vs {
		if classed(v.kind) {
			byClass[v.class] = append(byClass[v.class], v.name)
		}
	}
	var parts []string
	for c, ns := range byClass {
		sort.Strings(ns)
		var ps []string
		for p := range f.classes[c] {
			ps = append(ps, fmt.Sprint(p))
		}
		sort.Strings(ps)
		parts = append(parts, strings.Join(ns, ",")+"|"+strings.Join(ps, ","))
	}
	sort.Strings(parts)
	return strings.Join(parts, ";")
}

// scoped runs body and afterwards forgets the variables declared inside it.
func (f *slFn) scoped(body func()) {
	before := map[types.Object]bool{}
	for o := range f.vars {
		before[o] = true
	}
	body()
	for o := range f.vars {
		if !before[o] {
			delete(f.vars, o)
		}
	}
}

func (f *slFn) stmts(list []ast.Stmt) {
	for _, s := range list {
		f.stmt(s)
	}
}

func (f *slFn) assign(lhs ast.Expr, rhs ast.Expr, define bool) {
	id, ok := lhs.(*ast.Ident)
	if !ok {
		f.fail("assignment target %s", nodeText(f.g.imp.fset, lhs))
	}
	if id.Name == "_" {
		f.fail("blank assignment")
	}
	k, ok := slKindOf(f.g.info.TypeOf(lhs))
	if !ok {
		f.fail("type of %s", id.Name)
	}
	var v *slVar
	isNew := define && f.g.info.Defs[id] != nil
	switch k {
	case kNat:
		e := f.natExpr(rhs)
		if isNew {
			v = f.declare(id, kNat, -1)
		} else {
			v = f.lookup(id)
		}
		f.emit("let %s := %s", v.name, e)
	case kBytes:
		e, c := f.bytesExpr(rhs)
		if isNew {
			v = f.declare(id, kBytes, c)
		} else {
			v = f.lookup(id)
			if v.class != c {
				v.reassign = true
			}
			v.class = c
		}
		if e != v.name {
			f.emit("let %s : List Nat := %s", v.name, e)
		}
	case kHash:
		if c, ok := rhs.(*ast.CallExpr); ok && selName(c.Fun) == "crypto.SHA256.New" && isNew {
			v = f.declare(id, kHash, -1)
			f.emit("let %s : List Nat := []", v.name)
			return
		}
		f.fail("hash value from %s", nodeText(f.g.imp.fset, rhs))
	case kLimbs:
		e, c, bv := f.limbExpr(rhs)
		if isNew && bv != nil && pointerLike(f.g.info.TypeOf(lhs)) {
			// a copy of a pointer: another name for the same limbs
			f.vars[f.g.info.Defs[id]] = bv
			return
		}
		if isNew {
			v = f.declare(id, kLimbs, c)
		} else {
			v = f.lookup(id)
			if v.class != c {
				v.reassign = true
			}
			v.class = c
		}
		if e != v.name {
			f.emit("let %s : L4 := %s", v.name, e)
		}
	case kBig:
		e := f.bigExpr(rhs)
		if !isNew {
			f.fail("reassignment of a big integer variable")
		}
		v = f.declare(id, kBig, -1)
		f.emit("let %s : Nat := %s", v.name, e)
	case kErr:
		e := f.errExpr(rhs)
		if isNew {
			v = f.declare(id, kErr, -1)
		} else {
			v = f.lookup(id)
		}
		f.emit("let %s : Option String := %s", v.name, e)
	case kElem, kPoint, kScalar:
		if k == kScalar {
			if _, isCall := rhs.(*ast.CallExpr); isCall {
				// a scalar from a function of the package: limbs
				e, c, _ := f.limbExpr(rhs)
				if isNew {
					v = f.declare(id, k, c)
				} else {
					v = f.lookup(id)
					v.class = c
				}
				if e != v.name {
					f.emit("let %s : L4 := %s", v.name, e)
				}
				return
			}
		}
		e, c, ek := f.opaqueExpr(rhs)
		if ek != k {
			f.fail("kind of %s", nodeText(f.g.imp.fset, rhs))
		}
		if isNew {
			v = f.declare(id, k, c)
		} else {
			v = f.lookup(id)
			v.class = c
		}
		if e != v.name {
			f.emit("let %s : %s := %s", v.name, leanKind(k), e)
		}
	default:
		f.fail("assignment of kind %d", k)
	}
}

func (f *slFn) stmt(s ast.Stmt) {
	switch x := s.(type) {
	case *ast.DeclStmt:
		gd := x.Decl.(*ast.GenDecl)
		if gd.Tok != token.VAR {
			f.fail("declaration")
		}
		for _, sp := range gd.Specs {
			vs := sp.(*ast.ValueSpec)
			if len(vs.Values) != 0 {
				if len(vs.Values) != len(vs.Names) {
					f.fail("var with initialiser")
				}
				for i, id := range vs.Names {
					f.assign(id, vs.Values[i], true)
				}
				continue
			}
			for _, id := range vs.Names {
				t := f.g.info.TypeOf(id)
				if isLimbType(t) {
					if _, isPtr := t.Underlying().(*types.Pointer); isPtr {
						f.fail("nil limb pointer %s", id.Name)
					}
					v := f.declare(id, kLimbs, f.newClass())
					f.emit("let %s : L4 := ⟨0, 0, 0, 0⟩", v.name)
					continue
				}
				if a, ok := t.Underlying().(*types.Array); ok {
					if k, ok := slKindOf(t); ok && k == kBytes {
						v := f.declare(id, kBytes, f.newClass())
						f.emit("let %s : List Nat := List.replicate %d 0", v.name, a.Len())
						continue
					}
				}
				f.fail("var %s of type %s", id.Name, t)
			}
		}
	case *ast.AssignStmt:
		if len(x.Lhs) == 2 && len(x.Rhs) == 1 && x.Tok == token.DEFINE {
			if c, ok := x.Rhs[0].(*ast.CallExpr); ok && selName(c.Fun) == "hex.DecodeString" && len(c.Args) == 1 {
				b, okB := x.Lhs[0].(*ast.Ident)
				e, okE := x.Lhs[1].(*ast.Ident)
				if okB && okE && f.g.info.Defs[b] != nil && f.g.info.Defs[e] != nil {
					arg := f.strExpr(c.Args[0])
					bv := f.declare(b, kBytes, f.newClass())
					ev := f.declare(e, kErr, -1)
					f.emit("let (%s, %s) := Prim.hexDecodeString %s", bv.name, ev.name, slAtom(arg))
					return
				}
			}
		}
		if len(x.Lhs) == 2 && len(x.Rhs) == 1 && x.Tok == token.DEFINE {
			if c, ok := x.Rhs[0].(*ast.CallExpr); ok && selName(c.Fun) == "io.ReadFull" && len(c.Args) == 2 && selName(c.Args[0]) == "rand.Reader" {
				e, okE := x.Lhs[1].(*ast.Ident)
				sl, okS := c.Args[1].(*ast.SliceExpr)
				if isBlank(x.Lhs[0]) && okE && f.g.info.Defs[e] != nil && okS && sl.Low == nil && sl.High == nil && f.rngVar != nil {
					bv := f.baseVar(sl.X)
					if bv == nil || bv.kind != kBytes {
						f.fail("ReadFull destination")
					}
					f.write(bv, false, "ReadFull")
					ev := f.declare(e, kErr, -1)
					if f.touched != nil {
						f.touched[f.rngVar] = true
					}
					f.emit("let (%s, %s, %s) := Prim.readFull %s %s", f.rngVar.name, bv.name, ev.name, f.rngVar.name, bv.name)
					return
				}
			}
		}
		if len(x.Lhs) == 1 && len(x.Rhs) == 1 && x.Tok == token.ASSIGN && isBlank(x.Lhs[0]) {
			if c, ok := x.Rhs[0].(*ast.CallExpr); ok {
				if fn, _, _, _ := f.resolveCallee(c); fn != nil {
					f.call(c) // `_ = f(...)`: evaluated for its effects
					return
				}
			}
		}
		// _, _ = h.Write(x)
		if len(x.Lhs) == 2 && len(x.Rhs) == 1 {
			if c, ok := x.Rhs[0].(*ast.CallExpr); ok {
				if sel, ok := c.Fun.(*ast.SelectorExpr); ok && sel.Sel.Name == "Write" {
					if id, ok := sel.X.(*ast.Ident); ok {
						if v := f.lookup(id); v != nil && v.kind == kHash && isBlank(x.Lhs[0]) && isBlank(x.Lhs[1]) {
							b, _ := f.bytesExpr(c.Args[0])
							f.write(v, false, "Write")
							f.emit("let %s := %s ++ %s", v.name, v.name, b)
							return
						}
					}
				}
			}
		}
		if len(x.Lhs) == len(x.Rhs) && len(x.Lhs) > 1 && (x.Tok == token.DEFINE || x.Tok == token.ASSIGN) {
			// a, b = e1, e2: sequential when no right-hand side mentions a left-hand variable
			names := map[string]bool{}
			for _, l := range x.Lhs {
				id, ok := l.(*ast.Ident)
				if !ok || id.Name == "_" {
					f.fail("multiple assignment")
				}
				names[id.Name] = true
			}
			for _, r := range x.Rhs {
				ast.Inspect(r, func(n ast.Node) bool {
					if id, ok := n.(*ast.Ident); ok && names[id.Name] {
						f.fail("parallel assignment with dependent sides")
					}
					return true
				})
			}
			for i := range x.Lhs {
				f.assign(x.Lhs[i], x.Rhs[i], x.Tok == token.DEFINE)
			}
			return
		}
		if len(x.Lhs) != 1 || len(x.Rhs) != 1 {
			f.fail("multiple assignment")
		}
		if ix, ok := x.Lhs[0].(*ast.IndexExpr); ok {
			if x.Tok == token.ASSIGN && f.limbStore(ix, x.Rhs[0]) {
				return
			}
			v := f.baseVar(ix.X)
			if v == nil || v.kind != kBytes {
				f.fail("index store into %s", nodeText(f.g.imp.fset, ix.X))
			}
			i := f.natExpr(ix.Index)
			var val string
			switch x.Tok {
			case token.ASSIGN:
				val = f.natExpr(x.Rhs[0])
			case token.XOR_ASSIGN, token.OR_ASSIGN, token.AND_ASSIGN:
				old := f.fresh()
				f.emit("let %s ← %s[%s]?", old, v.name, i)
				op := map[token.Token]string{token.XOR_ASSIGN: "Nat.xor", token.OR_ASSIGN: "Nat.lor", token.AND_ASSIGN: "Nat.land"}[x.Tok]
				val = fmt.Sprintf("(%s %s %s)", op, old, slAtom(f.natExpr(x.Rhs[0])))
			default:
				f.fail("index store with %s", x.Tok)
			}
			if w, _ := bitsOf(f.g.info.TypeOf(x.Lhs[0])); w != 8 {
				f.fail("element width")
			}
			f.write(v, false, "index store")
			f.emit("let %s ← Prim.store %s %s %s", v.name, v.name, slAtom(i), slAtom(val))
			return
		}
		switch x.Tok {
		case token.DEFINE, token.ASSIGN:
			f.assign(x.Lhs[0], x.Rhs[0], x.Tok == token.DEFINE)
		default:
			f.fail("assignment operator %s", x.Tok)
		}
	case *ast.ExprStmt:
		c, ok := x.X.(*ast.CallExpr)
		if !ok {
			f.fail("expression statement")
		}
		if id, ok := c.Fun.(*ast.Ident); ok {
			switch id.Name {
			case "panic":
				f.emit("let _ ← (none : Option Unit)")
				return
			case "copy":
				if d, ok := c.Args[0].(*ast.SliceExpr); ok && d.Low == nil && d.High == nil {
					if sr, ok := c.Args[1].(*ast.SliceExpr); ok && sr.Low == nil && sr.High == nil {
						kd, okd := slKindOf(f.g.info.TypeOf(d.X))
						ks, oks := slKindOf(f.g.info.TypeOf(sr.X))
						if okd && oks && (kd == kLimbs || kd == kScalar) && (ks == kLimbs || ks == kScalar) {
							// copy(p[:], q[:]) on two four-limb arrays: all four limbs
							_, _, dv := f.limbExpr(d.X)
							se, _, _ := f.limbExpr(sr.X)
							if dv == nil {
								f.fail("copy destination")
							}
							f.write(dv, false, "copy")
							f.emit("let %s : L4 := %s", dv.name, se)
							return
						}
					}
				}
				if sl, ok := c.Args[0].(*ast.SliceExpr); ok && sl.High == nil && sl.Low != nil && !sl.Slice3 {
					// copy(dst[lo:], src)
					v := f.baseVar(sl.X)
					if v == nil || v.kind != kBytes {
						f.fail("copy destination")
					}
					f.inIndex++
					lo := f.natExpr(sl.Low)
					f.inIndex--
					src, _ := f.bytesExpr(c.Args[1])
					f.write(v, false, "copy")
					f.emit("let %s ← Prim.copyAt %s %s %s", v.name, v.name, slAtom(lo), slAtom(src))
					return
				}
				v := f.baseVar(c.Args[0])
				if v == nil || v.kind != kBytes {
					f.fail("copy destination")
				}
				src, _ := f.bytesExpr(c.Args[1])
				f.write(v, false, "copy")
				f.emit("let %s := Prim.copy %s %s", v.name, v.name, slAtom(src))
				return
			}
			f.call(c)
			return
		}
		if sel, ok := c.Fun.(*ast.SelectorExpr); ok {
			if id, ok := sel.X.(*ast.Ident); ok {
				if v := f.lookup(id); v != nil && v.kind == kHash && sel.Sel.Name == "Reset" && len(c.Args) == 0 {
					f.write(v, false, "Reset")
					f.emit("let %s : List Nat := []", v.name)
					return
				}
			}
			if id, ok := sel.X.(*ast.Ident); ok && sel.Sel.Name == "Exp" && len(c.Args) == 3 {
				if v := f.lookup(id); v != nil && v.kind == kBig {
					a, b, m := f.bigExpr(c.Args[0]), f.bigExpr(c.Args[1]), f.bigExpr(c.Args[2])
					f.emit("let %s : Nat := Prim.bigExp %s %s %s", v.name, a, b, m)
					return
				}
			}
			if selName(sel) == "binary.BigEndian.PutUint64" && len(c.Args) == 2 {
				sl, ok := c.Args[0].(*ast.SliceExpr)
				if !ok || sl.Slice3 {
					f.fail("PutUint64 destination")
				}
				v := f.baseVar(sl.X)
				if v == nil || v.kind != kBytes {
					f.fail("PutUint64 destination")
				}
				lo, hi := "0", v.name+".length"
				f.inIndex++
				if sl.Low != nil {
					lo = f.natExpr(sl.Low)
				}
				if sl.High != nil {
					hi = f.natExpr(sl.High)
				}
				f.inIndex--
				val := f.natExpr(c.Args[1])
				if w, u := bitsOf(f.g.info.TypeOf(c.Args[1])); w != 64 || !u {
					f.fail("PutUint64 value")
				}
				f.write(v, false, "PutUint64")
				f.emit("let %s ← Prim.putUint64BE %s %s %s %s", v.name, v.name, slAtom(lo), slAtom(hi), slAtom(val))
				return
			}
			if selInfo := f.g.info.Selections[sel]; selInfo != nil && selInfo.Kind() == types.MethodVal {
				if k, ok := slKindOf(f.g.info.TypeOf(sel.X)); ok {
					if k == kPoint {
						f.opaqueExpr(c)
					} else {
						f.call(c)
					}
					return
				}
			}
			if selName(sel) == "binary.BigEndian.PutUint16" && len(c.Args) == 2 {
				sl, ok := c.Args[0].(*ast.SliceExpr)
				if !ok || sl.High != nil || sl.Slice3 {
					f.fail("PutUint16 destination")
				}
				v := f.baseVar(sl.X)
				if v == nil || v.kind != kBytes {
					f.fail("PutUint16 destination")
				}
				off := "0"
				if sl.Low != nil {
					off = f.natExpr(sl.Low)
				}
				val := f.natExpr(c.Args[1])
				if w, u := bitsOf(f.g.info.TypeOf(c.Args[1])); w != 16 || !u {
					f.fail("PutUint16 value")
				}
				f.write(v, false, "PutUint16")
				f.emit("let %s ← Prim.putUint16BE %s %s %s", v.name, v.name, slAtom(off), slAtom(val))
				return
			}
		}
		if fn, _, _, _ := f.resolveCallee(c); fn != nil {
			f.call(c)
			return
		}
		f.fail("statement %s", nodeText(f.g.imp.fset, s))
	case *ast.IncDecStmt:
		id, ok := x.X.(*ast.Ident)
		v := (*slVar)(nil)
		if ok {
			v = f.lookup(id)
		}
		w, u := bitsOf(f.g.info.TypeOf(x.X))
		if v == nil || v.kind != kNat || !u {
			f.fail("increment")
		}
		if x.Tok == token.INC {
			f.emit("let %s := (%s + 1) %% %s", v.name, v.name, pow2str(w))
		} else {
			f.emit("let %s := (%s + %s - 1) %% %s", v.name, v.name, pow2str(w), pow2str(w))
		}
	case *ast.IfStmt:
		if x.Init != nil {
			// the variables of the init statement are scoped to the if: translate it first, forget them afterwards
			init := x.Init
			rest := *x
			rest.Init = nil
			f.scoped(func() {
				f.stmt(init)
				f.stmt(&rest)
			})
			return
		}
		var elseList []ast.Stmt
		if x.Else != nil {
			eb, ok := x.Else.(*ast.BlockStmt)
			if !ok {
				f.fail("else if")
			}
			elseList = eb.List
		}
		vs := f.assigned(append(append([]ast.Stmt{}, x.Body.List...), elseList...), x.Pos())
		c := f.cond(x.Cond)
		// classes before
		pre := map[*slVar]int{}
		preRe := map[*slVar]bool{}
		for _, v := range vs {
			pre[v] = v.class
			preRe[v] = v.reassign
		}
		outer, oldInd := f.lines, f.ind
		branch := func(list []ast.Stmt) ([]string, map[*slVar]int) {
			var ls []string
			f.lines = &ls
			f.ind = oldInd + "    "
			for _, v := range vs {
				v.class = pre[v]
			}
			f.scoped(func() { f.stmts(list) })
			f.emit("pure %s", tupleOf(vs))
			post := map[*slVar]int{}
			for _, v := range vs {
				post[v] = v.class
			}
			return ls, post
		}
		thenL, thenC := branch(x.Body.List)
		elseL, elseC := branch(elseList)
		f.lines, f.ind = outer, oldInd
		for _, v := range vs {
			if v.kind == kBytes {
				v.class = thenC[v]
				if elseC[v] != thenC[v] {
					v.class = f.mergeClasses(thenC[v], elseC[v])
					for _, w := range vs { // later entries may refer to the merged-away class
						if thenC[w] == elseC[v] {
							thenC[w] = v.class
						}
						if elseC[w] == elseC[v] {
							elseC[w] = v.class
						}
					}
				}
				if v.class != pre[v] {
					v.reassign = true
				}
			}
		}
		f.emit("let %s ← (if %s then (do", patOf(vs), c)
		*f.lines = append(*f.lines, thenL...)
		(*f.lines)[len(*f.lines)-1] += ") else (do"
		*f.lines = append(*f.lines, elseL...)
		(*f.lines)[len(*f.lines)-1] += "))"
	case *ast.ForStmt:
		f.forStmt(x)
	case *ast.RangeStmt:
		f.rangeStmt(x)
	default:
		f.fail("statement %s", nodeText(f.g.imp.fset, s))
	}
}

func isBlank(e ast.Expr) bool {
	id, ok := e.(*ast.Ident)
	return ok && id.Name == "_"
}

// loopBody translates a loop body as a function of the carried variables; the alias partition must be invariant.
func (f *slFn) loopBody(body []ast.Stmt, pos token.Pos, bind func() *slVar, indexFirst bool) (string, []*slVar) {
	return f.loopBodyG(body, pos, bind, indexFirst, nil)
}

// loopBodyG: with whileCond set, the generated function is one step of a `for cond { body }` loop: it evaluates the condition
// on the carried variables and returns (true, state after the body) or (false, state unchanged)
func (f *slFn) loopBodyG(body []ast.Stmt, pos token.Pos, bind func() *slVar, indexFirst bool, whileCond ast.Expr) (string, []*slVar) {
	vs := f.assigned(body, pos)
	outerVars := map[types.Object]*slVar{}
	outerSet := map[*slVar]bool{}
	for o, v := range f.vars {
		outerVars[o] = v
		outerSet[v] = true
	}
	before := f.snapshotPartition(outerVars)
	outer, oldInd := f.lines, f.ind
	oldTouched, oldH, oldF := f.touched, f.usesH, f.sum.usesF
	f.touched, f.usesH, f.sum.usesF = map[*slVar]bool{}, false, false
	var ls []string
	f.lines = &ls
	f.ind = "  "
	var lv *slVar
	if whileCond != nil {
		c := f.cond(whileCond)
		inner := f.capture(func() {
			f.scoped(func() { f.stmts(body) })
			f.emit("pure (true, %s)", tupleOf(vs))
		})
		f.emit("if %s then (do", c)
		*f.lines = append(*f.lines, inner...)
		(*f.lines)[len(*f.lines)-1] += ") else (do"
		f.ind += "    "
		f.emit("pure (false, %s))", tupleOf(vs))
		f.ind = f.ind[:len(f.ind)-4]
	} else {
		f.scoped(func() {
			lv = bind()
			f.stmts(body)
		})
		f.emit("pure %s", tupleOf(vs))
	}
	f.lines, f.ind = outer, oldInd
	bodyH, bodyF := f.usesH, f.sum.usesF
	touched := f.touched
	f.touched, f.usesH, f.sum.usesF = oldTouched, oldH || bodyH, oldF || bodyF
	if after := f.snapshotPartition(outerVars); after != before {
		f.fail("the sharing between slices changes across loop iterations (%s -> %s)", before, after)
	}
	carried := map[*slVar]bool{}
	for _, v := range vs {
		carried[v] = true
	}
	var free []*slVar
	for v := range touched {
		if oldTouched != nil {
			oldTouched[v] = true
		}
		if outerSet[v] && !carried[v] {
			free = append(free, v)
		}
	}
	sort.Slice(free, func(i, j int) bool { return free[i].name < free[j].name })
	f.loops++
	name := fmt.Sprintf("%s_loop%d", f.sum.leanName, f.loops)
	var kinds []string
	for _, v := range vs {
		kinds = append(kinds, leanKind(v.kind))
	}
	sigma := "Unit"
	if len(kinds) > 0 {
		sigma = "(" + strings.Join(kinds, " × ") + ")"
	}
	var b strings.Builder
	fmt.Fprintf(&b, "/-- body of loop %d of `%s` -/\ndef %s", f.loops, f.sum.goName, name)
	call := name
	needAlpha := bodyF
	for _, v := range append(append([]*slVar{}, vs...), free...) {
		if v.kind == kPoint || v.kind == kElem {
			needAlpha = true
		}
	}
	if needAlpha {
		b.WriteString(" {α : Type}")
	}
	if bodyF {
		b.WriteString(" (F : FieldOps α)")
		call += " F"
	}
	if bodyH {
		b.WriteString(" (H : List Nat → List Nat)")
		call += " H"
	}
	for _, v := range free {
		fmt.Fprintf(&b, " (%s : %s)", v.name, leanKind(v.kind))
		call += " " + v.name
	}
	if whileCond != nil {
		fmt.Fprintf(&b, " : %s → Option (Bool × %s) := fun %s => do\n", sigma, sigma, patOf(vs))
		b.WriteString(strings.Join(ls, "\n") + "\n")
		f.sum.aux = append(f.sum.aux, b.String())
		return "(" + call + ")", vs
	}
	lk := leanKind(lv.kind)
	if indexFirst {
		fmt.Fprintf(&b, " : %s → %s → Option %s := fun %s %s => do\n", lk, sigma, sigma, lv.name, patOf(vs))
	} else {
		fmt.Fprintf(&b, " : %s → %s → Option %s := fun %s %s => do\n", sigma, lk, sigma, patOf(vs), lv.name)
	}
	b.WriteString(strings.Join(ls, "\n") + "\n")
	f.sum.aux = append(f.sum.aux, b.String())
	return "(" + call + ")", vs
}

// whileStmt: `for cond { body }` — the number of iterations is not known to the translator: the generated function takes an
// explicit bound `fuel` and is `none` when it is exhausted (which the theorems about it exclude for a sufficient bound)
func (f *slFn) whileStmt(x *ast.ForStmt) {
	ast.Inspect(x.Body, func(n ast.Node) bool {
		if _, ok := n.(*ast.BranchStmt); ok {
			f.fail("break/continue")
		}
		return true
	})
	fnName, vs := f.loopBodyG(x.Body.List, x.Pos(), nil, false, x.Cond)
	f.sum.usesFuel = true
	f.emit("let %s ← Prim.loopWhile fuel %s %s", patOf(vs), tupleOf(vs), fnName)
}

func (f *slFn) forStmt(x *ast.ForStmt) {
	if x.Init == nil && x.Post == nil && x.Cond != nil {
		f.whileStmt(x)
		return
	}
	// for i := a; i <= b; i++ { body }   with i and b not assigned in the body
	init, ok := x.Init.(*ast.AssignStmt)
	cond, ok2 := x.Cond.(*ast.BinaryExpr)
	post, ok3 := x.Post.(*ast.IncDecStmt)
	if ok && ok2 && ok3 && init.Tok == token.DEFINE && len(init.Lhs) == 1 && post.Tok == token.DEC && cond.Op == token.GEQ {
		f.forDown(x, init, cond, post)
		return
	}
	if !ok || !ok2 || !ok3 || init.Tok != token.DEFINE || len(init.Lhs) != 1 || post.Tok != token.INC || (cond.Op != token.LEQ && cond.Op != token.LSS) {
		f.fail("loop form")
	}
	iv, okI := init.Lhs[0].(*ast.Ident)
	cv, okC := cond.X.(*ast.Ident)
	pv, okP := post.X.(*ast.Ident)
	if !okI || !okC || !okP || f.g.info.Uses[cv] != f.g.info.Defs[iv] || f.g.info.Uses[pv] != f.g.info.Defs[iv] {
		f.fail("loop form")
	}
	w, u := bitsOf(f.g.info.TypeOf(iv))
	signedConst := false
	if !u {
		// a signed counter between constant, non-negative bounds: no wrap-around to think about
		_, okA := f.constVal(init.Rhs[0])
		_, okB := f.constVal(cond.Y)
		if !okA || !okB {
			f.fail("loop with a signed counter and non-constant bounds")
		}
		signedConst = true
	} else if w != 64 {
		f.fail("loop counter type")
	}
	a := f.natExpr(init.Rhs[0])
	b := f.natExpr(cond.Y)
	// the bound must not change in the body
	bound := map[types.Object]bool{}
	ast.Inspect(cond.Y, func(n ast.Node) bool {
		if id, ok := n.(*ast.Ident); ok {
			if o := f.g.info.Uses[id]; o != nil {
				bound[o] = true
			}
		}
		return true
	})
	fnName, vs := f.loopBody(x.Body.List, x.Pos(), func() *slVar {
		v := f.declare(iv, kNat, -1)
		v.nonneg = signedConst
		return v
	}, true)
	for _, v := range vs {
		for o, vv := range f.vars {
			if vv == v && bound[o] {
				f.fail("loop bound assigned in the body")
			}
		}
	}
	ast.Inspect(x.Body, func(n ast.Node) bool {
		switch y := n.(type) {
		case *ast.AssignStmt:
			for _, l := range y.Lhs {
				if id, ok := l.(*ast.Ident); ok && f.g.info.Uses[id] == f.g.info.Defs[iv] {
					f.fail("loop counter assigned in the body")
				}
			}
		case *ast.IncDecStmt:
			if id, ok := y.X.(*ast.Ident); ok && f.g.info.Uses[id] == f.g.info.Defs[iv] {
				f.fail("loop counter assigned in the body")
			}
		case *ast.BranchStmt:
			f.fail("break/continue")
		}
		return true
	})
	prim := "Prim.forUpTo"
	if cond.Op == token.LSS {
		prim = "Prim.forBelow"
	} else if signedConst {
		prim = "Prim.forBelow" // i <= b on constants: i < b+1
		b = fmt.Sprintf("(%s + 1)", b)
	}
	f.emit("let %s ← %s %s %s %s %s", patOf(vs), prim, slAtom(a), slAtom(b), tupleOf(vs), fnName)
}

// forDown: for i := a; i >= b; i-- { body } on a signed counter with constant bounds
func (f *slFn) forDown(x *ast.ForStmt, init *ast.AssignStmt, cond *ast.BinaryExpr, post *ast.IncDecStmt) {
	iv, okI := init.Lhs[0].(*ast.Ident)
	cv, okC := cond.X.(*ast.Ident)
	pv, okP := post.X.(*ast.Ident)
	if !okI || !okC || !okP || f.g.info.Uses[cv] != f.g.info.Defs[iv] || f.g.info.Uses[pv] != f.g.info.Defs[iv] {
		f.fail("loop form")
	}
	if _, u := bitsOf(f.g.info.TypeOf(iv)); u {
		f.fail("downward loop on an unsigned counter")
	}
	a, okA := f.constVal(init.Rhs[0])
	b, okB := f.constVal(cond.Y)
	if !okA || !okB {
		f.fail("downward loop with non-constant bounds")
	}
	fnName, vs := f.loopBody(x.Body.List, x.Pos(), func() *slVar {
		v := f.declare(iv, kNat, -1)
		v.nonneg = true
		return v
	}, true)
	ast.Inspect(x.Body, func(n ast.Node) bool {
		switch y := n.(type) {
		case *ast.AssignStmt:
			for _, l := range y.Lhs {
				if id, ok := l.(*ast.Ident); ok && f.g.info.Uses[id] == f.g.info.Defs[iv] {
					f.fail("loop counter assigned in the body")
				}
			}
		case *ast.IncDecStmt:
			if id, ok := y.X.(*ast.Ident); ok && f.g.info.Uses[id] == f.g.info.Defs[iv] {
				f.fail("loop counter assigned in the body")
			}
		case *ast.BranchStmt:
			f.fail("break/continue")
		}
		return true
	})
	f.emit("let %s ← Prim.forDownTo %s %s %s %s", patOf(vs), a, b, tupleOf(vs), fnName)
}

func (f *slFn) rangeStmt(x *ast.RangeStmt) {
	if x.Tok != token.DEFINE {
		f.fail("range form")
	}
	k, ok := slKindOf(f.g.info.TypeOf(x.X))
	if !ok {
		f.fail("range over %s", f.g.info.TypeOf(x.X))
	}
	ast.Inspect(x.Body, func(n ast.Node) bool {
		if _, ok := n.(*ast.BranchStmt); ok {
			f.fail("break/continue")
		}
		return true
	})
	switch {
	case k == kNat && x.Value == nil && x.Key != nil && !isBlank(x.Key):
		// for i := range N
		n, isC := f.constVal(x.X)
		if !isC {
			f.fail("range over a non-constant integer")
		}
		// the same form as `for i := 0; i < N; i++`
		fnName, vs := f.loopBody(x.Body.List, x.Pos(), func() *slVar {
			v := f.declare(x.Key.(*ast.Ident), kNat, -1)
			v.nonneg = true
			return v
		}, true)
		f.emit("let %s ← Prim.forBelow 0 %s %s %s", patOf(vs), n, tupleOf(vs), fnName)
	case k == kBytes && x.Value == nil && x.Key != nil && !isBlank(x.Key):
		// for i := range s: the length is read once, before the first iteration
		b, _ := f.bytesExpr(x.X)
		fnName, vs := f.loopBody(x.Body.List, x.Pos(), func() *slVar {
			v := f.declare(x.Key.(*ast.Ident), kNat, -1)
			v.nonneg = true
			return v
		}, false)
		f.emit("let %s ← (List.range (%s).length).foldlM %s %s", patOf(vs), b, fnName, tupleOf(vs))
	case k == kBytesList && x.Value != nil && (x.Key == nil || isBlank(x.Key)):
		lv := f.baseVar(x.X)
		if lv == nil {
			f.fail("range over an expression")
		}
		fnName, vs := f.loopBody(x.Body.List, x.Pos(), func() *slVar { return f.declare(x.Value.(*ast.Ident), kBytes, lv.class) }, false)
		f.emit("let %s ← %s.foldlM %s %s", patOf(vs), lv.name, fnName, tupleOf(vs))
	default:
		f.fail("range form")
	}
}

type slState struct {
	vars    map[types.Object]*slVar
	class   map[*slVar]int
	re      map[*slVar]bool
	classes map[int]map[int]bool
}

func (f *slFn) saveState() slState {
	st := slState{vars: map[types.Object]*slVar{}, class: map[*slVar]int{}, re: map[*slVar]bool{}, classes: map[int]map[int]bool{}}
	for o, v := range f.vars {
		st.vars[o] = v
		st.class[v] = v.class
		st.re[v] = v.reassign
	}
	for c, m := range f.classes {
		mm := map[int]bool{}
		for p := range m {
			mm[p] = true
		}
		st.classes[c] = mm
	}
	return st
}

func (f *slFn) restoreState(st slState) {
	f.vars = map[types.Object]*slVar{}
	for o, v := range st.vars {
		f.vars[o] = v
		v.class = st.class[v]
		v.reassign = st.re[v]
	}
	f.classes = map[int]map[int]bool{}
	for c, m := range st.classes {
		mm := map[int]bool{}
		for p := range m {
			mm[p] = true
		}
		f.classes[c] = mm
	}
}

// nilTest: `p == nil` on an optional parameter that has not been tested yet
func (f *slFn) nilTest(e ast.Expr) *slVar {
	be, ok := e.(*ast.BinaryExpr)
	if !ok || be.Op != token.EQL {
		return nil
	}
	for _, pr := range [][2]ast.Expr{{be.X, be.Y}, {be.Y, be.X}} {
		a, okA := pr[0].(*ast.Ident)
		b, okB := pr[1].(*ast.Ident)
		if okA && okB && b.Name == "nil" {
			f.inNilTest = true
			v := f.lookup(a)
			f.inNilTest = false
			if v != nil && v.wrapped {
				return v
			}
		}
	}
	return nil
}

func endsInReturn(list []ast.Stmt) bool {
	if len(list) == 0 {
		return false
	}
	_, ok := list[len(list)-1].(*ast.ReturnStmt)
	return ok
}

func containsReturn(n ast.Node) bool {
	found := false
	ast.Inspect(n, func(m ast.Node) bool {
		if _, ok := m.(*ast.ReturnStmt); ok {
			found = true
		}
		return !found
	})
	return found
}

// capture runs body with the output redirected to a fresh, deeper indented buffer
func (f *slFn) capture(body func()) []string {
	outer, oldInd := f.lines, f.ind
	var ls []string
	f.lines = &ls
	f.ind = oldInd + "    "
	body()
	f.lines, f.ind = outer, oldInd
	return ls
}

// tailBlock translates statements in tail position: a `return` ends the block, an `if … { …; return }` guard or a `switch`
// whose clauses return becomes an if-then-else whose else branch is the rest of the block.
func (f *slFn) tailBlock(stmts []ast.Stmt, finish func([]ast.Expr)) {
	for i, st := range stmts {
		switch x := st.(type) {
		case *ast.ReturnStmt:
			finish(x.Results)
			return
		case *ast.IfStmt:
			if containsReturn(x) {
				if x.Else != nil || !endsInReturn(x.Body.List) {
					f.fail("return inside an if that is not a guard")
				}
				if be, ok := x.Cond.(*ast.BinaryExpr); ok && be.Op == token.LOR && x.Init == nil {
					if nv := f.nilTest(be.X); nv != nil {
						// p == nil || C: the nil case, then C on the non-nil value
						st0 := f.saveState()
						thenL := f.capture(func() { f.tailBlock(x.Body.List, finish) })
						f.restoreState(st0)
						nv.wrapped = false
						rest := *x
						rest.Cond = be.Y
						tail := append([]ast.Stmt{&rest}, stmts[i+1:]...)
						elseL := f.capture(func() { f.tailBlock(tail, finish) })
						f.emit("match %s with", nv.name)
						f.emit("| none => (do")
						*f.lines = append(*f.lines, thenL...)
						(*f.lines)[len(*f.lines)-1] += ")"
						f.emit("| some %s => (do", nv.name)
						*f.lines = append(*f.lines, elseL...)
						(*f.lines)[len(*f.lines)-1] += ")"
						return
					}
				}
				if nv := f.nilTest(x.Cond); nv != nil && x.Init == nil {
					st0 := f.saveState()
					thenL := f.capture(func() { f.tailBlock(x.Body.List, finish) })
					f.restoreState(st0)
					nv.wrapped = false
					elseL := f.capture(func() { f.tailBlock(stmts[i+1:], finish) })
					f.emit("match %s with", nv.name)
					f.emit("| none => (do")
					*f.lines = append(*f.lines, thenL...)
					(*f.lines)[len(*f.lines)-1] += ")"
					f.emit("| some %s => (do", nv.name)
					*f.lines = append(*f.lines, elseL...)
					(*f.lines)[len(*f.lines)-1] += ")"
					return
				}
				if x.Init != nil {
					f.stmt(x.Init)
				}
				c := f.cond(x.Cond)
				st0 := f.saveState()
				thenL := f.capture(func() { f.tailBlock(x.Body.List, finish) })
				f.restoreState(st0)
				elseL := f.capture(func() { f.tailBlock(stmts[i+1:], finish) })
				f.emit("if %s then (do", c)
				*f.lines = append(*f.lines, thenL...)
				(*f.lines)[len(*f.lines)-1] += ") else (do"
				*f.lines = append(*f.lines, elseL...)
				(*f.lines)[len(*f.lines)-1] += ")"
				return
			}
		case *ast.SwitchStmt:
			if containsReturn(x) {
				f.tailSwitch(x, stmts[i+1:], finish)
				return
			}
		}
		f.stmt(st)
	}
	finish(nil)
}

func (f *slFn) tailSwitch(x *ast.SwitchStmt, rest []ast.Stmt, finish func([]ast.Expr)) {
	if x.Init != nil || x.Tag == nil {
		f.fail("switch form")
	}
	tag := f.fresh()
	f.emit("let %s := %s", tag, f.natExpr(x.Tag))
	var clauses []*ast.CaseClause
	for _, c := range x.Body.List {
		clauses = append(clauses, c.(*ast.CaseClause))
	}
	for i, c := range clauses {
		if c.List == nil && i != len(clauses)-1 {
			f.fail("default clause that is not the last")
		}
	}
	var chain func(k int)
	chain = func(k int) {
		if k == len(clauses) {
			f.tailBlock(rest, finish)
			return
		}
		c := clauses[k]
		body := c.Body
		if n := len(body); n > 0 {
			if b, ok := body[n-1].(*ast.BranchStmt); ok && b.Tok == token.BREAK && b.Label == nil {
				body = body[:n-1]
			}
		}
		for _, st := range body {
			ast.Inspect(st, func(m ast.Node) bool {
				if b, ok := m.(*ast.BranchStmt); ok {
					f.fail("%s inside a switch clause", b.Tok)
				}
				return true
			})
		}
		full := body
		if !endsInReturn(body) {
			full = append(append([]ast.Stmt{}, body...), rest...)
		}
		if c.List == nil {
			f.tailBlock(full, finish)
			return
		}
		var cs []string
		for _, e := range c.List {
			cs = append(cs, fmt.Sprintf("%s = %s", tag, f.natExpr(e)))
		}
		st0 := f.saveState()
		thenL := f.capture(func() { f.tailBlock(full, finish) })
		f.restoreState(st0)
		elseL := f.capture(func() { chain(k + 1) })
		f.emit("if %s then (do", strings.Join(cs, " ∨ "))
		*f.lines = append(*f.lines, thenL...)
		(*f.lines)[len(*f.lines)-1] += ") else (do"
		*f.lines = append(*f.lines, elseL...)
		(*f.lines)[len(*f.lines)-1] += ")"
	}
	chain(0)
}

// errExpr: nil, a package-level error variable (by name), a local error value, or fmt.Errorf("%w", e)
func (f *slFn) errExpr(e ast.Expr) string {
	switch x := e.(type) {
	case *ast.ParenExpr:
		return f.errExpr(x.X)
	case *ast.Ident:
		if x.Name == "nil" {
			return "none"
		}
		if v := f.lookup(x); v != nil && v.kind == kErr {
			return v.name
		}
		if obj, ok := f.g.info.Uses[x].(*types.Var); ok && obj.Pkg() != nil && obj.Parent() == obj.Pkg().Scope() {
			return fmt.Sprintf("(some %q)", x.Name)
		}
	case *ast.CallExpr:
		if selName(x.Fun) == "fmt.Errorf" && len(x.Args) == 2 {
			if tv := f.g.info.Types[x.Args[0]]; tv.Value != nil && tv.Value.ExactString() == "\"%w\"" {
				return f.errExpr(x.Args[1])
			}
		}
		if sel, ok := x.Fun.(*ast.SelectorExpr); ok {
			if fn, ok := f.g.info.Uses[sel.Sel].(*types.Func); ok && fn.FullName() == "(*"+modPath+".Element).Decode" && len(x.Args) == 1 {
				rv := f.baseVar(sel.X)
				if rv == nil || rv.kind != kPoint {
					f.fail("receiver of Decode is not a variable")
				}
				data, _ := f.bytesExpr(x.Args[0])
				if f.ptrWrites(fn, 1) {
					f.fail("Decode writes its argument")
				}
				f.sum.usesF, f.sum.usesBY = true, true
				f.write(rv, false, "Decode")
				t := f.fresh()
				f.emit("let (%s, %s) := GenDecode.decode BY F %s %s", t, rv.name, rv.name, slAtom(data))
				return t
			}
		}
		r, _, k := f.call(x)
		if k != kErr {
			f.fail("call %s does not return an error", nodeText(f.g.imp.fset, x.Fun))
		}
		return r
	}
	f.fail("error expression %s", nodeText(f.g.imp.fset, e))
	return ""
}

// bigExpr: a *big.Int value: a variable, or new(big.Int).SetBytes(b) / big.NewInt(c).SetBytes(b)
func (f *slFn) bigExpr(e ast.Expr) string {
	switch x := e.(type) {
	case *ast.ParenExpr:
		return f.bigExpr(x.X)
	case *ast.Ident:
		if v := f.lookup(x); v != nil && v.kind == kBig {
			return v.name
		}
	case *ast.CallExpr:
		if sel, ok := x.Fun.(*ast.SelectorExpr); ok && sel.Sel.Name == "SetBytes" && len(x.Args) == 1 {
			if in, ok := sel.X.(*ast.CallExpr); ok {
				fresh := false
				if id, ok := in.Fun.(*ast.Ident); ok && id.Name == "new" && len(in.Args) == 1 && selName(in.Args[0]) == "big.Int" {
					fresh = true
				}
				if selName(in.Fun) == "big.NewInt" && len(in.Args) == 1 {
					fresh = true
				}
				if fresh {
					b, _ := f.bytesExpr(x.Args[0])
					return fmt.Sprintf("(Spec.os2ip %s)", slAtom(b))
				}
			}
		}
	}
	f.fail("big integer expression %s", nodeText(f.g.imp.fset, e))
	return ""
}

func (f *slFn) strExpr(e ast.Expr) string {
	if tv, ok := f.g.info.Types[e]; ok && tv.Value != nil && tv.Value.Kind() == constant.String {
		return fmt.Sprintf("%q", constant.StringVal(tv.Value))
	}
	switch x := e.(type) {
	case *ast.ParenExpr:
		return f.strExpr(x.X)
	case *ast.Ident:
		if v := f.lookup(x); v != nil && v.kind == kString {
			return v.name
		}
	case *ast.CallExpr:
		if selName(x.Fun) == "hex.EncodeToString" && len(x.Args) == 1 {
			b, _ := f.bytesExpr(x.Args[0])
			return fmt.Sprintf("(Spec.toHex %s)", slAtom(b))
		}
	}
	f.fail("string expression %s", nodeText(f.g.imp.fset, e))
	return ""
}

// leanName: the Lean name of a function; an unexported function with an exported twin gets the suffix `Raw`
func (g *slGen) leanName(key string) string {
	recv, name := "", key
	if i := strings.Index(key, "."); i >= 0 {
		recv, name = key[:i+1], key[i+1:]
	}
	if name != "" && strings.ToLower(name[:1]) == name[:1] {
		if _, twin := g.decls[recv+strings.ToUpper(name[:1])+name[1:]]; twin {
			return leanFnName(key) + "Raw"
		}
	}
	return leanFnName(key)
}

func (g *slGen) translate(name string) *slSum {
	if s, ok := g.sums[name]; ok {
		if g.busy[name] {
			panic("recursion through " + name)
		}
		return s
	}
	s := &slSum{goName: name, leanName: g.leanName(name), retParam: -1, rngParam: -1}
	g.sums[name] = s
	g.busy[name] = true
	defer func() { g.busy[name] = false }()
	fd := g.decls[name]
	if fd == nil {
		s.failed = "not found"
		return s
	}
	func() {
		defer func() {
			if r := recover(); r != nil {
				s.failed = strings.ReplaceAll(fmt.Sprint(r), "\n", " ")
			}
		}()
		g.fn(s, fd)
	}()
	g.order = append(g.order, name)
	return s
}

func (g *slGen) fn(s *slSum, fd *ast.FuncDecl) {
	var lines []string
	f := &slFn{g: g, sum: s, vars: map[types.Object]*slVar{}, classes: map[int]map[int]bool{}, lines: &lines, ind: "  "}
	s.retParam = -1
	idx := 0
	var fields []*ast.Field
	if fd.Recv != nil {
		fields = append(fields, fd.Recv.List...)
	}
	fields = append(fields, fd.Type.Params.List...)
	for _, fl := range fields {
		if len(fl.Names) == 0 {
			panic("unnamed parameter")
		}
		for _, id := range fl.Names {
			t := g.info.TypeOf(id)
			k, ok := slKindOf(t)
			if !ok {
				panic(fmt.Sprintf("parameter %s of type %s", id.Name, t))
			}
			_, byValue := t.Underlying().(*types.Array)
			cls := -1
			if classed(k) {
				if byValue {
					cls = f.newClass() // an array parameter is a copy: writes to it stay in the callee
				} else {
					cls = f.newClass(idx)
				}
			}
			v := f.declare(id, k, cls)
			v.param = idx
			v.declPos = fd.Pos()
			f.paramVar = append(f.paramVar, v)
			opt := false
			if _, isPtr := t.Underlying().(*types.Pointer); isPtr {
				obj := g.info.Defs[id]
				ast.Inspect(fd.Body, func(n ast.Node) bool {
					if be, ok := n.(*ast.BinaryExpr); ok && (be.Op == token.EQL || be.Op == token.NEQ) {
						for _, pr := range [][2]ast.Expr{{be.X, be.Y}, {be.Y, be.X}} {
							a, okA := pr[0].(*ast.Ident)
							b, okB := pr[1].(*ast.Ident)
							if okA && okB && b.Name == "nil" && g.info.Uses[a] == obj {
								opt = true
							}
						}
					}
					return true
				})
			}
			v.wrapped = opt
			s.params = append(s.params, slParam{v.name, k, opt, byValue})
			idx++
		}
	}
	usesRand := false
	ast.Inspect(fd.Body, func(n ast.Node) bool {
		if se, ok := n.(*ast.SelectorExpr); ok && selName(se) == "rand.Reader" {
			usesRand = true
		}
		return true
	})
	if usesRand {
		// the entropy source is a hidden parameter: the bytes not yet consumed; it is handed back like a written parameter
		v := &slVar{name: "rng", kind: kBytes, class: f.newClass(idx), param: idx, declPos: fd.Pos()}
		f.vars[types.NewVar(token.NoPos, nil, "rng", types.Typ[types.Int])] = v
		f.paramVar = append(f.paramVar, v)
		f.rngVar = v
		s.params = append(s.params, slParam{name: "rng", kind: kBytes})
		s.rngParam = idx
		f.addWrite(idx)
		idx++
	}
	var resKinds []slKind
	var resPtr []bool
	if fd.Type.Results != nil {
		for _, fl := range fd.Type.Results.List {
			if len(fl.Names) > 0 {
				panic("named results")
			}
			t := g.info.TypeOf(fl.Type)
			k, ok := slKindOf(t)
			if !ok || k == kHash || k == kBytesList {
				panic("result type")
			}
			if _, isArr := t.Underlying().(*types.Array); isArr && k != kBytes {
				panic("array result")
			}
			_, isPtr := t.Underlying().(*types.Pointer)
			resKinds = append(resKinds, k)
			resPtr = append(resPtr, isPtr)
		}
	}
	ast.Inspect(fd.Body, func(n ast.Node) bool {
		switch n.(type) {
		case *ast.FuncLit, *ast.GoStmt, *ast.DeferStmt:
			panic("closure, go or defer")
		}
		return true
	})
	// every return site evaluates its results and leaves a placeholder: the written parameters that precede them in the
	// tuple are only known once the whole body has been read
	var sites [][]string
	first := true
	finish := func(retExprs []ast.Expr) {
		if len(retExprs) != len(resKinds) {
			panic("a path through the function does not end with a return of its results")
		}
		var resExpr []string
		var kinds []slKind
		retParam := -1
		for i, re := range retExprs {
			switch resKinds[i] {
			case kBytes:
				res, c := f.bytesExpr(re)
				for p := range f.classes[c] {
					if !hasInt(s.rets, p) {
						s.rets = append(s.rets, p)
					}
				}
				sort.Ints(s.rets)
				resExpr = append(resExpr, res)
				kinds = append(kinds, kBytes)
			case kNat:
				resExpr = append(resExpr, f.natExpr(re))
				kinds = append(kinds, kNat)
			case kErr:
				resExpr = append(resExpr, f.errExpr(re))
				kinds = append(kinds, kErr)
			case kString:
				resExpr = append(resExpr, f.strExpr(re))
				kinds = append(kinds, kString)
			case kLimbs, kScalar:
				res, c, v := f.limbExpr(re)
				if resPtr[i] && v != nil && v.param >= 0 && !v.reassign && f.classes[v.class][v.param] {
					// the function returns one of its pointer parameters: the caller already holds it
					if retParam >= 0 {
						panic("two parameters returned")
					}
					retParam = v.param
					f.addWrite(v.param)
					continue
				}
				for p := range f.classes[c] {
					if !hasInt(s.rets, p) {
						s.rets = append(s.rets, p)
					}
				}
				sort.Ints(s.rets)
				resExpr = append(resExpr, res)
				kinds = append(kinds, resKinds[i])
			default:
				res, c, k := f.opaqueExpr(re)
				if k != resKinds[i] {
					panic("kind of the result")
				}
				if k == kPoint && resPtr[i] {
					var pv *slVar
					for _, q := range f.paramVar {
						if q.kind == kPoint && q.name == res && q.class == c && f.classes[c][q.param] && !q.reassign {
							pv = q
						}
					}
					if pv != nil {
						if retParam >= 0 {
							panic("two parameters returned")
						}
						retParam = pv.param
						f.addWrite(pv.param)
						continue
					}
				}
				resExpr = append(resExpr, res)
				kinds = append(kinds, k)
			}
		}
		if first {
			s.results, s.retParam, first = kinds, retParam, false
		} else if retParam != s.retParam || len(kinds) != len(s.results) {
			panic("the return sites do not return the same parameter")
		}
		f.emit("pure ⟪%d⟫", len(sites))
		sites = append(sites, resExpr)
	}
	f.tailBlock(fd.Body.List, finish)
	s.ret = kUnit
	if len(s.results) == 1 {
		s.ret = s.results[0]
	} else if len(s.results) == 0 && s.retParam >= 0 {
		s.ret = s.params[s.retParam].kind
	}
	var outs, outT []string
	for _, w := range s.writes {
		pv := f.paramVar[w]
		if (pv.kind == kBytes || pv.kind == kLimbs) && pv.reassign {
			panic("written parameter " + pv.name + " is reassigned")
		}
		outs = append(outs, pv.name)
		outT = append(outT, leanKind(pv.kind))
	}
	for _, k := range s.results {
		outT = append(outT, leanKind(k))
	}
	if len(outT) == 0 {
		outT = []string{"Unit"}
	}
	for k, site := range sites {
		all := append(append([]string{}, outs...), site...)
		tup := "()"
		if len(all) == 1 {
			tup = all[0]
		} else if len(all) > 1 {
			tup = "(" + strings.Join(all, ", ") + ")"
		}
		ph := fmt.Sprintf("⟪%d⟫", k)
		for li := range lines {
			lines[li] = strings.Replace(lines[li], ph, tup, 1)
		}
	}
	s.usesH = f.usesH
	var b strings.Builder
	for _, a := range s.aux {
		b.WriteString(a + "\n")
	}
	fmt.Fprintf(&b, "/-- `%s` (%s)", s.goName, filepathBase(g.imp.fset.Position(fd.Pos()).Filename))
	if len(s.writes) > 0 {
		fmt.Fprintf(&b, "; writes its parameter(s) %v and returns them first", s.writes)
	}
	b.WriteString(" -/\n")
	fmt.Fprintf(&b, "def %s", s.leanName)
	if s.usesF || s.usesB || s.usesBY {
		b.WriteString(" {α : Type}")
	}
	if s.usesOPS {
		b.WriteString(" (OPS : FieldOps L4)")
	}
	if s.usesBY {
		b.WriteString(" (BY : ByteOps α)")
	}
	if s.usesF {
		b.WriteString(" (F : FieldOps α)")
	}
	if s.usesB {
		b.WriteString(" (B : HashOps α)")
	}
	if s.usesH {
		b.WriteString(" (H : List Nat → List Nat)")
	}
	if s.usesFuel {
		b.WriteString(" (fuel : Nat)")
	}
	for _, p := range s.params {
		if p.optional {
			fmt.Fprintf(&b, " (%s : Option %s)", p.name, slAtom(leanKind(p.kind)))
		} else {
			fmt.Fprintf(&b, " (%s : %s)", p.name, leanKind(p.kind))
		}
	}
	rt := "(" + strings.Join(outT, " × ") + ")"
	fmt.Fprintf(&b, " : Option %s := do\n", rt)
	b.WriteString(strings.Join(lines, "\n"))
	b.WriteString("\n")
	s.text = b.String()
}

func filepathBase(p string) string {
	if i := strings.LastIndex(p, "/"); i >= 0 {
		return p[i+1:]
	}
	return p
}

func leanIntList(xs []int) string {
	var s []string
	for _, x := range xs {
		s = append(s, fmt.Sprint(x))
	}
	return "[" + strings.Join(s, ", ") + "]"
}

func newSlGen(pkgPath, fiatPkg, fiatNS, mode, ns string) *slGen {
	imp := sharedImporter
	g := &slGen{imp: imp, info: imp.info, decls: map[string]*ast.FuncDecl{}, sums: map[string]*slSum{}, busy: map[string]bool{},
		pkgPath: pkgPath, fiatPkg: fiatPkg, fiatNS: fiatNS, bytesRoots: map[string]bool{}, mode: mode, ns: ns, subs: map[string]*slGen{}}
	for _, file := range imp.files[pkgPath] {
		for _, d := range file.Decls {
			if fd, ok := d.(*ast.FuncDecl); ok && fd.Body != nil {
				key := fd.Name.Name
				if fd.Recv != nil && len(fd.Recv.List) == 1 {
					key = recvName(fd.Recv.List[0].Type) + "." + key
				}
				g.decls[key] = fd
			}
		}
	}
	return g
}

func (g *slGen) write(path, ns, imports, doc, opens string, names []string, roots []string) {
	var b strings.Builder
	b.WriteString(header)
	b.WriteString(imports + "set_option linter.unusedVariables false\n\n" + doc + "namespace " + ns + "\n" + opens + "\n")
	done := map[string]bool{}
	var nt []string
	for _, n := range names {
		s := g.sums[n]
		done[n] = true
		if s.failed != "" {
			fmt.Fprintf(&b, "-- NOT TRANSLATED: %s (%s)\n\n", n, s.failed)
			nt = append(nt, n)
			continue
		}
		b.WriteString(s.text + "\n")
	}
	for _, r := range roots {
		if !done[r] && g.sums[r].failed != "" {
			fmt.Fprintf(&b, "-- NOT TRANSLATED: %s (%s)\n\n", r, g.sums[r].failed)
			nt = append(nt, r)
		}
	}
	sort.Strings(nt)
	var wr, ap, sh []string
	sorted := append([]string{}, names...)
	sort.Strings(sorted)
	for _, n := range sorted {
		s := g.sums[n]
		if s.failed != "" {
			continue
		}
		for _, p := range s.writes {
			if s.params[p].kind == kBytes {
				wr = append(wr, fmt.Sprintf("(%q, %q)", n, s.params[p].name))
			}
		}
		for _, p := range s.appends {
			ap = append(ap, fmt.Sprintf("(%q, %q)", n, s.params[p].name))
		}
		for _, p := range s.rets {
			if s.params[p].kind == kBytes {
				sh = append(sh, fmt.Sprintf("(%q, %q)", n, s.params[p].name))
			}
		}
	}
	fmt.Fprintf(&b, "/-- functions of the list that could not be translated -/\ndef notTranslated : List String := [%s]\n\n", quoteJoin(nt))
	fmt.Fprintf(&b, "/-- (function, slice parameter) pairs whose visible bytes the function overwrites -/\ndef callerMemoryWrites : List (String × String) := [%s]\n\n", strings.Join(wr, ", "))
	fmt.Fprintf(&b, "/-- (function, slice parameter) pairs into whose backing array the function may append -/\ndef callerMemoryAppends : List (String × String) := [%s]\n\n", strings.Join(ap, ", "))
	fmt.Fprintf(&b, "/-- (function, slice parameter) pairs where the returned slice may share memory with the parameter -/\ndef resultShares : List (String × String) := [%s]\n\n", strings.Join(sh, ", "))
	b.WriteString("end " + ns + "\n")
	writeIfChanged(path, b.String())
}

// genBytesMode writes Secp/Gen/Xmd.lean (the expander), Secp/Gen/GroupAPI.lean (HashToScalar, HashToGroup, EncodeToGroup),
// Secp/Gen/FieldBytes.lean and Secp/Gen/ScalarBytes.lean (the byte-level functions of the two internal packages).
func genBytesMode(outDir string) {
	slMode = "field"
	gf := newSlGen(modPath+"/internal/field", "field", "FiatField", "field", "GenFieldBytes")
	fieldRoots := []string{"bytesToInts", "bytesToNonMontgomery", "nonMontgomeryToBytes", "Element.Bytes", "Element.FromBytesWithReduce",
		"Element.FromBytesNoReduce", "New", "Element.HashToFieldElement"}
	for _, r := range fieldRoots {
		gf.bytesRoots[r] = true
	}
	for _, r := range fieldRoots {
		gf.translate(r)
	}
	gf.write(filepath.Join(outDir, "FieldBytes.lean"), "GenFieldBytes", "import Secp.PrimBytes\nimport Secp.Gen.FiatField\n",
		"/-! The byte-level functions of `internal/field` (big-endian bytes <-> limbs, `Bytes`, `FromBytesWithReduce`,\n`FromBytesNoReduce`, `HashToFieldElement`) over the Fiat-mode definitions. -/\n", "",
		gf.order, fieldRoots)

	slMode = "scalar"
	gs := newSlGen(modPath+"/internal/scalar", "scalar", "FiatScalar", "scalar", "GenScalarBytes")
	scalarRoots := []string{"BytesToNonMontgomery", "NonMontgomeryToBytes", "ReduceBytes", "FromBytesNoReduce", "HashToFieldElement",
		"scalar.Multiply", "scalar.Square", "Invert"}
	for _, r := range scalarRoots {
		gs.bytesRoots[r] = true
	}
	for _, r := range scalarRoots {
		gs.translate(r)
	}
	nScalar := len(gs.order)

	slMode = "root"
	g := newSlGen(modPath, "", "", "root", "GenRoot")
	g.subs[gf.pkgPath] = gf
	g.subs[gs.pkgPath] = gs
	xmdRoots := []string{"checkDST", "i2osp1", "i2osp2", "hashAll", "xorSlices", "vetDSTXMD", "xmd", "expandXMD"}
	for _, r := range xmdRoots {
		g.translate(r)
	}
	nXmd := len(g.order)
	groupRoots := []string{"HashToScalar", "HashToGroup", "EncodeToGroup"}
	for _, r := range groupRoots {
		g.translate(r)
	}
	nGroup := len(g.order)
	codecRoots := []string{"Scalar.Encode", "Scalar.Decode", "Scalar.Hex", "Scalar.DecodeHex", "Scalar.MarshalBinary", "Scalar.UnmarshalBinary", "Scalar.Bits", "Scalar.Invert"}
	for _, r := range codecRoots {
		g.translate(r)
	}
	nCodecS := len(g.order)
	pointCodecRoots := []string{"Element.Hex", "Element.DecodeHex", "Element.MarshalBinary", "Element.UnmarshalBinary"}
	for _, r := range pointCodecRoots {
		g.translate(r)
	}
	nCodec := len(g.order)
	mulRoots := []string{"Element.multiply", "Element.Multiply"}
	for _, r := range mulRoots {
		g.translate(r)
	}
	nMul := len(g.order)
	miscRoots := []string{"Base", "NewElement", "NewScalar", "Scalar.Copy", "Scalar.Pow", "Scalar.Random", "Ciphersuite", "ScalarLength", "ElementLength", "Order"}
	for _, r := range miscRoots {
		g.translate(r)
	}
	if len(gs.order) != nScalar {
		// a function of internal/scalar first reached from the root package: it belongs to ScalarBytes.lean as well
		scalarRoots = append(scalarRoots, gs.order[nScalar:]...)
	}
	gs.write(filepath.Join(outDir, "ScalarBytes.lean"), "GenScalarBytes", "import Secp.PrimBytes\nimport Secp.Gen.FiatScalar\nimport Secp.Gen.ScalarChain\n",
		"/-! The byte-level functions of `internal/scalar` over the Fiat-mode definitions. -/\n", "",
		gs.order, scalarRoots)
	g.write(filepath.Join(outDir, "Xmd.lean"), "GenXmd", "import Secp.PrimBytes\n",
		"/-! Byte-slice code of `xmd.go` in the `Option` monad over `List Nat` (`none`: the Go code panics or does not\nterminate). `H` is the hash function; a `hash.Hash` value is the list of bytes written since the last `Reset`. -/\n", "",
		g.order[:nXmd], xmdRoots)
	g.write(filepath.Join(outDir, "GroupAPI.lean"), "GenGroup", "import Secp.Prim\nimport Secp.Gen.Xmd\nimport Secp.Gen.Curve\nimport Secp.Gen.ElementAPI\nimport Secp.Gen.ScalarBytes\n",
		"/-! `HashToScalar`, `HashToGroup`, `EncodeToGroup` of `group.go`: the expander call, the re-slicing and slice-to-array\nconversions of its output, then the regenerated `SSWU`, isogeny and complete addition. -/\n\n/-- the two 48-byte wide reductions (`field.Element.HashToFieldElement`, `scalar.HashToFieldElement`) -/\nstructure HashOps (α : Type) where\n  hashToField : List Nat → α\n  hashToScalar : List Nat → L4\n\n", "open GenXmd\n",
		g.order[nXmd:nGroup], groupRoots)
	g.write(filepath.Join(outDir, "ScalarCodec.lean"), "GenScalarCodec", "import Secp.Spec.Bytes\nimport Secp.Gen.ScalarBytes\n",
		"/-! `Encode`, `Decode`, `Hex`, `DecodeHex`, `MarshalBinary`, `UnmarshalBinary` of `scalar.go`. An `error` is `none` (nil) or\nthe name of the package's error variable; `encoding/hex` is `Spec.toHex` / `Prim.hexDecodeString`. -/\n", "",
		g.order[nGroup:nCodecS], codecRoots)
	g.write(filepath.Join(outDir, "ElementCodec.lean"), "GenElementCodec", "import Secp.PrimBytes\nimport Secp.Gen.Decode\n",
		"/-! `Hex`, `DecodeHex`, `MarshalBinary`, `UnmarshalBinary` of `element.go` over the regenerated `Encode` / `Decode`. -/\n", "",
		g.order[nCodecS:nCodec], pointCodecRoots)
	g.write(filepath.Join(outDir, "ElementMul.lean"), "GenElementMul", "import Secp.Gen.ScalarCodec\nimport Secp.Gen.ScalarAPI\nimport Secp.Gen.ElementAPI\n",
		"/-! `Multiply` and `multiply` of `element.go`: the nil test, the `IsOne` shortcut, the bit expansion, the 256 iterations of the\nladder over the regenerated `Add`/`Double`, the final `set`. -/\n", "open GenScalarCodec\n",
		g.order[nCodec:nMul], mulRoots)
	g.write(filepath.Join(outDir, "Misc.lean"), "GenMisc", "import Secp.Spec.Fp\nimport Secp.Gen.GroupAPI\nimport Secp.Gen.ElementMul\n",
		"/-! The remaining small functions: `Base`, `NewElement`, `NewScalar`, `Scalar.Copy`, `Scalar.Pow` (through `math/big`, modelled:\n`SetBytes` = OS2IP, `Exp` = modular power, `Bytes` = minimal big-endian bytes), the constants of `group.go`. -/\n", "open GenScalarCodec GenGroup GenElementMul\n",
		g.order[nMul:], miscRoots)
}

func quoteJoin(xs []string) string {
	var s []string
	for _, x := range xs {
		s = append(s, fmt.Sprintf("%q", x))
	}
	return strings.Join(s, ", ")
}
