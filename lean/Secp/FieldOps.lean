/-!
# The operations record the curve-level code is generic over

`FieldOps α` lists the methods of `field.Element` that the generated L1/L2 code
calls. The same generated text is (a) executed at the concrete limb
implementation (`Secp.Hand.LimbOps`) and (b) reasoned about under the laws of
`Secp.Proofs.Lawful`.
-/

structure FieldOps (α : Type) where
  zero : α
  one : α
  add : α → α → α
  sub : α → α → α
  mul : α → α → α
  neg : α → α
  square : α → α
  /-- `cmove c u v` is `u` when `c = 0` and `v` when `c = 1` -/
  cmove : Nat → α → α → α
  isZero : α → Nat
  equals : α → α → Nat
  sgn0 : α → Nat
  /-- a value given by its four Montgomery limbs (source-level constants) -/
  ofMont : Nat → Nat → Nat → Nat → α

/-- `k` successive squarings (the `for s := a; s < b; s++ { z.Square(z) }` loops of the addition chains) -/
def FieldOps.sqn {α : Type} (F : FieldOps α) : Nat → α → α
  | 0, x => x
  | k+1, x => FieldOps.sqn F k (F.square x)

structure Pt (α : Type) where
  x : α
  y : α
  z : α
deriving Repr, DecidableEq, Inhabited
