import Secp.Spec.Fp
import Secp.Spec.Bytes
/-!
# SEC1 encodings of secp256k1 points, from the property text (C03, C04)
-/
namespace Spec

def encodeCompressed : APoint → Bytes
  | none => [0]
  | some (x, y) => (2 + y % 2) :: i2osp x 32

def encodeUncompressed : APoint → Bytes
  | none => [0]
  | some (x, y) => 4 :: (i2osp x 32 ++ i2osp y 32)

/-- the point with abscissa `x` and ordinate parity `par`, if `x³+7` is a square -/
def liftX (x par : Nat) : Option (Nat × Nat) :=
  let y2 := fadd (fmul (fmul x x) x) 7
  if isSquare y2 then
    let y := fsqrt y2
    some (x, if y % 2 = par then y else fneg y)
  else none

def decodeCompressed (b : Bytes) : Option APoint :=
  match b with
  | pre :: rest =>
    if rest.length = 32 ∧ (pre = 2 ∨ pre = 3) then
      let x := os2ip rest
      if x < P then (liftX x (pre - 2)).map some else none
    else none
  | [] => none

def decodeCoordinates (xb yb : Bytes) : Option APoint :=
  let x := os2ip xb
  let y := os2ip yb
  if xb.length = 32 ∧ yb.length = 32 ∧ x < P ∧ y < P ∧ onCurve x y then some (some (x, y)) else none

def decodeUncompressed (b : Bytes) : Option APoint :=
  match b with
  | 4 :: rest => if rest.length = 64 then decodeCoordinates (rest.take 32) (rest.drop 32) else none
  | _ => none

/-- `Decode`: exactly the three canonical forms -/
def decode (b : Bytes) : Option APoint :=
  if b = [0] then some none
  else if b.length = 33 then decodeCompressed b
  else if b.length = 65 then decodeUncompressed b
  else none

end Spec
