import Secp.Spec.Bytes
/-!
# SHA-256 (FIPS 180-4), used by the driver to instantiate the hash parameter `H`

In the theorems SHA-256 is a parameter; this implementation is itself in the
correspondence (`XMD.sha` against `crypto/sha256`).
-/
namespace Spec.Sha256

def K : Array UInt32 := #[
  0x428a2f98, 0x71374491, 0xb5c0fbcf, 0xe9b5dba5, 0x3956c25b, 0x59f111f1, 0x923f82a4, 0xab1c5ed5,
  0xd807aa98, 0x12835b01, 0x243185be, 0x550c7dc3, 0x72be5d74, 0x80deb1fe, 0x9bdc06a7, 0xc19bf174,
  0xe49b69c1, 0xefbe4786, 0x0fc19dc6, 0x240ca1cc, 0x2de92c6f, 0x4a7484aa, 0x5cb0a9dc, 0x76f988da,
  0x983e5152, 0xa831c66d, 0xb00327c8, 0xbf597fc7, 0xc6e00bf3, 0xd5a79147, 0x06ca6351, 0x14292967,
  0x27b70a85, 0x2e1b2138, 0x4d2c6dfc, 0x53380d13, 0x650a7354, 0x766a0abb, 0x81c2c92e, 0x92722c85,
  0xa2bfe8a1, 0xa81a664b, 0xc24b8b70, 0xc76c51a3, 0xd192e819, 0xd6990624, 0xf40e3585, 0x106aa070,
  0x19a4c116, 0x1e376c08, 0x2748774c, 0x34b0bcb5, 0x391c0cb3, 0x4ed8aa4a, 0x5b9cca4f, 0x682e6ff3,
  0x748f82ee, 0x78a5636f, 0x84c87814, 0x8cc70208, 0x90befffa, 0xa4506ceb, 0xbef9a3f7, 0xc67178f2]

def rotr (x : UInt32) (n : UInt32) : UInt32 := (x >>> n) ||| (x <<< (32 - n))

def pad (msg : Bytes) : Bytes :=
  let l := msg.length
  let k := (119 - l % 64) % 64   -- zero bytes so that l + 1 + k + 8 ≡ 0 mod 64
  msg ++ [0x80] ++ List.replicate k 0 ++ i2osp (l * 8) 8

def word (b : Array Nat) (i : Nat) : UInt32 :=
  UInt32.ofNat (b[i]! * 16777216 + b[i+1]! * 65536 + b[i+2]! * 256 + b[i+3]!)

def schedule (blk : Array Nat) (off : Nat) : Array UInt32 := Id.run do
  let mut w : Array UInt32 := Array.mkEmpty 64
  for i in [0:16] do
    w := w.push (word blk (off + 4*i))
  for i in [16:64] do
    let w15 := w[i-15]!
    let w2 := w[i-2]!
    let s0 := rotr w15 7 ^^^ rotr w15 18 ^^^ (w15 >>> 3)
    let s1 := rotr w2 17 ^^^ rotr w2 19 ^^^ (w2 >>> 10)
    w := w.push (w[i-16]! + s0 + w[i-7]! + s1)
  return w

def compress (h : Array UInt32) (blk : Array Nat) (off : Nat) : Array UInt32 := Id.run do
  let w := schedule blk off
  let mut a := h[0]!
  let mut b := h[1]!
  let mut c := h[2]!
  let mut d := h[3]!
  let mut e := h[4]!
  let mut f := h[5]!
  let mut g := h[6]!
  let mut hh := h[7]!
  for i in [0:64] do
    let s1 := rotr e 6 ^^^ rotr e 11 ^^^ rotr e 25
    let ch := (e &&& f) ^^^ ((~~~e) &&& g)
    let t1 := hh + s1 + ch + K[i]! + w[i]!
    let s0 := rotr a 2 ^^^ rotr a 13 ^^^ rotr a 22
    let mj := (a &&& b) ^^^ (a &&& c) ^^^ (b &&& c)
    let t2 := s0 + mj
    hh := g; g := f; f := e; e := d + t1; d := c; c := b; b := a; a := t1 + t2
  return #[h[0]! + a, h[1]! + b, h[2]! + c, h[3]! + d, h[4]! + e, h[5]! + f, h[6]! + g, h[7]! + hh]

def hash (msg : Bytes) : Bytes := Id.run do
  let p := (pad msg).toArray
  let mut h : Array UInt32 := #[0x6a09e667, 0xbb67ae85, 0x3c6ef372, 0xa54ff53a, 0x510e527f, 0x9b05688c, 0x1f83d9ab, 0x5be0cd19]
  for i in [0:p.size / 64] do
    h := compress h p (64 * i)
  return h.toList.flatMap (fun w => i2osp w.toNat 4)

end Spec.Sha256
