/-!
# Byte strings (as `List Nat`, every entry `< 256`), big-endian integers, hex
-/
namespace Spec

abbrev Bytes := List Nat

/-- OS2IP: big-endian bytes to integer -/
def os2ip (b : Bytes) : Nat := b.foldl (fun acc x => acc * 256 + x) 0

/-- I2OSP: integer to exactly `len` big-endian bytes (value taken mod 256^len) -/
def i2osp (v len : Nat) : Bytes := (List.range len).map (fun i => v / 256 ^ (len - 1 - i) % 256)

def hexDigit (n : Nat) : Char := if n < 10 then Char.ofNat (48 + n) else Char.ofNat (87 + n)
def toHex (b : Bytes) : String := String.ofList (b.flatMap (fun x => [hexDigit (x / 16), hexDigit (x % 16)]))

def hexVal (c : Char) : Option Nat :=
  if '0' ≤ c ∧ c ≤ '9' then some (c.toNat - 48)
  else if 'a' ≤ c ∧ c ≤ 'f' then some (c.toNat - 87)
  else if 'A' ≤ c ∧ c ≤ 'F' then some (c.toNat - 55)
  else none

def ofHexAux : List Char → Option Bytes
  | [] => some []
  | [_] => none
  | a :: b :: rest => do
    let x ← hexVal a
    let y ← hexVal b
    let r ← ofHexAux rest
    pure ((x * 16 + y) :: r)

/-- `encoding/hex.DecodeString`: `none` on odd length or a non-hex character -/
def ofHex (s : String) : Option Bytes := ofHexAux s.toList

end Spec
