import Secp.Spec.Fp
import Secp.Spec.Bytes
/-!
# RFC 9380 for the suites secp256k1_XMD:SHA-256_SSWU_RO_ / _NU_

Written from the RFC text (section numbers in comments), independent of the
structure of the Go code. The hash function is a parameter `H` (32-byte output,
64-byte block).
-/
namespace Spec.Rfc9380

def strxor (a b : Bytes) : Bytes := List.zipWith Nat.xor a b

/-- §5.3.3: an oversize DST is replaced by `H("H2C-OVERSIZE-DST-" || DST)` -/
def vetDST (H : Bytes → Bytes) (dst : Bytes) : Bytes :=
  if dst.length > 255 then H ("H2C-OVERSIZE-DST-".toList.map Char.toNat ++ dst) else dst

/-- §5.3.1 steps 9-10: `b_2 … b_ell`, given `b_0`, the previous block and the index -/
def xmdBlocks (H : Bytes → Bytes) (b0 dstPrime : Bytes) : Nat → Nat → Bytes → List Bytes
  | 0, _, _ => []
  | k+1, i, prev =>
    let bi := H (strxor b0 prev ++ i2osp i 1 ++ dstPrime)
    bi :: xmdBlocks H b0 dstPrime k (i+1) bi

/-- §5.3.1 `expand_message_xmd` with `b_in_bytes = 32`, `s_in_bytes = 64` -/
def expandMessageXmd (H : Bytes → Bytes) (msg dst : Bytes) (len : Nat) : Bytes :=
  let ell := (len + 31) / 32
  let dst := vetDST H dst
  let dstPrime := dst ++ i2osp dst.length 1
  let zPad := List.replicate 64 0
  let libStr := i2osp len 2
  let b0 := H (zPad ++ msg ++ libStr ++ i2osp 0 1 ++ dstPrime)
  let b1 := H (b0 ++ i2osp 1 1 ++ dstPrime)
  let rest := xmdBlocks H b0 dstPrime (ell - 1) 2 b1
  (b1 ++ rest.flatten).take len

/-- §5.2 `hash_to_field` with `m = 1`, `L = 48` over a prime modulus `q` -/
def hashToField (H : Bytes → Bytes) (q : Nat) (msg dst : Bytes) (count : Nat) : List Nat :=
  let u := expandMessageXmd H msg dst (count * 48)
  (List.range count).map (fun i => os2ip ((u.drop (48 * i)).take 48) % q)

-- the 3-isogenous curve E' : y² = x³ + A'x + B' (§8.7) and Z = -11
def A' : Nat := 0x3f8731abdd661adca08a5558f0f5d272e953d363cb6f0e5d405447c01a444533
def B' : Nat := 1771
def Z : Nat := P - 11

def g' (x : Nat) : Nat := fadd (fadd (fmul (fmul x x) x) (fmul A' x)) B'

/-- §6.6.2 `map_to_curve_simple_swu`, the textbook (non straight-line) form -/
def mapToCurveSimpleSwu (u : Nat) : Nat × Nat :=
  let zu2 := fmul Z (fmul u u)
  let tv1 := finv (fadd (fmul zu2 zu2) zu2)              -- inv0(Z² u⁴ + Z u²)
  let x1 := if tv1 = 0 then fdiv B' (fmul Z A')          -- step 3
            else fmul (fdiv (fneg B') A') (fadd 1 tv1)   -- step 2
  let gx1 := g' x1
  let x2 := fmul zu2 x1
  let gx2 := g' x2
  let (x, y) := if isSquare gx1 then (x1, fsqrt gx1) else (x2, fsqrt gx2)
  (x, if sgn0 (u % P) ≠ sgn0 y then fneg y else y)

-- Appendix E.1: the 3-isogeny map constants
def k10 : Nat := 0x8e38e38e38e38e38e38e38e38e38e38e38e38e38e38e38e38e38e38daaaaa8c7
def k11 : Nat := 0x7d3d4c80bc321d5b9f315cea7fd44c5d595d2fc0bf63b92dfff1044f17c6581
def k12 : Nat := 0x534c328d23f234e6e2a413deca25caece4506144037c40314ecbd0b53d9dd262
def k13 : Nat := 0x8e38e38e38e38e38e38e38e38e38e38e38e38e38e38e38e38e38e38daaaaa88c
def k20 : Nat := 0xd35771193d94918a9ca34ccbb7b640dd86cd409542f8487d9fe6b745781eb49b
def k21 : Nat := 0xedadc6f64383dc1df7c4b2d51b54225406d36b641f5e41bbc52a56612a8c6d14
def k30 : Nat := 0x4bda12f684bda12f684bda12f684bda12f684bda12f684bda12f684b8e38e23c
def k31 : Nat := 0xc75e0c32d5cb7c0fa9d0a54b12a0a6d5647ab046d686da6fdffc90fc201d71a3
def k32 : Nat := 0x29a6194691f91a73715209ef6512e576722830a201be2018a765e85a9ecee931
def k33 : Nat := 0x2f684bda12f684bda12f684bda12f684bda12f684bda12f684bda12f38e38d84
def k40 : Nat := 0xfffffffffffffffffffffffffffffffffffffffffffffffffffffffefffff93b
def k41 : Nat := 0x7a06534bb8bdb49fd5e9e6632722c2989467c1bfc8e8d978dfb425d2685c2573
def k42 : Nat := 0x6484aa716545ca2cf3a70c3fa8fe337e0a3d21162f0d6299a7bf8192bfd2a76f

/-- E.1 `iso_map`; a zero denominator maps to the identity -/
def isoMap (x' y' : Nat) : APoint :=
  let x2 := fmul x' x'
  let x3 := fmul x2 x'
  let xNum := fadd (fadd (fadd (fmul k13 x3) (fmul k12 x2)) (fmul k11 x')) k10
  let xDen := fadd (fadd x2 (fmul k21 x')) k20
  let yNum := fadd (fadd (fadd (fmul k33 x3) (fmul k32 x2)) (fmul k31 x')) k30
  let yDen := fadd (fadd (fadd x3 (fmul k42 x2)) (fmul k41 x')) k40
  if xDen = 0 ∨ yDen = 0 then none
  else some (fdiv xNum xDen, fmul y' (fdiv yNum yDen))

/-- §6.6.3 `map_to_curve_simple_swu_3iso` -/
def mapToCurve (u : Nat) : APoint :=
  let (x', y') := mapToCurveSimpleSwu u
  isoMap x' y'

/-- §3 `encode_to_curve` (cofactor 1) -/
def encodeToCurve (H : Bytes → Bytes) (msg dst : Bytes) : APoint :=
  match hashToField H P msg dst 1 with
  | [u] => mapToCurve u
  | _ => none

/-- §3 `hash_to_curve` (cofactor 1): the two mapped points are added on secp256k1 -/
def hashToCurve (H : Bytes → Bytes) (msg dst : Bytes) : APoint :=
  match hashToField H P msg dst 2 with
  | [u0, u1] => padd (mapToCurve u0) (mapToCurve u1)
  | _ => none

/-- `hash_to_field` over the scalar field (C09) -/
def hashToScalar (H : Bytes → Bytes) (msg dst : Bytes) : Nat :=
  match hashToField H N msg dst 1 with
  | [u] => u
  | _ => 0

end Spec.Rfc9380
