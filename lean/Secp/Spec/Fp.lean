/-!
# Specification level: integers modulo `p` and `n`, the affine group law

Written from the mathematics, independently of the structure of the Go code.
Executable (core Lean only) so that the driver can use it as the oracle.
-/
namespace Spec

def P : Nat := 0xfffffffffffffffffffffffffffffffffffffffffffffffffffffffefffffc2f
def N : Nat := 0xfffffffffffffffffffffffffffffffebaaedce6af48a03bbfd25e8cd0364141

/-- square-and-multiply with explicit fuel (number of bits of `e`) -/
def powModAux (m : Nat) : Nat → Nat → Nat → Nat → Nat
  | 0, _, _, acc => acc
  | fuel+1, a, e, acc =>
    powModAux m fuel (a*a % m) (e / 2) (if e % 2 = 1 then acc * a % m else acc)

def powMod (a e m : Nat) : Nat := powModAux m (e.log2 + 1) (a % m) e (1 % m)

def fadd (a b : Nat) : Nat := (a + b) % P
def fsub (a b : Nat) : Nat := (a + P - b % P) % P
def fmul (a b : Nat) : Nat := (a * b) % P
def fneg (a : Nat) : Nat := (P - a % P) % P
def finv (a : Nat) : Nat := powMod a (P - 2) P
def fdiv (a b : Nat) : Nat := fmul a (finv b)
def isSquare (a : Nat) : Bool := a % P = 0 ∨ powMod a ((P - 1) / 2) P = 1
/-- the square root `a^((p+1)/4)` (RFC 9380 I.1 for `p ≡ 3 mod 4`); meaningful when `isSquare a` -/
def fsqrt (a : Nat) : Nat := powMod a ((P + 1) / 4) P
def sgn0 (a : Nat) : Nat := a % 2

/-- an affine point; `none` is the point at infinity -/
abbrev APoint := Option (Nat × Nat)

def onCurve (x y : Nat) : Bool := fmul y y = fadd (fmul (fmul x x) x) 7

def pneg : APoint → APoint
  | none => none
  | some (x, y) => some (x, fneg y)

/-- textbook affine chord-and-tangent addition on `y² = x³ + 7` -/
def padd : APoint → APoint → APoint
  | none, q => q
  | p, none => p
  | some (x1, y1), some (x2, y2) =>
    if x1 = x2 then
      if y1 = y2 ∧ y1 ≠ 0 then
        let l := fdiv (fmul 3 (fmul x1 x1)) (fmul 2 y1)
        let x3 := fsub (fsub (fmul l l) x1) x2
        some (x3, fsub (fmul l (fsub x1 x3)) y1)
      else none
    else
      let l := fdiv (fsub y2 y1) (fsub x2 x1)
      let x3 := fsub (fsub (fmul l l) x1) x2
      some (x3, fsub (fmul l (fsub x1 x3)) y1)

def psub (p q : APoint) : APoint := padd p (pneg q)

/-- `[k]P` by the binary recursion on `k` (independent of the ladder in the code) -/
def smul : Nat → APoint → APoint
  | 0, _ => none
  | k+1, p =>
    let h := smul ((k+1) / 2) p
    let d := padd h h
    if (k+1) % 2 = 1 then padd d p else d
decreasing_by omega

def G : APoint := some (0x79be667ef9dcbbac55a06295ce870b07029bfcdb2dce28d959f2815b16f81798,
                        0x483ada7726a3c4655da4fbfc0e1108a8fd17b448a68554199c47d08ffb10d4b8)

end Spec
