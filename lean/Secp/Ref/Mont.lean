import Secp.Prim
/-!
# Structured reference for word-by-word Montgomery arithmetic

The blocks follow, operation for operation, the order in which Fiat-Crypto
emits the code, so that `generated = reference` is a definitional equality
(`rfl` after unfolding), for any modulus record.
-/

structure L5 where
  l0 : Nat
  l1 : Nat
  l2 : Nat
  l3 : Nat
  l4 : Nat

/-- a * (y0..y3) as 5 limbs, in the op order Fiat emits -/
def mulRow (a y0 y1 y2 y3 : Nat) : L5 :=
  let p3 := mul64 a y3
  let p2 := mul64 a y2
  let p1 := mul64 a y1
  let p0 := mul64 a y0
  let s1 := add64 p0.1 p1.2 0
  let s2 := add64 p1.1 p2.2 s1.2
  let s3 := add64 p2.1 p3.2 s2.2
  ⟨p0.2, s1.1, s2.1, s3.1, wadd s3.2 p3.1⟩

/-- (t + q) / W where low limb is dropped; returns 4 limbs + carry -/
def addShift (t q : L5) : L5 :=
  let c0 := add64 t.l0 q.l0 0
  let s1 := add64 t.l1 q.l1 c0.2
  let s2 := add64 t.l2 q.l2 s1.2
  let s3 := add64 t.l3 q.l3 s2.2
  let s4 := add64 t.l4 q.l4 s3.2
  ⟨s1.1, s2.1, s3.1, s4.1, s4.2⟩

def add5 (t r : L5) : L5 × Nat :=
  let s0 := add64 t.l0 r.l0 0
  let s1 := add64 t.l1 r.l1 s0.2
  let s2 := add64 t.l2 r.l2 s1.2
  let s3 := add64 t.l3 r.l3 s2.2
  let s4 := add64 t.l4 r.l4 s3.2
  (⟨s0.1, s1.1, s2.1, s3.1, s4.1⟩, s4.2)

structure Modulus where
  m0 : Nat
  m1 : Nat
  m2 : Nat
  m3 : Nat
  m' : Nat

def Modulus.val (M : Modulus) : Nat := M.m0 + W * M.m1 + W^2 * M.m2 + W^3 * M.m3

def redStep (M : Modulus) (t : L5) : L5 :=
  let m := (mul64 t.l0 M.m').2
  addShift t (mulRow m M.m0 M.m1 M.m2 M.m3)

def condSub (M : Modulus) (t : L5) : L4 :=
  let d0 := sub64 t.l0 M.m0 0
  let d1 := sub64 t.l1 M.m1 d0.2
  let d2 := sub64 t.l2 M.m2 d1.2
  let d3 := sub64 t.l3 M.m3 d2.2
  let b := (sub64 t.l4 0 d3.2).2
  ⟨cmovznz b d0.1 t.l0, cmovznz b d1.1 t.l1, cmovznz b d2.1 t.l2, cmovznz b d3.1 t.l3⟩

def refMul (M : Modulus) (x y : L4) : L4 :=
  let a0 := redStep M (mulRow x.l0 y.l0 y.l1 y.l2 y.l3)
  let s1 := add5 ⟨a0.l0, a0.l1, a0.l2, a0.l3, a0.l4⟩ (mulRow x.l1 y.l0 y.l1 y.l2 y.l3)
  let r1 := redStep M s1.1
  let a1 : L5 := ⟨r1.l0, r1.l1, r1.l2, r1.l3, wadd r1.l4 s1.2⟩
  let s2 := add5 a1 (mulRow x.l2 y.l0 y.l1 y.l2 y.l3)
  let r2 := redStep M s2.1
  let a2 : L5 := ⟨r2.l0, r2.l1, r2.l2, r2.l3, wadd r2.l4 s2.2⟩
  let s3 := add5 a2 (mulRow x.l3 y.l0 y.l1 y.l2 y.l3)
  let r3 := redStep M s3.1
  let a3 : L5 := ⟨r3.l0, r3.l1, r3.l2, r3.l3, wadd r3.l4 s3.2⟩
  condSub M a3

/-- Fiat `Add`: 4-limb add, then conditional subtraction of the modulus. -/
def refAdd (M : Modulus) (x y : L4) : L4 :=
  let s0 := add64 x.l0 y.l0 0
  let s1 := add64 x.l1 y.l1 s0.2
  let s2 := add64 x.l2 y.l2 s1.2
  let s3 := add64 x.l3 y.l3 s2.2
  condSub M ⟨s0.1, s1.1, s2.1, s3.1, s3.2⟩

/-- Fiat `Sub`: 4-limb subtract, then add back the modulus masked by the final borrow.
`f mask` is the masked modulus (Fiat simplifies `mask & 0xff…f` to `mask`, so the shape of the
masking differs between the two fields and is a parameter). -/
def refSub (f : Nat → L4) (x y : L4) : L4 :=
  let d0 := sub64 x.l0 y.l0 0
  let d1 := sub64 x.l1 y.l1 d0.2
  let d2 := sub64 x.l2 y.l2 d1.2
  let d3 := sub64 x.l3 y.l3 d2.2
  let m := cmovznz d3.2 0 18446744073709551615
  let a0 := add64 d0.1 (f m).l0 0
  let a1 := add64 d1.1 (f m).l1 a0.2
  let a2 := add64 d2.1 (f m).l2 a1.2
  let a3 := add64 d3.1 (f m).l3 a2.2
  ⟨a0.1, a1.1, a2.1, a3.1⟩

def maskP (m : Nat) : L4 := ⟨Nat.land m 18446744069414583343, m, m, m⟩
def maskN (m : Nat) : L4 := ⟨Nat.land m 13822214165235122497, Nat.land m 13451932020343611451, Nat.land m 18446744073709551614, m⟩

/-- add a single word into the low limb of a 5-limb accumulator (4-limb carry chain, carry folded into the top limb) -/
def add4c (a : L5) (v : Nat) : L5 :=
  let s0 := add64 a.l0 v 0
  let s1 := add64 a.l1 0 s0.2
  let s2 := add64 a.l2 0 s1.2
  let s3 := add64 a.l3 0 s2.2
  ⟨s0.1, s1.1, s2.1, s3.1, wadd s3.2 a.l4⟩

/-- Fiat `FromMontgomery`: four reduction steps, feeding one input limb before each of the last three -/
def refFromMont (M : Modulus) (x : L4) : L4 :=
  let a0 := redStep M ⟨x.l0, 0, 0, 0, 0⟩
  let a1 := redStep M (add4c a0 x.l1)
  let a2 := redStep M (add4c a1 x.l2)
  let a3 := redStep M (add4c a2 x.l3)
  condSub M a3

/-- accumulate a 5-limb row into the accumulator: 4-limb carry chain, the three top contributions folded by wrapping adds -/
def add5c (a r : L5) : L5 :=
  let s0 := add64 a.l0 r.l0 0
  let s1 := add64 a.l1 r.l1 s0.2
  let s2 := add64 a.l2 r.l2 s1.2
  let s3 := add64 a.l3 r.l3 s2.2
  ⟨s0.1, s1.1, s2.1, s3.1, wadd (wadd s3.2 a.l4) r.l4⟩

/-- Fiat `ToMontgomery` when `R² mod m` has four non-trivial limbs (scalar field): Montgomery multiplication by `B` -/
def refToMontN (M : Modulus) (B x : L4) : L4 :=
  let a0 := redStep M (mulRow x.l0 B.l0 B.l1 B.l2 B.l3)
  let a1 := redStep M (add5c a0 (mulRow x.l1 B.l0 B.l1 B.l2 B.l3))
  let a2 := redStep M (add5c a1 (mulRow x.l2 B.l0 B.l1 B.l2 B.l3))
  let a3 := redStep M (add5c a2 (mulRow x.l3 B.l0 B.l1 B.l2 B.l3))
  condSub M a3

/-- `x * (c + 2^64)` as three limbs (base field: `R² mod p = c + 2^64`) -/
def rowP (x c : Nat) : L5 :=
  let p := mul64 x c
  let s := add64 p.1 x 0
  ⟨p.2, s.1, s.2, 0, 0⟩

def add4r (a r : L5) : L5 :=
  let s0 := add64 a.l0 r.l0 0
  let s1 := add64 a.l1 r.l1 s0.2
  let s2 := add64 a.l2 r.l2 s1.2
  let s3 := add64 a.l3 0 s2.2
  ⟨s0.1, s1.1, s2.1, s3.1, wadd s3.2 a.l4⟩

/-- Fiat `ToMontgomery` for the base field -/
def refToMontP (M : Modulus) (c : Nat) (x : L4) : L4 :=
  let a0 := redStep M (rowP x.l0 c)
  let a1 := redStep M (add4r a0 (rowP x.l1 c))
  let a2 := redStep M (add4r a1 (rowP x.l2 c))
  let a3 := redStep M (add4r a2 (rowP x.l3 c))
  condSub M a3

def R2n : L4 := ⟨9902555850136342848, 8364476168144746616, 16616019711348246470, 11342065889886772165⟩

def Mp : Modulus := ⟨0xfffffffefffffc2f, 0xffffffffffffffff, 0xffffffffffffffff, 0xffffffffffffffff, 0xd838091dd2253531⟩
def Mn : Modulus := ⟨0xbfd25e8cd0364141, 0xbaaedce6af48a03b, 0xfffffffffffffffe, 0xffffffffffffffff, 0x4b0dff665588b13f⟩

/-- `Reduce` (hand-written Go, both packages): conditional subtraction of the modulus by a borrow mask;
returns the new limbs and the final borrow (1 = the input was already below the modulus) -/
def refReduce (M : Modulus) (x : L4) : L4 × Nat :=
  let d0 := sub64 x.l0 M.m0 0
  let d1 := sub64 x.l1 M.m1 d0.2
  let d2 := sub64 x.l2 M.m2 d1.2
  let d3 := sub64 x.l3 M.m3 d2.2
  let mask := wneg d3.2
  (⟨Nat.lor (Nat.land d0.1 (wnot mask)) (Nat.land x.l0 mask),
    Nat.lor (Nat.land d1.1 (wnot mask)) (Nat.land x.l1 mask),
    Nat.lor (Nat.land d2.1 (wnot mask)) (Nat.land x.l2 mask),
    Nat.lor (Nat.land d3.1 (wnot mask)) (Nat.land x.l3 mask)⟩, d3.2)
