import Secp.Hand.Group
/-!
# Go slice semantics for the one place where the package builds a slice from a caller's slice: `vetDSTXMD`

A heap is a list of byte buffers (backing arrays); a slice is a view `(buffer, offset, len, cap)`. `append` writes in
place when the result fits in the capacity and allocates a new backing array otherwise (any growth policy);
`make` allocates. This is the model in which "no API call writes to caller-owned memory" (C15) is stated for
`vetDSTXMD`; the other slice-taking functions only read their arguments (static write analysis, `Facts.sliceParamWrites`).
-/
namespace Hand.Slices
open Spec (Bytes)

structure Slice where
  buf : Nat
  off : Nat
  len : Nat
  cap : Nat
deriving Repr, DecidableEq

abbrev Heap := List Bytes

def read (h : Heap) (s : Slice) : Bytes := ((h.getD s.buf []).drop s.off).take s.len

/-- overwrite `bs` into `b` starting at `pos` (positions beyond the end of `b` are dropped: a slice never exceeds its array) -/
def writeAt (b : Bytes) (pos : Nat) (bs : Bytes) : Bytes :=
  b.take pos ++ (bs.take (b.length - pos)) ++ b.drop (pos + bs.length)

/-- `make([]byte, len(content), cap)` filled with `content` -/
def alloc (h : Heap) (content : Bytes) (cap : Nat) : Heap × Slice :=
  (h ++ [content ++ List.replicate (cap - content.length) 0], ⟨h.length, 0, content.length, max cap content.length⟩)

/-- Go `append(s, bs...)` -/
def append (h : Heap) (s : Slice) (bs : Bytes) : Heap × Slice :=
  if s.len + bs.length ≤ s.cap then
    (h.set s.buf (writeAt (h.getD s.buf []) (s.off + s.len) bs), { s with len := s.len + bs.length })
  else alloc h (read h s ++ bs) (2 * (s.len + bs.length))

/-- `vetDSTXMD` after the repair of F5: DST′ is assembled in a freshly made buffer -/
def vetDST (H : Bytes → Bytes) (h : Heap) (dst : Slice) : Heap × Slice :=
  let hd := if dst.len > 255 then alloc h (H (Hand.Group.dstLongPrefix ++ read h dst)) 32 else (h, dst)
  let hp := alloc hd.1 [] (hd.2.len + 1)
  let h3 := append hp.1 hp.2 (read hp.1 hd.2)
  append h3.1 h3.2 [(Hand.Group.i2osp1 hd.2.len).headD 0]

end Hand.Slices
