import Secp.FieldOps
import Secp.Gen.FiatField
import Secp.Gen.FiatScalar
import Secp.Gen.FieldChains
import Secp.Gen.SqrtRatio
import Secp.Gen.ScalarChain
import Secp.Spec.Bytes
/-!
# Hand-written limb-level model of the L1 glue (`internal/field/element.go`,
`reduce.go`, `internal/scalar/scalar.go`)

These are the thin wrappers around the generated Fiat functions: method
forwarding, byte <-> limb conversion, wide reduction. They are tied to the Go
code by the correspondence families `F.*` / `S.*` (same inputs to the real
code and to these definitions, outputs diffed), not by regeneration.
-/
namespace Hand
open Spec (Bytes os2ip i2osp)

/-- the concrete operations record: `field.Element` methods on Montgomery limbs -/
def limbOps : FieldOps L4 where
  zero := ⟨0, 0, 0, 0⟩
  one := FiatField.setOne
  add := FiatField.add
  sub := FiatField.sub
  mul := FiatField.mul
  neg := FiatField.opp
  square := FiatField.square
  cmove := fun c u v => FiatField.selectznz c u v
  isZero := fun e => FiatField.isZero (FiatField.nonzero e)
  equals := FiatField.equals
  sgn0 := fun e => FiatField.isNonZero (Nat.land (FiatField.fromMontgomery e).l0 1)
  ofMont := fun a b c d => ⟨a, b, c, d⟩

/-- `binary.BigEndian.Uint64` on 8 bytes -/
def beU64 (b : Bytes) : Nat := os2ip (b.take 8)

/-- `bytesToNonMontgomery`: 32 big-endian bytes to four little-endian limbs -/
def bytesToLimbs (b : Bytes) : L4 :=
  ⟨beU64 (b.drop 24), beU64 (b.drop 16), beU64 (b.drop 8), beU64 b⟩

/-- `nonMontgomeryToBytes` -/
def limbsToBytes (l : L4) : Bytes := i2osp l.l3 8 ++ i2osp l.l2 8 ++ i2osp l.l1 8 ++ i2osp l.l0 8

/-- left-pad to 32 bytes (`copy(pad[32-len(input):], input)`) -/
def pad32 (b : Bytes) : Bytes := List.replicate (32 - b.length) 0 ++ b

namespace Fp
def fromBytesWithReduce (b : Bytes) : L4 × Nat :=
  let r := FiatField.reduce (bytesToLimbs b)
  (FiatField.toMontgomery r.1, r.2)
def fromBytesNoReduce (b : Bytes) : L4 := FiatField.toMontgomery (bytesToLimbs (pad32 b))
def bytes (e : L4) : Bytes := limbsToBytes (FiatField.fromMontgomery e)
def two192 : L4 := ⟨0, 0, 0, 4294968273⟩
def two384 : L4 := ⟨0, 0, 8392367050913, 1⟩
/-- `HashToFieldElement`: `in = 16 zero bytes ++ input`; a = in[40:], b = in[16:40], c = in[:16] -/
def hashToFieldElement (input : Bytes) : L4 :=
  let inp := List.replicate 16 0 ++ input
  let a := fromBytesNoReduce (inp.drop 40)
  let b := fromBytesNoReduce ((inp.drop 16).take 24)
  let c := fromBytesNoReduce (inp.take 16)
  let b := FiatField.mul b two192
  let c := FiatField.mul c two384
  FiatField.add (FiatField.add a b) c
end Fp

namespace Fn
/-- operations record for the scalar field (only `mul`/`square`/`add`/`sub` exist in the Go package;
the remaining fields are fillers never used by `ScalarChain.invert`) -/
def scalarOps : FieldOps L4 where
  zero := ⟨0, 0, 0, 0⟩
  one := FiatScalar.setOne
  add := FiatScalar.add
  sub := FiatScalar.sub
  mul := FiatScalar.mul
  neg := fun x => FiatScalar.sub ⟨0, 0, 0, 0⟩ x
  square := FiatScalar.square
  cmove := fun c u v => FiatScalar.selectznz c u v
  isZero := FiatScalar.isFEZero
  equals := FiatScalar.equal
  sgn0 := fun e => Nat.land (FiatScalar.fromMontgomery e).l0 1
  ofMont := fun a b c d => ⟨a, b, c, d⟩

def invert (x : L4) : L4 := ScalarChain.invert scalarOps x
def reduceBytes (b : Bytes) : L4 × Nat :=
  let r := FiatScalar.reduce (bytesToLimbs b)
  (FiatScalar.toMontgomery r.1, r.2)
def fromBytesNoReduce (b : Bytes) : L4 := FiatScalar.toMontgomery (bytesToLimbs (pad32 b))
def two192 : L4 := ⟨10328527898029845308, 10739309058364017386, 11342065889886772165, 4624529908474429120⟩
def two384 : L4 := ⟨2161815027462274937, 647662477280039658, 2865435121925625427, 4330881270917637700⟩
def hashToFieldElement (input : Bytes) : L4 :=
  let inp := List.replicate 16 0 ++ input
  let a := fromBytesNoReduce (inp.drop 40)
  let b := fromBytesNoReduce ((inp.drop 16).take 24)
  let c := fromBytesNoReduce (inp.take 16)
  let b := FiatScalar.mul b two192
  let c := FiatScalar.mul c two384
  FiatScalar.add (FiatScalar.add a b) c
end Fn

end Hand
