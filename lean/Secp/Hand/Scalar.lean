import Secp.Hand.Field
import Secp.Spec.Fp
import Secp.Gen.Facts
/-!
# Hand-written model of the `Scalar` API (`/repo/scalar.go`) on Montgomery limbs
Tied to the code by the correspondence family `SC.*`.
-/
namespace Hand.Scalar
open Spec (Bytes os2ip i2osp)

inductive Err | nilScalar | scalarLength | scalarTooBig | hexError
deriving DecidableEq, Repr

def zero : L4 := ⟨0, 0, 0, 0⟩
def one : L4 := FiatScalar.setOne
def minusOne : L4 := ⟨9197684256760693378, 8457119966977671287, 18446744073709551613, 18446744073709551615⟩

def add (s : L4) (t : Option L4) : L4 := match t with | none => s | some t => FiatScalar.add s t
def subtract (s : L4) (t : Option L4) : L4 := match t with | none => s | some t => FiatScalar.sub s t
def multiply (s : L4) (t : Option L4) : L4 := match t with | none => zero | some t => FiatScalar.mul s t
def square (s : L4) : L4 := FiatScalar.square s
def invert (s : L4) : L4 := Hand.Fn.invert s
def set (_s : L4) (t : Option L4) : L4 := match t with | none => zero | some t => t
def setUInt64 (i : Nat) : L4 := FiatScalar.toMontgomery ⟨i, 0, 0, 0⟩

def limb (n : L4) (i : Nat) : Nat := match i with | 0 => n.l0 | 1 => n.l1 | 2 => n.l2 | _ => n.l3

/-- number of positions the loop in `Scalar.Bits` fills in: read from the source on every run
(`for i := range N`, extracted by `go2lean` into `Facts.bitsLoopBound`) -/
def bitsLoopBound : Nat := Facts.bitsLoopBound

/-- the bit loop of `Bits` on the canonical limbs `n`: 256 entries; entry `i` for `i < bitsLoopBound` is
`(n[i/64] >> (i % 64)) & 1` -/
def bitsOf (n : L4) : List Nat :=
  (List.range 256).map (fun i => if i < bitsLoopBound then Nat.land (limb n (i / 64) >>> (i % 64)) 1 else 0)

/-- `Bits`: leave the Montgomery domain, then expand -/
def bits (s : L4) : List Nat := bitsOf (FiatScalar.fromMontgomery s)

def equal (s : L4) (t : Option L4) : Nat := match t with | none => 0 | some t => FiatScalar.equal s t
def isZero (s : L4) : Bool := FiatScalar.isFEZero s = 1
def isOne (s : L4) : Bool := FiatScalar.equal s FiatScalar.oneConst = 1

/-- `LessOrEqual`: both operands leave the Montgomery domain, then a 4-limb borrow chain -/
def lessOrEqual (s0 t0 : L4) : Nat :=
  let s := FiatScalar.fromMontgomery s0
  let t := FiatScalar.fromMontgomery t0
  let d0 := sub64 s.l0 t.l0 0
  let d1 := sub64 s.l1 t.l1 d0.2
  let d2 := sub64 s.l2 t.l2 d1.2
  let d3 := sub64 s.l3 t.l3 d2.2
  let eq := FiatScalar.isZero (Nat.lor (Nat.lor (Nat.lor d0.1 d1.1) d2.1) d3.1)
  Nat.lor eq (FiatScalar.isNonZero d3.2)

/-- `CSelect`: `none` operand -> error and receiver unchanged -/
def cselect (s : L4) (cond : Nat) (u v : Option L4) : Option Err × L4 :=
  match u, v with
  | some u, some v => (none, FiatScalar.selectznz (FiatScalar.isNonZero cond) u v)
  | _, _ => (some .nilScalar, s)

def encode (s : L4) : Bytes := limbsToBytes (FiatScalar.fromMontgomery s)

/-- `Decode`: returns the error (if any) and the receiver afterwards. On `scalarTooBig`
the receiver *is* overwritten with the reduced value, as in the code. -/
def decode (s : L4) (inp : Bytes) : Option Err × L4 :=
  if inp.length = 0 then (some .nilScalar, s)
  else if inp.length ≠ 32 then (some .scalarLength, s)
  else
    let r := Hand.Fn.reduceBytes inp
    if r.2 = 0 then (some .scalarTooBig, r.1) else (none, r.1)

def decodeHex (s : L4) (h : String) : Option Err × L4 :=
  match Spec.ofHex h with
  | none => (some .hexError, s)
  | some b => decode s b

/-- `Pow` through `math/big`: modelled with exact integer powering modulo the order
(`big.Int.Exp` is an assumed external; see the trusted base). -/
def pow (s : L4) (t : Option L4) : L4 :=
  match t with
  | none => one
  | some t =>
    if isZero t then one
    else if isOne t then s
    else
      let r := Spec.powMod (os2ip (encode s)) (os2ip (encode t)) Spec.N
      (decode s (i2osp r 32)).2

/-- `Random`: `for IsFEZero(&m) == 1 { ReadFull(32); Reduce; ToMontgomery }`. The entropy source is the byte
string `s` (then failure); `io.ReadFull` assembles 32 bytes whatever the chunking, and fails (-> panic, `none`)
when the source ends first. Second component: bytes consumed from the source. -/
def randomAux : Nat → Bytes → Nat → Option L4 × Nat
  | 0, s, used => (none, used + s.length)
  | fuel+1, s, used =>
    if s.length < 32 then (none, used + s.length) else
    let m := FiatScalar.toMontgomery (FiatScalar.reduce (bytesToLimbs (s.take 32))).1
    if FiatScalar.isFEZero m = 1 then randomAux fuel (s.drop 32) (used + 32) else (some m, used + 32)

def random (s : Bytes) : Option L4 × Nat := randomAux (s.length / 32 + 1) s 0

end Hand.Scalar
