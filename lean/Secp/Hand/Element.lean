import Secp.Hand.Field
import Secp.Hand.Scalar
import Secp.Gen.Curve
/-!
# Hand-written model of the `Element` API (`/repo/element.go`)

The straight-line formulas are the *generated* ones (`Secp.Gen.Curve`); this file
models the glue around them: nil handling, identity short-cuts, the ladder loop,
encoders and decoders. Generic over `FieldOps` wherever the code only goes through
`field.Element` methods. Tied to the code by the families `PT.*`, `EL.*`, `DEC.*`.
-/
namespace Hand.Element
open Spec (Bytes os2ip i2osp)

variable {α : Type} (F : FieldOps α)

def identity : Pt α := ⟨F.zero, F.one, F.zero⟩
def isIdentity (e : Pt α) : Bool := F.isZero e.z != 0

/-- `e.Add(arg)` with `arg` a different variable (or nil) -/
def add (e : Pt α) (arg : Option (Pt α)) : Pt α :=
  match arg with
  | none => e
  | some v => Curve.addProjectiveComplete_eu_v F e v
/-- `e.Add(e)` -/
def addSelf (e : Pt α) : Pt α := Curve.addProjectiveComplete_euv F e
def double (e : Pt α) : Pt α := Curve.doubleProjectiveComplete_eu F e
def negate (e : Pt α) : Pt α := if isIdentity F e then e else Curve.negate F e
/-- `e.Subtract(arg)`: the argument is copied, the copy negated (no identity shortcut), then added.
Because the copy is a fresh element this also covers `e.Subtract(e)`. -/
def subtract (e : Pt α) (arg : Option (Pt α)) : Pt α :=
  match arg with
  | none => e
  | some v => Curve.addProjectiveComplete_eu_v F e (Curve.negate F v)
def equal (e u : Pt α) : Nat := Curve.isEqual F e u

/-- one iteration of the ladder in `multiply` -/
def ladderStep (st : Pt α × Pt α) (bit : Nat) : Pt α × Pt α :=
  if bit = 0 then
    let r1 := Curve.addProjectiveComplete_eu_v F st.2 st.1
    let r0 := Curve.doubleProjectiveComplete_eu F st.1
    (r0, r1)
  else
    let r0 := Curve.addProjectiveComplete_eu_v F st.1 st.2
    let r1 := Curve.doubleProjectiveComplete_eu F st.2
    (r0, r1)

/-- the loop `for i := 255; i >= 0; i--` over `bits` (little-endian list of 256 entries) -/
def ladder (e : Pt α) (bits : List Nat) : Pt α :=
  (bits.reverse.foldl (ladderStep F) (identity F, e)).1

/-- body of `multiply` given the outcome of `s.IsOne()` and the bit expansion `s.Bits()` -/
def multiplyCore (e : Pt α) (one : Bool) (bits : List Nat) : Pt α :=
  if one then e else ladder F e bits

/-- `Multiply`: nil scalar -> identity; scalar one -> receiver unchanged; else the ladder -/
def multiply (e : Pt α) (k : Option L4) : Pt α :=
  match k with
  | none => identity F
  | some s => multiplyCore F e (Hand.Scalar.isOne s) (Hand.Scalar.bits s)

end Hand.Element

namespace Hand.ElementL
/-! the byte-level functions at the concrete limb representation -/
open Spec (Bytes os2ip i2osp)
open Hand.Element

abbrev P4 := Pt L4
def F := Hand.limbOps

inductive Err | invalidPointEncoding | hexError
deriving DecidableEq, Repr

/-- `subtle.ConstantTimeSelect(v, x, y)`: `x` if `v = 1`, `y` if `v = 0` -/
def ctSelect (v x y : Nat) : Nat := if v = 1 then x else y

def encode (e : P4) : Bytes :=
  let isId := F.isZero e.z
  let a := Curve.affine F e
  let ySign := ctSelect (F.sgn0 a.y) 3 2
  let pre := ctSelect isId 0 ySign
  let body := if FiatField.isZero isId = 1 then Hand.Fp.bytes a.x else List.replicate 32 0
  (pre :: body).take (ctSelect isId 1 33)

def encodeUncompressed (e : P4) : Bytes :=
  let isId := F.isZero e.z
  let a := Curve.affine F e
  let pre := ctSelect isId 0 4
  (pre :: (Hand.Fp.bytes a.x ++ Hand.Fp.bytes a.y)).take (ctSelect isId 1 65)

def xCoordinate (e : P4) : Bytes := (encode e).drop 1

def decodeCoordinates (e : P4) (x y : Bytes) : Option Err × P4 :=
  let fx := Hand.Fp.fromBytesWithReduce x
  if fx.2 = 0 then (some .invalidPointEncoding, e) else
  let fy := Hand.Fp.fromBytesWithReduce y
  if fy.2 = 0 then (some .invalidPointEncoding, e) else
  let y2 := Curve.secp256Polynomial F fx.1
  if F.equals y2 (F.square fy.1) ≠ 1 then (some .invalidPointEncoding, e) else
  (none, ⟨fx.1, fy.1, F.one⟩)

def decodeCompressed (e : P4) (data : Bytes) : Option Err × P4 :=
  if data.length ≠ 33 then (some .invalidPointEncoding, e) else
  let pre := data.headD 0
  if pre ≠ 2 ∧ pre ≠ 3 then (some .invalidPointEncoding, e) else
  let fx := Hand.Fp.fromBytesWithReduce (data.drop 1)
  if fx.2 = 0 then (some .invalidPointEncoding, e) else
  let y2 := Curve.secp256Polynomial F fx.1
  let r := FieldChains.sqrtRatio F y2 F.one
  if r.2 ≠ 1 then (some .invalidPointEncoding, e) else
  let cond := Nat.xor (F.sgn0 r.1) (Nat.land pre 1)
  let ny := F.neg r.1
  (none, ⟨fx.1, F.cmove cond r.1 ny, F.one⟩)

def decodeUncompressed (e : P4) (data : Bytes) : Option Err × P4 :=
  if data.length ≠ 65 then (some .invalidPointEncoding, e) else
  if data.headD 0 ≠ 4 then (some .invalidPointEncoding, e) else
  decodeCoordinates e ((data.drop 1).take 32) (data.drop 33)

def decode (e : P4) (data : Bytes) : Option Err × P4 :=
  if data.length = 1 then
    if data.headD 1 ≠ 0 then (some .invalidPointEncoding, e) else (none, identity F)
  else if data.length = 33 then decodeCompressed e data
  else if data.length = 65 then decodeUncompressed e data
  else (some .invalidPointEncoding, e)

def decodeHex (e : P4) (h : String) : Option Err × P4 :=
  match Spec.ofHex h with
  | none => (some .hexError, e)
  | some b => decode e b

def base : P4 :=
  ⟨⟨15507633332195041431, 2530505477788034779, 10925531211367256732, 11061375339145502536⟩,
   ⟨12780836216951778274, 10231155108014310989, 8121878653926228278, 14933801261141951190⟩,
   FiatField.setOne⟩

end Hand.ElementL
