import Secp.Hand.Group
import Secp.Spec.Sec1
import Secp.Spec.Rfc9380
/-!
# C10: the concrete machine (pools of limb-level values, steps assembled from the
model of the API) and the abstract machine (pools of affine points and integers mod n)
-/
namespace Hand.History
open Spec (Bytes APoint)

inductive Op
  | base (i : Nat) | identity (i : Nat) | set (i j : Nat) | copy (i j : Nat)
  | add (i : Nat) (j : Option Nat) | dbl (i : Nat) | neg (i : Nat) | sub (i : Nat) (j : Option Nat)
  | mul (i : Nat) (sj : Option Nat) | dec (i : Nat) (b : Bytes)
  | h2g (i : Nat) (msg dst : Bytes) | e2g (i : Nat) (msg dst : Bytes)
  | sadd (i : Nat) (j : Option Nat) | ssub (i : Nat) (j : Option Nat) | smul (i : Nat) (j : Option Nat)
  | ssq (i : Nat) | sinv (i : Nat) | sset (i : Nat) (j : Option Nat) | scopy (i j : Nat)
  | ssetu (i v : Nat) | sdec (i : Nat) (b : Bytes) | sone (i : Nat) | szero (i : Nat) | sminus (i : Nat)
  | h2s (i : Nat) (msg dst : Bytes) | spow (i : Nat) (j : Option Nat)
deriving Repr

structure CState where
  el : List (Pt L4)
  sc : List L4

structure AState where
  el : List APoint
  sc : List Nat

def F := Hand.limbOps
def idC : Pt L4 := Hand.Element.identity F
def poolSize : Nat := 4
def initC : CState := ⟨List.replicate poolSize idC, List.replicate poolSize Hand.Scalar.zero⟩
def initA : AState := ⟨List.replicate poolSize none, List.replicate poolSize 0⟩

def getE (s : CState) (i : Nat) : Pt L4 := s.el.getD i idC
def getS (s : CState) (i : Nat) : L4 := s.sc.getD i Hand.Scalar.zero
def setE (s : CState) (i : Nat) (v : Pt L4) : CState := { s with el := s.el.set i v }
def setS (s : CState) (i : Nat) (v : L4) : CState := { s with sc := s.sc.set i v }

/-- concrete step; `H` is the hash. Output: an error tag (`""` when none). Hash calls with an empty DST panic: tag `panic`. -/
def cstep (H : Bytes → Bytes) (s : CState) : Op → CState × String
  | .base i => (setE s i Hand.ElementL.base, "")
  | .identity i => (setE s i idC, "")
  | .set i j => (setE s i (getE s j), "")
  | .copy i j => (setE s i (getE s j), "")
  | .add i none => (s, "")
  | .add i (some j) =>
      (setE s i (if i = j then Hand.Element.addSelf F (getE s i) else Hand.Element.add F (getE s i) (some (getE s j))), "")
  | .dbl i => (setE s i (Hand.Element.double F (getE s i)), "")
  | .neg i => (setE s i (Hand.Element.negate F (getE s i)), "")
  | .sub i j => (setE s i (Hand.Element.subtract F (getE s i) (j.map (getE s))), "")
  | .mul i sj => (setE s i (Hand.Element.multiply F (getE s i) (sj.map (getS s))), "")
  | .dec i b => let o := Hand.ElementL.decode (getE s i) b
      (setE s i o.2, match o.1 with | none => "" | some _ => "invalidPointEncoding")
  | .h2g i m d => (match Hand.Group.hashToGroup H m d with | none => (s, "panic") | some p => (setE s i p, ""))
  | .e2g i m d => (match Hand.Group.encodeToGroup H m d with | none => (s, "panic") | some p => (setE s i p, ""))
  | .sadd i j => (setS s i (Hand.Scalar.add (getS s i) (j.map (getS s))), "")
  | .ssub i j => (setS s i (Hand.Scalar.subtract (getS s i) (j.map (getS s))), "")
  | .smul i j => (setS s i (Hand.Scalar.multiply (getS s i) (j.map (getS s))), "")
  | .ssq i => (setS s i (Hand.Scalar.square (getS s i)), "")
  | .sinv i => (setS s i (Hand.Scalar.invert (getS s i)), "")
  | .sset i j => (setS s i (Hand.Scalar.set (getS s i) (j.map (getS s))), "")
  | .scopy i j => (setS s i (getS s j), "")
  | .ssetu i v => (setS s i (Hand.Scalar.setUInt64 v), "")
  | .sdec i b => let o := Hand.Scalar.decode (getS s i) b
      (setS s i o.2, match o.1 with
        | none => "" | some .nilScalar => "nilScalar" | some .scalarLength => "scalarLength"
        | some .scalarTooBig => "scalarTooBig" | some .hexError => "hexError")
  | .sone i => (setS s i Hand.Scalar.one, "")
  | .szero i => (setS s i Hand.Scalar.zero, "")
  | .sminus i => (setS s i Hand.Scalar.minusOne, "")
  | .h2s i m d => (match Hand.Group.hashToScalar H m d with | none => (s, "panic") | some v => (setS s i v, ""))
  | .spow i j => (setS s i (Hand.Scalar.pow (getS s i) (j.map (getS s))), "")

def agetE (s : AState) (i : Nat) : APoint := s.el.getD i none
def agetS (s : AState) (i : Nat) : Nat := s.sc.getD i 0
def asetE (s : AState) (i : Nat) (v : APoint) : AState := { s with el := s.el.set i v }
def asetS (s : AState) (i : Nat) (v : Nat) : AState := { s with sc := s.sc.set i v }

open Spec in
/-- abstract step, written from the property text: every variable is a point of the group or an
integer mod n. (A scalar decode rejected as `scalarTooBig` leaves the variable holding the input
reduced mod n — see DESIGN §5 C07; C10 observes what the API does.) -/
def astep (H : Bytes → Bytes) (s : AState) : Op → AState × String
  | .base i => (asetE s i G, "")
  | .identity i => (asetE s i none, "")
  | .set i j => (asetE s i (agetE s j), "")
  | .copy i j => (asetE s i (agetE s j), "")
  | .add i none => (s, "")
  | .add i (some j) => (asetE s i (padd (agetE s i) (agetE s j)), "")
  | .dbl i => (asetE s i (padd (agetE s i) (agetE s i)), "")
  | .neg i => (asetE s i (pneg (agetE s i)), "")
  | .sub i none => (s, "")
  | .sub i (some j) => (asetE s i (psub (agetE s i) (agetE s j)), "")
  | .mul i none => (asetE s i none, "")
  | .mul i (some j) => (asetE s i (smul (agetS s j) (agetE s i)), "")
  | .dec i b => (match Spec.decode b with | some p => (asetE s i p, "") | none => (s, "invalidPointEncoding"))
  | .h2g i m d => if d.length = 0 then (s, "panic") else (asetE s i (Rfc9380.hashToCurve H m d), "")
  | .e2g i m d => if d.length = 0 then (s, "panic") else (asetE s i (Rfc9380.encodeToCurve H m d), "")
  | .sadd i none => (s, "")
  | .sadd i (some j) => (asetS s i ((agetS s i + agetS s j) % N), "")
  | .ssub i none => (s, "")
  | .ssub i (some j) => (asetS s i ((agetS s i + N - agetS s j) % N), "")
  | .smul i none => (asetS s i 0, "")
  | .smul i (some j) => (asetS s i ((agetS s i * agetS s j) % N), "")
  | .ssq i => (asetS s i ((agetS s i * agetS s i) % N), "")
  | .sinv i => (asetS s i (powMod (agetS s i) (N - 2) N), "")
  | .sset i none => (asetS s i 0, "")
  | .sset i (some j) => (asetS s i (agetS s j), "")
  | .scopy i j => (asetS s i (agetS s j), "")
  | .ssetu i v => (asetS s i (v % N), "")
  | .sdec i b =>
      if b.length = 0 then (s, "nilScalar")
      else if b.length ≠ 32 then (s, "scalarLength")
      else if os2ip b < N then (asetS s i (os2ip b), "")
      else (asetS s i (os2ip b % N), "scalarTooBig")
  | .sone i => (asetS s i 1, "")
  | .szero i => (asetS s i 0, "")
  | .sminus i => (asetS s i (N - 1), "")
  | .h2s i m d => if d.length = 0 then (s, "panic") else (asetS s i (Rfc9380.hashToScalar H m d), "")
  | .spow i none => (asetS s i 1, "")
  | .spow i (some j) => (asetS s i (powMod (agetS s i) (agetS s j) N), "")

/-- everything the API lets one observe about the pools: `Encode`, `IsIdentity` and pairwise `Equal` of the
elements, `Encode`, `IsZero` and pairwise `Equal` of the scalars -/
structure Obs where
  enc : List Bytes
  isId : List Bool
  eq : List (List Nat)
  senc : List Bytes
  sz : List Bool
  seq : List (List Nat)
deriving DecidableEq

def cobs (c : CState) : Obs where
  enc := c.el.map Hand.ElementL.encode
  isId := c.el.map (Hand.Element.isIdentity F)
  eq := c.el.map fun p => c.el.map fun q => Hand.Element.equal F p q
  senc := c.sc.map Hand.Scalar.encode
  sz := c.sc.map Hand.Scalar.isZero
  seq := c.sc.map fun x => c.sc.map fun y => Hand.Scalar.equal x (some y)

def aobs (a : AState) : Obs where
  enc := a.el.map Spec.encodeCompressed
  isId := a.el.map fun p => decide (p = none)
  eq := a.el.map fun p => a.el.map fun q => if p = q then 1 else 0
  senc := a.sc.map fun v => Spec.i2osp v 32
  sz := a.sc.map fun v => decide (v = 0)
  seq := a.sc.map fun v => a.sc.map fun w => if v = w then 1 else 0

/-- run a history, collecting the error tag and the observation after every step -/
def crun (H : Bytes → Bytes) : CState → List Op → List (String × Obs)
  | _, [] => []
  | s, op :: ops => let r := cstep H s op; (r.2, cobs r.1) :: crun H r.1 ops
def arun (H : Bytes → Bytes) : AState → List Op → List (String × Obs)
  | _, [] => []
  | s, op :: ops => let r := astep H s op; (r.2, aobs r.1) :: arun H r.1 ops

/-- the variable an operation writes (everything else must stay as it was) -/
def Op.recvE : Op → Option Nat
  | .base i | .identity i | .set i _ | .copy i _ | .add i _ | .dbl i | .neg i | .sub i _ | .mul i _
  | .dec i _ | .h2g i _ _ | .e2g i _ _ => some i
  | _ => none
def Op.recvS : Op → Option Nat
  | .sadd i _ | .ssub i _ | .smul i _ | .ssq i | .sinv i | .sset i _ | .scopy i _ | .ssetu i _ | .sdec i _
  | .sone i | .szero i | .sminus i | .h2s i _ _ | .spow i _ => some i
  | _ => none

end Hand.History
