import Secp.Hand.Element
/-!
# Hand-written model of `xmd.go` and `group.go`

`H` is the hash function (a parameter; `crypto/sha256` in the real program). A zero
length DST makes the Go code panic: modelled as `none`. The memory behaviour of
`vetDSTXMD` (C15) is modelled separately in `Secp.Hand.Slices`.
Tied to the code by the families `XMD.*` and `H2C.*`.
-/
namespace Hand.Group
open Spec (Bytes os2ip i2osp)

def dstLongPrefix : Bytes := "H2C-OVERSIZE-DST-".toList.map Char.toNat

def i2osp1 (v : Nat) : Bytes := (i2osp (v % 65536) 2).drop 1
def i2osp2 (v : Nat) : Bytes := i2osp (v % 65536) 2

def vetDSTXMD (H : Bytes → Bytes) (dst : Bytes) : Bytes :=
  let dst := if dst.length > 255 then H (dstLongPrefix ++ dst) else dst
  dst ++ [(i2osp1 dst.length).headD 0]

def xorSlices (bi b0 : Bytes) : Bytes := List.zipWith Nat.xor bi b0

/-- the loop `for i := 2; i <= ell; i++` of `xmd` -/
def xmdLoop (H : Bytes → Bytes) (b0 dstPrime : Bytes) : Nat → Nat → Bytes → Bytes → Bytes
  | 0, _, _, acc => acc
  | k+1, i, bi, acc =>
    let bi' := H (xorSlices bi b0 ++ [i % 256] ++ dstPrime)
    xmdLoop H b0 dstPrime k (i+1) bi' (acc ++ bi')

def xmd (H : Bytes → Bytes) (b0 b1 dstPrime : Bytes) (length : Nat) : Bytes :=
  let ell := (length + 31) / 32      -- `uint(math.Ceil(float64(length)/32))`, exact for the lengths used
  (xmdLoop H b0 dstPrime (ell - 1) 2 b1 b1).take length

def expandXMD (H : Bytes → Bytes) (input dst : Bytes) (length : Nat) : Option Bytes :=
  if dst.length = 0 then none else
  let dstP := vetDSTXMD H dst
  let lib := i2osp2 length
  let b0 := H (List.replicate 64 0 ++ input ++ lib ++ [0] ++ dstP)
  let b1 := H (b0 ++ [1] ++ dstP)
  some (xmd H b0 b1 dstP length)

def hashToScalar (H : Bytes → Bytes) (input dst : Bytes) : Option L4 :=
  (expandXMD H input dst 48).map Hand.Fn.hashToFieldElement

def F := Hand.limbOps

/-- map one field element to the group: `IsogenySecp256k13iso(SSWU(u))` (generic over the operations record) -/
def encodeToGroupCore {α : Type} (F : FieldOps α) (u0 : α) : Pt α := Curve.isogeny F (Curve.sswu F u0)

/-- map two field elements and add the results with the complete addition -/
def hashToGroupCore {α : Type} (F : FieldOps α) (u0 u1 : α) : Pt α :=
  Hand.Element.add F (encodeToGroupCore F u0) (some (encodeToGroupCore F u1))

/-- body of `EncodeToGroup` after the expander call -/
def encodeToGroupFromUniform (u : Bytes) : Pt L4 :=
  encodeToGroupCore F (Hand.Fp.hashToFieldElement (u.take 48))

/-- body of `HashToGroup` after the expander call -/
def hashToGroupFromUniform (u : Bytes) : Pt L4 :=
  hashToGroupCore F (Hand.Fp.hashToFieldElement (u.take 48)) (Hand.Fp.hashToFieldElement ((u.drop 48).take 48))

def encodeToGroup (H : Bytes → Bytes) (input dst : Bytes) : Option (Pt L4) :=
  (expandXMD H input dst 48).map encodeToGroupFromUniform

def hashToGroup (H : Bytes → Bytes) (input dst : Bytes) : Option (Pt L4) :=
  (expandXMD H input dst 96).map hashToGroupFromUniform

def order : Bytes := [255, 255, 255, 255, 255, 255, 255, 255, 255, 255, 255, 255, 255, 255, 255, 254,
  186, 174, 220, 230, 175, 72, 160, 59, 191, 210, 94, 140, 208, 54, 65, 65]

/-- `Ciphersuite()`, `ScalarLength()`, `ElementLength()` -/
def ciphersuite : String := "secp256k1_XMD:SHA-256_SSWU_RO_"
def scalarLength : Nat := 32
def elementLength : Nat := 33

end Hand.Group
