/-!
# Semantics of Go `uint64` arithmetic and the `math/bits` intrinsics

Every `uint64` value of the Go program is modelled as a `Nat` below `W = 2^64`.
The functions here are total on `Nat`; the spec lemmas in `Secp.Proofs.PrimSpec`
assume the operands are below `W` (which is what a `uint64` is).

The arithmetic primitives are `@[irreducible]`: generated code is a flat chain
of applications of these symbols, and the `rfl` ties between generated Fiat
code and the structured reference stay cheap because nothing unfolds.
-/

def W : Nat := 2^64

/-- `bits.Mul64(a,b)` returns `(hi, lo)`. -/
@[irreducible] def mul64 (a b : Nat) : Nat × Nat := (a*b / W, a*b % W)
/-- `bits.Add64(a,b,c)` returns `(sum, carryOut)`. -/
@[irreducible] def add64 (a b c : Nat) : Nat × Nat := ((a+b+c) % W, (a+b+c) / W)
/-- `bits.Sub64(a,b,c)` returns `(diff, borrowOut)`. -/
@[irreducible] def sub64 (a b c : Nat) : Nat × Nat :=
  ((a + W - (b + c) % W) % W, if a < b + c then 1 else 0)
/-- wrapping `+` -/
@[irreducible] def wadd (a b : Nat) : Nat := (a+b) % W
/-- wrapping `*` -/
def wmul (a b : Nat) : Nat := (a*b) % W
/-- `^x` (bitwise complement) -/
def wnot (a : Nat) : Nat := W - 1 - a
/-- wrapping binary `-` -/
def wsub (a b : Nat) : Nat := (a + W - b % W) % W
/-- unary `-x` -/
def wneg (a : Nat) : Nat := (W - a % W) % W
def wand (a b : Nat) : Nat := Nat.land a b
def wor (a b : Nat) : Nat := Nat.lor a b
def wxor (a b : Nat) : Nat := Nat.xor a b
def wshr (a k : Nat) : Nat := a >>> k
def wshl (a k : Nat) : Nat := (a <<< k) % W

/-- Fiat's `cmovznzU64`: note that `c` is *not* truncated to one bit, exactly as
in the Go code (`type uint1 uint64`). -/
@[irreducible] def cmovznz (c z nz : Nat) : Nat :=
  let x1 := wmul c 18446744073709551615
  Nat.lor (Nat.land x1 nz) (Nat.land (wnot x1) z)

/-- four 64-bit limbs, least significant first -/
structure L4 where
  l0 : Nat
  l1 : Nat
  l2 : Nat
  l3 : Nat
deriving DecidableEq, Repr, Inhabited

def L4.eval (a : L4) : Nat := a.l0 + W * a.l1 + W^2 * a.l2 + W^3 * a.l3
def L4.ok (a : L4) : Prop := a.l0 < W ∧ a.l1 < W ∧ a.l2 < W ∧ a.l3 < W
def L4.ofNat (v : Nat) : L4 := ⟨v % W, v / W % W, v / W^2 % W, v / W^3 % W⟩

instance (a : L4) : Decidable a.ok := by unfold L4.ok; infer_instance
