import Secp.Proofs.MapToCurve
/-!
# C11 — map-to-curve is total and RFC-exact on every field element

Model of the code: the *generated* `Curve.sswu` and `Curve.isogeny` (regenerated from `mapping.go` on every run, tied
definitionally to small structured references), the generated `SqrtRatio` with its addition chain `x^((p-3)/4)`, the
generated inversion chain, at the limb implementation. Specification: `Spec.Rfc9380.mapToCurveSimpleSwu` (§6.6.2
textbook form, `sqrt` = the RFC's `x^((p+1)/4)`), `isoMap` (E.1 with the RFC's hex constants), `mapToCurve`.

The three exceptional `u` (`u = 0`, `u = ±sqrt(-1/Z)`) are not special cases of the theorem: they are the branch
`(Z u²)² + Z u² = 0` of `x1F`, where the proof uses that `g(B/(Z·A))` is a square (kernel-evaluated).
-/
namespace C11
open Spec Spec.Rfc9380

/-- **simplified SWU**: for every canonical `u` the generated straight-line map returns exactly the affine point of
`map_to_curve_simple_swu(u)`; that point lies on the isogenous curve and `sgn0(y) = sgn0(u)` (when `y ≠ 0`) -/
theorem sswu_exact (u : L4) (hu : limbOk u) :
    limbOk (Curve.sswu FL u).x ∧ limbOk (Curve.sswu FL u).y ∧
    (limbVal (Curve.sswu FL u).x).val = (mapToCurveSimpleSwu (limbVal u).val).1 ∧
    (limbVal (Curve.sswu FL u).y).val = (mapToCurveSimpleSwu (limbVal u).val).2 ∧
    limbVal (Curve.sswu FL u).y ^ 2 = gF (limbVal (Curve.sswu FL u).x) ∧
    (limbVal (Curve.sswu FL u).y ≠ 0 → (limbVal (Curve.sswu FL u).y).val % 2 = (limbVal u).val % 2) := by
  obtain ⟨ox, oy, ex, ey, rel⟩ := sswu_spec limbLawful limb_swConsts limb_sqrtConsts limb_sgnLaw u hu
  exact ⟨ox, oy, ex, ey, rel.on_curve, rel.2.2⟩

/-- **the isogeny** on every point of `E'` (indeed on any canonical pair): the E.1 rational map, the identity when
a denominator vanishes -/
theorem isogeny_exact (e : Pt L4) (hx : limbOk e.x) (hy : limbOk e.y) :
    PtOk limbLawful (Curve.isogeny FL e) ∧
    ((xDenF (limbVal e.x) = 0 ∨ yDenF (limbVal e.x) = 0) → Curve.isogeny FL e = ⟨FL.zero, FL.one, FL.zero⟩) ∧
    (xDenF (limbVal e.x) ≠ 0 → yDenF (limbVal e.x) ≠ 0 →
        limbVal (Curve.isogeny FL e).x = xNumF (limbVal e.x) / xDenF (limbVal e.x) ∧
        limbVal (Curve.isogeny FL e).y = limbVal e.y * (yNumF (limbVal e.x) / yDenF (limbVal e.x)) ∧
        (Curve.isogeny FL e).z = FL.one) :=
  isogeny_spec limbLawful limb_isoConsts e hx hy

/-- the image of `E'` under the isogeny satisfies `y² = x³ + 7` (degree-15 polynomial identity, certificate checked by `ring`) -/
theorem isogeny_image_on_curve (x y : ZMod P) (hE : y ^ 2 = gF x) (hx : xDenF x ≠ 0) (hy : yDenF x ≠ 0) :
    (y * (yNumF x / yDenF x)) ^ 2 = (xNumF x / xDenF x) ^ 3 + 7 := iso_on_curve x y hE hx hy

/-- **C11**: the composition is total, always yields a valid group element, and is `map_to_curve(u)` of RFC 9380 -/
theorem map_to_curve_exact (u : L4) (hu : limbOk u) :
    PtValid limbLawful (Curve.isogeny FL (Curve.sswu FL u)) ∧
    affPtG limbLawful (Curve.isogeny FL (Curve.sswu FL u)) = mapToCurve (limbVal u).val :=
  map_to_curve_spec u hu

-- non-vacuity: u = 0 (exceptional) and the Montgomery form of 1 are canonical
example : limbOk ⟨0, 0, 0, 0⟩ ∧ limbOk FiatField.setOne := ⟨⟨by decide, by decide⟩, ⟨by decide, by decide⟩⟩

end C11
