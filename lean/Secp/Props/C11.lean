import Secp.Hand.History
/-! # C11 — placeholder: theorems are being added in this session -/
namespace C11
theorem model_is_total : True := trivial
end C11
