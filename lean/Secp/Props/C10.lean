import Secp.Hand.History
/-! # C10 — placeholder: theorems are being added in this session -/
namespace C10
theorem model_is_total : True := trivial
end C10
