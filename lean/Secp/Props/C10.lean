import Secp.Proofs.History
import Secp.Proofs.ScalarApiTiesArith
import Secp.Proofs.ScalarApiTiesTests
import Secp.Proofs.ElementApiTies
import Secp.Proofs.ElementApiTiesEq
import Secp.Proofs.ElementApiTiesConstr
import Secp.Proofs.DecodeTies
import Secp.Proofs.ElementMulTies
import Secp.Proofs.ScalarCodecTies
/-!
# C10 — any history of element and scalar operations matches the abstract group model

Concrete machine (`Hand.History.cstep`): pools of projective limb triples and Montgomery scalars, each step assembled from
the model of the API (`Hand.Element.*`, `Hand.ElementL.decode`, `Hand.Group.*`, `Hand.Scalar.*`), the generated formulas
underneath; receiver/argument aliasing is part of the operation (`add i (some i)` runs the generated self-aliased
specialisation). Abstract machine (`astep`): every variable is a point of the curve group (`Option (ℕ × ℕ)`) or an integer
mod n, steps written with `Spec.padd/pneg/smul/decode`, RFC 9380 and plain modular arithmetic. `HInv` = every element is
a valid projective point of the curve, every scalar canonical. Tied to the code by the families `history`/`historylong`
(same op sequences on the real API, three-way comparison of raw limbs, Encode, IsIdentity, Equal, IsZero after every step).
-/
namespace C10
open Spec Hand.History

/-- **one step**: from any valid state, any (well-formed) operation — any receiver, any argument, the same variable
included — keeps every element a valid curve point and every scalar canonical, commutes with the abstraction, and
returns the abstract machine's error tag -/
theorem step_refines (H : Bytes → Bytes) (hH : HashOK H) (s : CState) (op : Op) (hI : HInv s) (hop : WfOp op) :
    HInv (cstep H s op).1 ∧ absS (cstep H s op).1 = (astep H (absS s) op).1 ∧
    (cstep H s op).2 = (astep H (absS s) op).2 := _root_.step_refines H hH s op hI hop

/-- **what is observable** (`Encode`, `IsIdentity`, pairwise `Equal` of elements; `Encode`, `IsZero`, pairwise `Equal` of
scalars) of a valid concrete state is computed from its abstraction alone -/
theorem obs_refines (s : CState) (hI : HInv s) : cobs s = aobs (absS s) := _root_.obs_refines s hI

/-- **C10**: for every finite history from the initial pools, the error tags and the observations after every step are
those of the abstract model -/
theorem history_refines (H : Bytes → Bytes) (hH : HashOK H) (ops : List Op) (hops : ∀ op ∈ ops, WfOp op) :
    crun H initC ops = arun H initA ops := by
  rw [← initC_abs]; exact run_refines H hH ops hops initC initC_inv

/-- the same from any valid state (histories compose) -/
theorem history_refines_from (H : Bytes → Bytes) (hH : HashOK H) (ops : List Op) (hops : ∀ op ∈ ops, WfOp op)
    (s : CState) (hI : HInv s) : crun H s ops = arun H (absS s) ops := run_refines H hH ops hops s hI

/-- **every element remains a valid curve point** (and every scalar canonical) after any history -/
theorem always_valid (H : Bytes → Bytes) (hH : HashOK H) (ops : List Op) (hops : ∀ op ∈ ops, WfOp op) :
    HInv (ops.foldl (fun s op => (cstep H s op).1) initC) := (run_state H hH ops hops initC initC_inv).1

/-- **operands that are not the receiver are never changed**: a step leaves every variable other than its receiver
holding the identical limbs, in both pools, and never resizes a pool -/
theorem non_receivers_unchanged (H : Bytes → Bytes) (s : CState) (op : Op) :
    (∀ k, op.recvE ≠ some k → (cstep H s op).1.el[k]? = s.el[k]?) ∧
    (∀ k, op.recvS ≠ some k → (cstep H s op).1.sc[k]? = s.sc[k]?) ∧
    (cstep H s op).1.el.length = s.el.length ∧ (cstep H s op).1.sc.length = s.sc.length := step_frame H s op

/-- **copies are independent of their source**: after `e_i.Set(e_j)` (`i ≠ j`), whatever is then done to `e_i` leaves
`e_j` as it was -/
theorem copy_independent (H : Bytes → Bytes) (s : CState) (i j : Nat) (hij : i ≠ j) (op : Op) (hr : op.recvE = some i) :
    (cstep H (cstep H s (.set i j)).1 op).1.el[j]? = s.el[j]? := by
  rw [(step_frame H _ op).1 j (by rw [hr]; exact fun h => hij (Option.some.inj h))]
  exact (step_frame H s (.set i j)).1 j (fun h => hij (Option.some.inj h))

/-- the scalar steps of the concrete machine are the regenerated methods of `scalar.go` -/
theorem scalar_steps_tied (s : L4) (t : Option L4) (i : Nat) :
    GenScalarAPI.add s t = Hand.Scalar.add s t ∧ GenScalarAPI.subtract s t = Hand.Scalar.subtract s t ∧
    GenScalarAPI.multiply s t = Hand.Scalar.multiply s t ∧ GenScalarAPI.square s = Hand.Scalar.square s ∧
    GenScalarAPI.set s t = Hand.Scalar.set s t ∧ GenScalarAPI.setUInt64 i = Hand.Scalar.setUInt64 i ∧
    GenScalarAPI.isOne s = Hand.Scalar.isOne s :=
  ⟨ScalarApiTies.add_tie s t, ScalarApiTies.subtract_tie s t, ScalarApiTies.multiply_tie s t, rfl, ScalarApiTies.set_tie s t, rfl, rfl⟩

/-- the element steps of the concrete machine are the regenerated methods of `element.go`; `Set`/`Copy` are value copies -/
theorem element_steps_tied {α : Type} (F : FieldOps α) (e : Pt α) (v : Option (Pt α)) (w : Pt α) :
    GenElementAPI.add_e_v F e v = Hand.Element.add F e v ∧ GenElementAPI.add_ev F e = Hand.Element.addSelf F e ∧
    GenElementAPI.double F e = Hand.Element.double F e ∧ GenElementAPI.negate F e = Hand.Element.negate F e ∧
    GenElementAPI.subtract_e_v F e v = Hand.Element.subtract F e v ∧ GenElementAPI.identity F = Hand.Element.identity F ∧
    GenElementAPI.set F w = w ∧ GenElementAPI.copy F w = w ∧ GenElementAPI.equal_e_v F e w = Hand.Element.equal F e w ∧
    GenElementAPI.isIdentity F e = Hand.Element.isIdentity F e :=
  ⟨ElementApiTies.add_tie F e v, rfl, rfl, rfl, ElementApiTies.subtract_tie F e v, rfl, rfl, rfl, rfl, rfl⟩

/-- the scalar-multiplication step of the concrete machine is the `Multiply` regenerated from `element.go` (nil test, `IsOne`
shortcut, bit expansion, 256 ladder iterations), which never panics; the scalar decoding step is the regenerated `Decode`
of `scalar.go` -/
theorem multiply_step_tied {α : Type} (F : FieldOps α) (e : Pt α) (k : Option L4) (s : L4) (b : Bytes) :
    GenElementMul.element_multiply F e k = some (Hand.Element.multiply F e k) ∧
    GenScalarCodec.scalar_decode s b = some (ScalarCodecTies.shape (Hand.Scalar.decode s b)) :=
  ⟨ElementMulTies.multiply_tie F e k, ScalarCodecTies.decode_tie s b⟩

/-- the decoding step of the concrete machine is the regenerated `Decode` of `element.go` -/
theorem decode_step_tied (e : Pt L4) (data : Bytes) :
    GenDecode.decode DecodeTies.limbBytes Hand.limbOps e data = DecodeTies.shape (Hand.ElementL.decode e data) :=
  DecodeTies.decode_tie e data

/-- non-vacuity: the initial state satisfies the invariant and abstracts to the initial abstract state; all operations
used by the generators are well-formed -/
example : HInv initC ∧ absS initC = initA := ⟨initC_inv, initC_abs⟩
example : WfOp (.add 0 (some 0)) ∧ WfOp (.ssetu 1 5) ∧ WfOp (.dec 2 [0]) :=
  ⟨trivial, (by decide : (5 : Nat) < W), fun x hx => by simp at hx; omega⟩

end C10
