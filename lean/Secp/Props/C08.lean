import Secp.Proofs.GroupTies
import Secp.Proofs.BytesTiesPH
import Secp.Proofs.HashToGroup
/-!
# C08 — HashToGroup / EncodeToGroup conform to RFC 9380 for every message and DST

Model of the code: `Hand.Group.{hashToGroup,encodeToGroup}` = the expander model (`expandXMD`: b_0, b_1, xor chaining,
DST′, oversize-DST rule, zero-length DST → panic = `none`), the 48-byte wide reduction to a field element, then
`hashToGroupCore` / `encodeToGroupCore`: the *generated* `SSWU` and isogeny and — after the repair of defect F7
(commit 71c669f) — the generated complete addition of the two mapped points. Specification: `Spec.Rfc9380`
(`hash_to_curve`, `encode_to_curve` for the suites secp256k1_XMD:SHA-256_SSWU_RO_/NU_), independent of the code's
structure; the sum in `hash_to_curve` is the textbook affine addition on secp256k1, shown to be Mathlib's group law.
`H` is any hash function with 32-byte output (SHA-256 in the real program; see the trusted base).
`affPtG limbLawful R` is the abstract affine point of the result, so equality of it with the specification point is
equality of the canonical encodings (C04).
-/
namespace C08
open Spec Spec.Rfc9380

/-- **HashToGroup = hash_to_curve** for every message and every non-empty DST of any length; the result is a valid
group element and (being a function of `(msg, dst)`) deterministic -/
theorem hashToGroup_conforms (H : Bytes → Bytes) (hH : HashOK H) (msg dst : Bytes) (hd : dst ≠ []) :
    ∃ R, Hand.Group.hashToGroup H msg dst = some R ∧ PtValid limbLawful R ∧
      affPtG limbLawful R = hashToCurve H msg dst := hashToGroup_spec H hH msg dst hd

/-- **EncodeToGroup = encode_to_curve** -/
theorem encodeToGroup_conforms (H : Bytes → Bytes) (hH : HashOK H) (msg dst : Bytes) (hd : dst ≠ []) :
    ∃ R, Hand.Group.encodeToGroup H msg dst = some R ∧ PtValid limbLawful R ∧
      affPtG limbLawful R = encodeToCurve H msg dst := encodeToGroup_spec H hH msg dst hd

/-- an empty or nil DST panics instead of hashing -/
theorem empty_dst_panics (H : Bytes → Bytes) (msg : Bytes) :
    Hand.Group.hashToGroup H msg [] = none ∧ Hand.Group.encodeToGroup H msg [] = none := by
  unfold Hand.Group.hashToGroup Hand.Group.encodeToGroup
  rw [expandXMD_empty, expandXMD_empty]
  exact ⟨rfl, rfl⟩

/-- the expander is `expand_message_xmd`, including DSTs longer than 255 bytes (oversize rule) -/
theorem expander_is_rfc (H : Bytes → Bytes) (msg dst : Bytes) (len : Nat) (hd : dst ≠ []) (hl : (len + 31) / 32 ≤ 255) :
    Hand.Group.expandXMD H msg dst len = some (expandMessageXmd H msg dst len) := expandXMD_eq H msg dst len hd hl

/-- **the expander regenerated from `xmd.go` on this run** (`GenXmd.expandXMD`: `checkDST`, `vetDSTXMD`, `i2osp2`, `hashAll`,
the `xorSlices` index loop, the `for i := 2; i <= ell; i++` loop, the final re-slice, with every bounds check and the
zero-length-DST panic as `none`) is `expand_message_xmd`: it does not panic and returns the RFC's bytes -/
theorem expander_regenerated (H : Bytes → Bytes) (hH : HashOK H) (msg dst : Bytes) (len : Nat) (hd : dst ≠ [])
    (hl : (len + 31) / 32 ≤ 255) :
    GenXmd.expandXMD H msg dst len = some (expandMessageXmd H msg dst len) := by
  rw [XmdTies.expandXMD_eq H hH.len msg dst len (by omega)]
  exact expandXMD_eq H msg dst len hd hl

/-- the regenerated expander panics (`none`) on an empty or nil DST -/
theorem expander_regenerated_empty (H : Bytes → Bytes) (hH : HashOK H) (msg : Bytes) (len : Nat) (hl : len < 2^53) :
    GenXmd.expandXMD H msg [] len = none := by
  rw [XmdTies.expandXMD_eq H hH.len msg [] len hl]
  exact expandXMD_empty H msg len

/-- **C08 for the `HashToGroup` / `EncodeToGroup` regenerated from `group.go` on this run** (`GenGroup`: expander call, the
re-slicing `uniform[:48]`, `uniform[48:96]` and slice-to-array conversions with their bounds checks, the regenerated `SSWU`,
isogeny and complete addition; the wide reduction as modelled in `Hand.Fp`) -/
theorem hashToGroup_regenerated (H : Bytes → Bytes) (hH : HashOK H) (msg dst : Bytes) (hd : dst ≠ []) :
    ∃ R, GenGroup.hashToGroup Hand.limbOps GroupTies.handHashOps H msg dst = some R ∧ PtValid limbLawful R ∧
      affPtG limbLawful R = hashToCurve H msg dst := by
  rw [GroupTies.hashToGroup_tie H hH]
  exact hashToGroup_spec H hH msg dst hd

theorem encodeToGroup_regenerated (H : Bytes → Bytes) (hH : HashOK H) (msg dst : Bytes) (hd : dst ≠ []) :
    ∃ R, GenGroup.encodeToGroup Hand.limbOps GroupTies.handHashOps H msg dst = some R ∧ PtValid limbLawful R ∧
      affPtG limbLawful R = encodeToCurve H msg dst := by
  rw [GroupTies.encodeToGroup_tie H hH]
  exact encodeToGroup_spec H hH msg dst hd

/-- the regenerated functions panic on an empty or nil DST -/
theorem regenerated_empty_dst_panics (H : Bytes → Bytes) (hH : HashOK H) (msg : Bytes) :
    GenGroup.hashToGroup Hand.limbOps GroupTies.handHashOps H msg [] = none ∧
    GenGroup.encodeToGroup Hand.limbOps GroupTies.handHashOps H msg [] = none := by
  rw [GroupTies.hashToGroup_tie H hH, GroupTies.encodeToGroup_tie H hH]
  exact empty_dst_panics H msg

/-- the 48-byte wide reduction is `OS2IP mod p` -/
theorem wide_reduction (input : Bytes) (hb : IsBytes input) (hl : input.length = 48) :
    limbOk (Hand.Fp.hashToFieldElement input) ∧ limbVal (Hand.Fp.hashToFieldElement input) = ((os2ip input : Nat) : ZMod P) :=
  fp_hashToField input hb hl

/-- the wide reduction regenerated from `internal/field` on this run does not panic on 48-byte inputs and is the model's -/
theorem wide_reduction_regenerated (e : L4) (input : Bytes) (hl : input.length = 48) :
    GenFieldBytes.element_hashToFieldElement e input = some (Hand.Fp.hashToFieldElement input) :=
  BytesTies.fp_hashToFieldElement e input hl

/-- the affine sum used by the specification is the group law (so `hash_to_curve` adds in the group) -/
theorem spec_sum_is_group_law (a b : APoint) (ha : SpecPt a) (hb : SpecPt b) :
    SpecPt (padd a b) ∧ iota (padd a b) = iota a + iota b := padd_spec a b ha hb

example : HashOK (fun _ => List.replicate 32 7) := ⟨fun _ => by simp, fun _ x hx => by
  rw [List.mem_replicate] at hx; omega⟩

end C08
