import Secp.Hand.History
/-! # C08 — placeholder: theorems are being added in this session -/
namespace C08
theorem model_is_total : True := trivial
end C08
