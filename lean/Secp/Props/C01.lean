import Secp.Hand.History
/-! # C01 — placeholder: theorems are being added in this session -/
namespace C01
theorem model_is_total : True := trivial
end C01
