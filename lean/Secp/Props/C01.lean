import Secp.Proofs.Ladder
import Secp.Proofs.LadderTies
import Secp.Proofs.LimbGroup
import Secp.Proofs.ScalarApiTiesTests
import Secp.Proofs.BitsSpec
import Secp.Proofs.ElementMulTies
/-!
# C01 — scalar multiplication equals k-fold addition for every scalar and point

Model of the code: `Hand.Element.multiply` — nil scalar → identity; `IsOne` shortcut; the 256-iteration ladder over
`Scalar.Bits`, each iteration one generated complete addition and one generated complete doubling in the aliasing
pattern "receiver = first operand". Specification: `k • P` in Mathlib's group.

`C01_ladder` is the statement for **every** bit string (so every scalar, bit 255 set or not, `k = 0`, `k = n-1`,
`P` = identity in any representation): the ladder invariant `r0 = [prefix]P`, `r1 = r0 + P` by induction over the bits.
`C01` composes it with the two scalar-level facts `Multiply` consumes. `bits_denote` (that `Bits` is the binary
expansion of the canonical value) is C14; on the pinned tree it was false at bit 255 — defect F1, repaired by
commit 660d03b — and the regenerated `Facts.bitsLoopBound` below is what ties this file to the loop bound in the source.
-/
namespace C01
open Hand.Element

abbrev F := Hand.limbOps
abbrev Valid (P : Pt L4) : Prop := PtValid limbLawful P
noncomputable abbrev G (P : Pt L4) := toGp limbLawful curveOK_Fp P

/-- the ladder computes `[evalBits bits]P` for every valid `P` and every bit list -/
theorem C01_ladder (P : Pt L4) (hP : Valid P) (bits : List Nat) :
    Valid (ladder F P bits) ∧ G (ladder F P bits) = (evalBits bits) • G P :=
  ladder_correct limbLawful curveOK_Fp limb_curveConsts P hP bits

/-- **C01**: `Multiply` by a non-nil scalar `s` denoting `k` (i.e. `IsOne` answers true only for `k = 1`, and `Bits`
is the binary expansion of `k` — both are statements about the scalar layer, C13/C14) yields exactly `[k]P`,
a valid element. -/
theorem C01 (P : Pt L4) (hP : Valid P) (s : L4) (k : Nat)
    (hone : Hand.Scalar.isOne s = true → k = 1) (hbits : evalBits (Hand.Scalar.bits s) = k) :
    Valid (multiply F P (some s)) ∧ G (multiply F P (some s)) = k • G P := by
  rw [multiply_some]
  exact multiplyCore_correct limbLawful curveOK_Fp limb_curveConsts P hP _ _ k hone hbits

/-- **C01, full statement**: for every valid element `P` in any representation and every canonical scalar `s`,
`Multiply` sets `P` to `[k]P` where `k = (sVal s).val ∈ [0, n)` is the canonical value of `s` — including `k = 0`,
`k = 1`, `k = n-1` and every `k` with bit 255 set — and the result is a valid element. -/
theorem C01_full (P : Pt L4) (hP : Valid P) (s : L4) (hs : sOk s) :
    Valid (multiply F P (some s)) ∧ G (multiply F P (some s)) = (sVal s).val • G P := by
  apply C01 P hP s (sVal s).val
  · intro h
    have := (sc_isOne_iff s hs).mp h
    rw [this]
    exact ZMod.val_one Spec.N
  · exact (bits_spec s hs).2.2

/-- **C01 for the `Multiply` regenerated from `element.go` on this run** (`GenElementMul.element_multiply`: the nil test, the
`IsOne` shortcut, `newElement()`, `e.copy()`, `s.Bits()`, the loop `for i := 255; i >= 0; i--` with the index read `bits[i]`
and both branches over the regenerated `Add`/`Double`, `e.set(r0)` — every step that could panic is an `Option` step): it
never panics, a nil scalar gives the identity, and a canonical scalar `s` gives `[k]P` with `k` the canonical value of `s` -/
theorem multiply_regenerated (P : Pt L4) (hP : Valid P) (s : L4) (hs : sOk s) :
    ∃ R, GenElementMul.element_multiply F P (some s) = some R ∧ Valid R ∧ G R = (sVal s).val • G P :=
  ⟨multiply F P (some s), ElementMulTies.multiply_tie F P (some s), C01_full P hP s hs⟩

theorem multiply_regenerated_nil (P : Pt L4) :
    ∃ R, GenElementMul.element_multiply F P none = some R ∧ G R = 0 :=
  ⟨multiply F P none, ElementMulTies.multiply_tie F P none, by rw [multiply_nil]; exact toGp_identity limbLawful curveOK_Fp⟩

/-- the regenerated `Multiply` equals the model for every representation type and every (possibly nil) scalar -/
theorem multiply_tied {α : Type} (F : FieldOps α) (e : Pt α) (k : Option L4) :
    GenElementMul.element_multiply F e k = some (multiply F e k) := ElementMulTies.multiply_tie F e k

/-- a nil scalar yields the identity -/
theorem C01_nil (P : Pt L4) : G (multiply F P none) = 0 := by
  rw [multiply_nil]; exact toGp_identity limbLawful curveOK_Fp

/-- the loop in `Scalar.Bits` covers all 256 positions (read from the source by `go2lean` on every run; the body of the loop is
regenerated statement by statement, see `C14.bits_regenerated`) -/
theorem bits_loop_covers_all_positions :
    Facts.bitsLoopBound = 256 := by decide

example : Valid Hand.ElementL.base := base_valid
example : Valid (identity F) := identity_valid limbLawful

/-- the `IsOne` test the shortcut of `multiply` uses is the regenerated method of `scalar.go` -/
theorem isOne_tied (s : L4) : GenScalarAPI.isOne s = Hand.Scalar.isOne s := ScalarApiTies.isOne_tie s

/-- the loop of `multiply`, regenerated on every run (header, branch condition, the two branches with `Add`/`Double` inlined on
shared cells), is the ladder step the invariant is proved about -/
theorem ladder_tied {α : Type} (F : FieldOps α) (st : Pt α × Pt α) (bit : Nat) :
    Hand.Element.ladderStep F st bit = (if bit = 0 then GenLadder.branchThen F st.1 st.2 else GenLadder.branchElse F st.1 st.2) ∧
    GenLadder.loopHeader = "i := 255; i >= 0; i--" :=
  ⟨LadderTies.ladderStep_tie F st bit, LadderTies.loop_shape⟩

end C01
