import Secp.Gen.Facts
/-!
# C16 — concurrent use with shared read-only arguments is race-free and deterministic

Footprint model. A call is a sequence of memory accesses on abstract locations; a concurrent execution is any
interleaving of the per-thread sequences. `noninterference` (generic, by induction on the schedule): if every
thread's write set is disjoint from every other thread's read and write sets, then no interleaving contains two
conflicting accesses from different threads (data-race freedom in the sense of the Go memory model), and every
read of a thread sees the same value as in its solo run.

What ties the footprints to the code: (i) `Facts.globalWrites = []` and `Facts.globalAddrArgs ⊆ read-only
parameters`, extracted from the source on every run; (ii) `Facts.untouched` from the cell analysis (arguments
never rebound); (iii) the C15 frame theorems for byte slices; (iv) at run time, the harness built with `-race`
(8 goroutines × every API function × shared arguments). The Go scheduler and memory model are modelled, not
verified (DESIGN §8): level `other`.
-/
namespace C16

abbrev Loc := Nat
structure Access where
  thread : Nat
  loc : Loc
  write : Bool
deriving DecidableEq, Repr

/-- two accesses conflict when they come from different threads, touch the same location and one writes -/
def conflict (a b : Access) : Prop := a.thread ≠ b.thread ∧ a.loc = b.loc ∧ (a.write = true ∨ b.write = true)

/-- the footprint discipline: a location written by one thread is not accessed by any other -/
def Disciplined (sched : List Access) : Prop :=
  ∀ a ∈ sched, ∀ b ∈ sched, a.write = true → a.loc = b.loc → a.thread = b.thread

/-- **race freedom**: under the discipline no schedule (= no interleaving) contains a conflicting pair -/
theorem noninterference (sched : List Access) (h : Disciplined sched) :
    ∀ a ∈ sched, ∀ b ∈ sched, ¬ conflict a b := by
  intro a ha b hb ⟨hne, hloc, hw⟩
  rcases hw with hw | hw
  · exact hne (h a ha b hb hw hloc)
  · exact hne (h b hb a ha hw hloc.symm).symm

/-- memory as a function; executing a schedule applies the writes in order -/
def run (mem : Loc → Nat) : List (Access × Nat) → Loc → Nat
  | [] => mem
  | (a, v) :: rest => run (if a.write then fun l => if l = a.loc then v else mem l else mem) rest

/-- the value at `l` after a schedule only depends on the initial value at `l` -/
theorem run_congr (s : List (Access × Nat)) (m1 m2 : Loc → Nat) (l : Loc) (e : m1 l = m2 l) :
    run m1 s l = run m2 s l := by
  induction s generalizing m1 m2 with
  | nil => exact e
  | cons q qs ih =>
    simp only [run]
    apply ih
    by_cases hq : q.1.write = true
    · simp only [hq, if_true]; split <;> simp_all
    · simp only [hq]; exact e

/-- **determinism**: a location no *other* thread writes holds, after any interleaved schedule, what it would
hold after the thread's own accesses alone (its solo run). Proved by induction over the schedule. -/
theorem solo_equiv (t : Nat) (sched : List (Access × Nat)) (mem : Loc → Nat) (l : Loc)
    (h : ∀ p ∈ sched, p.1.write = true → p.1.loc = l → p.1.thread = t) :
    run mem sched l = run mem (sched.filter (fun p => p.1.thread = t)) l := by
  induction sched generalizing mem with
  | nil => rfl
  | cons p rest ih =>
    have hrest : ∀ q ∈ rest, q.1.write = true → q.1.loc = l → q.1.thread = t :=
      fun q hq => h q (List.mem_cons_of_mem _ hq)
    by_cases ht : p.1.thread = t
    · have hf : (p :: rest).filter (fun p => p.1.thread = t) = p :: rest.filter (fun p => p.1.thread = t) := by
        simp [List.filter_cons, ht]
      rw [hf]
      simp only [run]
      exact ih _ hrest
    · have hf : (p :: rest).filter (fun p => p.1.thread = t) = rest.filter (fun p => p.1.thread = t) := by
        simp [List.filter_cons, ht]
      rw [hf]
      simp only [run]
      rw [ih _ hrest]
      apply run_congr
      by_cases hw : p.1.write = true
      · have hl : p.1.loc ≠ l := fun e => ht (h p (List.mem_cons_self) hw e)
        simp only [hw, if_true]
        split
        · next e => exact absurd e.symm hl
        · rfl
      · simp only [hw]; rfl

/-- read-only parameter positions through which the address of a package variable is passed -/
def readOnlyParams : List String := ["CMove#2 .identity", "CMove#1 .identity", "set#0 .identity", "Equals#0 .identity"]

/-- **no mutable global state**: no statement of the three packages assigns to a package-level variable, and its
address only ever reaches parameters the cell analysis shows untouched -/
theorem no_global_writes : Facts.globalWrites = [] ∧ ∀ a ∈ Facts.globalAddrArgs, a ∈ readOnlyParams := by decide

/-- no API function (nor any callee) has a statement that can write through a caller-supplied byte slice
(static write analysis of `go2lean`, re-derived on every run; see C15) -/
theorem no_slice_writes : Facts.sliceParamWrites = [] := by decide

/-- arguments of the group-law formulas are never rebound (cell analysis, regenerated) -/
theorem arguments_untouched :
    ("Curve.addProjectiveComplete_eu_v", ["v"]) ∈ Facts.untouched ∧
    ("Curve.isEqual", ["e", "u"]) ∈ Facts.untouched ∧
    ("Curve.affine", ["e"]) ∈ Facts.untouched := by decide

-- non-vacuity: two threads with their own receivers (locs 1, 2) sharing a read-only argument (loc 0)
example : Disciplined [⟨1, 0, false⟩, ⟨2, 0, false⟩, ⟨1, 1, true⟩, ⟨2, 2, true⟩, ⟨2, 0, false⟩] := by
  intro a ha b hb hw hl
  simp only [List.mem_cons, List.mem_nil_iff, or_false] at ha hb
  rcases ha with rfl | rfl | rfl | rfl | rfl <;> rcases hb with rfl | rfl | rfl | rfl | rfl <;> simp_all

end C16
