import Secp.Gen.Facts
import Secp.Gen.GroupAPI
/-!
# C16 — concurrent use with shared read-only arguments is race-free and deterministic

Footprint model. A call is a sequence of memory accesses on abstract locations; a concurrent execution is any
interleaving of the per-thread sequences. `noninterference` (generic, by induction on the schedule): if every
thread's write set is disjoint from every other thread's read and write sets, then no interleaving contains two
conflicting accesses from different threads (data-race freedom in the sense of the Go memory model), and every
read of a thread sees the same value as in its solo run.

What ties the footprints to the code: (i) `Facts.apiFootprints`, re-derived from the source on every run by a
may-write analysis over all three packages (taint of every name that may point into a parameter's memory; stores,
`copy`, `append`, known library writers, pointer-receiver calls, interprocedural summaries, unknown externals
pessimistic): for every exported function, which parameters it may write through — theorem `api_writes_only_output`
says: only the receiver; (ii) `Facts.globalWrites = []` and `Facts.globalAddrArgs ⊆ read-only parameters`;
(iii) `Facts.sliceParamWrites = []` and the C15 frame theorems for byte slices; (iv) at run time, the harness built
with `-race` (8 goroutines × every API function × shared arguments). `api_schedule_disciplined` then instantiates the
generic theorems for any set of concurrent API calls whose receivers are owned by their goroutine. The Go scheduler
and memory model are modelled by the interleaving semantics, not verified (DESIGN §8).
-/
namespace C16

abbrev Loc := Nat
structure Access where
  thread : Nat
  loc : Loc
  write : Bool
deriving DecidableEq, Repr

/-- two accesses conflict when they come from different threads, touch the same location and one writes -/
def conflict (a b : Access) : Prop := a.thread ≠ b.thread ∧ a.loc = b.loc ∧ (a.write = true ∨ b.write = true)

/-- the footprint discipline: a location written by one thread is not accessed by any other -/
def Disciplined (sched : List Access) : Prop :=
  ∀ a ∈ sched, ∀ b ∈ sched, a.write = true → a.loc = b.loc → a.thread = b.thread

/-- **race freedom**: under the discipline no schedule (= no interleaving) contains a conflicting pair -/
theorem noninterference (sched : List Access) (h : Disciplined sched) :
    ∀ a ∈ sched, ∀ b ∈ sched, ¬ conflict a b := by
  intro a ha b hb ⟨hne, hloc, hw⟩
  rcases hw with hw | hw
  · exact hne (h a ha b hb hw hloc)
  · exact hne (h b hb a ha hw hloc.symm).symm

/-- memory as a function; executing a schedule applies the writes in order -/
def run (mem : Loc → Nat) : List (Access × Nat) → Loc → Nat
  | [] => mem
  | (a, v) :: rest => run (if a.write then fun l => if l = a.loc then v else mem l else mem) rest

/-- the value at `l` after a schedule only depends on the initial value at `l` -/
theorem run_congr (s : List (Access × Nat)) (m1 m2 : Loc → Nat) (l : Loc) (e : m1 l = m2 l) :
    run m1 s l = run m2 s l := by
  induction s generalizing m1 m2 with
  | nil => exact e
  | cons q qs ih =>
    simp only [run]
    apply ih
    by_cases hq : q.1.write = true
    · simp only [hq, if_true]; split <;> simp_all
    · simp only [hq]; exact e

/-- **determinism**: a location no *other* thread writes holds, after any interleaved schedule, what it would
hold after the thread's own accesses alone (its solo run). Proved by induction over the schedule. -/
theorem solo_equiv (t : Nat) (sched : List (Access × Nat)) (mem : Loc → Nat) (l : Loc)
    (h : ∀ p ∈ sched, p.1.write = true → p.1.loc = l → p.1.thread = t) :
    run mem sched l = run mem (sched.filter (fun p => p.1.thread = t)) l := by
  induction sched generalizing mem with
  | nil => rfl
  | cons p rest ih =>
    have hrest : ∀ q ∈ rest, q.1.write = true → q.1.loc = l → q.1.thread = t :=
      fun q hq => h q (List.mem_cons_of_mem _ hq)
    by_cases ht : p.1.thread = t
    · have hf : (p :: rest).filter (fun p => p.1.thread = t) = p :: rest.filter (fun p => p.1.thread = t) := by
        simp [List.filter_cons, ht]
      rw [hf]
      simp only [run]
      exact ih _ hrest
    · have hf : (p :: rest).filter (fun p => p.1.thread = t) = rest.filter (fun p => p.1.thread = t) := by
        simp [List.filter_cons, ht]
      rw [hf]
      simp only [run]
      rw [ih _ hrest]
      apply run_congr
      by_cases hw : p.1.write = true
      · have hl : p.1.loc ≠ l := fun e => ht (h p (List.mem_cons_self) hw e)
        simp only [hw, if_true]
        split
        · next e => exact absurd e.symm hl
        · rfl
      · simp only [hw]; rfl

/-- **no mutable global state**: no statement of the three packages assigns to a package-level variable, and wherever the
address of (part of) one is passed to a function, the may-write analysis of the callee shows that parameter is only read -/
theorem no_global_writes : Facts.globalWrites = [] ∧ Facts.globalAddrArgsWritten = [] := by decide

/-- (the places where such an address is passed at all; informative) -/
theorem global_addresses_passed : Facts.globalAddrArgs.length ≤ 8 := by decide

/-- no API function (nor any callee) has a statement that can write through a caller-supplied byte slice
(static write analysis of `go2lean`, re-derived on every run; see C15) -/
theorem no_slice_writes : Facts.sliceParamWrites = [] := by decide

/-- the same conclusion reached independently by the byte-slice mode of the translator while it regenerated the hashing code
(alias classes, DESIGN §3.2): the three hashing functions and everything of `xmd.go` they call neither overwrite nor append
into any slice parameter, and every function was translated (so the claim is not empty) — the message and DST two goroutines
share are only read -/
theorem hashing_arguments_read_only :
    GenXmd.notTranslated = [] ∧ GenGroup.notTranslated = [] ∧
    GenXmd.callerMemoryAppends = [] ∧ GenGroup.callerMemoryAppends = [] ∧ GenGroup.callerMemoryWrites = [] ∧
    (∀ p ∈ GenXmd.callerMemoryWrites, p.1 = "xorSlices") := by decide

/-- arguments of the group-law formulas are never rebound (cell analysis, regenerated) -/
theorem arguments_untouched :
    ("Curve.addProjectiveComplete_eu_v", ["v"]) ∈ Facts.untouched ∧
    ("Curve.isEqual", ["e", "u"]) ∈ Facts.untouched ∧
    ("Curve.affine", ["e"]) ∈ Facts.untouched := by decide

/-! ## The API's footprint table (regenerated from the source on every run) and what it implies -/

/-- an entry of `Facts.apiFootprints`: name, is-a-method, and for every parameter through which caller memory is reachable
`(position, name, may be written)` -/
abbrev Entry := String × Bool × List (Nat × String × Bool)

/-- the designated output of an API function: the receiver of a method; the first parameter of the two exported helpers
that follow the field package's `f(out, in)` convention -/
def outputPos (e : Entry) : Option Nat :=
  if e.2.1 then some 0
  else if e.1 = "secp.Secp256Polynomial" ∨ e.1 = "secp.IsogenySecp256k13iso" then some 0 else none

/-- **arguments are only read**: in the footprint table extracted from the current source, the only parameter through which
any API function may write caller memory is its designated output (its receiver) — never an argument, never a slice -/
theorem api_writes_only_output :
    ∀ e ∈ Facts.apiFootprints, ∀ p ∈ e.2.2, p.2.2 = true → outputPos e = some p.1 := by decide

/-- the table is not trivially empty: it covers the arithmetic, the decoders and the hashing functions -/
theorem api_table_covers :
    50 ≤ Facts.apiFootprints.length ∧
    (∀ f ∈ ["(*secp.Element).Add", "(*secp.Element).Subtract", "(*secp.Element).Multiply", "(*secp.Element).Equal",
            "(*secp.Element).Decode", "(*secp.Scalar).Multiply", "(*secp.Scalar).CSelect", "(*secp.Scalar).Decode",
            "secp.HashToGroup", "secp.EncodeToGroup", "secp.HashToScalar"], f ∈ Facts.apiFootprints.map (·.1)) := by decide

/-- a concurrent API call: the thread issuing it, its table entry, and the shared-memory location bound to each parameter
position (memory allocated by the call itself is private to the thread and not part of the shared location space) -/
structure Call where
  thread : Nat
  entry : Entry
  loc : Nat → Loc

/-- the shared-memory accesses a call may perform, according to its table entry: every reachable parameter may be read,
a parameter marked written may be written -/
def Call.accesses (c : Call) : List Access :=
  c.entry.2.2.flatMap fun p => ⟨c.thread, c.loc p.1, false⟩ :: (if p.2.2 then [⟨c.thread, c.loc p.1, true⟩] else [])

/-- "receivers they own": the output location of a call is not bound to any parameter of a call of another goroutine -/
def Owned (calls : List Call) : Prop :=
  ∀ c ∈ calls, ∀ c' ∈ calls, c.thread ≠ c'.thread →
    ∀ o, outputPos c.entry = some o → ∀ p' ∈ c'.entry.2.2, c.loc o ≠ c'.loc p'.1

/-- **C16 on the footprint model**: any number of goroutines, any API functions, any sharing of arguments, any
interleaving: if every goroutine owns its receivers, the schedule satisfies the footprint discipline -/
theorem api_schedule_disciplined (calls : List Call) (hapi : ∀ c ∈ calls, c.entry ∈ Facts.apiFootprints)
    (hown : Owned calls) (sched : List Access) (hs : ∀ a ∈ sched, ∃ c ∈ calls, a ∈ c.accesses) :
    Disciplined sched := by
  intro a ha b hb hw hl
  obtain ⟨c, hc, hac⟩ := hs a ha
  obtain ⟨c', hc', hbc⟩ := hs b hb
  unfold Call.accesses at hac hbc
  rw [List.mem_flatMap] at hac hbc
  obtain ⟨p, hp, hap⟩ := hac
  obtain ⟨p', hp', hbp⟩ := hbc
  -- `a` is a write: it is the write access of a parameter marked written
  have ha' : p.2.2 = true ∧ a = ⟨c.thread, c.loc p.1, true⟩ := by
    rw [List.mem_cons] at hap
    rcases hap with e | e
    · rw [e] at hw; exact absurd hw (by simp)
    · by_cases hpw : p.2.2 = true
      · rw [if_pos hpw, List.mem_singleton] at e; exact ⟨hpw, e⟩
      · rw [if_neg hpw] at e; exact absurd e (by simp)
  have hb' : b.thread = c'.thread ∧ b.loc = c'.loc p'.1 := by
    rw [List.mem_cons] at hbp
    rcases hbp with e | e
    · rw [e]; exact ⟨rfl, rfl⟩
    · by_cases hpw : p'.2.2 = true
      · rw [if_pos hpw, List.mem_singleton] at e; rw [e]; exact ⟨rfl, rfl⟩
      · rw [if_neg hpw] at e; exact absurd e (by simp)
  have hout := api_writes_only_output c.entry (hapi c hc) p hp ha'.1
  by_cases hne : a.thread = b.thread
  · exact hne
  · exfalso
    have hthr : c.thread ≠ c'.thread := by
      intro e; apply hne; rw [ha'.2, hb'.1]; exact e
    apply hown c hc c' hc' hthr p.1 hout p' hp'
    rw [← hb'.2, ← hl, ha'.2]

/-- hence: no data race in any interleaving … -/
theorem api_race_free (calls : List Call) (hapi : ∀ c ∈ calls, c.entry ∈ Facts.apiFootprints)
    (hown : Owned calls) (sched : List Access) (hs : ∀ a ∈ sched, ∃ c ∈ calls, a ∈ c.accesses) :
    ∀ a ∈ sched, ∀ b ∈ sched, ¬ conflict a b :=
  noninterference sched (api_schedule_disciplined calls hapi hown sched hs)

/-- … and every location a goroutine writes (its receivers) ends, after any interleaving with any values written, as in
that goroutine's solo run: every call returns what it would return if run alone -/
theorem api_deterministic (calls : List Call) (hapi : ∀ c ∈ calls, c.entry ∈ Facts.apiFootprints)
    (hown : Owned calls) (sched : List (Access × Nat)) (hs : ∀ a ∈ sched, ∃ c ∈ calls, a.1 ∈ c.accesses)
    (mem : Loc → Nat) (t : Nat) (l : Loc) (hl : ∃ p ∈ sched, p.1.thread = t ∧ p.1.write = true ∧ p.1.loc = l) :
    run mem sched l = run mem (sched.filter (fun p => p.1.thread = t)) l := by
  apply solo_equiv
  intro q hq hqw hql
  obtain ⟨p, hp, hpt, hpw, hpl⟩ := hl
  have hd := api_schedule_disciplined calls hapi hown (sched.map (·.1))
    (fun a ha => by
      rw [List.mem_map] at ha
      obtain ⟨x, hx, rfl⟩ := ha
      exact hs x hx)
  have := hd q.1 (List.mem_map_of_mem hq) p.1 (List.mem_map_of_mem hp) hqw (by rw [hql, hpl])
  rw [this, hpt]

-- non-vacuity: two goroutines subtract the same shared element from their own receivers
example : Owned [⟨1, ("(*secp.Element).Subtract", true, [(0, "e", true), (1, "element", false)]), fun i => if i = 0 then 10 else 99⟩,
                 ⟨2, ("(*secp.Element).Subtract", true, [(0, "e", true), (1, "element", false)]), fun i => if i = 0 then 20 else 99⟩] := by
  intro c hc c' hc' hne o ho p' hp'
  simp only [List.mem_cons, List.mem_nil_iff, or_false] at hc hc'
  have ho' : o = 0 := by
    rcases hc with rfl | rfl <;> simp [outputPos] at ho <;> exact ho.symm
  subst ho'
  rcases hc with rfl | rfl <;> rcases hc' with rfl | rfl
  · exact absurd rfl hne
  · simp only [List.mem_cons, List.mem_nil_iff, or_false] at hp'
    rcases hp' with rfl | rfl <;> simp
  · simp only [List.mem_cons, List.mem_nil_iff, or_false] at hp'
    rcases hp' with rfl | rfl <;> simp
  · exact absurd rfl hne


-- non-vacuity: two threads with their own receivers (locs 1, 2) sharing a read-only argument (loc 0)
example : Disciplined [⟨1, 0, false⟩, ⟨2, 0, false⟩, ⟨1, 1, true⟩, ⟨2, 2, true⟩, ⟨2, 0, false⟩] := by
  intro a ha b hb hw hl
  simp only [List.mem_cons, List.mem_nil_iff, or_false] at ha hb
  rcases ha with rfl | rfl | rfl | rfl | rfl <;> rcases hb with rfl | rfl | rfl | rfl | rfl <;> simp_all

end C16
