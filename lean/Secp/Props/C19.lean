import Secp.Gen.TraceFacts
import Secp.Hand.Scalar
/-!
# C19 — scalar multiplication follows a scalar-independent schedule of field operations

`TraceFacts` is regenerated from the source on every run: the static schedule extractor of `go2lean` walks
`(*Element).Multiply` and everything it calls, refuses any loop whose iteration schedule depends on data, and
emits the sequence of entries into functions of `internal/field` and `internal/scalar` as one list per
control-flow alternative (early exits first, in source order). The correspondence check (`trace` mode on an
instrumented scratch copy of the tree) compares the *recorded* traces with these lists.

Granularity: function entries of the two internal packages — the granularity of the property statement.
Instruction-level timing is out of reach of this model (see DESIGN §8).
-/
namespace C19

/-- the schedule model of `Multiply`: which alternative runs depends only on `k = nil` and `k = 1` -/
def schedule (k : Option L4) : List String :=
  match k with
  | none => TraceFacts.multiplyAlternatives.getD 0 []
  | some s => if Hand.Scalar.isOne s then TraceFacts.multiplyAlternatives.getD 1 []
              else TraceFacts.multiplyAlternatives.getD 2 []

/-- the extractor found exactly three alternatives: nil scalar (guarded by parameter 0 being nil),
the documented `k = 1` shortcut, and the full ladder -/
theorem alternatives_shape :
    TraceFacts.multiplyAlternatives.length = 3 ∧ TraceFacts.multiplyGuards = [1, 0, 0] := by decide

/-- **C19**: for every point and all scalars other than 1, the schedule is the same list. -/
theorem trace_indep (k k' : L4) (hk : Hand.Scalar.isOne k = false) (hk' : Hand.Scalar.isOne k' = false) :
    schedule (some k) = schedule (some k') := by
  simp [schedule, hk, hk']

/-- the common schedule is the full ladder: a prefix (the `IsOne` test, the two registers, the bit expansion — in whatever
order the source has them), 256 identical iterations (one complete addition and one complete doubling each), a suffix -/
theorem full_schedule_shape :
    TraceFacts.multiplyAlternatives.getD 2 [] = TraceFacts.ladderPrefix ++ TraceFacts.ladderLoops ++ TraceFacts.ladderSuffix ∧
    TraceFacts.ladderLoops =
      (List.replicate 256 (TraceFacts.tr_secp_Element_Add ++ TraceFacts.tr_secp_Element_Double)).flatten := ⟨rfl, rfl⟩

/-- one ladder iteration performs a fixed, non-empty amount of work -/
theorem iteration_work :
    (TraceFacts.tr_secp_Element_Add ++ TraceFacts.tr_secp_Element_Double).length = 308 := by decide +kernel

theorem length_flatten_replicate (n : Nat) (l : List String) : (List.replicate n l).flatten.length = n * l.length := by
  induction n with
  | zero => simp
  | succ k ih => simp [List.replicate_succ, ih, Nat.succ_mul, Nat.add_comm]

/-- total amount of work of the common schedule: 24 entries outside the loop + 256 × 308 -/
theorem full_schedule_length (k : L4) (hk : Hand.Scalar.isOne k = false) : (schedule (some k)).length = 78872 := by
  have e1 : TraceFacts.ladderPrefix.length + TraceFacts.ladderSuffix.length = 24 := by decide +kernel
  have hs : schedule (some k) = TraceFacts.multiplyAlternatives.getD 2 [] := by simp [schedule, hk]
  rw [hs, full_schedule_shape.1, full_schedule_shape.2]
  have hw := iteration_work
  simp only [List.length_append, length_flatten_replicate] at hw e1 ⊢
  omega

-- non-vacuity: the hypotheses are met by concrete scalars (Montgomery limbs of 0 and of n-1)
example : Hand.Scalar.isOne ⟨0, 0, 0, 0⟩ = false ∧ Hand.Scalar.isOne Hand.Scalar.minusOne = false := by decide

end C19
