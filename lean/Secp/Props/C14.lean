import Secp.Proofs.BitsSpec
import Secp.Proofs.ScalarBitsTies
/-!
# C14 — the scalar bit expansion is the exact 256-bit binary representation

Model of the code: `Hand.Scalar.bits s = bitsOf (FiatScalar.fromMontgomery s)` — the generated `FromMontgomery`
followed by the shift-and-mask loop, whose trip count and body text are read from the source on every run
(`Facts.bitsLoopBound`, `Facts.bitsLoopBody`). Canonical value of `s`: `(sVal s).val`, `sVal s = eval·R⁻¹ ∈ ZMod n`.
On the pinned tree the loop bound was 255 (defect F1, commit 660d03b): with that bound `bound_eq` below is false.
-/
namespace C14

/-- **C14**: for every canonical scalar, `Bits` returns 256 entries, entry `i` equal to bit `i` of the canonical
value (hence 0 or 1), and `Σ bits[i]·2^i` is the value. -/
theorem bits_spec (s : L4) (hs : sOk s) :
    (Hand.Scalar.bits s).length = 256 ∧
    (∀ i, i < 256 → (Hand.Scalar.bits s).getD i 2 = (sVal s).val / 2 ^ i % 2) ∧
    evalBits (Hand.Scalar.bits s) = (sVal s).val := _root_.bits_spec s hs

/-- **C14 for the `Bits` regenerated from `scalar.go` on this run** (`GenScalarCodec.scalar_bits`: `FromMontgomery`, then the
`for i := range 256` loop with its body `out[i] = uint8((n[i/64] >> (i % 64)) & 1)` translated statement by statement — the
computed limb index and the store into `out` are checked `Option` steps): it never panics and returns the model's list -/
theorem bits_regenerated (s : L4) (hs : sOk s) :
    ∃ bs, GenScalarCodec.scalar_bits s = some bs ∧ bs.length = 256 ∧
      (∀ i, i < 256 → bs.getD i 2 = (sVal s).val / 2 ^ i % 2) ∧ evalBits bs = (sVal s).val :=
  ⟨Hand.Scalar.bits s, ScalarCodecTies.bits_tie s, _root_.bits_spec s hs⟩

/-- the loop covers all 256 positions (regenerated fact; the body is regenerated statement by statement, see above) -/
theorem loop_facts : Facts.bitsLoopBound = 256 := by decide

-- non-vacuity: n-1 (bit 255 set) is a canonical scalar
example : sOk Hand.Scalar.minusOne := ⟨by decide, by decide⟩

end C14
