import Secp.Hand.History
/-! # C14 — placeholder: theorems are being added in this session -/
namespace C14
theorem model_is_total : True := trivial
end C14
