import Secp.Proofs.GroupTies
import Secp.Proofs.BytesTiesNH
import Secp.Proofs.HashToScalar
/-!
# C09 — HashToScalar is RFC 9380 hash_to_field over the scalar field

Model of the code: `Hand.Group.hashToScalar H msg dst` = `Hand.Group.expandXMD` (b_0, b_1, xor chaining, l_i_b_str,
DST′ with the oversize rule, zero-length DST → panic, modelled as `none`) followed by `Hand.Fn.hashToFieldElement`
(the wide reduction `a + b·2^192 + c·2^384` over the generated scalar `ToMontgomery`, `Mul`, `Add` with the two
hard-coded Montgomery constants). Specification: `Spec.Rfc9380` written from the RFC text. `H` is any hash function
with 32-byte output (SHA-256 in the real program: a parameter here, see the trusted base).
-/
namespace C09
open Spec Spec.Rfc9380

/-- the expander of the code is `expand_message_xmd`, for every message, every non-empty DST (of length 1..255 and
> 255) and every output length of at most 255 blocks -/
theorem expander_is_rfc (H : Bytes → Bytes) (msg dst : Bytes) (len : Nat) (hd : dst ≠ []) (hl : (len + 31) / 32 ≤ 255) :
    Hand.Group.expandXMD H msg dst len = some (expandMessageXmd H msg dst len) := expandXMD_eq H msg dst len hd hl

/-- **the expander regenerated from `xmd.go` on this run** (`GenXmd.expandXMD`: `checkDST`, `vetDSTXMD`, `i2osp2`, `hashAll`,
the `xorSlices` index loop, the `for i := 2; i <= ell; i++` loop, the final re-slice, with every bounds check and the
zero-length-DST panic as `none`) is `expand_message_xmd`: it does not panic and returns the RFC's bytes -/
theorem expander_regenerated (H : Bytes → Bytes) (hH : HashOK H) (msg dst : Bytes) (len : Nat) (hd : dst ≠ [])
    (hl : (len + 31) / 32 ≤ 255) :
    GenXmd.expandXMD H msg dst len = some (expandMessageXmd H msg dst len) := by
  rw [XmdTies.expandXMD_eq H hH.len msg dst len (by omega)]
  exact expandXMD_eq H msg dst len hd hl

/-- the regenerated expander panics (`none`) on an empty or nil DST -/
theorem expander_regenerated_empty (H : Bytes → Bytes) (hH : HashOK H) (msg : Bytes) (len : Nat) (hl : len < 2^53) :
    GenXmd.expandXMD H msg [] len = none := by
  rw [XmdTies.expandXMD_eq H hH.len msg [] len hl]
  exact expandXMD_empty H msg len

/-- the 48-byte wide reduction returns the input integer modulo `n`, in canonical form, for all `2^384` inputs -/
theorem wide_reduction (input : Bytes) (hb : IsBytes input) (hl : input.length = 48) :
    sOk (Hand.Fn.hashToFieldElement input) ∧ sVal (Hand.Fn.hashToFieldElement input) = ((os2ip input : Nat) : ZMod N) :=
  fn_hashToField input hb hl

/-- the wide reduction regenerated from `internal/scalar` on this run does not panic on 48-byte inputs and is the model's -/
theorem wide_reduction_regenerated (out : L4) (input : Bytes) (hl : input.length = 48) :
    GenScalarBytes.hashToFieldElement out input = some (Hand.Fn.hashToFieldElement input) :=
  BytesTies.fn_hashToFieldElement out input hl

/-- **C09** -/
theorem hashToScalar_spec (H : Bytes → Bytes) (hH : HashOK H) (msg dst : Bytes) (hd : dst ≠ []) :
    ∃ s, Hand.Group.hashToScalar H msg dst = some s ∧ sOk s ∧ (sVal s).val = Rfc9380.hashToScalar H msg dst :=
  _root_.hashToScalar_spec H hH msg dst hd

/-- an empty or nil DST panics instead of hashing -/
theorem empty_dst_panics (H : Bytes → Bytes) (msg : Bytes) : Hand.Group.hashToScalar H msg [] = none :=
  hashToScalar_empty_dst H msg

/-- **C09 for the `HashToScalar` regenerated from `group.go` on this run** (`GenGroup.hashToScalar`: the expander call with
`L = 48`, the `[48]byte(uniform)` conversion, then the wide reduction regenerated from `internal/scalar`) -/
theorem hashToScalar_regenerated (H : Bytes → Bytes) (hH : HashOK H) (msg dst : Bytes) (hd : dst ≠ []) :
    ∃ s, GenGroup.hashToScalar H msg dst = some s ∧ sOk s ∧
      (sVal s).val = Rfc9380.hashToScalar H msg dst := by
  rw [GroupTies.hashToScalar_tie H hH]
  exact _root_.hashToScalar_spec H hH msg dst hd

/-- the regenerated `HashToScalar` panics on an empty or nil DST -/
theorem hashToScalar_regenerated_empty (H : Bytes → Bytes) (hH : HashOK H) (msg : Bytes) :
    GenGroup.hashToScalar H msg [] = none := by
  rw [GroupTies.hashToScalar_tie H hH]
  exact hashToScalar_empty_dst H msg

-- non-vacuity: a hash with 32-byte outputs exists
example : HashOK (fun _ => List.replicate 32 7) := ⟨fun _ => by simp, fun _ x hx => by
  rw [List.mem_replicate] at hx; omega⟩

end C09
