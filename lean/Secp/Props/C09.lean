import Secp.Hand.History
/-! # C09 — placeholder: theorems are being added in this session -/
namespace C09
theorem model_is_total : True := trivial
end C09
