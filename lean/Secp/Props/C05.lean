import Secp.Hand.History
/-! # C05 — placeholder: theorems are being added in this session -/
namespace C05
theorem model_is_total : True := trivial
end C05
