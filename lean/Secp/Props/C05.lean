import Secp.Proofs.Equal
import Secp.Proofs.ElementApiTiesEq
import Secp.Proofs.LimbGroup
/-!
# C05 — Element equality and identity test are representation-independent

Model of the code: the generated `Curve.isEqual` (two cross-multiplied comparisons) and `IsIdentity`
(`z.IsZero() != 0`), at the limb implementation. Specification: equality in Mathlib's group.
-/
namespace C05
open Hand.Element

abbrev F := Hand.limbOps
abbrev Valid (P : Pt L4) : Prop := PtValid limbLawful P
noncomputable abbrev G (P : Pt L4) := toGp limbLawful curveOK_Fp P

/-- **Equal** returns 1 exactly when the two operands are the same group element — whatever their projective
representations — and 0 otherwise (so `P` vs `-P`, points sharing `x` or `y`, and any point vs the identity
compare unequal, and all representations of the identity compare equal). -/
theorem equal_iff (P Q : Pt L4) (hP : Valid P) (hQ : Valid Q) :
    (equal F P Q = 1 ↔ G P = G Q) ∧ (equal F P Q = 0 ∨ equal F P Q = 1) :=
  _root_.equal_iff limbLawful curveOK_Fp P Q hP hQ

/-- **Equal** is symmetric -/
theorem equal_symm (P Q : Pt L4) (hP : Valid P) (hQ : Valid Q) : equal F P Q = equal F Q P :=
  _root_.equal_symm limbLawful curveOK_Fp P Q hP hQ

/-- **IsIdentity** is true exactly for the identity -/
theorem isIdentity_iff (P : Pt L4) (hP : Valid P) : isIdentity F P = true ↔ G P = 0 :=
  _root_.isIdentity_iff limbLawful curveOK_Fp P hP

/-- corollary: `P` and `-P` compare unequal unless `P = -P`, i.e. (no 2-torsion) unless `P` is the identity -/
theorem equal_neg (P : Pt L4) (hP : Valid P) (h : equal F P (negate F P) = 1) : G P = - G P := by
  obtain ⟨hv, hg⟩ := _root_.negate_correct limbLawful curveOK_Fp P hP
  rw [← hg]
  exact ((equal_iff P (negate F P) hP hv).1).mp h

example : Valid Hand.ElementL.base := base_valid
example : Valid (identity F) := identity_valid limbLawful

/-- `Equal` (both aliasing patterns) and `IsIdentity`, regenerated from `element.go` on every run, are the model above -/
theorem api_methods_tied {α : Type} (F : FieldOps α) (e v : Pt α) :
    GenElementAPI.equal_e_v F e v = Hand.Element.equal F e v ∧ GenElementAPI.equal_ev F e = Hand.Element.equal F e e ∧
    GenElementAPI.isIdentity F e = Hand.Element.isIdentity F e := ⟨rfl, rfl, rfl⟩

/-- **C05 for the methods regenerated from `element.go` on this run**: `Equal` answers 1 exactly when the two elements are the
same group element (whatever their representations), 0 otherwise, also with the receiver as its own argument; `IsIdentity`
is true exactly for the identity -/
theorem equality_regenerated (P Q : Pt L4) (hP : Valid P) (hQ : Valid Q) :
    (GenElementAPI.equal_e_v F P Q = 1 ↔ G P = G Q) ∧
    (GenElementAPI.equal_e_v F P Q = 0 ∨ GenElementAPI.equal_e_v F P Q = 1) ∧
    GenElementAPI.equal_ev F P = 1 ∧
    (GenElementAPI.isIdentity F P = true ↔ G P = 0) := by
  obtain ⟨t1, t2, t3⟩ := api_methods_tied F P Q
  rw [t1, t2, t3]
  exact ⟨(equal_iff P Q hP hQ).1, (equal_iff P Q hP hQ).2, ((equal_iff P P hP hP).1).mpr rfl, isIdentity_iff P hP⟩

end C05
