import Secp.Proofs.WrapperTiesN
import Secp.Proofs.ScalarCmp
import Secp.Proofs.ScalarApiTiesTests
import Secp.Proofs.ScalarApiTiesSelect
/-!
# C13 — scalar comparisons and conditional selection follow integer semantics

Model of the code: `Hand.Scalar.{equal,isZero,isOne,lessOrEqual,cselect}` built from the generated
`FiatScalar.{equal,isFEZero,isNonZero,isZero,selectznz,fromMontgomery}`. On the pinned tree `LessOrEqual`
compared Montgomery limbs (F3, commit 0724df4) and `CSelect` passed the raw condition word to the 0/1 conditional
move (F4, commit 8a12db2); the models here follow the repaired code and the correspondence family `SC.*` ties them to it.
-/
namespace C13

/-- **LessOrEqual** returns 1 exactly when the canonical value of `s` is ≤ that of `t`, else 0 -/
theorem lessOrEqual_iff (s t : L4) (hs : sOk s) (ht : sOk t) :
    Hand.Scalar.lessOrEqual s t = if (sVal s).val ≤ (sVal t).val then 1 else 0 := _root_.lessOrEqual_iff s t hs ht

/-- **Equal** agrees with equality of canonical values; a nil argument compares unequal -/
theorem equal_iff (s t : L4) (hs : sOk s) (ht : sOk t) :
    Hand.Scalar.equal s (some t) = if sVal s = sVal t then 1 else 0 := sc_equal_iff s t hs ht
theorem equal_nil (s : L4) : Hand.Scalar.equal s none = 0 := rfl

theorem isZero_iff (s : L4) (hs : sOk s) : Hand.Scalar.isZero s = true ↔ sVal s = 0 := sc_isZero_iff s hs
theorem isOne_iff (s : L4) (hs : sOk s) : Hand.Scalar.isOne s = true ↔ sVal s = 1 := sc_isOne_iff s hs

/-- **CSelect**: the first operand for condition 0, the second for *every* non-zero 64-bit condition word -/
theorem cselect_spec (r : L4) (c : Nat) (hc : c < W) (u v : L4) (hu : u.ok) (hv : v.ok) :
    Hand.Scalar.cselect r c (some u) (some v) = (none, if c = 0 then u else v) := _root_.cselect_spec r c hc u v hu hv

/-- a nil operand is reported and nothing changes -/
theorem cselect_nil (r : L4) (c : Nat) (u v : Option L4) (h : u = none ∨ v = none) :
    Hand.Scalar.cselect r c u v = (some .nilScalar, r) := by
  rcases h with rfl | rfl
  · exact cselect_nil_left r c v
  · exact cselect_nil_right r c u

/-- `scalar.CMove`, regenerated from its Go body on every run, is the `Selectznz` call the model of `CSelect` makes (pure in
its operands: the generated definition reads `u` and `v` before `out` is bound, whatever `out` aliases) -/
theorem cmove_wrapper_tied (c : Nat) (u v : L4) : FiatScalar.cMove c u v = FiatScalar.selectznz c u v := rfl

/-- `Equal`, `LessOrEqual`, `IsZero`, `IsOne`, `CSelect` of `scalar.go`, regenerated from their Go bodies on every run, are the
model the theorems above are about (nil operands and the error value included) -/
theorem api_methods_tied (s t : L4) (ot ou ov : Option L4) (c : Nat) :
    GenScalarAPI.equal s ot = Hand.Scalar.equal s ot ∧ GenScalarAPI.lessOrEqual s t = Hand.Scalar.lessOrEqual s t ∧
    GenScalarAPI.isZero s = Hand.Scalar.isZero s ∧ GenScalarAPI.isOne s = Hand.Scalar.isOne s ∧
    GenScalarAPI.cSelect s c ou ov =
      ((Hand.Scalar.cselect s c ou ov).2, (Hand.Scalar.cselect s c ou ov).1.map ScalarApiTies.errName) :=
  ⟨ScalarApiTies.equal_tie s ot, rfl, rfl, rfl, ScalarApiTies.cselect_tie s c ou ov⟩

example : sOk Hand.Scalar.minusOne ∧ sOk FiatScalar.setOne := ⟨⟨by decide, by decide⟩, ⟨by decide, by decide⟩⟩

/-- **C13 for the methods regenerated from `scalar.go` on this run**: `LessOrEqual` is the integer order of the canonical
values, `Equal` their equality (nil compares unequal), `IsZero`/`IsOne` test for 0 and 1, `CSelect` keeps the first operand
for condition 0 and takes the second for every other 64-bit condition word, reporting no error -/
theorem comparisons_regenerated (r s t : L4) (hs : sOk s) (ht : sOk t) (c : Nat) (hc : c < W) :
    GenScalarAPI.lessOrEqual s t = (if (sVal s).val ≤ (sVal t).val then 1 else 0) ∧
    GenScalarAPI.equal s (some t) = (if sVal s = sVal t then 1 else 0) ∧ GenScalarAPI.equal s none = 0 ∧
    (GenScalarAPI.isZero s = true ↔ sVal s = 0) ∧ (GenScalarAPI.isOne s = true ↔ sVal s = 1) ∧
    GenScalarAPI.cSelect r c (some s) (some t) = ((if c = 0 then s else t), none) := by
  obtain ⟨e1, e2, e3, e4, e5⟩ := api_methods_tied s t (some t) (some s) (some t) c
  obtain ⟨n1, _, _, _, _⟩ := api_methods_tied s t none none none c
  obtain ⟨_, _, _, _, c5⟩ := api_methods_tied r t none (some s) (some t) c
  rw [e1, e2, e3, e4, n1, c5, cselect_spec r c hc s t hs.1 ht.1]
  exact ⟨lessOrEqual_iff s t hs ht, equal_iff s t hs ht, rfl, isZero_iff s hs, isOne_iff s hs, rfl⟩

end C13
