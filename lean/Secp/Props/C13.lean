import Secp.Hand.History
/-! # C13 — placeholder: theorems are being added in this session -/
namespace C13
theorem model_is_total : True := trivial
end C13
