import Secp.Proofs.Decode
import Secp.Proofs.WideReduceP
import Secp.Proofs.BytesTiesP
import Secp.Proofs.BytesTiesPH
/-!
# C12 — the base-field layer computes exact, canonical arithmetic in F_p

Model of the code: `Hand.limbOps` — the methods of `field.Element` on Montgomery limbs, each a thin wrapper (tied by
the family `F.*`) of a function *generated* from `internal/field`: the Fiat-Crypto `Mul Square Add Sub Opp
FromMontgomery ToMontgomery Nonzero Selectznz SetOne`, the bit tricks, `Reduce`, the two addition chains, `SqrtRatio`.
Every generated Fiat function is shown *definitionally equal* (`rfl`) to a structured word-by-word Montgomery reference,
and the reference is proved correct for every valid modulus; a changed constant, swapped operand or dropped carry in the
3.9 kLoC of generated Go breaks the `rfl`.

`limbOk a` = limbs below 2^64 and value below p (canonical). `limbVal a ∈ ZMod p` = the field element denoted
(`eval · R⁻¹`). p is proved prime (checked Pratt certificates), so `ZMod p` is the field F_p.
-/
namespace C12
open Spec

/-- add / subtract / multiply / square / negate: exact in F_p, results canonical -/
theorem add_correct {a b : L4} (ha : limbOk a) (hb : limbOk b) :
    limbOk (FiatField.add a b) ∧ limbVal (FiatField.add a b) = limbVal a + limbVal b := limb_add ha hb
theorem sub_correct {a b : L4} (ha : limbOk a) (hb : limbOk b) :
    limbOk (FiatField.sub a b) ∧ limbVal (FiatField.sub a b) = limbVal a - limbVal b := limb_sub ha hb
theorem mul_correct {a b : L4} (ha : limbOk a) (hb : limbOk b) :
    limbOk (FiatField.mul a b) ∧ limbVal (FiatField.mul a b) = limbVal a * limbVal b := limb_mul ha hb
theorem square_correct {a : L4} (ha : limbOk a) :
    limbOk (FiatField.square a) ∧ limbVal (FiatField.square a) = limbVal a * limbVal a := limb_square ha
theorem neg_correct {a : L4} (ha : limbOk a) :
    limbOk (FiatField.opp a) ∧ limbVal (FiatField.opp a) = - limbVal a := limb_neg ha

/-- invert: `x⁻¹`, and `0 ↦ 0` (270-step addition chain `x^(p-2)`, exponent evaluated in the kernel, Fermat) -/
theorem invert_correct {a : L4} (ha : limbOk a) :
    limbOk (FieldChains.invert FL a) ∧ limbVal (FieldChains.invert FL a) = (limbVal a)⁻¹ := limb_invert ha

/-- square-root-of-ratio for `v ≠ 0`: flag 1 and a root of `u/v` when `u/v` is a square, flag 0 and a root of
`Z·u/v` (`Z = -11`) otherwise; result canonical -/
theorem sqrtRatio_correct (u v : L4) (hu : limbOk u) (hv : limbOk v) (hv0 : limbVal v ≠ 0) :
    limbOk (FieldChains.sqrtRatio FL u v).1 ∧
    ((IsSquare (limbVal u / limbVal v) ∧ (FieldChains.sqrtRatio FL u v).2 = 1 ∧
        (limbVal (FieldChains.sqrtRatio FL u v).1) ^ 2 = limbVal u / limbVal v) ∨
     (¬ IsSquare (limbVal u / limbVal v) ∧ (FieldChains.sqrtRatio FL u v).2 = 0 ∧
        (limbVal (FieldChains.sqrtRatio FL u v).1) ^ 2 = -11 * (limbVal u / limbVal v))) :=
  sqrtRatio_spec limbLawful limb_sqrtConsts u v hu hv hv0

/-- sign: the parity of the canonical value -/
theorem sgn0_correct {a : L4} (ha : limbOk a) : Hand.limbOps.sgn0 a = (limbVal a).val % 2 := limb_sgn0 ha.1

/-- zero test, equality test (canonical representations are unique), conditional move on a 0/1 condition -/
theorem isZero_correct {a : L4} (ha : limbOk a) : (Hand.limbOps.isZero a = 1 ↔ limbVal a = 0) ∧
    (Hand.limbOps.isZero a = 0 ∨ Hand.limbOps.isZero a = 1) :=
  ⟨limbLawful.isZero_eq_one_iff ha, limbLawful.isZero_bit ha⟩
theorem equals_correct {a b : L4} (ha : limbOk a) (hb : limbOk b) :
    (Hand.limbOps.equals a b = 1 ↔ limbVal a = limbVal b) ∧
    (Hand.limbOps.equals a b = 0 ∨ Hand.limbOps.equals a b = 1) :=
  ⟨limbLawful.equals_eq_one_iff ha hb, limbLawful.equals_bit ha hb⟩
theorem canonical_unique {a b : L4} (ha : limbOk a) (hb : limbOk b) (h : limbVal a = limbVal b) : a = b :=
  limbVal_inj ha hb h
theorem cmove_correct (c : Nat) (hc : c ≤ 1) (u v : L4) (hu : u.ok) (hv : v.ok) :
    FiatField.selectznz c u v = if c = 0 then u else v := selectznz_spec_p c hc u v hu hv

/-- the 32-byte parser reports precisely whether the input was `< p` and stores the input mod p -/
theorem fromBytesWithReduce_correct (b : Bytes) (hlen : b.length = 32) (hb : IsBytes b) :
    limbOk (Hand.Fp.fromBytesWithReduce b).1 ∧ limbVal (Hand.Fp.fromBytesWithReduce b).1 = ((os2ip b : Nat) : ZMod P) ∧
    (Hand.Fp.fromBytesWithReduce b).2 = (if os2ip b < P then 1 else 0) := fromBytesWithReduce_spec b hlen hb

/-- the serialiser emits the canonical value, big-endian on 32 bytes -/
theorem bytes_correct {a : L4} (ha : a.ok) : Hand.Fp.bytes a = i2osp (limbVal a).val 32 := limb_bytes ha

/-- the 48-byte wide reduction returns the input integer mod p -/
theorem hashToField_correct (input : Bytes) (hb : IsBytes input) (hl : input.length = 48) :
    limbOk (Hand.Fp.hashToFieldElement input) ∧ limbVal (Hand.Fp.hashToFieldElement input) = ((os2ip input : Nat) : ZMod P) :=
  fp_hashToField input hb hl

/-- **the byte-level functions regenerated from `internal/field` on this run** (`GenFieldBytes`: `bytesToInts`,
`nonMontgomeryToBytes`, `Bytes`, `FromBytesWithReduce`, `FromBytesNoReduce`, `HashToFieldElement`, with every re-slice,
`PutUint64`/`Uint64` length requirement and the `pad[32-len(input):]` bound as an `Option` step) do not panic on inputs of
the stated lengths and compute the model's functions, which the three theorems above are about -/
theorem byte_functions_regenerated (e : L4) (b : Bytes) :
    GenFieldBytes.element_bytes e = some (Hand.Fp.bytes e) ∧
    (b.length = 32 → GenFieldBytes.element_fromBytesWithReduce e b = some (Hand.Fp.fromBytesWithReduce b)) ∧
    (b.length ≤ 32 → GenFieldBytes.element_fromBytesNoReduce e b = some (Hand.Fp.fromBytesNoReduce b)) ∧
    (b.length = 48 → GenFieldBytes.element_hashToFieldElement e b = some (Hand.Fp.hashToFieldElement b)) :=
  ⟨BytesTies.fp_bytes e, BytesTies.fp_fromBytesWithReduce e b, BytesTies.fp_fromBytesNoReduce e b,
    BytesTies.fp_hashToFieldElement e b⟩

/-- Montgomery conversions -/
theorem fromMontgomery_correct {a : L4} (ha : a.ok) :
    (FiatField.fromMontgomery a).ok ∧ (FiatField.fromMontgomery a).eval = (limbVal a).val := limb_fromMont ha
theorem toMontgomery_correct {x : L4} (hx : x.ok) :
    limbOk (FiatField.toMontgomery x) ∧ limbVal (FiatField.toMontgomery x) = (x.eval : ZMod P) := limb_toMont hx

/-- `SqrtRatio` is safe under aliasing of its receiver with either operand: the specialisations generated with the receiver
sharing the cell of `u`, respectively of `v`, are the same function of the operands (every temporary is read before the
receiver is written) -/
theorem sqrtRatio_alias_safe {α : Type} (F : FieldOps α) (u v : α) :
    FieldChains.sqrtRatio_eu F u v = FieldChains.sqrtRatio F u v ∧ FieldChains.sqrtRatio_ev F v u = FieldChains.sqrtRatio F u v :=
  ⟨rfl, rfl⟩

/-- the method wrappers of `internal/field/element.go` (regenerated from their Go bodies on every run) are the fields of the
operations record all of the above is stated about -/
theorem method_wrappers_tied (c : Nat) (e u v : L4) :
    FiatField.elOne = Hand.limbOps.one ∧ FiatField.elAdd u v = Hand.limbOps.add u v ∧
    FiatField.elSubtract u v = Hand.limbOps.sub u v ∧ FiatField.elMultiply u v = Hand.limbOps.mul u v ∧
    FiatField.elNegate u = Hand.limbOps.neg u ∧ FiatField.elSquare u = Hand.limbOps.square u ∧
    FiatField.elSgn0 e = Hand.limbOps.sgn0 e ∧ FiatField.elCMove c u v = Hand.limbOps.cmove c u v ∧
    FiatField.elIsZero e = Hand.limbOps.isZero e ∧ FiatField.equals e u = Hand.limbOps.equals e u :=
  ⟨rfl, rfl, rfl, rfl, rfl, rfl, rfl, rfl, rfl, rfl⟩

/-- summary: the limb implementation is a lawful implementation of the field `ZMod p` -/
noncomputable def lawful : Lawful Hand.limbOps (ZMod P) := limbLawful

/-- `p` is prime (Pratt certificate, every step evaluated by the kernel) -/
theorem p_prime : Nat.Prime P := Fact.out

example : limbOk FiatField.setOne ∧ limbVal FiatField.setOne = 1 := ⟨limbLawful.ok_one, limbLawful.val_one⟩

end C12
