import Secp.Proofs.LimbLawful
/-!
# C12 — the base-field layer computes exact, canonical arithmetic in F_p
(first instalment: the limb-level contracts of the generated Fiat functions)
-/
namespace C12

/-- `Mul`: canonical output, Montgomery product -/
theorem mul_correct (x y : L4) (hx : x.ok) (hy : y.ok) (hY : y.eval < Pnat) :
    (FiatField.mul x y).ok ∧ (FiatField.mul x y).eval < Pnat ∧
    ((FiatField.mul x y).eval * W^4) % Pnat = (x.eval * y.eval) % Pnat := fieldMul_correct x y hx hy hY

theorem square_correct (x : L4) (hx : x.ok) (hX : x.eval < Pnat) :
    (FiatField.square x).ok ∧ (FiatField.square x).eval < Pnat ∧
    ((FiatField.square x).eval * W^4) % Pnat = (x.eval * x.eval) % Pnat := fieldSquare_correct x hx hX

theorem add_correct (x y : L4) (hx : x.ok) (hy : y.ok) (hX : x.eval < Pnat) (hY : y.eval < Pnat) :
    (FiatField.add x y).ok ∧ (FiatField.add x y).eval = (x.eval + y.eval) % Pnat := fieldAdd_correct x y hx hy hX hY

theorem sub_correct (x y : L4) (hx : x.ok) (hy : y.ok) (hX : x.eval < Pnat) (hY : y.eval < Pnat) :
    (FiatField.sub x y).ok ∧ (FiatField.sub x y).eval = (x.eval + Pnat - y.eval) % Pnat := fieldSub_correct x y hx hy hX hY

theorem neg_correct (x : L4) (hx : x.ok) (hX : x.eval < Pnat) :
    (FiatField.opp x).ok ∧ (FiatField.opp x).eval = (Pnat - x.eval) % Pnat := fieldOpp_correct x hx hX

/-- zero / equality tests and conditional move on a 0/1 condition (bit tricks proved on `Nat` words below 2^64) -/
theorem equals_correct (e u : L4) (he : e.ok) (hu : u.ok) : FiatField.equals e u = if e = u then 1 else 0 :=
  equals_spec e u he hu
theorem isZero_correct (e : L4) (he : e.ok) :
    FiatField.isZero (FiatField.nonzero e) = if e = ⟨0, 0, 0, 0⟩ then 1 else 0 := isZeroL4_spec e he
theorem cmove_correct (c : Nat) (hc : c ≤ 1) (u v : L4) (hu : u.ok) (hv : v.ok) :
    FiatField.selectznz c u v = if c = 0 then u else v := selectznz_spec_p c hc u v hu hv

/-- the limb implementation (`field.Element` methods on Montgomery limbs) is a lawful implementation of `ZMod p`:
canonical representations are unique, and add/sub/mul/square/neg/zero-test/equality/cmove commute with the
abstraction `limbs ↦ eval · R⁻¹ (mod p)` and preserve canonicity -/
noncomputable def lawful : Lawful Hand.limbOps (ZMod Spec.P) := limbLawful

end C12
