import Secp.Proofs.AddSub
/-!
# C12 — the base-field layer computes exact, canonical arithmetic in F_p
(first instalment: the limb-level contracts of the generated Fiat functions)
-/
namespace C12

/-- `Mul`: canonical output, Montgomery product -/
theorem mul_correct (x y : L4) (hx : x.ok) (hy : y.ok) (hY : y.eval < Pnat) :
    (FiatField.mul x y).ok ∧ (FiatField.mul x y).eval < Pnat ∧
    ((FiatField.mul x y).eval * W^4) % Pnat = (x.eval * y.eval) % Pnat := fieldMul_correct x y hx hy hY

theorem square_correct (x : L4) (hx : x.ok) (hX : x.eval < Pnat) :
    (FiatField.square x).ok ∧ (FiatField.square x).eval < Pnat ∧
    ((FiatField.square x).eval * W^4) % Pnat = (x.eval * x.eval) % Pnat := fieldSquare_correct x hx hX

theorem add_correct (x y : L4) (hx : x.ok) (hy : y.ok) (hX : x.eval < Pnat) (hY : y.eval < Pnat) :
    (FiatField.add x y).ok ∧ (FiatField.add x y).eval = (x.eval + y.eval) % Pnat := fieldAdd_correct x y hx hy hX hY

theorem sub_correct (x y : L4) (hx : x.ok) (hy : y.ok) (hX : x.eval < Pnat) (hY : y.eval < Pnat) :
    (FiatField.sub x y).ok ∧ (FiatField.sub x y).eval = (x.eval + Pnat - y.eval) % Pnat := fieldSub_correct x y hx hy hX hY

theorem neg_correct (x : L4) (hx : x.ok) (hX : x.eval < Pnat) :
    (FiatField.opp x).ok ∧ (FiatField.opp x).eval = (Pnat - x.eval) % Pnat := fieldOpp_correct x hx hX

end C12
