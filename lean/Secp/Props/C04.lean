import Secp.Proofs.DecodeRT
import Secp.Proofs.DecodeTies
import Secp.Proofs.ElementApiTiesConstr
import Secp.Proofs.ElementCodecTies
import Secp.Proofs.BytesTiesP
import Secp.Proofs.MiscTies
/-!
# C04 — element encodings are canonical SEC1 and round-trip through Decode

Model of the code: `Hand.ElementL.{encode,encodeUncompressed,xCoordinate}` — constant-time selects and slicing (glue,
tied by the family `PT.enc`) — over the generated `affine` (with the generated 270-step inversion chain),
`FromMontgomery`, `Sgn0`, `IsZero`. `affPt P` is the abstract affine point `(X/Z, Y/Z)` (or infinity).
On the pinned tree `EncodeUncompressed(identity)` was `04‖0‖1` (defect F2, commit cedf187).
-/
namespace C04
open Spec

abbrev Valid (P : Pt L4) : Prop := PtValid limbLawful P
noncomputable abbrev G (P : Pt L4) := toGp limbLawful curveOK_Fp P

/-- **Encode** is the SEC1 compressed form of the abstract point: `02/03` by the parity of `y`, then the 32-byte
big-endian `x < p`; the single byte `00` for the identity -/
theorem encode_canonical (P : Pt L4) (hP : Valid P) : Hand.ElementL.encode P = encodeCompressed (affPt P) :=
  encode_spec P hP.1

/-- **EncodeUncompressed** is `04‖x‖y` (`00` for the identity) -/
theorem encodeUncompressed_canonical (P : Pt L4) (hP : Valid P) :
    Hand.ElementL.encodeUncompressed P = Spec.encodeUncompressed (affPt P) := encodeUncompressed_spec P hP.1

/-- `XCoordinate` is `Encode` without its first byte -/
theorem xCoordinate_view (P : Pt L4) : Hand.ElementL.xCoordinate P = (Hand.ElementL.encode P).drop 1 := rfl

/-- **the bytes depend only on the group element**, never on the representation it was computed in -/
theorem encode_repr_independent (P Q : Pt L4) (hP : Valid P) (hQ : Valid Q) (h : G P = G Q) :
    Hand.ElementL.encode P = Hand.ElementL.encode Q ∧
    Hand.ElementL.encodeUncompressed P = Hand.ElementL.encodeUncompressed Q := encode_repr_indep P Q hP hQ h

/-- **round trips** for every element, every representation, any prior receiver value -/
theorem decode_encode (e P : Pt L4) (hP : Valid P) :
    (Hand.ElementL.decode e (Hand.ElementL.encode P)).1 = none ∧
    Valid (Hand.ElementL.decode e (Hand.ElementL.encode P)).2 ∧
    G (Hand.ElementL.decode e (Hand.ElementL.encode P)).2 = G P := _root_.decode_encode e P hP

theorem decode_encodeUncompressed (e P : Pt L4) (hP : Valid P) :
    (Hand.ElementL.decode e (Hand.ElementL.encodeUncompressed P)).1 = none ∧
    Valid (Hand.ElementL.decode e (Hand.ElementL.encodeUncompressed P)).2 ∧
    G (Hand.ElementL.decode e (Hand.ElementL.encodeUncompressed P)).2 = G P := _root_.decode_encodeUncompressed e P hP

/-- **the round trip for the regenerated functions**: `Decode(Encode(P))` computed entirely by the definitions `go2lean`
produced from `element.go` on this run reports no error and leaves a valid element denoting the same point, for every
valid `P` in any representation and any prior receiver -/
theorem roundtrip_regenerated (e P : Pt L4) (hP : Valid P) :
    (GenDecode.decode DecodeTies.limbBytes Hand.limbOps e (GenDecode.encode DecodeTies.limbBytes Hand.limbOps P)).1 = none ∧
    Valid (GenDecode.decode DecodeTies.limbBytes Hand.limbOps e (GenDecode.encode DecodeTies.limbBytes Hand.limbOps P)).2 ∧
    G (GenDecode.decode DecodeTies.limbBytes Hand.limbOps e (GenDecode.encode DecodeTies.limbBytes Hand.limbOps P)).2 = G P := by
  rw [DecodeTies.encode_tie, DecodeTies.decode_tie]
  obtain ⟨h1, h2, h3⟩ := _root_.decode_encode e P hP
  refine ⟨?_, h2, h3⟩
  show (Hand.ElementL.decode e (Hand.ElementL.encode P)).1.map DecodeTies.errName = none
  rw [h1]; rfl

/-- the encoders of `element.go`, regenerated from their Go bodies on every run (the local byte array, `affine()` inlined,
`subtle.ConstantTimeSelect`/`ConstantTimeCopy`, `append`, the final re-slice), are the model the theorems above are about -/
theorem encoders_tied (e : Pt L4) :
    GenDecode.encode DecodeTies.limbBytes Hand.limbOps e = Hand.ElementL.encode e ∧
    GenDecode.encodeUncompressed DecodeTies.limbBytes Hand.limbOps e = Hand.ElementL.encodeUncompressed e ∧
    GenDecode.xCoordinate DecodeTies.limbBytes Hand.limbOps e = Hand.ElementL.xCoordinate e :=
  ⟨DecodeTies.encode_tie e, DecodeTies.encodeUncompressed_tie e, DecodeTies.xCoordinate_tie e⟩

/-- the wrappers `Hex` and `MarshalBinary`, regenerated on every run, are the regenerated `Encode` (hex-encoded, resp. with a
nil error); and the serialiser the encoders are parameterised by is the `Bytes` regenerated from `internal/field`, which
never panics -/
theorem encode_wrappers_tied (e x : Pt L4) (a : L4) :
    GenElementCodec.element_hex DecodeTies.limbBytes Hand.limbOps e = some (Spec.toHex (Hand.ElementL.encode e)) ∧
    GenElementCodec.element_marshalBinary DecodeTies.limbBytes Hand.limbOps e = some (Hand.ElementL.encode e, none) ∧
    GenFieldBytes.element_bytes a = some (DecodeTies.limbBytes.bytes a) :=
  ⟨ElementCodecTies.hex_tie e, ElementCodecTies.marshal_tie e, BytesTies.fp_bytes a⟩

/-- the group-level `Base()`, `NewElement()` and the constants of `group.go` (`Ciphersuite`, `ScalarLength`, `ElementLength`,
`Order`), regenerated on every run, are the model's -/
theorem group_constants_regenerated :
    GenMisc.base Hand.limbOps = some Hand.ElementL.base ∧
    GenMisc.newElement Hand.limbOps = some (Hand.Element.identity Hand.limbOps) ∧
    GenMisc.ciphersuite = some Hand.Group.ciphersuite ∧ GenMisc.scalarLength = some Hand.Group.scalarLength ∧
    GenMisc.elementLength = some Hand.Group.elementLength ∧ GenMisc.order = some Hand.Group.order :=
  ⟨MiscTies.base_tie, MiscTies.newElement_tie _, MiscTies.consts_tie⟩

/-- `Base()` as regenerated from `element.go` on this run is the model's base point, a valid element whose encoding is the
SEC1 generator -/
theorem base_regenerated : GenElementAPI.base Hand.limbOps = Hand.ElementL.base ∧ Valid (GenElementAPI.base Hand.limbOps) := by
  rw [ElementApiTies.base_tie]; exact ⟨rfl, base_valid⟩

example : Valid Hand.ElementL.base := base_valid
example : Valid (Hand.Element.identity Hand.limbOps) := identity_valid limbLawful

end C04
