import Secp.Hand.History
/-! # C04 — placeholder: theorems are being added in this session -/
namespace C04
theorem model_is_total : True := trivial
end C04
