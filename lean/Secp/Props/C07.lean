import Secp.Proofs.ScalarEnc
import Secp.Hand.Group
import Secp.Proofs.BytesTiesN
import Secp.Proofs.ScalarCodecTies
/-!
# C07 — scalar encodings are canonical 32-byte big-endian; decoding rejects all else

Model of the code: `Hand.Scalar.{encode,decode,decodeHex}` over the generated `FromMontgomery`, `Reduce`,
`ToMontgomery` and the hand-modelled big-endian byte/limb conversion (`Hand.bytesToLimbs`, `Hand.limbsToBytes`,
tied to the code by the families `SC.enc/SC.dec/S.reducebytes`). Byte strings are lists of naturals below 256
(`IsBytes`); `os2ip`/`i2osp` are the RFC 8017 conversions.
-/
namespace C07
open Spec

/-- **Encode** is the 32-byte big-endian representation of the canonical value in `[0, n)` -/
theorem encode_canonical (s : L4) (hs : sOk s) : Hand.Scalar.encode s = i2osp (sVal s).val 32 := sc_encode s hs

/-- **Decode**, for every byte string: the empty input, every other length ≠ 32, and values `≥ n` are rejected
with their distinct errors; a 32-byte string below `n` is accepted and the receiver then holds exactly that integer -/
theorem decode_spec (r : L4) (b : Bytes) (hb : IsBytes b) :
    (b.length = 0 → Hand.Scalar.decode r b = (some .nilScalar, r)) ∧
    (b.length ≠ 0 → b.length ≠ 32 → Hand.Scalar.decode r b = (some .scalarLength, r)) ∧
    (b.length = 32 → os2ip b < N →
        (Hand.Scalar.decode r b).1 = none ∧ sOk (Hand.Scalar.decode r b).2 ∧
        sVal (Hand.Scalar.decode r b).2 = ((os2ip b : Nat) : ZMod N)) ∧
    (b.length = 32 → ¬ os2ip b < N → (Hand.Scalar.decode r b).1 = some .scalarTooBig) := sc_decode r b hb

/-- acceptance is *exactly* "32 bytes encoding an integer below n" -/
theorem decode_accepts_iff (r : L4) (b : Bytes) (hb : IsBytes b) :
    (Hand.Scalar.decode r b).1 = none ↔ (b.length = 32 ∧ os2ip b < N) := by
  obtain ⟨h0, h1, h2, h3⟩ := sc_decode r b hb
  constructor
  · intro h
    by_cases l0 : b.length = 0
    · rw [h0 l0] at h; exact absurd h (by simp)
    · by_cases l32 : b.length = 32
      · refine ⟨l32, ?_⟩
        by_contra hge
        rw [h3 l32 hge] at h; exact absurd h (by simp)
      · rw [h1 l0 l32] at h; exact absurd h (by simp)
  · rintro ⟨l32, hlt⟩; exact (h2 l32 hlt).1

/-- `Decode(Encode(s)) = s` and `Encode(Decode(b)) = b` -/
theorem decode_encode (r s : L4) (hs : sOk s) : Hand.Scalar.decode r (Hand.Scalar.encode s) = (none, s) :=
  sc_decode_encode r s hs
theorem encode_decode (r : L4) (b : Bytes) (hb : IsBytes b) (hlen : b.length = 32) (hlt : os2ip b < N) :
    Hand.Scalar.encode (Hand.Scalar.decode r b).2 = b := sc_encode_decode r b hb hlen hlt

theorem decodeHex_toHex (r : L4) (e : Bytes) (he : IsBytes e) :
    Hand.Scalar.decodeHex r (toHex e) = Hand.Scalar.decode r e := by
  unfold Hand.Scalar.decodeHex
  rw [ofHex_toHex e he]

/-- the hex variant agrees: `DecodeHex(Hex(s)) = s` (`Hex = hex(Encode)`, `DecodeHex = Decode ∘ unhex`) -/
theorem decodeHex_hex (r s : L4) (hs : sOk s) :
    Hand.Scalar.decodeHex r (toHex (Hand.Scalar.encode s)) = (none, s) :=
  (decodeHex_toHex r (Hand.Scalar.encode s) (by rw [sc_encode s hs]; exact i2osp_isBytes _ _)).trans
    (sc_decode_encode r s hs)

/-- the byte-level functions regenerated from `internal/scalar` on this run (`BytesToNonMontgomery`, `NonMontgomeryToBytes`,
`ReduceBytes`, `FromBytesNoReduce`) do not panic on inputs of the stated lengths and are the model's -/
theorem byte_functions_regenerated (out : L4) (b : Bytes) :
    GenScalarBytes.nonMontgomeryToBytes out = some (Hand.limbsToBytes out) ∧
    (b.length = 32 → GenScalarBytes.bytesToNonMontgomery b = some (Hand.bytesToLimbs b)) ∧
    (b.length = 32 → GenScalarBytes.reduceBytes out b = some (Hand.Fn.reduceBytes b)) ∧
    (b.length ≤ 32 → GenScalarBytes.fromBytesNoReduce out b = some (Hand.Fn.fromBytesNoReduce b)) :=
  ⟨BytesTies.fn_nonMontgomeryToBytes out, BytesTies.fn_bytesToNonMontgomery b, BytesTies.fn_reduceBytes out b,
    BytesTies.fn_fromBytesNoReduce out b⟩

/-- **the codec regenerated from `scalar.go` on this run** (`GenScalarCodec`: the length `switch` of `Decode` with its early
returns, the `[32]byte(in)` conversion, the call into `scalar.ReduceBytes` and the too-big test; `Encode`; the hex and
binary-marshalling wrappers) never panics and is the model the theorems above are about. The result of a decoder is
(receiver afterwards, error); an error is the name of the package's error variable -/
theorem codec_regenerated (s : L4) (b : Bytes) (h : String) :
    GenScalarCodec.scalar_encode s = some (Hand.Scalar.encode s) ∧
    GenScalarCodec.scalar_decode s b = some (ScalarCodecTies.shape (Hand.Scalar.decode s b)) ∧
    GenScalarCodec.scalar_hex s = some (Spec.toHex (Hand.Scalar.encode s)) ∧
    GenScalarCodec.scalar_decodeHex s h = some (ScalarCodecTies.shape (Hand.Scalar.decodeHex s h)) ∧
    GenScalarCodec.scalar_marshalBinary s = some (Hand.Scalar.encode s, none) ∧
    GenScalarCodec.scalar_unmarshalBinary s b = some (ScalarCodecTies.shape (Hand.Scalar.decode s b)) :=
  ⟨ScalarCodecTies.encode_tie s, ScalarCodecTies.decode_tie s b, ScalarCodecTies.hex_tie s, ScalarCodecTies.decodeHex_tie s h,
    ScalarCodecTies.marshal_tie s, ScalarCodecTies.unmarshal_tie s b⟩

/-- the regenerated `Encode` emits the canonical value, the regenerated `Decode` of it gives the scalar back with no error -/
theorem regenerated_roundtrip (r s : L4) (hs : sOk s) :
    GenScalarCodec.scalar_encode s = some (i2osp (sVal s).val 32) ∧
    GenScalarCodec.scalar_decode r (i2osp (sVal s).val 32) = some (s, none) := by
  refine ⟨by rw [ScalarCodecTies.encode_tie, encode_canonical s hs], ?_⟩
  rw [ScalarCodecTies.decode_tie, ← encode_canonical s hs, decode_encode r s hs]
  rfl

/-- `Order()` is the canonical 32-byte encoding of the group order `n` — the first value `Decode` rejects as too big -/
theorem order_bytes : Hand.Group.order = i2osp N 32 ∧ os2ip Hand.Group.order = N := by
  constructor <;> decide +kernel

example : sOk Hand.Scalar.minusOne := ⟨by decide, by decide⟩

end C07
