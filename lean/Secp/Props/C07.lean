import Secp.Hand.History
/-! # C07 — placeholder: theorems are being added in this session -/
namespace C07
theorem model_is_total : True := trivial
end C07
