import Secp.Proofs.GroupLaw
import Secp.Proofs.ElementApiTies
import Secp.Proofs.LimbGroup
/-!
# C02 — Add, Double, Subtract, Negate implement the group law with no exceptional cases

Model of the code: the *generated* `Curve.addProjectiveComplete_eu_v` / `_euv` (receiver = first operand, argument
distinct / argument = receiver), `Curve.doubleProjectiveComplete_eu`, `Curve.negate` (regenerated from
`element.go` on every run) composed by the hand-written glue of `Hand.Element` (nil handling, identity short-cut
of `Negate`, the copy inside `Subtract`), executed at the limb implementation `Hand.limbOps` whose operations are
the generated Fiat functions.

Specification: Mathlib's group `(WeierstrassCurve.Affine.Point)` of `y² = x³ + 7` over `ZMod p`.
`Valid P` = canonical limbs, projective curve equation, not all coordinates zero: quantifying over `Valid`
triples is quantifying over every group element in every internal representation, including every `(0 : Y : 0)`.
-/
namespace C02
open Hand.Element

abbrev F := Hand.limbOps
abbrev Valid (P : Pt L4) : Prop := PtValid limbLawful P
noncomputable abbrev G (P : Pt L4) := toGp limbLawful curveOK_Fp P

/-- **Add** (argument a different variable): the sum in the group, for all operands — either or both the
identity, `P = Q` in different representations, `P = -Q` — and the result is again a valid element. -/
theorem add_correct (P Q : Pt L4) (hP : Valid P) (hQ : Valid Q) :
    Valid (add F P (some Q)) ∧ G (add F P (some Q)) = G P + G Q :=
  _root_.add_correct limbLawful curveOK_Fp limb_curveConsts P Q hP hQ

/-- **Add** with the receiver as argument (`e.Add(e)`): `2P` -/
theorem add_self_correct (P : Pt L4) (hP : Valid P) :
    Valid (addSelf F P) ∧ G (addSelf F P) = G P + G P :=
  addSelf_correct limbLawful curveOK_Fp limb_curveConsts P hP

/-- **Double** -/
theorem double_correct (P : Pt L4) (hP : Valid P) :
    Valid (double F P) ∧ G (double F P) = G P + G P :=
  _root_.double_correct limbLawful curveOK_Fp limb_curveConsts P hP

/-- **Negate** (every representation of the identity included) -/
theorem negate_correct (P : Pt L4) (hP : Valid P) :
    Valid (negate F P) ∧ G (negate F P) = - G P :=
  _root_.negate_correct limbLawful curveOK_Fp P hP

/-- **Subtract**, for any argument — the receiver itself included, because the code negates a copy -/
theorem subtract_correct (P Q : Pt L4) (hP : Valid P) (hQ : Valid Q) :
    Valid (subtract F P (some Q)) ∧ G (subtract F P (some Q)) = G P - G Q :=
  _root_.subtract_correct limbLawful curveOK_Fp limb_curveConsts P Q hP hQ

theorem subtract_self (P : Pt L4) (hP : Valid P) : G (subtract F P (some P)) = 0 :=
  _root_.subtract_self limbLawful curveOK_Fp limb_curveConsts P hP

/-- a nil argument leaves the receiver unchanged -/
theorem add_nil (P : Pt L4) : add F P none = P := rfl
theorem subtract_nil (P : Pt L4) : subtract F P none = P := rfl

/-- the argument is not written: the cell analysis of the translator shows its cells are never rebound -/
theorem argument_untouched : ("Curve.addProjectiveComplete_eu_v", ["v"]) ∈ Facts.untouched := by decide

-- non-vacuity: the base point, and (0 : 1 : 0), are `Valid`; so is everything the operations above produce from them
example : Valid Hand.ElementL.base := base_valid
example : Valid (identity F) := identity_valid limbLawful

/-- the API methods of `element.go` are regenerated from their Go bodies on every run (callees inlined on shared cells,
one definition per aliasing pattern, nil as `none`); the model the theorems above are about *is* the regenerated method -/
theorem api_methods_tied {α : Type} (F : FieldOps α) (e : Pt α) (v : Option (Pt α)) :
    GenElementAPI.add_e_v F e v = Hand.Element.add F e v ∧ GenElementAPI.add_ev F e = Hand.Element.addSelf F e ∧
    GenElementAPI.double F e = Hand.Element.double F e ∧ GenElementAPI.negate F e = Hand.Element.negate F e ∧
    GenElementAPI.subtract_e_v F e v = Hand.Element.subtract F e v ∧
    GenElementAPI.subtract_ev F e = Hand.Element.subtract F e (some e) :=
  ⟨ElementApiTies.add_tie F e v, rfl, rfl, rfl, ElementApiTies.subtract_tie F e v, rfl⟩

/-- **C02 for the methods regenerated from `element.go` on this run**: the group law, with no exceptional case, for every pair
of valid elements in any representation (identity operands, equal operands, opposite operands, the receiver as its own
argument), every result again valid -/
theorem group_law_regenerated (P Q : Pt L4) (hP : Valid P) (hQ : Valid Q) :
    (Valid (GenElementAPI.add_e_v F P (some Q)) ∧ G (GenElementAPI.add_e_v F P (some Q)) = G P + G Q) ∧
    (Valid (GenElementAPI.add_ev F P) ∧ G (GenElementAPI.add_ev F P) = G P + G P) ∧
    (Valid (GenElementAPI.double F P) ∧ G (GenElementAPI.double F P) = G P + G P) ∧
    (Valid (GenElementAPI.negate F P) ∧ G (GenElementAPI.negate F P) = - G P) ∧
    (Valid (GenElementAPI.subtract_e_v F P (some Q)) ∧ G (GenElementAPI.subtract_e_v F P (some Q)) = G P - G Q) ∧
    G (GenElementAPI.subtract_ev F P) = 0 ∧
    GenElementAPI.add_e_v F P none = P ∧ GenElementAPI.subtract_e_v F P none = P := by
  obtain ⟨t1, t2, t3, t4, t5, t6⟩ := api_methods_tied F P (some Q)
  obtain ⟨n1, _, _, _, n5, _⟩ := api_methods_tied F P none
  rw [t1, t2, t3, t4, t5, t6, n1, n5]
  exact ⟨add_correct P Q hP hQ, add_self_correct P hP, double_correct P hP, negate_correct P hP,
    subtract_correct P Q hP hQ, subtract_self P hP, rfl, rfl⟩

end C02
