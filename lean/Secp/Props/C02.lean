import Secp.Hand.History
/-! # C02 — placeholder: theorems are being added in this session -/
namespace C02
theorem model_is_total : True := trivial
end C02
