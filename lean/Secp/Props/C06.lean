import Secp.Proofs.AddSub
/-!
# C06 — scalar arithmetic is exact arithmetic modulo the group order
(first instalment: the limb-level contracts of the generated Fiat functions)
-/
namespace C06

theorem mul_correct (x y : L4) (hx : x.ok) (hy : y.ok) (hY : y.eval < Nnat) :
    (FiatScalar.mul x y).ok ∧ (FiatScalar.mul x y).eval < Nnat ∧
    ((FiatScalar.mul x y).eval * W^4) % Nnat = (x.eval * y.eval) % Nnat := scalarMul_correct x y hx hy hY

theorem square_correct (x : L4) (hx : x.ok) (hX : x.eval < Nnat) :
    (FiatScalar.square x).ok ∧ (FiatScalar.square x).eval < Nnat ∧
    ((FiatScalar.square x).eval * W^4) % Nnat = (x.eval * x.eval) % Nnat := scalarSquare_correct x hx hX

theorem add_correct (x y : L4) (hx : x.ok) (hy : y.ok) (hX : x.eval < Nnat) (hY : y.eval < Nnat) :
    (FiatScalar.add x y).ok ∧ (FiatScalar.add x y).eval = (x.eval + y.eval) % Nnat := scalarAdd_correct x y hx hy hX hY

theorem sub_correct (x y : L4) (hx : x.ok) (hy : y.ok) (hX : x.eval < Nnat) (hY : y.eval < Nnat) :
    (FiatScalar.sub x y).ok ∧ (FiatScalar.sub x y).eval = (x.eval + Nnat - y.eval) % Nnat := scalarSub_correct x y hx hy hX hY

end C06
