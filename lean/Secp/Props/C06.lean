import Secp.Proofs.ScalarEnc
import Secp.Proofs.ScalarOpsSpec
import Secp.Proofs.Fermat
import Secp.Proofs.ScalarApiTiesArith
import Secp.Proofs.ScalarApiTiesTests
import Secp.Proofs.ScalarInvertTies
import Secp.Proofs.MiscTies
import Secp.Proofs.PowTies
/-!
# C06 — scalar arithmetic is exact arithmetic modulo the group order

Model of the code: `Hand.Scalar.{add,subtract,multiply,square,invert,set,setUInt64,pow}` and the constants, over
the generated `FiatScalar.{add,sub,mul,square,toMontgomery,fromMontgomery}` and the generated 293-step chain
`ScalarChain.invert`. `sOk s` = limbs below 2^64 and value below n (the Fiat pre/postcondition); `sVal s ∈ ZMod n` is
the canonical value (`eval · R⁻¹`). Receiver/argument aliasing: the API passes `&s.S` as output and first input of
the Fiat function; the translator refuses any read of an input after the first output write, so the pure-function
reading below covers `s.Add(s)`, `s.Multiply(s)`, `s.Subtract(s)` (instantiate `t := s`).
-/
namespace C06
open Hand.Scalar Spec

abbrev Zn := ZMod N

/-- **Add / Subtract / Multiply / Square**: exact in `Z/nZ`, result canonical -/
theorem add_correct (s t : L4) (hs : sOk s) (ht : sOk t) :
    sOk (add s (some t)) ∧ sVal (add s (some t)) = sVal s + sVal t := s_add hs ht
theorem subtract_correct (s t : L4) (hs : sOk s) (ht : sOk t) :
    sOk (subtract s (some t)) ∧ sVal (subtract s (some t)) = sVal s - sVal t := s_sub hs ht
theorem multiply_correct (s t : L4) (hs : sOk s) (ht : sOk t) :
    sOk (multiply s (some t)) ∧ sVal (multiply s (some t)) = sVal s * sVal t := s_mul hs ht
theorem square_correct (s : L4) (hs : sOk s) :
    sOk (square s) ∧ sVal (square s) = sVal s * sVal s := s_square hs

/-- nil operands: `Add`/`Subtract` are no-ops, `Multiply` and `Set` give 0 -/
theorem add_nil (s : L4) : add s none = s := rfl
theorem subtract_nil (s : L4) : subtract s none = s := rfl
theorem multiply_nil (s : L4) : multiply s none = zero ∧ sVal zero = 0 := ⟨rfl, sVal_zero⟩
theorem set_nil (s : L4) : set s none = zero := rfl

/-- **Invert**: `s⁻¹` (so `s · s⁻¹ = 1` for every `s ≠ 0`), and `0 ↦ 0`; result canonical -/
theorem invert_correct (s : L4) (hs : sOk s) : sOk (invert s) ∧ sVal (invert s) = (sVal s)⁻¹ :=
  ScalarOps.invert_correct s hs

/-- **`Invert` regenerated from `scalar.go` and `internal/scalar` on this run**: `Scalar.Invert` calls `scalar.Invert(&s.S, s.S)`
(the operand passed by value), which runs the regenerated addition chain on that copy; the chain's two operations are the
regenerated wrappers `(*scalar).Multiply` / `Square`, i.e. Fiat's `Mul` / `Square`. It never panics and inverts -/
theorem invert_regenerated (s : L4) (hs : sOk s) :
    ∃ r, GenScalarCodec.scalar_invert Hand.Fn.scalarOps s = some r ∧ sOk r ∧ sVal r = (sVal s)⁻¹ :=
  ⟨invert s, ScalarCodecTies.invert_tie s, invert_correct s hs⟩

theorem invert_chain_ops_regenerated (s t u : L4) :
    GenScalarBytes.scalar_multiply s t u = some (Hand.Fn.scalarOps.mul t u) ∧
    GenScalarBytes.scalar_square s t = some (Hand.Fn.scalarOps.square t) := ScalarCodecTies.chain_ops_tie s t u

/-- **`Pow` regenerated from `scalar.go` on this run** (nil test and `IsZero` in one condition, the `IsOne` shortcut, the three
`big.Int` built from `Order()` and the two encodings, `Exp`, `Bytes`, the left-padding branch `if l := 32 - len(bytes); l > 0`,
`Decode` and the panic on its error) never panics and is the model's `pow`; `math/big` is modelled (`SetBytes` = OS2IP,
`Exp` = modular power, `Bytes` = minimal big-endian bytes). `Set` and `Copy` likewise -/
theorem pow_regenerated (s : L4) (t : Option L4) :
    GenMisc.scalar_pow s t = some (pow s t) ∧ GenMisc.scalar_set s t = some (set s t) ∧ GenMisc.scalar_copy s = some s :=
  ⟨MiscTies.pow_tie s t, MiscTies.set_tie s t, MiscTies.copy_tie s⟩

theorem invert_mul_cancel (s : L4) (hs : sOk s) (h : sVal s ≠ 0) : sVal s * sVal (invert s) = 1 := by
  rw [(invert_correct s hs).2]; exact mul_inv_cancel₀ h
theorem invert_zero : sVal (invert zero) = 0 := by
  rw [(invert_correct zero sZero_ok).2]
  have : sVal zero = 0 := sVal_zero
  rw [this, inv_zero]

/-- **SetUInt64**: the integer `i`, for every 64-bit `i` -/
theorem setUInt64_correct (i : Nat) (hi : i < W) : sOk (setUInt64 i) ∧ sVal (setUInt64 i) = (i : Zn) :=
  ScalarOps.setUInt64_correct i hi

/-- **Zero, One, MinusOne** -/
theorem zero_correct : sOk zero ∧ sVal zero = 0 := ⟨sZero_ok, sVal_zero⟩
theorem one_correct : sOk one ∧ sVal one = 1 := ⟨sOne_ok, sVal_one⟩
theorem minusOne_correct : sOk minusOne ∧ sVal minusOne = -1 := by
  refine ⟨⟨by decide, by decide⟩, ?_⟩
  have h := sVal_of_mont minusOne (N - 1) (by decide)
  rw [h, Nat.cast_sub (by decide), ZMod.natCast_self]
  simp

/-- **Pow** (`math/big` is modelled as exact modular powering, see the trusted base): `t = nil` or `t = 0` give 1,
`t = 1` gives `s`; otherwise the result is the decoding of `(value of s)^(value of t) mod n`, i.e. `s^t`. -/
theorem pow_nil (s : L4) : pow s none = one := rfl
theorem pow_zero (s t : L4) (ht : sOk t) (h0 : sVal t = 0) : pow s (some t) = one :=
  ScalarOps.pow_zero s t ht h0
theorem pow_general (s t : L4) (hs : sOk s) (ht : sOk t) (h0 : sVal t ≠ 0) (h1 : sVal t ≠ 1) :
    sOk (pow s (some t)) ∧ sVal (pow s (some t)) = sVal s ^ (sVal t).val :=
  ScalarOps.pow_general s t hs ht h0 h1

/-- the methods of `scalar.go` are regenerated from their Go bodies on every run (nil guard as an `Option` argument, then the
calls into `internal/scalar`); the model the theorems above are about *is* the regenerated method, nil arguments included -/
theorem api_methods_tied (s : L4) (t : Option L4) (i : Nat) :
    GenScalarAPI.add s t = add s t ∧ GenScalarAPI.subtract s t = subtract s t ∧ GenScalarAPI.multiply s t = multiply s t ∧
    GenScalarAPI.square s = square s ∧ GenScalarAPI.set s t = set s t ∧ GenScalarAPI.setUInt64 i = setUInt64 i ∧
    GenScalarAPI.zero = zero ∧ GenScalarAPI.one = one ∧ GenScalarAPI.minusOne = minusOne ∧
    GenScalarAPI.isZero s = isZero s ∧ GenScalarAPI.isOne s = isOne s :=
  ⟨ScalarApiTies.add_tie s t, ScalarApiTies.subtract_tie s t, ScalarApiTies.multiply_tie s t, rfl, ScalarApiTies.set_tie s t, rfl, rfl, rfl, rfl,
   rfl, rfl⟩

example : sOk minusOne ∧ sOk one := ⟨minusOne_correct.1, sOne_ok⟩

end C06
