import Secp.Proofs.RandomSpec
import Secp.Proofs.RandomTies
/-!
# C18 — random scalars are non-zero, canonical and correct for every entropy stream

Model of the code: `Hand.Scalar.random s` — the loop `for IsFEZero(&m) == 1 { io.ReadFull(rand.Reader, buf);
Reduce; ToMontgomery }` over the generated `Reduce`, `ToMontgomery`, `IsFEZero`. The randomness source is modelled as
the byte string `s` it delivers before failing; `io.ReadFull` assembles 32 bytes whatever the chunking of the reads
and fails (→ `panic`, modelled as `none`) when the source ends first (the `io.ReadFull` contract: trusted). The list is
the fuel of the loop: the real loop terminates exactly when the stream contains an acceptable block or fails, as the
property says. Tied to the code by the family `RND`: `crypto/rand.Reader` is replaced by a scripted reader.
`blockVal s j` is the big-endian value of the `j`-th 32-byte block.
-/
namespace C18
open Spec

/-- **C18** -/
theorem random_spec (s : Bytes) (hb : IsBytes s) :
    (∀ m c, Hand.Scalar.random s = (some m, c) →
      ∃ k, 32 * (k + 1) ≤ s.length ∧ c = 32 * (k + 1) ∧ (∀ j, j < k → blockVal s j % N = 0) ∧
        blockVal s k % N ≠ 0 ∧ sOk m ∧ (sVal m).val = blockVal s k % N ∧ 1 ≤ (sVal m).val ∧ (sVal m).val ≤ N - 1) ∧
    (∀ c, Hand.Scalar.random s = (none, c) → ∀ j, 32 * (j + 1) ≤ s.length → blockVal s j % N = 0) :=
  _root_.random_spec s hb

/-- **C18 for the `Random` regenerated from `scalar.go` on this run** (`GenMisc.scalar_random`: the loop `for IsFEZero(&m) == 1`,
`io.ReadFull(rand.Reader, buf[:])` with the panic on its error, `BytesToNonMontgomery`, `Reduce`, `ToMontgomery`, the final
copy into the receiver). The entropy source is the stream `rng` of bytes it will deliver; `fuel` bounds the iterations of the
loop, whose number the translator does not know. For every stream and every sufficient bound the regenerated function
returns what the model returns — scalar and unread rest of the stream — and panics exactly when the model does; so the
result is the first 32-byte block that is non-zero modulo `n`, reduced, canonical and never zero -/
theorem random_regenerated (s0 : L4) (rng : Bytes) (hb : IsBytes rng) (fuel : Nat) (hf : rng.length / 32 + 2 ≤ fuel) :
    (∀ m rest, GenMisc.scalar_random fuel s0 rng = some (m, rest) →
      ∃ k, 32 * (k + 1) ≤ rng.length ∧ rest = rng.drop (32 * (k + 1)) ∧ (∀ j, j < k → blockVal rng j % N = 0) ∧
        sOk m ∧ (sVal m).val = blockVal rng k % N ∧ 1 ≤ (sVal m).val ∧ (sVal m).val ≤ N - 1) ∧
    (GenMisc.scalar_random fuel s0 rng = none → ∀ j, 32 * (j + 1) ≤ rng.length → blockVal rng j % N = 0) := by
  rw [RandomTie.random_tie s0 rng fuel hf]
  obtain ⟨hsome, hnone⟩ := _root_.random_spec rng hb
  cases hr : Hand.Scalar.random rng with
  | mk o c =>
    cases o with
    | none =>
      refine ⟨fun m rest h => by simp at h, fun _ => hnone c hr⟩
    | some m =>
      refine ⟨fun m' rest h => ?_, fun h => by simp at h⟩
      simp only [Option.some.injEq, Prod.mk.injEq] at h
      obtain ⟨rfl, rfl⟩ := h
      obtain ⟨k, h1, h2, h3, _, h5, h6, h7, h8⟩ := hsome m c hr
      exact ⟨k, h1, by rw [h2], h3, h5, h6, h7, h8⟩

/-- one conditional subtraction suffices: `2^256 < 2n`, so `Reduce` maps every 32-byte block to its residue mod n -/
theorem one_subtraction_suffices : 2 ^ 256 < 2 * N := by decide

/-- a failing source can only produce a panic, never a weak value: whenever a value is returned it is a block of
the stream, reduced, and non-zero -/
theorem never_zero (s : Bytes) (hb : IsBytes s) (m : L4) (c : Nat) (h : Hand.Scalar.random s = (some m, c)) :
    sVal m ≠ 0 := by
  obtain ⟨k, _, _, _, _, _, _, h1, _⟩ := (_root_.random_spec s hb).1 m c h
  intro h0
  rw [h0] at h1
  simp at h1

-- non-vacuity: a stream whose first block is n (skipped) and whose second block is 5 (accepted)
example : IsBytes (i2osp N 32 ++ i2osp 5 32) := by
  intro x hx
  rcases List.mem_append.mp hx with h | h <;> exact i2osp_isBytes _ _ x h

end C18
