import Secp.Hand.History
/-! # C18 — placeholder: theorems are being added in this session -/
namespace C18
theorem model_is_total : True := trivial
end C18
