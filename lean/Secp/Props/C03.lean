import Secp.Proofs.DecodeRT
import Secp.Proofs.DecodeTies
import Secp.Proofs.ElementCodecTies
import Secp.Proofs.BytesTiesP
/-!
# C03 — element decoders accept exactly the canonical encodings of curve points

Model of the code: `Hand.ElementL.{decode,decodeCompressed,decodeUncompressed,decodeCoordinates,decodeHex}` — the
length switch, prefix checks, receiver written only on success (hand-written glue, tied by the families `DEC.*`) — over
the *generated* `Reduce`, `ToMontgomery`, `Secp256Polynomial`, `SqrtRatio` (with the generated addition chain
`x^((p-3)/4)`), `Equals`, `Sgn0`/`FromMontgomery`, `CMove`. Specification: `Spec.decode` (written from the property
text) on byte strings; `affPt` is the abstract affine point of a projective triple; `PtValid` = a valid group element.
Byte strings are lists of naturals below 256 (`IsBytes`). A model function is total: "never panics" concerns the Go
slicing and array conversions, which the length switch guards and the correspondence exercises on all lengths 0..70.
-/
namespace C03
open Spec

/-- **Decode**: accepted ⇔ the specification accepts; then the receiver holds a valid representation of precisely
that point; otherwise the error is `invalidPointEncoding` and the receiver is returned unchanged. -/
theorem decode_spec (e : Pt L4) (data : Bytes) (hb : IsBytes data) :
    (Spec.decode data = none → Hand.ElementL.decode e data = (some .invalidPointEncoding, e)) ∧
    (∀ pt, Spec.decode data = some pt →
        (Hand.ElementL.decode e data).1 = none ∧ PtValid limbLawful (Hand.ElementL.decode e data).2 ∧
        affPt (Hand.ElementL.decode e data).2 = pt) := _root_.decode_spec e data hb

/-- **C03 for the `Decode` regenerated from `element.go` on this run**: it reports no error exactly when the specification
accepts the string; then the receiver holds a valid representation of that point; otherwise the error is the package's
`errParamInvalidPointEncoding` and the receiver is unchanged -/
theorem decode_regenerated (e : Pt L4) (data : Bytes) (hb : IsBytes data) :
    (Spec.decode data = none →
      GenDecode.decode DecodeTies.limbBytes Hand.limbOps e data = (some "errParamInvalidPointEncoding", e)) ∧
    (∀ pt, Spec.decode data = some pt →
      (GenDecode.decode DecodeTies.limbBytes Hand.limbOps e data).1 = none ∧
      PtValid limbLawful (GenDecode.decode DecodeTies.limbBytes Hand.limbOps e data).2 ∧
      affPt (GenDecode.decode DecodeTies.limbBytes Hand.limbOps e data).2 = pt) := by
  rw [DecodeTies.decode_tie]
  obtain ⟨hrej, hacc⟩ := _root_.decode_spec e data hb
  constructor
  · intro h; rw [hrej h]; rfl
  · intro pt h
    obtain ⟨h1, h2, h3⟩ := hacc pt h
    refine ⟨?_, h2, h3⟩
    show (Hand.ElementL.decode e data).1.map DecodeTies.errName = none
    rw [h1]; rfl

/-- acceptance is an *iff* -/
theorem decode_accepts_iff (e : Pt L4) (data : Bytes) (hb : IsBytes data) :
    (Hand.ElementL.decode e data).1 = none ↔ ∃ pt, Spec.decode data = some pt := by
  obtain ⟨hrej, hacc⟩ := _root_.decode_spec e data hb
  constructor
  · intro h
    cases hs : Spec.decode data with
    | none => rw [hrej hs] at h; exact absurd h (by simp)
    | some pt => exact ⟨pt, rfl⟩
  · rintro ⟨pt, hpt⟩; exact (hacc pt hpt).1

/-- the form-specific decoders accept exactly their own form -/
theorem decodeCompressed_spec (e : Pt L4) (pre : Nat) (rest : Bytes) (hb : IsBytes rest) (hl : rest.length = 32) :
    (Spec.decodeCompressed (pre :: rest) = none →
        Hand.ElementL.decodeCompressed e (pre :: rest) = (some .invalidPointEncoding, e)) ∧
    (∀ pt, Spec.decodeCompressed (pre :: rest) = some pt →
        (Hand.ElementL.decodeCompressed e (pre :: rest)).1 = none ∧
        PtValid limbLawful (Hand.ElementL.decodeCompressed e (pre :: rest)).2 ∧
        affPt (Hand.ElementL.decodeCompressed e (pre :: rest)).2 = pt) :=
  _root_.decodeCompressed_spec e pre rest hb hl

theorem decodeCompressed_wrong_length (e : Pt L4) (data : Bytes) (h : data.length ≠ 33) :
    Hand.ElementL.decodeCompressed e data = (some .invalidPointEncoding, e) := by
  unfold Hand.ElementL.decodeCompressed; rw [if_pos h]

theorem decodeUncompressed_spec (e : Pt L4) (pre : Nat) (rest : Bytes) (hb : IsBytes rest) (hl : rest.length = 64) :
    (Spec.decodeUncompressed (pre :: rest) = none →
        Hand.ElementL.decodeUncompressed e (pre :: rest) = (some .invalidPointEncoding, e)) ∧
    (∀ pt, Spec.decodeUncompressed (pre :: rest) = some pt →
        (Hand.ElementL.decodeUncompressed e (pre :: rest)).1 = none ∧
        PtValid limbLawful (Hand.ElementL.decodeUncompressed e (pre :: rest)).2 ∧
        affPt (Hand.ElementL.decodeUncompressed e (pre :: rest)).2 = pt) :=
  _root_.decodeUncompressed_spec e pre rest hb hl

theorem decodeUncompressed_wrong_length (e : Pt L4) (data : Bytes) (h : data.length ≠ 65) :
    Hand.ElementL.decodeUncompressed e data = (some .invalidPointEncoding, e) := by
  unfold Hand.ElementL.decodeUncompressed; rw [if_pos h]

theorem decodeCoordinates_spec (e : Pt L4) (xb yb : Bytes) (hx : IsBytes xb) (hy : IsBytes yb)
    (lx : xb.length = 32) (ly : yb.length = 32) :
    (Spec.decodeCoordinates xb yb = none →
        Hand.ElementL.decodeCoordinates e xb yb = (some .invalidPointEncoding, e)) ∧
    (∀ pt, Spec.decodeCoordinates xb yb = some pt →
        (Hand.ElementL.decodeCoordinates e xb yb).1 = none ∧
        PtValid limbLawful (Hand.ElementL.decodeCoordinates e xb yb).2 ∧
        affPt (Hand.ElementL.decodeCoordinates e xb yb).2 = pt) :=
  _root_.decodeCoordinates_spec e xb yb hx hy lx ly

/-- hex: a string that is not valid hex is reported as `hexError` and the receiver is unchanged; otherwise `Decode` -/
theorem decodeHex_spec (e : Pt L4) (h : String) :
    (Spec.ofHex h = none → Hand.ElementL.decodeHex e h = (some .hexError, e)) ∧
    (∀ b, Spec.ofHex h = some b → Hand.ElementL.decodeHex e h = Hand.ElementL.decode e b) := by
  unfold Hand.ElementL.decodeHex
  constructor
  · intro hn; rw [hn]
  · intro b hb; rw [hb]

/-- the decoders of `element.go`, regenerated from their Go bodies on every run (length and prefix tests, calls into the field,
every early return with the receiver as it is at that point, the `switch`, the tail calls), are the model the theorems above
are about: same acceptance, same error, same receiver afterwards, for every receiver and every byte string -/
theorem decoders_tied (e : Pt L4) (data x y : Bytes) :
    GenDecode.decode DecodeTies.limbBytes Hand.limbOps e data = DecodeTies.shape (Hand.ElementL.decode e data) ∧
    GenDecode.decodeCompressed DecodeTies.limbBytes Hand.limbOps e data = DecodeTies.shape (Hand.ElementL.decodeCompressed e data) ∧
    GenDecode.decodeUncompressed DecodeTies.limbBytes Hand.limbOps e data = DecodeTies.shape (Hand.ElementL.decodeUncompressed e data) ∧
    GenDecode.decodeCoordinates DecodeTies.limbBytes Hand.limbOps e x y = DecodeTies.shape (Hand.ElementL.decodeCoordinates e x y) :=
  ⟨DecodeTies.decode_tie e data, DecodeTies.decodeCompressed_tie e data, DecodeTies.decodeUncompressed_tie e data,
   DecodeTies.decodeCoordinates_tie e x y⟩

/-- the wrappers `DecodeHex` and `UnmarshalBinary`, regenerated on every run, go through the regenerated `Decode` and nothing
else; and the 32-byte parser the decoders are parameterised by is the `FromBytesWithReduce` regenerated from
`internal/field`, which never panics on a 32-byte string -/
theorem decode_wrappers_tied (e : Pt L4) (data : Bytes) (h : String) :
    GenElementCodec.element_unmarshalBinary DecodeTies.limbBytes Hand.limbOps e data =
      some (ElementCodecTies.swap (DecodeTies.shape (Hand.ElementL.decode e data))) ∧
    GenElementCodec.element_decodeHex DecodeTies.limbBytes Hand.limbOps e h =
      some (ElementCodecTies.swap (DecodeTies.shape (Hand.ElementL.decodeHex e h))) ∧
    (data.length = 32 → ∀ x : L4, GenFieldBytes.element_fromBytesWithReduce x data =
      some (DecodeTies.limbBytes.fromBytesWithReduce data)) :=
  ⟨ElementCodecTies.unmarshal_tie e data, ElementCodecTies.decodeHex_tie e h,
    fun hl x => BytesTies.fp_fromBytesWithReduce x data hl⟩

-- non-vacuity: the specification accepts the encoding of the base point, so the acceptance branch is inhabited
example : Spec.decode (Spec.encodeCompressed Spec.G) = some Spec.G :=
  spec_decode_compressed _ ⟨by decide, by decide, by
    rw [← Nat.cast_pow, ← Nat.cast_pow]
    have h7 : (7 : ZMod Spec.P) = ((7 : Nat) : ZMod Spec.P) := by simp
    rw [h7, ← Nat.cast_add, ZMod.natCast_eq_natCast_iff']
    decide⟩

end C03
