import Secp.Hand.History
/-! # C03 — placeholder: theorems are being added in this session -/
namespace C03
theorem model_is_total : True := trivial
end C03
