import Secp.Gen.Facts
/-!
# C17 — hashing functions work in any program that imports the package

Model of the Go linker and `crypto` registry (modelled, not verified; see DESIGN §8): a program is a set of
root packages; the packages linked into the binary are the import closure; `crypto.RegisterHash(h, …)` is
called from the `init` of the package implementing `h`, which runs iff that package is linked. `crypto.H.New()`
panics iff `H` is not registered. The premises are *facts extracted from the source on every run*
(`Facts.rootDeps` = `go list -deps .`, `Facts.registryHashes` = the `crypto.<ID>.New()` lookups in the package).
The correspondence is a minimal `main` that imports only this package, built and run on every check.
-/
namespace C17

/-- the package whose `init` registers a hash identifier -/
def implPkg : String → String
  | "SHA256" => "crypto/sha256" | "SHA224" => "crypto/sha256"
  | "SHA512" => "crypto/sha512" | "SHA384" => "crypto/sha512"
  | "SHA512_224" => "crypto/sha512" | "SHA512_256" => "crypto/sha512"
  | "SHA1" => "crypto/sha1" | "MD5" => "crypto/md5"
  | "SHA3_224" => "crypto/sha3" | "SHA3_256" => "crypto/sha3" | "SHA3_384" => "crypto/sha3" | "SHA3_512" => "crypto/sha3"
  | h => "unknown:" ++ h

def secp : String := "github.com/bytemare/secp256k1"

/-- `deps p` is the import closure of package `p` (including `p`). A program's linked set is the union over
its roots; we only need that it contains the closure of every root. -/
structure Program where
  roots : List String
  linked : List String
  closed : ∀ p ∈ roots, ∀ d ∈ (if p = secp then Facts.rootDeps else []), d ∈ linked

def registered (h : String) (prog : Program) : Prop := implPkg h ∈ prog.linked

/-- the extracted fact the theorem rests on: every hash looked up through the registry is implemented by a
package in the import closure of the root package -/
theorem impl_in_deps : ∀ h ∈ Facts.registryHashes, implPkg h ∈ Facts.rootDeps := by decide

/-- **C17**: in *every* program that imports the package — whatever else it imports or not — every hash the
package looks up through the registry is registered, so `HashToGroup`, `EncodeToGroup` and `HashToScalar`
never hit the "requested hash function is unavailable" panic. -/
theorem hashes_registered (prog : Program) (h : secp ∈ prog.roots) :
    ∀ hid ∈ Facts.registryHashes, registered hid prog := by
  intro hid hh
  have := prog.closed secp h (implPkg hid)
  simp only [if_true] at this
  exact this (impl_in_deps hid hh)

/-- the package asks nothing of a hash it gets from the registry beyond the `hash.Hash` interface (no type assertion, no
extra method): whichever correct implementation another package of the program registered under the identifier works -/
theorem hash_interface_only : Facts.hashExtraRequirements = [] := by decide

-- non-vacuity: the minimal program (roots = just the package) satisfies the hypothesis
example : ∃ prog : Program, secp ∈ prog.roots ∧ prog.roots = [secp] :=
  ⟨⟨[secp], Facts.rootDeps, by intro p hp d hd; simp at hp; subst hp; simpa using hd⟩, by simp, rfl⟩

end C17
