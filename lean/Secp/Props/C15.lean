import Secp.Proofs.SlicesFrame
import Secp.Proofs.SlicesFun
import Secp.Gen.Facts
import Secp.Proofs.XmdTies
import Secp.Gen.GroupAPI
/-!
# C15 — API calls never write to caller-owned memory and return fresh buffers

Three layers. (1) A *static write analysis* of the Go source, re-run by `go2lean` on every check: for every exported
function taking a byte slice it follows the slice (and every alias obtained by re-slicing, `slices.Grow`, `append`
results, module-function returns) and records each statement form that can write through it — `s[i] = v`,
`copy(s, …)`, `append(s, …)`, `binary.BigEndian.Put*(s, …)`, `subtle.ConstantTimeCopy(_, s, _)`, `h.Sum(s)`, or passing it to a
callee that does, or to an unknown external function. The result is the Lean constant `Facts.sliceParamWrites`; the
theorem below says it is empty. On the pinned tree it listed `vetDSTXMD xmd.go:116 append-onto` for the three hashing
functions (defect F5, commit 983d598). (2) A slice/heap *model* with Go's `append`/`make` semantics for the one function
that builds a new slice out of a caller's slice, `vetDSTXMD`, with the frame and freshness theorems for every layout
`(offset, len, cap)`; tied to the code by the family `MEM.vet` (backing array before/after, returned bytes, aliasing).
(3) At run time every slice-taking API function is called on slices carved out of sentinel-filled arrays in 7
layouts, returned buffers are mutated and re-read, pointer arguments compared (`mem` mode of the harness).
The Go allocator and escape analysis are not modelled: "fresh" means a buffer the model allocated in this call.
-/
namespace C15
open Hand.Slices

/-- no exported function taking a byte slice — nor anything it calls — contains a statement that can write through it -/
theorem no_write_through_slice_parameters : Facts.sliceParamWrites = [] := by decide

/-- the functions this covers (so the list above is not empty because nothing was analysed) -/
theorem analysed_functions : Facts.sliceAPIs =
    ["(*secp.Element).Decode", "(*secp.Element).DecodeCompressed", "(*secp.Element).DecodeUncompressed",
     "(*secp.Element).UnmarshalBinary", "(*secp.Scalar).Decode", "(*secp.Scalar).UnmarshalBinary",
     "secp.EncodeToGroup", "secp.HashToGroup", "secp.HashToScalar"] := by decide

/-- **frame and freshness of `vetDSTXMD`** in the slice model: no buffer that existed before the call changes — the
caller's DST backing array is untouched over its entire length, spare capacity included, for every layout — and the
returned DST′ lives in a buffer allocated by the call. -/
theorem vetDST_frame (H : Spec.Bytes → Spec.Bytes) (h : Heap) (dst : Slice) :
    (∀ i, i < h.length → (vetDST H h dst).1.getD i [] = h.getD i []) ∧ h.length ≤ (vetDST H h dst).2.buf :=
  Hand.Slices.vetDST_frame H h dst

/-- the heap model and the pure model of `vetDSTXMD` (the one C08/C09 are proved about) are the same function of the
argument's bytes, for every heap and every well-formed layout: the frame theorem is about the function the hashing
theorems use, not about a look-alike -/
theorem vetDST_functional (H : Spec.Bytes → Spec.Bytes) (h : Heap) (dst : Slice) (w : WF h dst) :
    read (vetDST H h dst).1 (vetDST H h dst).2 = Hand.Group.vetDSTXMD H (read h dst) := vetDST_fun H h dst w

/-- scalar and element arguments keep their value: the cell analysis shows the argument cells are never rebound -/
theorem pointer_arguments_untouched :
    ("Curve.addProjectiveComplete_eu_v", ["v"]) ∈ Facts.untouched ∧ ("Curve.isEqual", ["e", "u"]) ∈ Facts.untouched ∧
    ("Curve.affine", ["e"]) ∈ Facts.untouched := by decide

/-- **no API function writes through an argument**: in the footprint table re-derived from the source on every run (may-write
analysis over the three packages, DESIGN §3.2) the only parameter through which any exported function can write caller
memory is its receiver (or the `out` parameter of the two exported `f(out, in)` helpers) — in particular never a byte
slice, never an `*Element`/`*Scalar` argument -/
theorem api_arguments_never_written :
    ∀ e ∈ Facts.apiFootprints, ∀ p ∈ e.2.2, p.2.2 = true →
      p.1 = 0 ∧ (e.2.1 = true ∨ e.1 = "secp.Secp256Polynomial" ∨ e.1 = "secp.IsogenySecp256k13iso") := by decide

/-- **the value model of `xmd.go` is sound for the caller's memory**: while regenerating the expander `go2lean` follows every
byte slice through its alias classes (header comment of `go2lean/bytesmode.go`) and records each function that overwrites or
appends into the memory of a slice parameter. Every function of the expander was translated, the only function that writes a
parameter's bytes is the internal `xorSlices` (into `bi`, which `xmd` allocates), nothing appends into a parameter's backing
array, and no returned slice shares memory with a parameter of `expandXMD`, `vetDSTXMD` or `xmd`; the same holds for the
regenerated `HashToScalar`, `HashToGroup`, `EncodeToGroup`, which hand `input` and `dst` to the expander and nothing else -/
theorem expander_leaves_arguments_alone :
    GenXmd.notTranslated = [] ∧ GenXmd.callerMemoryAppends = [] ∧
    (∀ p ∈ GenXmd.callerMemoryWrites ++ GenXmd.resultShares, p.1 = "xorSlices") ∧
    GenGroup.notTranslated = [] ∧ GenGroup.callerMemoryWrites = [] ∧ GenGroup.callerMemoryAppends = [] := by decide

/-- the regenerated `vetDSTXMD` computes the same DST′ as the model the frame theorem and the hashing theorems are about -/
theorem vetDST_regenerated (H : Spec.Bytes → Spec.Bytes) (h dst : Spec.Bytes) :
    (GenXmd.vetDSTXMD H h dst).map Prod.snd = some (Hand.Group.vetDSTXMD H dst) := XmdTies.vetDSTXMD_eq H h dst

-- non-vacuity: a DST of length 2 inside a 6-byte array with spare capacity 3
example : (vetDST (fun _ => List.replicate 32 0) [[9, 1, 2, 7, 7, 7]] ⟨0, 1, 2, 5⟩).1.getD 0 [] = [9, 1, 2, 7, 7, 7] := by decide
example : WF [[9, 1, 2, 7, 7, 7]] ⟨0, 1, 2, 5⟩ := by unfold WF; decide

end C15
