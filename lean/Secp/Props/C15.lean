import Secp.Hand.History
/-! # C15 — placeholder: theorems are being added in this session -/
namespace C15
theorem model_is_total : True := trivial
end C15
