import Secp.Driver.Util
/-!
# One operation line in, one output line out

Keys without prefix are the *model* (generated code + hand glue at the limb level) and
must equal the implementation's output under the same key. Keys `s_<k>` are the
*specification* value of observable `<k>` and are only printed when the inputs meet the
property's well-formedness predicate (canonical limbs, on-curve points). `chk=0` means
the model's output fails a specification predicate that has no unique value.
-/
namespace Driver
open Spec Hand

def errP : Option Hand.ElementL.Err → String
  | none => "ok" | some .invalidPointEncoding => "invalidPointEncoding" | some .hexError => "hexError"
def errS : Option Hand.Scalar.Err → String
  | none => "ok" | some .nilScalar => "nilScalar" | some .scalarLength => "scalarLength"
  | some .scalarTooBig => "scalarTooBig" | some .hexError => "hexError"

def b2s (b : Bool) : String := if b then "1" else "0"
def FL := Hand.limbOps

/-- specification result for a field op given canonical Montgomery inputs, as canonical bytes -/
def fpSpec1 (f : Nat → Nat) (a : L4) : List String :=
  if canonP a then [kv "s_v" (natHex (f (fromMontP a)) 32)] else []
def fpSpec2 (f : Nat → Nat → Nat) (a b : L4) : List String :=
  if canonP a ∧ canonP b then [kv "s_v" (natHex (f (fromMontP a) (fromMontP b)) 32)] else []
def fnSpec1 (f : Nat → Nat) (a : L4) : List String :=
  if canonN a then [kv "s_v" (natHex (f (fromMontN a)) 32)] else []
def fnSpec2 (f : Nat → Nat → Nat) (a b : L4) : List String :=
  if canonN a ∧ canonN b then [kv "s_v" (natHex (f (fromMontN a) (fromMontN b)) 32)] else []

def rv (r : L4) : List String := [kv "r" (showL4 r), kv "v" (showBytes (Hand.Fp.bytes r))]
def rvN (r : L4) : List String := [kv "r" (showL4 r), kv "v" (showBytes (Hand.Scalar.encode r))]

def fieldOp (op : String) (a : List String) : Option (List String) :=
  match op, a with
  | "F.add", [x, y] => let x := parseL4 x; let y := parseL4 y; some (rv (FL.add x y) ++ fpSpec2 fadd x y)
  | "F.sub", [x, y] => let x := parseL4 x; let y := parseL4 y; some (rv (FL.sub x y) ++ fpSpec2 fsub x y)
  | "F.mul", [x, y] => let x := parseL4 x; let y := parseL4 y; some (rv (FL.mul x y) ++ fpSpec2 fmul x y)
  | "F.sq", [x] => let x := parseL4 x; some (rv (FL.square x) ++ fpSpec1 (fun v => fmul v v) x)
  | "F.neg", [x] => let x := parseL4 x; some (rv (FL.neg x) ++ fpSpec1 fneg x)
  | "F.inv", [x] => let x := parseL4 x; some (rv (FieldChains.invert FL x) ++ fpSpec1 finv x)
  | "F.exp", [x] => let x := parseL4 x
      some (rv (FieldChains.expPMin3Div4 FL x) ++ fpSpec1 (fun v => powMod v ((P - 3) / 4) P) x)
  | "F.sqrt", [u, v] =>
      let u := parseL4 u; let v := parseL4 v
      let r := FieldChains.sqrtRatio FL u v
      let chk :=
        if canonP u ∧ canonP v ∧ fromMontP v ≠ 0 then
          let uu := fromMontP u; let vv := fromMontP v; let y := fromMontP r.1
          let q := fdiv uu vv
          let sq := isSquare q
          [kv "chk" (b2s (canonP r.1 ∧ r.2 = (if sq then 1 else 0) ∧
            fmul y y = (if sq then q else fmul Rfc9380.Z q))),
           kv "s_f" (if sq then "1" else "0"), kv "s_sq" (natHex (if sq then q else fmul Rfc9380.Z q) 32)]
        else []
      some (rv r.1 ++ [kv "f" (toString r.2), kv "sq" (natHex (fmul (fromMontP r.1) (fromMontP r.1)) 32)] ++ chk)
  | "F.sgn", [x] => let x := parseL4 x
      some ([kv "r" (toString (FL.sgn0 x))] ++ (if canonP x then [kv "s_r" (toString (fromMontP x % 2))] else []))
  | "F.iszero", [x] => let x := parseL4 x
      some ([kv "r" (toString (FL.isZero x))] ++ (if canonP x then [kv "s_r" (b2s (fromMontP x = 0))] else []))
  | "F.eq", [x, y] => let x := parseL4 x; let y := parseL4 y
      some ([kv "r" (toString (FL.equals x y))] ++
        (if canonP x ∧ canonP y then [kv "s_r" (b2s (fromMontP x = fromMontP y))] else []))
  | "F.cmov", [c, x, y] => let c := hexNat c; let x := parseL4 x; let y := parseL4 y
      some ([kv "r" (showL4 (FL.cmove c x y))] ++
        (if c ≤ 1 then [kv "s_r" (showL4 (if c = 0 then x else y))] else []))
  | "F.frombytes", [b] => let b := parseBytes b
      let r := Hand.Fp.fromBytesWithReduce b
      some (rv r.1 ++ [kv "f" (toString r.2), kv "s_f" (b2s (os2ip b < P)), kv "s_v" (natHex (os2ip b % P) 32)])
  | "F.bytes", [x] => let x := parseL4 x
      some ([kv "v" (showBytes (Hand.Fp.bytes x))] ++ (if canonP x then [kv "s_v" (natHex (fromMontP x) 32)] else []))
  | "F.h2f", [b] => let b := parseBytes b
      some (rv (Hand.Fp.hashToFieldElement b) ++ [kv "s_v" (natHex (os2ip b % P) 32)])
  | "F.tomont", [x] => let x := parseL4 x
      some ([kv "r" (showL4 (FiatField.toMontgomery x))] ++ (if canonP x then [kv "s_r" (showL4 (toMontP x.eval))] else []))
  | "F.frommont", [x] => let x := parseL4 x
      some ([kv "r" (showL4 (FiatField.fromMontgomery x))] ++ (if canonP x then [kv "s_r" (natHex (fromMontP x) 32)] else []))
  | _, _ => none

def nadd (a b : Nat) := (a + b) % N
def nsub (a b : Nat) := (a + N - b % N) % N
def nmul (a b : Nat) := (a * b) % N
def ninv (a : Nat) := powMod a (N - 2) N

def scalarFieldOp (op : String) (a : List String) : Option (List String) :=
  match op, a with
  | "S.add", [x, y] => let x := parseL4 x; let y := parseL4 y; some (rvN (FiatScalar.add x y) ++ fnSpec2 nadd x y)
  | "S.sub", [x, y] => let x := parseL4 x; let y := parseL4 y; some (rvN (FiatScalar.sub x y) ++ fnSpec2 nsub x y)
  | "S.mul", [x, y] => let x := parseL4 x; let y := parseL4 y; some (rvN (FiatScalar.mul x y) ++ fnSpec2 nmul x y)
  | "S.sq", [x] => let x := parseL4 x; some (rvN (FiatScalar.square x) ++ fnSpec1 (fun v => nmul v v) x)
  | "S.inv", [x] => let x := parseL4 x; some (rvN (Hand.Fn.invert x) ++ fnSpec1 ninv x)
  | "S.tomont", [x] => let x := parseL4 x
      some ([kv "r" (showL4 (FiatScalar.toMontgomery x))] ++ (if canonN x then [kv "s_r" (showL4 (toMontN x.eval))] else []))
  | "S.frommont", [x] => let x := parseL4 x
      some ([kv "r" (showL4 (FiatScalar.fromMontgomery x))] ++ (if canonN x then [kv "s_r" (natHex (fromMontN x) 32)] else []))
  | "S.reducebytes", [b] => let b := parseBytes b
      let r := Hand.Fn.reduceBytes b
      some (rvN r.1 ++ [kv "f" (toString r.2), kv "s_f" (b2s (os2ip b < N)), kv "s_v" (natHex (os2ip b % N) 32)])
  | "S.h2f", [b] => let b := parseBytes b
      some (rvN (Hand.Fn.hashToFieldElement b) ++ [kv "s_v" (natHex (os2ip b % N) 32)])
  | "S.eq", [x, y] => let x := parseL4 x; let y := parseL4 y
      some ([kv "r" (toString (FiatScalar.equal x y))] ++
        (if canonN x ∧ canonN y then [kv "s_r" (b2s (fromMontN x = fromMontN y))] else []))
  | "S.iszero", [x] => let x := parseL4 x
      some ([kv "r" (toString (FiatScalar.isFEZero x))] ++ (if canonN x then [kv "s_r" (b2s (fromMontN x = 0))] else []))
  | "S.cmov", [c, x, y] => let c := hexNat c; let x := parseL4 x; let y := parseL4 y
      some ([kv "r" (showL4 (FiatScalar.selectznz c x y))] ++
        (if c ≤ 1 then [kv "s_r" (showL4 (if c = 0 then x else y))] else []))
  | _, _ => none

open Hand.Scalar in
def scalarApiOp (op : String) (a : List String) : Option (List String) :=
  let sp1 (f : Nat → Nat) (x : L4) := fnSpec1 f x
  match op, a with
  | "SC.add", [s, t] => let s := parseL4 s; let t := parseOptL4 t
      some (rvN (add s t) ++ (match t with | none => sp1 id s | some t => fnSpec2 nadd s t))
  | "SC.sub", [s, t] => let s := parseL4 s; let t := parseOptL4 t
      some (rvN (subtract s t) ++ (match t with | none => sp1 id s | some t => fnSpec2 nsub s t))
  | "SC.mul", [s, t] => let s := parseL4 s; let t := parseOptL4 t
      some (rvN (multiply s t) ++ (match t with | none => sp1 (fun _ => 0) s | some t => fnSpec2 nmul s t))
  | "SC.addself", [s] => let s := parseL4 s; some (rvN (add s (some s)) ++ sp1 (fun v => nadd v v) s)
  | "SC.subself", [s] => let s := parseL4 s; some (rvN (subtract s (some s)) ++ sp1 (fun _ => 0) s)
  | "SC.mulself", [s] => let s := parseL4 s; some (rvN (multiply s (some s)) ++ sp1 (fun v => nmul v v) s)
  | "SC.sq", [s] => let s := parseL4 s; some (rvN (square s) ++ sp1 (fun v => nmul v v) s)
  | "SC.inv", [s] => let s := parseL4 s; some (rvN (invert s) ++ sp1 ninv s)
  | "SC.set", [s, t] => let s := parseL4 s; let t := parseOptL4 t
      some (rvN (set s t) ++ (match t with | none => [kv "s_v" (natHex 0 32)] | some t => sp1 id t))
  | "SC.pow", [s, t] => let s := parseL4 s; let t := parseOptL4 t
      some (rvN (pow s t) ++ (match t with
        | none => [kv "s_v" (natHex 1 32)]
        | some t => if canonN s ∧ canonN t then [kv "s_v" (natHex (powMod (fromMontN s) (fromMontN t) N) 32)] else []))
  | "SC.powself", [s] => let s := parseL4 s
      some (rvN (pow s (some s)) ++
        (if canonN s then [kv "s_v" (natHex (powMod (fromMontN s) (fromMontN s) N) 32)] else []))
  | "SC.setu64", [i] => let i := hexNat i; some (rvN (setUInt64 i) ++ [kv "s_v" (natHex (i % N) 32)])
  | "SC.zero", [] => some (rvN zero ++ [kv "s_v" (natHex 0 32)])
  | "SC.one", [] => some (rvN one ++ [kv "s_v" (natHex 1 32)])
  | "SC.minusone", [] => some (rvN minusOne ++ [kv "s_v" (natHex (N - 1) 32)])
  | "SC.eq", [s, t] => let s := parseL4 s; let t := parseOptL4 t
      some ([kv "r" (toString (equal s t))] ++ (match t with
        | none => [kv "s_r" "0"]
        | some t => if canonN s ∧ canonN t then [kv "s_r" (b2s (fromMontN s = fromMontN t))] else []))
  | "SC.iszero", [s] => let s := parseL4 s
      some ([kv "r" (b2s (isZero s))] ++ (if canonN s then [kv "s_r" (b2s (fromMontN s = 0))] else []))
  | "SC.isone", [s] => let s := parseL4 s
      some ([kv "r" (b2s (isOne s))] ++ (if canonN s then [kv "s_r" (b2s (fromMontN s = 1))] else []))
  | "SC.leq", [s, t] => let s := parseL4 s; let t := parseL4 t
      some ([kv "r" (toString (lessOrEqual s t))] ++
        (if canonN s ∧ canonN t then [kv "s_r" (b2s (fromMontN s ≤ fromMontN t))] else []))
  | "SC.csel", [r, c, u, v] =>
      let r := parseL4 r; let c := hexNat c; let u := parseOptL4 u; let v := parseOptL4 v
      let o := cselect r c u v
      let sp := match u, v with
        | some u, some v => [kv "s_e" "ok", kv "s_r" (showL4 (if c = 0 then u else v))]
        | _, _ => [kv "s_e" "nilScalar", kv "s_r" (showL4 r)]
      some ([kv "e" (errS o.1), kv "r" (showL4 o.2)] ++ sp)
  | "SC.bits", [s] => let s := parseL4 s
      let enc (bs : List Nat) := natHex (((List.range 256).zip bs).foldl (fun acc (i, b) => acc + b * 2^i) 0) 32
      let bs := bits s
      some ([kv "n" (toString bs.length), kv "b" (enc bs), kv "m" (toString (bs.foldl max 0))] ++
        (if canonN s then [kv "s_n" "256", kv "s_b" (natHex (fromMontN s) 32), kv "s_m" (if fromMontN s = 0 then "0" else "1")] else []))
  | "SC.enc", [s] => let s := parseL4 s
      let e := encode s
      some ([kv "v" (showBytes e), kv "h" (toHex e), kv "m" (showBytes e)] ++
        (if canonN s then [kv "s_v" (natHex (fromMontN s) 32), kv "s_h" (natHex (fromMontN s) 32),
                           kv "s_m" (natHex (fromMontN s) 32)] else []))
  | "SC.unmarshal", [r, b] => let r := parseL4 r; let b := parseBytes b
      let o := decode r b
      let sp : List String :=
        if b.length = 0 then [kv "s_e" "nilScalar"]
        else if b.length ≠ 32 then [kv "s_e" "scalarLength"]
        else if os2ip b < N then [kv "s_e" "ok", kv "s_v" (natHex (os2ip b) 32)]
        else [kv "s_e" "scalarTooBig"]
      some ([kv "e" (errS o.1)] ++ rvN o.2 ++ sp)
  | "SC.dec", [r, b] => let r := parseL4 r; let b := parseBytes b
      let o := decode r b
      let sp : List String :=
        if b.length = 0 then [kv "s_e" "nilScalar"]
        else if b.length ≠ 32 then [kv "s_e" "scalarLength"]
        else if os2ip b < N then [kv "s_e" "ok", kv "s_v" (natHex (os2ip b) 32)]
        else [kv "s_e" "scalarTooBig"]
      some ([kv "e" (errS o.1)] ++ rvN o.2 ++ sp)
  | "SC.dechex", [r, h] => let r := parseL4 r
      let hs := String.mk ((parseBytes h).map Char.ofNat)
      let o := decodeHex r hs
      let sp : List String := match ofHex hs with
        | none => [kv "s_e" "hexError"]
        | some b =>
          if b.length = 0 then [kv "s_e" "nilScalar"]
          else if b.length ≠ 32 then [kv "s_e" "scalarLength"]
          else if os2ip b < N then [kv "s_e" "ok", kv "s_v" (natHex (os2ip b) 32)]
          else [kv "s_e" "scalarTooBig"]
      some ([kv "e" (errS o.1)] ++ rvN o.2 ++ sp)
  | _, _ => none

end Driver
