import Secp.Driver.Ops2
import Secp.Hand.History
/-! Line-protocol driver: `secpdriver < ops > out`. Core-only imports, so it links as a `lean_exe`. -/
namespace Driver
open Spec Hand.History

def parseOptIdx (s : String) : Option Nat := if s = "nil" then none else some s.toNat!

def parseHist (op : String) (a : List String) : Option Op :=
  match op, a with
  | "H.base", [i] => some (.base i.toNat!)
  | "H.identity", [i] => some (.identity i.toNat!)
  | "H.set", [i, j] => some (.set i.toNat! j.toNat!)
  | "H.copy", [i, j] => some (.copy i.toNat! j.toNat!)
  | "H.add", [i, j] => some (.add i.toNat! (parseOptIdx j))
  | "H.dbl", [i] => some (.dbl i.toNat!)
  | "H.neg", [i] => some (.neg i.toNat!)
  | "H.sub", [i, j] => some (.sub i.toNat! (parseOptIdx j))
  | "H.mul", [i, j] => some (.mul i.toNat! (parseOptIdx j))
  | "H.dec", [i, b] => some (.dec i.toNat! (parseBytes b))
  | "H.h2g", [i, m, d] => some (.h2g i.toNat! (parseBytes m) (parseBytes d))
  | "H.e2g", [i, m, d] => some (.e2g i.toNat! (parseBytes m) (parseBytes d))
  | "H.sadd", [i, j] => some (.sadd i.toNat! (parseOptIdx j))
  | "H.ssub", [i, j] => some (.ssub i.toNat! (parseOptIdx j))
  | "H.smul", [i, j] => some (.smul i.toNat! (parseOptIdx j))
  | "H.ssq", [i] => some (.ssq i.toNat!)
  | "H.sinv", [i] => some (.sinv i.toNat!)
  | "H.sset", [i, j] => some (.sset i.toNat! (parseOptIdx j))
  | "H.scopy", [i, j] => some (.scopy i.toNat! j.toNat!)
  | "H.ssetu", [i, v] => some (.ssetu i.toNat! (hexNat v))
  | "H.sdec", [i, b] => some (.sdec i.toNat! (parseBytes b))
  | "H.sone", [i] => some (.sone i.toNat!)
  | "H.szero", [i] => some (.szero i.toNat!)
  | "H.sminus", [i] => some (.sminus i.toNat!)
  | "H.h2s", [i, m, d] => some (.h2s i.toNat! (parseBytes m) (parseBytes d))
  | "H.spow", [i, j] => some (.spow i.toNat! (parseOptIdx j))
  | _, _ => none

def enumFrom {β : Type} (l : List β) : List (Nat × β) := (List.range l.length).zip l

/-- observation of every pool variable, concrete (raw + via the API model) and abstract -/
def observe (c : CState) (a : AState) (tag atag : String) : List String :=
  let ce := (enumFrom c.el).flatMap fun (k, p) =>
    [kv s!"R{k}" (showPt p), kv s!"E{k}" (showBytes (Hand.ElementL.encode p)),
     kv s!"I{k}" (b2s (Hand.Element.isIdentity FL p)),
     kv s!"Q{k}" (toString (Hand.Element.equal FL p (c.el.getD 0 idC)))]
  let cs := (enumFrom c.sc).flatMap fun (k, s) =>
    [kv s!"T{k}" (showL4 s), kv s!"S{k}" (showBytes (Hand.Scalar.encode s)), kv s!"Z{k}" (b2s (Hand.Scalar.isZero s))]
  let ae := (enumFrom a.el).flatMap fun (k, p) =>
    [kv s!"s_E{k}" (encS p), kv s!"s_I{k}" (b2s (p = none)), kv s!"s_Q{k}" (b2s (p = a.el.getD 0 none))]
  let as' := (enumFrom a.sc).flatMap fun (k, s) =>
    [kv s!"s_S{k}" (natHex s 32), kv s!"s_Z{k}" (b2s (s = 0))]
  -- `chk`: the full observation record of theorem C10.obs_refines (all pairwise Equal included) agrees
  [kv "t" (if tag = "" then "ok" else tag), kv "s_t" (if atag = "" then "ok" else atag),
   kv "chk" (b2s (cobs c = aobs a))] ++ ce ++ cs ++ ae ++ as'

structure St where
  c : CState
  a : AState

def stepLine (st : St) (line : String) : St × String :=
  match (line.trimAscii.toString.splitOn " ").filter (· ≠ "") with
  | [] => (st, "")
  | op :: args =>
    if op = "H.reset" then
      let st' : St := ⟨initC, initA⟩
      (st', join (observe st'.c st'.a "" ""))
    else if op.startsWith "H." then
      match parseHist op args with
      | none => (st, "bad-op")
      | some o =>
        let (c', t) := cstep sha st.c o
        let (a', t') := astep sha st.a o
        (⟨c', a'⟩, join (observe c' a' t t'))
    else
      let r := (fieldOp op args).orElse fun _ => (scalarFieldOp op args).orElse fun _ =>
        (scalarApiOp op args).orElse fun _ => (pointOp op args).orElse fun _ =>
        (decodeOp op args).orElse fun _ => xmdOp op args
      match r with
      | some kvs => (st, join kvs)
      | none => (st, "bad-op")

partial def loop (h : IO.FS.Stream) (out : IO.FS.Stream) (st : St) : IO Unit := do
  let line ← h.getLine
  if line.isEmpty then return ()
  let (st', o) := stepLine st line
  out.putStrLn o
  loop h out st'

end Driver

def main : IO Unit := do
  let stdin ← IO.getStdin
  let stdout ← IO.getStdout
  Driver.loop stdin stdout ⟨Hand.History.initC, Hand.History.initA⟩
  stdout.flush
