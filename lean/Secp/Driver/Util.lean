import Secp.Hand.Group
import Secp.Spec.Sec1
import Secp.Spec.Sha256
import Secp.Spec.Rfc9380
/-! Parsing/printing helpers and value-level specification glue for the driver. -/
namespace Driver
open Spec

def hexNat (s : String) : Nat := s.toList.foldl (fun acc c => acc * 16 + (hexVal c).getD 0) 0
def natHex (v len : Nat) : String := toHex (i2osp v len)
def parseBytes (s : String) : Bytes := if s = "-" then [] else (ofHex s).getD []
def showBytes (b : Bytes) : String := if b.isEmpty then "-" else toHex b

def parseL4 (s : String) : L4 := L4.ofNat (hexNat s)
def showL4 (a : L4) : String := natHex a.eval 32
def parseOptL4 (s : String) : Option L4 := if s = "nil" then none else some (parseL4 s)

def parsePt (x y z : String) : Pt L4 := ⟨parseL4 x, parseL4 y, parseL4 z⟩
def showPt (p : Pt L4) : String := showL4 p.x ++ "," ++ showL4 p.y ++ "," ++ showL4 p.z

def R : Nat := 2^256
def RinvP : Nat := powMod R (P - 2) P
def RinvN : Nat := powMod R (N - 2) N
/-- canonical value of Montgomery limbs (specification side: plain arithmetic) -/
def fromMontP (a : L4) : Nat := a.eval * RinvP % P
def fromMontN (a : L4) : Nat := a.eval * RinvN % N
def toMontP (v : Nat) : L4 := L4.ofNat (v * R % P)
def toMontN (v : Nat) : L4 := L4.ofNat (v * R % N)
def canonP (a : L4) : Bool := a.eval < P
def canonN (a : L4) : Bool := a.eval < N

/-- projective triple (canonical limbs, on curve, not all zero) to the affine specification point -/
def toAffine (p : Pt L4) : Option APoint :=
  if ¬ (canonP p.x ∧ canonP p.y ∧ canonP p.z) then none else
  let x := fromMontP p.x
  let y := fromMontP p.y
  let z := fromMontP p.z
  if z = 0 then
    if x = 0 ∧ y ≠ 0 then some none else none
  else
    let zi := finv z
    let ax := fmul x zi
    let ay := fmul y zi
    if onCurve ax ay then some (some (ax, ay)) else none

def kv (k v : String) : String := k ++ "=" ++ v
def join (xs : List String) : String := " ".intercalate xs

def sha : Bytes → Bytes := Sha256.hash

end Driver
