import Secp.Driver.Ops
import Secp.Gen.TraceFacts
import Secp.Hand.Slices
namespace Driver
open Spec Hand Hand.ElementL

def encS (p : APoint) : String := showBytes (encodeCompressed p)

/-- model outputs for a resulting point: raw coordinates and compressed encoding -/
def ptOut (r : Pt L4) : List String := [kv "r" (showPt r), kv "c" (showBytes (encode r))]

def spec1 (f : APoint → APoint) (p : Pt L4) : List String :=
  match toAffine p with | some a => [kv "s_c" (encS (f a))] | none => []
def spec2 (f : APoint → APoint → APoint) (p q : Pt L4) : List String :=
  match toAffine p, toAffine q with | some a, some b => [kv "s_c" (encS (f a b))] | _, _ => []

def pointOp (op : String) (a : List String) : Option (List String) :=
  match op, a with
  | "PT.add", [x1, y1, z1, x2, y2, z2] =>
      let p := parsePt x1 y1 z1; let q := parsePt x2 y2 z2
      some (ptOut (Element.add FL p (some q)) ++ [kv "a" (showPt q)] ++ spec2 padd p q)
  | "PT.viaid", [_, _, _, x2, y2, z2, _route] =>
      -- a variable that held a point and was then set to the identity through the API (`Identity()`, `Multiply(nil)`,
      -- `Decode(00)`): the model of all three routes is the canonical identity, whatever the variable held before
      let o := Element.identity FL; let q := parsePt x2 y2 z2
      let enc (r : Pt L4) := showBytes (encode r)
      some ([kv "c" (enc (Element.add FL q (some o))), kv "c1" (enc (Element.add FL o (some q))),
             kv "c2" (enc (Element.subtract FL q (some o))), kv "c3" (enc (Element.add FL (Element.double FL o) (some q))),
             kv "c4" (enc (Element.add FL (Element.negate FL o) (some q))),
             kv "c5" (b2s (Element.isIdentity FL (Element.add FL o (some o))))] ++
        (match toAffine q with
         | some a => [kv "s_c" (encS a), kv "s_c1" (encS a), kv "s_c2" (encS a), kv "s_c3" (encS a), kv "s_c4" (encS a), kv "s_c5" "1"]
         | none => []))
  | "PT.viaapi", [x1, y1, z1, x2, y2, z2, origin, how, k] =>
      -- an operand with a history (created as the base point or by decoding `Encode(P)`, then overwritten in place): in the
      -- model an element is its three coordinates, so only the value the history leaves counts
      let p := parsePt x1 y1 z1; let q := parsePt x2 y2 z2; let k := parseOptL4 k
      let v0 : Pt L4 := if origin = "base" then Hand.ElementL.base else
        (match decode (Element.identity FL) (encode p) with
         | (none, r) => r
         | (some _, _) => Hand.ElementL.base)
      let v : Pt L4 := match how with
        | "set" => q
        | "mul" => Element.multiply FL v0 k
        | "dbl" => Element.double FL v0
        | "add" => Element.add FL v0 (some q)
        | "neg" => Element.negate FL v0
        | "ident" => Element.identity FL
        | _ => v0
      let enc (r : Pt L4) := showBytes (encode r)
      some ([kv "c" (enc (Element.add FL p (some v))), kv "c1" (enc (Element.add FL v (some p))),
             kv "c2" (enc (Element.subtract FL p (some v))), kv "c3" (enc (Element.double FL v)), kv "c4" (enc v),
             kv "r" (toString (Element.equal FL p v))] ++
        (match toAffine p, toAffine v with
         | some a, some b => [kv "s_c" (encS (padd a b)), kv "s_c1" (encS (padd b a)), kv "s_c2" (encS (psub a b)),
                              kv "s_c3" (encS (padd b b)), kv "s_c4" (encS b), kv "s_r" (b2s (a = b))]
         | _, _ => []))
  | "PT.addnil", [x1, y1, z1] => let p := parsePt x1 y1 z1
      some (ptOut (Element.add FL p none) ++ spec1 id p)
  | "PT.addself", [x1, y1, z1] => let p := parsePt x1 y1 z1
      some (ptOut (Element.addSelf FL p) ++ spec1 (fun a => padd a a) p)
  | "PT.dbl", [x1, y1, z1] => let p := parsePt x1 y1 z1
      some (ptOut (Element.double FL p) ++ spec1 (fun a => padd a a) p)
  | "PT.neg", [x1, y1, z1] => let p := parsePt x1 y1 z1
      some (ptOut (Element.negate FL p) ++ spec1 pneg p)
  | "PT.sub", [x1, y1, z1, x2, y2, z2] =>
      let p := parsePt x1 y1 z1; let q := parsePt x2 y2 z2
      some (ptOut (Element.subtract FL p (some q)) ++ [kv "a" (showPt q)] ++ spec2 psub p q)
  | "PT.subnil", [x1, y1, z1] => let p := parsePt x1 y1 z1
      some (ptOut (Element.subtract FL p none) ++ spec1 id p)
  | "PT.subself", [x1, y1, z1] => let p := parsePt x1 y1 z1
      some (ptOut (Element.subtract FL p (some p)) ++ spec1 (fun _ => none) p)
  | "PT.eq", [x1, y1, z1, x2, y2, z2] =>
      let p := parsePt x1 y1 z1; let q := parsePt x2 y2 z2
      some ([kv "r" (toString (Element.equal FL p q)), kv "r2" (toString (Element.equal FL q p))] ++
        (match toAffine p, toAffine q with
         | some a, some b => [kv "s_r" (b2s (a = b)), kv "s_r2" (b2s (a = b))] | _, _ => []))
  | "PT.eqself", [x1, y1, z1] => let p := parsePt x1 y1 z1
      some ([kv "r" (toString (Curve.isEqual_same FL p))] ++
        (match toAffine p with | some _ => [kv "s_r" "1"] | none => []))
  | "PT.isid", [x1, y1, z1] => let p := parsePt x1 y1 z1
      some ([kv "r" (b2s (Element.isIdentity FL p))] ++
        (match toAffine p with | some a => [kv "s_r" (b2s (a = none))] | none => []))
  | "PT.enc", [x1, y1, z1] => let p := parsePt x1 y1 z1
      let c := encode p
      some ([kv "c" (showBytes c), kv "u" (showBytes (encodeUncompressed p)), kv "x" (showBytes (xCoordinate p)),
             kv "h" (toHex c), kv "m" (showBytes c)] ++
        (match toAffine p with
         | some a => [kv "s_c" (encS a), kv "s_u" (showBytes (Spec.encodeUncompressed a)),
                      kv "s_x" (showBytes ((encodeCompressed a).drop 1)), kv "s_h" (toHex (encodeCompressed a)),
                      kv "s_m" (encS a)]
         | none => []))
  | "PT.mul", [x1, y1, z1, k] => let p := parsePt x1 y1 z1; let k := parseOptL4 k
      some (ptOut (Element.multiply FL p k) ++
        (match toAffine p, k with
         | some a, none => [kv "s_c" (encS (match a with | _ => none))]
         | some a, some k => if canonN k then [kv "s_c" (encS (smul (fromMontN k) a))] else []
         | none, _ => []))
  | "PT.sswu", [u] => let u := parseL4 u
      let r := Curve.sswu FL u
      some ([kv "r" (showPt r), kv "ax" (showBytes (Hand.Fp.bytes r.x)), kv "ay" (showBytes (Hand.Fp.bytes r.y))] ++
        (if canonP u then
          let s := Rfc9380.mapToCurveSimpleSwu (fromMontP u)
          [kv "s_ax" (natHex s.1 32), kv "s_ay" (natHex s.2 32)] else []))
  | "PT.iso", [x1, y1, z1] => let p := parsePt x1 y1 z1
      let r := Curve.isogeny FL p
      some (ptOut r ++
        (if canonP p.x ∧ canonP p.y then
          let x := fromMontP p.x; let y := fromMontP p.y
          if fmul y y = Rfc9380.g' x then [kv "s_c" (encS (Rfc9380.isoMap x y))] else []
         else []))
  | "PT.map", [u] => let u := parseL4 u
      let r := Curve.isogeny FL (Curve.sswu FL u)
      some (ptOut r ++ [kv "u" (showBytes (encodeUncompressed r))] ++
        (if canonP u then
          let s := Rfc9380.mapToCurve (fromMontP u)
          [kv "s_c" (encS s), kv "s_u" (showBytes (Spec.encodeUncompressed s))] else []))
  | _, _ => none

/-- specification outcome of a decoder: error kind and encoding of the receiver afterwards -/
def decSpec (recv : Pt L4) (res : Option APoint) : List String :=
  match toAffine recv with
  | none => []
  | some r0 =>
    match res with
    | some pt => [kv "s_e" "ok", kv "s_c" (encS pt)]
    | none => [kv "s_e" "invalidPointEncoding", kv "s_c" (encS r0)]

def decOut (o : Option Err × Pt L4) : List String := [kv "e" (errP o.1)] ++ ptOut o.2

def decodeOp (op : String) (a : List String) : Option (List String) :=
  match op, a with
  | "DEC.any", [x, y, z, b] => let r := parsePt x y z; let b := parseBytes b
      some (decOut (decode r b) ++ decSpec r (Spec.decode b))
  | "DEC.unmarshal", [x, y, z, b] => let r := parsePt x y z; let b := parseBytes b
      some (decOut (decode r b) ++ decSpec r (Spec.decode b))
  | "DEC.comp", [x, y, z, b] => let r := parsePt x y z; let b := parseBytes b
      some (decOut (decodeCompressed r b) ++ decSpec r (if b.length = 33 then Spec.decodeCompressed b else none))
  | "DEC.uncomp", [x, y, z, b] => let r := parsePt x y z; let b := parseBytes b
      some (decOut (decodeUncompressed r b) ++ decSpec r (if b.length = 65 then Spec.decodeUncompressed b else none))
  | "DEC.coords", [x, y, z, xb, yb] => let r := parsePt x y z
      let xb := parseBytes xb; let yb := parseBytes yb
      some (decOut (decodeCoordinates r xb yb) ++ decSpec r (Spec.decodeCoordinates xb yb))
  | "DEC.hex", [x, y, z, h] => let r := parsePt x y z
      let hs := String.mk ((parseBytes h).map Char.ofNat)
      let sp := match ofHex hs with
        | none => (match toAffine r with | some r0 => [kv "s_e" "hexError", kv "s_c" (encS r0)] | none => [])
        | some b => decSpec r (Spec.decode b)
      some (decOut (decodeHex r hs) ++ sp)
  | _, _ => none

def enumFrom' {β : Type} (l : List β) : List (Nat × β) := (List.range l.length).zip l

def xmdOp (op : String) (a : List String) : Option (List String) :=
  match op, a with
  | "XMD.sha", [m] => let m := parseBytes m
      some [kv "o" (showBytes (sha m))]
  | "XMD.expand", [m, d, l] => let m := parseBytes m; let d := parseBytes d; let l := hexNat l
      some (match Hand.Group.expandXMD sha m d l with
        | none => [kv "panic" "zeroLenDST", kv "s_panic" "zeroLenDST"]
        | some o => [kv "o" (showBytes o), kv "s_o" (showBytes (Rfc9380.expandMessageXmd sha m d l))])
  | "H2C.h2g", [m, d] => let m := parseBytes m; let d := parseBytes d
      some (match Hand.Group.hashToGroup sha m d with
        | none => [kv "panic" "zeroLenDST", kv "s_panic" "zeroLenDST"]
        | some r => ptOut r ++ [kv "s_c" (encS (Rfc9380.hashToCurve sha m d))])
  | "H2C.e2g", [m, d] => let m := parseBytes m; let d := parseBytes d
      some (match Hand.Group.encodeToGroup sha m d with
        | none => [kv "panic" "zeroLenDST", kv "s_panic" "zeroLenDST"]
        | some r => ptOut r ++ [kv "s_c" (encS (Rfc9380.encodeToCurve sha m d))])
  | "H2C.h2s", [m, d] => let m := parseBytes m; let d := parseBytes d
      some (match Hand.Group.hashToScalar sha m d with
        | none => [kv "panic" "zeroLenDST", kv "s_panic" "zeroLenDST"]
        | some r => rvN r ++ [kv "s_v" (natHex (Rfc9380.hashToScalar sha m d) 32)])
  | "H2C.h2gu", [u] => let u := parseBytes u
      let r := Hand.Group.hashToGroupFromUniform u
      some (ptOut r ++ [kv "s_c" (encS (padd (Rfc9380.mapToCurve (os2ip (u.take 48) % P))
                                              (Rfc9380.mapToCurve (os2ip ((u.drop 48).take 48) % P))))])
  | "H2C.e2gu", [u] => let u := parseBytes u
      some (ptOut (Hand.Group.encodeToGroupFromUniform u) ++ [kv "s_c" (encS (Rfc9380.mapToCurve (os2ip (u.take 48) % P)))])
  | "H2C.h2su", [u] => let u := parseBytes u
      some (rvN (Hand.Fn.hashToFieldElement u) ++ [kv "s_v" (natHex (os2ip u % N) 32)])
  | "RND", [d, _chunk] => let d := parseBytes d
      let o := Hand.Scalar.random d
      -- specification: the first 32-byte block whose value mod n is non-zero, reduced; none -> panic
      let rec firstGood (fuel : Nat) (s : Bytes) (used : Nat) : Option Nat × Nat :=
        match fuel with
        | 0 => (none, used + s.length)
        | f+1 => if s.length < 32 then (none, used + s.length)
                 else if os2ip (s.take 32) % N ≠ 0 then (some (os2ip (s.take 32) % N), used + 32)
                 else firstGood f (s.drop 32) (used + 32)
      let sp := firstGood (d.length / 32 + 1) d 0
      some ((match o.1 with
             | none => [kv "panic" "1"]
             | some m => rvN m) ++ [kv "used" (toString o.2)] ++
            (match sp.1 with
             | none => [kv "s_panic" "1"]
             | some v => [kv "s_v" (natHex v 32)]) ++ [kv "s_used" (toString sp.2)])
  | "MEM.vet", [back, off, len, spare] =>
      -- the caller's backing array `back`, DST = back[off : off+len : off+len+spare]
      let back := parseBytes back; let off := off.toNat!; let len := len.toNat!; let spare := spare.toNat!
      let h0 : Hand.Slices.Heap := [back]
      let r := Hand.Slices.vetDST sha h0 ⟨0, off, len, len + spare⟩
      some [kv "b" (showBytes (r.1.getD 0 [])), kv "o" (showBytes (Hand.Slices.read r.1 r.2)),
            kv "fresh" (b2s (r.2.buf ≠ 0)),
            kv "s_b" (showBytes back), kv "s_fresh" "1"]
  | "TR.alts", [] =>
      let M : Nat := 2^61 - 1
      let hstr (s : String) : Nat := s.toList.foldl (fun a c => (a * 131 + c.toNat) % 2147483647) 7
      let htr (t : List String) : Nat := t.foldl (fun a s => (a * 1000003 + hstr s) % M) 1
      some ([kv "n" (toString TraceFacts.multiplyAlternatives.length)] ++
        (enumFrom' TraceFacts.multiplyAlternatives).flatMap (fun (i, t) =>
          [kv s!"len{i}" (toString t.length), kv s!"h{i}" (toString (htr t))]))
  | "G.order", [] => some [kv "o" (showBytes Hand.Group.order), kv "s_o" (natHex N 32)]
  | "G.consts", [] => some [kv "cs" Hand.Group.ciphersuite, kv "sl" (toString Hand.Group.scalarLength),
      kv "el" (toString Hand.Group.elementLength), kv "s_cs" "secp256k1_XMD:SHA-256_SSWU_RO_",
      kv "s_sl" (toString (i2osp 0 32).length), kv "s_el" (toString (encodeCompressed G).length)]
  | "G.base", [] => some (ptOut Hand.ElementL.base ++ [kv "s_c" (encS G)])
  | _, _ => none

end Driver
