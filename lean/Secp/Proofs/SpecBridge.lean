import Secp.Proofs.FieldP
import Secp.Proofs.Pratt
import Mathlib.NumberTheory.LegendreSymbol.Basic
/-!
# Bridge: the executable specification arithmetic (`Spec.fadd`, `fmul`, `finv`, `isSquare`, `fsqrt`, … on `Nat`)
is arithmetic in `ZMod p`
-/
open Spec

theorem P_pos : 0 < P := by decide

theorem cast_fadd (a b : Nat) : ((fadd a b : Nat) : Fp) = (a : Fp) + (b : Fp) := by
  unfold fadd; rw [ZMod.natCast_mod, Nat.cast_add]
theorem cast_fmul (a b : Nat) : ((fmul a b : Nat) : Fp) = (a : Fp) * (b : Fp) := by
  unfold fmul; rw [ZMod.natCast_mod, Nat.cast_mul]
theorem cast_fneg (a : Nat) : ((fneg a : Nat) : Fp) = - (a : Fp) := by
  unfold fneg
  have h : a % P ≤ P := Nat.le_of_lt (Nat.mod_lt _ P_pos)
  rw [ZMod.natCast_mod, Nat.cast_sub h, ZMod.natCast_self, ZMod.natCast_mod]; ring
theorem cast_fsub (a b : Nat) : ((fsub a b : Nat) : Fp) = (a : Fp) - (b : Fp) := by
  unfold fsub
  have h : b % P ≤ a + P := by have := Nat.mod_lt b P_pos; omega
  rw [ZMod.natCast_mod, Nat.cast_sub h, Nat.cast_add, ZMod.natCast_self, ZMod.natCast_mod]; ring
theorem cast_powMod (a e : Nat) : ((powMod a e P : Nat) : Fp) = (a : Fp) ^ e := by
  rw [powMod_eq a e P P_gt, ZMod.natCast_mod, Nat.cast_pow]

theorem fadd_lt (a b : Nat) : fadd a b < P := Nat.mod_lt _ P_pos
theorem fmul_lt (a b : Nat) : fmul a b < P := Nat.mod_lt _ P_pos
theorem fneg_lt (a : Nat) : fneg a < P := Nat.mod_lt _ P_pos
theorem fsub_lt (a b : Nat) : fsub a b < P := Nat.mod_lt _ P_pos

/-- a natural below `p` is determined by its class -/
theorem val_cast_of_lt (a : Nat) (h : a < P) : ((a : Fp)).val = a := by
  rw [ZMod.val_natCast, Nat.mod_eq_of_lt h]

theorem cast_inj_of_lt (a b : Nat) (ha : a < P) (hb : b < P) (h : (a : Fp) = (b : Fp)) : a = b := by
  have := congrArg ZMod.val h
  rwa [val_cast_of_lt a ha, val_cast_of_lt b hb] at this

theorem half_eq : (P - 1) / 2 = P / 2 := by decide

/-- `Spec.isSquare` decides squareness in `ZMod p` (Euler's criterion, evaluated by square-and-multiply) -/
theorem isSquare_iff (a : Nat) : isSquare a = true ↔ IsSquare ((a : Fp)) := by
  unfold isSquare
  simp only [Bool.decide_or, Bool.or_eq_true, decide_eq_true_eq]
  by_cases h0 : (a : Fp) = 0
  · have : a % P = 0 := by
      rw [ZMod.natCast_eq_zero_iff] at h0; exact Nat.mod_eq_zero_of_dvd h0
    simp [this, h0]
  · have hne : a % P ≠ 0 := by
      intro h; apply h0; rw [ZMod.natCast_eq_zero_iff]; exact Nat.dvd_of_mod_eq_zero h
    rw [ZMod.euler_criterion P h0, ← half_eq, ← cast_powMod]
    have hlt := powMod_lt a ((P - 1) / 2) P P_gt
    constructor
    · rintro (h | h)
      · exact absurd h hne
      · rw [h]; simp
    · intro h
      right
      have h1 : ((1 : Nat) : Fp) = 1 := by simp
      rw [← h1] at h
      exact cast_inj_of_lt _ _ hlt P_gt h

theorem quarter_eq : (P + 1) / 4 * 2 = P / 2 + 1 := by decide

/-- `Spec.fsqrt` of a square is a square root -/
theorem fsqrt_sq (a : Nat) (h : IsSquare ((a : Fp))) : ((fsqrt a : Nat) : Fp) ^ 2 = (a : Fp) := by
  unfold fsqrt
  rw [cast_powMod, ← pow_mul, quarter_eq, pow_succ]
  by_cases h0 : (a : Fp) = 0
  · rw [h0]; simp
  · rw [(ZMod.euler_criterion P h0).mp h, one_mul]

/-- negation flips the parity of a non-zero residue (`p` is odd) -/
theorem val_neg_parity (a : Fp) (h : a ≠ 0) : (-a).val % 2 = 1 - a.val % 2 := by
  have hlt := a.val_lt
  have hpos : 0 < a.val := Nat.pos_of_ne_zero (fun e => h ((ZMod.val_eq_zero a).mp e))
  have : (-a).val = P - a.val := by
    rw [ZMod.neg_val, if_neg h]
  rw [this]
  have hodd : P % 2 = 1 := by decide
  omega

/-- two square roots of the same value with the same parity coincide -/
theorem root_unique (a b : Fp) (h : a ^ 2 = b ^ 2) (hp : a.val % 2 = b.val % 2) : a = b := by
  have : (a - b) * (a + b) = 0 := by linear_combination h
  rcases mul_eq_zero.mp this with h1 | h1
  · linear_combination h1
  · have hab : a = -b := by linear_combination h1
    by_cases hb : b = 0
    · rw [hab, hb, neg_zero]
    · exfalso
      rw [hab, val_neg_parity b hb] at hp
      have := Nat.mod_two_eq_zero_or_one b.val
      omega
