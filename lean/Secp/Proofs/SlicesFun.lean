import Secp.Proofs.SlicesFrame
/-!
# The slice model of `vetDSTXMD` computes the functional model used by C08/C09

`Hand.Slices.vetDST` (heap, `append`, `make`) and `Hand.Group.vetDSTXMD` (pure byte strings) are two models of the same
Go function; this file proves that reading the slice returned by the former gives the latter applied to the content of
the argument, for every heap and every well-formed layout.
-/
namespace Hand.Slices
open Spec (Bytes)

/-- a slice is well-formed in a heap: its buffer exists and `off + cap` stays inside it, `len ≤ cap` -/
def WF (h : Heap) (s : Slice) : Prop := s.buf < h.length ∧ s.off + s.cap ≤ (h.getD s.buf []).length ∧ s.len ≤ s.cap

theorem read_length (h : Heap) (s : Slice) (w : WF h s) : (read h s).length = s.len := by
  obtain ⟨_, h2, h3⟩ := w
  unfold read
  rw [List.length_take, List.length_drop]
  omega

theorem alloc_read (h : Heap) (c : Bytes) (cap : Nat) : read (alloc h c cap).1 (alloc h c cap).2 = c := by
  unfold alloc read
  simp only [List.getD_eq_getElem?_getD]
  rw [List.getElem?_append_right (Nat.le_refl _)]
  simp

theorem alloc_wf (h : Heap) (c : Bytes) (cap : Nat) : WF (alloc h c cap).1 (alloc h c cap).2 := by
  unfold alloc WF
  simp only [List.getD_eq_getElem?_getD]
  refine ⟨by simp, ?_, by omega⟩
  rw [List.getElem?_append_right (Nat.le_refl _)]
  simp
  omega

theorem alloc_read_old (h : Heap) (c : Bytes) (cap : Nat) (s : Slice) (hs : s.buf < h.length) :
    read (alloc h c cap).1 s = read h s := by
  unfold read
  rw [alloc_frame h c cap s.buf hs]

theorem alloc_wf_old (h : Heap) (c : Bytes) (cap : Nat) (s : Slice) (w : WF h s) : WF (alloc h c cap).1 s := by
  obtain ⟨h1, h2, h3⟩ := w
  refine ⟨by rw [alloc_len]; omega, ?_, h3⟩
  rw [alloc_frame h c cap s.buf h1]; exact h2

theorem writeAt_read (b bs : Bytes) (off len : Nat) (hfit : off + len + bs.length ≤ b.length) :
    ((writeAt b (off + len) bs).drop off).take (len + bs.length) = (b.drop off).take len ++ bs := by
  unfold writeAt
  have e1 : bs.take (b.length - (off + len)) = bs := List.take_of_length_le (by omega)
  rw [e1, List.append_assoc]
  have l1 : (b.take (off + len)).length = off + len := by rw [List.length_take]; omega
  rw [List.drop_append_of_le_length (by omega)]
  have e2 : (b.take (off + len)).drop off = (b.drop off).take len := by
    rw [List.drop_take]; congr 1; omega
  rw [e2]
  have l2 : ((b.drop off).take len).length = len := by rw [List.length_take, List.length_drop]; omega
  have e3 : len + bs.length = ((b.drop off).take len).length + bs.length := by rw [l2]
  rw [e3, List.take_length_add_append, List.take_left']
  rfl

theorem writeAt_length (b bs : Bytes) (pos : Nat) (hfit : pos + bs.length ≤ b.length) : (writeAt b pos bs).length = b.length := by
  unfold writeAt
  simp only [List.length_append, List.length_take, List.length_drop]
  omega

/-- Go's `append` on a well-formed slice: the result reads as `old content ++ new bytes` and is well-formed -/
theorem append_read (h : Heap) (s : Slice) (bs : Bytes) (w : WF h s) :
    read (append h s bs).1 (append h s bs).2 = read h s ++ bs ∧ WF (append h s bs).1 (append h s bs).2 := by
  obtain ⟨w1, w2, w3⟩ := w
  unfold append
  split
  · next hfit =>
    have hb : (h.set s.buf (writeAt (h.getD s.buf []) (s.off + s.len) bs)).getD s.buf [] =
        writeAt (h.getD s.buf []) (s.off + s.len) bs := by
      simp only [List.getD_eq_getElem?_getD]
      rw [List.getElem?_set_self w1]; rfl
    constructor
    · unfold read
      simp only
      rw [hb]
      exact writeAt_read _ _ _ _ (by omega)
    · refine ⟨by simpa using w1, ?_, by simpa using hfit⟩
      simp only
      rw [hb, writeAt_length _ _ _ (by omega)]
      exact w2
  · exact ⟨alloc_read h _ _, alloc_wf h _ _⟩

/-- **the two models of `vetDSTXMD` agree**: the bytes of the slice returned by the heap model are the pure model applied
to the bytes of the argument, for every heap and every well-formed layout -/
theorem vetDST_fun (H : Bytes → Bytes) (h : Heap) (dst : Slice) (w : WF h dst) :
    read (vetDST H h dst).1 (vetDST H h dst).2 = Hand.Group.vetDSTXMD H (read h dst) := by
  unfold vetDST Hand.Group.vetDSTXMD
  simp only
  rw [read_length h dst w]
  set hd := (if dst.len > 255 then alloc h (H (Hand.Group.dstLongPrefix ++ read h dst)) 32 else (h, dst)) with hhd
  have wd : WF hd.1 hd.2 := by rw [hhd]; split; exact alloc_wf _ _ _; exact w
  have rd : read hd.1 hd.2 = (if dst.len > 255 then H (Hand.Group.dstLongPrefix ++ read h dst) else read h dst) := by
    rw [hhd]; split
    · exact alloc_read _ _ _
    · rfl
  have ld : hd.2.len = (read hd.1 hd.2).length := (read_length _ _ wd).symm
  set hp := alloc hd.1 [] (hd.2.len + 1) with hhp
  have wp : WF hp.1 hp.2 := alloc_wf _ _ _
  have rp : read hp.1 hp.2 = [] := alloc_read _ _ _
  have rpd : read hp.1 hd.2 = read hd.1 hd.2 := alloc_read_old _ _ _ _ wd.1
  obtain ⟨r3, w3⟩ := append_read hp.1 hp.2 (read hp.1 hd.2) wp
  obtain ⟨r4, _⟩ := append_read _ _ [(Hand.Group.i2osp1 hd.2.len).headD 0] w3
  rw [r4, r3, rp, rpd, List.nil_append, ld, rd]

end Hand.Slices
