import Mathlib.NumberTheory.LucasPrimality
import Mathlib.Tactic.NormNum.Prime
import Secp.Spec.Fp
/-!
# Checking Pratt primality certificates in the kernel

`Spec.powMod` (fuel-recursive square-and-multiply) is proved equal to `a^e % m`; a certificate step
`(q, g, factorisation of q-1)` is checked by kernel evaluation (`decide +kernel`) and lifted to `Nat.Prime q` by
Lucas' criterion. The certificates themselves (`Secp.Proofs.PrattData`) are static data computed offline; they are
checked here, not trusted.
-/
open Spec

theorem powModAux_spec (m : Nat) : ∀ (fuel a e acc : Nat), e < 2 ^ fuel →
    powModAux m fuel a e acc % m = acc * a ^ e % m := by
  intro fuel
  induction fuel with
  | zero =>
    intro a e acc h
    have : e = 0 := by simpa using h
    subst this
    simp [powModAux]
  | succ n ih =>
    intro a e acc h
    unfold powModAux
    have he : e / 2 < 2 ^ n := by
      rw [Nat.div_lt_iff_lt_mul (by norm_num)]; rw [pow_succ] at h; exact h
    rw [ih _ _ _ he]
    have hsq : (a * a % m) ^ (e / 2) % m = (a * a) ^ (e / 2) % m := by rw [Nat.pow_mod, Nat.mod_mod, ← Nat.pow_mod]
    have key : a ^ e = (a * a) ^ (e / 2) * a ^ (e % 2) := by
      rw [← pow_two, ← pow_mul, ← pow_add, Nat.div_add_mod]
    by_cases hodd : e % 2 = 1
    · simp only [hodd, if_true]
      rw [key, hodd, pow_one]
      calc acc * a % m * (a * a % m) ^ (e / 2) % m
          = (acc * a % m) * ((a * a % m) ^ (e / 2) % m) % m := by rw [Nat.mul_mod, Nat.mod_mod]
        _ = (acc * a % m) * ((a * a) ^ (e / 2) % m) % m := by rw [hsq]
        _ = acc * a * (a * a) ^ (e / 2) % m := by rw [← Nat.mul_mod]
        _ = acc * ((a * a) ^ (e / 2) * a) % m := by ring_nf
    · have h0 : e % 2 = 0 := by omega
      simp only [hodd, if_false]
      rw [key, h0, pow_zero, mul_one]
      calc acc * (a * a % m) ^ (e / 2) % m
          = (acc % m) * ((a * a % m) ^ (e / 2) % m) % m := by rw [Nat.mul_mod]
        _ = (acc % m) * ((a * a) ^ (e / 2) % m) % m := by rw [hsq]
        _ = acc * (a * a) ^ (e / 2) % m := by rw [← Nat.mul_mod]

theorem powMod_spec (a e m : Nat) : powMod a e m % m = a ^ e % m := by
  unfold powMod
  rw [powModAux_spec m _ _ _ _ (Nat.lt_log2_self)]
  rw [Nat.mul_mod, Nat.mod_mod, ← Nat.mul_mod, one_mul, Nat.pow_mod, Nat.mod_mod, ← Nat.pow_mod]

theorem powModAux_lt (m : Nat) (hm : 0 < m) : ∀ (fuel a e acc : Nat), acc < m → powModAux m fuel a e acc < m := by
  intro fuel
  induction fuel with
  | zero => intro a e acc h; simpa [powModAux] using h
  | succ n ih =>
    intro a e acc h
    unfold powModAux
    apply ih
    split
    · exact Nat.mod_lt _ hm
    · exact h

theorem powMod_lt (a e m : Nat) (hm : 1 < m) : powMod a e m < m := by
  unfold powMod
  exact powModAux_lt m (by omega) _ _ _ _ (Nat.mod_lt _ (by omega))

/-- `powMod` is exactly modular exponentiation (for a modulus > 1) -/
theorem powMod_eq (a e m : Nat) (hm : 1 < m) : powMod a e m = a ^ e % m := by
  rw [← powMod_spec, Nat.mod_eq_of_lt (powMod_lt a e m hm)]

/-- one certificate step: generator `g`, prime factorisation `fs` of `q - 1` -/
def prattCheck (q g : Nat) (fs : List (Nat × Nat)) : Bool :=
  decide (1 < q) && (fs.foldl (fun acc f => acc * f.1 ^ f.2) 1 == q - 1) && (powMod g (q - 1) q == 1) &&
    fs.all (fun f => powMod g ((q - 1) / f.1) q != 1)

theorem prime_dvd_foldl (p : Nat) (hp : p.Prime) (fs : List (Nat × Nat)) (acc : Nat)
    (h : p ∣ fs.foldl (fun acc f => acc * f.1 ^ f.2) acc) : p ∣ acc ∨ ∃ f ∈ fs, p ∣ f.1 := by
  induction fs generalizing acc with
  | nil => left; simpa using h
  | cons f fs ih =>
    simp only [List.foldl] at h
    rcases ih _ h with h' | ⟨f', hf', hd⟩
    · rcases (Nat.Prime.dvd_mul hp).mp h' with h'' | h''
      · left; exact h''
      · right; exact ⟨f, List.mem_cons_self, hp.dvd_of_dvd_pow h''⟩
    · right; exact ⟨f', List.mem_cons_of_mem _ hf', hd⟩

theorem pratt (q g : Nat) (fs : List (Nat × Nat)) (hfs : ∀ f ∈ fs, Nat.Prime f.1)
    (h : prattCheck q g fs = true) : Nat.Prime q := by
  simp only [prattCheck, Bool.and_eq_true, decide_eq_true_eq, beq_iff_eq, List.all_eq_true, bne_iff_ne, ne_eq] at h
  obtain ⟨⟨⟨hq, hprod⟩, hfull⟩, hparts⟩ := h
  have cast_pow : ∀ e : Nat, ((g : ZMod q)) ^ e = 1 ↔ powMod g e q = 1 := by
    intro e
    rw [powMod_eq g e q hq]
    have : ((g ^ e : Nat) : ZMod q) = (g : ZMod q) ^ e := by push_cast; rfl
    rw [← this]
    have h1 : ((1 : Nat) : ZMod q) = 1 := by simp
    rw [← h1, ZMod.natCast_eq_natCast_iff']
    rw [Nat.mod_eq_of_lt hq]
  apply lucas_primality q (g : ZMod q)
  · exact (cast_pow _).mpr hfull
  · intro r hr hdvd
    rw [← hprod] at hdvd
    rcases prime_dvd_foldl r hr fs 1 hdvd with h1 | ⟨f, hf, hd⟩
    · exact absurd (Nat.dvd_one.mp h1) hr.one_lt.ne'
    · have : r = f.1 := ((Nat.prime_dvd_prime_iff_eq hr (hfs f hf)).mp hd)
      rw [this]
      intro hc
      exact hparts f hf ((cast_pow _).mp hc)
