import Secp.Proofs.LimbLawful
import Secp.Proofs.ToMontP
/-!
# Base field: `FromMontgomery`, `ToMontgomery`, `Reduce` at the value level
-/
open Spec

/-- `FromMontgomery` returns the canonical integer value `(limbVal a).val` as limbs -/
theorem limb_fromMont {a : L4} (ha : a.ok) :
    (FiatField.fromMontgomery a).ok ∧ (FiatField.fromMontgomery a).eval = (limbVal a).val := by
  obtain ⟨ok, lt, ev⟩ := fieldFromMont_correct a ha
  rw [Pnat_eq] at ev lt
  refine ⟨ok, ?_⟩
  have h' : (((FiatField.fromMontgomery a).eval * W ^ 4 : Nat) : Fp) = ((a.eval : Nat) : Fp) := by
    rw [ZMod.natCast_eq_natCast_iff']; exact ev
  rw [W4_eq, Nat.cast_mul] at h'
  have hv : ((FiatField.fromMontgomery a).eval : Fp) = limbVal a := by
    unfold limbVal
    have := congrArg (fun t => t * RinvP) h'
    simp only [mul_assoc, R_mul_Rinv, mul_one] at this
    exact this
  rw [← hv, ZMod.val_natCast, Nat.mod_eq_of_lt lt]

/-- `ToMontgomery` of limbs `x` denotes the integer `x` (mod p) -/
theorem limb_toMont {x : L4} (hx : x.ok) :
    limbOk (FiatField.toMontgomery x) ∧ limbVal (FiatField.toMontgomery x) = (x.eval : Fp) := by
  obtain ⟨ok, lt, ev⟩ := fieldToMont_correct x hx
  rw [Pnat_eq] at ev lt
  refine ⟨⟨ok, lt⟩, ?_⟩
  have h' : (((FiatField.toMontgomery x).eval * W ^ 4 : Nat) : Fp) = ((x.eval * R2pNat : Nat) : Fp) := by
    rw [ZMod.natCast_eq_natCast_iff']; exact ev
  have hR2 : ((R2pNat : Nat) : Fp) = ((2 ^ 256 : Nat) : Fp) * ((2 ^ 256 : Nat) : Fp) := by
    unfold R2pNat
    rw [Pnat_eq, W4_eq, cast_mod_P, Nat.cast_mul, cast_mod_P]
  rw [W4_eq, Nat.cast_mul, Nat.cast_mul, hR2] at h'
  unfold limbVal
  have := congrArg (fun t => t * RinvP * RinvP) h'
  have e1 : ((FiatField.toMontgomery x).eval : Fp) * ((2 ^ 256 : Nat) : Fp) * RinvP * RinvP =
      ((FiatField.toMontgomery x).eval : Fp) * RinvP := by
    rw [mul_assoc ((FiatField.toMontgomery x).eval : Fp), R_mul_Rinv, mul_one]
  have e2 : (x.eval : Fp) * (((2 ^ 256 : Nat) : Fp) * ((2 ^ 256 : Nat) : Fp)) * RinvP * RinvP = (x.eval : Fp) := by
    have : (x.eval : Fp) * (((2 ^ 256 : Nat) : Fp) * ((2 ^ 256 : Nat) : Fp)) * RinvP * RinvP =
        (x.eval : Fp) * ((((2 ^ 256 : Nat) : Fp) * RinvP) * (((2 ^ 256 : Nat) : Fp) * RinvP)) := by ring
    rw [this, R_mul_Rinv]; ring
  rw [e1, e2] at this
  exact this

/-- `Sgn0`: the parity of the canonical value -/
theorem limb_sgn0 {a : L4} (ha : a.ok) : Hand.limbOps.sgn0 a = (limbVal a).val % 2 := by
  obtain ⟨ok, ev⟩ := limb_fromMont ha
  show FiatField.isNonZero (Nat.land (FiatField.fromMontgomery a).l0 1) = _
  rw [← ev]
  generalize FiatField.fromMontgomery a = n at *
  obtain ⟨n0, n1, n2, n3⟩ := ok
  have hl : Nat.land n.l0 1 = n.l0 % 2 := Nat.and_one_is_mod n.l0
  rw [hl]
  have hlt : n.l0 % 2 < W := by simp only [W]; omega
  rw [isNonZero_spec_p _ hlt]
  have : n.eval % 2 = n.l0 % 2 := by
    unfold L4.eval
    simp only [W]
    omega
  rw [this]
  rcases Nat.mod_two_eq_zero_or_one n.l0 with h | h <;> simp [h]
