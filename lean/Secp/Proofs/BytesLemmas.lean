import Secp.Spec.Bytes
import Secp.Hand.Field
import Secp.Proofs.PrimSpec
/-!
# Big-endian byte strings: `os2ip`, `i2osp`, and the byte <-> limb conversions of the Go code
-/
namespace Spec

def IsBytes (b : Bytes) : Prop := ∀ x ∈ b, x < 256

theorem foldl_acc (b : Bytes) (acc : Nat) :
    b.foldl (fun a x => a * 256 + x) acc = acc * 256 ^ b.length + b.foldl (fun a x => a * 256 + x) 0 := by
  induction b generalizing acc with
  | nil => simp
  | cons x xs ih =>
    simp only [List.foldl, List.length_cons]
    rw [ih (acc * 256 + x), ih (0 * 256 + x)]
    ring

theorem os2ip_nil : os2ip [] = 0 := rfl
theorem os2ip_cons (x : Nat) (xs : Bytes) : os2ip (x :: xs) = x * 256 ^ xs.length + os2ip xs := by
  unfold os2ip
  simp only [List.foldl]
  rw [foldl_acc]; ring

theorem os2ip_append (a b : Bytes) : os2ip (a ++ b) = os2ip a * 256 ^ b.length + os2ip b := by
  induction a with
  | nil => simp [os2ip_nil]
  | cons x xs ih =>
    rw [List.cons_append, os2ip_cons, os2ip_cons, ih, List.length_append]
    ring

theorem os2ip_lt (b : Bytes) (hb : IsBytes b) : os2ip b < 256 ^ b.length := by
  induction b with
  | nil => simp [os2ip_nil]
  | cons x xs ih =>
    rw [os2ip_cons, List.length_cons, pow_succ]
    have hx : x < 256 := hb x List.mem_cons_self
    have := ih (fun y hy => hb y (List.mem_cons_of_mem _ hy))
    have hle : x * 256 ^ xs.length ≤ 255 * 256 ^ xs.length := Nat.mul_le_mul_right _ (by omega)
    generalize 256 ^ xs.length = K at *
    omega

theorem i2osp_length (v n : Nat) : (i2osp v n).length = n := by simp [i2osp]

theorem i2osp_isBytes (v n : Nat) : IsBytes (i2osp v n) := by
  intro x hx
  simp only [i2osp, List.mem_map, List.mem_range] at hx
  obtain ⟨i, _, rfl⟩ := hx
  exact Nat.mod_lt _ (by norm_num)

theorem i2osp_succ (v n : Nat) : i2osp v (n + 1) = (v / 256 ^ n % 256) :: i2osp v n := by
  unfold i2osp
  rw [List.range_succ_eq_map, List.map_cons, List.map_map]
  congr 1
  apply List.map_congr_left
  intro i hi
  have : i < n := List.mem_range.mp hi
  simp only [Function.comp]
  congr 3
  omega

theorem os2ip_i2osp (v n : Nat) : os2ip (i2osp v n) = v % 256 ^ n := by
  induction n with
  | zero => simp [i2osp, os2ip_nil, Nat.mod_one]
  | succ n ih =>
    rw [i2osp_succ, os2ip_cons, ih, i2osp_length, Nat.mod_pow_succ]
    ring

theorem i2osp_append (v n k : Nat) : i2osp v (n + k) = i2osp (v / 256 ^ k) n ++ i2osp v k := by
  induction n with
  | zero => simp [i2osp]
  | succ n ih =>
    rw [Nat.add_right_comm, i2osp_succ, ih, i2osp_succ, List.cons_append]
    congr 2
    rw [Nat.div_div_eq_div_mul, ← pow_add, Nat.add_comm]

theorem div_mod_drop (w u A C : Nat) (hA : 0 < A) : (u * (A * (256 * C)) + w) / A % 256 = w / A % 256 := by
  have e : u * (A * (256 * C)) + w = w + A * (256 * (u * C)) := by ring
  rw [e, Nat.add_mul_div_left _ _ hA, Nat.add_mul_mod_self_left]

/-- `i2osp v m` only depends on `v mod 256^m` -/
theorem i2osp_drop_high (u w m : Nat) : i2osp (u * 256 ^ m + w) m = i2osp w m := by
  unfold i2osp
  apply List.map_congr_left
  intro i hi
  have him : i < m := List.mem_range.mp hi
  have hsplit : 256 ^ m = 256 ^ (m - 1 - i) * (256 * 256 ^ i) := by
    rw [← pow_succ', ← pow_add]; congr 1; omega
  rw [hsplit]
  exact div_mod_drop w u _ _ (Nat.pow_pos (by norm_num))

theorem i2osp_os2ip (b : Bytes) (hb : IsBytes b) : i2osp (os2ip b) b.length = b := by
  induction b with
  | nil => simp [i2osp]
  | cons x xs ih =>
    have hx : x < 256 := hb x List.mem_cons_self
    have hxs : IsBytes xs := fun y hy => hb y (List.mem_cons_of_mem _ hy)
    have hlt := os2ip_lt xs hxs
    rw [List.length_cons, i2osp_succ, os2ip_cons]
    have hpos : 0 < 256 ^ xs.length := Nat.pow_pos (by norm_num)
    have e1 : (x * 256 ^ xs.length + os2ip xs) / 256 ^ xs.length % 256 = x := by
      rw [Nat.add_comm, Nat.add_mul_div_right _ _ hpos, Nat.div_eq_of_lt hlt, Nat.zero_add, Nat.mod_eq_of_lt hx]
    rw [e1]
    congr 1
    rw [i2osp_drop_high, ih hxs]

end Spec

open Spec in
/-- 32 big-endian bytes as four limbs: the limbs are 64-bit and evaluate to the big-endian integer -/
theorem bytesToLimbs_spec (b : Bytes) (hlen : b.length = 32) (hb : IsBytes b) :
    (Hand.bytesToLimbs b).ok ∧ (Hand.bytesToLimbs b).eval = os2ip b := by
  -- split b into four 8-byte chunks
  have hsplit : b = b.take 8 ++ ((b.drop 8).take 8 ++ ((b.drop 16).take 8 ++ (b.drop 24))) := by
    have e1 : b = b.take 8 ++ b.drop 8 := (List.take_append_drop 8 b).symm
    have e2 : b.drop 8 = (b.drop 8).take 8 ++ (b.drop 8).drop 8 := (List.take_append_drop 8 _).symm
    have e3 : b.drop 16 = (b.drop 16).take 8 ++ (b.drop 16).drop 8 := (List.take_append_drop 8 _).symm
    rw [List.drop_drop] at e2 e3
    simp only [Nat.reduceAdd] at e2 e3
    conv_lhs => rw [e1, e2, e3]
  have sub : ∀ (c : Bytes), (∀ x ∈ c, x ∈ b) → IsBytes c := fun c h x hx => hb x (h x hx)
  have h0 := sub (b.take 8) (fun x hx => List.mem_of_mem_take hx)
  have h1 := sub ((b.drop 8).take 8) (fun x hx => List.mem_of_mem_drop (List.mem_of_mem_take hx))
  have h2 := sub ((b.drop 16).take 8) (fun x hx => List.mem_of_mem_drop (List.mem_of_mem_take hx))
  have h3 := sub (b.drop 24) (fun x hx => List.mem_of_mem_drop hx)
  have l0 : (b.take 8).length = 8 := by simp [hlen]
  have l1 : ((b.drop 8).take 8).length = 8 := by simp [hlen]
  have l2 : ((b.drop 16).take 8).length = 8 := by simp [hlen]
  have l3 : (b.drop 24).length = 8 := by simp [hlen]
  have b0 := os2ip_lt _ h0
  have b1 := os2ip_lt _ h1
  have b2 := os2ip_lt _ h2
  have b3 := os2ip_lt _ h3
  rw [l0] at b0; rw [l1] at b1; rw [l2] at b2; rw [l3] at b3
  have t3 : (b.drop 24).take 8 = b.drop 24 := List.take_of_length_le (by rw [l3])
  have hW : W = 256 ^ 8 := by decide
  unfold Hand.bytesToLimbs Hand.beU64
  refine ⟨⟨by rw [t3, hW]; exact b3, by rw [hW]; exact b2, by rw [hW]; exact b1, by rw [hW]; exact b0⟩, ?_⟩
  conv_rhs => rw [hsplit]
  rw [os2ip_append, os2ip_append, os2ip_append]
  simp only [List.length_append, l1, l2, l3]
  unfold L4.eval
  simp only [t3, hW]
  ring

open Spec in
/-- four 64-bit limbs as 32 big-endian bytes -/
theorem limbsToBytes_spec (l : L4) (hl : l.ok) : Hand.limbsToBytes l = i2osp l.eval 32 := by
  obtain ⟨h0, h1, h2, h3⟩ := hl
  have hW : W = 256 ^ 8 := by decide
  unfold Hand.limbsToBytes
  have e : (32 : Nat) = 8 + (8 + (8 + 8)) := rfl
  rw [e, i2osp_append, i2osp_append, i2osp_append]
  have hp : ∀ k : Nat, 0 < 256 ^ k := fun k => Nat.pow_pos (by norm_num)
  have mod8 : ∀ (u w : Nat), i2osp (u * 256 ^ 8 + w) 8 = i2osp w 8 := fun u w => i2osp_drop_high u w 8
  unfold L4.eval
  rw [hW] at h0 h1 h2 h3 ⊢
  have d1 : (l.l0 + 256 ^ 8 * l.l1 + (256 ^ 8) ^ 2 * l.l2 + (256 ^ 8) ^ 3 * l.l3) / 256 ^ (8 + (8 + 8)) = l.l3 := by
    have : l.l0 + 256 ^ 8 * l.l1 + (256 ^ 8) ^ 2 * l.l2 + (256 ^ 8) ^ 3 * l.l3
        = (l.l0 + 256 ^ 8 * l.l1 + (256 ^ 8) ^ 2 * l.l2) + 256 ^ (8 + (8 + 8)) * l.l3 := by ring
    rw [this, Nat.add_mul_div_left _ _ (hp _), Nat.div_eq_of_lt (by norm_num at *; omega), Nat.zero_add]
  have d2 : (l.l0 + 256 ^ 8 * l.l1 + (256 ^ 8) ^ 2 * l.l2 + (256 ^ 8) ^ 3 * l.l3) / 256 ^ (8 + 8)
      = l.l3 * 256 ^ 8 + l.l2 := by
    have : l.l0 + 256 ^ 8 * l.l1 + (256 ^ 8) ^ 2 * l.l2 + (256 ^ 8) ^ 3 * l.l3
        = (l.l0 + 256 ^ 8 * l.l1) + 256 ^ (8 + 8) * (l.l3 * 256 ^ 8 + l.l2) := by ring
    rw [this, Nat.add_mul_div_left _ _ (hp _), Nat.div_eq_of_lt (by norm_num at *; omega), Nat.zero_add]
  have d3 : (l.l0 + 256 ^ 8 * l.l1 + (256 ^ 8) ^ 2 * l.l2 + (256 ^ 8) ^ 3 * l.l3) / 256 ^ 8
      = (l.l3 * 256 ^ 8 + l.l2) * 256 ^ 8 + l.l1 := by
    have : l.l0 + 256 ^ 8 * l.l1 + (256 ^ 8) ^ 2 * l.l2 + (256 ^ 8) ^ 3 * l.l3
        = l.l0 + 256 ^ 8 * ((l.l3 * 256 ^ 8 + l.l2) * 256 ^ 8 + l.l1) := by ring
    rw [this, Nat.add_mul_div_left _ _ (hp _), Nat.div_eq_of_lt h0, Nat.zero_add]
  have d4 : l.l0 + 256 ^ 8 * l.l1 + (256 ^ 8) ^ 2 * l.l2 + (256 ^ 8) ^ 3 * l.l3
      = ((l.l3 * 256 ^ 8 + l.l2) * 256 ^ 8 + l.l1) * 256 ^ 8 + l.l0 := by ring
  rw [d1, d2, d3, mod8, mod8]
  conv_rhs => rw [d4, mod8]
  simp [List.append_assoc]

namespace Spec

theorem hexVal_hexDigit (n : Nat) (h : n < 16) : hexVal (hexDigit n) = some n := by
  have : ∀ n, n < 16 → hexVal (hexDigit n) = some n := by decide
  exact this n h

theorem ofHexAux_toHex (b : Bytes) (hb : IsBytes b) :
    ofHexAux (b.flatMap (fun x => [hexDigit (x / 16), hexDigit (x % 16)])) = some b := by
  induction b with
  | nil => rfl
  | cons x xs ih =>
    have hx : x < 256 := hb x List.mem_cons_self
    have hxs : IsBytes xs := fun y hy => hb y (List.mem_cons_of_mem _ hy)
    simp only [List.flatMap_cons, List.cons_append, List.nil_append, ofHexAux]
    rw [hexVal_hexDigit _ (by omega), hexVal_hexDigit _ (by omega), ih hxs]
    simp only [Option.bind_eq_bind, Option.bind_some, Option.pure_def]
    congr 2
    omega

/-- `hex.DecodeString(hex.EncodeToString(b)) = b` -/
theorem ofHex_toHex (b : Bytes) (hb : IsBytes b) : ofHex (toHex b) = some b := by
  unfold ofHex toHex
  have : (String.ofList (b.flatMap (fun x => [hexDigit (x / 16), hexDigit (x % 16)]))).toList
      = b.flatMap (fun x => [hexDigit (x / 16), hexDigit (x % 16)]) := String.toList_ofList
  rw [this]
  exact ofHexAux_toHex b hb

end Spec
