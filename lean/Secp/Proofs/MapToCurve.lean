import Secp.Proofs.Sswu
import Secp.Proofs.AffPt
import Secp.Proofs.LimbGroup
import Secp.Proofs.FieldConv
import Secp.Proofs.SqrtConstsLimb
/-!
# `IsogenySecp256k13iso ∘ SSWU` at the limb implementation is RFC 9380 `map_to_curve` for secp256k1 (C11)
-/
open Spec Spec.Rfc9380

theorem limb_swConsts : SwConsts limbLawful where
  okA := ⟨by decide, by decide⟩
  vA := limbVal_of_mont _ _ (by decide)
  okB := ⟨by decide, by decide⟩
  vB := limbVal_of_mont _ _ (by decide)
  okZ := ⟨by decide, by decide⟩
  vZ := limbVal_of_mont _ _ (by decide)

theorem limb_sgnLaw : SgnLaw limbLawful := fun a ha => limb_sgn0 ha.1

theorem limb_isoConsts : IsoConsts limbLawful where
  ok10 := ⟨by decide, by decide⟩
  v10 := limbVal_of_mont _ _ (by decide)
  ok11 := ⟨by decide, by decide⟩
  v11 := limbVal_of_mont _ _ (by decide)
  ok12 := ⟨by decide, by decide⟩
  v12 := limbVal_of_mont _ _ (by decide)
  ok13 := ⟨by decide, by decide⟩
  v13 := limbVal_of_mont _ _ (by decide)
  ok20 := ⟨by decide, by decide⟩
  v20 := limbVal_of_mont _ _ (by decide)
  ok21 := ⟨by decide, by decide⟩
  v21 := limbVal_of_mont _ _ (by decide)
  ok30 := ⟨by decide, by decide⟩
  v30 := limbVal_of_mont _ _ (by decide)
  ok31 := ⟨by decide, by decide⟩
  v31 := limbVal_of_mont _ _ (by decide)
  ok32 := ⟨by decide, by decide⟩
  v32 := limbVal_of_mont _ _ (by decide)
  ok33 := ⟨by decide, by decide⟩
  v33 := limbVal_of_mont _ _ (by decide)
  ok40 := ⟨by decide, by decide⟩
  v40 := limbVal_of_mont _ _ (by decide)
  ok41 := ⟨by decide, by decide⟩
  v41 := limbVal_of_mont _ _ (by decide)
  ok42 := ⟨by decide, by decide⟩
  v42 := limbVal_of_mont _ _ (by decide)

theorem cast_xNum (x : Nat) : ((fadd (fadd (fadd (fmul k13 (fmul (fmul x x) x)) (fmul k12 (fmul x x))) (fmul k11 x)) k10 : Nat) : Fp)
    = xNumF (x : Fp) := by
  unfold xNumF; simp only [cast_fadd, cast_fmul]; ring
theorem cast_xDen (x : Nat) : ((fadd (fadd (fmul x x) (fmul k21 x)) k20 : Nat) : Fp) = xDenF (x : Fp) := by
  unfold xDenF; simp only [cast_fadd, cast_fmul]; ring
theorem cast_yNum (x : Nat) : ((fadd (fadd (fadd (fmul k33 (fmul (fmul x x) x)) (fmul k32 (fmul x x))) (fmul k31 x)) k30 : Nat) : Fp)
    = yNumF (x : Fp) := by
  unfold yNumF; simp only [cast_fadd, cast_fmul]; ring
theorem cast_yDen (x : Nat) : ((fadd (fadd (fadd (fmul (fmul x x) x) (fmul k42 (fmul x x))) (fmul k41 x)) k40 : Nat) : Fp)
    = yDenF (x : Fp) := by
  unfold yDenF; simp only [cast_fadd, cast_fmul]; ring

/-- the specification `iso_map` in `ZMod p` terms -/
theorem spec_isoMap (x y : Nat) :
    ((xDenF (x : Fp) = 0 ∨ yDenF (x : Fp) = 0) → isoMap x y = none) ∧
    (xDenF (x : Fp) ≠ 0 → yDenF (x : Fp) ≠ 0 → ∃ a b, isoMap x y = some (a, b) ∧ a < P ∧ b < P ∧
        (a : Fp) = xNumF (x : Fp) / xDenF (x : Fp) ∧ (b : Fp) = (y : Fp) * (yNumF (x : Fp) / yDenF (x : Fp))) := by
  unfold isoMap
  simp only
  have zx : fadd (fadd (fmul x x) (fmul k21 x)) k20 = 0 ↔ xDenF (x : Fp) = 0 := by
    rw [← cast_xDen]
    constructor
    · intro h; rw [h]; simp
    · intro h; exact cast_inj_of_lt _ _ (fadd_lt _ _) P_pos (by rw [h]; simp)
  have zy : fadd (fadd (fadd (fmul (fmul x x) x) (fmul k42 (fmul x x))) (fmul k41 x)) k40 = 0 ↔ yDenF (x : Fp) = 0 := by
    rw [← cast_yDen]
    constructor
    · intro h; rw [h]; simp
    · intro h; exact cast_inj_of_lt _ _ (fadd_lt _ _) P_pos (by rw [h]; simp)
  constructor
  · intro h
    have : fadd (fadd (fmul x x) (fmul k21 x)) k20 = 0 ∨
        fadd (fadd (fadd (fmul (fmul x x) x) (fmul k42 (fmul x x))) (fmul k41 x)) k40 = 0 := by
      rcases h with h | h
      · exact Or.inl (zx.mpr h)
      · exact Or.inr (zy.mpr h)
    rw [if_pos this]
  · intro h1 h2
    have : ¬ (fadd (fadd (fmul x x) (fmul k21 x)) k20 = 0 ∨
        fadd (fadd (fadd (fmul (fmul x x) x) (fmul k42 (fmul x x))) (fmul k41 x)) k40 = 0) := by
      rintro (h | h)
      · exact h1 (zx.mp h)
      · exact h2 (zy.mp h)
    rw [if_neg this]
    refine ⟨_, _, rfl, fmul_lt _ _, fmul_lt _ _, ?_, ?_⟩
    · rw [cast_fdiv, cast_xNum, cast_xDen]
    · rw [cast_fmul, cast_fdiv, cast_yNum, cast_yDen]

variable {α : Type} {F : FieldOps α} (L : Lawful F Fp)

/-- abstract affine point of a projective triple, for any lawful record over `ZMod p` -/
noncomputable def affPtG (P : Pt α) : APoint :=
  if L.val P.z = 0 then none else some ((L.val P.x / L.val P.z).val, (L.val P.y / L.val P.z).val)

theorem valid_of_affineG (hcc : CurveConsts L) (x y : α) (hx : L.ok x) (hy : L.ok y) (h : L.val y ^ 2 = L.val x ^ 3 + 7) :
    PtValid L ⟨x, y, F.one⟩ ∧ affPtG L ⟨x, y, F.one⟩ = some ((L.val x).val, (L.val y).val) := by
  refine ⟨⟨⟨hx, hy, L.ok_one⟩, ?_, Or.inr (Or.inr ?_)⟩, ?_⟩
  · show L.val y ^ 2 * L.val F.one = L.val x ^ 3 + 7 * L.val F.one ^ 3
    rw [L.val_one, h]; ring
  · show L.val F.one ≠ 0
    rw [L.val_one]; exact one_ne_zero
  · unfold affPtG
    simp only [L.val_one, one_ne_zero, if_false, div_one]

/-- **SSWU is the textbook map**: affine coordinates equal those of `map_to_curve_simple_swu` -/
theorem sswu_spec (hc : SwConsts L) (hq : SqrtConsts L) (hs : SgnLaw L) (u : α) (hu : L.ok u) :
    L.ok (Curve.sswu F u).x ∧ L.ok (Curve.sswu F u).y ∧
    (L.val (Curve.sswu F u).x).val = (mapToCurveSimpleSwu (L.val u).val).1 ∧
    (L.val (Curve.sswu F u).y).val = (mapToCurveSimpleSwu (L.val u).val).2 ∧
    SswuRel (L.val u) (L.val (Curve.sswu F u).x) (L.val (Curve.sswu F u).y) := by
  obtain ⟨ox, oy, _, rel⟩ := sswu_rel L hc hq hs u hu
  obtain ⟨lx, ly, srel⟩ := spec_sswu_rel (L.val u).val
  rw [ZMod.natCast_zmod_val] at srel
  obtain ⟨ex, ey⟩ := SswuRel.unique rel srel
  refine ⟨ox, oy, ?_, ?_, rel⟩
  · rw [ex, val_cast_of_lt _ lx]
  · rw [ey, val_cast_of_lt _ ly]

/-- **map_to_curve**, for every lawful record: `Isogeny(SSWU(u))` is a valid group element and it is the point
`map_to_curve(u)` prescribed by RFC 9380 (textbook simplified SWU, then the E.1 isogeny; zero denominator ↦ identity) -/
theorem map_to_curve_generic (hcc : CurveConsts L) (hc : SwConsts L) (hq : SqrtConsts L) (hs : SgnLaw L) (hk : IsoConsts L)
    (u : α) (hu : L.ok u) :
    PtValid L (Curve.isogeny F (Curve.sswu F u)) ∧
    affPtG L (Curve.isogeny F (Curve.sswu F u)) = mapToCurve (L.val u).val := by
  obtain ⟨ox, oy, ex, ey, rel⟩ := sswu_spec L hc hq hs u hu
  obtain ⟨okR, hid, hreg⟩ := isogeny_spec L hk (Curve.sswu F u) ox oy
  unfold mapToCurve
  have hpair : mapToCurveSimpleSwu (L.val u).val =
      ((L.val (Curve.sswu F u).x).val, (L.val (Curve.sswu F u).y).val) := by rw [ex, ey]
  rw [hpair]
  simp only
  obtain ⟨snone, ssome⟩ := spec_isoMap (L.val (Curve.sswu F u).x).val (L.val (Curve.sswu F u).y).val
  rw [ZMod.natCast_zmod_val] at snone ssome
  generalize Curve.sswu F u = Q at *
  by_cases hd : xDenF (L.val Q.x) = 0 ∨ yDenF (L.val Q.x) = 0
  · rw [hid hd, snone hd]
    refine ⟨identity_valid L, ?_⟩
    unfold affPtG
    simp [L.val_zero]
  · have h1 : xDenF (L.val Q.x) ≠ 0 := fun h => hd (Or.inl h)
    have h2 : yDenF (L.val Q.x) ≠ 0 := fun h => hd (Or.inr h)
    obtain ⟨vx, vy, vz⟩ := hreg h1 h2
    obtain ⟨a, b, hsm, la, lb, ca, cb⟩ := ssome h1 h2
    rw [ZMod.natCast_zmod_val] at cb
    rw [hsm]
    have hcurve : L.val (Curve.isogeny F Q).y ^ 2 = L.val (Curve.isogeny F Q).x ^ 3 + 7 := by
      rw [vx, vy]; exact iso_on_curve _ _ rel.on_curve h1 h2
    have hRz : Curve.isogeny F Q = ⟨(Curve.isogeny F Q).x, (Curve.isogeny F Q).y, F.one⟩ := by
      cases hR : Curve.isogeny F Q with
      | mk rx ry rz => rw [hR] at vz; simp only at vz; rw [vz]
    obtain ⟨hvalid, haff⟩ := valid_of_affineG L hcc _ _ okR.1 okR.2.1 hcurve
    rw [hRz]
    refine ⟨hvalid, ?_⟩
    rw [haff, vx, vy, ← ca, ← cb, val_cast_of_lt _ la, val_cast_of_lt _ lb]

/-- at the limb implementation -/
theorem affPt_eq_G (P : Pt L4) : affPt P = affPtG limbLawful P := rfl

/-- **C11** at the limb implementation generated from the Go code -/
theorem map_to_curve_spec (u : L4) (hu : limbOk u) :
    PtValid limbLawful (Curve.isogeny FL (Curve.sswu FL u)) ∧
    affPtG limbLawful (Curve.isogeny FL (Curve.sswu FL u)) = mapToCurve (limbVal u).val :=
  map_to_curve_generic limbLawful limb_curveConsts limb_swConsts limb_sqrtConsts limb_sgnLaw limb_isoConsts u hu
