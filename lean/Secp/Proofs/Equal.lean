import Secp.Proofs.GroupLaw
/-!
# `Equal` decides equality of group elements in every pair of representations (C05)
-/
open WeierstrassCurve

variable {α : Type} {F : FieldOps α} {K : Type} [Field K] [DecidableEq K] (L : Lawful F K) (C : CurveOK (7 : K))

/-- cross-multiplied equality is equality in the group -/
theorem cross_iff (P Q : PP K) (hP : OnCurve (7 : K) P) (hQ : OnCurve (7 : K) Q) :
    (P.x * Q.z = Q.x * P.z ∧ P.y * Q.z = Q.y * P.z) ↔ toG 7 C P = toG 7 C Q := by
  by_cases hz1 : P.z = 0 <;> by_cases hz2 : Q.z = 0
  · obtain ⟨hx1, _⟩ := inf_shape P hP hz1
    obtain ⟨hx2, _⟩ := inf_shape Q hQ hz2
    simp [toG, hz1, hz2, hx1, hx2]
  · obtain ⟨_, hy1⟩ := inf_shape P hP hz1
    have e := aff_eq Q hQ hz2
    simp only [toG, hz1, hz2, if_true, if_false, mkPt_eq C e]
    constructor
    · rintro ⟨_, h⟩
      exfalso
      rw [mul_zero] at h
      exact (mul_ne_zero hy1 hz2) h
    · intro h; exact absurd h (by simp)
  · obtain ⟨_, hy2⟩ := inf_shape Q hQ hz2
    have e := aff_eq P hP hz1
    simp only [toG, hz1, hz2, if_true, if_false, mkPt_eq C e]
    constructor
    · rintro ⟨_, h⟩
      exfalso
      rw [mul_zero] at h
      exact (mul_ne_zero hy2 hz1) h.symm
    · intro h; exact absurd h (by simp)
  · have e1 := aff_eq P hP hz1
    have e2 := aff_eq Q hQ hz2
    simp only [toG, hz1, hz2, if_false, mkPt_eq C e1, mkPt_eq C e2, Affine.Point.some.injEq]
    constructor
    · rintro ⟨hx, hy⟩
      exact ⟨by field_simp; linear_combination hx, by field_simp; linear_combination hy⟩
    · rintro ⟨hx, hy⟩
      field_simp at hx hy
      exact ⟨by linear_combination hx, by linear_combination hy⟩

/-- **Equal**: returns 1 exactly for equal group elements, 0 otherwise -/
theorem equal_iff (P Q : Pt α) (hP : PtValid L P) (hQ : PtValid L Q) :
    (Hand.Element.equal F P Q = 1 ↔ toGp L C P = toGp L C Q) ∧
    (Hand.Element.equal F P Q = 0 ∨ Hand.Element.equal F P Q = 1) := by
  obtain ⟨⟨px, py, pz⟩, pc⟩ := hP
  obtain ⟨⟨qx, qy, qz⟩, qc⟩ := hQ
  have a1 := L.ok_mul px qz
  have a2 := L.ok_mul qx pz
  have a3 := L.ok_mul py qz
  have a4 := L.ok_mul qy pz
  have cr := cross_iff C (vpt L P) (vpt L Q) pc qc
  simp only [vpt] at cr
  simp only [Hand.Element.equal, Curve.isEqual, toGp]
  rcases L.equals_bit a1 a2 with h1 | h1 <;> rcases L.equals_bit a3 a4 with h2 | h2
  all_goals simp only [h1, h2]
  all_goals refine ⟨?_, by decide⟩
  · constructor
    · intro h; exact absurd h (by decide)
    · intro h
      have := (cr.mpr h).1
      rw [← L.val_mul px qz, ← L.val_mul qx pz] at this
      rw [L.equals_of_eq a1 a2 this] at h1; exact absurd h1 (by decide)
  · constructor
    · intro h; exact absurd h (by decide)
    · intro h
      have := (cr.mpr h).1
      rw [← L.val_mul px qz, ← L.val_mul qx pz] at this
      rw [L.equals_of_eq a1 a2 this] at h1; exact absurd h1 (by decide)
  · constructor
    · intro h; exact absurd h (by decide)
    · intro h
      have := (cr.mpr h).2
      rw [← L.val_mul py qz, ← L.val_mul qy pz] at this
      rw [L.equals_of_eq a3 a4 this] at h2; exact absurd h2 (by decide)
  · constructor
    · intro _
      apply cr.mp
      have e1 := (L.equals_eq_one_iff a1 a2).mp h1
      have e2 := (L.equals_eq_one_iff a3 a4).mp h2
      rw [L.val_mul px qz, L.val_mul qx pz] at e1
      rw [L.val_mul py qz, L.val_mul qy pz] at e2
      exact ⟨e1, e2⟩
    · intro _; decide

include C in
theorem equal_symm (P Q : Pt α) (hP : PtValid L P) (hQ : PtValid L Q) :
    Hand.Element.equal F P Q = Hand.Element.equal F Q P := by
  obtain ⟨i1, b1⟩ := equal_iff L C P Q hP hQ
  obtain ⟨i2, b2⟩ := equal_iff L C Q P hQ hP
  rcases b1 with h1 | h1 <;> rcases b2 with h2 | h2
  · rw [h1, h2]
  · exact absurd (i1.mpr (i2.mp h2).symm) (by rw [h1]; decide)
  · exact absurd (i2.mpr (i1.mp h1).symm) (by rw [h2]; decide)
  · rw [h1, h2]
