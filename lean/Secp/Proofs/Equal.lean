import Secp.Proofs.CrossMul
/-!
# `Equal` decides equality of group elements in every pair of representations (C05)
-/
open WeierstrassCurve

variable {α : Type} {F : FieldOps α} {K : Type} [Field K] [DecidableEq K] (L : Lawful F K) (C : CurveOK (7 : K))

/-- **Equal**: returns 1 exactly for equal group elements, 0 otherwise -/
theorem equal_iff (P Q : Pt α) (hP : PtValid L P) (hQ : PtValid L Q) :
    (Hand.Element.equal F P Q = 1 ↔ toGp L C P = toGp L C Q) ∧
    (Hand.Element.equal F P Q = 0 ∨ Hand.Element.equal F P Q = 1) := by
  obtain ⟨⟨px, py, pz⟩, pc⟩ := hP
  obtain ⟨⟨qx, qy, qz⟩, qc⟩ := hQ
  have a1 := L.ok_mul px qz
  have a2 := L.ok_mul qx pz
  have a3 := L.ok_mul py qz
  have a4 := L.ok_mul qy pz
  have cr := cross_iff C (vpt L P) (vpt L Q) pc qc
  simp only [vpt] at cr
  simp only [Hand.Element.equal, Curve.isEqual, toGp]
  rcases L.equals_bit a1 a2 with h1 | h1 <;> rcases L.equals_bit a3 a4 with h2 | h2
  all_goals simp only [h1, h2]
  all_goals refine ⟨?_, by decide⟩
  · constructor
    · intro h; exact absurd h (by decide)
    · intro h
      have := (cr.mpr h).1
      rw [← L.val_mul px qz, ← L.val_mul qx pz] at this
      rw [L.equals_of_eq a1 a2 this] at h1; exact absurd h1 (by decide)
  · constructor
    · intro h; exact absurd h (by decide)
    · intro h
      have := (cr.mpr h).1
      rw [← L.val_mul px qz, ← L.val_mul qx pz] at this
      rw [L.equals_of_eq a1 a2 this] at h1; exact absurd h1 (by decide)
  · constructor
    · intro h; exact absurd h (by decide)
    · intro h
      have := (cr.mpr h).2
      rw [← L.val_mul py qz, ← L.val_mul qy pz] at this
      rw [L.equals_of_eq a3 a4 this] at h2; exact absurd h2 (by decide)
  · constructor
    · intro _
      apply cr.mp
      have e1 := (L.equals_eq_one_iff a1 a2).mp h1
      have e2 := (L.equals_eq_one_iff a3 a4).mp h2
      rw [L.val_mul px qz, L.val_mul qx pz] at e1
      rw [L.val_mul py qz, L.val_mul qy pz] at e2
      exact ⟨e1, e2⟩
    · intro _; decide

include C in
theorem equal_symm (P Q : Pt α) (hP : PtValid L P) (hQ : PtValid L Q) :
    Hand.Element.equal F P Q = Hand.Element.equal F Q P := by
  obtain ⟨i1, b1⟩ := equal_iff L C P Q hP hQ
  obtain ⟨i2, b2⟩ := equal_iff L C Q P hQ hP
  rcases b1 with h1 | h1 <;> rcases b2 with h2 | h2
  · rw [h1, h2]
  · exact absurd (i1.mpr (i2.mp h2).symm) (by rw [h1]; decide)
  · exact absurd (i2.mpr (i1.mp h1).symm) (by rw [h2]; decide)
  · rw [h1, h2]
