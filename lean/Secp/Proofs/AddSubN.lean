import Secp.Proofs.AddSub
import Secp.Proofs.FieldLimbN
/-! # `AddSub`: the scalar-field instances (regenerated `FiatScalar` code) -/

theorem add_tie_n (x y : L4) : FiatScalar.add x y = refAdd Mn x y := by
  unfold FiatScalar.add refAdd condSub Mn
  simp only [cmov_tie_n]

theorem sub_tie_n (x y : L4) : FiatScalar.sub x y = refSub maskN x y := by
  unfold FiatScalar.sub refSub maskN
  simp only [cmov_tie_n]

theorem scalarAdd_correct (x y : L4) (hx : x.ok) (hy : y.ok) (hX : x.eval < Nnat) (hY : y.eval < Nnat) :
    (FiatScalar.add x y).ok ∧ (FiatScalar.add x y).eval = (x.eval + y.eval) % Nnat := by
  rw [add_tie_n, ← Mn_val]
  exact refAdd_correct Mn Mn_valid Mn_lt x y hx hy (by rw [Mn_val]; exact hX) (by rw [Mn_val]; exact hY)

theorem scalarSub_correct (x y : L4) (hx : x.ok) (hy : y.ok) (hX : x.eval < Nnat) (hY : y.eval < Nnat) :
    (FiatScalar.sub x y).ok ∧ (FiatScalar.sub x y).eval = (x.eval + Nnat - y.eval) % Nnat := by
  rw [sub_tie_n, ← Mn_val]
  exact refSub_correct Mn Mn_valid Mn_lt maskN maskN_ok x y hx hy (by rw [Mn_val]; exact hX) (by rw [Mn_val]; exact hY)
