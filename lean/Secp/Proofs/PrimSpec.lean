import Secp.Prim
import Mathlib.Tactic.LinearCombination
import Mathlib.Tactic.Ring

theorem W_pos : 0 < W := by decide

theorem mul64_spec (a b : Nat) (ha : a < W) (hb : b < W) :
    (mul64 a b).2 + W * (mul64 a b).1 = a * b ∧ (mul64 a b).2 < W ∧ (mul64 a b).1 ≤ W - 2 := by
  unfold mul64
  refine ⟨by simp only; have := Nat.div_add_mod (a*b) W; omega, Nat.mod_lt _ W_pos, ?_⟩
  simp only
  have h1 : a * b ≤ (W-1) * (W-1) := Nat.mul_le_mul (by omega) (by omega)
  have h2 : (W-1)*(W-1) / W = W - 2 := by decide
  calc a*b / W ≤ (W-1)*(W-1) / W := Nat.div_le_div_right h1
    _ = W - 2 := h2

theorem add64_spec (a b c : Nat) (ha : a < W) (hb : b < W) (hc : c ≤ 1) :
    (add64 a b c).1 + W * (add64 a b c).2 = a + b + c ∧ (add64 a b c).1 < W ∧ (add64 a b c).2 ≤ 1 := by
  unfold add64; simp only [W] at *; omega

def eval4 (a b c d : Nat) : Nat := a + W * b + W^2 * c + W^3 * d
theorem sub64_spec (a b c : Nat) (ha : a < W) (hb : b < W) (hc : c ≤ 1) :
    (sub64 a b c).1 + b + c = a + W * (sub64 a b c).2 ∧ (sub64 a b c).1 < W ∧ (sub64 a b c).2 ≤ 1 := by
  unfold sub64
  simp only
  split <;> simp only [W] at * <;> omega

theorem cmovznz_spec (c z nz : Nat) (hc : c ≤ 1) (hz : z < W) (hnz : nz < W) :
    cmovznz c z nz = if c = 0 then z else nz := by
  unfold cmovznz wmul wnot
  have hW : W = 2^64 := rfl
  rcases Nat.le_one_iff_eq_zero_or_eq_one.mp hc with h | h
  · subst h
    simp only [Nat.zero_mul, Nat.zero_mod, Nat.sub_zero, if_true]
    show Nat.lor (Nat.land 0 nz) (Nat.land (W - 1) z) = z
    have : Nat.land (W - 1) z = z := by
      show (W - 1) &&& z = z
      rw [Nat.and_comm, hW, Nat.and_two_pow_sub_one_eq_mod]; exact Nat.mod_eq_of_lt hz
    rw [this]; show 0 &&& nz ||| z = z; simp
  · subst h
    have h1 : (1 * 18446744073709551615) % W = W - 1 := by decide
    simp only [h1, Nat.sub_self, one_ne_zero, if_false]
    show Nat.lor (Nat.land (W - 1) nz) (Nat.land 0 z) = nz
    have : Nat.land (W - 1) nz = nz := by
      show (W - 1) &&& nz = nz
      rw [Nat.and_comm, hW, Nat.and_two_pow_sub_one_eq_mod]; exact Nat.mod_eq_of_lt hnz
    rw [this]; show nz ||| 0 &&& z = nz; simp

