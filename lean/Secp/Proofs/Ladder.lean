import Secp.Proofs.GroupLaw
import Secp.Proofs.EvalBits
/-!
# The Montgomery ladder of `multiply` computes `[k]P` for every bit string (C01)

Invariant (anchors of C01): after the top `j` bits, `r0 = [prefix]P` and `r1 = r0 + P`, both valid.
Proved by induction on the bit list, one use of the complete addition and of the complete doubling per branch.
-/
open WeierstrassCurve

variable {α : Type} {F : FieldOps α} {K : Type} [Field K] [DecidableEq K] (L : Lawful F K) (C : CurveOK (7 : K))


theorem ladder_inv (hc : CurveConsts L) (P : Pt α) (hP : PtValid L P) (bs : List Nat) (st : Pt α × Pt α) (m : Nat)
    (h0 : PtValid L st.1) (h1 : PtValid L st.2)
    (g0 : toGp L C st.1 = m • toGp L C P) (g1 : toGp L C st.2 = toGp L C st.1 + toGp L C P) :
    PtValid L (bs.foldl (Hand.Element.ladderStep F) st).1 ∧
    toGp L C (bs.foldl (Hand.Element.ladderStep F) st).1 = (evalMsb m bs) • toGp L C P := by
  induction bs generalizing st m with
  | nil => exact ⟨h0, g0⟩
  | cons b bs ih =>
    simp only [List.foldl, evalMsb]
    by_cases hb : b = 0
    · -- r1 := r1 + r0 ; r0 := 2 r0
      have hstep : Hand.Element.ladderStep F st b =
          (Curve.doubleProjectiveComplete_eu F st.1, Curve.addProjectiveComplete_eu_v F st.2 st.1) := by
        simp [Hand.Element.ladderStep, hb]
      rw [hstep]
      obtain ⟨va, ga⟩ := add_correct L C hc st.2 st.1 h1 h0
      obtain ⟨vd, gd⟩ := double_correct L C hc st.1 h0
      simp only [Hand.Element.add, Hand.Element.double] at va ga vd gd
      apply ih _ (2 * m + bitVal b) vd va
      · simp only [gd, g0, bitVal, hb, if_true, Nat.add_zero, two_mul, add_smul]
      · simp only [ga, gd, g1]; abel
    · have hstep : Hand.Element.ladderStep F st b =
          (Curve.addProjectiveComplete_eu_v F st.1 st.2, Curve.doubleProjectiveComplete_eu F st.2) := by
        simp [Hand.Element.ladderStep, hb]
      rw [hstep]
      obtain ⟨va, ga⟩ := add_correct L C hc st.1 st.2 h0 h1
      obtain ⟨vd, gd⟩ := double_correct L C hc st.2 h1
      simp only [Hand.Element.add, Hand.Element.double] at va ga vd gd
      apply ih _ (2 * m + bitVal b) va vd
      · simp only [ga, g1, g0, bitVal, hb, if_false, two_mul, add_smul, one_smul]; abel
      · simp only [ga, gd, g1]; abel

/-- the ladder over any 0/1 (indeed any) bit list yields `[evalBits bits]P`, a valid element -/
theorem ladder_correct (hc : CurveConsts L) (P : Pt α) (hP : PtValid L P) (bits : List Nat) :
    PtValid L (Hand.Element.ladder F P bits) ∧
    toGp L C (Hand.Element.ladder F P bits) = (evalBits bits) • toGp L C P := by
  simp only [Hand.Element.ladder, evalBits]
  apply ladder_inv L C hc P hP bits.reverse (Hand.Element.identity F, P) 0 (identity_valid L) hP
  · simp [toGp_identity]
  · simp [toGp_identity]

/-- `multiply` given what `IsOne` and `Bits` returned: if `IsOne` only answers true for `k = 1` and the bits
denote `k`, the result is `[k]P`. (That `IsOne` and `Bits` do so for every canonical scalar is C13/C14.) -/
theorem multiplyCore_correct (hc : CurveConsts L) (P : Pt α) (hP : PtValid L P) (one : Bool) (bits : List Nat) (k : Nat)
    (hone : one = true → k = 1) (hbits : evalBits bits = k) :
    PtValid L (Hand.Element.multiplyCore F P one bits) ∧
    toGp L C (Hand.Element.multiplyCore F P one bits) = k • toGp L C P := by
  unfold Hand.Element.multiplyCore
  cases one with
  | true =>
    simp only [if_true]
    exact ⟨hP, by rw [hone rfl, one_smul]⟩
  | false =>
    simp only [Bool.false_eq_true, if_false]
    rw [← hbits]
    exact ladder_correct L C hc P hP bits

theorem multiply_some (P : Pt α) (s : L4) :
    Hand.Element.multiply F P (some s) = Hand.Element.multiplyCore F P (Hand.Scalar.isOne s) (Hand.Scalar.bits s) := rfl

theorem multiply_nil (P : Pt α) : Hand.Element.multiply F P none = Hand.Element.identity F := rfl
