import Secp.Proofs.WideReduce
import Secp.Proofs.ScalarEnc
/-! # The 48-byte wide reduction of the scalar field: the big-endian integer modulo `n` -/
open Spec

theorem fn_fromBytesNoReduce (b : Bytes) (hb : IsBytes b) (hl : b.length ≤ 32) :
    sOk (Hand.Fn.fromBytesNoReduce b) ∧ sVal (Hand.Fn.fromBytesNoReduce b) = ((os2ip b : Nat) : Fn) := by
  obtain ⟨l32, hb32, hv⟩ := pad32_spec b hb hl
  obtain ⟨okl, evl⟩ := bytesToLimbs_spec _ l32 hb32
  unfold Hand.Fn.fromBytesNoReduce
  obtain ⟨okm, vm⟩ := s_toMont okl
  exact ⟨okm, by rw [vm, evl, hv]⟩

/-- **HashToFieldElement (scalar field)**: `OS2IP(input) mod n` for every 48-byte input -/
theorem fn_hashToField (input : Bytes) (hb : IsBytes input) (hl : input.length = 48) :
    sOk (Hand.Fn.hashToFieldElement input) ∧ sVal (Hand.Fn.hashToFieldElement input) = ((os2ip input : Nat) : Fn) := by
  have hbt : IsBytes (input.take 24) := fun x hx => hb x (List.mem_of_mem_take hx)
  have hbd : IsBytes (input.drop 24) := fun x hx => hb x (List.mem_of_mem_drop hx)
  unfold Hand.Fn.hashToFieldElement
  simp only
  have hr16 : (List.replicate 16 (0 : Nat)).length = 16 := by simp
  have e1 : (List.replicate 16 0 ++ input).drop 40 = input.drop 24 := by
    have : (List.replicate 16 0 ++ input).drop 40 = ((List.replicate 16 0 ++ input).drop 16).drop 24 := by
      rw [List.drop_drop]
    rw [this, List.drop_left' hr16]
  have e2 : ((List.replicate 16 0 ++ input).drop 16).take 24 = input.take 24 := by
    rw [List.drop_left' hr16]
  have e3 : (List.replicate 16 0 ++ input).take 16 = List.replicate 16 0 := List.take_left' hr16
  rw [e1, e2, e3]
  obtain ⟨oka, va⟩ := fn_fromBytesNoReduce (input.drop 24) hbd (by simp [hl])
  obtain ⟨okb, vb⟩ := fn_fromBytesNoReduce (input.take 24) hbt (by simp [hl])
  obtain ⟨okc, vc⟩ := fn_fromBytesNoReduce (List.replicate 16 0) (isBytes_replicate_zero 16) (by simp)
  have ok192 : sOk Hand.Fn.two192 := ⟨by decide, by decide⟩
  have v192 : sVal Hand.Fn.two192 = ((2 ^ 192 : Nat) : Fn) := sVal_of_mont _ _ (by decide)
  have ok384 : sOk Hand.Fn.two384 := ⟨by decide, by decide⟩
  obtain ⟨okbm, vbm⟩ := s_mul okb ok192
  obtain ⟨okcm, vcm⟩ := s_mul okc ok384
  obtain ⟨ok1, v1⟩ := s_add oka okbm
  obtain ⟨ok2, v2⟩ := s_add ok1 okcm
  refine ⟨ok2, ?_⟩
  have hc0 : os2ip (List.replicate 16 0) = 0 := by
    have := os2ip_zeros 16 []; simpa [os2ip_nil] using this
  rw [v2, v1, vbm, vcm, va, vb, vc, v192, hc0, split48 input hl]
  push_cast; ring
