import Secp.Gen.ElementMul
import Secp.Proofs.ScalarBitsTies
import Secp.Proofs.ScalarApiTiesTests
import Secp.Proofs.ElementApiTies
/-!
# The regenerated `Multiply` / `multiply` of `element.go` (`GenElementMul`) equal the model `Hand.Element.multiply`

`GenElementMul` is written by `go2lean` on every run: the nil test on the scalar, the `IsOne` shortcut, `newElement()`,
`e.copy()`, `s.Bits()`, the loop `for i := 255; i >= 0; i--` with its two branches over the regenerated `Add` and `Double`,
`e.set(r0)`. The proof shows the `Option` program never fails (every `bits[i]` is in range) and folds to the model's ladder.
-/
open Hand Hand.Element

namespace ElementMulTies
variable {α : Type} (F : FieldOps α)

/-- one iteration: the regenerated loop body is the model's `ladderStep` on the bit at position `i` -/
theorem loop_step (bits : List Nat) (i : Nat) (hi : i < bits.length) (st : Pt α × Pt α) :
    GenElementMul.element_multiplyRaw_loop1 F bits i st = some (ladderStep F st bits[i]) := by
  obtain ⟨r0, r1⟩ := st
  unfold GenElementMul.element_multiplyRaw_loop1 ladderStep
  have hb : bits[i]? = some bits[i] := by simp [hi]
  simp only [hb, Option.bind_eq_bind, Option.bind_some, Option.pure_def, ElementApiTies.add_tie, ElementApiTies.double_tie]
  by_cases h0 : bits[i] = 0
  · simp [h0, Hand.Element.add, Hand.Element.double]
  · simp [h0, Hand.Element.add, Hand.Element.double]

/-- folding the regenerated body over any list of in-range positions -/
theorem loop_fold (bits : List Nat) (is : List Nat) (his : ∀ i ∈ is, i < bits.length) (st : Pt α × Pt α) :
    is.foldlM (fun st i => GenElementMul.element_multiplyRaw_loop1 F bits i st) st =
      some ((is.map (fun i => bits.getD i 0)).foldl (ladderStep F) st) := by
  induction is generalizing st with
  | nil => rfl
  | cons i is ih =>
    have hi : i < bits.length := his i (List.mem_cons_self)
    rw [List.foldlM_cons, loop_step F bits i hi]
    simp only [Option.bind_eq_bind, Option.bind_some, List.map_cons, List.foldl_cons]
    rw [ih (fun j hj => his j (List.mem_cons_of_mem _ hj))]
    simp [List.getD, hi]

theorem range_getD (bits : List Nat) : (List.range bits.length).map (fun i => bits.getD i 0) = bits := by
  apply List.ext_getElem
  · simp
  · intro i h1 h2
    simp at h1
    simp [h1]

theorem down_loop (bits : List Nat) (hl : bits.length = 256) (st : Pt α × Pt α) :
    Prim.forDownTo 255 0 st (GenElementMul.element_multiplyRaw_loop1 F bits) =
      some (bits.reverse.foldl (ladderStep F) st) := by
  unfold Prim.forDownTo
  have hr : List.range' 0 (255 + 1 - 0) = List.range bits.length := by
    rw [hl, List.range_eq_range']
  rw [hr, loop_fold F bits _ (by intro i hi; simpa using hi)]
  rw [List.map_reverse, range_getD]

theorem bits_length (s : L4) : (Hand.Scalar.bits s).length = 256 := by
  unfold Hand.Scalar.bits Hand.Scalar.bitsOf
  simp

/-- the body of `multiply` for an arbitrary `IsOne` outcome and bit list: stated over variables so that no proof step makes
the kernel look inside `FromMontgomery` -/
theorem core_tie (e : Pt α) (one : Bool) (bits : List Nat) (hl : bits.length = 256) :
    (if one = true then (some e) else (do
      let r0 : Pt α := GenElementAPI.newElement F
      let r1 : Pt α := GenElementAPI.copyRaw F e
      let (r0, r1) ← Prim.forDownTo 255 0 (r0, r1) (GenElementMul.element_multiplyRaw_loop1 F bits)
      let e := GenElementAPI.setRaw F r0
      pure e)) = some (multiplyCore F e one bits) := by
  unfold multiplyCore ladder
  cases one
  · simp only [Bool.false_eq_true, if_false, Option.bind_eq_bind, Option.pure_def]
    rw [down_loop F bits hl]
    rfl
  · rfl

/-- the whole body of `multiply`, for an arbitrary `IsOne` outcome and an arbitrary (successful) bit expansion -/
theorem raw_shape (e : Pt α) (one : Bool) (bitsO : Option (List Nat)) (bits : List Nat) (hb : bitsO = some bits)
    (hl : bits.length = 256) :
    (if one = true then (some e) else (do
      let r0 : Pt α := GenElementAPI.newElement F
      let r1 : Pt α := GenElementAPI.copyRaw F e
      let t1 ← bitsO
      let bits : List Nat := t1
      let (r0, r1) ← Prim.forDownTo 255 0 (r0, r1) (GenElementMul.element_multiplyRaw_loop1 F bits)
      let e := GenElementAPI.setRaw F r0
      pure e)) = some (multiplyCore F e one bits) := by
  subst hb
  exact core_tie F e one bits hl

theorem multiplyRaw_tie (e : Pt α) (s : L4) :
    GenElementMul.element_multiplyRaw F e s = some (multiplyCore F e (Hand.Scalar.isOne s) (Hand.Scalar.bits s)) :=
  raw_shape F e (GenScalarAPI.isOne s) (GenScalarCodec.scalar_bits s) (Hand.Scalar.bits s) (ScalarCodecTies.bits_tie s)
    (bits_length s)

/-- **the regenerated `Multiply` is the model's** -/
theorem multiply_tie (e : Pt α) (k : Option L4) :
    GenElementMul.element_multiply F e k = some (multiply F e k) := by
  unfold GenElementMul.element_multiply multiply
  cases k with
  | none => rfl
  | some s => simp only [multiplyRaw_tie, Option.bind_eq_bind, Option.bind_some, Option.pure_def]

end ElementMulTies
