import Secp.Proofs.Bits64
import Secp.Gen.FiatField
/-! # `Bits64`: the base-field instances (regenerated `FiatField` code) -/

/-- `IsNonZero(u)` is 1 exactly when `u ≠ 0` (for a 64-bit word) -/
theorem isNonZero_spec_p (u : Nat) (h : u < W) : FiatField.isNonZero u = if u = 0 then 0 else 1 := by
  unfold FiatField.isNonZero wshr wnot wneg
  have hW : W = 2^64 := rfl
  have e1 : Nat.land (W - 1 - 0) u = u := by
    show (W - 1 - 0) &&& u = u
    rw [Nat.sub_zero, Nat.and_comm, hW, Nat.and_two_pow_sub_one_eq_mod]; exact Nat.mod_eq_of_lt h
  have e2 : Nat.xor 0 u = u := by show 0 ^^^ u = u; simp
  rw [e1, e2]
  show (u ||| ((W - 1 - u) &&& ((W - u % W) % W))) >>> 63 = _
  rw [Nat.shiftRight_or_distrib, Nat.shiftRight_and_distrib]
  have hu : u % W = u := Nat.mod_eq_of_lt h
  rw [hu]
  by_cases h0 : u = 0
  · subst h0; simp [hW]
  · simp only [h0, if_false]
    have a1 : (W - u) % W = W - u := Nat.mod_eq_of_lt (by omega)
    rw [a1]
    by_cases hb : u < 2^63
    · have s1 : u >>> 63 = 0 := by rw [shr63_lt u h, if_pos hb]
      have s2 : (W - 1 - u) >>> 63 = 1 := by rw [shr63_lt _ (by omega), if_neg (by simp only [W]; omega)]
      have s3 : (W - u) >>> 63 = 1 := by rw [shr63_lt _ (by omega), if_neg (by simp only [W]; omega)]
      rw [s1, s2, s3]; decide
    · have s1 : u >>> 63 = 1 := by rw [shr63_lt u h, if_neg hb]
      rw [s1]
      have : ∀ x, x ≤ 1 → 1 ||| x = 1 := by decide
      apply this
      have t2 : (W - 1 - u) >>> 63 ≤ 1 := by rw [shr63_lt _ (by omega)]; split <;> omega
      exact Nat.le_trans Nat.and_le_left t2

theorem isZero_spec_p (u : Nat) (h : u < W) : FiatField.isZero u = if u = 0 then 1 else 0 := by
  unfold FiatField.isZero wnot
  rw [isNonZero_spec_p u h]
  split <;> decide

/-- `Element.Equals`: 1 exactly when the four limbs agree -/
theorem equals_spec (e u : L4) (he : e.ok) (hu : u.ok) : FiatField.equals e u = if e = u then 1 else 0 := by
  obtain ⟨e0, e1, e2, e3⟩ := he
  obtain ⟨u0, u1, u2, u3⟩ := hu
  unfold FiatField.equals
  simp only
  have hlt : Nat.lor (Nat.lor (Nat.lor (Nat.xor e.l0 u.l0) (Nat.xor e.l1 u.l1)) (Nat.xor e.l2 u.l2)) (Nat.xor e.l3 u.l3) < W :=
    lor_lt_W _ _ (lor_lt_W _ _ (lor_lt_W _ _ (xor_lt_W _ _ e0 u0) (xor_lt_W _ _ e1 u1)) (xor_lt_W _ _ e2 u2)) (xor_lt_W _ _ e3 u3)
  rw [isZero_spec_p _ hlt]
  have key : Nat.lor (Nat.lor (Nat.lor (Nat.xor e.l0 u.l0) (Nat.xor e.l1 u.l1)) (Nat.xor e.l2 u.l2)) (Nat.xor e.l3 u.l3) = 0 ↔ e = u := by
    rw [lor_eq_zero, lor_eq_zero, lor_eq_zero, xor_eq_zero, xor_eq_zero, xor_eq_zero, xor_eq_zero]
    constructor
    · rintro ⟨⟨⟨h0, h1⟩, h2⟩, h3⟩
      cases e; cases u; simp_all
    · rintro rfl; exact ⟨⟨⟨rfl, rfl⟩, rfl⟩, rfl⟩
  by_cases h : e = u
  · rw [if_pos (key.mpr h), if_pos h]
  · rw [if_neg (fun hh => h (key.mp hh)), if_neg h]

/-- `Nonzero` then `IsZero`: 1 exactly when all four limbs are 0 -/
theorem isZeroL4_spec (e : L4) (he : e.ok) : FiatField.isZero (FiatField.nonzero e) = if e = ⟨0, 0, 0, 0⟩ then 1 else 0 := by
  obtain ⟨e0, e1, e2, e3⟩ := he
  unfold FiatField.nonzero
  simp only
  have hlt : Nat.lor e.l0 (Nat.lor e.l1 (Nat.lor e.l2 e.l3)) < W := lor_lt_W _ _ e0 (lor_lt_W _ _ e1 (lor_lt_W _ _ e2 e3))
  rw [isZero_spec_p _ hlt]
  have key : Nat.lor e.l0 (Nat.lor e.l1 (Nat.lor e.l2 e.l3)) = 0 ↔ e = ⟨0, 0, 0, 0⟩ := by
    rw [lor_eq_zero, lor_eq_zero, lor_eq_zero]
    constructor
    · rintro ⟨h0, h1, h2, h3⟩; cases e; simp_all
    · rintro rfl; exact ⟨rfl, rfl, rfl, rfl⟩
  by_cases h : e = ⟨0, 0, 0, 0⟩
  · rw [if_pos (key.mpr h), if_pos h]
  · rw [if_neg (fun hh => h (key.mp hh)), if_neg h]

/-- `Selectznz` on a 0/1 condition -/
theorem selectznz_spec_p (c : Nat) (hc : c ≤ 1) (u v : L4) (hu : u.ok) (hv : v.ok) :
    FiatField.selectznz c u v = if c = 0 then u else v := by
  obtain ⟨u0, u1, u2, u3⟩ := hu
  obtain ⟨v0, v1, v2, v3⟩ := hv
  unfold FiatField.selectznz
  simp only
  have t : ∀ z nz, FiatField.cmovznzU64 c z nz = cmovznz c z nz := by
    intro z nz; unfold FiatField.cmovznzU64 cmovznz; rfl
  rw [t, t, t, t, cmovznz_spec c _ _ hc u0 v0, cmovznz_spec c _ _ hc u1 v1, cmovznz_spec c _ _ hc u2 v2, cmovznz_spec c _ _ hc u3 v3]
  split <;> rfl
