import Secp.Gen.ScalarCodec
import Secp.Hand.Scalar
/-! # The regenerated `Invert` of `scalar.go` / `internal/scalar` equals the model -/
open Spec Hand Hand.Scalar

namespace ScalarCodecTies

/-! ## `Invert` -/

/-- the two operations the inversion chain is generic over are the regenerated wrappers `(*scalar).Multiply` / `Square` of
`internal/scalar`, i.e. Fiat's `Mul` / `Square` -/
theorem chain_ops_tie (s t u : L4) :
    GenScalarBytes.scalar_multiply s t u = some (Fn.scalarOps.mul t u) ∧
    GenScalarBytes.scalar_square s t = some (Fn.scalarOps.square t) := ⟨rfl, rfl⟩

/-- `scalar.Invert(out, in)` and `Scalar.Invert`, regenerated: the chain applied to a copy of the operand -/
theorem invert_tie (s : L4) : GenScalarCodec.scalar_invert Fn.scalarOps s = some (invert s) := rfl

end ScalarCodecTies
