import Secp.Proofs.FieldLimb
import Secp.Gen.FiatField
/-! # `FieldLimb`: the base-field instances (regenerated `FiatField` code) -/

theorem cmov_tie_p (c z nz : Nat) : FiatField.cmovznzU64 c z nz = cmovznz c z nz := by
  unfold FiatField.cmovznzU64 cmovznz; rfl

theorem mul_tie_p (x y : L4) : FiatField.mul x y = refMul Mp x y := by
  unfold FiatField.mul refMul condSub redStep add5 addShift mulRow Mp
  simp only [cmov_tie_p]

theorem square_tie_p (x : L4) : FiatField.square x = refMul Mp x x := by
  unfold FiatField.square refMul condSub redStep add5 addShift mulRow Mp
  simp only [cmov_tie_p]

theorem fieldMul_correct (x y : L4) (hx : x.ok) (hy : y.ok) (hY : y.eval < Pnat) :
    (FiatField.mul x y).ok ∧ (FiatField.mul x y).eval < Pnat ∧
    ((FiatField.mul x y).eval * W^4) % Pnat = (x.eval * y.eval) % Pnat := by
  rw [mul_tie_p, ← Mp_val]
  exact refMul_L4 Mp Mp_valid Mp_lt x y hx hy (by rw [Mp_val]; exact hY)

theorem fieldSquare_correct (x : L4) (hx : x.ok) (hX : x.eval < Pnat) :
    (FiatField.square x).ok ∧ (FiatField.square x).eval < Pnat ∧
    ((FiatField.square x).eval * W^4) % Pnat = (x.eval * x.eval) % Pnat := by
  rw [square_tie_p, ← Mp_val]
  exact refMul_L4 Mp Mp_valid Mp_lt x x hx hx (by rw [Mp_val]; exact hX)
