import Secp.Gen.ScalarAPI
import Secp.Hand.Scalar
/-! # Ties: regenerated `IsZero`, `IsOne`, `Equal` of `scalar.go` = the model (C13; `IsOne`/`IsZero` also C01, C06 `Pow`, C10) -/
namespace ScalarApiTies
open Hand.Scalar

theorem equal_tie (s : L4) (t : Option L4) : GenScalarAPI.equal s t = equal s t := by cases t <;> rfl
theorem isZero_tie (s : L4) : GenScalarAPI.isZero s = isZero s := rfl
theorem isOne_tie (s : L4) : GenScalarAPI.isOne s = isOne s := rfl

end ScalarApiTies
