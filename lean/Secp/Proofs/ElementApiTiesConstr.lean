import Secp.Gen.ElementAPI
import Secp.Hand.Element
/-! # Ties: regenerated `Identity`, `Set`, `Copy` of `element.go` = the model (C10); see `ElementApiTies` -/
namespace ElementApiTies
variable {α : Type} (F : FieldOps α)

theorem identity_tie : GenElementAPI.identity F = Hand.Element.identity F := rfl
/-- `Set` and `Copy` store / return exactly the coordinates of their source (value copies, no sharing) -/
theorem set_tie (v : Pt α) : GenElementAPI.set F v = v := rfl
theorem copy_tie (e : Pt α) : GenElementAPI.copy F e = e := rfl
/-- `Base()` regenerated (the two coordinate constants copied limb for limb, `z = 1`) is the model's base point -/
theorem base_tie : GenElementAPI.base Hand.limbOps = Hand.ElementL.base := rfl

end ElementApiTies
