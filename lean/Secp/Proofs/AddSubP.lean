import Secp.Proofs.AddSub
import Secp.Proofs.FieldLimbP
/-! # `AddSub`: the base-field instances (regenerated `FiatField` code) -/

theorem add_tie_p (x y : L4) : FiatField.add x y = refAdd Mp x y := by
  unfold FiatField.add refAdd condSub Mp
  simp only [cmov_tie_p]

theorem sub_tie_p (x y : L4) : FiatField.sub x y = refSub maskP x y := by
  unfold FiatField.sub refSub maskP
  simp only [cmov_tie_p]

theorem opp_tie_p (x : L4) : FiatField.opp x = refSub maskP ⟨0, 0, 0, 0⟩ x := by
  unfold FiatField.opp refSub maskP
  simp only [cmov_tie_p]

theorem fieldAdd_correct (x y : L4) (hx : x.ok) (hy : y.ok) (hX : x.eval < Pnat) (hY : y.eval < Pnat) :
    (FiatField.add x y).ok ∧ (FiatField.add x y).eval = (x.eval + y.eval) % Pnat := by
  rw [add_tie_p, ← Mp_val]
  exact refAdd_correct Mp Mp_valid Mp_lt x y hx hy (by rw [Mp_val]; exact hX) (by rw [Mp_val]; exact hY)

theorem fieldSub_correct (x y : L4) (hx : x.ok) (hy : y.ok) (hX : x.eval < Pnat) (hY : y.eval < Pnat) :
    (FiatField.sub x y).ok ∧ (FiatField.sub x y).eval = (x.eval + Pnat - y.eval) % Pnat := by
  rw [sub_tie_p, ← Mp_val]
  exact refSub_correct Mp Mp_valid Mp_lt maskP maskP_ok x y hx hy (by rw [Mp_val]; exact hX) (by rw [Mp_val]; exact hY)

theorem fieldOpp_correct (x : L4) (hx : x.ok) (hX : x.eval < Pnat) :
    (FiatField.opp x).ok ∧ (FiatField.opp x).eval = (Pnat - x.eval) % Pnat := by
  rw [opp_tie_p, ← Mp_val]
  have h := refSub_correct Mp Mp_valid Mp_lt maskP maskP_ok ⟨0, 0, 0, 0⟩ x ⟨W_pos, W_pos, W_pos, W_pos⟩ hx (by decide) (by rw [Mp_val]; exact hX)
  have hz : (⟨0, 0, 0, 0⟩ : L4).eval = 0 := by decide
  rw [hz, Nat.zero_add] at h
  exact h
