import Secp.Proofs.Decode
import Secp.Proofs.SpecPt
/-! # Round trips through the encoders and decoders (C04) -/
open Spec WeierstrassCurve

theorem os2ip_i2osp_lt (v : Nat) (h : v < P) : os2ip (i2osp v 32) = v := by
  rw [os2ip_i2osp]; exact Nat.mod_eq_of_lt (Nat.lt_trans h (by decide))

/-- the specification decoder inverts the specification encoders -/
theorem spec_decode_compressed (pt : APoint) (h : SpecPt pt) : Spec.decode (encodeCompressed pt) = some pt := by
  match pt, h with
  | none, _ => simp [Spec.decode, encodeCompressed]
  | some (x, y), ⟨hx, hy, hc⟩ =>
    unfold Spec.decode encodeCompressed
    have hlen : ((2 + y % 2) :: i2osp x 32).length = 33 := by simp [i2osp_length]
    have hne : ¬ ((2 + y % 2) :: i2osp x 32 : Bytes) = [0] := fun e => by
      have := congrArg List.length e; simp [i2osp_length] at this
    simp only [hne, if_false, hlen, if_true]
    unfold Spec.decodeCompressed
    have hpre : (2 + y % 2 = 2 ∨ 2 + y % 2 = 3) := by
      rcases Nat.mod_two_eq_zero_or_one y with e | e <;> simp [e]
    simp only [i2osp_length, true_and, hpre, if_true, os2ip_i2osp_lt x hx, hx]
    have hsq : IsSquare (((x : Nat) : Fp) ^ 3 + 7) := ⟨(y : Fp), by rw [← hc]; ring⟩
    obtain ⟨y', hl, hy'lt, hy'sq, hy'par⟩ := (liftX_spec x (2 + y % 2 - 2) (by
      rcases Nat.mod_two_eq_zero_or_one y with e | e <;> simp [e])).2 hsq
    rw [hl]
    have : y' = y := by
      apply cast_inj_of_lt _ _ hy'lt hy
      apply root_unique _ _ (by rw [hy'sq, hc])
      rw [val_cast_of_lt _ hy'lt, val_cast_of_lt _ hy, hy'par]; omega
    rw [this]; rfl

theorem spec_decode_uncompressed (pt : APoint) (h : SpecPt pt) : Spec.decode (Spec.encodeUncompressed pt) = some pt := by
  match pt, h with
  | none, _ => simp [Spec.decode, Spec.encodeUncompressed]
  | some (x, y), ⟨hx, hy, hc⟩ =>
    unfold Spec.decode Spec.encodeUncompressed
    have hlen : (4 :: (i2osp x 32 ++ i2osp y 32)).length = 65 := by simp [i2osp_length]
    have hne : ¬ (4 :: (i2osp x 32 ++ i2osp y 32) : Bytes) = [0] := fun e => by
      have := congrArg List.length e; simp [i2osp_length] at this
    have h33 : ¬ (4 :: (i2osp x 32 ++ i2osp y 32)).length = 33 := by rw [hlen]; decide
    simp only [hne, if_false, h33, hlen, if_true]
    unfold Spec.decodeUncompressed
    have hl64 : (i2osp x 32 ++ i2osp y 32).length = 64 := by simp [i2osp_length]
    have ht : (i2osp x 32 ++ i2osp y 32).take 32 = i2osp x 32 := by
      rw [List.take_append_of_le_length (by simp [i2osp_length])]
      exact List.take_of_length_le (by simp [i2osp_length])
    have hd : (i2osp x 32 ++ i2osp y 32).drop 32 = i2osp y 32 := by
      rw [List.drop_append_of_le_length (by simp [i2osp_length])]
      simp [i2osp_length]
    simp only [hl64, if_true, ht, hd]
    unfold Spec.decodeCoordinates
    have hon : onCurve x y = true := by
      unfold onCurve
      simp only [decide_eq_true_eq]
      apply cast_inj_of_lt _ _ (fmul_lt _ _) (fadd_lt _ _)
      rw [cast_fmul, cast_poly]
      linear_combination hc
    simp [i2osp_length, os2ip_i2osp_lt x hx, os2ip_i2osp_lt y hy, hx, hy, hon]

/-- the abstract point of a valid element is a specification point -/
theorem affPt_specPt (P : Pt L4) (hP : PtValid limbLawful P) : SpecPt (affPt P) := by
  by_cases hz : limbVal P.z = 0
  · have : affPt P = none := by unfold affPt; rw [if_pos hz]
    rw [this]; trivial
  · have : affPt P = some ((limbVal P.x / limbVal P.z).val, (limbVal P.y / limbVal P.z).val) := by
      unfold affPt; rw [if_neg hz]
    rw [this]
    refine ⟨ZMod.val_lt _, ZMod.val_lt _, ?_⟩
    rw [ZMod.natCast_zmod_val, ZMod.natCast_zmod_val]
    exact aff_eq (vpt limbLawful P) hP.2 hz

/-- conversely, the abstract affine point determines the group element -/
theorem toGp_of_affPt (P Q : Pt L4) (hP : PtValid limbLawful P) (hQ : PtValid limbLawful Q) (h : affPt P = affPt Q) :
    toGp limbLawful curveOK_Fp P = toGp limbLawful curveOK_Fp Q := by
  apply (cross_iff curveOK_Fp (vpt limbLawful P) (vpt limbLawful Q) hP.2 hQ.2).mp
  have hv : ∀ a, limbLawful.val a = limbVal a := fun _ => rfl
  simp only [vpt, hv]
  unfold affPt at h
  by_cases hz1 : limbVal P.z = 0 <;> by_cases hz2 : limbVal Q.z = 0
  · obtain ⟨hx1, _⟩ := inf_shape (vpt limbLawful P) hP.2 hz1
    obtain ⟨hx2, _⟩ := inf_shape (vpt limbLawful Q) hQ.2 hz2
    simp only [vpt, hv] at hx1 hx2
    rw [hz1, hz2, hx1, hx2]; simp
  · simp [hz1, hz2] at h
  · simp [hz1, hz2] at h
  · simp only [hz1, hz2, if_false, Option.some.injEq, Prod.mk.injEq] at h
    obtain ⟨hx, hy⟩ := h
    have ex : limbVal P.x / limbVal P.z = limbVal Q.x / limbVal Q.z := ZMod.val_injective _ hx
    have ey : limbVal P.y / limbVal P.z = limbVal Q.y / limbVal Q.z := ZMod.val_injective _ hy
    field_simp at ex ey
    exact ⟨by linear_combination ex, by linear_combination ey⟩

theorem isBytes_encodeCompressed (pt : APoint) : IsBytes (encodeCompressed pt) := by
  unfold encodeCompressed
  match pt with
  | none => intro x hx; simp at hx; omega
  | some (a, b) =>
    intro x hx
    simp only [List.mem_cons] at hx
    rcases hx with rfl | hx
    · have := Nat.mod_lt b (by norm_num : 0 < 2); omega
    · exact i2osp_isBytes _ _ x hx

theorem isBytes_encodeUncompressed (pt : APoint) : IsBytes (Spec.encodeUncompressed pt) := by
  unfold Spec.encodeUncompressed
  match pt with
  | none => intro x hx; simp at hx; omega
  | some (a, b) =>
    intro x hx
    simp only [List.mem_cons, List.mem_append] at hx
    rcases hx with rfl | hx | hx
    · norm_num
    · exact i2osp_isBytes _ _ x hx
    · exact i2osp_isBytes _ _ x hx

/-- decoding any byte string equal to the specification encoding of the abstract point of `P` gives back `P` -/
theorem decode_of_spec_encoding (e P : Pt L4) (hP : PtValid limbLawful P) (b : Bytes)
    (hb : b = encodeCompressed (affPt P) ∨ b = Spec.encodeUncompressed (affPt P)) :
    (Hand.ElementL.decode e b).1 = none ∧ PtValid limbLawful (Hand.ElementL.decode e b).2 ∧
    toGp limbLawful curveOK_Fp (Hand.ElementL.decode e b).2 = toGp limbLawful curveOK_Fp P := by
  have hbytes : IsBytes b := by
    rcases hb with rfl | rfl
    · exact isBytes_encodeCompressed _
    · exact isBytes_encodeUncompressed _
  have hs : Spec.decode b = some (affPt P) := by
    rcases hb with rfl | rfl
    · exact spec_decode_compressed _ (affPt_specPt P hP)
    · exact spec_decode_uncompressed _ (affPt_specPt P hP)
  obtain ⟨h1, h2, h3⟩ := (decode_spec e b hbytes).2 _ hs
  exact ⟨h1, h2, toGp_of_affPt _ _ h2 hP h3⟩

/-- **round trip**: `Decode(Encode(P))` and `Decode(EncodeUncompressed(P))` give back `P` (the same group element,
as a valid element), whatever the receiver held before -/
theorem decode_encode (e P : Pt L4) (hP : PtValid limbLawful P) :
    (Hand.ElementL.decode e (Hand.ElementL.encode P)).1 = none ∧
    PtValid limbLawful (Hand.ElementL.decode e (Hand.ElementL.encode P)).2 ∧
    toGp limbLawful curveOK_Fp (Hand.ElementL.decode e (Hand.ElementL.encode P)).2 = toGp limbLawful curveOK_Fp P :=
  decode_of_spec_encoding e P hP _ (Or.inl (encode_spec P hP.1))

theorem decode_encodeUncompressed (e P : Pt L4) (hP : PtValid limbLawful P) :
    (Hand.ElementL.decode e (Hand.ElementL.encodeUncompressed P)).1 = none ∧
    PtValid limbLawful (Hand.ElementL.decode e (Hand.ElementL.encodeUncompressed P)).2 ∧
    toGp limbLawful curveOK_Fp (Hand.ElementL.decode e (Hand.ElementL.encodeUncompressed P)).2 =
      toGp limbLawful curveOK_Fp P :=
  decode_of_spec_encoding e P hP _ (Or.inr (encodeUncompressed_spec P hP.1))
