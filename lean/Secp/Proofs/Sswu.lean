import Secp.Proofs.SswuRef
import Secp.Proofs.SqrtRatio
import Secp.Proofs.Isogeny
import Secp.Proofs.SpecBridge
import Secp.Proofs.Bits64P
import Mathlib.Tactic.FieldSimp
/-!
# The generated straight-line `SSWU` computes the simplified SWU map of RFC 9380 §6.6.2 on every field element
-/
open Spec Spec.Rfc9380

noncomputable section

def cA : Fp := (A' : Fp)
def cB : Fp := (B' : Fp)
def cZ : Fp := (Rfc9380.Z : Fp)

theorem cZ_eq : cZ = -11 := by
  unfold cZ Rfc9380.Z
  rw [Nat.cast_sub (by decide), ZMod.natCast_self]
  simp

theorem cA_ne : cA ≠ 0 := natCast_ne_zero_of_lt A' (by decide) (by decide)
theorem cB_ne : cB ≠ 0 := natCast_ne_zero_of_lt B' (by decide) (by decide)
theorem cZ_ne : cZ ≠ 0 := natCast_ne_zero_of_lt Rfc9380.Z (by decide) (by decide)

theorem gF_eq (x : Fp) : gF x = x ^ 3 + cA * x + cB := rfl

/-- the abscissa candidate `x1` of the textbook map -/
def x1F (u : Fp) : Fp :=
  if (cZ * u ^ 2) ^ 2 + cZ * u ^ 2 = 0 then cB / (cZ * cA)
  else (-cB / cA) * (1 + ((cZ * u ^ 2) ^ 2 + cZ * u ^ 2)⁻¹)

/-- the textbook relation between `u` and the output `(x, y)` of `map_to_curve_simple_swu` -/
def SswuRel (u x y : Fp) : Prop :=
  (IsSquare (gF (x1F u)) → x = x1F u ∧ y ^ 2 = gF (x1F u)) ∧
  (¬ IsSquare (gF (x1F u)) → x = cZ * u ^ 2 * x1F u ∧ y ^ 2 = gF (cZ * u ^ 2 * x1F u)) ∧
  (y ≠ 0 → y.val % 2 = u.val % 2)

/-- in either case the output lies on the isogenous curve `E'` -/
theorem SswuRel.on_curve {u x y : Fp} (h : SswuRel u x y) : y ^ 2 = gF x := by
  by_cases hs : IsSquare (gF (x1F u))
  · obtain ⟨hx, hy⟩ := h.1 hs; rw [hx]; exact hy
  · obtain ⟨hx, hy⟩ := h.2.1 hs; rw [hx]; exact hy

/-- the relation determines the output -/
theorem SswuRel.unique {u x y x' y' : Fp} (h : SswuRel u x y) (h' : SswuRel u x' y') : x = x' ∧ y = y' := by
  have hx : x = x' := by
    by_cases hs : IsSquare (gF (x1F u))
    · rw [(h.1 hs).1, (h'.1 hs).1]
    · rw [(h.2.1 hs).1, (h'.2.1 hs).1]
  refine ⟨hx, ?_⟩
  have hy2 : y ^ 2 = y' ^ 2 := by rw [h.on_curve, h'.on_curve, hx]
  by_cases hy0 : y = 0
  · have : y' ^ 2 = 0 := by rw [← hy2, hy0]; ring
    rw [hy0, pow_eq_zero_iff (by norm_num) |>.mp this]
  · have hy0' : y' ≠ 0 := by
      intro e; apply hy0
      have : y ^ 2 = 0 := by rw [hy2, e]; ring
      exact pow_eq_zero_iff (by norm_num) |>.mp this
    exact root_unique _ _ hy2 (by rw [h.2.2 hy0, h'.2.2 hy0'])


variable {α : Type} {F : FieldOps α} (L : Lawful F Fp)

/-- the three Montgomery constants of `SSWU` denote `A'`, `B'`, `Z` -/
structure SwConsts : Prop where
  okA : L.ok (swA F)
  vA : L.val (swA F) = cA
  okB : L.ok (swB F)
  vB : L.val (swB F) = cB
  okZ : L.ok (swZ F)
  vZ : L.val (swZ F) = cZ

/-- `Sgn0` returns the parity of the canonical value -/
def SgnLaw : Prop := ∀ a, L.ok a → F.sgn0 a = (L.val a).val % 2

/-- the exceptional abscissa `B/(Z·A)` has a square image under `g` (a property of the suite's choice of `Z`) -/
theorem exceptional_square : IsSquare (gF (cB / (cZ * cA))) := by
  have hden : cZ * cA ≠ 0 := mul_ne_zero cZ_ne cA_ne
  -- the value as a cast of a natural number evaluated by the specification arithmetic
  have hv : cB / (cZ * cA) = ((fdiv B' (fmul Rfc9380.Z A') : Nat) : Fp) := by
    unfold fdiv finv
    rw [cast_fmul, cast_powMod, cast_fmul, zmod_pow_sub_two P (by decide)]
    rfl
  rw [hv]
  have hg : gF ((fdiv B' (fmul Rfc9380.Z A') : Nat) : Fp) = ((g' (fdiv B' (fmul Rfc9380.Z A')) : Nat) : Fp) := by
    unfold g' gF
    rw [cast_fadd, cast_fadd, cast_fmul, cast_fmul, cast_fmul]
    ring
  rw [hg]
  apply (isSquare_iff _).mp
  decide +kernel

theorem x1F_den_ne (u : Fp) :
    cA * (if (cZ * u ^ 2) ^ 2 + cZ * u ^ 2 = 0 then cZ else -((cZ * u ^ 2) ^ 2 + cZ * u ^ 2)) ≠ 0 := by
  apply mul_ne_zero cA_ne
  split
  · exact cZ_ne
  · next h => exact neg_ne_zero.mpr h

/-- `x1 = N / D` with `N = B(t+1)`, `D = A·CMOV(-t, Z, t = 0)` -/
theorem x1F_frac (u : Fp) :
    x1F u = (cB * (((cZ * u ^ 2) ^ 2 + cZ * u ^ 2) + 1)) /
      (cA * (if (cZ * u ^ 2) ^ 2 + cZ * u ^ 2 = 0 then cZ else -((cZ * u ^ 2) ^ 2 + cZ * u ^ 2))) := by
  unfold x1F
  have hA := cA_ne
  have hZ := cZ_ne
  generalize (cZ * u ^ 2) ^ 2 + cZ * u ^ 2 = t
  by_cases h : t = 0
  · simp only [h, if_true, zero_add, mul_one]
    field_simp
  · simp only [h, if_false]
    field_simp

/-- the key identity of the simplified SWU map (non-exceptional case): `g(Z u² x1) = (Z u²)³ g(x1)` -/
theorem sswu_key (u : Fp) (ht : (cZ * u ^ 2) ^ 2 + cZ * u ^ 2 ≠ 0) :
    gF (cZ * u ^ 2 * x1F u) = (cZ * u ^ 2) ^ 3 * gF (x1F u) := by
  unfold x1F
  simp only [ht, if_false, gF_eq]
  generalize cZ * u ^ 2 = w at *
  obtain ⟨s, hs⟩ : ∃ s, (w ^ 2 + w) * s = 1 := ⟨_, mul_inv_cancel₀ ht⟩
  obtain ⟨r, hr⟩ : ∃ r, cA * r = 1 := ⟨_, mul_inv_cancel₀ cA_ne⟩
  have e1 : (w ^ 2 + w)⁻¹ = s := (eq_inv_of_mul_eq_one_right hs).symm
  have e2 : -cB / cA = -cB * r := by
    rw [div_eq_mul_inv]; congr 1; exact (eq_inv_of_mul_eq_one_right hr).symm
  rw [e1, e2]
  linear_combination (cA * cB * r * (w - 1)) * hs + (cB * (w - 1) * (w ^ 2 + w + 1)) * hr


theorem isEqual_spec (a b : Nat) (ha : a < W) (hb : b < W) : FiatField.isEqual a b = if a = b then 1 else 0 := by
  unfold FiatField.isEqual
  rw [isZero_spec_p _ (xor_lt_W a b ha hb)]
  by_cases h : a = b
  · rw [if_pos ((xor_eq_zero a b).mpr h), if_pos h]
  · rw [if_neg (fun e => h ((xor_eq_zero a b).mp e)), if_neg h]

theorem swTv1_spec (hc : SwConsts L) {u : α} (hu : L.ok u) :
    L.ok (swTv1 F u) ∧ L.val (swTv1 F u) = cZ * L.val u ^ 2 := by
  have o := L.ok_square hu
  refine ⟨L.ok_mul hc.okZ o, ?_⟩
  unfold swTv1
  rw [L.val_mul hc.okZ o, L.val_square hu, hc.vZ]; ring

theorem swT_spec {v : α} (hv : L.ok v) : L.ok (swT F v) ∧ L.val (swT F v) = L.val v ^ 2 + L.val v := by
  have o := L.ok_square hv
  refine ⟨L.ok_add o hv, ?_⟩
  unfold swT
  rw [L.val_add o hv, L.val_square hv]; ring

theorem swN_spec (hc : SwConsts L) {t : α} (ht : L.ok t) :
    L.ok (swN F t) ∧ L.val (swN F t) = cB * (L.val t + 1) := by
  have o := L.ok_add ht L.ok_one
  refine ⟨L.ok_mul hc.okB o, ?_⟩
  unfold swN
  rw [L.val_mul hc.okB o, L.val_add ht L.ok_one, L.val_one, hc.vB]

theorem swD_spec (hc : SwConsts L) {t : α} (ht : L.ok t) :
    L.ok (swD F t) ∧ L.val (swD F t) = cA * (if L.val t = 0 then cZ else - L.val t) := by
  have on := L.ok_neg ht
  unfold swD
  by_cases h : L.val t = 0
  · rw [L.isZero_of_eq ht h, L.cmove_one on hc.okZ, if_pos h]
    exact ⟨L.ok_mul hc.okA hc.okZ, by rw [L.val_mul hc.okA hc.okZ, hc.vA, hc.vZ]⟩
  · rw [L.isZero_of_ne ht h, L.cmove_zero on hc.okZ, if_neg h]
    exact ⟨L.ok_mul hc.okA on, by rw [L.val_mul hc.okA on, L.val_neg ht, hc.vA]⟩

theorem swG_spec (hc : SwConsts L) {N D : α} (hN : L.ok N) (hD : L.ok D) :
    L.ok (swGNum F N D) ∧ L.ok (swGDen F D) ∧
    L.val (swGNum F N D) = (L.val N ^ 2 + cA * L.val D ^ 2) * L.val N + cB * L.val D ^ 3 ∧
    L.val (swGDen F D) = L.val D ^ 3 := by
  have o1 := L.ok_square hN
  have o2 := L.ok_square hD
  have o3 := L.ok_mul hc.okA o2
  have o4 := L.ok_add o1 o3
  have o5 := L.ok_mul o4 hN
  have o6 := L.ok_mul o2 hD
  have o7 := L.ok_mul hc.okB o6
  refine ⟨L.ok_add o5 o7, o6, ?_, ?_⟩
  · unfold swGNum
    rw [L.val_add o5 o7, L.val_mul o4 hN, L.val_add o1 o3, L.val_square hN, L.val_mul hc.okA o2, L.val_square hD,
      L.val_mul hc.okB o6, L.val_mul o2 hD, L.val_square hD, hc.vA, hc.vB]
    ring
  · unfold swGDen
    rw [L.val_mul o2 hD, L.val_square hD]; ring

theorem bit_cases (a : Nat) (h : a % 2 = 0 ∨ a % 2 = 1) : True := trivial

/-- **the generated SSWU satisfies the textbook relation** for every canonical `u` -/
theorem sswu_rel (hc : SwConsts L) (hq : SqrtConsts L) (hs : SgnLaw L) (u : α) (hu : L.ok u) :
    L.ok (Curve.sswu F u).x ∧ L.ok (Curve.sswu F u).y ∧ (Curve.sswu F u).z = F.one ∧
    SswuRel (L.val u) (L.val (Curve.sswu F u).x) (L.val (Curve.sswu F u).y) := by
  rw [sswu_tie]
  obtain ⟨otv1, vtv1⟩ := swTv1_spec L hc hu
  obtain ⟨ot, vt⟩ := swT_spec L otv1
  obtain ⟨oN, vN⟩ := swN_spec L hc ot
  obtain ⟨oD, vD⟩ := swD_spec L hc ot
  obtain ⟨ogn, ogd, vgn, vgd⟩ := swG_spec L hc oN oD
  generalize swTv1 F u = tv1 at *
  generalize swT F tv1 = t at *
  generalize swN F t = N at *
  generalize swD F t = D at *
  set U := L.val u with hU
  have htw : L.val t = (cZ * U ^ 2) ^ 2 + cZ * U ^ 2 := by rw [vt, vtv1]
  rw [htw] at vN vD
  have hDne : L.val D ≠ 0 := by rw [vD]; exact x1F_den_ne U
  have hx1 : x1F U = L.val N / L.val D := by rw [x1F_frac U, vN, vD]
  have hgd_ne : L.val (swGDen F D) ≠ 0 := by rw [vgd]; exact pow_ne_zero _ hDne
  have hratio : L.val (swGNum F N D) / L.val (swGDen F D) = gF (x1F U) := by
    rw [vgn, vgd, hx1, gF_eq]; field_simp
  obtain ⟨okr, hr⟩ := sqrtRatio_spec L hq _ _ ogn ogd hgd_ne
  rw [hratio] at hr
  obtain ⟨oinv, vinv⟩ := L_invert L oD
  unfold swOut
  simp only
  generalize hrr : FieldChains.sqrtRatio F (swGNum F N D) (swGDen F D) = r at *
  have otn := L.ok_mul otv1 oN
  have otu := L.ok_mul otv1 hu
  have oyn := L.ok_mul otu okr
  -- the two cases of sqrt_ratio
  have main : ∀ (xn y0 : α), L.ok xn → L.ok y0 →
      (IsSquare (gF (x1F U)) → L.val xn = L.val N ∧ L.val y0 ^ 2 = gF (x1F U)) →
      (¬ IsSquare (gF (x1F U)) → L.val xn = cZ * U ^ 2 * L.val N ∧ L.val y0 ^ 2 = gF (cZ * U ^ 2 * x1F U)) →
      L.ok (F.mul xn (FieldChains.invert F D)) ∧
      L.ok (F.cmove (FiatField.isEqual (F.sgn0 u) (F.sgn0 y0)) (F.neg y0) y0) ∧
      SswuRel U (L.val (F.mul xn (FieldChains.invert F D)))
        (L.val (F.cmove (FiatField.isEqual (F.sgn0 u) (F.sgn0 y0)) (F.neg y0) y0)) := by
    intro xn y0 oxn oy0 hsq hnsq
    have ony := L.ok_neg oy0
    have su := hs u hu
    have sy := hs y0 oy0
    have bu : F.sgn0 u < W := by rw [su]; have := Nat.mod_lt U.val (by norm_num : 0 < 2); simp only [W]; omega
    have by0 : F.sgn0 y0 < W := by
      rw [sy]; have := Nat.mod_lt (L.val y0).val (by norm_num : 0 < 2); simp only [W]; omega
    rw [isEqual_spec _ _ bu by0]
    have vx : L.val (F.mul xn (FieldChains.invert F D)) = L.val xn / L.val D := by
      rw [L.val_mul oxn oinv, vinv]; rfl
    refine ⟨L.ok_mul oxn oinv, ?_, ?_⟩
    · split
      · rw [L.cmove_one ony oy0]; exact oy0
      · rw [L.cmove_zero ony oy0]; exact ony
    · -- value of the sign-fixed ordinate
      have hy : ∀ Y : Fp, (Y = L.val y0 ∨ Y = - L.val y0) → Y ^ 2 = L.val y0 ^ 2 := by
        rintro Y (rfl | rfl) <;> ring
      have hyfix : (L.val (F.cmove (if F.sgn0 u = F.sgn0 y0 then 1 else 0) (F.neg y0) y0)) ^ 2 = L.val y0 ^ 2 ∧
          (L.val (F.cmove (if F.sgn0 u = F.sgn0 y0 then 1 else 0) (F.neg y0) y0) ≠ 0 →
            (L.val (F.cmove (if F.sgn0 u = F.sgn0 y0 then 1 else 0) (F.neg y0) y0)).val % 2 = U.val % 2) := by
        by_cases he : F.sgn0 u = F.sgn0 y0
        · rw [if_pos he, L.cmove_one ony oy0]
          exact ⟨rfl, fun _ => by rw [← sy, ← he, su]⟩
        · rw [if_neg he, L.cmove_zero ony oy0, L.val_neg oy0]
          refine ⟨by ring, fun hne => ?_⟩
          have hy0ne : L.val y0 ≠ 0 := fun e => hne (by rw [e, neg_zero])
          rw [val_neg_parity _ hy0ne, ← sy, ← su]
          rw [su, sy] at he
          have := Nat.mod_two_eq_zero_or_one U.val
          have := Nat.mod_two_eq_zero_or_one (L.val y0).val
          rw [su, sy]; omega
      refine ⟨fun h => ?_, fun h => ?_, hyfix.2⟩
      · obtain ⟨e1, e2⟩ := hsq h
        exact ⟨by rw [vx, e1, hx1], by rw [hyfix.1, e2]⟩
      · obtain ⟨e1, e2⟩ := hnsq h
        refine ⟨by rw [vx, e1, hx1]; field_simp, by rw [hyfix.1, e2]⟩
  rcases hr with ⟨hsq, hflag, hroot⟩ | ⟨hnsq, hflag, hroot⟩
  · rw [hflag, L.cmove_one otn oN, L.cmove_one oyn okr]
    obtain ⟨h1, h2, h3⟩ := main N r.1 oN okr (fun _ => ⟨rfl, hroot⟩) (fun h => absurd hsq h)
    exact ⟨h1, h2, trivial, h3⟩
  · rw [hflag, L.cmove_zero otn oN, L.cmove_zero oyn okr]
    -- the exceptional case cannot be a non-square
    have ht_ne : (cZ * U ^ 2) ^ 2 + cZ * U ^ 2 ≠ 0 := by
      intro h0
      apply hnsq
      have : x1F U = cB / (cZ * cA) := by unfold x1F; rw [if_pos h0]
      rw [this]; exact exceptional_square
    have hy2 : L.val (F.mul (F.mul tv1 u) r.1) ^ 2 = gF (cZ * U ^ 2 * x1F U) := by
      rw [L.val_mul otu okr, L.val_mul otv1 hu, vtv1, mul_pow, hroot, sswu_key U ht_ne, cZ_eq]
      ring
    obtain ⟨h1, h2, h3⟩ := main (F.mul tv1 N) (F.mul (F.mul tv1 u) r.1) otn oyn (fun h => absurd h hnsq)
      (fun _ => ⟨by rw [L.val_mul otv1 oN, vtv1], hy2⟩)
    exact ⟨h1, h2, trivial, h3⟩


theorem nonsq_mul {a b : Fp} (ha : ¬ IsSquare a) (hb : ¬ IsSquare b) : IsSquare (a * b) := by
  have ha0 : a ≠ 0 := fun e => ha (by rw [e]; exact ⟨0, by simp⟩)
  have hb0 : b ≠ 0 := fun e => hb (by rw [e]; exact ⟨0, by simp⟩)
  have ea : a ^ (P / 2) = -1 := by
    rcases ZMod.pow_div_two_eq_neg_one_or_one P ha0 with h | h
    · exact absurd ((ZMod.euler_criterion P ha0).mpr h) ha
    · exact h
  have eb : b ^ (P / 2) = -1 := by
    rcases ZMod.pow_div_two_eq_neg_one_or_one P hb0 with h | h
    · exact absurd ((ZMod.euler_criterion P hb0).mpr h) hb
    · exact h
  apply (ZMod.euler_criterion P (mul_ne_zero ha0 hb0)).mpr
  rw [mul_pow, ea, eb]; ring

theorem cZ_nonsquare : ¬ IsSquare cZ := by
  intro h
  have := (isSquare_iff Rfc9380.Z).mpr h
  revert this
  decide +kernel

theorem cast_g' (x : Nat) : ((g' x : Nat) : Fp) = gF (x : Fp) := by
  unfold g' gF
  rw [cast_fadd, cast_fadd, cast_fmul, cast_fmul, cast_fmul]; ring

theorem cast_finv (a : Nat) : ((finv a : Nat) : Fp) = ((a : Nat) : Fp)⁻¹ := by
  unfold finv; rw [cast_powMod, zmod_pow_sub_two P (by decide)]

theorem cast_fdiv (a b : Nat) : ((fdiv a b : Nat) : Fp) = (a : Fp) / (b : Fp) := by
  unfold fdiv; rw [cast_fmul, cast_finv, div_eq_mul_inv]

/-- **the executable specification satisfies the same relation** (so it is the same function as the code) -/
theorem spec_sswu_rel (u : Nat) :
    (mapToCurveSimpleSwu u).1 < P ∧ (mapToCurveSimpleSwu u).2 < P ∧
    SswuRel (u : Fp) ((mapToCurveSimpleSwu u).1 : Fp) ((mapToCurveSimpleSwu u).2 : Fp) := by
  unfold mapToCurveSimpleSwu
  simp only
  set U : Fp := (u : Fp) with hU
  set zu2 := fmul Rfc9380.Z (fmul u u) with hzu
  have czu : (zu2 : Fp) = cZ * U ^ 2 := by rw [hzu, cast_fmul, cast_fmul]; unfold cZ; ring
  set tn := fadd (fmul zu2 zu2) zu2 with htn
  have ct : (tn : Fp) = (cZ * U ^ 2) ^ 2 + cZ * U ^ 2 := by rw [htn, cast_fadd, cast_fmul, czu]; ring
  have ctv1 : ((finv tn : Nat) : Fp) = ((cZ * U ^ 2) ^ 2 + cZ * U ^ 2)⁻¹ := by rw [cast_finv, ct]
  have hfl : finv tn < P := by unfold finv; exact powMod_lt _ _ _ P_gt
  have hz : finv tn = 0 ↔ (cZ * U ^ 2) ^ 2 + cZ * U ^ 2 = 0 := by
    constructor
    · intro h
      have h2 : ((cZ * U ^ 2) ^ 2 + cZ * U ^ 2)⁻¹ = 0 := by rw [← ctv1, h]; simp
      exact inv_eq_zero.mp h2
    · intro h
      apply cast_inj_of_lt _ _ hfl P_pos
      rw [ctv1, h]; simp
  -- x1
  set x1n := (if finv tn = 0 then fdiv B' (fmul Rfc9380.Z A') else fmul (fdiv (fneg B') A') (fadd 1 (finv tn))) with hx1n
  have cx1 : (x1n : Fp) = x1F U := by
    unfold x1F
    by_cases h0 : (cZ * U ^ 2) ^ 2 + cZ * U ^ 2 = 0
    · rw [hx1n, if_pos (hz.mpr h0), if_pos h0, cast_fdiv, cast_fmul]; rfl
    · rw [hx1n, if_neg (fun e => h0 (hz.mp e)), if_neg h0, cast_fmul, cast_fdiv, cast_fneg, cast_fadd, ctv1]
      unfold cA cB; simp
  have x1lt : x1n < P := by
    rw [hx1n]; split
    · exact fmul_lt _ _
    · exact fmul_lt _ _
  have cg1 : ((g' x1n : Nat) : Fp) = gF (x1F U) := by rw [cast_g', cx1]
  have cx2 : ((fmul zu2 x1n : Nat) : Fp) = cZ * U ^ 2 * x1F U := by rw [cast_fmul, czu, cx1]
  have cg2 : ((g' (fmul zu2 x1n) : Nat) : Fp) = gF (cZ * U ^ 2 * x1F U) := by rw [cast_g', cx2]
  have hsq1 : isSquare (g' x1n) = true ↔ IsSquare (gF (x1F U)) := by rw [isSquare_iff, cg1]
  -- sign handling, generic in the chosen root
  have sign : ∀ (y0 : Nat), y0 < P →
      (if sgn0 (u % P) ≠ sgn0 y0 then fneg y0 else y0) < P ∧
      (((if sgn0 (u % P) ≠ sgn0 y0 then fneg y0 else y0 : Nat) : Fp)) ^ 2 = (y0 : Fp) ^ 2 ∧
      ((((if sgn0 (u % P) ≠ sgn0 y0 then fneg y0 else y0 : Nat) : Fp)) ≠ 0 →
        (((if sgn0 (u % P) ≠ sgn0 y0 then fneg y0 else y0 : Nat) : Fp)).val % 2 = U.val % 2) := by
    intro y0 hy0
    have hUv : U.val = u % P := ZMod.val_natCast (n := P) u
    unfold sgn0
    by_cases hne : u % P % 2 ≠ y0 % 2
    · rw [if_pos hne]
      refine ⟨fneg_lt _, by rw [cast_fneg]; ring, fun h0 => ?_⟩
      have hy0ne : (y0 : Fp) ≠ 0 := fun e => h0 (by rw [cast_fneg, e, neg_zero])
      rw [cast_fneg, val_neg_parity _ hy0ne, val_cast_of_lt _ hy0, hUv]
      have := Nat.mod_two_eq_zero_or_one (u % P)
      have := Nat.mod_two_eq_zero_or_one y0
      omega
    · rw [if_neg hne]
      refine ⟨hy0, rfl, fun _ => ?_⟩
      rw [val_cast_of_lt _ hy0, hUv]
      omega
  by_cases hs : isSquare (g' x1n) = true
  · rw [if_pos hs]
    simp only
    have hS := hsq1.mp hs
    have hroot := fsqrt_sq (g' x1n) (by rw [cg1]; exact hS)
    obtain ⟨l, sq, par⟩ := sign (fsqrt (g' x1n)) (powMod_lt _ _ _ P_gt)
    refine ⟨x1lt, l, fun _ => ⟨cx1, by rw [sq, hroot, cg1]⟩, fun h => absurd hS h, par⟩
  · rw [if_neg hs]
    simp only
    have hS : ¬ IsSquare (gF (x1F U)) := fun h => hs (hsq1.mpr h)
    -- non-exceptional, and the second candidate has a square image
    have ht_ne : (cZ * U ^ 2) ^ 2 + cZ * U ^ 2 ≠ 0 := by
      intro h0
      apply hS
      have : x1F U = cB / (cZ * cA) := by unfold x1F; rw [if_pos h0]
      rw [this]; exact exceptional_square
    have hsq2 : IsSquare (gF (cZ * U ^ 2 * x1F U)) := by
      rw [sswu_key U ht_ne]
      have h1 := nonsq_mul cZ_nonsquare hS
      obtain ⟨s, hs'⟩ := h1
      exact ⟨s * (cZ * U ^ 3), by
        have : (cZ * U ^ 2) ^ 3 * gF (x1F U) = (cZ * gF (x1F U)) * (cZ * U ^ 3) ^ 2 := by ring
        rw [this, hs']; ring⟩
    have hroot := fsqrt_sq (g' (fmul zu2 x1n)) (by rw [cg2]; exact hsq2)
    obtain ⟨l, sq, par⟩ := sign (fsqrt (g' (fmul zu2 x1n))) (powMod_lt _ _ _ P_gt)
    refine ⟨fmul_lt _ _, l, fun h => absurd h hS, fun _ => ⟨cx2, by rw [sq, hroot, cg2]⟩, par⟩

end
