import Secp.Gen.Decode
import Secp.Hand.Element
import Secp.Proofs.BytesLemmas
/-!
# Ties between the regenerated point decoders of `element.go` and the model the C03 theorems are about

`go2lean` (decoder mode) translates `DecodeCoordinates`, `DecodeCompressed`, `DecodeUncompressed`, `Decode` on every run:
length and prefix tests on the byte string, the calls into `field.Element` (the 32-byte parser is the parameter
`ByteOps.fromBytesWithReduce`, instantiated here with its model), every early `return err` with the content of the
receiver *at that point*, the `switch` on the length, the tail calls between the decoders. The hand-written
`Hand.ElementL.decode*` are the same functions: same acceptance, same error, same receiver on error, same stored value.
-/
namespace DecodeTies
open Hand.ElementL

/-- the byte-level methods at the limb implementation -/
def limbBytes : ByteOps L4 := ⟨Hand.Fp.fromBytesWithReduce, Hand.Fp.bytes⟩

/-- the Go error variable an error of the model stands for -/
def errName : Err → String
  | .invalidPointEncoding => "errParamInvalidPointEncoding"
  | .hexError => "hexError"

/-- result of the model in the shape of the regenerated decoders -/
def shape (r : Option Err × Pt L4) : Option String × Pt L4 := (r.1.map errName, r.2)

/-- two conditionals on the same condition correspond when their branches do -/
theorem ite_shape {c : Prop} [Decidable c] {a b : Option String × Pt L4} {a' b' : Option Err × Pt L4}
    (ha : a = shape a') (hb : b = shape b') : (if c then a else b) = shape (if c then a' else b') := by
  split <;> assumption

theorem decodeCoordinates_tie (e : Pt L4) (x y : Spec.Bytes) :
    GenDecode.decodeCoordinates limbBytes Hand.limbOps e x y = shape (decodeCoordinates e x y) :=
  ite_shape rfl (ite_shape rfl (ite_shape rfl rfl))

theorem decodeCompressed_tie (e : Pt L4) (data : Spec.Bytes) :
    GenDecode.decodeCompressed limbBytes Hand.limbOps e data = shape (decodeCompressed e data) :=
  ite_shape rfl (ite_shape rfl (ite_shape rfl (ite_shape rfl rfl)))

theorem decodeUncompressed_tie (e : Pt L4) (data : Spec.Bytes) :
    GenDecode.decodeUncompressed limbBytes Hand.limbOps e data = shape (decodeUncompressed e data) :=
  ite_shape rfl (ite_shape rfl (decodeCoordinates_tie e _ _))

theorem decode_tie (e : Pt L4) (data : Spec.Bytes) :
    GenDecode.decode limbBytes Hand.limbOps e data = shape (decode e data) := by
  unfold GenDecode.decode decode
  by_cases h1 : data.length = 1
  · rw [if_pos h1, if_pos h1]
    match data, h1 with
    | [b], _ => exact ite_shape rfl rfl
  · rw [if_neg h1, if_neg h1]
    by_cases h2 : data.length = 33
    · rw [if_pos h2, if_pos h2]
      exact decodeCompressed_tie e data
    · rw [if_neg h2, if_neg h2]
      by_cases h3 : data.length = 65
      · rw [if_pos h3, if_pos h3]
        exact decodeUncompressed_tie e data
      · rw [if_neg h3, if_neg h3]
        rfl

/-! ## encoders -/

theorem bytes_length (a : L4) : (Hand.Fp.bytes a).length = 32 := by
  unfold Hand.Fp.bytes Hand.limbsToBytes
  simp [Spec.i2osp_length]

theorem encodeUncompressed_tie (e : Pt L4) :
    GenDecode.encodeUncompressed limbBytes Hand.limbOps e = encodeUncompressed e := rfl

theorem set_head (p : Nat) : List.set (List.replicate 33 0) 0 p = p :: List.replicate 32 0 := rfl

theorem overwrite_body (p : Nat) (b : List Nat) (hb : b.length = 32) :
    List.take 1 (p :: List.replicate 32 0) ++ b ++ List.drop (1 + b.length) (p :: List.replicate 32 0) = p :: b := by
  rw [hb]
  show [p] ++ b ++ [] = p :: b
  simp

theorem encode_tie (e : Pt L4) : GenDecode.encode limbBytes Hand.limbOps e = encode e := by
  unfold GenDecode.encode encode ctSelect Hand.ElementL.F
  simp only [limbBytes, set_head]
  by_cases h : FiatField.isZero (Hand.limbOps.isZero e.z) = 1
  · rw [if_pos h, if_pos h, overwrite_body _ _ (bytes_length _)]
    rfl
  · rw [if_neg h, if_neg h]
    rfl

theorem xCoordinate_tie (e : Pt L4) : GenDecode.xCoordinate limbBytes Hand.limbOps e = xCoordinate e := by
  show List.drop 1 (GenDecode.encode limbBytes Hand.limbOps e) = List.drop 1 (encode e)
  rw [encode_tie]

end DecodeTies
