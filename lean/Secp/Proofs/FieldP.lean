import Secp.Proofs.PrattData
import Secp.Proofs.RCB
import Mathlib.FieldTheory.Finite.Basic
/-!
# The base field `ZMod p` and the scalar field `ZMod n`; the curve has no point of order two
-/
open Spec

instance fact_P_prime : Fact (Nat.Prime P) :=
  ⟨PrattData.prime_115792089237316195423570985008687907853269984665640564039457584007908834671663⟩
instance fact_N_prime : Fact (Nat.Prime N) :=
  ⟨PrattData.prime_115792089237316195423570985008687907852837564279074904382605163141518161494337⟩

abbrev Fp := ZMod P
abbrev Fn := ZMod N

theorem P_gt : 1 < P := by decide
theorem N_gt : 1 < N := by decide

theorem natCast_ne_zero_of_lt (k : Nat) (h0 : 0 < k) (hk : k < P) : (k : Fp) ≠ 0 := by
  intro h
  rw [ZMod.natCast_eq_zero_iff] at h
  exact absurd (Nat.le_of_dvd h0 h) (by omega)

/-- `(-7)^((p-1)/3) ≠ 1`, by kernel evaluation: `-7` is not a cube, so `x³ + 7` has no root -/
theorem neg7_not_cube : powMod (P - 7) ((P - 1) / 3) P ≠ 1 := by decide +kernel

theorem no_two_torsion : ∀ x : Fp, x ^ 3 + 7 ≠ 0 := by
  intro x h
  have hx3 : x ^ 3 = -7 := by linear_combination h
  have h7 : (7 : Fp) ≠ 0 := by
    have := natCast_ne_zero_of_lt 7 (by norm_num) (by decide)
    simpa using this
  have hx : x ≠ 0 := by
    rintro rfl
    apply h7
    have : (0 : Fp) ^ 3 = -7 := hx3
    simp at this
    exact this
  have hf : x ^ (P - 1) = 1 := ZMod.pow_card_sub_one_eq_one hx
  have hdiv : P - 1 = 3 * ((P - 1) / 3) := by decide
  rw [hdiv, pow_mul, hx3] at hf
  -- (-7 : Fp) = ((P - 7 : ℕ) : Fp)
  have hc : (-7 : Fp) = ((P - 7 : Nat) : Fp) := by
    rw [Nat.cast_sub (by decide)]
    simp
  rw [hc, ← Nat.cast_pow] at hf
  have h1 : ((1 : Nat) : Fp) = 1 := by simp
  rw [← h1, ZMod.natCast_eq_natCast_iff'] at hf
  rw [Nat.mod_eq_of_lt P_gt, ← powMod_eq _ _ _ P_gt] at hf
  exact neg7_not_cube hf

theorem curveOK_Fp : CurveOK (7 : Fp) where
  h2 := by simpa using natCast_ne_zero_of_lt 2 (by norm_num) (by decide)
  h3 := by simpa using natCast_ne_zero_of_lt 3 (by norm_num) (by decide)
  hb := by simpa using natCast_ne_zero_of_lt 7 (by norm_num) (by decide)
  no2 := no_two_torsion
