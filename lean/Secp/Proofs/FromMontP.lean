import Secp.Proofs.FromMont
import Secp.Proofs.FieldLimbP
/-! # `FromMont`: the base-field instances (regenerated `FiatField` code) -/

theorem fromMont_tie_p (x : L4) : FiatField.fromMontgomery x = refFromMont Mp x := by
  unfold FiatField.fromMontgomery refFromMont condSub redStep add4c addShift mulRow Mp
  simp only [cmov_tie_p]

theorem fieldFromMont_correct (x : L4) (hx : x.ok) :
    (FiatField.fromMontgomery x).ok ∧ (FiatField.fromMontgomery x).eval < Pnat ∧
    ((FiatField.fromMontgomery x).eval * W^4) % Pnat = x.eval % Pnat := by
  rw [fromMont_tie_p, ← Mp_val]
  exact refFromMont_correct Mp Mp_valid Mp_lt (by decide) x hx
