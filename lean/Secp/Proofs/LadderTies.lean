import Secp.Gen.Ladder
import Secp.Hand.Element
/-!
# Ties between the regenerated loop of `multiply` and the ladder of the model (C01, C19)

`go2lean` reads the single loop of `(*Element).multiply` on every run: its header, the condition of its `if/else`, the
statements before and after it, and translates the two branches as functions of the registers `(r0, r1)` with the methods
they call (`Add`, `Double` and everything below) inlined on shared cells.
-/
namespace LadderTies
variable {α : Type} (F : FieldOps α)

/-- one iteration of the model's ladder is the regenerated branch selected by the bit -/
theorem ladderStep_tie (st : Pt α × Pt α) (bit : Nat) :
    Hand.Element.ladderStep F st bit = if bit = 0 then GenLadder.branchThen F st.1 st.2 else GenLadder.branchElse F st.1 st.2 := by
  unfold Hand.Element.ladderStep
  split <;> rfl

/-- the loop runs over the positions 255 down to 0. (The statements around the loop and the branch condition were compared
as text until the whole of `multiply` was regenerated — `Proofs/ElementMulTies` — which ties them semantically; the text
comparison raised an alarm on a renamed local and was removed.) -/
theorem loop_shape : GenLadder.loopHeader = "i := 255; i >= 0; i--" := by decide

end LadderTies
