import Secp.Gen.Ladder
import Secp.Hand.Element
/-!
# Ties between the regenerated loop of `multiply` and the ladder of the model (C01, C19)

`go2lean` reads the single loop of `(*Element).multiply` on every run: its header, the condition of its `if/else`, the
statements before and after it, and translates the two branches as functions of the registers `(r0, r1)` with the methods
they call (`Add`, `Double` and everything below) inlined on shared cells.
-/
namespace LadderTies
variable {α : Type} (F : FieldOps α)

/-- one iteration of the model's ladder is the regenerated branch selected by the bit -/
theorem ladderStep_tie (st : Pt α × Pt α) (bit : Nat) :
    Hand.Element.ladderStep F st bit = if bit = 0 then GenLadder.branchThen F st.1 st.2 else GenLadder.branchElse F st.1 st.2 := by
  unfold Hand.Element.ladderStep
  split <;> rfl

/-- the loop runs over the positions 255 down to 0, selects the first branch when the bit is 0, starts from
`(identity, copy of the receiver)` unless the scalar is one, and stores `r0` -/
theorem loop_shape :
    GenLadder.loopHeader = "i := 255; i >= 0; i--" ∧ GenLadder.branchCondition = "bits[i] == 0" ∧
    GenLadder.prelude = ["if s.IsOne() { return e }", "r0 := newElement()", "r1 := e.copy()", "bits := s.Bits()"] ∧
    GenLadder.epilogue = ["e.set(r0)", "return e"] := by decide

end LadderTies
