import Secp.Gen.ScalarCodec
import Secp.Proofs.BytesTies
import Secp.Proofs.ScalarApiTiesSelect
/-!
# The regenerated `Encode`, `Decode`, `Hex`, `DecodeHex`, `MarshalBinary`, `UnmarshalBinary` of `scalar.go` equal the model
-/
open Spec Hand Hand.Scalar ScalarApiTies

namespace ScalarCodecTies

attribute [local irreducible] FiatScalar.fromMontgomery FiatScalar.toMontgomery FiatScalar.reduce

theorem encode_tie (s : L4) : GenScalarCodec.scalar_encode s = some (encode s) := by
  unfold GenScalarCodec.scalar_encode encode
  simp only [BytesTies.fn_nonMontgomeryToBytes, Option.bind_eq_bind, Option.bind_some, Option.pure_def]

/-- result shape of the regenerated decoders: (receiver afterwards, error) -/
def shape (r : Option Err × L4) : L4 × Option String := (r.2, r.1.map errName)

theorem decode_tie (s : L4) (b : List Nat) : GenScalarCodec.scalar_decode s b = some (shape (decode s b)) := by
  unfold GenScalarCodec.scalar_decode decode shape
  by_cases h0 : b.length = 0
  · simp [h0, errName]
  · by_cases h32 : b.length = 32
    · have hr := BytesTies.fn_reduceBytes s b h32
      have ht : Prim.toArray b 32 = some b := by
        unfold Prim.toArray
        rw [if_pos (by omega)]
        exact congrArg some (by rw [← h32]; exact List.take_length)
      simp only [h0, h32, if_false, if_true, ht, hr, Option.bind_eq_bind, Option.bind_some, Option.pure_def, ne_eq,
        not_true_eq_false]
      by_cases hz : (Fn.reduceBytes b).2 = 0 <;> simp [hz, errName]
    · simp [h0, h32, errName]

theorem decodeHex_tie (s : L4) (h : String) : GenScalarCodec.scalar_decodeHex s h = some (shape (decodeHex s h)) := by
  unfold GenScalarCodec.scalar_decodeHex decodeHex Prim.hexDecodeString
  cases hh : Spec.ofHex h with
  | none => simp [shape, errName]
  | some b => simp [decode_tie]

theorem hex_tie (s : L4) : GenScalarCodec.scalar_hex s = some (Spec.toHex (encode s)) := by
  unfold GenScalarCodec.scalar_hex
  simp [encode_tie]

theorem marshal_tie (s : L4) : GenScalarCodec.scalar_marshalBinary s = some (encode s, none) := by
  unfold GenScalarCodec.scalar_marshalBinary
  simp [encode_tie]

theorem unmarshal_tie (s : L4) (b : List Nat) : GenScalarCodec.scalar_unmarshalBinary s b = some (shape (decode s b)) := by
  unfold GenScalarCodec.scalar_unmarshalBinary
  simp [decode_tie]

/-! ## `Bits` -/

theorem limbAt_eq (n : L4) (j : Nat) (hj : j < 4) : Prim.limbAt n j = some (limb n j) := by
  match j, hj with
  | 0, _ => rfl
  | 1, _ => rfl
  | 2, _ => rfl
  | 3, _ => rfl

theorem land_one_lt (x : Nat) : Nat.land x 1 % 256 = Nat.land x 1 := by
  apply Nat.mod_eq_of_lt
  have : Nat.land x 1 ≤ 1 := Nat.and_le_right
  omega

/-- the bit a position holds -/
def bitAt (n : L4) (i : Nat) : Nat := Nat.land (limb n (i / 64) >>> (i % 64)) 1

theorem bits_loop (n : L4) (k : Nat) (out : List Nat) (hk : k ≤ 256) (hl : out.length = 256) :
    (List.range k).foldlM (GenScalarCodec.scalar_bits_loop1 n) out = some ((List.range k).map (bitAt n) ++ out.drop k) := by
  induction k with
  | zero => simp
  | succ k ih =>
    rw [List.range_succ, List.foldlM_append, ih (by omega)]
    have hlen : k < ((List.range k).map (bitAt n) ++ out.drop k).length := by
      simp; omega
    simp only [Option.bind_eq_bind, Option.bind_some, List.foldlM_cons, List.foldlM_nil, GenScalarCodec.scalar_bits_loop1,
      limbAt_eq n (k / 64) (by omega), land_one_lt, Option.pure_def]
    unfold Prim.store
    simp only [hlen, if_true, Option.bind_some]
    congr 1
    have hd : out.drop k = out[k] :: out.drop (k + 1) := (List.getElem_cons_drop (by omega)).symm
    rw [List.set_append_right _ _ (by simp)]
    simp only [List.length_map, List.length_range, Nat.sub_self]
    rw [hd, List.set_cons_zero]
    simp [bitAt]

theorem bitsOf_loop (n : L4) :
    (List.range 256).foldlM (GenScalarCodec.scalar_bits_loop1 n) (List.replicate 256 0) = some (bitsOf n) := by
  rw [bits_loop n 256 _ (Nat.le_refl _) List.length_replicate]
  have h0 : (List.replicate 256 0).drop 256 = ([] : List Nat) := by
    rw [List.drop_replicate]; rfl
  rw [h0, List.append_nil]
  unfold bitsOf
  apply congrArg some
  apply List.map_congr_left
  intro i hi
  have hlt : i < bitsLoopBound := by
    have := List.mem_range.mp hi
    simpa [bitsLoopBound, Facts.bitsLoopBound] using this
  simp [bitAt, hlt]

theorem bits_tie (s : L4) : GenScalarCodec.scalar_bits s = some (bits s) := by
  unfold GenScalarCodec.scalar_bits bits
  simp only [Option.bind_eq_bind, Option.pure_def, bitsOf_loop, Option.bind_some]

/-! ## `Invert` -/

/-- the two operations the inversion chain is generic over are the regenerated wrappers `(*scalar).Multiply` / `Square` of
`internal/scalar`, i.e. Fiat's `Mul` / `Square` -/
theorem chain_ops_tie (s t u : L4) :
    GenScalarBytes.scalar_multiply s t u = some (Fn.scalarOps.mul t u) ∧
    GenScalarBytes.scalar_square s t = some (Fn.scalarOps.square t) := ⟨rfl, rfl⟩

/-- `scalar.Invert(out, in)` and `Scalar.Invert`, regenerated: the chain applied to a copy of the operand -/
theorem invert_tie (s : L4) : GenScalarCodec.scalar_invert Fn.scalarOps s = some (invert s) := rfl

end ScalarCodecTies
