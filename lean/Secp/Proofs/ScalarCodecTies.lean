import Secp.Gen.ScalarCodec
import Secp.Proofs.BytesTiesN
import Secp.Proofs.ScalarErr
/-!
# The regenerated `Encode`, `Decode`, `Hex`, `DecodeHex`, `MarshalBinary`, `UnmarshalBinary` of `scalar.go` equal the model
-/
open Spec Hand Hand.Scalar ScalarApiTies

namespace ScalarCodecTies

attribute [local irreducible] FiatScalar.fromMontgomery FiatScalar.toMontgomery FiatScalar.reduce

theorem encode_tie (s : L4) : GenScalarCodec.scalar_encode s = some (encode s) := by
  unfold GenScalarCodec.scalar_encode encode
  simp only [BytesTies.fn_nonMontgomeryToBytes, Option.bind_eq_bind, Option.bind_some, Option.pure_def]

/-- result shape of the regenerated decoders: (receiver afterwards, error) -/
def shape (r : Option Err × L4) : L4 × Option String := (r.2, r.1.map errName)

theorem decode_tie (s : L4) (b : List Nat) : GenScalarCodec.scalar_decode s b = some (shape (decode s b)) := by
  unfold GenScalarCodec.scalar_decode decode shape
  by_cases h0 : b.length = 0
  · simp [h0, errName]
  · by_cases h32 : b.length = 32
    · have hr := BytesTies.fn_reduceBytes s b h32
      have ht : Prim.toArray b 32 = some b := by
        unfold Prim.toArray
        rw [if_pos (by omega)]
        exact congrArg some (by rw [← h32]; exact List.take_length)
      simp only [h0, h32, if_false, if_true, ht, hr, Option.bind_eq_bind, Option.bind_some, Option.pure_def, ne_eq,
        not_true_eq_false]
      by_cases hz : (Fn.reduceBytes b).2 = 0 <;> simp [hz, errName]
    · simp [h0, h32, errName]

theorem decodeHex_tie (s : L4) (h : String) : GenScalarCodec.scalar_decodeHex s h = some (shape (decodeHex s h)) := by
  unfold GenScalarCodec.scalar_decodeHex decodeHex Prim.hexDecodeString
  cases hh : Spec.ofHex h with
  | none => simp [shape, errName]
  | some b => simp [decode_tie]

theorem hex_tie (s : L4) : GenScalarCodec.scalar_hex s = some (Spec.toHex (encode s)) := by
  unfold GenScalarCodec.scalar_hex
  simp [encode_tie]

theorem marshal_tie (s : L4) : GenScalarCodec.scalar_marshalBinary s = some (encode s, none) := by
  unfold GenScalarCodec.scalar_marshalBinary
  simp [encode_tie]

theorem unmarshal_tie (s : L4) (b : List Nat) : GenScalarCodec.scalar_unmarshalBinary s b = some (shape (decode s b)) := by
  unfold GenScalarCodec.scalar_unmarshalBinary
  simp [decode_tie]

end ScalarCodecTies
