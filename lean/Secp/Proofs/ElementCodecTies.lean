import Secp.Gen.ElementCodec
import Secp.Proofs.DecodeTies
/-!
# The regenerated `Hex`, `DecodeHex`, `MarshalBinary`, `UnmarshalBinary` of `element.go` equal the model
(over the regenerated `Encode` / `Decode`, which `DecodeTies` proves equal to `Hand.ElementL.encode` / `decode`)
-/
open Hand.ElementL DecodeTies

namespace ElementCodecTies

/-- result of a decoder in the shape of the byte-slice mode: (receiver afterwards, error) -/
def swap (r : Option String × Pt L4) : Pt L4 × Option String := (r.2, r.1)

theorem hex_tie (e : Pt L4) :
    GenElementCodec.element_hex limbBytes Hand.limbOps e = some (Spec.toHex (encode e)) := by
  unfold GenElementCodec.element_hex
  rw [encode_tie]; rfl

theorem marshal_tie (e : Pt L4) :
    GenElementCodec.element_marshalBinary limbBytes Hand.limbOps e = some (encode e, none) := by
  unfold GenElementCodec.element_marshalBinary
  rw [encode_tie]; rfl

theorem unmarshal_tie (e : Pt L4) (data : Spec.Bytes) :
    GenElementCodec.element_unmarshalBinary limbBytes Hand.limbOps e data = some (swap (shape (decode e data))) := by
  unfold GenElementCodec.element_unmarshalBinary
  rw [decode_tie]; rfl

theorem decodeHex_tie (e : Pt L4) (h : String) :
    GenElementCodec.element_decodeHex limbBytes Hand.limbOps e h = some (swap (shape (decodeHex e h))) := by
  unfold GenElementCodec.element_decodeHex decodeHex Prim.hexDecodeString
  cases hh : Spec.ofHex h with
  | none => simp [swap, shape, errName]
  | some b =>
    simp only [ne_eq, not_true_eq_false, if_false, Option.pure_def]
    rw [decode_tie]; rfl

end ElementCodecTies
