import Secp.Gen.ScalarCodec
import Secp.Hand.Scalar
/-! # The regenerated `Bits` of `scalar.go` equals the model -/
open Spec Hand Hand.Scalar

namespace ScalarCodecTies

/-! ## `Bits` -/

theorem limbAt_eq (n : L4) (j : Nat) (hj : j < 4) : Prim.limbAt n j = some (limb n j) := by
  match j, hj with
  | 0, _ => rfl
  | 1, _ => rfl
  | 2, _ => rfl
  | 3, _ => rfl

theorem land_one_lt (x : Nat) : Nat.land x 1 % 256 = Nat.land x 1 := by
  apply Nat.mod_eq_of_lt
  have : Nat.land x 1 ≤ 1 := Nat.and_le_right
  omega

/-- the bit a position holds -/
def bitAt (n : L4) (i : Nat) : Nat := Nat.land (limb n (i / 64) >>> (i % 64)) 1

theorem bits_loop (n : L4) (k : Nat) (out : List Nat) (hk : k ≤ 256) (hl : out.length = 256) :
    (List.range' 0 k).foldlM (fun st i => GenScalarCodec.scalar_bits_loop1 n i st) out =
      some ((List.range k).map (bitAt n) ++ out.drop k) := by
  induction k with
  | zero => simp
  | succ k ih =>
    rw [List.range'_concat, List.foldlM_append, ih (by omega)]
    have hlen : k < ((List.range k).map (bitAt n) ++ out.drop k).length := by
      simp; omega
    simp only [Option.bind_eq_bind, Option.bind_some, List.foldlM_cons, List.foldlM_nil, GenScalarCodec.scalar_bits_loop1,
      Nat.zero_add, Nat.one_mul, limbAt_eq n (k / 64) (by omega), land_one_lt, Option.pure_def]
    unfold Prim.store
    simp only [hlen, if_true, Option.bind_some]
    congr 1
    have hd : out.drop k = out[k] :: out.drop (k + 1) := (List.getElem_cons_drop (by omega)).symm
    rw [List.set_append_right _ _ (by simp)]
    simp only [List.length_map, List.length_range, Nat.sub_self]
    rw [hd, List.set_cons_zero]
    simp [bitAt, List.range_succ]

theorem bitsOf_loop (n : L4) :
    Prim.forBelow 0 256 (List.replicate 256 0) (GenScalarCodec.scalar_bits_loop1 n) = some (bitsOf n) := by
  unfold Prim.forBelow
  rw [bits_loop n 256 _ (Nat.le_refl _) List.length_replicate]
  have h0 : (List.replicate 256 0).drop 256 = ([] : List Nat) := by
    rw [List.drop_replicate]; rfl
  rw [h0, List.append_nil]
  unfold bitsOf
  apply congrArg some
  apply List.map_congr_left
  intro i hi
  have hlt : i < bitsLoopBound := by
    have := List.mem_range.mp hi
    simpa [bitsLoopBound, Facts.bitsLoopBound] using this
  simp [bitAt, hlt]

theorem bits_tie (s : L4) : GenScalarCodec.scalar_bits s = some (bits s) := by
  unfold GenScalarCodec.scalar_bits bits
  simp only [Option.bind_eq_bind, Option.pure_def, bitsOf_loop, Option.bind_some]

end ScalarCodecTies
