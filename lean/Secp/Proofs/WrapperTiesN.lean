import Secp.Hand.Scalar
/-! # Tie of the regenerated `scalar.CMove` wrapper (see `WrapperTiesP` for the field wrappers) -/
namespace WrapperTies

/-- `scalar.CMove` is `Selectznz`, which is what the model of `Scalar.CSelect` calls -/
theorem scalar_cmove_tie (c : Nat) (u v : L4) : FiatScalar.cMove c u v = FiatScalar.selectznz c u v := rfl

end WrapperTies
