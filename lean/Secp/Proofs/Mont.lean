import Secp.Proofs.PrimSpec
import Secp.Ref.Mont

def eval5 (t : L5) : Nat := t.l0 + W * t.l1 + W^2 * t.l2 + W^3 * t.l3 + W^4 * t.l4
def L5.ok (t : L5) : Prop := t.l0 < W ∧ t.l1 < W ∧ t.l2 < W ∧ t.l3 < W ∧ t.l4 < W

theorem mulRow_spec (a y0 y1 y2 y3 : Nat) (ha : a < W) (h0 : y0 < W) (h1 : y1 < W) (h2 : y2 < W) (h3 : y3 < W) :
    eval5 (mulRow a y0 y1 y2 y3) = a * eval4 y0 y1 y2 y3 ∧ (mulRow a y0 y1 y2 y3).ok := by
  unfold mulRow eval5 eval4 L5.ok
  simp only
  obtain ⟨e3, l3, u3⟩ := mul64_spec a y3 ha h3
  obtain ⟨e2, l2, u2⟩ := mul64_spec a y2 ha h2
  obtain ⟨e1, l1, u1⟩ := mul64_spec a y1 ha h1
  obtain ⟨e0, l0, u0⟩ := mul64_spec a y0 ha h0
  generalize mul64 a y3 = p3 at *
  generalize mul64 a y2 = p2 at *
  generalize mul64 a y1 = p1 at *
  generalize mul64 a y0 = p0 at *
  have W2 : W - 2 < W := by decide
  obtain ⟨f1, m1, c1⟩ := add64_spec p0.1 p1.2 0 (by omega) l1 (by omega)
  generalize add64 p0.1 p1.2 0 = s1 at *
  obtain ⟨f2, m2, c2⟩ := add64_spec p1.1 p2.2 s1.2 (by omega) l2 c1
  generalize add64 p1.1 p2.2 s1.2 = s2 at *
  obtain ⟨f3, m3, c3⟩ := add64_spec p2.1 p3.2 s2.2 (by omega) l3 c2
  generalize add64 p2.1 p3.2 s2.2 = s3 at *
  have hw : wadd s3.2 p3.1 = s3.2 + p3.1 := by
    unfold wadd; apply Nat.mod_eq_of_lt; simp only [W] at *; omega
  rw [hw]
  refine ⟨?_, l0, m1, m2, m3, by simp only [W] at *; omega⟩
  linear_combination e0 + W * e1 + W^2 * e2 + W^3 * e3 + W * f1 + W^2 * f2 + W^3 * f3

theorem add5_spec (t r : L5) (ht : t.ok) (hr : r.ok) :
    eval5 (add5 t r).1 + W^5 * (add5 t r).2 = eval5 t + eval5 r ∧ (add5 t r).1.ok ∧ (add5 t r).2 ≤ 1 := by
  obtain ⟨t0, t1, t2, t3, t4⟩ := ht
  obtain ⟨r0, r1, r2, r3, r4⟩ := hr
  unfold add5 eval5 L5.ok
  simp only
  obtain ⟨f0, m0, c0⟩ := add64_spec t.l0 r.l0 0 t0 r0 (by omega)
  generalize add64 t.l0 r.l0 0 = s0 at *
  obtain ⟨f1, m1, c1⟩ := add64_spec t.l1 r.l1 s0.2 t1 r1 c0
  generalize add64 t.l1 r.l1 s0.2 = s1 at *
  obtain ⟨f2, m2, c2⟩ := add64_spec t.l2 r.l2 s1.2 t2 r2 c1
  generalize add64 t.l2 r.l2 s1.2 = s2 at *
  obtain ⟨f3, m3, c3⟩ := add64_spec t.l3 r.l3 s2.2 t3 r3 c2
  generalize add64 t.l3 r.l3 s2.2 = s3 at *
  obtain ⟨f4, m4, c4⟩ := add64_spec t.l4 r.l4 s3.2 t4 r4 c3
  generalize add64 t.l4 r.l4 s3.2 = s4 at *
  refine ⟨?_, ⟨m0, m1, m2, m3, m4⟩, c4⟩
  linear_combination f0 + W * f1 + W^2 * f2 + W^3 * f3 + W^4 * f4

/-- value of the shifted sum: 4 limbs plus a carry limb -/
theorem addShift_spec (t q : L5) (ht : t.ok) (hq : q.ok) (hz : (t.l0 + q.l0) % W = 0) :
    W * eval5 (addShift t q) = eval5 t + eval5 q ∧
    (addShift t q).l0 < W ∧ (addShift t q).l1 < W ∧ (addShift t q).l2 < W ∧ (addShift t q).l3 < W ∧
    (addShift t q).l4 ≤ 1 := by
  obtain ⟨t0, t1, t2, t3, t4⟩ := ht
  obtain ⟨q0, q1, q2, q3, q4⟩ := hq
  unfold addShift eval5
  simp only
  obtain ⟨f0, m0, c0⟩ := add64_spec t.l0 q.l0 0 t0 q0 (by omega)
  have hlow : (add64 t.l0 q.l0 0).1 = 0 := by
    unfold add64; simpa using hz
  rw [hlow] at f0
  generalize add64 t.l0 q.l0 0 = s0 at *
  obtain ⟨f1, m1, c1⟩ := add64_spec t.l1 q.l1 s0.2 t1 q1 c0
  generalize add64 t.l1 q.l1 s0.2 = s1 at *
  obtain ⟨f2, m2, c2⟩ := add64_spec t.l2 q.l2 s1.2 t2 q2 c1
  generalize add64 t.l2 q.l2 s1.2 = s2 at *
  obtain ⟨f3, m3, c3⟩ := add64_spec t.l3 q.l3 s2.2 t3 q3 c2
  generalize add64 t.l3 q.l3 s2.2 = s3 at *
  obtain ⟨f4, m4, c4⟩ := add64_spec t.l4 q.l4 s3.2 t4 q4 c3
  generalize add64 t.l4 q.l4 s3.2 = s4 at *
  refine ⟨?_, m1, m2, m3, m4, c4⟩
  linear_combination f0 + W * f1 + W^2 * f2 + W^3 * f3 + W^4 * f4

theorem Modulus.val_eq (M : Modulus) : M.val = eval4 M.m0 M.m1 M.m2 M.m3 := rfl

structure Modulus.Valid (M : Modulus) : Prop where
  h0 : M.m0 < W
  h1 : M.m1 < W
  h2 : M.m2 < W
  h3 : M.m3 < W
  h' : M.m' < W
  inv : (M.m' * M.m0 + 1) % W = 0

theorem low_zero (a m' m0 : Nat) (h : (m' * m0 + 1) % W = 0) :
    (a + ((a * m') % W * m0) % W) % W = 0 := by
  have e1 : (a + ((a * m') % W * m0) % W) % W = (a * (m' * m0 + 1)) % W := by
    have : a * (m' * m0 + 1) = a + a * m' * m0 := by ring
    rw [this]
    simp [Nat.add_mod, Nat.mul_mod]
  rw [e1, Nat.mul_mod, h]; simp

theorem mulRow_l0 (a y0 y1 y2 y3 : Nat) : (mulRow a y0 y1 y2 y3).l0 = (a * y0) % W := by
  unfold mulRow mul64; rfl

theorem redStep_spec (M : Modulus) (hM : M.Valid) (t : L5) (ht : t.ok) :
    ∃ m, m < W ∧ W * eval5 (redStep M t) = eval5 t + m * M.val ∧
    (redStep M t).l0 < W ∧ (redStep M t).l1 < W ∧ (redStep M t).l2 < W ∧ (redStep M t).l3 < W ∧
    (redStep M t).l4 ≤ 1 := by
  unfold redStep
  simp only
  have hm : (mul64 t.l0 M.m').2 = (t.l0 * M.m') % W := by unfold mul64; rfl
  have hmlt : (mul64 t.l0 M.m').2 < W := by rw [hm]; exact Nat.mod_lt _ W_pos
  generalize hmdef : (mul64 t.l0 M.m').2 = m at *
  obtain ⟨ev, okq⟩ := mulRow_spec m M.m0 M.m1 M.m2 M.m3 hmlt hM.h0 hM.h1 hM.h2 hM.h3
  have hz : (t.l0 + (mulRow m M.m0 M.m1 M.m2 M.m3).l0) % W = 0 := by
    rw [mulRow_l0, hm]; exact low_zero _ _ _ hM.inv
  obtain ⟨e, b0, b1, b2, b3, b4⟩ := addShift_spec t _ ht okq hz
  refine ⟨m, hmlt, ?_, b0, b1, b2, b3, b4⟩
  rw [e, ev]; rfl

def roundStep (M : Modulus) (a : L5) (xi y0 y1 y2 y3 : Nat) : L5 :=
  let s := add5 a (mulRow xi y0 y1 y2 y3)
  let r := redStep M s.1
  ⟨r.l0, r.l1, r.l2, r.l3, wadd r.l4 s.2⟩

theorem refMul_eq (M : Modulus) (x0 x1 x2 x3 y0 y1 y2 y3 : Nat) :
    refMul M ⟨x0, x1, x2, x3⟩ ⟨y0, y1, y2, y3⟩ =
      condSub M (roundStep M (roundStep M (roundStep M (redStep M (mulRow x0 y0 y1 y2 y3)) x1 y0 y1 y2 y3) x2 y0 y1 y2 y3) x3 y0 y1 y2 y3) := rfl

theorem round_spec (M : Modulus) (hM : M.Valid) (a : L5) (ha : a.ok) (hA : eval5 a < 2 * M.val)
    (xi y0 y1 y2 y3 : Nat) (hx : xi < W) (h0 : y0 < W) (h1 : y1 < W) (h2 : y2 < W) (h3 : y3 < W)
    (hY : eval4 y0 y1 y2 y3 < M.val) :
    ∃ m, m < W ∧ W * eval5 (roundStep M a xi y0 y1 y2 y3) = eval5 a + xi * eval4 y0 y1 y2 y3 + m * M.val ∧
      (roundStep M a xi y0 y1 y2 y3).ok ∧ eval5 (roundStep M a xi y0 y1 y2 y3) < 2 * M.val := by
  unfold roundStep
  simp only
  obtain ⟨ev, okq⟩ := mulRow_spec xi y0 y1 y2 y3 hx h0 h1 h2 h3
  obtain ⟨es, oks, cs⟩ := add5_spec a _ ha okq
  generalize add5 a (mulRow xi y0 y1 y2 y3) = s at *
  obtain ⟨m, hm, er, r0, r1, r2, r3, r4⟩ := redStep_spec M hM s.1 oks
  generalize redStep M s.1 = r at *
  have hw : wadd r.l4 s.2 = r.l4 + s.2 := by
    unfold wadd; apply Nat.mod_eq_of_lt; simp only [W] at *; omega
  rw [hw]
  have key : W * eval5 ⟨r.l0, r.l1, r.l2, r.l3, r.l4 + s.2⟩ = eval5 a + xi * eval4 y0 y1 y2 y3 + m * M.val := by
    have e1 : eval5 ⟨r.l0, r.l1, r.l2, r.l3, r.l4 + s.2⟩ = eval5 r + W^4 * s.2 := by
      unfold eval5; ring
    rw [e1, Nat.mul_add, er, ← ev]
    linear_combination es
  refine ⟨m, hm, key, ⟨r0, r1, r2, r3, by simp only [W] at *; omega⟩, ?_⟩
  have b1 : xi * eval4 y0 y1 y2 y3 ≤ (W - 1) * M.val := Nat.mul_le_mul (by omega) (Nat.le_of_lt hY)
  have b2 : m * M.val ≤ (W - 1) * M.val := Nat.mul_le_mul_right _ (by omega)
  generalize eval5 ⟨r.l0, r.l1, r.l2, r.l3, r.l4 + s.2⟩ = A' at *
  generalize xi * eval4 y0 y1 y2 y3 = p1 at *
  generalize m * M.val = p2 at *
  generalize M.val = Mv at *
  generalize eval5 a = A at *
  simp only [W] at *
  omega

theorem condSub_spec (M : Modulus) (hM : M.Valid) (hMlt : M.val < W^4) (t : L5)
    (t0 : t.l0 < W) (t1 : t.l1 < W) (t2 : t.l2 < W) (t3 : t.l3 < W) (t4 : t.l4 ≤ 2) (hT : eval5 t < 2 * M.val) :
    let o := condSub M t
    o.l0 < W ∧ o.l1 < W ∧ o.l2 < W ∧ o.l3 < W ∧
    eval4 o.l0 o.l1 o.l2 o.l3 < M.val ∧
    (eval4 o.l0 o.l1 o.l2 o.l3 = eval5 t ∨ eval4 o.l0 o.l1 o.l2 o.l3 + M.val = eval5 t) := by
  intro o
  have ho : o = condSub M t := rfl
  unfold condSub at ho
  simp only at ho
  obtain ⟨f0, m0, c0⟩ := sub64_spec t.l0 M.m0 0 t0 hM.h0 (by omega)
  generalize sub64 t.l0 M.m0 0 = d0 at *
  obtain ⟨f1, m1, c1⟩ := sub64_spec t.l1 M.m1 d0.2 t1 hM.h1 c0
  generalize sub64 t.l1 M.m1 d0.2 = d1 at *
  obtain ⟨f2, m2, c2⟩ := sub64_spec t.l2 M.m2 d1.2 t2 hM.h2 c1
  generalize sub64 t.l2 M.m2 d1.2 = d2 at *
  obtain ⟨f3, m3, c3⟩ := sub64_spec t.l3 M.m3 d2.2 t3 hM.h3 c2
  generalize sub64 t.l3 M.m3 d2.2 = d3 at *
  have W2 : (2:Nat) < W := by decide
  obtain ⟨f4, m4, c4⟩ := sub64_spec t.l4 0 d3.2 (by omega) W_pos c3
  generalize sub64 t.l4 0 d3.2 = d4 at *
  -- value-level relation of the 4-limb subtraction
  have hsub : eval4 d0.1 d1.1 d2.1 d3.1 + M.val = eval4 t.l0 t.l1 t.l2 t.l3 + W^4 * d3.2 := by
    unfold Modulus.val eval4
    linear_combination f0 + W * f1 + W^2 * f2 + W^3 * f3
  have hD : eval4 d0.1 d1.1 d2.1 d3.1 < W^4 := by
    unfold eval4; simp only [W] at *; omega
  have hTl : eval4 t.l0 t.l1 t.l2 t.l3 < W^4 := by
    unfold eval4; simp only [W] at *; omega
  have hT5 : eval5 t = eval4 t.l0 t.l1 t.l2 t.l3 + W^4 * t.l4 := by unfold eval5 eval4; ring
  rw [hT5] at hT ⊢
  rw [ho]
  simp only
  rw [cmovznz_spec _ _ _ c4 m0 t0, cmovznz_spec _ _ _ c4 m1 t1, cmovznz_spec _ _ _ c4 m2 t2, cmovznz_spec _ _ _ c4 m3 t3]
  have hW4 : W^4 = 2^256 := by decide
  by_cases hb : d4.2 = 0
  · simp only [hb, if_true]
    refine ⟨m0, m1, m2, m3, ?_⟩
    generalize eval4 d0.1 d1.1 d2.1 d3.1 = D at *
    generalize eval4 t.l0 t.l1 t.l2 t.l3 = Tl at *
    generalize M.val = Mv at *
    simp only [W, hW4] at *
    omega
  · simp only [hb, if_false]
    refine ⟨t0, t1, t2, t3, ?_⟩
    generalize eval4 d0.1 d1.1 d2.1 d3.1 = D at *
    generalize eval4 t.l0 t.l1 t.l2 t.l3 = Tl at *
    generalize M.val = Mv at *
    simp only [W, hW4] at *
    omega

theorem refMul_correct (M : Modulus) (hM : M.Valid) (hMlt : M.val < W^4)
    (x0 x1 x2 x3 y0 y1 y2 y3 : Nat)
    (hx0 : x0 < W) (hx1 : x1 < W) (hx2 : x2 < W) (hx3 : x3 < W)
    (hy0 : y0 < W) (hy1 : y1 < W) (hy2 : y2 < W) (hy3 : y3 < W)
    (hY : eval4 y0 y1 y2 y3 < M.val) :
    let o := refMul M ⟨x0, x1, x2, x3⟩ ⟨y0, y1, y2, y3⟩
    o.l0 < W ∧ o.l1 < W ∧ o.l2 < W ∧ o.l3 < W ∧
    eval4 o.l0 o.l1 o.l2 o.l3 < M.val ∧
    (eval4 o.l0 o.l1 o.l2 o.l3 * W^4) % M.val = (eval4 x0 x1 x2 x3 * eval4 y0 y1 y2 y3) % M.val := by
  intro o
  have ho : o = refMul M ⟨x0, x1, x2, x3⟩ ⟨y0, y1, y2, y3⟩ := rfl
  rw [refMul_eq] at ho
  -- round 0
  obtain ⟨ev0, ok0⟩ := mulRow_spec x0 y0 y1 y2 y3 hx0 hy0 hy1 hy2 hy3
  obtain ⟨m0, hm0, e0, a00, a01, a02, a03, a04⟩ := redStep_spec M hM _ ok0
  rw [ev0] at e0
  generalize redStep M (mulRow x0 y0 y1 y2 y3) = A0 at *
  have okA0 : A0.ok := ⟨a00, a01, a02, a03, by simp only [W] at *; omega⟩
  have bA0 : eval5 A0 < 2 * M.val := by
    have b1 : x0 * eval4 y0 y1 y2 y3 ≤ (W - 1) * M.val := Nat.mul_le_mul (by omega) (Nat.le_of_lt hY)
    have b2 : m0 * M.val ≤ (W - 1) * M.val := Nat.mul_le_mul_right _ (by omega)
    generalize eval5 A0 = a at *
    generalize x0 * eval4 y0 y1 y2 y3 = p1 at *
    generalize m0 * M.val = p2 at *
    generalize M.val = Mv at *
    simp only [W] at *
    omega
  obtain ⟨m1, hm1, e1, okA1, bA1⟩ := round_spec M hM A0 okA0 bA0 x1 y0 y1 y2 y3 hx1 hy0 hy1 hy2 hy3 hY
  generalize roundStep M A0 x1 y0 y1 y2 y3 = A1 at *
  obtain ⟨m2, hm2, e2, okA2, bA2⟩ := round_spec M hM A1 okA1 bA1 x2 y0 y1 y2 y3 hx2 hy0 hy1 hy2 hy3 hY
  generalize roundStep M A1 x2 y0 y1 y2 y3 = A2 at *
  obtain ⟨m3, hm3, e3, okA3, bA3⟩ := round_spec M hM A2 okA2 bA2 x3 y0 y1 y2 y3 hx3 hy0 hy1 hy2 hy3 hY
  generalize roundStep M A2 x3 y0 y1 y2 y3 = A3 at *
  have hl4 : A3.l4 ≤ 2 := by
    obtain ⟨q0, q1, q2, q3, q4⟩ := okA3
    have hW4 : W^4 = 2^256 := by decide
    unfold eval5 at bA3
    generalize M.val = Mv at *
    simp only [W, hW4] at *
    omega
  obtain ⟨q0, q1, q2, q3, q4⟩ := okA3
  have cs := condSub_spec M hM hMlt A3 q0 q1 q2 q3 hl4 bA3
  rw [← ho] at cs
  obtain ⟨o0, o1, o2, o3, olt, oval⟩ := cs
  refine ⟨o0, o1, o2, o3, olt, ?_⟩
  have total : W^4 * eval5 A3 = eval4 x0 x1 x2 x3 * eval4 y0 y1 y2 y3 + (m0 + W * m1 + W^2 * m2 + W^3 * m3) * M.val := by
    have hX : eval4 x0 x1 x2 x3 = x0 + W * x1 + W^2 * x2 + W^3 * x3 := rfl
    rw [hX]
    linear_combination W^3 * e3 + W^2 * e2 + W * e1 + e0
  generalize eval4 o.l0 o.l1 o.l2 o.l3 = V at *
  generalize eval4 x0 x1 x2 x3 * eval4 y0 y1 y2 y3 = XY at *
  generalize (m0 + W * m1 + W^2 * m2 + W^3 * m3) = K at *
  rcases oval with h | h
  · rw [h, Nat.mul_comm, total, Nat.add_mul_mod_self_right]
  · have : V * W^4 + W^4 * M.val = XY + K * M.val := by
      rw [← total, ← h]; ring
    have h2 : (V * W^4 + W^4 * M.val) % M.val = (V * W^4) % M.val := Nat.add_mul_mod_self_right _ _ _
    rw [← h2, this, Nat.add_mul_mod_self_right]
