/-! # The integer denoted by a list of bits (shared by the ladder and by `Bits`) -/

/-- value of a bit (the ladder branches on `bits[i] == 0`) -/
def bitVal (b : Nat) : Nat := if b = 0 then 0 else 1

/-- integer denoted by a most-significant-first list of bits, starting from accumulator `m` -/
def evalMsb (m : Nat) : List Nat → Nat
  | [] => m
  | b :: bs => evalMsb (2 * m + bitVal b) bs

/-- integer denoted by a little-endian list of bits -/
def evalBits (bits : List Nat) : Nat := evalMsb 0 bits.reverse
