import Secp.Proofs.Reduce
import Secp.Proofs.ToMontN
/-! # `Reduce`: the scalar-field instances (regenerated `FiatScalar` code) -/

theorem reduce_tie_n (x : L4) : FiatScalar.reduce x = refReduce Mn x := by
  unfold FiatScalar.reduce refReduce Mn; rfl

theorem scalarReduce_correct (x : L4) (hx : x.ok) :
    (FiatScalar.reduce x).1.ok ∧ (FiatScalar.reduce x).1.eval = x.eval % Nnat ∧
    (FiatScalar.reduce x).2 = (if x.eval < Nnat then 1 else 0) := by
  rw [reduce_tie_n, ← Mn_val]
  exact refReduce_correct Mn Mn_valid Mn_lt (by decide) x hx
