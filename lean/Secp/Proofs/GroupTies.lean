import Secp.Gen.GroupAPI
import Secp.Proofs.XmdTies
import Secp.Proofs.XmdLength
import Secp.Proofs.ElementApiTies
import Secp.Proofs.BytesTiesNH
/-!
# The regenerated `HashToScalar`, `HashToGroup`, `EncodeToGroup` (`GenGroup`) equal the model `Hand.Group`
for every hash function with 32-byte digests, every message and every DST (the empty one included: both sides are `none`).
-/
open Spec Spec.Rfc9380

namespace GroupTies

/-- the two wide reductions, as modelled in `Hand.Fp` / `Hand.Fn` (proved correct in C08/C09, tied by `F.h2f`/`S.h2f`) -/
def handHashOps : HashOps L4 := ⟨Hand.Fp.hashToFieldElement, Hand.Fn.hashToFieldElement⟩

theorem expand_some (H : Bytes → Bytes) (hH : HashOK H) (input dst : Bytes) (len : Nat) (hl : (len + 31) / 32 ≤ 255) :
    (dst.length = 0 ∧ GenXmd.expandXMD H input dst len = none ∧ Hand.Group.expandXMD H input dst len = none) ∨
    (∃ u, u.length = len ∧ GenXmd.expandXMD H input dst len = some u ∧ Hand.Group.expandXMD H input dst len = some u) := by
  rw [XmdTies.expandXMD_eq H hH.len input dst len (by omega)]
  by_cases h0 : dst = []
  · left; subst h0; exact ⟨rfl, expandXMD_empty H input len, expandXMD_empty H input len⟩
  · right
    exact ⟨_, (expand_length H hH input dst len).1, expandXMD_eq H input dst len h0 hl, expandXMD_eq H input dst len h0 hl⟩

theorem hashToScalar_tie (H : Bytes → Bytes) (hH : HashOK H) (input dst : Bytes) :
    GenGroup.hashToScalar H input dst = Hand.Group.hashToScalar H input dst := by
  unfold GenGroup.hashToScalar Hand.Group.hashToScalar GenGroup.newScalar GenGroup.newScalarRaw
  rcases expand_some H hH input dst 48 (by norm_num) with ⟨_, h1, h2⟩ | ⟨u, hu, h1, h2⟩
  · simp only [h1, h2]; rfl
  · simp only [h1, h2]
    have ht : Prim.toArray u 48 = some u := by
      unfold Prim.toArray
      rw [if_pos (by omega)]
      exact congrArg some (by rw [← hu]; exact List.take_length)
    simp only [Option.bind_eq_bind, Option.bind_some, Option.pure_def, ht, BytesTies.fn_hashToFieldElement _ u hu,
      Option.map_some]

theorem encodeToGroup_tie (H : Bytes → Bytes) (hH : HashOK H) (input dst : Bytes) :
    GenGroup.encodeToGroup Hand.limbOps handHashOps H input dst = Hand.Group.encodeToGroup H input dst := by
  unfold GenGroup.encodeToGroup Hand.Group.encodeToGroup
  rcases expand_some H hH input dst 48 (by norm_num) with ⟨_, h1, h2⟩ | ⟨u, hu, h1, h2⟩
  · simp only [h1, h2]; rfl
  · simp only [h1, h2]
    simp [Prim.toArray, Prim.slice, hu, handHashOps, Hand.Group.encodeToGroupFromUniform, Hand.Group.encodeToGroupCore, Hand.Group.F, List.take_take]

theorem hashToGroup_tie (H : Bytes → Bytes) (hH : HashOK H) (input dst : Bytes) :
    GenGroup.hashToGroup Hand.limbOps handHashOps H input dst = Hand.Group.hashToGroup H input dst := by
  unfold GenGroup.hashToGroup Hand.Group.hashToGroup
  rcases expand_some H hH input dst 96 (by norm_num) with ⟨_, h1, h2⟩ | ⟨u, hu, h1, h2⟩
  · simp only [h1, h2]; rfl
  · simp only [h1, h2]
    simp [Prim.toArray, Prim.slice, hu, handHashOps, Hand.Group.hashToGroupFromUniform, Hand.Group.hashToGroupCore,
      Hand.Group.encodeToGroupCore, Hand.Group.F, ElementApiTies.add_tie, List.take_take]

end GroupTies
