import Secp.Proofs.ScalarLawful
import Secp.Hand.Scalar
/-!
# Scalar comparisons and conditional selection (C13)
-/
open Spec

/-- four-limb borrow-chain comparison, as in `LessOrEqual` after both operands left the Montgomery domain -/
theorem leq_chain (s t : L4) (hs : s.ok) (ht : t.ok) :
    let d0 := sub64 s.l0 t.l0 0
    let d1 := sub64 s.l1 t.l1 d0.2
    let d2 := sub64 s.l2 t.l2 d1.2
    let d3 := sub64 s.l3 t.l3 d2.2
    Nat.lor (FiatScalar.isZero (Nat.lor (Nat.lor (Nat.lor d0.1 d1.1) d2.1) d3.1)) (FiatScalar.isNonZero d3.2)
      = if s.eval ≤ t.eval then 1 else 0 := by
  obtain ⟨s0, s1, s2, s3⟩ := hs
  obtain ⟨t0, t1, t2, t3⟩ := ht
  simp only
  obtain ⟨f0, m0, c0⟩ := sub64_spec s.l0 t.l0 0 s0 t0 (by omega)
  generalize sub64 s.l0 t.l0 0 = d0 at *
  obtain ⟨f1, m1, c1⟩ := sub64_spec s.l1 t.l1 d0.2 s1 t1 c0
  generalize sub64 s.l1 t.l1 d0.2 = d1 at *
  obtain ⟨f2, m2, c2⟩ := sub64_spec s.l2 t.l2 d1.2 s2 t2 c1
  generalize sub64 s.l2 t.l2 d1.2 = d2 at *
  obtain ⟨f3, m3, c3⟩ := sub64_spec s.l3 t.l3 d2.2 s3 t3 c2
  generalize sub64 s.l3 t.l3 d2.2 = d3 at *
  have hlt : Nat.lor (Nat.lor (Nat.lor d0.1 d1.1) d2.1) d3.1 < W := lor_lt_W _ _ (lor_lt_W _ _ (lor_lt_W _ _ m0 m1) m2) m3
  have hb : d3.2 < W := by simp only [W]; omega
  rw [isZero_spec_n _ hlt, isNonZero_spec_n _ hb]
  have hsub : eval4 d0.1 d1.1 d2.1 d3.1 + t.eval = s.eval + W^4 * d3.2 := by
    unfold eval4 L4.eval
    linear_combination f0 + W * f1 + W^2 * f2 + W^3 * f3
  have hW4 : W^4 = 2^256 := by decide
  have hD : eval4 d0.1 d1.1 d2.1 d3.1 < W^4 := by unfold eval4; simp only [W] at *; omega
  have hS : s.eval < W^4 := by unfold L4.eval; simp only [W] at *; omega
  have hT : t.eval < W^4 := by unfold L4.eval; simp only [W] at *; omega
  have hz : Nat.lor (Nat.lor (Nat.lor d0.1 d1.1) d2.1) d3.1 = 0 ↔ eval4 d0.1 d1.1 d2.1 d3.1 = 0 := by
    rw [lor_eq_zero, lor_eq_zero, lor_eq_zero]
    unfold eval4
    constructor
    · rintro ⟨⟨⟨h0, h1⟩, h2⟩, h3⟩; rw [h0, h1, h2, h3]; simp
    · intro h
      have hW : 0 < W := W_pos
      have e0 : d0.1 = 0 := by simp only [W] at *; omega
      have e1 : d1.1 = 0 := by simp only [W] at *; omega
      have e2 : d2.1 = 0 := by simp only [W] at *; omega
      have e3 : d3.1 = 0 := by simp only [W] at *; omega
      exact ⟨⟨⟨e0, e1⟩, e2⟩, e3⟩
  generalize eval4 d0.1 d1.1 d2.1 d3.1 = D at *
  generalize s.eval = S at *
  generalize t.eval = T at *
  by_cases hb0 : d3.2 = 0
  · rw [hb0] at hsub
    simp only [hb0, if_true]
    by_cases hD0 : D = 0
    · rw [if_pos (hz.mpr hD0)]
      have : S ≤ T := by omega
      simp [this]
    · rw [if_neg (fun h => hD0 (hz.mp h))]
      have : ¬ S ≤ T := by omega
      simp [this]
  · have hb1 : d3.2 = 1 := by omega
    rw [hb1] at hsub
    simp only [hb1]
    have : S ≤ T := by simp only [hW4] at *; omega
    simp only [this, if_true]
    split <;> decide

/-- **LessOrEqual**: 1 exactly when the canonical value of `s` is at most that of `t` -/
theorem lessOrEqual_iff (s t : L4) (hs : sOk s) (ht : sOk t) :
    Hand.Scalar.lessOrEqual s t = if (sVal s).val ≤ (sVal t).val then 1 else 0 := by
  obtain ⟨oks, es⟩ := s_fromMont hs.1
  obtain ⟨okt, et⟩ := s_fromMont ht.1
  unfold Hand.Scalar.lessOrEqual
  have := leq_chain (FiatScalar.fromMontgomery s) (FiatScalar.fromMontgomery t) oks okt
  simp only at this
  simp only
  rw [this, es, et]

/-- **Equal** -/
theorem sc_equal_iff (s t : L4) (hs : sOk s) (ht : sOk t) :
    Hand.Scalar.equal s (some t) = if sVal s = sVal t then 1 else 0 := by
  show FiatScalar.equal s t = _
  rw [equal_spec_n s t hs.1 ht.1]
  by_cases h : s = t
  · simp [h]
  · have : sVal s ≠ sVal t := fun e => h (sVal_inj hs ht e)
    simp [h, this]

theorem sc_equal_nil (s : L4) : Hand.Scalar.equal s none = 0 := rfl

/-- **IsZero** -/
theorem sc_isZero_iff (s : L4) (hs : sOk s) : Hand.Scalar.isZero s = true ↔ sVal s = 0 := by
  unfold Hand.Scalar.isZero
  rw [isFEZero_spec s hs.1, sVal_eq_zero hs]
  by_cases h : s = ⟨0, 0, 0, 0⟩ <;> simp [h]

theorem oneConst_eq : FiatScalar.oneConst = FiatScalar.setOne := by decide

/-- **IsOne** -/
theorem sc_isOne_iff (s : L4) (hs : sOk s) : Hand.Scalar.isOne s = true ↔ sVal s = 1 := by
  unfold Hand.Scalar.isOne
  rw [oneConst_eq, equal_spec_n s _ hs.1 sOne_ok.1]
  constructor
  · intro h
    by_cases e : s = FiatScalar.setOne
    · rw [e]; exact sVal_one
    · simp [e] at h
  · intro h
    have : s = FiatScalar.setOne := sVal_inj hs sOne_ok (by rw [h, sVal_one])
    simp [this]

/-- **CSelect**: first operand for condition 0, second operand for *every* non-zero condition word;
nil operand: error and receiver unchanged -/
theorem cselect_spec (r : L4) (c : Nat) (hc : c < W) (u v : L4) (hu : u.ok) (hv : v.ok) :
    Hand.Scalar.cselect r c (some u) (some v) = (none, if c = 0 then u else v) := by
  unfold Hand.Scalar.cselect
  simp only
  rw [isNonZero_spec_n c hc]
  by_cases h : c = 0
  · simp only [h, if_true]
    rw [selectznz_spec_n 0 (by omega) u v hu hv]; rfl
  · simp only [h, if_false]
    rw [selectznz_spec_n 1 (by omega) u v hu hv]; rfl

theorem cselect_nil_left (r : L4) (c : Nat) (v : Option L4) :
    Hand.Scalar.cselect r c none v = (some .nilScalar, r) := by
  unfold Hand.Scalar.cselect; cases v <;> rfl
theorem cselect_nil_right (r : L4) (c : Nat) (u : Option L4) :
    Hand.Scalar.cselect r c u none = (some .nilScalar, r) := by
  unfold Hand.Scalar.cselect; cases u <;> rfl
