import Secp.Gen.Misc
import Secp.Proofs.ScalarCodecTies
import Secp.Proofs.ScalarApiTiesTests
import Secp.Proofs.ScalarEnc
import Secp.Proofs.Pratt
import Secp.Hand.Group
/-! # The regenerated `Scalar.Pow` (through `math/big`, whose `SetBytes`, `Exp`, `Bytes` are modelled) equals the model -/
open Spec Hand Hand.Scalar

namespace MiscTies

theorem i2osp_zero (n : Nat) : i2osp 0 n = List.replicate n 0 := by
  induction n with
  | zero => rfl
  | succ n ih => rw [i2osp_succ, ih]; simp [List.replicate_succ]

/-- `big.Int.Bytes()` left-padded with zeros to `k` bytes is I2OSP, for every value that fits -/
theorem natBytes_pad (k r : Nat) (hr : r < 256 ^ k) :
    (Prim.natBytes r).length ≤ k ∧ List.replicate (k - (Prim.natBytes r).length) 0 ++ Prim.natBytes r = i2osp r k := by
  induction k generalizing r with
  | zero =>
    have : r = 0 := by simpa using hr
    subst this
    rw [Prim.natBytes]; simp [i2osp]
  | succ k ih =>
    by_cases h0 : r = 0
    · subst h0
      rw [Prim.natBytes]; simp [i2osp_zero]
    · rw [Prim.natBytes]
      simp only [h0, dif_neg, not_false_eq_true]
      have hq : r / 256 < 256 ^ k := by
        rw [Nat.div_lt_iff_lt_mul (by norm_num)]; rw [pow_succ] at hr; exact hr
      obtain ⟨hl, he⟩ := ih (r / 256) hq
      constructor
      · simp; omega
      · have hsplit : i2osp r (k + 1) = i2osp (r / 256) k ++ [r % 256] := by
          have := i2osp_append r k 1
          simpa [i2osp, List.range_succ] using this
        rw [hsplit, ← he]
        simp only [List.length_append, List.length_singleton, Nat.add_sub_add_right, List.append_assoc]

theorem order_val : GenMisc.order = some Hand.Group.order ∧ os2ip Hand.Group.order = N := by
  constructor
  · rfl
  · decide +kernel

theorem N_lt : N < 256 ^ 32 := by decide +kernel
theorem N_gt : 1 < N := by decide +kernel

/-- padding the minimal bytes of `r < n` to 32 bytes, whichever branch of `if l > 0` runs -/
theorem pad_branch (r : Nat) (hr : r < 256 ^ 32) :
    (do
      let t4 ← Prim.subNat 32 (Prim.natBytes r).length
      let l := t4
      let bytes ← (if l > 0 then (do
          let buf : List Nat := (List.replicate l 0)
          let buf : List Nat := (buf ++ Prim.natBytes r)
          let bytes : List Nat := buf
          pure bytes) else (do
          pure (Prim.natBytes r)))
      pure bytes) = some (i2osp r 32) := by
  obtain ⟨hl, he⟩ := natBytes_pad 32 r hr
  unfold Prim.subNat
  simp only [hl, if_true, Option.bind_eq_bind, Option.bind_some, Option.pure_def]
  by_cases hpos : 32 - (Prim.natBytes r).length > 0
  · simp only [hpos, if_true, he]
  · have h0 : 32 - (Prim.natBytes r).length = 0 := by omega
    simp only [hpos, if_false]
    rw [h0] at he
    simpa using congrArg some he

/-- decoding a canonical 32-byte string with the regenerated `Decode` succeeds -/
theorem decode_ok (s : L4) (r : Nat) (hr : r < N) :
    GenScalarCodec.scalar_decode s (i2osp r 32) = some ((decode s (i2osp r 32)).2, none) := by
  rw [ScalarCodecTies.decode_tie]
  have hb := i2osp_isBytes r 32
  have hacc : (decode s (i2osp r 32)).1 = none := by
    obtain ⟨_, _, h2, _⟩ := sc_decode s (i2osp r 32) hb
    refine (h2 (i2osp_length r 32) ?_).1
    rw [os2ip_i2osp]
    have : r % 256 ^ 32 = r := Nat.mod_eq_of_lt (Nat.lt_trans hr N_lt)
    rw [this]; exact hr
  unfold ScalarCodecTies.shape
  rw [hacc]; rfl

theorem pad_facts (r : Nat) (hr : r < 256 ^ 32) :
    Prim.subNat 32 (Prim.natBytes r).length = some (32 - (Prim.natBytes r).length) ∧
    (if 32 - (Prim.natBytes r).length > 0 then
        some (List.replicate (32 - (Prim.natBytes r).length) 0 ++ Prim.natBytes r) else some (Prim.natBytes r)) =
      some (i2osp r 32) := by
  obtain ⟨hl, he⟩ := natBytes_pad 32 r hr
  constructor
  · unfold Prim.subNat; simp [hl]
  · by_cases hpos : 32 - (Prim.natBytes r).length > 0
    · simp only [hpos, if_true, he]
    · have h0 : 32 - (Prim.natBytes r).length = 0 := by omega
      simp only [hpos, if_false]
      rw [h0] at he
      simpa using congrArg some he

/-- the body of `Pow` for arbitrary outcomes of `IsZero`/`IsOne` and arbitrary (successful) encodings of the two operands -/
theorem pow_shape (s : L4) (isZ isO : Bool) (encS encT : Option (List Nat)) (es et : List Nat)
    (h1 : encS = some es) (h2 : encT = some et) :
    (if isZ = true then (do
          let s ← GenMisc.scalar_one s
          pure s) else (do
          if isO = true then (do
              pure s) else (do
              let t1 ← GenMisc.order
              let order : Nat := (Spec.os2ip t1)
              let t2 ← encS
              let bigS : Nat := (Spec.os2ip t2)
              let t3 ← encT
              let bigT : Nat := (Spec.os2ip t3)
              let bigS : Nat := Prim.bigExp bigS bigT order
              let bytes : List Nat := (Prim.natBytes bigS)
              let t4 ← Prim.subNat 32 (bytes).length
              let l := t4
              let bytes ← (if l > 0 then (do
                  let buf : List Nat := (List.replicate l 0)
                  let buf : List Nat := (buf ++ bytes)
                  let bytes : List Nat := buf
                  pure bytes) else (do
                  pure bytes))
              let (s, t5) ← GenScalarCodec.scalar_decode s bytes
              let err : Option String := t5
              let _ ← (if err ≠ none then (do
                  let _ ← (none : Option Unit)
                  pure ()) else (do
                  pure ()))
              pure s))) =
      some (if isZ = true then one else if isO = true then s
        else (decode s (i2osp (powMod (os2ip es) (os2ip et) N) 32)).2) := by
  subst h1 h2
  cases isZ
  · cases isO
    · have hN0 : N ≠ 0 := by have := N_gt; omega
      have hr : os2ip es ^ os2ip et % N < N := Nat.mod_lt _ (by have := N_gt; omega)
      obtain ⟨hsub, hpad⟩ := pad_facts (os2ip es ^ os2ip et % N) (Nat.lt_trans hr N_lt)
      simp only [Bool.false_eq_true, if_false, order_val.1, order_val.2, Option.bind_eq_bind, Option.bind_some,
        Option.pure_def, Prim.bigExp, hN0, hsub, hpad, decode_ok s _ hr, ne_eq, not_true_eq_false,
        powMod_eq _ _ _ N_gt]
    · rfl
  · rfl

theorem pow_tie (s : L4) (t : Option L4) : GenMisc.scalar_pow s t = some (pow s t) := by
  cases t with
  | none => rfl
  | some t =>
    exact pow_shape s (GenScalarAPI.isZero t) (GenScalarAPI.isOne t) (GenScalarCodec.scalar_encode s)
      (GenScalarCodec.scalar_encode t) (encode s) (encode t) (ScalarCodecTies.encode_tie s) (ScalarCodecTies.encode_tie t)

end MiscTies
