import Secp.Proofs.GroupLaw
/-! # Cross-multiplied coordinates decide equality of projective points (pure algebra; used by `Equal` and by the encoders) -/
/-!
# `Equal` decides equality of group elements in every pair of representations (C05)
-/
open WeierstrassCurve

variable {α : Type} {F : FieldOps α} {K : Type} [Field K] [DecidableEq K] (L : Lawful F K) (C : CurveOK (7 : K))

/-- cross-multiplied equality is equality in the group -/
theorem cross_iff (P Q : PP K) (hP : OnCurve (7 : K) P) (hQ : OnCurve (7 : K) Q) :
    (P.x * Q.z = Q.x * P.z ∧ P.y * Q.z = Q.y * P.z) ↔ toG 7 C P = toG 7 C Q := by
  by_cases hz1 : P.z = 0 <;> by_cases hz2 : Q.z = 0
  · obtain ⟨hx1, _⟩ := inf_shape P hP hz1
    obtain ⟨hx2, _⟩ := inf_shape Q hQ hz2
    simp [toG, hz1, hz2, hx1, hx2]
  · obtain ⟨_, hy1⟩ := inf_shape P hP hz1
    have e := aff_eq Q hQ hz2
    simp only [toG, hz1, hz2, if_true, if_false, mkPt_eq C e]
    constructor
    · rintro ⟨_, h⟩
      exfalso
      rw [mul_zero] at h
      exact (mul_ne_zero hy1 hz2) h
    · intro h; exact absurd h (by simp)
  · obtain ⟨_, hy2⟩ := inf_shape Q hQ hz2
    have e := aff_eq P hP hz1
    simp only [toG, hz1, hz2, if_true, if_false, mkPt_eq C e]
    constructor
    · rintro ⟨_, h⟩
      exfalso
      rw [mul_zero] at h
      exact (mul_ne_zero hy2 hz1) h.symm
    · intro h; exact absurd h (by simp)
  · have e1 := aff_eq P hP hz1
    have e2 := aff_eq Q hQ hz2
    simp only [toG, hz1, hz2, if_false, mkPt_eq C e1, mkPt_eq C e2, Affine.Point.some.injEq]
    constructor
    · rintro ⟨hx, hy⟩
      exact ⟨by field_simp; linear_combination hx, by field_simp; linear_combination hy⟩
    · rintro ⟨hx, hy⟩
      field_simp at hx hy
      exact ⟨by linear_combination hx, by linear_combination hy⟩

