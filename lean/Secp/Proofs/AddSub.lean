import Secp.Proofs.FieldLimb
/-!
# `Add`, `Sub`, `Opp`: generated code = reference (definitional), reference = arithmetic mod m
-/



theorem refAdd_correct (M : Modulus) (hM : M.Valid) (hMlt : M.val < W^4) (x y : L4) (hx : x.ok) (hy : y.ok)
    (hX : x.eval < M.val) (hY : y.eval < M.val) :
    (refAdd M x y).ok ∧ (refAdd M x y).eval = (x.eval + y.eval) % M.val := by
  obtain ⟨x0, x1, x2, x3⟩ := hx
  obtain ⟨y0, y1, y2, y3⟩ := hy
  unfold refAdd
  simp only
  obtain ⟨f0, m0, c0⟩ := add64_spec x.l0 y.l0 0 x0 y0 (by omega)
  generalize add64 x.l0 y.l0 0 = s0 at *
  obtain ⟨f1, m1, c1⟩ := add64_spec x.l1 y.l1 s0.2 x1 y1 c0
  generalize add64 x.l1 y.l1 s0.2 = s1 at *
  obtain ⟨f2, m2, c2⟩ := add64_spec x.l2 y.l2 s1.2 x2 y2 c1
  generalize add64 x.l2 y.l2 s1.2 = s2 at *
  obtain ⟨f3, m3, c3⟩ := add64_spec x.l3 y.l3 s2.2 x3 y3 c2
  generalize add64 x.l3 y.l3 s2.2 = s3 at *
  have hsum : eval5 ⟨s0.1, s1.1, s2.1, s3.1, s3.2⟩ = x.eval + y.eval := by
    unfold eval5 L4.eval
    simp only
    linear_combination f0 + W * f1 + W^2 * f2 + W^3 * f3
  have hlt : eval5 ⟨s0.1, s1.1, s2.1, s3.1, s3.2⟩ < 2 * M.val := by rw [hsum]; omega
  have cs := condSub_spec M hM hMlt ⟨s0.1, s1.1, s2.1, s3.1, s3.2⟩ m0 m1 m2 m3 (by simp only; omega) hlt
  simp only at cs
  obtain ⟨o0, o1, o2, o3, olt, oval⟩ := cs
  refine ⟨⟨o0, o1, o2, o3⟩, ?_⟩
  rw [L4.eval_eq, ← hsum]
  generalize eval5 ⟨s0.1, s1.1, s2.1, s3.1, s3.2⟩ = T at *
  generalize eval4 _ _ _ _ = V at *
  rcases oval with h | h
  · rw [← h]; exact (Nat.mod_eq_of_lt olt).symm
  · rw [← h, Nat.add_mod_right]; exact (Nat.mod_eq_of_lt olt).symm

/-- the masking function of a field: all-zero mask gives 0, all-one mask gives the modulus limbs -/
structure MaskOK (M : Modulus) (f : Nat → L4) : Prop where
  zero : f 0 = ⟨0, 0, 0, 0⟩
  ones : f (W - 1) = ⟨M.m0, M.m1, M.m2, M.m3⟩

theorem maskP_ok : MaskOK Mp maskP := ⟨by decide, by decide⟩

theorem maskN_ok : MaskOK Mn maskN := ⟨by decide, by decide⟩

theorem refSub_correct (M : Modulus) (hM : M.Valid) (hMlt : M.val < W^4) (f : Nat → L4) (hf : MaskOK M f)
    (x y : L4) (hx : x.ok) (hy : y.ok) (hX : x.eval < M.val) (hY : y.eval < M.val) :
    (refSub f x y).ok ∧ (refSub f x y).eval = (x.eval + M.val - y.eval) % M.val := by
  obtain ⟨x0, x1, x2, x3⟩ := hx
  obtain ⟨y0, y1, y2, y3⟩ := hy
  unfold refSub
  simp only
  obtain ⟨f0, m0, c0⟩ := sub64_spec x.l0 y.l0 0 x0 y0 (by omega)
  generalize sub64 x.l0 y.l0 0 = d0 at *
  obtain ⟨f1, m1, c1⟩ := sub64_spec x.l1 y.l1 d0.2 x1 y1 c0
  generalize sub64 x.l1 y.l1 d0.2 = d1 at *
  obtain ⟨f2, m2, c2⟩ := sub64_spec x.l2 y.l2 d1.2 x2 y2 c1
  generalize sub64 x.l2 y.l2 d1.2 = d2 at *
  obtain ⟨f3, m3, c3⟩ := sub64_spec x.l3 y.l3 d2.2 x3 y3 c2
  generalize sub64 x.l3 y.l3 d2.2 = d3 at *
  have hWm : (18446744073709551615 : Nat) < W := by decide
  have hmask := cmovznz_spec d3.2 0 18446744073709551615 c3 W_pos hWm
  generalize cmovznz d3.2 0 18446744073709551615 = mk at *
  have hsub : eval4 d0.1 d1.1 d2.1 d3.1 + y.eval = x.eval + W^4 * d3.2 := by
    unfold eval4 L4.eval
    linear_combination f0 + W * f1 + W^2 * f2 + W^3 * f3
  have hW4 : W^4 = 2^256 := by decide
  have hD : eval4 d0.1 d1.1 d2.1 d3.1 < W^4 := by unfold eval4; simp only [W] at *; omega
  have hXl : x.eval < W^4 := by omega
  by_cases hb : d3.2 = 0
  · have hmk0 : mk = 0 := by rw [hmask, hb]; rfl
    rw [hmk0, hf.zero]
    simp only
    obtain ⟨g0, n0, e0⟩ := add64_spec d0.1 0 0 m0 W_pos (by omega)
    generalize add64 d0.1 0 0 = a0 at *
    obtain ⟨g1, n1, e1⟩ := add64_spec d1.1 0 a0.2 m1 W_pos e0
    generalize add64 d1.1 0 a0.2 = a1 at *
    obtain ⟨g2, n2, e2⟩ := add64_spec d2.1 0 a1.2 m2 W_pos e1
    generalize add64 d2.1 0 a1.2 = a2 at *
    obtain ⟨g3, n3, e3⟩ := add64_spec d3.1 0 a2.2 m3 W_pos e2
    generalize add64 d3.1 0 a2.2 = a3 at *
    refine ⟨⟨n0, n1, n2, n3⟩, ?_⟩
    have hsum : eval4 a0.1 a1.1 a2.1 a3.1 + W^4 * a3.2 = eval4 d0.1 d1.1 d2.1 d3.1 := by
      unfold eval4
      linear_combination g0 + W * g1 + W^2 * g2 + W^3 * g3
    have hA : eval4 a0.1 a1.1 a2.1 a3.1 < W^4 := by unfold eval4; simp only [W] at *; omega
    rw [L4.eval_eq]
    simp only
    rw [hb] at hsub
    generalize eval4 a0.1 a1.1 a2.1 a3.1 = A at *
    generalize eval4 d0.1 d1.1 d2.1 d3.1 = D at *
    generalize x.eval = X at *
    generalize y.eval = Y at *
    generalize M.val = Mv at *
    have hA3 : a3.2 = 0 := by
      rcases Nat.le_one_iff_eq_zero_or_eq_one.mp e3 with h | h
      · exact h
      · rw [h] at hsum; simp only [hW4] at *; omega
    rw [hA3] at hsum
    have : A = X - Y := by omega
    have hle : Y ≤ X := by omega
    rw [this]
    have : X + Mv - Y = (X - Y) + Mv := by omega
    rw [this, Nat.add_mod_right]
    exact (Nat.mod_eq_of_lt (by omega)).symm
  · have hb1 : d3.2 = 1 := by omega
    have hmk1 : mk = W - 1 := by rw [hmask, hb1]; decide
    rw [hmk1, hf.ones]
    simp only
    obtain ⟨g0, n0, e0⟩ := add64_spec d0.1 M.m0 0 m0 hM.h0 (by omega)
    generalize add64 d0.1 M.m0 0 = a0 at *
    obtain ⟨g1, n1, e1⟩ := add64_spec d1.1 M.m1 a0.2 m1 hM.h1 e0
    generalize add64 d1.1 M.m1 a0.2 = a1 at *
    obtain ⟨g2, n2, e2⟩ := add64_spec d2.1 M.m2 a1.2 m2 hM.h2 e1
    generalize add64 d2.1 M.m2 a1.2 = a2 at *
    obtain ⟨g3, n3, e3⟩ := add64_spec d3.1 M.m3 a2.2 m3 hM.h3 e2
    generalize add64 d3.1 M.m3 a2.2 = a3 at *
    refine ⟨⟨n0, n1, n2, n3⟩, ?_⟩
    have hsum : eval4 a0.1 a1.1 a2.1 a3.1 + W^4 * a3.2 = eval4 d0.1 d1.1 d2.1 d3.1 + M.val := by
      rw [Modulus.val_eq]
      unfold eval4
      linear_combination g0 + W * g1 + W^2 * g2 + W^3 * g3
    have hA : eval4 a0.1 a1.1 a2.1 a3.1 < W^4 := by unfold eval4; simp only [W] at *; omega
    rw [L4.eval_eq]
    simp only
    rw [hb1] at hsub
    generalize eval4 a0.1 a1.1 a2.1 a3.1 = A at *
    generalize eval4 d0.1 d1.1 d2.1 d3.1 = D at *
    generalize x.eval = X at *
    generalize y.eval = Y at *
    generalize M.val = Mv at *
    have hA3 : a3.2 = 1 := by
      rcases Nat.le_one_iff_eq_zero_or_eq_one.mp e3 with h | h
      · rw [h] at hsum; simp only [hW4] at *; omega
      · exact h
    rw [hA3] at hsum
    have : A = X + Mv - Y := by simp only [hW4] at *; omega
    rw [this]
    exact (Nat.mod_eq_of_lt (by simp only [hW4] at *; omega)).symm
