import Secp.Proofs.FieldLimb
import Secp.Gen.FiatScalar
/-! # `FieldLimb`: the scalar-field instances (regenerated `FiatScalar` code) -/

theorem cmov_tie_n (c z nz : Nat) : FiatScalar.cmovznzU64 c z nz = cmovznz c z nz := by
  unfold FiatScalar.cmovznzU64 cmovznz; rfl

theorem mul_tie_n (x y : L4) : FiatScalar.mul x y = refMul Mn x y := by
  unfold FiatScalar.mul refMul condSub redStep add5 addShift mulRow Mn
  simp only [cmov_tie_n]

theorem square_tie_n (x : L4) : FiatScalar.square x = refMul Mn x x := by
  unfold FiatScalar.square refMul condSub redStep add5 addShift mulRow Mn
  simp only [cmov_tie_n]

theorem scalarMul_correct (x y : L4) (hx : x.ok) (hy : y.ok) (hY : y.eval < Nnat) :
    (FiatScalar.mul x y).ok ∧ (FiatScalar.mul x y).eval < Nnat ∧
    ((FiatScalar.mul x y).eval * W^4) % Nnat = (x.eval * y.eval) % Nnat := by
  rw [mul_tie_n, ← Mn_val]
  exact refMul_L4 Mn Mn_valid Mn_lt x y hx hy (by rw [Mn_val]; exact hY)

theorem scalarSquare_correct (x : L4) (hx : x.ok) (hX : x.eval < Nnat) :
    (FiatScalar.square x).ok ∧ (FiatScalar.square x).eval < Nnat ∧
    ((FiatScalar.square x).eval * W^4) % Nnat = (x.eval * x.eval) % Nnat := by
  rw [square_tie_n, ← Mn_val]
  exact refMul_L4 Mn Mn_valid Mn_lt x x hx hx (by rw [Mn_val]; exact hX)
