import Secp.Proofs.CurveBridge
import Secp.Hand.Element
/-!
# Group-level correctness of the element API, for every lawful operations record

`K` is any field in which `y² = x³ + 7` has no point of order two (`CurveOK 7`); `toGp` maps a valid
projective triple (any representation, including every `(0 : Y : 0)`) to Mathlib's group
`WeierstrassCurve.Affine.Point`.
-/

open WeierstrassCurve

variable {α : Type} {F : FieldOps α} {K : Type} [Field K] [DecidableEq K] (L : Lawful F K) (C : CurveOK (7 : K))

/-- a valid group element in some internal representation -/
def PtValid (P : Pt α) : Prop := PtOk L P ∧ OnCurve (7 : K) (vpt L P)

noncomputable def toGp (P : Pt α) : (Wb (7 : K)).Point := toG 7 C (vpt L P)

theorem identity_valid : PtValid L (Hand.Element.identity F) := by
  refine ⟨⟨L.ok_zero, L.ok_one, L.ok_zero⟩, ?_⟩
  simp only [OnCurve, vpt, Hand.Element.identity, L.val_zero, L.val_one]
  refine ⟨by ring, Or.inr (Or.inl one_ne_zero)⟩

theorem toGp_identity : toGp L C (Hand.Element.identity F) = 0 := by
  simp [toGp, toG, vpt, Hand.Element.identity, L.val_zero]

/-- `Add` with a distinct argument -/
theorem add_correct (hc : CurveConsts L) (P Q : Pt α) (hP : PtValid L P) (hQ : PtValid L Q) :
    PtValid L (Hand.Element.add F P (some Q)) ∧
    toGp L C (Hand.Element.add F P (some Q)) = toGp L C P + toGp L C Q := by
  obtain ⟨ok, v⟩ := add_eu_v_bridge L hc P Q hP.1 hQ.1
  obtain ⟨oc, g⟩ := rcb_complete C (vpt L P) (vpt L Q) hP.2 hQ.2
  simp only [Hand.Element.add, PtValid, toGp]
  rw [v]
  exact ⟨⟨ok, oc⟩, g⟩

/-- `Add(nil)` leaves the receiver unchanged -/
theorem add_nil (P : Pt α) : Hand.Element.add F P none = P := rfl
theorem subtract_nil (P : Pt α) : Hand.Element.subtract F P none = P := rfl

/-- `e.Add(e)` (receiver is the argument) -/
theorem addSelf_correct (hc : CurveConsts L) (P : Pt α) (hP : PtValid L P) :
    PtValid L (Hand.Element.addSelf F P) ∧
    toGp L C (Hand.Element.addSelf F P) = toGp L C P + toGp L C P := by
  obtain ⟨ok, v⟩ := add_euv_bridge L hc P hP.1
  obtain ⟨oc, g⟩ := rcb_complete C (vpt L P) (vpt L P) hP.2 hP.2
  simp only [Hand.Element.addSelf, PtValid, toGp]
  rw [v]
  exact ⟨⟨ok, oc⟩, g⟩

theorem double_correct (hc : CurveConsts L) (P : Pt α) (hP : PtValid L P) :
    PtValid L (Hand.Element.double F P) ∧
    toGp L C (Hand.Element.double F P) = toGp L C P + toGp L C P := by
  obtain ⟨ok, v⟩ := double_bridge L hc P hP.1
  obtain ⟨oc, g⟩ := dbl_complete C (vpt L P) hP.2
  simp only [Hand.Element.double, PtValid, toGp]
  rw [v]
  exact ⟨⟨ok, oc⟩, g⟩

omit [DecidableEq K] in
theorem onCurve_neg (P : PP K) (h : OnCurve (7 : K) P) : OnCurve (7 : K) ⟨P.x, -P.y, P.z⟩ := by
  obtain ⟨e, nz⟩ := h
  refine ⟨by simp only; linear_combination e, ?_⟩
  rcases nz with h | h | h
  · exact Or.inl h
  · exact Or.inr (Or.inl (neg_ne_zero.mpr h))
  · exact Or.inr (Or.inr h)

theorem toG_neg (P : PP K) (h : OnCurve (7 : K) P) : toG 7 C ⟨P.x, -P.y, P.z⟩ = - toG 7 C P := by
  simp only [toG]
  by_cases hz : P.z = 0
  · simp [hz]
  · simp only [hz, if_false]
    have e := aff_eq P h hz
    have e' : (-P.y / P.z)^2 = (P.x / P.z)^3 + 7 := by rw [neg_div, neg_sq]; exact e
    rw [mkPt_eq C e, mkPt_eq C e', Affine.Point.neg_some]
    congr 1
    simp [Affine.negY, Wb, neg_div]

/-- the unconditional negation used inside `Subtract` (and by `Negate` off the identity) -/
theorem negate_raw_correct (P : Pt α) (hP : PtValid L P) :
    PtValid L (Curve.negate F P) ∧ toGp L C (Curve.negate F P) = - toGp L C P := by
  obtain ⟨ok, v⟩ := negate_bridge L P hP.1
  simp only [PtValid, toGp]
  rw [v]
  exact ⟨⟨ok, onCurve_neg (vpt L P) hP.2⟩, toG_neg C (vpt L P) hP.2⟩

theorem isIdentity_iff (P : Pt α) (hP : PtValid L P) :
    Hand.Element.isIdentity F P = true ↔ toGp L C P = 0 := by
  obtain ⟨⟨_, _, hz⟩, oc⟩ := hP
  simp only [Hand.Element.isIdentity, toGp, toG, vpt]
  by_cases h : L.val P.z = 0
  · simp [L.isZero_of_eq hz h, h]
  · simp only [L.isZero_of_ne hz h, h, if_false]
    have e := aff_eq (vpt L P) oc h
    simp only [vpt] at e
    rw [mkPt_eq C e]
    simp

/-- `Negate` (with its identity short-cut) -/
theorem negate_correct (P : Pt α) (hP : PtValid L P) :
    PtValid L (Hand.Element.negate F P) ∧ toGp L C (Hand.Element.negate F P) = - toGp L C P := by
  simp only [Hand.Element.negate]
  by_cases h : Hand.Element.isIdentity F P = true
  · simp only [h, if_true]
    have := (isIdentity_iff L C P hP).mp h
    exact ⟨hP, by rw [this, neg_zero]⟩
  · simp only [h]
    exact negate_raw_correct L C P hP

/-- `Subtract` with any argument — including the receiver itself, since the code negates a *copy* -/
theorem subtract_correct (hc : CurveConsts L) (P Q : Pt α) (hP : PtValid L P) (hQ : PtValid L Q) :
    PtValid L (Hand.Element.subtract F P (some Q)) ∧
    toGp L C (Hand.Element.subtract F P (some Q)) = toGp L C P - toGp L C Q := by
  obtain ⟨vn, gn⟩ := negate_raw_correct L C Q hQ
  obtain ⟨va, ga⟩ := add_correct L C hc P (Curve.negate F Q) hP vn
  simp only [Hand.Element.subtract, Hand.Element.add] at *
  exact ⟨va, by rw [ga, gn, sub_eq_add_neg]⟩

theorem subtract_self (hc : CurveConsts L) (P : Pt α) (hP : PtValid L P) :
    toGp L C (Hand.Element.subtract F P (some P)) = 0 := by
  rw [(subtract_correct L C hc P P hP hP).2, sub_self]
