import Secp.Proofs.BytesTiesN
/-! # The regenerated `HashToFieldElement` of `internal/scalar` equals the model -/
open Spec Hand

namespace BytesTies

attribute [local irreducible] FiatScalar.mul FiatScalar.add FiatScalar.toMontgomery

theorem fn_hashToFieldElement (out : L4) (input : List Nat) (hl : input.length = 48) :
    GenScalarBytes.hashToFieldElement out input = some (Fn.hashToFieldElement input) := by
  unfold GenScalarBytes.hashToFieldElement Fn.hashToFieldElement
  simp only [Fn.two192, Fn.two384, Option.bind_eq_bind, Option.pure_def, Option.bind_some]
  exact h2f_chain GenScalarBytes.fromBytesNoReduce Fn.fromBytesNoReduce FiatScalar.mul FiatScalar.add _ _ _ _
    fn_fromBytesNoReduce out (List.replicate 16 0 ++ input) (by simp [hl])


end BytesTies
