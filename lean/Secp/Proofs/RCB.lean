import Mathlib.AlgebraicGeometry.EllipticCurve.Affine.Point
import Mathlib.Tactic.Ring
import Mathlib.Tactic.LinearCombination
import Mathlib.Tactic.FieldSimp


open WeierstrassCurve

variable {K : Type} [Field K] [DecidableEq K]

def Wb (b : K) : WeierstrassCurve.Affine K := { a₁ := 0, a₂ := 0, a₃ := 0, a₄ := 0, a₆ := b }

omit [DecidableEq K] in
theorem eqn_iff (b x y : K) : (Wb b).Equation x y ↔ y^2 = x^3 + b := by
  rw [Affine.equation_iff]; simp [Wb]

/-- standing assumptions on the curve y² = x³ + b -/
structure CurveOK (b : K) : Prop where
  h2 : (2:K) ≠ 0
  h3 : (3:K) ≠ 0
  hb : b ≠ 0
  no2 : ∀ x : K, x^3 + b ≠ 0

omit [DecidableEq K] in
theorem nonsing_of {b : K} (C : CurveOK b) {x y : K} (h : y^2 = x^3 + b) : (Wb b).Nonsingular x y := by
  rw [Affine.nonsingular_iff, eqn_iff]
  refine ⟨h, ?_⟩
  simp only [Wb]
  right
  have hy : y ≠ 0 := by
    rintro rfl
    apply C.no2 x; linear_combination -h
  simp
  intro h'
  apply hy
  have : (2:K) * y = 0 := by linear_combination h'
  rcases mul_eq_zero.mp this with h | h
  · exact absurd h C.h2
  · exact h

omit [DecidableEq K] in
theorem y_ne_zero {b : K} (C : CurveOK b) {x y : K} (h : y^2 = x^3 + b) : y ≠ 0 := by
  rintro rfl
  apply C.no2 x; linear_combination -h

/-- affine point from coordinates (0 if not on the curve) -/
noncomputable def mkPt (b : K) (C : CurveOK b) (x y : K) : (Wb b).Point :=
  if h : y^2 = x^3 + b then .some x y (nonsing_of C h) else 0

theorem mkPt_eq {b : K} (C : CurveOK b) {x y : K} (h : y^2 = x^3 + b) :
    mkPt b C x y = .some x y (nonsing_of C h) := by
  simp [mkPt, h]

structure PP (K : Type) where
  x : K
  y : K
  z : K

def OnCurve (b : K) (P : PP K) : Prop :=
  P.y^2 * P.z = P.x^3 + b * P.z^3 ∧ (P.x ≠ 0 ∨ P.y ≠ 0 ∨ P.z ≠ 0)

noncomputable def toG (b : K) (C : CurveOK b) (P : PP K) : (Wb b).Point :=
  if P.z = 0 then 0 else mkPt b C (P.x / P.z) (P.y / P.z)

def RX (b x1 y1 z1 x2 y2 z2 : K) : K :=
  -3*b*x1*y1*z2^2 - 6*b*x1*y2*z1*z2 - 6*b*x2*y1*z1*z2 - 3*b*x2*y2*z1^2 + x1*y1*y2^2 + x2*y1^2*y2
def RY (b x1 y1 z1 x2 y2 z2 : K) : K :=
  -9*b^2*z1^2*z2^2 + 9*b*x1^2*x2*z2 + 9*b*x1*x2^2*z1 + y1^2*y2^2
def RZ (b x1 y1 z1 x2 y2 z2 : K) : K :=
  3*b*y1*z1*z2^2 + 3*b*y2*z1^2*z2 + 3*x1^2*x2*y2 + 3*x1*x2^2*y1 + y1^2*y2*z2 + y1*y2^2*z1

def rcb (b : K) (P Q : PP K) : PP K :=
  ⟨RX b P.x P.y P.z Q.x Q.y Q.z, RY b P.x P.y P.z Q.x Q.y Q.z, RZ b P.x P.y P.z Q.x Q.y Q.z⟩

def scale (l : K) (P : PP K) : PP K := ⟨l * P.x, l * P.y, l * P.z⟩

omit [DecidableEq K] in
theorem rcb_scale (b l m : K) (P Q : PP K) :
    rcb b (scale l P) (scale m Q) = scale (l^2 * m^2) (rcb b P Q) := by
  simp only [rcb, scale, RX, RY, RZ, PP.mk.injEq]
  refine ⟨by ring, by ring, by ring⟩

theorem toG_scale {b : K} (C : CurveOK b) (l : K) (hl : l ≠ 0) (P : PP K) :
    toG b C (scale l P) = toG b C P := by
  unfold toG scale
  by_cases hz : P.z = 0
  · simp [hz]
  · have : l * P.z ≠ 0 := mul_ne_zero hl hz
    simp only [this, hz, if_false]
    congr 1 <;> field_simp

omit [DecidableEq K] in
theorem onCurve_scale {b : K} (l : K) (hl : l ≠ 0) (P : PP K) (h : OnCurve b P) : OnCurve b (scale l P) := by
  obtain ⟨e, nz⟩ := h
  refine ⟨?_, ?_⟩
  · simp only [scale]; linear_combination l^3 * e
  · simp only [scale]
    rcases nz with h | h | h
    · left; exact mul_ne_zero hl h
    · right; left; exact mul_ne_zero hl h
    · right; right; exact mul_ne_zero hl h

/-- from an affine description of the output to OnCurve and toG -/
theorem out_of_affine {b : K} (C : CurveOK b) (R : PP K) (x3 y3 : K) (hz : R.z ≠ 0)
    (hx : R.x / R.z = x3) (hy : R.y / R.z = y3) (h3 : y3^2 = x3^3 + b) :
    OnCurve b R ∧ toG b C R = mkPt b C x3 y3 := by
  refine ⟨⟨?_, Or.inr (Or.inr hz)⟩, ?_⟩
  · rw [← hx, ← hy] at h3
    field_simp at h3
    linear_combination h3
  · unfold toG; simp [hz, hx, hy]

theorem aff_generic {b : K} (C : CurveOK b) (x1 y1 x2 y2 : K)
    (e1 : y1^2 = x1^3 + b) (e2 : y2^2 = x2^3 + b) (hx : x1 ≠ x2) :
    OnCurve b (rcb b ⟨x1, y1, 1⟩ ⟨x2, y2, 1⟩) ∧
    toG b C (rcb b ⟨x1, y1, 1⟩ ⟨x2, y2, 1⟩) = mkPt b C x1 y1 + mkPt b C x2 y2 := by
  have hd : x1 - x2 ≠ 0 := sub_ne_zero.mpr hx
  have n1 := nonsing_of C e1
  have n2 := nonsing_of C e2
  rw [mkPt_eq C e1, mkPt_eq C e2, Affine.Point.add_of_X_ne hx]
  have hs : (Wb b).slope x1 x2 y1 y2 = (y1 - y2) / (x1 - x2) := Affine.slope_of_X_ne hx
  set ℓ := (Wb b).slope x1 x2 y1 y2 with hℓ
  have hX3 : (Wb b).addX x1 x2 ℓ = ℓ^2 - x1 - x2 := by simp [Affine.addX, Wb]
  have hY3 : (Wb b).addY x1 x2 y1 ℓ = ℓ * (x1 - (ℓ^2 - x1 - x2)) - y1 := by
    simp [Affine.addY, Affine.negAddY, Affine.negY, Affine.addX, Wb]; ring
  have hns : (Wb b).Nonsingular ((Wb b).addX x1 x2 ℓ) ((Wb b).addY x1 x2 y1 ℓ) := by
    exact Affine.nonsingular_add n1 n2 (fun hxy => hx hxy.left)
  have hon3 : ((Wb b).addY x1 x2 y1 ℓ)^2 = ((Wb b).addX x1 x2 ℓ)^3 + b := (eqn_iff _ _ _).mp hns.1
  -- P - Q for the non-vanishing of Z
  have e2' : (-y2)^2 = x2^3 + b := by rw [neg_sq]; exact e2
  have n2' := nonsing_of C e2'
  have hns4 := Affine.nonsingular_add n1 n2' (fun hxy => hx hxy.left)
  have hs4 : (Wb b).slope x1 x2 y1 (-y2) = (y1 + y2) / (x1 - x2) := by
    rw [Affine.slope_of_X_ne hx]; ring
  rw [hs4] at hns4
  have hon4 := (eqn_iff _ _ _).mp hns4.1
  set lp := (y1 + y2) / (x1 - x2) with hlp
  have hX4 : (Wb b).addX x1 x2 lp = lp^2 - x1 - x2 := by simp [Affine.addX, Wb]
  have hY4 : (Wb b).addY x1 x2 y1 lp = lp * (x1 - (lp^2 - x1 - x2)) - y1 := by
    simp [Affine.addY, Affine.negAddY, Affine.negY, Affine.addX, Wb]; ring
  have hy4 : (Wb b).addY x1 x2 y1 lp ≠ 0 := y_ne_zero C hon4
  have hZ' : RZ b x1 y1 1 x2 y2 1 = - (Wb b).addY x1 x2 y1 lp * (x1 - x2)^3 := by
    rw [hY4, hlp]
    simp only [RZ]
    field_simp
    linear_combination (-y1 - 2*y2) * e1 + (-2*y1 - y2) * e2
  have hZ : RZ b x1 y1 1 x2 y2 1 ≠ 0 := by
    rw [hZ']; exact mul_ne_zero (neg_ne_zero.mpr hy4) (pow_ne_zero _ hd)
  have hXe : RX b x1 y1 1 x2 y2 1 / RZ b x1 y1 1 x2 y2 1 = (Wb b).addX x1 x2 ℓ := by
    rw [hX3, hs, div_eq_iff hZ]
    simp only [RX, RZ]
    field_simp
    linear_combination (-3*b*y1 + 2*b*y2 - 3*x1^2*x2*y2 - 3*x1*x2^2*y1 + 3*x1*x2^2*y2 + 2*x2^3*y2 - y1^2*y2 + y1*y2^2 + y2^3) * e1 + (3*b*y1 - 2*b*y2 + 3*x1^3*y1 + x1^3*y2 + 3*x1^2*x2*y1 - 3*x1^2*x2*y2 - 3*x1*x2^2*y1 - y1*y2^2) * e2
  have hYe : RY b x1 y1 1 x2 y2 1 / RZ b x1 y1 1 x2 y2 1 = (Wb b).addY x1 x2 y1 ℓ := by
    rw [hY3, hs, div_eq_iff hZ]
    simp only [RY, RZ]
    field_simp
    linear_combination (3*b^2 + 12*b*x1*x2^2 - 6*b*x2^3 + 3*b*y1^2 - 5*b*y1*y2 - 2*b*y2^2 + 9*x1^2*x2^4 + 3*x1^2*x2*y1*y2 - 15*x1^2*x2*y2^2 - 6*x1*x2^5 + 3*x1*x2^2*y1^2 - 6*x1*x2^2*y1*y2 + 15*x1*x2^2*y2^2 - 2*x2^3*y1*y2 - 2*x2^3*y2^2 + y1^3*y2 - 2*y1^2*y2^2 + 2*y2^4) * e1 + (-3*b^2 + 6*b*x1^3 - 27*b*x1^2*x2 + 15*b*x1*x2^2 + 5*b*y1*y2 - b*y2^2 - 9*x1^5*x2 + 6*x1^4*x2^2 + 2*x1^3*y1*y2 + 2*x1^3*y2^2 + 6*x1^2*x2*y1*y2 - 3*x1^2*x2*y2^2 - 3*x1*x2^2*y1*y2 - y1*y2^3) * e2
  obtain ⟨oc, tg⟩ := out_of_affine C (rcb b ⟨x1, y1, 1⟩ ⟨x2, y2, 1⟩) _ _ hZ hXe hYe hon3
  refine ⟨oc, ?_⟩
  rw [tg, mkPt_eq C hon3]

theorem aff_double {b : K} (C : CurveOK b) (x y : K) (e : y^2 = x^3 + b) :
    OnCurve b (rcb b ⟨x, y, 1⟩ ⟨x, y, 1⟩) ∧
    toG b C (rcb b ⟨x, y, 1⟩ ⟨x, y, 1⟩) = mkPt b C x y + mkPt b C x y := by
  have hy : y ≠ 0 := y_ne_zero C e
  have h2y : (2:K) * y ≠ 0 := mul_ne_zero C.h2 hy
  have n1 := nonsing_of C e
  have hne : y ≠ (Wb b).negY x y := by
    simp only [Affine.negY, Wb]
    intro h
    apply h2y
    linear_combination h
  rw [mkPt_eq C e, Affine.Point.add_self_of_Y_ne hne]
  have hs : (Wb b).slope x x y y = 3 * x^2 / (2 * y) := by
    rw [Affine.slope_of_Y_ne rfl hne]
    simp only [Affine.negY, Wb]
    congr 1 <;> ring
  set ℓ := (Wb b).slope x x y y with hℓ
  have hX3 : (Wb b).addX x x ℓ = ℓ^2 - x - x := by simp [Affine.addX, Wb]
  have hY3 : (Wb b).addY x x y ℓ = ℓ * (x - (ℓ^2 - x - x)) - y := by
    simp [Affine.addY, Affine.negAddY, Affine.negY, Affine.addX, Wb]; ring
  have hns : (Wb b).Nonsingular ((Wb b).addX x x ℓ) ((Wb b).addY x x y ℓ) :=
    Affine.nonsingular_add n1 n1 (fun hxy => hne hxy.right)
  have hon3 := (eqn_iff _ _ _).mp hns.1
  have hZ' : RZ b x y 1 x y 1 = 8 * y^3 := by
    simp only [RZ]; linear_combination (-6*y) * e
  have h8 : (8:K) ≠ 0 := by
    have : (8:K) = 2^3 := by norm_num
    rw [this]; exact pow_ne_zero _ C.h2
  have hZ : RZ b x y 1 x y 1 ≠ 0 := by
    rw [hZ']; exact mul_ne_zero h8 (pow_ne_zero _ hy)
  have hXe : RX b x y 1 x y 1 / RZ b x y 1 x y 1 = (Wb b).addX x x ℓ := by
    rw [hX3, hs, div_eq_iff hZ, hZ']
    simp only [RX]
    have h2 := C.h2
    field_simp
    linear_combination (72*x) * e
  have hYe : RY b x y 1 x y 1 / RZ b x y 1 x y 1 = (Wb b).addY x x y ℓ := by
    rw [hY3, hs, div_eq_iff hZ, hZ']
    simp only [RY]
    have h2 := C.h2
    field_simp
    linear_combination (-72*(-b + 3*x^3 - y^2)) * e
  obtain ⟨oc, tg⟩ := out_of_affine C (rcb b ⟨x, y, 1⟩ ⟨x, y, 1⟩) _ _ hZ hXe hYe hon3
  refine ⟨oc, ?_⟩
  rw [tg, mkPt_eq C hon3]

theorem aff_neg {b : K} (C : CurveOK b) (x y : K) (e : y^2 = x^3 + b) :
    OnCurve b (rcb b ⟨x, y, 1⟩ ⟨x, -y, 1⟩) ∧
    toG b C (rcb b ⟨x, y, 1⟩ ⟨x, -y, 1⟩) = mkPt b C x y + mkPt b C x (-y) := by
  have hy : y ≠ 0 := y_ne_zero C e
  have h2 := C.h2
  have e' : (-y)^2 = x^3 + b := by rw [neg_sq]; exact e
  have n1 := nonsing_of C e
  rw [mkPt_eq C e, mkPt_eq C e', Affine.Point.add_of_Y_eq rfl (by simp [Affine.negY, Wb])]
  have hX : RX b x y 1 x (-y) 1 = 0 := by simp only [RX]; ring
  have hZ : RZ b x y 1 x (-y) 1 = 0 := by simp only [RZ]; ring
  -- Y3 = 8 y^3 * y(2P) and y(2P) ≠ 0
  have hne : y ≠ (Wb b).negY x y := by
    simp only [Affine.negY, Wb]
    intro h
    apply mul_ne_zero h2 hy
    linear_combination h
  have hns := Affine.nonsingular_add n1 n1 (fun hxy => hne hxy.right)
  have hs : (Wb b).slope x x y y = 3 * x^2 / (2 * y) := by
    rw [Affine.slope_of_Y_ne rfl hne]
    simp only [Affine.negY, Wb]
    congr 1 <;> ring
  rw [hs] at hns
  have hon := (eqn_iff _ _ _).mp hns.1
  have hyd := y_ne_zero C hon
  have hY3 : (Wb b).addY x x y (3 * x^2 / (2 * y)) = (3 * x^2 / (2 * y)) * (x - ((3 * x^2 / (2 * y))^2 - x - x)) - y := by
    simp [Affine.addY, Affine.negAddY, Affine.negY, Affine.addX, Wb]; ring
  have hY : RY b x y 1 x (-y) 1 = 8 * y^3 * (Wb b).addY x x y (3 * x^2 / (2 * y)) := by
    rw [hY3]; simp only [RY]
    field_simp
    linear_combination (-72*(-b + 3*x^3 - y^2)) * e
  have h8 : (8:K) ≠ 0 := by
    have : (8:K) = 2^3 := by norm_num
    rw [this]; exact pow_ne_zero _ h2
  have hYne : RY b x y 1 x (-y) 1 ≠ 0 := by
    rw [hY]; exact mul_ne_zero (mul_ne_zero h8 (pow_ne_zero _ hy)) hyd
  refine ⟨⟨?_, Or.inr (Or.inl hYne)⟩, ?_⟩
  · simp only [rcb, hX, hZ]; ring
  · unfold toG; simp [rcb, hZ]

omit [DecidableEq K] in
theorem inf_shape {b : K} (P : PP K) (h : OnCurve b P) (hz : P.z = 0) : P.x = 0 ∧ P.y ≠ 0 := by
  obtain ⟨e, nz⟩ := h
  have hx : P.x = 0 := by
    have : P.x^3 = 0 := by rw [hz] at e; linear_combination -e
    exact pow_eq_zero_iff (by norm_num) |>.mp this
  refine ⟨hx, ?_⟩
  rcases nz with h | h | h
  · exact absurd hx h
  · exact h
  · exact absurd hz h

omit [DecidableEq K] in
theorem aff_eq {b : K} (P : PP K) (h : OnCurve b P) (hz : P.z ≠ 0) :
    (P.y / P.z)^2 = (P.x / P.z)^3 + b := by
  obtain ⟨e, _⟩ := h
  field_simp
  linear_combination e

omit [DecidableEq K] in
theorem proj_y_ne_zero {b : K} (C : CurveOK b) (P : PP K) (h : OnCurve b P) : P.y ≠ 0 := by
  by_cases hz : P.z = 0
  · exact (inf_shape P h hz).2
  · have := y_ne_zero C (aff_eq P h hz)
    intro hy; apply this; rw [hy]; simp

omit [DecidableEq K] in
theorem norm_rep (P : PP K) (hz : P.z ≠ 0) : P = scale P.z ⟨P.x / P.z, P.y / P.z, 1⟩ := by
  cases P; simp only [scale, PP.mk.injEq]; refine ⟨?_, ?_, ?_⟩ <;> field_simp

theorem toG_aff {b : K} (C : CurveOK b) (P : PP K) (hz : P.z ≠ 0) :
    toG b C P = mkPt b C (P.x / P.z) (P.y / P.z) := by
  unfold toG; simp [hz]

theorem toG_inf {b : K} (C : CurveOK b) (P : PP K) (hz : P.z = 0) : toG b C P = 0 := by
  unfold toG; simp [hz]

/-- both operands affine-normalised -/
theorem aff_all {b : K} (C : CurveOK b) (x1 y1 x2 y2 : K)
    (e1 : y1^2 = x1^3 + b) (e2 : y2^2 = x2^3 + b) :
    OnCurve b (rcb b ⟨x1, y1, 1⟩ ⟨x2, y2, 1⟩) ∧
    toG b C (rcb b ⟨x1, y1, 1⟩ ⟨x2, y2, 1⟩) = mkPt b C x1 y1 + mkPt b C x2 y2 := by
  by_cases hx : x1 = x2
  · subst hx
    have : (y1 - y2) * (y1 + y2) = 0 := by linear_combination e1 - e2
    rcases mul_eq_zero.mp this with h | h
    · have : y1 = y2 := by linear_combination h
      subst this
      exact aff_double C x1 y1 e1
    · have : y2 = -y1 := by linear_combination h
      subst this
      exact aff_neg C x1 y1 e1
  · exact aff_generic C x1 y1 x2 y2 e1 e2 hx

/-- the complete addition theorem for the RCB polynomials -/
theorem rcb_complete {b : K} (C : CurveOK b) (P Q : PP K) (hP : OnCurve b P) (hQ : OnCurve b Q) :
    OnCurve b (rcb b P Q) ∧ toG b C (rcb b P Q) = toG b C P + toG b C Q := by
  have hyP := proj_y_ne_zero C P hP
  have hyQ := proj_y_ne_zero C Q hQ
  by_cases hzP : P.z = 0
  · -- P = O: output = (Py^2 * Qy) • Q
    obtain ⟨hxP, _⟩ := inf_shape P hP hzP
    have hl : P.y^2 * Q.y ≠ 0 := mul_ne_zero (pow_ne_zero _ hyP) hyQ
    have : rcb b P Q = scale (P.y^2 * Q.y) Q := by
      cases P; cases Q
      simp only at hxP hzP
      subst hxP hzP
      simp only [rcb, scale, RX, RY, RZ, PP.mk.injEq]
      refine ⟨by ring, by ring, by ring⟩
    rw [this, toG_scale C _ hl, toG_inf C P hzP, zero_add]
    exact ⟨onCurve_scale _ hl Q hQ, rfl⟩
  · by_cases hzQ : Q.z = 0
    · obtain ⟨hxQ, _⟩ := inf_shape Q hQ hzQ
      have hl : Q.y^2 * P.y ≠ 0 := mul_ne_zero (pow_ne_zero _ hyQ) hyP
      have : rcb b P Q = scale (Q.y^2 * P.y) P := by
        cases P; cases Q
        simp only at hxQ hzQ
        subst hxQ hzQ
        simp only [rcb, scale, RX, RY, RZ, PP.mk.injEq]
        refine ⟨by ring, by ring, by ring⟩
      rw [this, toG_scale C _ hl, toG_inf C Q hzQ, add_zero]
      exact ⟨onCurve_scale _ hl P hP, rfl⟩
    · -- both affine: normalise
      have eP := aff_eq P hP hzP
      have eQ := aff_eq Q hQ hzQ
      obtain ⟨oc, tg⟩ := aff_all C _ _ _ _ eP eQ
      have hl : P.z^2 * Q.z^2 ≠ 0 := mul_ne_zero (pow_ne_zero _ hzP) (pow_ne_zero _ hzQ)
      have hr : rcb b P Q = scale (P.z^2 * Q.z^2) (rcb b ⟨P.x / P.z, P.y / P.z, 1⟩ ⟨Q.x / Q.z, Q.y / Q.z, 1⟩) := by
        conv_lhs => rw [norm_rep P hzP, norm_rep Q hzQ]
        exact rcb_scale b _ _ _ _
      rw [hr, toG_scale C _ hl, tg, toG_aff C P hzP, toG_aff C Q hzQ]
      exact ⟨onCurve_scale _ hl _ oc, rfl⟩

#print axioms rcb_complete


def DX (b x y z : K) : K := 2*x*y*(y^2 - 9*b*z^2)
def DY (b x y z : K) : K := y^4 + 18*b*y^2*z^2 - 27*b^2*z^4
def DZ (_b _x y z : K) : K := 8*y^3*z
def dbl (b : K) (P : PP K) : PP K := ⟨DX b P.x P.y P.z, DY b P.x P.y P.z, DZ b P.x P.y P.z⟩

omit [DecidableEq K] in
theorem dbl_eq_rcb {b : K} (P : PP K) (h : OnCurve b P) : dbl b P = rcb b P P := by
  obtain ⟨e, _⟩ := h
  simp only [dbl, rcb, DX, DY, DZ, RX, RY, RZ, PP.mk.injEq]
  refine ⟨by ring, ?_, ?_⟩
  · linear_combination (18*b*P.z) * e
  · linear_combination (6*P.y) * e

theorem dbl_complete {b : K} (C : CurveOK b) (P : PP K) (hP : OnCurve b P) :
    OnCurve b (dbl b P) ∧ toG b C (dbl b P) = toG b C P + toG b C P := by
  rw [dbl_eq_rcb P hP]; exact rcb_complete C P P hP hP
#print axioms dbl_complete
