import Secp.Gen.Misc
import Secp.Proofs.ScalarCodecTies
import Secp.Proofs.ScalarEnc
import Secp.Proofs.Pratt
import Secp.Proofs.ElementApiTiesConstr
import Secp.Hand.Group
/-!
# The remaining small functions, regenerated, equal the model: `Base`, `NewElement`, `Scalar.Set`, `Scalar.Copy`, the constants
of `group.go`, and `Scalar.Pow` (through `math/big`, whose `SetBytes`, `Exp`, `Bytes` are modelled).
-/
open Spec Hand Hand.Scalar

namespace MiscTies

theorem i2osp_zero (n : Nat) : i2osp 0 n = List.replicate n 0 := by
  induction n with
  | zero => rfl
  | succ n ih => rw [i2osp_succ, ih]; simp [List.replicate_succ]

/-- `big.Int.Bytes()` left-padded with zeros to `k` bytes is I2OSP, for every value that fits -/
theorem natBytes_pad (k r : Nat) (hr : r < 256 ^ k) :
    (Prim.natBytes r).length ≤ k ∧ List.replicate (k - (Prim.natBytes r).length) 0 ++ Prim.natBytes r = i2osp r k := by
  induction k generalizing r with
  | zero =>
    have : r = 0 := by simpa using hr
    subst this
    rw [Prim.natBytes]; simp [i2osp]
  | succ k ih =>
    by_cases h0 : r = 0
    · subst h0
      rw [Prim.natBytes]; simp [i2osp_zero]
    · rw [Prim.natBytes]
      simp only [h0, dif_neg, not_false_eq_true]
      have hq : r / 256 < 256 ^ k := by
        rw [Nat.div_lt_iff_lt_mul (by norm_num)]; rw [pow_succ] at hr; exact hr
      obtain ⟨hl, he⟩ := ih (r / 256) hq
      constructor
      · simp; omega
      · have hsplit : i2osp r (k + 1) = i2osp (r / 256) k ++ [r % 256] := by
          have := i2osp_append r k 1
          simpa [i2osp, List.range_succ] using this
        rw [hsplit, ← he]
        simp only [List.length_append, List.length_singleton, Nat.add_sub_add_right, List.append_assoc]

theorem order_val : GenMisc.order = some Hand.Group.order ∧ os2ip Hand.Group.order = N := by
  constructor
  · rfl
  · decide +kernel

theorem N_lt : N < 256 ^ 32 := by decide +kernel
theorem N_gt : 1 < N := by decide +kernel

/-- padding the minimal bytes of `r < n` to 32 bytes, whichever branch of `if l > 0` runs -/
theorem pad_branch (r : Nat) (hr : r < 256 ^ 32) :
    (do
      let t4 ← Prim.subNat 32 (Prim.natBytes r).length
      let l := t4
      let bytes ← (if l > 0 then (do
          let buf : List Nat := (List.replicate l 0)
          let buf : List Nat := (buf ++ Prim.natBytes r)
          let bytes : List Nat := buf
          pure bytes) else (do
          pure (Prim.natBytes r)))
      pure bytes) = some (i2osp r 32) := by
  obtain ⟨hl, he⟩ := natBytes_pad 32 r hr
  unfold Prim.subNat
  simp only [hl, if_true, Option.bind_eq_bind, Option.bind_some, Option.pure_def]
  by_cases hpos : 32 - (Prim.natBytes r).length > 0
  · simp only [hpos, if_true, he]
  · have h0 : 32 - (Prim.natBytes r).length = 0 := by omega
    simp only [hpos, if_false]
    rw [h0] at he
    simpa using congrArg some he

/-- decoding a canonical 32-byte string with the regenerated `Decode` succeeds -/
theorem decode_ok (s : L4) (r : Nat) (hr : r < N) :
    GenScalarCodec.scalar_decode s (i2osp r 32) = some ((decode s (i2osp r 32)).2, none) := by
  rw [ScalarCodecTies.decode_tie]
  have hb := i2osp_isBytes r 32
  have hacc : (decode s (i2osp r 32)).1 = none := by
    obtain ⟨_, _, h2, _⟩ := sc_decode s (i2osp r 32) hb
    refine (h2 (i2osp_length r 32) ?_).1
    rw [os2ip_i2osp]
    have : r % 256 ^ 32 = r := Nat.mod_eq_of_lt (Nat.lt_trans hr N_lt)
    rw [this]; exact hr
  unfold ScalarCodecTies.shape
  rw [hacc]; rfl

theorem pad_facts (r : Nat) (hr : r < 256 ^ 32) :
    Prim.subNat 32 (Prim.natBytes r).length = some (32 - (Prim.natBytes r).length) ∧
    (if 32 - (Prim.natBytes r).length > 0 then
        some (List.replicate (32 - (Prim.natBytes r).length) 0 ++ Prim.natBytes r) else some (Prim.natBytes r)) =
      some (i2osp r 32) := by
  obtain ⟨hl, he⟩ := natBytes_pad 32 r hr
  constructor
  · unfold Prim.subNat; simp [hl]
  · by_cases hpos : 32 - (Prim.natBytes r).length > 0
    · simp only [hpos, if_true, he]
    · have h0 : 32 - (Prim.natBytes r).length = 0 := by omega
      simp only [hpos, if_false]
      rw [h0] at he
      simpa using congrArg some he

/-- the body of `Pow` for arbitrary outcomes of `IsZero`/`IsOne` and arbitrary (successful) encodings of the two operands -/
theorem pow_shape (s : L4) (isZ isO : Bool) (encS encT : Option (List Nat)) (es et : List Nat)
    (h1 : encS = some es) (h2 : encT = some et) :
    (if isZ = true then (do
          let s ← GenMisc.scalar_one s
          pure s) else (do
          if isO = true then (do
              pure s) else (do
              let t1 ← GenMisc.order
              let order : Nat := (Spec.os2ip t1)
              let t2 ← encS
              let bigS : Nat := (Spec.os2ip t2)
              let t3 ← encT
              let bigT : Nat := (Spec.os2ip t3)
              let bigS : Nat := Prim.bigExp bigS bigT order
              let bytes : List Nat := (Prim.natBytes bigS)
              let t4 ← Prim.subNat 32 (bytes).length
              let l := t4
              let bytes ← (if l > 0 then (do
                  let buf : List Nat := (List.replicate l 0)
                  let buf : List Nat := (buf ++ bytes)
                  let bytes : List Nat := buf
                  pure bytes) else (do
                  pure bytes))
              let (s, t5) ← GenScalarCodec.scalar_decode s bytes
              let err : Option String := t5
              let _ ← (if err ≠ none then (do
                  let _ ← (none : Option Unit)
                  pure ()) else (do
                  pure ()))
              pure s))) =
      some (if isZ = true then one else if isO = true then s
        else (decode s (i2osp (powMod (os2ip es) (os2ip et) N) 32)).2) := by
  subst h1 h2
  cases isZ
  · cases isO
    · have hN0 : N ≠ 0 := by have := N_gt; omega
      have hr : os2ip es ^ os2ip et % N < N := Nat.mod_lt _ (by have := N_gt; omega)
      obtain ⟨hsub, hpad⟩ := pad_facts (os2ip es ^ os2ip et % N) (Nat.lt_trans hr N_lt)
      simp only [Bool.false_eq_true, if_false, order_val.1, order_val.2, Option.bind_eq_bind, Option.bind_some,
        Option.pure_def, Prim.bigExp, hN0, hsub, hpad, decode_ok s _ hr, ne_eq, not_true_eq_false,
        powMod_eq _ _ _ N_gt]
    · rfl
  · rfl

theorem pow_tie (s : L4) (t : Option L4) : GenMisc.scalar_pow s t = some (pow s t) := by
  cases t with
  | none => rfl
  | some t =>
    exact pow_shape s (GenScalarAPI.isZero t) (GenScalarAPI.isOne t) (GenScalarCodec.scalar_encode s)
      (GenScalarCodec.scalar_encode t) (encode s) (encode t) (ScalarCodecTies.encode_tie s) (ScalarCodecTies.encode_tie t)

theorem base_tie : GenMisc.base Hand.limbOps = some Hand.ElementL.base := rfl
theorem newElement_tie {α : Type} (F : FieldOps α) : GenMisc.newElement F = some (Hand.Element.identity F) := rfl
theorem set_tie (s : L4) (t : Option L4) : GenMisc.scalar_set s t = some (set s t) := by cases t <;> rfl
theorem copy_tie (s : L4) : GenMisc.scalar_copy s = some s := rfl
theorem consts_tie :
    GenMisc.ciphersuite = some Hand.Group.ciphersuite ∧ GenMisc.scalarLength = some Hand.Group.scalarLength ∧
    GenMisc.elementLength = some Hand.Group.elementLength ∧ GenMisc.order = some Hand.Group.order := ⟨rfl, rfl, rfl, rfl⟩

end MiscTies

/-! ## `Random` -/
namespace RandomTie
open MiscTies

/-- the model's recursion over the entropy stream, for an arbitrary zero test and an arbitrary conversion of 32 bytes -/
def auxG (Z : L4 → Nat) (conv : List Nat → L4) : Nat → List Nat → Nat → Option L4 × Nat
  | 0, s, used => (none, used + s.length)
  | fuel+1, s, used =>
    if s.length < 32 then (none, used + s.length) else
    let m := conv (s.take 32)
    if Z m = 1 then auxG Z conv fuel (s.drop 32) (used + 32) else (some m, used + 32)

/-- what one step of the regenerated loop does, abstractly -/
def StepSpec (Z : L4 → Nat) (conv : List Nat → L4)
    (step : (List Nat × L4 × List Nat) → Option (Bool × (List Nat × L4 × List Nat))) : Prop :=
  ∀ buf m rng, buf.length = 32 → step (buf, m, rng) =
    if Z m = 1 then (if 32 ≤ rng.length then some (true, (rng.take 32, conv (rng.take 32), rng.drop 32)) else none)
    else some (false, (buf, m, rng))

theorem auxG_some_ge (Z : L4 → Nat) (conv : List Nat → L4) :
    ∀ (n : Nat) (s : List Nat) (used : Nat) (m : L4) (u : Nat), auxG Z conv n s used = (some m, u) → used + 32 ≤ u := by
  intro n
  induction n with
  | zero => intro s used m u h; simp [auxG] at h
  | succ n ih =>
    intro s used m u h
    unfold auxG at h
    by_cases hlen : s.length < 32
    · simp [hlen] at h
    · simp only [hlen, if_false] at h
      by_cases hz : Z (conv (s.take 32)) = 1
      · simp only [hz, if_true] at h
        have := ih _ _ _ _ h
        omega
      · simp only [hz, if_false] at h
        have := (Prod.mk.inj h).2
        omega

theorem loop_gen (Z : L4 → Nat) (conv : List Nat → L4) (step) (hs : StepSpec Z conv step) :
    ∀ (n : Nat) (rng buf : List Nat) (m0 : L4) (fuel used : Nat), Z m0 = 1 → buf.length = 32 → n + 1 ≤ fuel →
      rng.length / 32 + 1 ≤ n →
      (Prim.loopWhile fuel (buf, m0, rng) step).map (fun st => (st.2.1, st.2.2)) =
        match auxG Z conv n rng used with
        | (some m, u) => some (m, rng.drop (u - used))
        | (none, _) => none := by
  intro n
  induction n with
  | zero => intro rng buf m0 fuel used _ _ _ h; omega
  | succ n ih =>
    intro rng buf m0 fuel used hz hb hf hn
    obtain ⟨fuel', rfl⟩ : ∃ f', fuel = f' + 1 := ⟨fuel - 1, by omega⟩
    unfold Prim.loopWhile auxG
    rw [hs buf m0 rng hb]
    simp only [hz, if_true]
    by_cases hlen : rng.length < 32
    · have : ¬ 32 ≤ rng.length := by omega
      simp [hlen, this]
    · have hge : 32 ≤ rng.length := by omega
      simp only [hge, if_true, hlen, if_false, Option.bind_eq_bind, Option.bind_some]
      by_cases hz' : Z (conv (rng.take 32)) = 1
      · simp only [hz', if_true]
        have hl32 : (rng.take 32).length = 32 := by simp; omega
        have := ih (rng.drop 32) (rng.take 32) (conv (rng.take 32)) fuel' (used + 32) hz' hl32 (by omega)
          (by simp; omega)
        rw [this]
        cases hh : auxG Z conv n (rng.drop 32) (used + 32) with
        | mk o u =>
          cases o with
          | none => rfl
          | some m =>
            have hge2 := auxG_some_ge Z conv n _ _ _ _ hh
            simp only [List.drop_drop]
            have : 32 + (u - (used + 32)) = u - used := by omega
            rw [this]
      · simp only [hz', if_false]
        obtain ⟨f'', rfl⟩ : ∃ f'', fuel' = f'' + 1 := ⟨fuel' - 1, by omega⟩
        have hl32 : (rng.take 32).length = 32 := by simp; omega
        unfold Prim.loopWhile
        rw [hs _ _ _ hl32]
        simp [hz']

/-- the conversion of 32 entropy bytes the loop performs -/
def conv (b : List Nat) : L4 := FiatScalar.toMontgomery (FiatScalar.reduce (bytesToLimbs b)).1

theorem randomAux_eq : ∀ (n : Nat) (s : List Nat) (used : Nat),
    Hand.Scalar.randomAux n s used = auxG FiatScalar.isFEZero conv n s used := by
  intro n
  induction n with
  | zero => intro s used; rfl
  | succ n ih =>
    intro s used
    unfold Hand.Scalar.randomAux auxG
    by_cases hlen : s.length < 32
    · simp [hlen]
    · simp only [hlen, if_false, conv, ih]
      rfl

attribute [local irreducible] FiatScalar.toMontgomery FiatScalar.reduce FiatScalar.isFEZero in
theorem step_spec : StepSpec FiatScalar.isFEZero conv GenMisc.scalar_random_loop1 := by
  intro buf m rng hb
  unfold GenMisc.scalar_random_loop1 Prim.readFull conv
  by_cases hz : FiatScalar.isFEZero m = 1
  · by_cases hge : 32 ≤ rng.length
    · have hl : (rng.take 32).length = 32 := by simp; omega
      simp [hz, hb, hge, BytesTies.fn_bytesToNonMontgomery _ hl]
    · simp [hz, hb, hge]
  · simp [hz]

theorem zero_is_zero : FiatScalar.isFEZero ⟨0, 0, 0, 0⟩ = 1 := by decide +kernel

/-- **the regenerated `Random`**: with the entropy source modelled as the stream `rng` of bytes it will deliver and any
iteration bound of at least `len(rng)/32 + 2`, it returns exactly what the model returns — the first 32-byte block that
reduces to a non-zero scalar, and the unread rest of the stream — and panics (`none`) exactly when the model does (the
stream ends first) -/
theorem random_tie (s : L4) (rng : List Nat) (fuel : Nat) (hf : rng.length / 32 + 2 ≤ fuel) :
    GenMisc.scalar_random fuel s rng =
      match Hand.Scalar.random rng with
      | (some m, u) => some (m, rng.drop u)
      | (none, _) => none := by
  unfold GenMisc.scalar_random Hand.Scalar.random
  rw [randomAux_eq]
  have h := loop_gen FiatScalar.isFEZero conv GenMisc.scalar_random_loop1 step_spec (rng.length / 32 + 1) rng
    (List.replicate 32 0) ⟨0, 0, 0, 0⟩ fuel 0 zero_is_zero (by simp) (by omega) (Nat.le_refl _)
  simp only [Nat.sub_zero] at h
  cases hl : Prim.loopWhile fuel (List.replicate 32 0, (⟨0, 0, 0, 0⟩ : L4), rng) GenMisc.scalar_random_loop1 with
  | none =>
    rw [hl] at h
    simp only [Option.map_none] at h
    simp only [Option.bind_eq_bind, Option.pure_def, hl, Option.bind_none]
    rw [← h]
  | some st =>
    obtain ⟨b, m, r⟩ := st
    rw [hl] at h
    simp only [Option.map_some] at h
    simp only [Option.bind_eq_bind, Option.pure_def, hl, Option.bind_some]
    rw [← h]

end RandomTie
