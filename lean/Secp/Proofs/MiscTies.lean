import Secp.Gen.Misc
import Secp.Proofs.ElementApiTiesConstr
import Secp.Hand.Group
import Secp.Hand.Scalar
/-!
# The remaining small functions, regenerated, equal the model: `Base`, `NewElement`, `Scalar.Set`, `Scalar.Copy`, the constants
of `group.go` (`Pow`: `PowTies`, `Random`: `RandomTies`)
-/
open Spec Hand Hand.Scalar

namespace MiscTies

theorem base_tie : GenMisc.base Hand.limbOps = some Hand.ElementL.base := rfl
theorem newElement_tie {α : Type} (F : FieldOps α) : GenMisc.newElement F = some (Hand.Element.identity F) := rfl
theorem set_tie (s : L4) (t : Option L4) : GenMisc.scalar_set s t = some (set s t) := by cases t <;> rfl
theorem copy_tie (s : L4) : GenMisc.scalar_copy s = some s := rfl
theorem consts_tie :
    GenMisc.ciphersuite = some Hand.Group.ciphersuite ∧ GenMisc.scalarLength = some Hand.Group.scalarLength ∧
    GenMisc.elementLength = some Hand.Group.elementLength ∧ GenMisc.order = some Hand.Group.order := ⟨rfl, rfl, rfl, rfl⟩

end MiscTies
