import Secp.Proofs.LimbGroup
import Secp.Proofs.AffPt
import Secp.Proofs.CrossMul
import Secp.Proofs.FieldConv
import Secp.Proofs.Fermat
import Secp.Proofs.BytesLemmas
import Secp.Spec.Sec1
/-!
# `affine`, `Encode`, `EncodeUncompressed` at the limb implementation (C04)
-/
open Spec WeierstrassCurve


/-- field inversion by the generated chain: `x⁻¹`, `0 ↦ 0`, result canonical -/
theorem limb_invert {a : L4} (ha : limbOk a) :
    limbOk (FieldChains.invert FL a) ∧ limbVal (FieldChains.invert FL a) = (limbVal a)⁻¹ := by
  obtain ⟨ok, v⟩ := fieldInvert_pow limbLawful a ha
  exact ⟨ok, by rw [← zmod_pow_sub_two P (by decide) (limbVal a)]; exact v⟩

/-- `Bytes()`: the canonical value, big-endian on 32 bytes -/
theorem limb_bytes {a : L4} (ha : a.ok) : Hand.Fp.bytes a = i2osp (limbVal a).val 32 := by
  obtain ⟨ok, ev⟩ := limb_fromMont ha
  unfold Hand.Fp.bytes
  rw [limbsToBytes_spec _ ok, ev]

/-- `affine()`: (x/z, y/z), or (0, 1) for the identity; canonical -/
theorem affine_spec (P : Pt L4) (hP : PtOk limbLawful P) :
    limbOk (Curve.affine FL P).x ∧ limbOk (Curve.affine FL P).y ∧
    (limbVal P.z ≠ 0 → limbVal (Curve.affine FL P).x = limbVal P.x / limbVal P.z ∧
                       limbVal (Curve.affine FL P).y = limbVal P.y / limbVal P.z) ∧
    (limbVal P.z = 0 → (Curve.affine FL P).x = FL.zero ∧ (Curve.affine FL P).y = FL.one) := by
  obtain ⟨hx, hy, hz⟩ := hP
  obtain ⟨oki, vi⟩ := limb_invert hz
  have mx := limbLawful.ok_mul oki hx
  have my := limbLawful.ok_mul oki hy
  have vx := limbLawful.val_mul oki hx
  have vy := limbLawful.val_mul oki hy
  unfold Curve.affine
  simp only
  by_cases h : limbVal P.z = 0
  · have c : FL.isZero P.z = 1 := limbLawful.isZero_of_eq hz h
    rw [c, limbLawful.cmove_one mx limbLawful.ok_zero, limbLawful.cmove_one my limbLawful.ok_one]
    exact ⟨limbLawful.ok_zero, limbLawful.ok_one, fun hne => absurd h hne, fun _ => ⟨rfl, rfl⟩⟩
  · have c : FL.isZero P.z = 0 := limbLawful.isZero_of_ne hz h
    rw [c, limbLawful.cmove_zero mx limbLawful.ok_zero, limbLawful.cmove_zero my limbLawful.ok_one]
    refine ⟨mx, my, fun _ => ⟨?_, ?_⟩, fun h0 => absurd h0 h⟩
    · show limbVal _ = _
      rw [show limbVal (FL.mul (FieldChains.invert FL P.z) P.x) = _ from vx]
      show limbVal (FieldChains.invert FL P.z) * limbVal P.x = _
      rw [vi]; field_simp
    · show limbVal _ = _
      rw [show limbVal (FL.mul (FieldChains.invert FL P.z) P.y) = _ from vy]
      show limbVal (FieldChains.invert FL P.z) * limbVal P.y = _
      rw [vi]; field_simp

theorem isZero_word0 : FiatField.isZero 0 = 1 := by decide
theorem isZero_word1 : FiatField.isZero 1 = 0 := by decide

/-- **Encode** is the SEC1 compressed encoding of the abstract point -/
theorem encode_spec (P : Pt L4) (hP : PtOk limbLawful P) :
    Hand.ElementL.encode P = encodeCompressed (affPt P) := by
  obtain ⟨okx, oky, hne, he⟩ := affine_spec P hP
  obtain ⟨hx, hy, hz⟩ := hP
  unfold Hand.ElementL.encode Hand.ElementL.F affPt
  simp only
  by_cases h : limbVal P.z = 0
  · have c : FL.isZero P.z = 1 := limbLawful.isZero_of_eq hz h
    rw [c, if_pos h]
    simp [Hand.ElementL.ctSelect, encodeCompressed, isZero_word1]
  · have c : FL.isZero P.z = 0 := limbLawful.isZero_of_ne hz h
    obtain ⟨vx, vy⟩ := hne h
    rw [c, if_neg h]
    have hb : Hand.Fp.bytes (Curve.affine FL P).x = i2osp (limbVal P.x / limbVal P.z).val 32 := by
      rw [limb_bytes okx.1]; congr 2
    have hs : FL.sgn0 (Curve.affine FL P).y = (limbVal P.y / limbVal P.z).val % 2 := by
      rw [limb_sgn0 oky.1]; congr 2
    rw [hb, hs]
    simp only [Hand.ElementL.ctSelect, isZero_word0, encodeCompressed]
    have hl : (i2osp (limbVal P.x / limbVal P.z).val 32).length = 32 := i2osp_length _ _
    rcases Nat.mod_two_eq_zero_or_one (limbVal P.y / limbVal P.z).val with e | e
    · simp [e, List.take_of_length_le, hl]
    · simp [e, List.take_of_length_le, hl]

/-- **EncodeUncompressed** is the SEC1 uncompressed encoding (`00` for the identity) -/
theorem encodeUncompressed_spec (P : Pt L4) (hP : PtOk limbLawful P) :
    Hand.ElementL.encodeUncompressed P = encodeUncompressed (affPt P) := by
  obtain ⟨okx, oky, hne, he⟩ := affine_spec P hP
  obtain ⟨hx, hy, hz⟩ := hP
  unfold Hand.ElementL.encodeUncompressed Hand.ElementL.F affPt
  simp only
  by_cases h : limbVal P.z = 0
  · have c : FL.isZero P.z = 1 := limbLawful.isZero_of_eq hz h
    rw [c, if_pos h]
    simp [Hand.ElementL.ctSelect, Spec.encodeUncompressed]
  · have c : FL.isZero P.z = 0 := limbLawful.isZero_of_ne hz h
    obtain ⟨vx, vy⟩ := hne h
    rw [c, if_neg h]
    have hbx : Hand.Fp.bytes (Curve.affine FL P).x = i2osp (limbVal P.x / limbVal P.z).val 32 := by
      rw [limb_bytes okx.1]; congr 2
    have hby : Hand.Fp.bytes (Curve.affine FL P).y = i2osp (limbVal P.y / limbVal P.z).val 32 := by
      rw [limb_bytes oky.1]; congr 2
    rw [hbx, hby]
    simp only [Hand.ElementL.ctSelect, Spec.encodeUncompressed]
    have hl : (i2osp (limbVal P.x / limbVal P.z).val 32 ++ i2osp (limbVal P.y / limbVal P.z).val 32).length = 64 := by
      simp [i2osp_length]
    simp [List.take_of_length_le, hl]

/-- the abstract affine point is determined by the group element: **the bytes depend only on the group element** -/
theorem affPt_of_toGp (P Q : Pt L4) (hP : PtValid limbLawful P) (hQ : PtValid limbLawful Q)
    (h : toGp limbLawful curveOK_Fp P = toGp limbLawful curveOK_Fp Q) : affPt P = affPt Q := by
  obtain ⟨cx, cy⟩ := (cross_iff curveOK_Fp (vpt limbLawful P) (vpt limbLawful Q) hP.2 hQ.2).mpr h
  have hv : ∀ a, limbLawful.val a = limbVal a := fun _ => rfl
  simp only [vpt, hv] at cx cy
  unfold affPt
  by_cases hz1 : limbVal P.z = 0 <;> by_cases hz2 : limbVal Q.z = 0
  · simp [hz1, hz2]
  · exfalso
    obtain ⟨_, hy1⟩ := inf_shape (vpt limbLawful P) hP.2 hz1
    simp only [vpt, hv] at hy1
    rw [hz1, mul_zero] at cy
    exact (mul_ne_zero hy1 hz2) cy
  · exfalso
    obtain ⟨_, hy2⟩ := inf_shape (vpt limbLawful Q) hQ.2 hz2
    simp only [vpt, hv] at hy2
    rw [hz2, mul_zero] at cy
    exact (mul_ne_zero hy2 hz1) cy.symm
  · have ex : limbVal P.x / limbVal P.z = limbVal Q.x / limbVal Q.z := by field_simp; linear_combination cx
    have ey : limbVal P.y / limbVal P.z = limbVal Q.y / limbVal Q.z := by field_simp; linear_combination cy
    simp [hz1, hz2, ex, ey]

theorem encode_repr_indep (P Q : Pt L4) (hP : PtValid limbLawful P) (hQ : PtValid limbLawful Q)
    (h : toGp limbLawful curveOK_Fp P = toGp limbLawful curveOK_Fp Q) :
    Hand.ElementL.encode P = Hand.ElementL.encode Q ∧
    Hand.ElementL.encodeUncompressed P = Hand.ElementL.encodeUncompressed Q := by
  rw [encode_spec P hP.1, encode_spec Q hQ.1, encodeUncompressed_spec P hP.1, encodeUncompressed_spec Q hQ.1,
    affPt_of_toGp P Q hP hQ h]
  exact ⟨rfl, rfl⟩
