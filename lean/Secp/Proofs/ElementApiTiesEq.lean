import Secp.Gen.ElementAPI
import Secp.Hand.Element
/-! # Ties: regenerated `Equal`, `IsIdentity` of `element.go` = the model (C05, C10); see `ElementApiTies` -/
namespace ElementApiTies
variable {α : Type} (F : FieldOps α)

theorem isIdentity_tie (e : Pt α) : GenElementAPI.isIdentity F e = Hand.Element.isIdentity F e := rfl
theorem equal_tie (e v : Pt α) : GenElementAPI.equal_e_v F e v = Hand.Element.equal F e v := rfl
theorem equalSelf_tie (e : Pt α) : GenElementAPI.equal_ev F e = Hand.Element.equal F e e := rfl

end ElementApiTies
