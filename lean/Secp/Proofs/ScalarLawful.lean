import Secp.Proofs.Lawful
import Secp.Proofs.AddSubN
import Secp.Proofs.ToMontN
import Secp.Proofs.Bits64N
import Secp.Proofs.FieldP
import Secp.Hand.Field
/-!
# The scalar-field limb code is exact arithmetic in `ZMod n`

`sVal s = eval(s) · R⁻¹` in `ZMod n`; canonical = limbs below `2^64`, value below `n`.
-/
open Spec

theorem Nnat_eq : Nnat = N := by decide

def RinvN : Fn := ((2 ^ 256 : Nat) : Fn)⁻¹

theorem RN_ne_zero : ((2 ^ 256 : Nat) : Fn) ≠ 0 := by
  intro h
  rw [ZMod.natCast_eq_zero_iff] at h
  have hp : Nat.Prime N := Fact.out
  have := hp.dvd_of_dvd_pow h
  have : N ≤ 2 := Nat.le_of_dvd (by norm_num) this
  exact absurd this (by decide)

theorem RN_mul_Rinv : ((2 ^ 256 : Nat) : Fn) * RinvN = 1 := mul_inv_cancel₀ RN_ne_zero

def sOk (a : L4) : Prop := a.ok ∧ a.eval < N
def sVal (a : L4) : Fn := (a.eval : Fn) * RinvN

theorem eval_inj' (a b : L4) (ha : a.ok) (hb : b.ok) (h : a.eval = b.eval) : a = b := by
  obtain ⟨a0, a1, a2, a3⟩ := ha
  obtain ⟨b0, b1, b2, b3⟩ := hb
  unfold L4.eval at h
  have hW : W = 2^64 := rfl
  cases a; cases b
  simp only [L4.mk.injEq] at *
  simp only [hW] at *
  omega

theorem sVal_inj {a b : L4} (ha : sOk a) (hb : sOk b) (h : sVal a = sVal b) : a = b := by
  unfold sVal at h
  have hR : RinvN ≠ 0 := inv_ne_zero RN_ne_zero
  have h' := mul_right_cancel₀ hR h
  rw [ZMod.natCast_eq_natCast_iff'] at h'
  rw [Nat.mod_eq_of_lt ha.2, Nat.mod_eq_of_lt hb.2] at h'
  exact eval_inj' a b ha.1 hb.1 h'

theorem cast_mod_N (k : Nat) : ((k % N : Nat) : Fn) = (k : Fn) := ZMod.natCast_mod k N

theorem s_add {a b : L4} (ha : sOk a) (hb : sOk b) :
    sOk (FiatScalar.add a b) ∧ sVal (FiatScalar.add a b) = sVal a + sVal b := by
  obtain ⟨ok, ev⟩ := scalarAdd_correct a b ha.1 hb.1 (by rw [Nnat_eq]; exact ha.2) (by rw [Nnat_eq]; exact hb.2)
  rw [Nnat_eq] at ev
  refine ⟨⟨ok, by rw [ev]; exact Nat.mod_lt _ (by decide)⟩, ?_⟩
  unfold sVal
  rw [ev, cast_mod_N, Nat.cast_add]; ring

theorem s_sub {a b : L4} (ha : sOk a) (hb : sOk b) :
    sOk (FiatScalar.sub a b) ∧ sVal (FiatScalar.sub a b) = sVal a - sVal b := by
  obtain ⟨ok, ev⟩ := scalarSub_correct a b ha.1 hb.1 (by rw [Nnat_eq]; exact ha.2) (by rw [Nnat_eq]; exact hb.2)
  rw [Nnat_eq] at ev
  refine ⟨⟨ok, by rw [ev]; exact Nat.mod_lt _ (by decide)⟩, ?_⟩
  unfold sVal
  have hle : b.eval ≤ a.eval + N := by have := hb.2; omega
  rw [ev, cast_mod_N, Nat.cast_sub hle, Nat.cast_add, ZMod.natCast_self]; ring

theorem mont_val_n (o x y : Nat) (h : (o * W ^ 4) % N = (x * y) % N) :
    (o : Fn) * RinvN = ((x : Fn) * RinvN) * ((y : Fn) * RinvN) := by
  have h' : ((o * W ^ 4 : Nat) : Fn) = ((x * y : Nat) : Fn) := by
    rw [ZMod.natCast_eq_natCast_iff']; exact h
  have W4 : W ^ 4 = 2 ^ 256 := by decide
  rw [W4, Nat.cast_mul, Nat.cast_mul] at h'
  have : (o : Fn) = (x : Fn) * (y : Fn) * RinvN := by
    have := congrArg (fun t => t * RinvN) h'
    simp only [mul_assoc, RN_mul_Rinv, mul_one] at this
    rw [this]; ring
  rw [this]; ring

theorem s_mul {a b : L4} (ha : sOk a) (hb : sOk b) :
    sOk (FiatScalar.mul a b) ∧ sVal (FiatScalar.mul a b) = sVal a * sVal b := by
  obtain ⟨ok, lt, ev⟩ := scalarMul_correct a b ha.1 hb.1 (by rw [Nnat_eq]; exact hb.2)
  rw [Nnat_eq] at ev lt
  exact ⟨⟨ok, lt⟩, mont_val_n _ _ _ ev⟩

theorem s_square {a : L4} (ha : sOk a) :
    sOk (FiatScalar.square a) ∧ sVal (FiatScalar.square a) = sVal a * sVal a := by
  obtain ⟨ok, lt, ev⟩ := scalarSquare_correct a ha.1 (by rw [Nnat_eq]; exact ha.2)
  rw [Nnat_eq] at ev lt
  exact ⟨⟨ok, lt⟩, mont_val_n _ _ _ ev⟩

theorem sZero_ok : sOk ⟨0, 0, 0, 0⟩ := ⟨⟨W_pos, W_pos, W_pos, W_pos⟩, by decide⟩
theorem sVal_zero : sVal ⟨0, 0, 0, 0⟩ = 0 := by unfold sVal; simp [L4.eval]

theorem sVal_eq_zero {a : L4} (ha : sOk a) : sVal a = 0 ↔ a = ⟨0, 0, 0, 0⟩ := by
  constructor
  · intro h; exact sVal_inj ha sZero_ok (by rw [h, sVal_zero])
  · rintro rfl; exact sVal_zero

/-- limbs holding the Montgomery form of `v` denote `v` -/
theorem sVal_of_mont (a : L4) (v : Nat) (h : a.eval = v * 2 ^ 256 % N) : sVal a = (v : Fn) := by
  unfold sVal
  rw [h, cast_mod_N, Nat.cast_mul, mul_assoc, RN_mul_Rinv, mul_one]

/-- `FromMontgomery` returns the canonical integer value: `(sVal s).val` as limbs -/
theorem s_fromMont {a : L4} (ha : a.ok) :
    (FiatScalar.fromMontgomery a).ok ∧ (FiatScalar.fromMontgomery a).eval = (sVal a).val := by
  obtain ⟨ok, lt, ev⟩ := scalarFromMont_correct a ha
  rw [Nnat_eq] at ev lt
  refine ⟨ok, ?_⟩
  have W4 : W ^ 4 = 2 ^ 256 := by decide
  have h' : (((FiatScalar.fromMontgomery a).eval * W ^ 4 : Nat) : Fn) = ((a.eval : Nat) : Fn) := by
    rw [ZMod.natCast_eq_natCast_iff']; exact ev
  rw [W4, Nat.cast_mul] at h'
  have hv : ((FiatScalar.fromMontgomery a).eval : Fn) = sVal a := by
    unfold sVal
    have := congrArg (fun t => t * RinvN) h'
    simp only [mul_assoc, RN_mul_Rinv, mul_one] at this
    exact this
  rw [← hv, ZMod.val_natCast, Nat.mod_eq_of_lt lt]

/-- `ToMontgomery` of canonical limbs `x` denotes the integer `x` -/
theorem s_toMont {x : L4} (hx : x.ok) :
    sOk (FiatScalar.toMontgomery x) ∧ sVal (FiatScalar.toMontgomery x) = (x.eval : Fn) := by
  obtain ⟨ok, lt, ev⟩ := scalarToMont_correct x hx
  rw [Nnat_eq] at ev lt
  refine ⟨⟨ok, lt⟩, ?_⟩
  have W4 : W ^ 4 = 2 ^ 256 := by decide
  have h' : (((FiatScalar.toMontgomery x).eval * W ^ 4 : Nat) : Fn) = ((x.eval * R2nNat : Nat) : Fn) := by
    rw [ZMod.natCast_eq_natCast_iff']; exact ev
  have hR2 : ((R2nNat : Nat) : Fn) = ((2 ^ 256 : Nat) : Fn) * ((2 ^ 256 : Nat) : Fn) := by
    unfold R2nNat
    rw [Nnat_eq, W4, cast_mod_N, Nat.cast_mul, cast_mod_N]
  rw [W4, Nat.cast_mul, Nat.cast_mul, hR2] at h'
  unfold sVal
  have := congrArg (fun t => t * RinvN * RinvN) h'
  have e1 : ((FiatScalar.toMontgomery x).eval : Fn) * ((2 ^ 256 : Nat) : Fn) * RinvN * RinvN =
      ((FiatScalar.toMontgomery x).eval : Fn) * RinvN := by
    rw [mul_assoc ((FiatScalar.toMontgomery x).eval : Fn), RN_mul_Rinv, mul_one]
  have e2 : (x.eval : Fn) * (((2 ^ 256 : Nat) : Fn) * ((2 ^ 256 : Nat) : Fn)) * RinvN * RinvN = (x.eval : Fn) := by
    have : (x.eval : Fn) * (((2 ^ 256 : Nat) : Fn) * ((2 ^ 256 : Nat) : Fn)) * RinvN * RinvN =
        (x.eval : Fn) * ((((2 ^ 256 : Nat) : Fn) * RinvN) * (((2 ^ 256 : Nat) : Fn) * RinvN)) := by ring
    rw [this, RN_mul_Rinv]; ring
  rw [e1, e2] at this
  exact this

theorem sOne_ok : sOk FiatScalar.setOne := ⟨by decide, by decide⟩
theorem sVal_one : sVal FiatScalar.setOne = 1 := by
  have := sVal_of_mont FiatScalar.setOne 1 (by decide)
  simpa using this

/-- the scalar operations record is lawful (it is what the 293-step inversion chain is generic over) -/
def scalarLawful : Lawful Hand.Fn.scalarOps Fn where
  ok := sOk
  val := sVal
  val_inj := sVal_inj
  ok_zero := sZero_ok
  val_zero := sVal_zero
  ok_one := sOne_ok
  val_one := sVal_one
  ok_add := fun ha hb => (s_add ha hb).1
  val_add := fun ha hb => (s_add ha hb).2
  ok_sub := fun ha hb => (s_sub ha hb).1
  val_sub := fun ha hb => (s_sub ha hb).2
  ok_mul := fun ha hb => (s_mul ha hb).1
  val_mul := fun ha hb => (s_mul ha hb).2
  ok_neg := fun ha => (s_sub sZero_ok ha).1
  val_neg := fun ha => by
    show sVal (FiatScalar.sub ⟨0, 0, 0, 0⟩ _) = _
    rw [(s_sub sZero_ok ha).2, sVal_zero, zero_sub]
  ok_square := fun ha => (s_square ha).1
  val_square := fun ha => (s_square ha).2
  cmove_zero := fun hu hv => by
    show FiatScalar.selectznz 0 _ _ = _
    rw [selectznz_spec_n 0 (by omega) _ _ hu.1 hv.1]; rfl
  cmove_one := fun hu hv => by
    show FiatScalar.selectznz 1 _ _ = _
    rw [selectznz_spec_n 1 (by omega) _ _ hu.1 hv.1]; rfl
  isZero_of_eq := fun {a} ha h => by
    show FiatScalar.isFEZero a = 1
    rw [isFEZero_spec a ha.1, if_pos ((sVal_eq_zero ha).mp h)]
  isZero_of_ne := fun {a} ha h => by
    show FiatScalar.isFEZero a = 0
    rw [isFEZero_spec a ha.1, if_neg (fun e => h ((sVal_eq_zero ha).mpr e))]
  equals_of_eq := fun {a b} ha hb h => by
    show FiatScalar.equal a b = 1
    rw [equal_spec_n a b ha.1 hb.1, if_pos (sVal_inj ha hb h)]
  equals_of_ne := fun {a b} ha hb h => by
    show FiatScalar.equal a b = 0
    rw [equal_spec_n a b ha.1 hb.1, if_neg (fun e => h (by rw [e]))]
