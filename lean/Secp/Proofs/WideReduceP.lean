import Secp.Proofs.WideReduce
import Secp.Proofs.FieldConv
import Secp.Proofs.BytesLemmas
/-! # The 48-byte wide reduction of the base field: the big-endian integer modulo `p` -/
open Spec

/-- `FromBytesNoReduce` (base field): the big-endian integer, as a canonical element -/
theorem fp_fromBytesNoReduce (b : Bytes) (hb : IsBytes b) (hl : b.length ≤ 32) :
    limbOk (Hand.Fp.fromBytesNoReduce b) ∧ limbVal (Hand.Fp.fromBytesNoReduce b) = ((os2ip b : Nat) : Fp) := by
  obtain ⟨l32, hb32, hv⟩ := pad32_spec b hb hl
  obtain ⟨okl, evl⟩ := bytesToLimbs_spec _ l32 hb32
  unfold Hand.Fp.fromBytesNoReduce
  obtain ⟨okm, vm⟩ := limb_toMont okl
  exact ⟨okm, by rw [vm, evl, hv]⟩

/-- **HashToFieldElement (base field)**: `OS2IP(input) mod p` for every 48-byte input -/
theorem fp_hashToField (input : Bytes) (hb : IsBytes input) (hl : input.length = 48) :
    limbOk (Hand.Fp.hashToFieldElement input) ∧ limbVal (Hand.Fp.hashToFieldElement input) = ((os2ip input : Nat) : Fp) := by
  have hbt : IsBytes (input.take 24) := fun x hx => hb x (List.mem_of_mem_take hx)
  have hbd : IsBytes (input.drop 24) := fun x hx => hb x (List.mem_of_mem_drop hx)
  unfold Hand.Fp.hashToFieldElement
  simp only
  have hr16 : (List.replicate 16 (0 : Nat)).length = 16 := by simp
  have e1 : (List.replicate 16 0 ++ input).drop 40 = input.drop 24 := by
    have : (List.replicate 16 0 ++ input).drop 40 = ((List.replicate 16 0 ++ input).drop 16).drop 24 := by
      rw [List.drop_drop]
    rw [this, List.drop_left' hr16]
  have e2 : ((List.replicate 16 0 ++ input).drop 16).take 24 = input.take 24 := by
    rw [List.drop_left' hr16]
  have e3 : (List.replicate 16 0 ++ input).take 16 = List.replicate 16 0 := List.take_left' hr16
  rw [e1, e2, e3]
  obtain ⟨oka, va⟩ := fp_fromBytesNoReduce (input.drop 24) hbd (by simp [hl])
  obtain ⟨okb, vb⟩ := fp_fromBytesNoReduce (input.take 24) hbt (by simp [hl])
  obtain ⟨okc, vc⟩ := fp_fromBytesNoReduce (List.replicate 16 0) (isBytes_replicate_zero 16) (by simp)
  have ok192 : limbOk Hand.Fp.two192 := ⟨by decide, by decide⟩
  have v192 : limbVal Hand.Fp.two192 = ((2 ^ 192 : Nat) : Fp) := limbVal_of_mont _ _ (by decide)
  have ok384 : limbOk Hand.Fp.two384 := ⟨by decide, by decide⟩
  obtain ⟨okbm, vbm⟩ := limb_mul okb ok192
  obtain ⟨okcm, vcm⟩ := limb_mul okc ok384
  obtain ⟨ok1, v1⟩ := limb_add oka okbm
  obtain ⟨ok2, v2⟩ := limb_add ok1 okcm
  refine ⟨ok2, ?_⟩
  have hc0 : os2ip (List.replicate 16 0) = 0 := by
    have := os2ip_zeros 16 []; simpa [os2ip_nil] using this
  rw [v2, v1, vbm, vcm, va, vb, vc, v192, hc0, split48 input hl]
  push_cast; ring
