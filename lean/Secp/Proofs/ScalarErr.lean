import Secp.Hand.Scalar
/-! # The Go error variable an error of the scalar model stands for (shared by the ties of `CSelect` and of the codec) -/
namespace ScalarApiTies
open Hand.Scalar

/-- the error a Go `error` value stands for -/
def errName : Err → String
  | .nilScalar => "errParamNilScalar" | .scalarLength => "errParamScalarLength"
  | .scalarTooBig => "errParamScalarTooBig" | .hexError => "hexError"

end ScalarApiTies
