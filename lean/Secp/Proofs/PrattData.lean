import Secp.Proofs.Pratt
/-!
# Pratt certificates for p and n (static data, computed offline by tools/certs/pratt.py; every step is checked by the kernel)
-/
namespace PrattData

theorem prime_101 : Nat.Prime 101 := by
  apply pratt 101 2 [(2, 2), (5, 2)]
  · intro f hf
    simp only [List.mem_cons, List.mem_nil_iff, or_false] at hf
    rcases hf with rfl | rfl
    · norm_num
    · norm_num
  · decide +kernel

theorem prime_103 : Nat.Prime 103 := by
  apply pratt 103 5 [(2, 1), (3, 1), (17, 1)]
  · intro f hf
    simp only [List.mem_cons, List.mem_nil_iff, or_false] at hf
    rcases hf with rfl | rfl | rfl
    · norm_num
    · norm_num
    · norm_num
  · decide +kernel

theorem prime_109 : Nat.Prime 109 := by
  apply pratt 109 6 [(2, 2), (3, 3)]
  · intro f hf
    simp only [List.mem_cons, List.mem_nil_iff, or_false] at hf
    rcases hf with rfl | rfl
    · norm_num
    · norm_num
  · decide +kernel

theorem prime_113 : Nat.Prime 113 := by
  apply pratt 113 3 [(2, 4), (7, 1)]
  · intro f hf
    simp only [List.mem_cons, List.mem_nil_iff, or_false] at hf
    rcases hf with rfl | rfl
    · norm_num
    · norm_num
  · decide +kernel

theorem prime_131 : Nat.Prime 131 := by
  apply pratt 131 2 [(2, 1), (5, 1), (13, 1)]
  · intro f hf
    simp only [List.mem_cons, List.mem_nil_iff, or_false] at hf
    rcases hf with rfl | rfl | rfl
    · norm_num
    · norm_num
    · norm_num
  · decide +kernel

theorem prime_149 : Nat.Prime 149 := by
  apply pratt 149 2 [(2, 2), (37, 1)]
  · intro f hf
    simp only [List.mem_cons, List.mem_nil_iff, or_false] at hf
    rcases hf with rfl | rfl
    · norm_num
    · norm_num
  · decide +kernel

theorem prime_199 : Nat.Prime 199 := by
  apply pratt 199 3 [(2, 1), (3, 2), (11, 1)]
  · intro f hf
    simp only [List.mem_cons, List.mem_nil_iff, or_false] at hf
    rcases hf with rfl | rfl | rfl
    · norm_num
    · norm_num
    · norm_num
  · decide +kernel

theorem prime_239 : Nat.Prime 239 := by
  apply pratt 239 7 [(2, 1), (7, 1), (17, 1)]
  · intro f hf
    simp only [List.mem_cons, List.mem_nil_iff, or_false] at hf
    rcases hf with rfl | rfl | rfl
    · norm_num
    · norm_num
    · norm_num
  · decide +kernel

theorem prime_271 : Nat.Prime 271 := by
  apply pratt 271 6 [(2, 1), (3, 3), (5, 1)]
  · intro f hf
    simp only [List.mem_cons, List.mem_nil_iff, or_false] at hf
    rcases hf with rfl | rfl | rfl
    · norm_num
    · norm_num
    · norm_num
  · decide +kernel

theorem prime_293 : Nat.Prime 293 := by
  apply pratt 293 2 [(2, 2), (73, 1)]
  · intro f hf
    simp only [List.mem_cons, List.mem_nil_iff, or_false] at hf
    rcases hf with rfl | rfl
    · norm_num
    · norm_num
  · decide +kernel

theorem prime_419 : Nat.Prime 419 := by
  apply pratt 419 2 [(2, 1), (11, 1), (19, 1)]
  · intro f hf
    simp only [List.mem_cons, List.mem_nil_iff, or_false] at hf
    rcases hf with rfl | rfl | rfl
    · norm_num
    · norm_num
    · norm_num
  · decide +kernel

theorem prime_443 : Nat.Prime 443 := by
  apply pratt 443 2 [(2, 1), (13, 1), (17, 1)]
  · intro f hf
    simp only [List.mem_cons, List.mem_nil_iff, or_false] at hf
    rcases hf with rfl | rfl | rfl
    · norm_num
    · norm_num
    · norm_num
  · decide +kernel

theorem prime_461 : Nat.Prime 461 := by
  apply pratt 461 2 [(2, 2), (5, 1), (23, 1)]
  · intro f hf
    simp only [List.mem_cons, List.mem_nil_iff, or_false] at hf
    rcases hf with rfl | rfl | rfl
    · norm_num
    · norm_num
    · norm_num
  · decide +kernel

theorem prime_631 : Nat.Prime 631 := by
  apply pratt 631 3 [(2, 1), (3, 2), (5, 1), (7, 1)]
  · intro f hf
    simp only [List.mem_cons, List.mem_nil_iff, or_false] at hf
    rcases hf with rfl | rfl | rfl | rfl
    · norm_num
    · norm_num
    · norm_num
    · norm_num
  · decide +kernel

theorem prime_797 : Nat.Prime 797 := by
  apply pratt 797 2 [(2, 2), (199, 1)]
  · intro f hf
    simp only [List.mem_cons, List.mem_nil_iff, or_false] at hf
    rcases hf with rfl | rfl
    · norm_num
    · exact prime_199
  · decide +kernel

theorem prime_887 : Nat.Prime 887 := by
  apply pratt 887 5 [(2, 1), (443, 1)]
  · intro f hf
    simp only [List.mem_cons, List.mem_nil_iff, or_false] at hf
    rcases hf with rfl | rfl
    · norm_num
    · exact prime_443
  · decide +kernel

theorem prime_971 : Nat.Prime 971 := by
  apply pratt 971 6 [(2, 1), (5, 1), (97, 1)]
  · intro f hf
    simp only [List.mem_cons, List.mem_nil_iff, or_false] at hf
    rcases hf with rfl | rfl | rfl
    · norm_num
    · norm_num
    · norm_num
  · decide +kernel

theorem prime_1373 : Nat.Prime 1373 := by
  apply pratt 1373 2 [(2, 2), (7, 3)]
  · intro f hf
    simp only [List.mem_cons, List.mem_nil_iff, or_false] at hf
    rcases hf with rfl | rfl
    · norm_num
    · norm_num
  · decide +kernel

theorem prime_1409 : Nat.Prime 1409 := by
  apply pratt 1409 3 [(2, 7), (11, 1)]
  · intro f hf
    simp only [List.mem_cons, List.mem_nil_iff, or_false] at hf
    rcases hf with rfl | rfl
    · norm_num
    · norm_num
  · decide +kernel

theorem prime_1627 : Nat.Prime 1627 := by
  apply pratt 1627 3 [(2, 1), (3, 1), (271, 1)]
  · intro f hf
    simp only [List.mem_cons, List.mem_nil_iff, or_false] at hf
    rcases hf with rfl | rfl | rfl
    · norm_num
    · norm_num
    · exact prime_271
  · decide +kernel

theorem prime_1871 : Nat.Prime 1871 := by
  apply pratt 1871 14 [(2, 1), (5, 1), (11, 1), (17, 1)]
  · intro f hf
    simp only [List.mem_cons, List.mem_nil_iff, or_false] at hf
    rcases hf with rfl | rfl | rfl | rfl
    · norm_num
    · norm_num
    · norm_num
    · norm_num
  · decide +kernel

theorem prime_2011 : Nat.Prime 2011 := by
  apply pratt 2011 3 [(2, 1), (3, 1), (5, 1), (67, 1)]
  · intro f hf
    simp only [List.mem_cons, List.mem_nil_iff, or_false] at hf
    rcases hf with rfl | rfl | rfl | rfl
    · norm_num
    · norm_num
    · norm_num
    · norm_num
  · decide +kernel

theorem prime_2621 : Nat.Prime 2621 := by
  apply pratt 2621 2 [(2, 2), (5, 1), (131, 1)]
  · intro f hf
    simp only [List.mem_cons, List.mem_nil_iff, or_false] at hf
    rcases hf with rfl | rfl | rfl
    · norm_num
    · norm_num
    · exact prime_131
  · decide +kernel

theorem prime_2657 : Nat.Prime 2657 := by
  apply pratt 2657 3 [(2, 5), (83, 1)]
  · intro f hf
    simp only [List.mem_cons, List.mem_nil_iff, or_false] at hf
    rcases hf with rfl | rfl
    · norm_num
    · norm_num
  · decide +kernel

theorem prime_2731 : Nat.Prime 2731 := by
  apply pratt 2731 3 [(2, 1), (3, 1), (5, 1), (7, 1), (13, 1)]
  · intro f hf
    simp only [List.mem_cons, List.mem_nil_iff, or_false] at hf
    rcases hf with rfl | rfl | rfl | rfl | rfl
    · norm_num
    · norm_num
    · norm_num
    · norm_num
    · norm_num
  · decide +kernel

theorem prime_2861 : Nat.Prime 2861 := by
  apply pratt 2861 2 [(2, 2), (5, 1), (11, 1), (13, 1)]
  · intro f hf
    simp only [List.mem_cons, List.mem_nil_iff, or_false] at hf
    rcases hf with rfl | rfl | rfl | rfl
    · norm_num
    · norm_num
    · norm_num
    · norm_num
  · decide +kernel

theorem prime_4051 : Nat.Prime 4051 := by
  apply pratt 4051 10 [(2, 1), (3, 4), (5, 2)]
  · intro f hf
    simp only [List.mem_cons, List.mem_nil_iff, or_false] at hf
    rcases hf with rfl | rfl | rfl
    · norm_num
    · norm_num
    · norm_num
  · decide +kernel

theorem prime_4423 : Nat.Prime 4423 := by
  apply pratt 4423 3 [(2, 1), (3, 1), (11, 1), (67, 1)]
  · intro f hf
    simp only [List.mem_cons, List.mem_nil_iff, or_false] at hf
    rcases hf with rfl | rfl | rfl | rfl
    · norm_num
    · norm_num
    · norm_num
    · norm_num
  · decide +kernel

theorem prime_5323 : Nat.Prime 5323 := by
  apply pratt 5323 5 [(2, 1), (3, 1), (887, 1)]
  · intro f hf
    simp only [List.mem_cons, List.mem_nil_iff, or_false] at hf
    rcases hf with rfl | rfl | rfl
    · norm_num
    · norm_num
    · exact prime_887
  · decide +kernel

theorem prime_7723 : Nat.Prime 7723 := by
  apply pratt 7723 3 [(2, 1), (3, 3), (11, 1), (13, 1)]
  · intro f hf
    simp only [List.mem_cons, List.mem_nil_iff, or_false] at hf
    rcases hf with rfl | rfl | rfl | rfl
    · norm_num
    · norm_num
    · norm_num
    · norm_num
  · decide +kernel

theorem prime_9349 : Nat.Prime 9349 := by
  apply pratt 9349 2 [(2, 2), (3, 1), (19, 1), (41, 1)]
  · intro f hf
    simp only [List.mem_cons, List.mem_nil_iff, or_false] at hf
    rcases hf with rfl | rfl | rfl | rfl
    · norm_num
    · norm_num
    · norm_num
    · norm_num
  · decide +kernel

theorem prime_13441 : Nat.Prime 13441 := by
  apply pratt 13441 11 [(2, 7), (3, 1), (5, 1), (7, 1)]
  · intro f hf
    simp only [List.mem_cons, List.mem_nil_iff, or_false] at hf
    rcases hf with rfl | rfl | rfl | rfl
    · norm_num
    · norm_num
    · norm_num
    · norm_num
  · decide +kernel

theorem prime_16699 : Nat.Prime 16699 := by
  apply pratt 16699 3 [(2, 1), (3, 1), (11, 2), (23, 1)]
  · intro f hf
    simp only [List.mem_cons, List.mem_nil_iff, or_false] at hf
    rcases hf with rfl | rfl | rfl | rfl
    · norm_num
    · norm_num
    · norm_num
    · norm_num
  · decide +kernel

theorem prime_20113 : Nat.Prime 20113 := by
  apply pratt 20113 10 [(2, 4), (3, 1), (419, 1)]
  · intro f hf
    simp only [List.mem_cons, List.mem_nil_iff, or_false] at hf
    rcases hf with rfl | rfl | rfl
    · norm_num
    · norm_num
    · exact prime_419
  · decide +kernel

theorem prime_24809 : Nat.Prime 24809 := by
  apply pratt 24809 6 [(2, 3), (7, 1), (443, 1)]
  · intro f hf
    simp only [List.mem_cons, List.mem_nil_iff, or_false] at hf
    rcases hf with rfl | rfl | rfl
    · norm_num
    · norm_num
    · exact prime_443
  · decide +kernel

theorem prime_28181 : Nat.Prime 28181 := by
  apply pratt 28181 2 [(2, 2), (5, 1), (1409, 1)]
  · intro f hf
    simp only [List.mem_cons, List.mem_nil_iff, or_false] at hf
    rcases hf with rfl | rfl | rfl
    · norm_num
    · norm_num
    · exact prime_1409
  · decide +kernel

theorem prime_41201 : Nat.Prime 41201 := by
  apply pratt 41201 3 [(2, 4), (5, 2), (103, 1)]
  · intro f hf
    simp only [List.mem_cons, List.mem_nil_iff, or_false] at hf
    rcases hf with rfl | rfl | rfl
    · norm_num
    · norm_num
    · exact prime_103
  · decide +kernel

theorem prime_85831 : Nat.Prime 85831 := by
  apply pratt 85831 3 [(2, 1), (3, 1), (5, 1), (2861, 1)]
  · intro f hf
    simp only [List.mem_cons, List.mem_nil_iff, or_false] at hf
    rcases hf with rfl | rfl | rfl | rfl
    · norm_num
    · norm_num
    · norm_num
    · exact prime_2861
  · decide +kernel

theorem prime_96557 : Nat.Prime 96557 := by
  apply pratt 96557 2 [(2, 2), (101, 1), (239, 1)]
  · intro f hf
    simp only [List.mem_cons, List.mem_nil_iff, or_false] at hf
    rcases hf with rfl | rfl | rfl
    · norm_num
    · exact prime_101
    · exact prime_239
  · decide +kernel

theorem prime_120233 : Nat.Prime 120233 := by
  apply pratt 120233 3 [(2, 3), (7, 1), (19, 1), (113, 1)]
  · intro f hf
    simp only [List.mem_cons, List.mem_nil_iff, or_false] at hf
    rcases hf with rfl | rfl | rfl | rfl
    · norm_num
    · norm_num
    · norm_num
    · exact prime_113
  · decide +kernel

theorem prime_305873 : Nat.Prime 305873 := by
  apply pratt 305873 3 [(2, 4), (7, 1), (2731, 1)]
  · intro f hf
    simp only [List.mem_cons, List.mem_nil_iff, or_false] at hf
    rcases hf with rfl | rfl | rfl
    · norm_num
    · norm_num
    · exact prime_2731
  · decide +kernel

theorem prime_1206781 : Nat.Prime 1206781 := by
  apply pratt 1206781 10 [(2, 2), (3, 1), (5, 1), (20113, 1)]
  · intro f hf
    simp only [List.mem_cons, List.mem_nil_iff, or_false] at hf
    rcases hf with rfl | rfl | rfl | rfl
    · norm_num
    · norm_num
    · norm_num
    · exact prime_20113
  · decide +kernel

theorem prime_1627771 : Nat.Prime 1627771 := by
  apply pratt 1627771 3 [(2, 1), (3, 1), (5, 1), (29, 1), (1871, 1)]
  · intro f hf
    simp only [List.mem_cons, List.mem_nil_iff, or_false] at hf
    rcases hf with rfl | rfl | rfl | rfl | rfl
    · norm_num
    · norm_num
    · norm_num
    · norm_num
    · exact prime_1871
  · decide +kernel

theorem prime_4681609 : Nat.Prime 4681609 := by
  apply pratt 4681609 23 [(2, 3), (3, 1), (97, 1), (2011, 1)]
  · intro f hf
    simp only [List.mem_cons, List.mem_nil_iff, or_false] at hf
    rcases hf with rfl | rfl | rfl | rfl
    · norm_num
    · norm_num
    · norm_num
    · exact prime_2011
  · decide +kernel

theorem prime_7240687 : Nat.Prime 7240687 := by
  apply pratt 7240687 3 [(2, 1), (3, 1), (1206781, 1)]
  · intro f hf
    simp only [List.mem_cons, List.mem_nil_iff, or_false] at hf
    rcases hf with rfl | rfl | rfl
    · norm_num
    · norm_num
    · exact prime_1206781
  · decide +kernel

theorem prime_13331831 : Nat.Prime 13331831 := by
  apply pratt 13331831 13 [(2, 1), (5, 1), (971, 1), (1373, 1)]
  · intro f hf
    simp only [List.mem_cons, List.mem_nil_iff, or_false] at hf
    rcases hf with rfl | rfl | rfl | rfl
    · norm_num
    · norm_num
    · exact prime_971
    · exact prime_1373
  · decide +kernel

theorem prime_44706919 : Nat.Prime 44706919 := by
  apply pratt 44706919 6 [(2, 1), (3, 1), (797, 1), (9349, 1)]
  · intro f hf
    simp only [List.mem_cons, List.mem_nil_iff, or_false] at hf
    rcases hf with rfl | rfl | rfl | rfl
    · norm_num
    · norm_num
    · exact prime_797
    · exact prime_9349
  · decide +kernel

theorem prime_107590001 : Nat.Prime 107590001 := by
  apply pratt 107590001 3 [(2, 4), (5, 4), (7, 1), (29, 1), (53, 1)]
  · intro f hf
    simp only [List.mem_cons, List.mem_nil_iff, or_false] at hf
    rcases hf with rfl | rfl | rfl | rfl | rfl
    · norm_num
    · norm_num
    · norm_num
    · norm_num
    · norm_num
  · decide +kernel

theorem prime_545358713 : Nat.Prime 545358713 := by
  apply pratt 545358713 5 [(2, 3), (41, 1), (59, 1), (28181, 1)]
  · intro f hf
    simp only [List.mem_cons, List.mem_nil_iff, or_false] at hf
    rcases hf with rfl | rfl | rfl | rfl
    · norm_num
    · norm_num
    · norm_num
    · exact prime_28181
  · decide +kernel

theorem prime_297159362677 : Nat.Prime 297159362677 := by
  apply pratt 297159362677 2 [(2, 2), (3, 2), (11, 1), (461, 1), (1627771, 1)]
  · intro f hf
    simp only [List.mem_cons, List.mem_nil_iff, or_false] at hf
    rcases hf with rfl | rfl | rfl | rfl | rfl
    · norm_num
    · norm_num
    · norm_num
    · exact prime_461
    · exact prime_1627771
  · decide +kernel

theorem prime_107361793816595537 : Nat.Prime 107361793816595537 := by
  apply pratt 107361793816595537 3 [(2, 4), (16699, 1), (85831, 1), (4681609, 1)]
  · intro f hf
    simp only [List.mem_cons, List.mem_nil_iff, or_false] at hf
    rcases hf with rfl | rfl | rfl | rfl
    · norm_num
    · exact prime_16699
    · exact prime_85831
    · exact prime_4681609
  · decide +kernel

theorem prime_173378833005251801 : Nat.Prime 173378833005251801 := by
  apply pratt 173378833005251801 6 [(2, 3), (5, 2), (2621, 1), (24809, 1), (13331831, 1)]
  · intro f hf
    simp only [List.mem_cons, List.mem_nil_iff, or_false] at hf
    rcases hf with rfl | rfl | rfl | rfl | rfl
    · norm_num
    · norm_num
    · exact prime_2621
    · exact prime_24809
    · exact prime_13331831
  · decide +kernel

theorem prime_174723607534414371449 : Nat.Prime 174723607534414371449 := by
  apply pratt 174723607534414371449 3 [(2, 3), (17, 1), (59, 1), (4051, 1), (120233, 1), (44706919, 1)]
  · intro f hf
    simp only [List.mem_cons, List.mem_nil_iff, or_false] at hf
    rcases hf with rfl | rfl | rfl | rfl | rfl | rfl
    · norm_num
    · norm_num
    · norm_num
    · exact prime_4051
    · exact prime_120233
    · exact prime_44706919
  · decide +kernel

theorem prime_22149492674086928081353 : Nat.Prime 22149492674086928081353 := by
  apply pratt 22149492674086928081353 5 [(2, 3), (3, 1), (5323, 1), (173378833005251801, 1)]
  · intro f hf
    simp only [List.mem_cons, List.mem_nil_iff, or_false] at hf
    rcases hf with rfl | rfl | rfl | rfl
    · norm_num
    · norm_num
    · exact prime_5323
    · exact prime_173378833005251801
  · decide +kernel

theorem prime_132896956044521568488119 : Nat.Prime 132896956044521568488119 := by
  apply pratt 132896956044521568488119 6 [(2, 1), (3, 1), (22149492674086928081353, 1)]
  · intro f hf
    simp only [List.mem_cons, List.mem_nil_iff, or_false] at hf
    rcases hf with rfl | rfl | rfl
    · norm_num
    · norm_num
    · exact prime_22149492674086928081353
  · decide +kernel

theorem prime_29047611873442575647497758179 : Nat.Prime 29047611873442575647497758179 := by
  apply pratt 29047611873442575647497758179 2 [(2, 1), (293, 1), (305873, 1), (545358713, 1), (297159362677, 1)]
  · intro f hf
    simp only [List.mem_cons, List.mem_nil_iff, or_false] at hf
    rcases hf with rfl | rfl | rfl | rfl | rfl
    · norm_num
    · exact prime_293
    · exact prime_305873
    · exact prime_545358713
    · exact prime_297159362677
  · decide +kernel

theorem prime_341948486974166000522343609283189 : Nat.Prime 341948486974166000522343609283189 := by
  apply pratt 341948486974166000522343609283189 2 [(2, 2), (3, 3), (109, 1), (29047611873442575647497758179, 1)]
  · intro f hf
    simp only [List.mem_cons, List.mem_nil_iff, or_false] at hf
    rcases hf with rfl | rfl | rfl | rfl
    · norm_num
    · norm_num
    · exact prime_109
    · exact prime_29047611873442575647497758179
  · decide +kernel

theorem prime_255515944373312847190720520512484175977 : Nat.Prime 255515944373312847190720520512484175977 := by
  apply pratt 255515944373312847190720520512484175977 3 [(2, 3), (7, 2), (11, 1), (1627, 1), (2657, 1), (4423, 1), (41201, 1), (96557, 1), (7240687, 1), (107590001, 1)]
  · intro f hf
    simp only [List.mem_cons, List.mem_nil_iff, or_false] at hf
    rcases hf with rfl | rfl | rfl | rfl | rfl | rfl | rfl | rfl | rfl | rfl
    · norm_num
    · norm_num
    · norm_num
    · exact prime_1627
    · exact prime_2657
    · exact prime_4423
    · exact prime_41201
    · exact prime_96557
    · exact prime_7240687
    · exact prime_107590001
  · decide +kernel

theorem prime_205115282021455665897114700593932402728804164701536103180137503955397371 : Nat.Prime 205115282021455665897114700593932402728804164701536103180137503955397371 := by
  apply pratt 205115282021455665897114700593932402728804164701536103180137503955397371 10 [(2, 1), (3, 1), (5, 1), (29, 2), (31, 1), (7723, 1), (132896956044521568488119, 1), (255515944373312847190720520512484175977, 1)]
  · intro f hf
    simp only [List.mem_cons, List.mem_nil_iff, or_false] at hf
    rcases hf with rfl | rfl | rfl | rfl | rfl | rfl | rfl | rfl
    · norm_num
    · norm_num
    · norm_num
    · norm_num
    · norm_num
    · exact prime_7723
    · exact prime_132896956044521568488119
    · exact prime_255515944373312847190720520512484175977
  · decide +kernel

theorem prime_115792089237316195423570985008687907852837564279074904382605163141518161494337 : Nat.Prime 115792089237316195423570985008687907852837564279074904382605163141518161494337 := by
  apply pratt 115792089237316195423570985008687907852837564279074904382605163141518161494337 7 [(2, 6), (3, 1), (149, 1), (631, 1), (107361793816595537, 1), (174723607534414371449, 1), (341948486974166000522343609283189, 1)]
  · intro f hf
    simp only [List.mem_cons, List.mem_nil_iff, or_false] at hf
    rcases hf with rfl | rfl | rfl | rfl | rfl | rfl | rfl
    · norm_num
    · norm_num
    · exact prime_149
    · exact prime_631
    · exact prime_107361793816595537
    · exact prime_174723607534414371449
    · exact prime_341948486974166000522343609283189
  · decide +kernel

theorem prime_115792089237316195423570985008687907853269984665640564039457584007908834671663 : Nat.Prime 115792089237316195423570985008687907853269984665640564039457584007908834671663 := by
  apply pratt 115792089237316195423570985008687907853269984665640564039457584007908834671663 3 [(2, 1), (3, 1), (7, 1), (13441, 1), (205115282021455665897114700593932402728804164701536103180137503955397371, 1)]
  · intro f hf
    simp only [List.mem_cons, List.mem_nil_iff, or_false] at hf
    rcases hf with rfl | rfl | rfl | rfl | rfl
    · norm_num
    · norm_num
    · norm_num
    · exact prime_13441
    · exact prime_205115282021455665897114700593932402728804164701536103180137503955397371
  · decide +kernel

end PrattData
