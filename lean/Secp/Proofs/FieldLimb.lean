import Secp.Proofs.Mont
import Secp.Gen.FiatField
import Secp.Gen.FiatScalar
/-!
# Ties between the generated Fiat code and the structured Montgomery reference,
and the resulting correctness statements for `Mul`/`Square` of both fields.

The ties are definitional (`rfl` after unfolding): any change to the 3.9 kLoC of
Fiat Go code changes the generated definition and breaks the tie.
-/

theorem cmov_tie_p (c z nz : Nat) : FiatField.cmovznzU64 c z nz = cmovznz c z nz := by
  unfold FiatField.cmovznzU64 cmovznz; rfl
theorem cmov_tie_n (c z nz : Nat) : FiatScalar.cmovznzU64 c z nz = cmovznz c z nz := by
  unfold FiatScalar.cmovznzU64 cmovznz; rfl

theorem mul_tie_p (x y : L4) : FiatField.mul x y = refMul Mp x y := by
  unfold FiatField.mul refMul condSub redStep add5 addShift mulRow Mp
  simp only [cmov_tie_p]
theorem square_tie_p (x : L4) : FiatField.square x = refMul Mp x x := by
  unfold FiatField.square refMul condSub redStep add5 addShift mulRow Mp
  simp only [cmov_tie_p]
theorem mul_tie_n (x y : L4) : FiatScalar.mul x y = refMul Mn x y := by
  unfold FiatScalar.mul refMul condSub redStep add5 addShift mulRow Mn
  simp only [cmov_tie_n]
theorem square_tie_n (x : L4) : FiatScalar.square x = refMul Mn x x := by
  unfold FiatScalar.square refMul condSub redStep add5 addShift mulRow Mn
  simp only [cmov_tie_n]

theorem Mp_valid : Mp.Valid := ⟨by decide, by decide, by decide, by decide, by decide, by decide⟩
theorem Mn_valid : Mn.Valid := ⟨by decide, by decide, by decide, by decide, by decide, by decide⟩
theorem Mp_lt : Mp.val < W^4 := by decide
theorem Mn_lt : Mn.val < W^4 := by decide
def Pnat : Nat := 2^256 - 2^32 - 977
def Nnat : Nat := 0xfffffffffffffffffffffffffffffffebaaedce6af48a03bbfd25e8cd0364141
theorem Mp_val : Mp.val = Pnat := by decide
theorem Mn_val : Mn.val = Nnat := by decide

theorem L4.eval_eq (a : L4) : a.eval = eval4 a.l0 a.l1 a.l2 a.l3 := rfl

/-- Montgomery multiplication contract for any valid modulus, on `L4` values -/
theorem refMul_L4 (M : Modulus) (hM : M.Valid) (hMlt : M.val < W^4) (x y : L4) (hx : x.ok) (hy : y.ok)
    (hY : y.eval < M.val) :
    (refMul M x y).ok ∧ (refMul M x y).eval < M.val ∧
    ((refMul M x y).eval * W^4) % M.val = (x.eval * y.eval) % M.val := by
  obtain ⟨x0, x1, x2, x3⟩ := hx
  obtain ⟨y0, y1, y2, y3⟩ := hy
  have h := refMul_correct M hM hMlt x.l0 x.l1 x.l2 x.l3 y.l0 y.l1 y.l2 y.l3 x0 x1 x2 x3 y0 y1 y2 y3 hY
  simp only at h
  obtain ⟨o0, o1, o2, o3, olt, oval⟩ := h
  exact ⟨⟨o0, o1, o2, o3⟩, olt, oval⟩

theorem fieldMul_correct (x y : L4) (hx : x.ok) (hy : y.ok) (hY : y.eval < Pnat) :
    (FiatField.mul x y).ok ∧ (FiatField.mul x y).eval < Pnat ∧
    ((FiatField.mul x y).eval * W^4) % Pnat = (x.eval * y.eval) % Pnat := by
  rw [mul_tie_p, ← Mp_val]
  exact refMul_L4 Mp Mp_valid Mp_lt x y hx hy (by rw [Mp_val]; exact hY)

theorem fieldSquare_correct (x : L4) (hx : x.ok) (hX : x.eval < Pnat) :
    (FiatField.square x).ok ∧ (FiatField.square x).eval < Pnat ∧
    ((FiatField.square x).eval * W^4) % Pnat = (x.eval * x.eval) % Pnat := by
  rw [square_tie_p, ← Mp_val]
  exact refMul_L4 Mp Mp_valid Mp_lt x x hx hx (by rw [Mp_val]; exact hX)

theorem scalarMul_correct (x y : L4) (hx : x.ok) (hy : y.ok) (hY : y.eval < Nnat) :
    (FiatScalar.mul x y).ok ∧ (FiatScalar.mul x y).eval < Nnat ∧
    ((FiatScalar.mul x y).eval * W^4) % Nnat = (x.eval * y.eval) % Nnat := by
  rw [mul_tie_n, ← Mn_val]
  exact refMul_L4 Mn Mn_valid Mn_lt x y hx hy (by rw [Mn_val]; exact hY)

theorem scalarSquare_correct (x : L4) (hx : x.ok) (hX : x.eval < Nnat) :
    (FiatScalar.square x).ok ∧ (FiatScalar.square x).eval < Nnat ∧
    ((FiatScalar.square x).eval * W^4) % Nnat = (x.eval * x.eval) % Nnat := by
  rw [square_tie_n, ← Mn_val]
  exact refMul_L4 Mn Mn_valid Mn_lt x x hx hx (by rw [Mn_val]; exact hX)
