import Secp.Proofs.Mont
/-!
# Ties between the generated Fiat code and the structured Montgomery reference,
and the resulting correctness statements for `Mul`/`Square` of both fields.

The ties are definitional (`rfl` after unfolding): any change to the 3.9 kLoC of
Fiat Go code changes the generated definition and breaks the tie.
-/



theorem Mp_valid : Mp.Valid := ⟨by decide, by decide, by decide, by decide, by decide, by decide⟩

theorem Mn_valid : Mn.Valid := ⟨by decide, by decide, by decide, by decide, by decide, by decide⟩

theorem Mp_lt : Mp.val < W^4 := by decide

theorem Mn_lt : Mn.val < W^4 := by decide

def Pnat : Nat := 2^256 - 2^32 - 977

def Nnat : Nat := 0xfffffffffffffffffffffffffffffffebaaedce6af48a03bbfd25e8cd0364141

theorem Mp_val : Mp.val = Pnat := by decide

theorem Mn_val : Mn.val = Nnat := by decide

theorem L4.eval_eq (a : L4) : a.eval = eval4 a.l0 a.l1 a.l2 a.l3 := rfl

/-- Montgomery multiplication contract for any valid modulus, on `L4` values -/
theorem refMul_L4 (M : Modulus) (hM : M.Valid) (hMlt : M.val < W^4) (x y : L4) (hx : x.ok) (hy : y.ok)
    (hY : y.eval < M.val) :
    (refMul M x y).ok ∧ (refMul M x y).eval < M.val ∧
    ((refMul M x y).eval * W^4) % M.val = (x.eval * y.eval) % M.val := by
  obtain ⟨x0, x1, x2, x3⟩ := hx
  obtain ⟨y0, y1, y2, y3⟩ := hy
  have h := refMul_correct M hM hMlt x.l0 x.l1 x.l2 x.l3 y.l0 y.l1 y.l2 y.l3 x0 x1 x2 x3 y0 y1 y2 y3 hY
  simp only at h
  obtain ⟨o0, o1, o2, o3, olt, oval⟩ := h
  exact ⟨⟨o0, o1, o2, o3⟩, olt, oval⟩
