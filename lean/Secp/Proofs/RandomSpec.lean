import Secp.Proofs.ScalarEnc
/-!
# `Random` as a function of the entropy stream (C18)
-/
open Spec

/-- value of the `j`-th 32-byte block of the stream -/
def blockVal (s : Bytes) (j : Nat) : Nat := os2ip ((s.drop (32 * j)).take 32)

theorem isBytes_take {b : Bytes} (h : IsBytes b) (k : Nat) : IsBytes (b.take k) :=
  fun x hx => h x (List.mem_of_mem_take hx)
theorem isBytes_drop {b : Bytes} (h : IsBytes b) (k : Nat) : IsBytes (b.drop k) :=
  fun x hx => h x (List.mem_of_mem_drop hx)

/-- one iteration on a full block: canonical value `OS2IP(block) mod n`; the loop continues iff it is 0 -/
theorem random_block (b : Bytes) (hb : IsBytes b) (hl : b.length = 32) :
    sOk (FiatScalar.toMontgomery (FiatScalar.reduce (Hand.bytesToLimbs b)).1) ∧
    sVal (FiatScalar.toMontgomery (FiatScalar.reduce (Hand.bytesToLimbs b)).1) = ((os2ip b : Nat) : Fn) ∧
    (FiatScalar.isFEZero (FiatScalar.toMontgomery (FiatScalar.reduce (Hand.bytesToLimbs b)).1) = 1 ↔ os2ip b % N = 0) := by
  obtain ⟨ok, v, _⟩ := reduceBytes_spec b hl hb
  have e : (Hand.Fn.reduceBytes b).1 = FiatScalar.toMontgomery (FiatScalar.reduce (Hand.bytesToLimbs b)).1 := rfl
  rw [e] at ok v
  refine ⟨ok, v, ?_⟩
  have hz := (scalarLawful.isZero_eq_one_iff ok)
  have hz' : FiatScalar.isFEZero (FiatScalar.toMontgomery (FiatScalar.reduce (Hand.bytesToLimbs b)).1) = 1 ↔
      sVal (FiatScalar.toMontgomery (FiatScalar.reduce (Hand.bytesToLimbs b)).1) = 0 := hz
  rw [hz', v, ZMod.natCast_eq_zero_iff]
  exact (Nat.dvd_iff_mod_eq_zero ..)

theorem blockVal_drop (s : Bytes) (j : Nat) : blockVal (s.drop 32) j = blockVal s (j + 1) := by
  unfold blockVal
  rw [List.drop_drop]
  congr 3
  ring

/-- **C18**: the loop of `Random` over the entropy stream `s` (then failure) -/
theorem randomAux_spec (fuel : Nat) (s : Bytes) (used : Nat) (hb : IsBytes s) (hf : s.length / 32 < fuel) :
    (∀ m c, Hand.Scalar.randomAux fuel s used = (some m, c) →
      ∃ k, 32 * (k + 1) ≤ s.length ∧ c = used + 32 * (k + 1) ∧ (∀ j, j < k → blockVal s j % N = 0) ∧
        blockVal s k % N ≠ 0 ∧ sOk m ∧ sVal m = ((blockVal s k : Nat) : Fn)) ∧
    (∀ c, Hand.Scalar.randomAux fuel s used = (none, c) →
      c = used + s.length ∧ ∀ j, 32 * (j + 1) ≤ s.length → blockVal s j % N = 0) := by
  induction fuel generalizing s used with
  | zero => omega
  | succ fuel ih =>
    unfold Hand.Scalar.randomAux
    by_cases hshort : s.length < 32
    · simp only [hshort, if_true]
      refine ⟨fun m c h => absurd (Prod.mk.inj h).1 (by simp), fun c h => ⟨(Prod.mk.inj h).2.symm, fun j hj => by omega⟩⟩
    · simp only [hshort, if_false]
      have hl : (s.take 32).length = 32 := by simp; omega
      obtain ⟨ok, v, hz⟩ := random_block (s.take 32) (isBytes_take hb 32) hl
      have hb0 : blockVal s 0 = os2ip (s.take 32) := by unfold blockVal; simp
      by_cases hzero : FiatScalar.isFEZero (FiatScalar.toMontgomery (FiatScalar.reduce (Hand.bytesToLimbs (s.take 32))).1) = 1
      · simp only [hzero, if_true]
        have hdl : (s.drop 32).length / 32 < fuel := by
          rw [List.length_drop]
          have : s.length / 32 = (s.length - 32) / 32 + 1 := by omega
          omega
        obtain ⟨ihs, ihn⟩ := ih (s.drop 32) (used + 32) (isBytes_drop hb 32) hdl
        have h0 : blockVal s 0 % N = 0 := by rw [hb0]; exact hz.mp hzero
        constructor
        · intro m c h
          obtain ⟨k, hk1, hk2, hk3, hk4, hk5, hk6⟩ := ihs m c h
          rw [List.length_drop] at hk1
          refine ⟨k + 1, by omega, by omega, ?_, by rw [← blockVal_drop]; exact hk4, hk5, by rw [← blockVal_drop]; exact hk6⟩
          intro j hj
          cases j with
          | zero => exact h0
          | succ j => rw [← blockVal_drop]; exact hk3 j (by omega)
        · intro c h
          obtain ⟨hc, hall⟩ := ihn c h
          rw [List.length_drop] at hc
          refine ⟨by omega, fun j hj => ?_⟩
          cases j with
          | zero => exact h0
          | succ j =>
            rw [← blockVal_drop]
            exact hall j (by rw [List.length_drop]; omega)
      · simp only [hzero, if_false]
        constructor
        · intro m c h
          obtain ⟨h1, h2⟩ := Prod.mk.inj h
          have hm := Option.some.inj h1
          refine ⟨0, by omega, by omega, fun j hj => by omega, ?_, ?_, ?_⟩
          · rw [hb0]; exact fun e => hzero (hz.mpr e)
          · rw [← hm]; exact ok
          · rw [← hm, hb0]; exact v
        · intro c h
          exact absurd (Prod.mk.inj h).1 (by simp)

/-- **Random**: the result is the first 32-byte block whose value mod n is non-zero, reduced: canonical and in
`[1, n-1]`; blocks ≡ 0 (in particular 0 and n) are skipped; a source that fails first makes the function panic -/
theorem random_spec (s : Bytes) (hb : IsBytes s) :
    (∀ m c, Hand.Scalar.random s = (some m, c) →
      ∃ k, 32 * (k + 1) ≤ s.length ∧ c = 32 * (k + 1) ∧ (∀ j, j < k → blockVal s j % N = 0) ∧
        blockVal s k % N ≠ 0 ∧ sOk m ∧ (sVal m).val = blockVal s k % N ∧ 1 ≤ (sVal m).val ∧ (sVal m).val ≤ N - 1) ∧
    (∀ c, Hand.Scalar.random s = (none, c) → ∀ j, 32 * (j + 1) ≤ s.length → blockVal s j % N = 0) := by
  obtain ⟨hs, hn⟩ := randomAux_spec (s.length / 32 + 1) s 0 hb (by omega)
  unfold Hand.Scalar.random
  constructor
  · intro m c h
    obtain ⟨k, h1, h2, h3, h4, h5, h6⟩ := hs m c h
    have hv : (sVal m).val = blockVal s k % N := by rw [h6, ZMod.val_natCast]
    refine ⟨k, h1, by omega, h3, h4, h5, hv, ?_, ?_⟩
    · rw [hv]; omega
    · have := (sVal m).val_lt; omega
  · intro c h
    exact (hn c h).2
