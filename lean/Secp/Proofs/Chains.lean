import Secp.Proofs.Lawful
import Secp.Gen.FieldChains
import Secp.Gen.ScalarChain
import Mathlib.Tactic.NormNum
import Secp.Spec.Fp
/-!
# The three addition chains compute the advertised powers, for every lawful operations record

Exponent tracking: `IsPow L x a e` says `a` is canonical and denotes `(val x)^e`; multiplication adds exponents,
squaring doubles them, `k` squarings multiply by `2^k`. The chain is walked structurally; the resulting exponent
expression is evaluated by `norm_num`.
-/

variable {α : Type} {F : FieldOps α} {K : Type} [Field K] (L : Lawful F K)

def IsPow (x a : α) (e : Nat) : Prop := L.ok a ∧ L.val a = L.val x ^ e

theorem IsPow.base {x : α} (hx : L.ok x) : IsPow L x x 1 := ⟨hx, (pow_one _).symm⟩
theorem IsPow.mul {x a b : α} {e1 e2 : Nat} (ha : IsPow L x a e1) (hb : IsPow L x b e2) :
    IsPow L x (F.mul a b) (e1 + e2) :=
  ⟨L.ok_mul ha.1 hb.1, by rw [L.val_mul ha.1 hb.1, ha.2, hb.2, pow_add]⟩
theorem IsPow.square {x a : α} {e : Nat} (ha : IsPow L x a e) : IsPow L x (F.square a) (e + e) :=
  ⟨L.ok_square ha.1, by rw [L.val_square ha.1, ha.2, pow_add]⟩
theorem IsPow.sqn {x a : α} {e : Nat} (k : Nat) (ha : IsPow L x a e) : IsPow L x (FieldOps.sqn F k a) (e * 2 ^ k) :=
  ⟨L.ok_sqn ha.1 k, by rw [L.val_sqn ha.1, ha.2, pow_mul]⟩

macro "chain_tac" L:term "," hx:term : tactic =>
  `(tactic| repeat' (first | exact IsPow.base $L $hx | apply IsPow.mul $L | apply IsPow.square $L | apply IsPow.sqn $L))


/-- exponent tracking as an instance of the *same generic chain*: multiplication adds exponents, squaring doubles -/
def expOps : FieldOps Nat where
  zero := 0
  one := 0
  add := fun _ _ => 0
  sub := fun _ _ => 0
  mul := fun a b => a + b
  neg := fun a => a
  square := fun a => a + a
  cmove := fun _ a _ => a
  isZero := fun _ => 0
  equals := fun _ _ => 0
  sgn0 := fun _ => 0
  ofMont := fun _ _ _ _ => 0

theorem IsPow.mul' {x a b : α} {e1 e2 : Nat} (ha : IsPow L x a e1) (hb : IsPow L x b e2) :
    IsPow L x (F.mul a b) (expOps.mul e1 e2) := IsPow.mul L ha hb
theorem IsPow.square' {x a : α} {e : Nat} (ha : IsPow L x a e) : IsPow L x (F.square a) (expOps.square e) :=
  IsPow.square L ha
theorem IsPow.sqn' {x a : α} {e : Nat} (k : Nat) (ha : IsPow L x a e) :
    IsPow L x (FieldOps.sqn F k a) (FieldOps.sqn expOps k e) := by
  induction k generalizing a e with
  | zero => exact ha
  | succ k ih => exact ih (IsPow.square' L ha)

macro "chain_tac" L:term "," hx:term : tactic =>
  `(tactic| repeat' (first | exact IsPow.base $L $hx | apply IsPow.mul' $L | apply IsPow.square' $L | apply IsPow.sqn' $L))

/-- the scalar inversion chain, run on exponents, yields `n - 2` (kernel evaluation of the generic chain at `Nat`) -/
theorem scalarInvert_exp : ScalarChain.invert expOps 1 = Spec.N - 2 := by decide +kernel
theorem fieldInvert_exp : FieldChains.invert expOps 1 = Spec.P - 2 := by decide +kernel
theorem expPMin3Div4_exp : FieldChains.expPMin3Div4 expOps 1 = (Spec.P - 3) / 4 := by decide +kernel

set_option maxRecDepth 100000 in
theorem scalarInvert_pow (x : α) (hx : L.ok x) : IsPow L x (ScalarChain.invert F x) (Spec.N - 2) := by
  rw [← scalarInvert_exp]
  unfold ScalarChain.invert
  simp only []
  chain_tac L, hx

set_option maxRecDepth 100000 in
theorem fieldInvert_pow (x : α) (hx : L.ok x) : IsPow L x (FieldChains.invert F x) (Spec.P - 2) := by
  rw [← fieldInvert_exp]
  unfold FieldChains.invert
  simp only []
  chain_tac L, hx

set_option maxRecDepth 100000 in
theorem expPMin3Div4_pow (x : α) (hx : L.ok x) : IsPow L x (FieldChains.expPMin3Div4 F x) ((Spec.P - 3) / 4) := by
  rw [← expPMin3Div4_exp]
  unfold FieldChains.expPMin3Div4
  simp only []
  chain_tac L, hx
