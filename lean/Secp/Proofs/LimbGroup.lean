import Secp.Proofs.LimbLawful
import Secp.Proofs.GroupLaw
/-! # Facts about concrete limb-level elements (non-vacuity witnesses) -/
open Spec

/-- the base point as stored by `Base()` is a valid element -/
theorem base_valid : PtValid limbLawful Hand.ElementL.base := by
  refine ⟨⟨⟨by decide, by decide⟩, ⟨by decide, by decide⟩, ⟨by decide, by decide⟩⟩, ?_⟩
  have hx : limbVal Hand.ElementL.base.x = ((0x79be667ef9dcbbac55a06295ce870b07029bfcdb2dce28d959f2815b16f81798 : Nat) : Fp) :=
    limbVal_of_mont _ _ (by decide)
  have hy : limbVal Hand.ElementL.base.y = ((0x483ada7726a3c4655da4fbfc0e1108a8fd17b448a68554199c47d08ffb10d4b8 : Nat) : Fp) :=
    limbVal_of_mont _ _ (by decide)
  have hz : limbVal Hand.ElementL.base.z = ((1 : Nat) : Fp) := limbVal_of_mont _ _ (by decide)
  show OnCurve (7 : Fp) ⟨limbVal _, limbVal _, limbVal _⟩
  rw [hx, hy, hz]
  refine ⟨?_, Or.inr (Or.inr (by simp))⟩
  simp only
  have h7 : (7 : Fp) = ((7 : Nat) : Fp) := by simp
  rw [h7]
  rw [← Nat.cast_pow, ← Nat.cast_pow, ← Nat.cast_pow, ← Nat.cast_mul, ← Nat.cast_mul, ← Nat.cast_add,
    ZMod.natCast_eq_natCast_iff']
  decide
