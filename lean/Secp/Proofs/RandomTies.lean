import Secp.Gen.Misc
import Secp.Proofs.BytesTiesN
import Secp.Hand.Scalar
/-! # The regenerated `Scalar.Random` equals the model, for every entropy stream and every sufficient iteration bound -/
open Spec Hand Hand.Scalar

/-! ## `Random` -/
namespace RandomTie

/-- the model's recursion over the entropy stream, for an arbitrary zero test and an arbitrary conversion of 32 bytes -/
def auxG (Z : L4 → Nat) (conv : List Nat → L4) : Nat → List Nat → Nat → Option L4 × Nat
  | 0, s, used => (none, used + s.length)
  | fuel+1, s, used =>
    if s.length < 32 then (none, used + s.length) else
    let m := conv (s.take 32)
    if Z m = 1 then auxG Z conv fuel (s.drop 32) (used + 32) else (some m, used + 32)

/-- what one step of the regenerated loop does, abstractly -/
def StepSpec (Z : L4 → Nat) (conv : List Nat → L4)
    (step : (List Nat × L4 × List Nat) → Option (Bool × (List Nat × L4 × List Nat))) : Prop :=
  ∀ buf m rng, buf.length = 32 → step (buf, m, rng) =
    if Z m = 1 then (if 32 ≤ rng.length then some (true, (rng.take 32, conv (rng.take 32), rng.drop 32)) else none)
    else some (false, (buf, m, rng))

theorem auxG_some_ge (Z : L4 → Nat) (conv : List Nat → L4) :
    ∀ (n : Nat) (s : List Nat) (used : Nat) (m : L4) (u : Nat), auxG Z conv n s used = (some m, u) → used + 32 ≤ u := by
  intro n
  induction n with
  | zero => intro s used m u h; simp [auxG] at h
  | succ n ih =>
    intro s used m u h
    unfold auxG at h
    by_cases hlen : s.length < 32
    · simp [hlen] at h
    · simp only [hlen, if_false] at h
      by_cases hz : Z (conv (s.take 32)) = 1
      · simp only [hz, if_true] at h
        have := ih _ _ _ _ h
        omega
      · simp only [hz, if_false] at h
        have := (Prod.mk.inj h).2
        omega

theorem loop_gen (Z : L4 → Nat) (conv : List Nat → L4) (step) (hs : StepSpec Z conv step) :
    ∀ (n : Nat) (rng buf : List Nat) (m0 : L4) (fuel used : Nat), Z m0 = 1 → buf.length = 32 → n + 1 ≤ fuel →
      rng.length / 32 + 1 ≤ n →
      (Prim.loopWhile fuel (buf, m0, rng) step).map (fun st => (st.2.1, st.2.2)) =
        match auxG Z conv n rng used with
        | (some m, u) => some (m, rng.drop (u - used))
        | (none, _) => none := by
  intro n
  induction n with
  | zero => intro rng buf m0 fuel used _ _ _ h; omega
  | succ n ih =>
    intro rng buf m0 fuel used hz hb hf hn
    obtain ⟨fuel', rfl⟩ : ∃ f', fuel = f' + 1 := ⟨fuel - 1, by omega⟩
    unfold Prim.loopWhile auxG
    rw [hs buf m0 rng hb]
    simp only [hz, if_true]
    by_cases hlen : rng.length < 32
    · have : ¬ 32 ≤ rng.length := by omega
      simp [hlen, this]
    · have hge : 32 ≤ rng.length := by omega
      simp only [hge, if_true, hlen, if_false, Option.bind_eq_bind, Option.bind_some]
      by_cases hz' : Z (conv (rng.take 32)) = 1
      · simp only [hz', if_true]
        have hl32 : (rng.take 32).length = 32 := by simp; omega
        have := ih (rng.drop 32) (rng.take 32) (conv (rng.take 32)) fuel' (used + 32) hz' hl32 (by omega)
          (by simp; omega)
        rw [this]
        cases hh : auxG Z conv n (rng.drop 32) (used + 32) with
        | mk o u =>
          cases o with
          | none => rfl
          | some m =>
            have hge2 := auxG_some_ge Z conv n _ _ _ _ hh
            simp only [List.drop_drop]
            have : 32 + (u - (used + 32)) = u - used := by omega
            rw [this]
      · simp only [hz', if_false]
        obtain ⟨f'', rfl⟩ : ∃ f'', fuel' = f'' + 1 := ⟨fuel' - 1, by omega⟩
        have hl32 : (rng.take 32).length = 32 := by simp; omega
        unfold Prim.loopWhile
        rw [hs _ _ _ hl32]
        simp [hz']

/-- the conversion of 32 entropy bytes the loop performs -/
def conv (b : List Nat) : L4 := FiatScalar.toMontgomery (FiatScalar.reduce (bytesToLimbs b)).1

theorem randomAux_eq : ∀ (n : Nat) (s : List Nat) (used : Nat),
    Hand.Scalar.randomAux n s used = auxG FiatScalar.isFEZero conv n s used := by
  intro n
  induction n with
  | zero => intro s used; rfl
  | succ n ih =>
    intro s used
    unfold Hand.Scalar.randomAux auxG
    by_cases hlen : s.length < 32
    · simp [hlen]
    · simp only [hlen, if_false, conv, ih]
      rfl

attribute [local irreducible] FiatScalar.toMontgomery FiatScalar.reduce FiatScalar.isFEZero in
theorem step_spec : StepSpec FiatScalar.isFEZero conv GenMisc.scalar_random_loop1 := by
  intro buf m rng hb
  unfold GenMisc.scalar_random_loop1 Prim.readFull conv
  by_cases hz : FiatScalar.isFEZero m = 1
  · by_cases hge : 32 ≤ rng.length
    · have hl : (rng.take 32).length = 32 := by simp; omega
      simp [hz, hb, hge, BytesTies.fn_bytesToNonMontgomery _ hl]
    · simp [hz, hb, hge]
  · simp [hz]

theorem zero_is_zero : FiatScalar.isFEZero ⟨0, 0, 0, 0⟩ = 1 := by decide +kernel

/-- **the regenerated `Random`**: with the entropy source modelled as the stream `rng` of bytes it will deliver and any
iteration bound of at least `len(rng)/32 + 2`, it returns exactly what the model returns — the first 32-byte block that
reduces to a non-zero scalar, and the unread rest of the stream — and panics (`none`) exactly when the model does (the
stream ends first) -/
theorem random_tie (s : L4) (rng : List Nat) (fuel : Nat) (hf : rng.length / 32 + 2 ≤ fuel) :
    GenMisc.scalar_random fuel s rng =
      match Hand.Scalar.random rng with
      | (some m, u) => some (m, rng.drop u)
      | (none, _) => none := by
  unfold GenMisc.scalar_random Hand.Scalar.random
  rw [randomAux_eq]
  have h := loop_gen FiatScalar.isFEZero conv GenMisc.scalar_random_loop1 step_spec (rng.length / 32 + 1) rng
    (List.replicate 32 0) ⟨0, 0, 0, 0⟩ fuel 0 zero_is_zero (by simp) (by omega) (Nat.le_refl _)
  simp only [Nat.sub_zero] at h
  cases hl : Prim.loopWhile fuel (List.replicate 32 0, (⟨0, 0, 0, 0⟩ : L4), rng) GenMisc.scalar_random_loop1 with
  | none =>
    rw [hl] at h
    simp only [Option.map_none] at h
    simp only [Option.bind_eq_bind, Option.pure_def, hl, Option.bind_none]
    rw [← h]
  | some st =>
    obtain ⟨b, m, r⟩ := st
    rw [hl] at h
    simp only [Option.map_some] at h
    simp only [Option.bind_eq_bind, Option.pure_def, hl, Option.bind_some]
    rw [← h]

end RandomTie
