import Secp.Proofs.BytesTiesP
/-! # The regenerated `HashToFieldElement` of `internal/field` equals the model -/
open Spec Hand

namespace BytesTies

attribute [local irreducible] FiatField.mul FiatField.add FiatField.toMontgomery

theorem fp_hashToFieldElement (e : L4) (input : List Nat) (hl : input.length = 48) :
    GenFieldBytes.element_hashToFieldElement e input = some (Fp.hashToFieldElement input) := by
  unfold GenFieldBytes.element_hashToFieldElement Fp.hashToFieldElement GenFieldBytes.newElement
  simp only [Fp.two192, Fp.two384, Option.bind_eq_bind, Option.pure_def, Option.bind_some]
  exact h2f_chain GenFieldBytes.element_fromBytesNoReduce Fp.fromBytesNoReduce FiatField.mul FiatField.add _ _ _ _
    fp_fromBytesNoReduce e (List.replicate 16 0 ++ input) (by simp [hl])


end BytesTies
