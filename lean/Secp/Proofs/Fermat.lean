import Secp.Proofs.Chains
import Secp.Proofs.FieldP
/-!
# Fermat: `a^(q-2) = a⁻¹` in `ZMod q`, hence the inversion chains compute inverses (0 ↦ 0)
-/

theorem zmod_pow_sub_two (q : Nat) [Fact q.Prime] (hq : 3 ≤ q) (a : ZMod q) : a ^ (q - 2) = a⁻¹ := by
  by_cases ha : a = 0
  · subst ha
    have h : q - 2 ≠ 0 := by omega
    rw [zero_pow h, inv_zero]
  · have h1 : a ^ (q - 1) = 1 := ZMod.pow_card_sub_one_eq_one ha
    have e : q - 1 = (q - 2) + 1 := by omega
    rw [e, pow_succ] at h1
    exact eq_inv_of_mul_eq_one_left h1
