import Secp.Proofs.Xmd
import Secp.Proofs.WideReduce
/-! # The hash parameter (`HashOK`: 32-byte outputs) and the length of the expander output -/
open Spec Spec.Rfc9380

/-- what the theorems assume of the hash parameter: 32-byte outputs -/
structure HashOK (H : Bytes → Bytes) : Prop where
  len : ∀ m, (H m).length = 32
  bytes : ∀ m, IsBytes (H m)

theorem xmdBlocks_length (H : Bytes → Bytes) (hH : HashOK H) (b0 dstP : Bytes) (k i : Nat) (prev : Bytes) :
    ((xmdBlocks H b0 dstP k i prev).flatten).length = 32 * k ∧ IsBytes (xmdBlocks H b0 dstP k i prev).flatten := by
  induction k generalizing i prev with
  | zero => simp [xmdBlocks, IsBytes]
  | succ k ih =>
    unfold xmdBlocks
    simp only [List.flatten_cons, List.length_append]
    obtain ⟨l, b⟩ := ih (i + 1) (H (strxor b0 prev ++ i2osp i 1 ++ dstP))
    exact ⟨by rw [hH.len, l]; ring, isBytes_append (hH.bytes _) b⟩

/-- the expander delivers exactly `len` bytes (for the lengths the RFC allows) -/
theorem expand_length (H : Bytes → Bytes) (hH : HashOK H) (msg dst : Bytes) (len : Nat) :
    (expandMessageXmd H msg dst len).length = len ∧ IsBytes (expandMessageXmd H msg dst len) := by
  unfold expandMessageXmd
  simp only
  set b0 := H (List.replicate 64 0 ++ msg ++ i2osp len 2 ++ i2osp 0 1 ++ (vetDST H dst ++ i2osp (vetDST H dst).length 1))
  set b1 := H (b0 ++ i2osp 1 1 ++ (vetDST H dst ++ i2osp (vetDST H dst).length 1))
  obtain ⟨l, b⟩ := xmdBlocks_length H hH b0 (vetDST H dst ++ i2osp (vetDST H dst).length 1) ((len + 31) / 32 - 1) 2 b1
  constructor
  · rw [List.length_take, List.length_append, hH.len, l]
    omega
  · intro x hx
    exact isBytes_append (hH.bytes _) b x (List.mem_of_mem_take hx)

