import Secp.Proofs.ScalarEnc
import Secp.Proofs.Fermat
/-! # Scalar operations of the model proved against `ZMod n`: `Invert`, `SetUInt64`, `Pow` (used by the C06 property file and by the
history refinement of C10) -/
namespace ScalarOps
open Hand.Scalar Spec
abbrev Zn := ZMod N

theorem invert_correct (s : L4) (hs : sOk s) : sOk (invert s) ∧ sVal (invert s) = (sVal s)⁻¹ := by
  obtain ⟨ok, v⟩ := scalarInvert_pow scalarLawful s hs
  exact ⟨ok, by rw [← zmod_pow_sub_two N (by decide) (sVal s)]; exact v⟩


theorem setUInt64_correct (i : Nat) (hi : i < W) : sOk (setUInt64 i) ∧ sVal (setUInt64 i) = (i : Zn) := by
  have hx : (⟨i, 0, 0, 0⟩ : L4).ok := ⟨hi, W_pos, W_pos, W_pos⟩
  obtain ⟨ok, v⟩ := s_toMont hx
  refine ⟨ok, ?_⟩
  show sVal (FiatScalar.toMontgomery ⟨i, 0, 0, 0⟩) = _
  rw [v]
  simp [L4.eval]


theorem pow_zero (s t : L4) (ht : sOk t) (h0 : sVal t = 0) : pow s (some t) = one := by
  unfold pow
  simp only
  rw [if_pos ((sc_isZero_iff t ht).mpr h0)]
theorem pow_general (s t : L4) (hs : sOk s) (ht : sOk t) (h0 : sVal t ≠ 0) (h1 : sVal t ≠ 1) :
    sOk (pow s (some t)) ∧ sVal (pow s (some t)) = sVal s ^ (sVal t).val := by
  have hz : isZero t = false := by
    cases h : isZero t
    · rfl
    · exact absurd ((sc_isZero_iff t ht).mp h) h0
  have ho : isOne t = false := by
    cases h : isOne t
    · rfl
    · exact absurd ((sc_isOne_iff t ht).mp h) h1
  unfold pow
  simp only [hz, ho, Bool.false_eq_true, if_false]
  rw [sc_encode s hs, sc_encode t ht]
  have hvs : os2ip (i2osp (sVal s).val 32) = (sVal s).val := by
    rw [os2ip_i2osp]; exact Nat.mod_eq_of_lt (Nat.lt_trans (sVal s).val_lt (by decide))
  have hvt : os2ip (i2osp (sVal t).val 32) = (sVal t).val := by
    rw [os2ip_i2osp]; exact Nat.mod_eq_of_lt (Nat.lt_trans (sVal t).val_lt (by decide))
  rw [hvs, hvt, powMod_eq _ _ _ (by decide : 1 < N)]
  set r := (sVal s).val ^ (sVal t).val % N with hr
  have hrlt : r < N := Nat.mod_lt _ (by decide)
  have hb : IsBytes (i2osp r 32) := i2osp_isBytes _ _
  have hv : os2ip (i2osp r 32) = r := by
    rw [os2ip_i2osp]; exact Nat.mod_eq_of_lt (Nat.lt_trans hrlt (by decide))
  obtain ⟨_, _, h3, _⟩ := sc_decode s (i2osp r 32) hb
  obtain ⟨_, ok, v⟩ := h3 (i2osp_length _ _) (by rw [hv]; exact hrlt)
  refine ⟨ok, ?_⟩
  rw [v, hv, hr, ZMod.natCast_mod, Nat.cast_pow, ZMod.natCast_zmod_val]


end ScalarOps
