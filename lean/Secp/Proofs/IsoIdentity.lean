import Secp.Proofs.IsoCert
import Secp.Proofs.FieldP
import Secp.Spec.Rfc9380
import Mathlib.Tactic.Ring
import Mathlib.Tactic.LinearCombination
/-!
# The 3-isogeny of RFC 9380 E.1 maps the isogenous curve `E'` into secp256k1

Polynomial identity of degree 15 in `x'`, proved over `ℤ` with an explicit multiple of `p` (`IsoCert.Q`, computed
offline, checked here by `ring`) and pushed to `ZMod p`.
-/
open Spec Spec.Rfc9380

def xNumZ (x : Int) : Int := (k13 : Int) * x ^ 3 + (k12 : Int) * x ^ 2 + (k11 : Int) * x + (k10 : Int)
def xDenZ (x : Int) : Int := x ^ 2 + (k21 : Int) * x + (k20 : Int)
def yNumZ (x : Int) : Int := (k33 : Int) * x ^ 3 + (k32 : Int) * x ^ 2 + (k31 : Int) * x + (k30 : Int)
def yDenZ (x : Int) : Int := x ^ 3 + (k42 : Int) * x ^ 2 + (k41 : Int) * x + (k40 : Int)
def gZ (x : Int) : Int := x ^ 3 + (A' : Int) * x + (B' : Int)

theorem iso_identity_int (x : Int) :
    gZ x * yNumZ x ^ 2 * xDenZ x ^ 3 - (xNumZ x ^ 3 + 7 * xDenZ x ^ 3) * yDenZ x ^ 2 = (P : Int) * IsoCert.Q x := by
  unfold gZ yNumZ xDenZ xNumZ yDenZ IsoCert.Q k10 k11 k12 k13 k20 k21 k30 k31 k32 k33 k40 k41 k42 A' B' P
  ring

def xNumF (x : Fp) : Fp := (k13 : Fp) * x ^ 3 + (k12 : Fp) * x ^ 2 + (k11 : Fp) * x + (k10 : Fp)
def xDenF (x : Fp) : Fp := x ^ 2 + (k21 : Fp) * x + (k20 : Fp)
def yNumF (x : Fp) : Fp := (k33 : Fp) * x ^ 3 + (k32 : Fp) * x ^ 2 + (k31 : Fp) * x + (k30 : Fp)
def yDenF (x : Fp) : Fp := x ^ 3 + (k42 : Fp) * x ^ 2 + (k41 : Fp) * x + (k40 : Fp)
def gF (x : Fp) : Fp := x ^ 3 + (A' : Fp) * x + (B' : Fp)

theorem iso_identity (x : Fp) :
    gF x * yNumF x ^ 2 * xDenF x ^ 3 = (xNumF x ^ 3 + 7 * xDenF x ^ 3) * yDenF x ^ 2 := by
  have hx : ((x.val : Int) : Fp) = x := by
    rw [Int.cast_natCast]; exact ZMod.natCast_zmod_val x
  have h := congrArg (Int.cast : Int → Fp) (iso_identity_int (x.val : Int))
  unfold gZ yNumZ xDenZ xNumZ yDenZ at h
  push_cast at h
  rw [ZMod.natCast_self, zero_mul] at h
  simp only [ZMod.natCast_val, ZMod.cast_id', id_eq] at h
  unfold gF yNumF xDenF xNumF yDenF
  linear_combination h

/-- the image of a point of `E'` with non-vanishing denominators satisfies `y² = x³ + 7` -/
theorem iso_on_curve (x y : Fp) (hE : y ^ 2 = gF x) (hx : xDenF x ≠ 0) (hy : yDenF x ≠ 0) :
    (y * (yNumF x / yDenF x)) ^ 2 = (xNumF x / xDenF x) ^ 3 + 7 := by
  have h := iso_identity x
  field_simp
  rw [hE]
  linear_combination h
