import Secp.Proofs.XmdLength
import Secp.Proofs.WideReduceN
/-!
# `HashToScalar` is RFC 9380 `hash_to_field` over the scalar field (C09)
-/
open Spec Spec.Rfc9380

/-- **C09**: for every hash with 32-byte output, every message and every non-empty DST of any length, `HashToScalar`
returns the canonical scalar `OS2IP(expand_message_xmd(H, msg, DST, 48)) mod n`. -/
theorem hashToScalar_spec (H : Bytes → Bytes) (hH : HashOK H) (msg dst : Bytes) (hd : dst ≠ []) :
    ∃ s, Hand.Group.hashToScalar H msg dst = some s ∧ sOk s ∧
      (sVal s).val = Rfc9380.hashToScalar H msg dst := by
  unfold Hand.Group.hashToScalar
  rw [expandXMD_eq H msg dst 48 hd (by decide)]
  obtain ⟨l, b⟩ := expand_length H hH msg dst 48
  obtain ⟨ok, v⟩ := fn_hashToField _ b l
  refine ⟨_, rfl, ok, ?_⟩
  rw [v, ZMod.val_natCast]
  unfold Rfc9380.hashToScalar hashToField
  simp only [List.range_one, List.map_cons, List.map_nil, Nat.mul_zero, List.drop_zero, Nat.one_mul]
  have : (expandMessageXmd H msg dst 48).take 48 = expandMessageXmd H msg dst 48 :=
    List.take_of_length_le (by rw [l])
  rw [this]

theorem hashToScalar_empty_dst (H : Bytes → Bytes) (msg : Bytes) : Hand.Group.hashToScalar H msg [] = none := by
  unfold Hand.Group.hashToScalar; rw [expandXMD_empty]; rfl
