import Secp.Proofs.Xmd
import Secp.Proofs.WideReduce
/-!
# `HashToScalar` is RFC 9380 `hash_to_field` over the scalar field (C09)
-/
open Spec Spec.Rfc9380

/-- what the theorems assume of the hash parameter: 32-byte outputs -/
structure HashOK (H : Bytes → Bytes) : Prop where
  len : ∀ m, (H m).length = 32
  bytes : ∀ m, IsBytes (H m)

theorem xmdBlocks_length (H : Bytes → Bytes) (hH : HashOK H) (b0 dstP : Bytes) (k i : Nat) (prev : Bytes) :
    ((xmdBlocks H b0 dstP k i prev).flatten).length = 32 * k ∧ IsBytes (xmdBlocks H b0 dstP k i prev).flatten := by
  induction k generalizing i prev with
  | zero => simp [xmdBlocks, IsBytes]
  | succ k ih =>
    unfold xmdBlocks
    simp only [List.flatten_cons, List.length_append]
    obtain ⟨l, b⟩ := ih (i + 1) (H (strxor b0 prev ++ i2osp i 1 ++ dstP))
    exact ⟨by rw [hH.len, l]; ring, isBytes_append (hH.bytes _) b⟩

/-- the expander delivers exactly `len` bytes (for the lengths the RFC allows) -/
theorem expand_length (H : Bytes → Bytes) (hH : HashOK H) (msg dst : Bytes) (len : Nat) :
    (expandMessageXmd H msg dst len).length = len ∧ IsBytes (expandMessageXmd H msg dst len) := by
  unfold expandMessageXmd
  simp only
  set b0 := H (List.replicate 64 0 ++ msg ++ i2osp len 2 ++ i2osp 0 1 ++ (vetDST H dst ++ i2osp (vetDST H dst).length 1))
  set b1 := H (b0 ++ i2osp 1 1 ++ (vetDST H dst ++ i2osp (vetDST H dst).length 1))
  obtain ⟨l, b⟩ := xmdBlocks_length H hH b0 (vetDST H dst ++ i2osp (vetDST H dst).length 1) ((len + 31) / 32 - 1) 2 b1
  constructor
  · rw [List.length_take, List.length_append, hH.len, l]
    omega
  · intro x hx
    exact isBytes_append (hH.bytes _) b x (List.mem_of_mem_take hx)

/-- **C09**: for every hash with 32-byte output, every message and every non-empty DST of any length, `HashToScalar`
returns the canonical scalar `OS2IP(expand_message_xmd(H, msg, DST, 48)) mod n`. -/
theorem hashToScalar_spec (H : Bytes → Bytes) (hH : HashOK H) (msg dst : Bytes) (hd : dst ≠ []) :
    ∃ s, Hand.Group.hashToScalar H msg dst = some s ∧ sOk s ∧
      (sVal s).val = Rfc9380.hashToScalar H msg dst := by
  unfold Hand.Group.hashToScalar
  rw [expandXMD_eq H msg dst 48 hd (by decide)]
  obtain ⟨l, b⟩ := expand_length H hH msg dst 48
  obtain ⟨ok, v⟩ := fn_hashToField _ b l
  refine ⟨_, rfl, ok, ?_⟩
  rw [v, ZMod.val_natCast]
  unfold Rfc9380.hashToScalar hashToField
  simp only [List.range_one, List.map_cons, List.map_nil, Nat.mul_zero, List.drop_zero, Nat.one_mul]
  have : (expandMessageXmd H msg dst 48).take 48 = expandMessageXmd H msg dst 48 :=
    List.take_of_length_le (by rw [l])
  rw [this]

theorem hashToScalar_empty_dst (H : Bytes → Bytes) (msg : Bytes) : Hand.Group.hashToScalar H msg [] = none := by
  unfold Hand.Group.hashToScalar; rw [expandXMD_empty]; rfl
