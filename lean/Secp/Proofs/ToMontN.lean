import Secp.Proofs.ToMont
import Secp.Proofs.FromMontN
/-! # `ToMont`: the scalar-field instances (regenerated `FiatScalar` code) -/

theorem toMont_tie_n (x : L4) : FiatScalar.toMontgomery x = refToMontN Mn R2n x := by
  unfold FiatScalar.toMontgomery refToMontN condSub redStep add5c addShift mulRow Mn R2n
  simp only [cmov_tie_n]

theorem scalarToMont_correct (x : L4) (hx : x.ok) :
    (FiatScalar.toMontgomery x).ok ∧ (FiatScalar.toMontgomery x).eval < Nnat ∧
    ((FiatScalar.toMontgomery x).eval * W^4) % Nnat = (x.eval * R2nNat) % Nnat := by
  rw [toMont_tie_n, ← R2n_eq, ← Mn_val]
  exact refToMontN_correct Mn Mn_valid Mn_lt R2n (by decide) (by decide) (by decide) x hx
