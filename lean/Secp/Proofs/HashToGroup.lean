import Secp.Proofs.PaddBridge
import Secp.Proofs.XmdLength
import Secp.Proofs.WideReduceP
/-!
# `HashToGroup` / `EncodeToGroup` are RFC 9380 `hash_to_curve` / `encode_to_curve` (C08)
-/
open Spec Spec.Rfc9380 WeierstrassCurve

section generic
variable {α : Type} {F : FieldOps α} (L : Lawful F Fp)

/-- the abstract point of a valid element is a specification point -/
theorem affPtG_specPt (P : Pt α) (hP : PtValid L P) : SpecPt (affPtG L P) := by
  by_cases hz : L.val P.z = 0
  · have : affPtG L P = none := by unfold affPtG; rw [if_pos hz]
    rw [this]; trivial
  · have : affPtG L P = some ((L.val P.x / L.val P.z).val, (L.val P.y / L.val P.z).val) := by
      unfold affPtG; rw [if_neg hz]
    rw [this]
    refine ⟨ZMod.val_lt _, ZMod.val_lt _, ?_⟩
    rw [ZMod.natCast_zmod_val, ZMod.natCast_zmod_val]
    exact aff_eq (vpt L P) hP.2 hz

/-- the group element of a valid triple is the one denoted by its abstract affine point -/
theorem toGp_eq_iota (P : Pt α) (hP : PtValid L P) : toGp L curveOK_Fp P = iota (affPtG L P) := by
  by_cases hz : L.val P.z = 0
  · have e1 : affPtG L P = none := by unfold affPtG; rw [if_pos hz]
    have e2 : toGp L curveOK_Fp P = 0 := by unfold toGp toG; rw [if_pos (show (vpt L P).z = 0 from hz)]
    rw [e1, e2]; rfl
  · have e1 : affPtG L P = some ((L.val P.x / L.val P.z).val, (L.val P.y / L.val P.z).val) := by
      unfold affPtG; rw [if_neg hz]
    have e2 : toGp L curveOK_Fp P = mkPt 7 curveOK_Fp (L.val P.x / L.val P.z) (L.val P.y / L.val P.z) := by
      unfold toGp toG; rw [if_neg (show ¬ (vpt L P).z = 0 from hz)]; rfl
    rw [e1, e2]
    show _ = mkPt 7 curveOK_Fp _ _
    rw [ZMod.natCast_zmod_val, ZMod.natCast_zmod_val]

/-- the abstract point of a sum computed by `Add` is the specification's affine sum -/
theorem add_affPtG (hc : CurveConsts L) (P Q : Pt α) (hP : PtValid L P) (hQ : PtValid L Q) :
    PtValid L (Hand.Element.add F P (some Q)) ∧
    affPtG L (Hand.Element.add F P (some Q)) = padd (affPtG L P) (affPtG L Q) := by
  obtain ⟨hv, hg⟩ := add_correct L curveOK_Fp hc P Q hP hQ
  refine ⟨hv, ?_⟩
  have sP := affPtG_specPt L P hP
  have sQ := affPtG_specPt L Q hQ
  obtain ⟨sS, hS⟩ := padd_spec _ _ sP sQ
  apply iota_inj _ _ (affPtG_specPt L _ hv) sS
  rw [← toGp_eq_iota L _ hv, hg, toGp_eq_iota L P hP, toGp_eq_iota L Q hQ, hS]

/-- **the core of `HashToGroup`**: two field elements mapped and added = the sum of their `map_to_curve` images -/
theorem hashToGroupCore_spec (hcc : CurveConsts L) (hc : SwConsts L) (hq : SqrtConsts L) (hs : SgnLaw L) (hk : IsoConsts L)
    (u0 u1 : α) (h0 : L.ok u0) (h1 : L.ok u1) :
    PtValid L (Hand.Group.hashToGroupCore F u0 u1) ∧
    affPtG L (Hand.Group.hashToGroupCore F u0 u1) = padd (mapToCurve (L.val u0).val) (mapToCurve (L.val u1).val) := by
  obtain ⟨v0, a0⟩ := map_to_curve_generic L hcc hc hq hs hk u0 h0
  obtain ⟨v1, a1⟩ := map_to_curve_generic L hcc hc hq hs hk u1 h1
  unfold Hand.Group.hashToGroupCore Hand.Group.encodeToGroupCore
  obtain ⟨hv, ha⟩ := add_affPtG L hcc _ _ v0 v1
  exact ⟨hv, by rw [ha, a0, a1]⟩

theorem encodeToGroupCore_spec (hcc : CurveConsts L) (hc : SwConsts L) (hq : SqrtConsts L) (hs : SgnLaw L) (hk : IsoConsts L)
    (u0 : α) (h0 : L.ok u0) :
    PtValid L (Hand.Group.encodeToGroupCore F u0) ∧
    affPtG L (Hand.Group.encodeToGroupCore F u0) = mapToCurve (L.val u0).val :=
  map_to_curve_generic L hcc hc hq hs hk u0 h0

end generic

/-- the 48-byte chunk of the expander output as a field element: canonical, value `OS2IP mod p` -/
theorem h2f_val (b : Bytes) (hb : IsBytes b) (hl : b.length = 48) :
    limbOk (Hand.Fp.hashToFieldElement b) ∧ (limbVal (Hand.Fp.hashToFieldElement b)).val = os2ip b % P := by
  obtain ⟨ok, v⟩ := fp_hashToField b hb hl
  exact ⟨ok, by rw [v, ZMod.val_natCast]⟩

/-- body of `EncodeToGroup` on a 48-byte uniform string -/
theorem encodeToGroupFromUniform_spec (u : Bytes) (hb : IsBytes u) (hl : u.length = 48) :
    PtValid limbLawful (Hand.Group.encodeToGroupFromUniform u) ∧
    affPtG limbLawful (Hand.Group.encodeToGroupFromUniform u) = mapToCurve (os2ip u % P) := by
  have ht : u.take 48 = u := List.take_of_length_le (by rw [hl])
  obtain ⟨ok, v⟩ := h2f_val u hb hl
  have h := encodeToGroupCore_spec limbLawful limb_curveConsts limb_swConsts limb_sqrtConsts limb_sgnLaw limb_isoConsts
    (Hand.Fp.hashToFieldElement (u.take 48)) (by rw [ht]; exact ok)
  have hval : (limbLawful.val (Hand.Fp.hashToFieldElement (u.take 48))).val = os2ip u % P := by rw [ht]; exact v
  rw [hval] at h
  exact h

/-- body of `HashToGroup` on a 96-byte uniform string -/
theorem hashToGroupFromUniform_spec (u : Bytes) (hb : IsBytes u) (hl : u.length = 96) :
    PtValid limbLawful (Hand.Group.hashToGroupFromUniform u) ∧
    affPtG limbLawful (Hand.Group.hashToGroupFromUniform u) =
      padd (mapToCurve (os2ip (u.take 48) % P)) (mapToCurve (os2ip ((u.drop 48).take 48) % P)) := by
  have hb0 : IsBytes (u.take 48) := fun x hx => hb x (List.mem_of_mem_take hx)
  have hb1 : IsBytes ((u.drop 48).take 48) := fun x hx => hb x (List.mem_of_mem_drop (List.mem_of_mem_take hx))
  have l0 : (u.take 48).length = 48 := by simp [hl]
  have l1 : ((u.drop 48).take 48).length = 48 := by simp [hl]
  obtain ⟨ok0, v0⟩ := h2f_val _ hb0 l0
  obtain ⟨ok1, v1⟩ := h2f_val _ hb1 l1
  have h := hashToGroupCore_spec limbLawful limb_curveConsts limb_swConsts limb_sqrtConsts limb_sgnLaw limb_isoConsts
    _ _ ok0 ok1
  have e0 : (limbLawful.val (Hand.Fp.hashToFieldElement (u.take 48))).val = os2ip (u.take 48) % P := v0
  have e1 : (limbLawful.val (Hand.Fp.hashToFieldElement ((u.drop 48).take 48))).val = os2ip ((u.drop 48).take 48) % P := v1
  rw [e0, e1] at h
  exact h

/-- **EncodeToGroup** = `encode_to_curve` -/
theorem encodeToGroup_spec (H : Bytes → Bytes) (hH : HashOK H) (msg dst : Bytes) (hd : dst ≠ []) :
    ∃ R, Hand.Group.encodeToGroup H msg dst = some R ∧ PtValid limbLawful R ∧
      affPtG limbLawful R = encodeToCurve H msg dst := by
  unfold Hand.Group.encodeToGroup
  rw [expandXMD_eq H msg dst 48 hd (by decide)]
  obtain ⟨l, b⟩ := expand_length H hH msg dst 48
  obtain ⟨hv, ha⟩ := encodeToGroupFromUniform_spec _ b l
  refine ⟨_, rfl, hv, ?_⟩
  rw [ha]
  unfold encodeToCurve hashToField
  simp only [List.range_one, List.map_cons, List.map_nil, Nat.mul_zero, List.drop_zero, Nat.one_mul]
  have : (expandMessageXmd H msg dst 48).take 48 = expandMessageXmd H msg dst 48 :=
    List.take_of_length_le (by rw [l])
  rw [this]

/-- **HashToGroup** = `hash_to_curve` -/
theorem hashToGroup_spec (H : Bytes → Bytes) (hH : HashOK H) (msg dst : Bytes) (hd : dst ≠ []) :
    ∃ R, Hand.Group.hashToGroup H msg dst = some R ∧ PtValid limbLawful R ∧
      affPtG limbLawful R = hashToCurve H msg dst := by
  unfold Hand.Group.hashToGroup
  rw [expandXMD_eq H msg dst 96 hd (by decide)]
  obtain ⟨l, b⟩ := expand_length H hH msg dst 96
  obtain ⟨hv, ha⟩ := hashToGroupFromUniform_spec _ b l
  refine ⟨_, rfl, hv, ?_⟩
  rw [ha]
  unfold hashToCurve hashToField
  have hr : List.range 2 = [0, 1] := by decide
  simp only [hr, List.map_cons, List.map_nil, Nat.mul_zero, List.drop_zero, Nat.mul_one]
