import Secp.FieldOps
import Mathlib.Algebra.Field.Basic
/-!
# Laws of a field-operations record

`Lawful F K` says that the record `F : FieldOps α` implements the field `K`: there is a set of canonical
representations `ok`, an abstraction `val : α → K` that is injective on canonical values, and every
operation preserves canonicity and commutes with `val`. The curve-level theorems are proved for every lawful
record; `Secp.Proofs.LimbLawful` shows that the limb implementation generated from the Go code is one.
-/

structure Lawful {α : Type} (F : FieldOps α) (K : Type) [Field K] where
  ok : α → Prop
  val : α → K
  val_inj : ∀ {a b}, ok a → ok b → val a = val b → a = b
  ok_zero : ok F.zero
  val_zero : val F.zero = 0
  ok_one : ok F.one
  val_one : val F.one = 1
  ok_add : ∀ {a b}, ok a → ok b → ok (F.add a b)
  val_add : ∀ {a b}, ok a → ok b → val (F.add a b) = val a + val b
  ok_sub : ∀ {a b}, ok a → ok b → ok (F.sub a b)
  val_sub : ∀ {a b}, ok a → ok b → val (F.sub a b) = val a - val b
  ok_mul : ∀ {a b}, ok a → ok b → ok (F.mul a b)
  val_mul : ∀ {a b}, ok a → ok b → val (F.mul a b) = val a * val b
  ok_neg : ∀ {a}, ok a → ok (F.neg a)
  val_neg : ∀ {a}, ok a → val (F.neg a) = - val a
  ok_square : ∀ {a}, ok a → ok (F.square a)
  val_square : ∀ {a}, ok a → val (F.square a) = val a * val a
  cmove_zero : ∀ {u v : α}, ok u → ok v → F.cmove 0 u v = u
  cmove_one : ∀ {u v : α}, ok u → ok v → F.cmove 1 u v = v
  isZero_of_eq : ∀ {a}, ok a → val a = 0 → F.isZero a = 1
  isZero_of_ne : ∀ {a}, ok a → val a ≠ 0 → F.isZero a = 0
  equals_of_eq : ∀ {a b}, ok a → ok b → val a = val b → F.equals a b = 1
  equals_of_ne : ∀ {a b}, ok a → ok b → val a ≠ val b → F.equals a b = 0

namespace Lawful
variable {α : Type} {F : FieldOps α} {K : Type} [Field K] (L : Lawful F K)

theorem ok_cmove {c : Nat} (hc : c = 0 ∨ c = 1) {u v : α} (hu : L.ok u) (hv : L.ok v) : L.ok (F.cmove c u v) := by
  rcases hc with rfl | rfl
  · rw [L.cmove_zero hu hv]; exact hu
  · rw [L.cmove_one hu hv]; exact hv

theorem isZero_bit {a : α} (h : L.ok a) : F.isZero a = 0 ∨ F.isZero a = 1 := by
  by_cases e : L.val a = 0
  · right; exact L.isZero_of_eq h e
  · left; exact L.isZero_of_ne h e

theorem equals_bit {a b : α} (ha : L.ok a) (hb : L.ok b) : F.equals a b = 0 ∨ F.equals a b = 1 := by
  by_cases e : L.val a = L.val b
  · right; exact L.equals_of_eq ha hb e
  · left; exact L.equals_of_ne ha hb e

theorem isZero_eq_one_iff {a : α} (h : L.ok a) : F.isZero a = 1 ↔ L.val a = 0 := by
  constructor
  · intro e; by_contra hne; rw [L.isZero_of_ne h hne] at e; exact absurd e (by decide)
  · exact L.isZero_of_eq h

theorem equals_eq_one_iff {a b : α} (ha : L.ok a) (hb : L.ok b) : F.equals a b = 1 ↔ L.val a = L.val b := by
  constructor
  · intro e; by_contra hne; rw [L.equals_of_ne ha hb hne] at e; exact absurd e (by decide)
  · exact L.equals_of_eq ha hb

theorem ok_sqn {a : α} (h : L.ok a) (k : Nat) : L.ok (FieldOps.sqn F k a) := by
  induction k generalizing a with
  | zero => exact h
  | succ k ih => exact ih (L.ok_square h)

theorem val_sqn {a : α} (h : L.ok a) (k : Nat) : L.val (FieldOps.sqn F k a) = L.val a ^ (2 ^ k) := by
  induction k generalizing a with
  | zero => simp [FieldOps.sqn]
  | succ k ih =>
    rw [FieldOps.sqn, ih (L.ok_square h), L.val_square h, ← pow_two, ← pow_mul]
    congr 1
    exact (Nat.pow_succ').symm

end Lawful
