import Secp.Hand.Group
import Secp.Spec.Rfc9380
import Secp.Proofs.BytesLemmas
/-!
# `expandXMD` (the code's expander, as modelled in `Hand.Group`) is RFC 9380 `expand_message_xmd`
for every hash function `H`, every message, every non-empty DST of any length (oversize rule included) and
every requested length.
-/
open Spec Spec.Rfc9380

theorem i2osp_one (v : Nat) : i2osp v 1 = [v % 256] := by simp [i2osp]
theorem i2osp_two (v : Nat) : i2osp v 2 = [v / 256 % 256, v % 256] := by
  simp [i2osp, List.range_succ]

theorem hand_i2osp1 (v : Nat) : (Hand.Group.i2osp1 v).headD 0 = v % 256 := by
  unfold Hand.Group.i2osp1
  rw [i2osp_two]
  simp only [List.drop_succ_cons, List.drop_zero, List.headD_cons]
  omega

theorem hand_i2osp2 (v : Nat) : Hand.Group.i2osp2 v = i2osp v 2 := by
  unfold Hand.Group.i2osp2
  rw [i2osp_two, i2osp_two]
  congr 1
  · omega
  · congr 1; omega

theorem vetDST_eq (H : Bytes → Bytes) (dst : Bytes) :
    Hand.Group.vetDSTXMD H dst = vetDST H dst ++ i2osp (vetDST H dst).length 1 := by
  unfold Hand.Group.vetDSTXMD vetDST Hand.Group.dstLongPrefix
  simp only
  rw [hand_i2osp1, i2osp_one]

theorem xor_comm_zip (a b : Bytes) : Hand.Group.xorSlices a b = strxor b a := by
  unfold Hand.Group.xorSlices strxor
  induction a generalizing b with
  | nil => cases b <;> simp
  | cons x xs ih =>
    cases b with
    | nil => simp
    | cons y ys =>
      simp only [List.zipWith_cons_cons]
      rw [ih]
      have : x.xor y = y.xor x := Nat.xor_comm x y
      rw [this]

theorem xmdLoop_eq (H : Bytes → Bytes) (b0 dstP : Bytes) (k i : Nat) (bi acc : Bytes) (hi : i + k ≤ 256) :
    Hand.Group.xmdLoop H b0 dstP k i bi acc = acc ++ (xmdBlocks H b0 dstP k i bi).flatten := by
  induction k generalizing i bi acc with
  | zero => simp [Hand.Group.xmdLoop, xmdBlocks]
  | succ k ih =>
    unfold Hand.Group.xmdLoop xmdBlocks
    simp only [List.flatten_cons]
    have hlt : i < 256 := by omega
    rw [ih (i + 1) _ _ (by omega), xor_comm_zip, i2osp_one, Nat.mod_eq_of_lt hlt, List.append_assoc]

/-- **`expandXMD` = `expand_message_xmd`** (lengths up to 255 blocks, the RFC's own bound `ell ≤ 255`) -/
theorem expandXMD_eq (H : Bytes → Bytes) (msg dst : Bytes) (len : Nat) (hd : dst ≠ []) (hlen : (len + 31) / 32 ≤ 255) :
    Hand.Group.expandXMD H msg dst len = some (expandMessageXmd H msg dst len) := by
  unfold Hand.Group.expandXMD expandMessageXmd Hand.Group.xmd
  have h0 : ¬ dst.length = 0 := by
    intro h; exact hd (List.length_eq_zero_iff.mp h)
  simp only [h0, if_false]
  rw [vetDST_eq, hand_i2osp2]
  congr 1
  rw [xmdLoop_eq _ _ _ _ _ _ _ (by omega)]
  simp [i2osp_one]

/-- an empty (or nil) DST makes the code panic instead of hashing -/
theorem expandXMD_empty (H : Bytes → Bytes) (msg : Bytes) (len : Nat) : Hand.Group.expandXMD H msg [] len = none := by
  unfold Hand.Group.expandXMD; simp
