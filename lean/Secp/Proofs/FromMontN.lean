import Secp.Proofs.FromMont
import Secp.Proofs.FieldLimbN
/-! # `FromMont`: the scalar-field instances (regenerated `FiatScalar` code) -/

theorem fromMont_tie_n (x : L4) : FiatScalar.fromMontgomery x = refFromMont Mn x := by
  unfold FiatScalar.fromMontgomery refFromMont condSub redStep add4c addShift mulRow Mn
  simp only [cmov_tie_n]

theorem scalarFromMont_correct (x : L4) (hx : x.ok) :
    (FiatScalar.fromMontgomery x).ok ∧ (FiatScalar.fromMontgomery x).eval < Nnat ∧
    ((FiatScalar.fromMontgomery x).eval * W^4) % Nnat = x.eval % Nnat := by
  rw [fromMont_tie_n, ← Mn_val]
  exact refFromMont_correct Mn Mn_valid Mn_lt (by decide) x hx
