import Secp.Proofs.DecodeRT
import Secp.Proofs.Equal
import Secp.Proofs.HistoryLemmas
import Secp.Proofs.ScalarEnc
import Secp.Proofs.Fermat
import Secp.Hand.History
import Secp.Proofs.ScalarOpsSpec
import Secp.Proofs.HashToGroup
import Secp.Proofs.HashToScalar
import Mathlib.Data.List.GetD
/-!
# C10: every step of the concrete machine refines the abstract machine
-/
open Spec Spec.Rfc9380 Hand.History

noncomputable section

/-- the invariant of the concrete pools: every element is a valid projective point, every scalar canonical -/
def HInv (s : CState) : Prop := (∀ p ∈ s.el, VP p) ∧ (∀ x ∈ s.sc, sOk x)

/-- abstraction: affine point / canonical integer of every variable -/
def absS (s : CState) : AState := ⟨s.el.map aP, s.sc.map (fun x => (sVal x).val)⟩

/-- well-formed operations: byte strings are byte strings, `SetUInt64` gets a 64-bit value -/
def WfOp : Op → Prop
  | .dec _ b => IsBytes b
  | .sdec _ b => IsBytes b
  | .ssetu _ v => v < W
  | _ => True

theorem idC_valid : VP idC := identity_valid limbLawful
theorem aP_idC : aP idC = none := aP_identity

theorem getE_valid (s : CState) (h : HInv s) (i : Nat) : VP (getE s i) := by
  unfold getE
  rw [List.getD_eq_getElem?_getD]
  cases hi : s.el[i]? with
  | none => exact idC_valid
  | some p => exact h.1 p (List.mem_of_getElem? hi)

theorem getS_ok (s : CState) (h : HInv s) (i : Nat) : sOk (getS s i) := by
  unfold getS
  rw [List.getD_eq_getElem?_getD]
  cases hi : s.sc[i]? with
  | none => exact sZero_ok
  | some p => exact h.2 p (List.mem_of_getElem? hi)

theorem agetE_abs (s : CState) (i : Nat) : agetE (absS s) i = aP (getE s i) := by
  unfold agetE getE absS
  simp only
  rw [← aP_idC, List.getD_map]

theorem agetS_abs (s : CState) (i : Nat) : agetS (absS s) i = (sVal (getS s i)).val := by
  unfold agetS getS absS
  simp only
  have : (0 : Nat) = (sVal Hand.Scalar.zero).val := by
    have e : sVal Hand.Scalar.zero = 0 := sVal_zero
    rw [e]; rfl
  rw [this, List.getD_map (f := fun x => (sVal x).val)]

theorem el_step (s : CState) (i : Nat) (v : Pt L4) (w : APoint) (hI : HInv s) (hv : VP v) (hw : aP v = w) :
    HInv (setE s i v) ∧ absS (setE s i v) = asetE (absS s) i w := by
  refine ⟨⟨?_, hI.2⟩, ?_⟩
  · intro p hp
    rcases List.mem_or_eq_of_mem_set hp with h | h
    · exact hI.1 p h
    · rw [h]; exact hv
  · unfold absS setE asetE
    simp only [List.map_set, hw]

theorem sc_step (s : CState) (i : Nat) (v : L4) (w : Nat) (hI : HInv s) (hv : sOk v) (hw : (sVal v).val = w) :
    HInv (setS s i v) ∧ absS (setS s i v) = asetS (absS s) i w := by
  refine ⟨⟨hI.1, ?_⟩, ?_⟩
  · intro p hp
    rcases List.mem_or_eq_of_mem_set hp with h | h
    · exact hI.2 p h
    · rw [h]; exact hv
  · unfold absS setS asetS
    simp only [List.map_set, hw]

/-! value lemmas in `ZMod N` -/
theorem val_sub_N (a b : ZMod N) : (a - b).val = (a.val + N - b.val) % N := by
  have hb : b.val ≤ a.val + N := by have := b.val_lt; omega
  have : a - b = ((a.val + N - b.val : Nat) : ZMod N) := by
    rw [Nat.cast_sub hb, Nat.cast_add, ZMod.natCast_self, ZMod.natCast_zmod_val, ZMod.natCast_zmod_val, add_zero]
  rw [this, ZMod.val_natCast]

theorem val_pow_N (a : ZMod N) (e : Nat) : (a ^ e).val = powMod a.val e N := by
  rw [powMod_eq _ _ _ (by decide : 1 < N)]
  have : a ^ e = ((a.val ^ e : Nat) : ZMod N) := by rw [Nat.cast_pow, ZMod.natCast_zmod_val]
  rw [this, ZMod.val_natCast]

theorem val_inv_N (a : ZMod N) : (a⁻¹).val = powMod a.val (N - 2) N := by
  rw [← zmod_pow_sub_two N (by decide) a, val_pow_N]

theorem sc_decode_toobig (r : L4) (b : Bytes) (hb : IsBytes b) (h32 : b.length = 32) (hge : ¬ os2ip b < N) :
    (Hand.Scalar.decode r b).1 = some .scalarTooBig ∧ sOk (Hand.Scalar.decode r b).2 ∧
    sVal (Hand.Scalar.decode r b).2 = ((os2ip b : Nat) : ZMod N) := by
  obtain ⟨ok, v, fl⟩ := reduceBytes_spec b h32 hb
  unfold Hand.Scalar.decode
  have e32 : (32 : Nat) = 0 ↔ False := by decide
  simp only [h32, e32, if_false, ne_eq, not_true_eq_false]
  rw [fl, if_neg hge]
  simp only [if_true]
  exact ⟨trivial, ok, v⟩

end

noncomputable section

/-- what a step must establish -/
def StepOK (H : Bytes → Bytes) (s : CState) (op : Op) : Prop :=
  HInv (cstep H s op).1 ∧ absS (cstep H s op).1 = (astep H (absS s) op).1 ∧ (cstep H s op).2 = (astep H (absS s) op).2

theorem stepOK_el (H : Bytes → Bytes) (s : CState) (op : Op) (i : Nat) (v : Pt L4) (w : APoint)
    (hc : cstep H s op = (setE s i v, "")) (ha : astep H (absS s) op = (asetE (absS s) i w, ""))
    (hI : HInv s) (hv : VP v) (hw : aP v = w) : StepOK H s op := by
  unfold StepOK
  rw [hc, ha]
  obtain ⟨h1, h2⟩ := el_step s i v w hI hv hw
  exact ⟨h1, h2, rfl⟩

theorem stepOK_sc (H : Bytes → Bytes) (s : CState) (op : Op) (i : Nat) (v : L4) (w : Nat)
    (hc : cstep H s op = (setS s i v, "")) (ha : astep H (absS s) op = (asetS (absS s) i w, ""))
    (hI : HInv s) (hv : sOk v) (hw : (sVal v).val = w) : StepOK H s op := by
  unfold StepOK
  rw [hc, ha]
  obtain ⟨h1, h2⟩ := sc_step s i v w hI hv hw
  exact ⟨h1, h2, rfl⟩

theorem stepOK_noop (H : Bytes → Bytes) (s : CState) (op : Op) (t : String)
    (hc : cstep H s op = (s, t)) (ha : astep H (absS s) op = (absS s, t)) (hI : HInv s) : StepOK H s op := by
  unfold StepOK
  rw [hc, ha]
  exact ⟨hI, rfl, rfl⟩

theorem setE_self (s : CState) (i : Nat) : HInv s → HInv (setE s i (getE s i)) ∧ absS (setE s i (getE s i)) = asetE (absS s) i (aP (getE s i)) :=
  fun hI => el_step s i _ _ hI (getE_valid s hI i) rfl

theorem abs_setE_self (s : CState) (i : Nat) : absS (setE s i (getE s i)) = absS s := by
  unfold absS setE getE
  simp only
  congr 1
  rw [List.getD_eq_getElem?_getD]
  cases hi : s.el[i]? with
  | none =>
    have : s.el.length ≤ i := by
      rcases Nat.lt_or_ge i s.el.length with h | h
      · rw [List.getElem?_eq_getElem h] at hi; exact absurd hi (by simp)
      · exact h
    rw [List.set_eq_of_length_le this]
  | some p =>
    simp only [Option.getD_some]
    have hlt : i < s.el.length := by
      rcases Nat.lt_or_ge i s.el.length with h | h
      · exact h
      · rw [List.getElem?_eq_none h] at hi; exact absurd hi (by simp)
    have : s.el.set i p = s.el := by
      apply List.ext_getElem?
      intro k
      rw [List.getElem?_set]
      by_cases hk : i = k
      · subst hk
        rw [List.getElem?_eq_getElem hlt] at hi
        simp [hlt]; exact (Option.some.inj hi).symm
      · simp [hk]
    rw [this]

/-- an operation that rewrites the receiver with its own value (`Subtract(nil)`, a rejected `Decode`) -/
theorem stepOK_self (H : Bytes → Bytes) (s : CState) (op : Op) (i : Nat) (t : String)
    (hc : cstep H s op = (setE s i (getE s i), t)) (ha : astep H (absS s) op = (absS s, t)) (hI : HInv s) : StepOK H s op := by
  unfold StepOK
  rw [hc, ha]
  exact ⟨(setE_self s i hI).1, abs_setE_self s i, rfl⟩

theorem abs_setS_self (s : CState) (i : Nat) : absS (setS s i (getS s i)) = absS s := by
  unfold absS setS getS
  simp only
  congr 1
  rw [List.getD_eq_getElem?_getD]
  cases hi : s.sc[i]? with
  | none =>
    have : s.sc.length ≤ i := by
      rcases Nat.lt_or_ge i s.sc.length with h | h
      · rw [List.getElem?_eq_getElem h] at hi; exact absurd hi (by simp)
      · exact h
    rw [List.set_eq_of_length_le this]
  | some p =>
    simp only [Option.getD_some]
    have hlt : i < s.sc.length := by
      rcases Nat.lt_or_ge i s.sc.length with h | h
      · exact h
      · rw [List.getElem?_eq_none h] at hi; exact absurd hi (by simp)
    have : s.sc.set i p = s.sc := by
      apply List.ext_getElem?
      intro k
      rw [List.getElem?_set]
      by_cases hk : i = k
      · subst hk
        rw [List.getElem?_eq_getElem hlt] at hi
        simp [hlt]; exact (Option.some.inj hi).symm
      · simp [hk]
    rw [this]

theorem stepOK_selfS (H : Bytes → Bytes) (s : CState) (op : Op) (i : Nat) (t : String)
    (hc : cstep H s op = (setS s i (getS s i), t)) (ha : astep H (absS s) op = (absS s, t)) (hI : HInv s) : StepOK H s op := by
  unfold StepOK
  rw [hc, ha]
  exact ⟨(sc_step s i _ _ hI (getS_ok s hI i) rfl).1, abs_setS_self s i, rfl⟩

theorem sc_pow (s t : L4) (hs : sOk s) (ht : sOk t) :
    sOk (Hand.Scalar.pow s (some t)) ∧ sVal (Hand.Scalar.pow s (some t)) = sVal s ^ (sVal t).val := by
  by_cases h0 : sVal t = 0
  · rw [ScalarOps.pow_zero s t ht h0, h0]
    exact ⟨sOne_ok, by rw [show sVal Hand.Scalar.one = 1 from sVal_one]; simp⟩
  · by_cases h1 : sVal t = 1
    · have hz : Hand.Scalar.isZero t = false := by
        cases h : Hand.Scalar.isZero t
        · rfl
        · exact absurd ((sc_isZero_iff t ht).mp h) h0
      have e : Hand.Scalar.pow s (some t) = s := by
        unfold Hand.Scalar.pow
        simp only [hz, Bool.false_eq_true, if_false]
        rw [if_pos ((sc_isOne_iff t ht).mpr h1)]
      rw [e, h1, ZMod.val_one N, pow_one]
      exact ⟨hs, rfl⟩
    · exact ScalarOps.pow_general s t hs ht h0 h1

theorem val_sZero : (sVal Hand.Scalar.zero).val = 0 := by
  rw [show sVal Hand.Scalar.zero = 0 from sVal_zero]; rfl
theorem val_sOne : (sVal Hand.Scalar.one).val = 1 := by
  rw [show sVal Hand.Scalar.one = 1 from sVal_one]; exact ZMod.val_one N

theorem step_refines (H : Bytes → Bytes) (hH : HashOK H) (s : CState) (op : Op) (hI : HInv s) (hop : WfOp op) :
    StepOK H s op := by
  cases op with
  | base i => exact stepOK_el H s _ i _ _ rfl rfl hI aP_base.1 aP_base.2
  | identity i => exact stepOK_el H s _ i _ _ rfl rfl hI idC_valid aP_idC
  | set i j => exact stepOK_el H s _ i _ _ rfl rfl hI (getE_valid s hI j) (agetE_abs s j).symm
  | copy i j => exact stepOK_el H s _ i _ _ rfl rfl hI (getE_valid s hI j) (agetE_abs s j).symm
  | add i j =>
    cases j with
    | none => exact stepOK_noop H s _ "" rfl rfl hI
    | some j =>
      by_cases hij : i = j
      · subst hij
        obtain ⟨hv, hw⟩ := aP_addSelf (getE s i) (getE_valid s hI i)
        refine stepOK_el H s _ i (Hand.Element.addSelf F (getE s i)) _ ?_ rfl hI hv ?_
        · show (setE s i (if i = i then _ else _), "") = _
          rw [if_pos rfl]
        · rw [agetE_abs]; exact hw
      · obtain ⟨hv, hw⟩ := aP_add (getE s i) (getE s j) (getE_valid s hI i) (getE_valid s hI j)
        refine stepOK_el H s _ i (Hand.Element.add F (getE s i) (some (getE s j))) _ ?_ rfl hI hv ?_
        · show (setE s i (if i = j then _ else _), "") = _
          rw [if_neg hij]
        · rw [agetE_abs, agetE_abs]; exact hw
  | dbl i =>
    obtain ⟨hv, hw⟩ := aP_double (getE s i) (getE_valid s hI i)
    exact stepOK_el H s _ i _ _ rfl rfl hI hv (by rw [agetE_abs]; exact hw)
  | neg i =>
    obtain ⟨hv, hw⟩ := aP_negate (getE s i) (getE_valid s hI i)
    exact stepOK_el H s _ i _ _ rfl rfl hI hv (by rw [agetE_abs]; exact hw)
  | sub i j =>
    cases j with
    | none =>
      exact stepOK_self H s _ i "" rfl rfl hI
    | some j =>
      obtain ⟨hv, hw⟩ := aP_subtract (getE s i) (getE s j) (getE_valid s hI i) (getE_valid s hI j)
      exact stepOK_el H s _ i _ _ rfl rfl hI hv (by rw [agetE_abs, agetE_abs]; exact hw)
  | mul i j =>
    cases j with
    | none => exact stepOK_el H s _ i _ _ rfl rfl hI idC_valid aP_idC
    | some j =>
      obtain ⟨hv, hw⟩ := aP_multiply (getE s i) (getE_valid s hI i) (getS s j) (getS_ok s hI j)
      exact stepOK_el H s _ i _ _ rfl rfl hI hv (by rw [agetE_abs, agetS_abs]; exact hw)
  | dec i b =>
    obtain ⟨hrej, hacc⟩ := decode_spec (getE s i) b hop
    cases hd : Spec.decode b with
    | none =>
      have hc : cstep H s (.dec i b) = (setE s i (getE s i), "invalidPointEncoding") := by
        show (setE s i (Hand.ElementL.decode (getE s i) b).2, _) = _
        rw [hrej hd]
      refine stepOK_self H s _ i _ hc ?_ hI
      show (match Spec.decode b with | some p => (asetE (absS s) i p, "") | none => (absS s, "invalidPointEncoding")) = _
      rw [hd]
    | some pt =>
      obtain ⟨h1, h2, h3⟩ := hacc pt hd
      refine stepOK_el H s _ i (Hand.ElementL.decode (getE s i) b).2 pt ?_ ?_ hI h2 h3
      · show (setE s i (Hand.ElementL.decode (getE s i) b).2, _) = _
        rw [h1]
      · show (match Spec.decode b with | some p => (asetE (absS s) i p, "") | none => (absS s, "invalidPointEncoding")) = _
        rw [hd]
  | h2g i m d =>
    by_cases hd : d = []
    · subst hd
      refine stepOK_noop H s _ "panic" ?_ rfl hI
      show (match Hand.Group.hashToGroup H m [] with | none => (s, "panic") | some p => (setE s i p, "")) = _
      unfold Hand.Group.hashToGroup
      rw [expandXMD_empty]
      rfl
    · obtain ⟨R, hR, hv, hw⟩ := hashToGroup_spec H hH m d hd
      have hl : ¬ d.length = 0 := fun h => hd (List.length_eq_zero_iff.mp h)
      refine stepOK_el H s _ i R _ ?_ ?_ hI hv hw
      · show (match Hand.Group.hashToGroup H m d with | none => (s, "panic") | some p => (setE s i p, "")) = _
        rw [hR]
      · show (if d.length = 0 then _ else _) = _
        rw [if_neg hl]
  | e2g i m d =>
    by_cases hd : d = []
    · subst hd
      refine stepOK_noop H s _ "panic" ?_ rfl hI
      show (match Hand.Group.encodeToGroup H m [] with | none => (s, "panic") | some p => (setE s i p, "")) = _
      unfold Hand.Group.encodeToGroup
      rw [expandXMD_empty]
      rfl
    · obtain ⟨R, hR, hv, hw⟩ := encodeToGroup_spec H hH m d hd
      have hl : ¬ d.length = 0 := fun h => hd (List.length_eq_zero_iff.mp h)
      refine stepOK_el H s _ i R _ ?_ ?_ hI hv hw
      · show (match Hand.Group.encodeToGroup H m d with | none => (s, "panic") | some p => (setE s i p, "")) = _
        rw [hR]
      · show (if d.length = 0 then _ else _) = _
        rw [if_neg hl]
  | sadd i j =>
    cases j with
    | none =>
      refine stepOK_selfS H s _ i "" rfl rfl hI
    | some j =>
      obtain ⟨hv, hw⟩ := s_add (getS_ok s hI i) (getS_ok s hI j)
      exact stepOK_sc H s _ i _ _ rfl rfl hI hv (by rw [agetS_abs, agetS_abs]; exact (congrArg ZMod.val hw).trans (ZMod.val_add _ _))
  | ssub i j =>
    cases j with
    | none => exact stepOK_selfS H s _ i "" rfl rfl hI
    | some j =>
      obtain ⟨hv, hw⟩ := s_sub (getS_ok s hI i) (getS_ok s hI j)
      exact stepOK_sc H s _ i _ _ rfl rfl hI hv (by rw [agetS_abs, agetS_abs]; exact (congrArg ZMod.val hw).trans (val_sub_N _ _))
  | smul i j =>
    cases j with
    | none => exact stepOK_sc H s _ i _ _ rfl rfl hI sZero_ok val_sZero
    | some j =>
      obtain ⟨hv, hw⟩ := s_mul (getS_ok s hI i) (getS_ok s hI j)
      exact stepOK_sc H s _ i _ _ rfl rfl hI hv (by rw [agetS_abs, agetS_abs]; exact (congrArg ZMod.val hw).trans (ZMod.val_mul _ _))
  | ssq i =>
    obtain ⟨hv, hw⟩ := s_square (getS_ok s hI i)
    exact stepOK_sc H s _ i _ _ rfl rfl hI hv (by rw [agetS_abs]; exact (congrArg ZMod.val hw).trans (ZMod.val_mul _ _))
  | sinv i =>
    obtain ⟨hv, hw⟩ := ScalarOps.invert_correct (getS s i) (getS_ok s hI i)
    exact stepOK_sc H s _ i _ _ rfl rfl hI hv (by rw [agetS_abs, hw, val_inv_N])
  | sset i j =>
    cases j with
    | none => exact stepOK_sc H s _ i _ _ rfl rfl hI sZero_ok val_sZero
    | some j => exact stepOK_sc H s _ i _ _ rfl rfl hI (getS_ok s hI j) (agetS_abs s j).symm
  | scopy i j => exact stepOK_sc H s _ i _ _ rfl rfl hI (getS_ok s hI j) (agetS_abs s j).symm
  | ssetu i v =>
    obtain ⟨hv, hw⟩ := ScalarOps.setUInt64_correct v hop
    exact stepOK_sc H s _ i _ _ rfl rfl hI hv (by rw [hw, ZMod.val_natCast])
  | sdec i b =>
    obtain ⟨h0, h1, h2, _⟩ := sc_decode (getS s i) b hop
    by_cases l0 : b.length = 0
    · refine stepOK_selfS H s _ i "nilScalar" ?_ ?_ hI
      · show (setS s i (Hand.Scalar.decode (getS s i) b).2, _) = _
        rw [h0 l0]
      · show (if b.length = 0 then _ else _) = _
        rw [if_pos l0]
    · by_cases l32 : b.length = 32
      · by_cases hlt : os2ip b < N
        · obtain ⟨e, hv, hw⟩ := h2 l32 hlt
          refine stepOK_sc H s _ i (Hand.Scalar.decode (getS s i) b).2 (os2ip b) ?_ ?_ hI hv ?_
          · show (setS s i (Hand.Scalar.decode (getS s i) b).2, _) = _
            rw [e]
          · show (if b.length = 0 then _ else _) = _
            rw [if_neg l0, if_neg (not_not.mpr l32), if_pos hlt]
          · rw [hw, ZMod.val_natCast, Nat.mod_eq_of_lt hlt]
        · obtain ⟨e, hv, hw⟩ := sc_decode_toobig (getS s i) b hop l32 hlt
          have hc : cstep H s (.sdec i b) = (setS s i (Hand.Scalar.decode (getS s i) b).2, "scalarTooBig") := by
            show (setS s i (Hand.Scalar.decode (getS s i) b).2, _) = _
            rw [e]
          have ha : astep H (absS s) (.sdec i b) = (asetS (absS s) i (os2ip b % N), "scalarTooBig") := by
            show (if b.length = 0 then _ else _) = _
            rw [if_neg l0, if_neg (not_not.mpr l32), if_neg hlt]
          unfold StepOK
          rw [hc, ha]
          obtain ⟨g1, g2⟩ := sc_step s i _ (os2ip b % N) hI hv (by rw [hw, ZMod.val_natCast])
          exact ⟨g1, g2, rfl⟩
      · refine stepOK_selfS H s _ i "scalarLength" ?_ ?_ hI
        · show (setS s i (Hand.Scalar.decode (getS s i) b).2, _) = _
          rw [h1 l0 l32]
        · show (if b.length = 0 then _ else _) = _
          rw [if_neg l0, if_pos l32]
  | sone i => exact stepOK_sc H s _ i _ _ rfl rfl hI sOne_ok val_sOne
  | szero i => exact stepOK_sc H s _ i _ _ rfl rfl hI sZero_ok val_sZero
  | sminus i =>
    have hv : sOk Hand.Scalar.minusOne := ⟨by decide, by decide⟩
    have h := sVal_of_mont Hand.Scalar.minusOne (N - 1) (by decide)
    exact stepOK_sc H s _ i _ _ rfl rfl hI hv (by rw [h, ZMod.val_natCast]; decide)
  | h2s i m d =>
    by_cases hd : d = []
    · subst hd
      refine stepOK_noop H s _ "panic" ?_ rfl hI
      show (match Hand.Group.hashToScalar H m [] with | none => (s, "panic") | some p => (setS s i p, "")) = _
      rw [hashToScalar_empty_dst H m]
    · obtain ⟨R, hR, hv, hw⟩ := hashToScalar_spec H hH m d hd
      have hl : ¬ d.length = 0 := fun h => hd (List.length_eq_zero_iff.mp h)
      refine stepOK_sc H s _ i R _ ?_ ?_ hI hv hw
      · show (match Hand.Group.hashToScalar H m d with | none => (s, "panic") | some p => (setS s i p, "")) = _
        rw [hR]
      · show (if d.length = 0 then _ else _) = _
        rw [if_neg hl]
  | spow i j =>
    cases j with
    | none => exact stepOK_sc H s _ i _ _ rfl rfl hI sOne_ok val_sOne
    | some j =>
      obtain ⟨hv, hw⟩ := sc_pow (getS s i) (getS s j) (getS_ok s hI i) (getS_ok s hI j)
      exact stepOK_sc H s _ i _ _ rfl rfl hI hv (by rw [agetS_abs, agetS_abs]; exact (congrArg ZMod.val hw).trans (val_pow_N _ _))

end

noncomputable section

/-! ## observations of a valid concrete state are those of its abstraction -/

theorem obs_encode (P : Pt L4) (hP : VP P) : Hand.ElementL.encode P = encodeCompressed (aP P) := encode_spec P hP.1

theorem obs_isIdentity (P : Pt L4) (hP : VP P) : Hand.Element.isIdentity F P = decide (aP P = none) := by
  have h := isIdentity_iff limbLawful curveOK_Fp P hP
  have hi : toGp limbLawful curveOK_Fp P = 0 ↔ aP P = none := by
    rw [← iota_aP P hP]
    constructor
    · intro h0
      exact iota_inj _ _ (affPtG_specPt limbLawful P hP) trivial (by rw [h0]; rfl)
    · intro h0; rw [h0]; rfl
  cases hb : Hand.Element.isIdentity F P
  · have : ¬ aP P = none := fun hn => by
      have := h.mpr (hi.mpr hn)
      rw [show Hand.Element.isIdentity FL P = Hand.Element.isIdentity F P from rfl, hb] at this
      exact absurd this (by simp)
    simp [this]
  · have : aP P = none := hi.mp (h.mp hb)
    simp [this]

theorem obs_equal (P Q : Pt L4) (hP : VP P) (hQ : VP Q) :
    Hand.Element.equal F P Q = if aP P = aP Q then 1 else 0 := by
  obtain ⟨h, hbit⟩ := equal_iff limbLawful curveOK_Fp P Q hP hQ
  have hi : toGp limbLawful curveOK_Fp P = toGp limbLawful curveOK_Fp Q ↔ aP P = aP Q := by
    rw [← iota_aP P hP, ← iota_aP Q hQ]
    exact ⟨iota_inj _ _ (affPtG_specPt limbLawful P hP) (affPtG_specPt limbLawful Q hQ), fun e => by rw [e]⟩
  by_cases e : aP P = aP Q
  · rw [if_pos e]; exact h.mpr (hi.mpr e)
  · rw [if_neg e]
    rcases hbit with h0 | h1
    · exact h0
    · exact absurd (hi.mp (h.mp h1)) e

theorem obs_sencode (x : L4) (hx : sOk x) : Hand.Scalar.encode x = i2osp (sVal x).val 32 := sc_encode x hx

theorem obs_sisZero (x : L4) (hx : sOk x) : Hand.Scalar.isZero x = decide ((sVal x).val = 0) := by
  have h := sc_isZero_iff x hx
  have hv : (sVal x).val = 0 ↔ sVal x = 0 := ZMod.val_eq_zero _
  cases hb : Hand.Scalar.isZero x
  · have : ¬ (sVal x).val = 0 := fun h0 => by
      have := h.mpr (hv.mp h0); rw [hb] at this; exact absurd this (by simp)
    simp [this]
  · have : (sVal x).val = 0 := hv.mpr (h.mp hb)
    simp [this]

theorem obs_sequal (x y : L4) (hx : sOk x) (hy : sOk y) :
    Hand.Scalar.equal x (some y) = if (sVal x).val = (sVal y).val then 1 else 0 := by
  rw [sc_equal_iff x y hx hy]
  by_cases e : sVal x = sVal y
  · rw [if_pos e, if_pos (by rw [e])]
  · rw [if_neg e, if_neg (fun h => e (ZMod.val_injective N h))]

theorem map_map' {α β γ : Type} (f : α → β) (g : β → γ) (l : List α) : (l.map f).map g = l.map (fun x => g (f x)) := by
  induction l with
  | nil => rfl
  | cons a l ih => simp only [List.map_cons, ih]

theorem map_congr' {α β : Type} (f g : α → β) (l : List α) (h : ∀ a ∈ l, f a = g a) : l.map f = l.map g :=
  List.map_congr_left h

theorem obs_refines (s : CState) (hI : HInv s) : cobs s = aobs (absS s) := by
  obtain ⟨hE, hS⟩ := hI
  have e1 : s.el.map Hand.ElementL.encode = (s.el.map aP).map Spec.encodeCompressed :=
    (map_congr' _ _ _ fun p hp => obs_encode p (hE p hp)).trans (map_map' aP Spec.encodeCompressed s.el).symm
  have e2 : s.el.map (Hand.Element.isIdentity F) = (s.el.map aP).map (fun p => decide (p = none)) :=
    (map_congr' _ _ _ fun p hp => obs_isIdentity p (hE p hp)).trans (map_map' aP (fun p => decide (p = none)) s.el).symm
  have e3 : (s.el.map fun p => s.el.map fun q => Hand.Element.equal F p q) =
      (s.el.map aP).map fun p => (s.el.map aP).map fun q => if p = q then 1 else 0 := by
    rw [map_map']
    refine map_congr' _ _ _ fun p hp => ?_
    rw [map_map']
    exact map_congr' _ _ _ fun q hq => obs_equal p q (hE p hp) (hE q hq)
  have e4 : s.sc.map Hand.Scalar.encode = (s.sc.map fun x => (sVal x).val).map (fun v => Spec.i2osp v 32) :=
    (map_congr' _ _ _ fun p hp => obs_sencode p (hS p hp)).trans
      (map_map' (fun x => (sVal x).val) (fun v => Spec.i2osp v 32) s.sc).symm
  have e5 : s.sc.map Hand.Scalar.isZero = (s.sc.map fun x => (sVal x).val).map (fun v => decide (v = 0)) :=
    (map_congr' _ _ _ fun p hp => obs_sisZero p (hS p hp)).trans
      (map_map' (fun x => (sVal x).val) (fun v => decide (v = 0)) s.sc).symm
  have e6 : (s.sc.map fun x => s.sc.map fun y => Hand.Scalar.equal x (some y)) =
      (s.sc.map fun x => (sVal x).val).map fun v => (s.sc.map fun x => (sVal x).val).map fun w => if v = w then 1 else 0 := by
    rw [map_map']
    refine map_congr' _ _ _ fun p hp => ?_
    rw [map_map']
    exact map_congr' _ _ _ fun q hq => obs_sequal p q (hS p hp) (hS q hq)
  show Obs.mk _ _ _ _ _ _ = Obs.mk _ _ _ _ _ _
  exact congr (congr (congr (congr (congr (congrArg Obs.mk e1) e2) e3) e4) e5) e6

/-! ## every history -/

theorem initC_inv : HInv initC := by
  refine ⟨fun p hp => ?_, fun x hx => ?_⟩
  · rw [show initC.el = List.replicate poolSize idC from rfl, List.mem_replicate] at hp
    rw [hp.2]; exact idC_valid
  · rw [show initC.sc = List.replicate poolSize Hand.Scalar.zero from rfl, List.mem_replicate] at hx
    rw [hx.2]; exact sZero_ok

theorem initC_abs : absS initC = initA := by
  unfold absS initC initA
  simp only [List.map_replicate]
  rw [aP_idC, val_sZero]

theorem run_refines (H : Bytes → Bytes) (hH : HashOK H) (ops : List Op) (hops : ∀ op ∈ ops, WfOp op)
    (s : CState) (hI : HInv s) : crun H s ops = arun H (absS s) ops := by
  induction ops generalizing s with
  | nil => rfl
  | cons op ops ih =>
    obtain ⟨h1, h2, h3⟩ := step_refines H hH s op hI (hops op (List.mem_cons_self ..))
    unfold crun arun
    simp only
    rw [h3, obs_refines _ h1, h2]
    rw [ih (fun o ho => hops o (List.mem_cons_of_mem _ ho)) _ h1, h2]

/-- the states reached: invariant and abstraction, after any history -/
theorem run_state (H : Bytes → Bytes) (hH : HashOK H) (ops : List Op) (hops : ∀ op ∈ ops, WfOp op)
    (s : CState) (hI : HInv s) :
    HInv (ops.foldl (fun s op => (cstep H s op).1) s) ∧
    absS (ops.foldl (fun s op => (cstep H s op).1) s) = ops.foldl (fun a op => (astep H a op).1) (absS s) := by
  induction ops generalizing s with
  | nil => exact ⟨hI, rfl⟩
  | cons op ops ih =>
    obtain ⟨h1, h2, _⟩ := step_refines H hH s op hI (hops op (List.mem_cons_self ..))
    simp only [List.foldl_cons]
    rw [← h2]
    exact ih (fun o ho => hops o (List.mem_cons_of_mem _ ho)) _ h1

/-! ## frame: only the receiver is written, and the other pool is untouched -/

theorem setE_frame (s : CState) (i : Nat) (v : Pt L4) (k : Nat) (hk : k ≠ i) :
    (setE s i v).el[k]? = s.el[k]? ∧ (setE s i v).sc = s.sc ∧ (setE s i v).el.length = s.el.length := by
  unfold setE
  simp only [List.length_set]
  exact ⟨by rw [List.getElem?_set_ne (Ne.symm hk)], trivial, trivial⟩

theorem setS_frame (s : CState) (i : Nat) (v : L4) (k : Nat) (hk : k ≠ i) :
    (setS s i v).sc[k]? = s.sc[k]? ∧ (setS s i v).el = s.el ∧ (setS s i v).sc.length = s.sc.length := by
  unfold setS
  simp only [List.length_set]
  exact ⟨by rw [List.getElem?_set_ne (Ne.symm hk)], trivial, trivial⟩

/-- a step writes at most its receiver: every other variable of both pools holds the very same value afterwards
(not merely an equal one), and the pools keep their sizes -/
def FrameOK (op : Op) (s s' : CState) : Prop :=
  (∀ k, op.recvE ≠ some k → s'.el[k]? = s.el[k]?) ∧ (∀ k, op.recvS ≠ some k → s'.sc[k]? = s.sc[k]?) ∧
  s'.el.length = s.el.length ∧ s'.sc.length = s.sc.length

theorem frame_refl (op : Op) (s : CState) : FrameOK op s s := ⟨fun _ _ => rfl, fun _ _ => rfl, rfl, rfl⟩

theorem frame_setE (op : Op) (i : Nat) (h : op.recvE = some i) (s : CState) (v : Pt L4) : FrameOK op s (setE s i v) := by
  refine ⟨fun k hk => ?_, fun _ _ => rfl, ?_, rfl⟩
  · have : k ≠ i := fun e => hk (by rw [h, e])
    exact (setE_frame s i v k this).1
  · unfold setE; simp only [List.length_set]

theorem frame_setS (op : Op) (i : Nat) (h : op.recvS = some i) (s : CState) (v : L4) : FrameOK op s (setS s i v) := by
  refine ⟨fun _ _ => rfl, fun k hk => ?_, rfl, ?_⟩
  · have : k ≠ i := fun e => hk (by rw [h, e])
    exact (setS_frame s i v k this).1
  · unfold setS; simp only [List.length_set]

theorem step_frame (H : Bytes → Bytes) (s : CState) (op : Op) : FrameOK op s (cstep H s op).1 := by
  cases op with
  | add i j => cases j <;> first | exact frame_refl _ s | exact frame_setE _ i rfl s _
  | h2g i m d =>
    show FrameOK _ s (match Hand.Group.hashToGroup H m d with | none => (s, "panic") | some p => (setE s i p, "")).1
    cases Hand.Group.hashToGroup H m d <;> first | exact frame_refl _ s | exact frame_setE _ i rfl s _
  | e2g i m d =>
    show FrameOK _ s (match Hand.Group.encodeToGroup H m d with | none => (s, "panic") | some p => (setE s i p, "")).1
    cases Hand.Group.encodeToGroup H m d <;> first | exact frame_refl _ s | exact frame_setE _ i rfl s _
  | h2s i m d =>
    show FrameOK _ s (match Hand.Group.hashToScalar H m d with | none => (s, "panic") | some p => (setS s i p, "")).1
    cases Hand.Group.hashToScalar H m d <;> first | exact frame_refl _ s | exact frame_setS _ i rfl s _
  | _ => first | exact frame_setE _ _ rfl s _ | exact frame_setS _ _ rfl s _

end
