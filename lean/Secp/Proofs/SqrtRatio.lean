import Secp.Proofs.Chains
import Secp.Proofs.FieldP
import Secp.Gen.SqrtRatio
import Mathlib.NumberTheory.LegendreSymbol.Basic
/-!
# `SqrtRatio` (RFC 9380 F.2.1.2, `q ≡ 3 mod 4`, `Z = -11`) for every lawful record over `ZMod p`
-/
open Spec

variable {α : Type} {F : FieldOps α} (L : Lawful F Fp)

/-- the constant `c2 = sqrt(-Z)` embedded in `SqrtRatio` -/
structure SqrtConsts : Prop where
  ok_c2 : L.ok (F.ofMont 10660218062043021626 12685808213265501903 5194980534593283555 4353995932822220413)
  sq_c2 : (L.val (F.ofMont 10660218062043021626 12685808213265501903 5194980534593283555 4353995932822220413)) ^ 2 = 11

theorem half_P : P / 2 = (P - 3) / 4 * 2 + 1 := by decide
theorem two_ne_zero_Fp : (2 : Fp) ≠ 0 := by
  have := natCast_ne_zero_of_lt 2 (by norm_num) (by decide)
  simpa using this

/-- the contract of `sqrt_ratio(u, v)` for `v ≠ 0` -/
theorem sqrtRatio_spec (hc : SqrtConsts L) (u v : α) (hu : L.ok u) (hv : L.ok v) (hv0 : L.val v ≠ 0) :
    L.ok (FieldChains.sqrtRatio F u v).1 ∧
    ((IsSquare (L.val u / L.val v) ∧ (FieldChains.sqrtRatio F u v).2 = 1 ∧
        (L.val (FieldChains.sqrtRatio F u v).1) ^ 2 = L.val u / L.val v) ∨
     (¬ IsSquare (L.val u / L.val v) ∧ (FieldChains.sqrtRatio F u v).2 = 0 ∧
        (L.val (FieldChains.sqrtRatio F u v).1) ^ 2 = -11 * (L.val u / L.val v))) := by
  unfold FieldChains.sqrtRatio
  simp only
  -- name the intermediate values
  have ok2 := L.ok_square hv
  have ok3 := L.ok_mul hu hv
  have ok4 := L.ok_mul ok2 ok3
  obtain ⟨ok5, v5⟩ := expPMin3Div4_pow L _ ok4
  have ok6 := L.ok_mul ok5 ok3
  have ok7 := L.ok_mul ok6 hc.ok_c2
  have ok8 := L.ok_square ok6
  have ok9 := L.ok_mul ok8 hv
  set U := L.val u with hU
  set V := L.val v with hV
  have e4 : L.val (F.mul (F.square v) (F.mul u v)) = U * V ^ 3 := by
    rw [L.val_mul ok2 ok3, L.val_square hv, L.val_mul hu hv]; ring
  set w := U * V ^ 3 with hw
  have e6 : L.val (F.mul (FieldChains.expPMin3Div4 F (F.mul (F.square v) (F.mul u v))) (F.mul u v))
      = w ^ ((P - 3) / 4) * (U * V) := by
    rw [L.val_mul ok5 ok3, v5, e4, L.val_mul hu hv]
  have e9 : L.val (F.mul (F.square (F.mul (FieldChains.expPMin3Div4 F (F.mul (F.square v) (F.mul u v))) (F.mul u v))) v)
      = w ^ (P / 2) * U := by
    rw [L.val_mul ok8 hv, L.val_square ok6, e6, half_P, pow_succ, pow_mul]
    ring
  generalize hy1 : F.mul (FieldChains.expPMin3Div4 F (F.mul (F.square v) (F.mul u v))) (F.mul u v) = y1 at *
  generalize ht3 : F.mul (F.square y1) v = tv3 at *
  -- the two candidates
  have y1sq : (L.val y1) ^ 2 * V = w ^ (P / 2) * U := by
    rw [← e9, ← ht3, L.val_mul ok8 hv, L.val_square ok6]; ring
  have e7 : (L.val (F.mul y1 (F.ofMont 10660218062043021626 12685808213265501903 5194980534593283555 4353995932822220413))) ^ 2
      = 11 * (L.val y1) ^ 2 := by
    rw [L.val_mul ok6 hc.ok_c2, mul_pow, hc.sq_c2]; ring
  have hwV : w = (U / V) * (V ^ 2) ^ 2 := by rw [hw]; field_simp
  by_cases hU0 : U = 0
  · -- u = 0: the ratio is 0, a square; flag 1, root 0
    have hw0 : w = 0 := by rw [hw, hU0, zero_mul]
    have hy10 : L.val y1 = 0 := by
      rw [e6, hU0, zero_mul, mul_zero]
    have hflag : F.equals tv3 u = 1 := L.equals_of_eq ok9 hu (by rw [e9, hU0, mul_zero]; exact hU0.symm)
    rw [hflag, L.cmove_one ok7 ok6]
    have hsq0 : IsSquare (U / V) := by rw [hU0, zero_div]; exact ⟨0, by simp⟩
    have hval0 : (L.val y1) ^ 2 = U / V := by rw [hy10, hU0]; simp
    exact ⟨ok6, Or.inl ⟨hsq0, rfl, hval0⟩⟩
  · have hw_ne : w ≠ 0 := by rw [hw]; exact mul_ne_zero hU0 (pow_ne_zero _ hv0)
    rcases ZMod.pow_div_two_eq_neg_one_or_one P hw_ne with h1 | hm1
    · -- square
      have hsqw : IsSquare w := (ZMod.euler_criterion P hw_ne).mpr h1
      have hflag : F.equals tv3 u = 1 := L.equals_of_eq ok9 hu (by rw [e9, h1, one_mul])

      rw [hflag, L.cmove_one ok7 ok6]
      refine ⟨ok6, Or.inl ⟨?_, rfl, ?_⟩⟩
      · obtain ⟨s, hs⟩ := hsqw
        refine ⟨s / V ^ 2, ?_⟩
        have : U / V = w / (V ^ 2) ^ 2 := by rw [hwV]; field_simp
        rw [this, hs]; field_simp
      · have := y1sq
        rw [h1, one_mul] at this
        field_simp
        exact this
    · -- non-square
      have hnsq : ¬ IsSquare w := fun h => by
        have := (ZMod.euler_criterion P hw_ne).mp h
        rw [hm1] at this
        have h2 : (2 : Fp) = 0 := by linear_combination -this
        exact two_ne_zero_Fp h2
      have hne : L.val tv3 ≠ L.val u := by
        rw [e9, hm1]
        intro h
        have h2 : (2 : Fp) * U = 0 := by linear_combination -h
        rcases mul_eq_zero.mp h2 with h' | h'
        · exact two_ne_zero_Fp h'
        · exact hU0 h'
      have hflag : F.equals tv3 u = 0 := L.equals_of_ne ok9 hu hne
      rw [hflag, L.cmove_zero ok7 ok6]
      refine ⟨ok7, Or.inr ⟨?_, rfl, ?_⟩⟩
      · rintro ⟨s, hs⟩
        apply hnsq
        refine ⟨s * V ^ 2, ?_⟩
        rw [hwV, hs]; ring
      · rw [e7]
        have := y1sq
        rw [hm1] at this
        have hy : (L.val y1) ^ 2 = - (U / V) := by field_simp; linear_combination this
        rw [hy]; ring
