import Secp.Hand.Field
/-!
# Ties between the regenerated method wrappers of `internal/field`, `internal/scalar` and the operations record

`go2lean` translates the bodies of `(*field.Element).{One,Add,Subtract,Multiply,Negate,Square,Sgn0,CMove,IsZero}` and of
`scalar.CMove` (calls to the Fiat functions with `&e.E` as output, a local out-variable, a masked limb) on every run.
The operations record `Hand.limbOps` that every field-level theorem is about is hand-written; these `rfl` ties say that each
of its fields *is* the regenerated wrapper. A re-implementation of a wrapper in the Go source (say `IsZero` or-ing limbs by
hand, `CMove` assigning before reading) changes the generated definition and the tie no longer checks.
-/
namespace WrapperTies

theorem one_tie : FiatField.elOne = Hand.limbOps.one := rfl
theorem add_tie (u v : L4) : FiatField.elAdd u v = Hand.limbOps.add u v := rfl
theorem sub_tie (u v : L4) : FiatField.elSubtract u v = Hand.limbOps.sub u v := rfl
theorem mul_tie (u v : L4) : FiatField.elMultiply u v = Hand.limbOps.mul u v := rfl
theorem neg_tie (u : L4) : FiatField.elNegate u = Hand.limbOps.neg u := rfl
theorem square_tie (u : L4) : FiatField.elSquare u = Hand.limbOps.square u := rfl
theorem sgn0_tie (e : L4) : FiatField.elSgn0 e = Hand.limbOps.sgn0 e := rfl
theorem cmove_tie (c : Nat) (u v : L4) : FiatField.elCMove c u v = Hand.limbOps.cmove c u v := rfl
theorem isZero_tie (e : L4) : FiatField.elIsZero e = Hand.limbOps.isZero e := rfl
theorem equals_tie (e u : L4) : FiatField.equals e u = Hand.limbOps.equals e u := rfl


end WrapperTies
