import Secp.Gen.ScalarAPI
import Secp.Hand.Scalar
/-!
# Ties: regenerated arithmetic methods of `scalar.go` = the model of the `Scalar` API (C06, C10)

`go2lean` (API mode) translates the methods on every run: a nil guard (an `Option` argument, the early return as the
`none` branch) followed by calls into `internal/scalar`. Each tie says the hand-written `Hand.Scalar.*` the theorems are
stated about is the regenerated method, for every receiver and every argument including nil. The ties are split by the
properties that use them so that a change to one method breaks only the properties that speak about it.
-/
namespace ScalarApiTies
open Hand.Scalar

theorem zero_tie : GenScalarAPI.zero = zero := rfl
theorem one_tie : GenScalarAPI.one = one := rfl
theorem minusOne_tie : GenScalarAPI.minusOne = minusOne := rfl
theorem add_tie (s : L4) (t : Option L4) : GenScalarAPI.add s t = add s t := by cases t <;> rfl
theorem subtract_tie (s : L4) (t : Option L4) : GenScalarAPI.subtract s t = subtract s t := by cases t <;> rfl
theorem multiply_tie (s : L4) (t : Option L4) : GenScalarAPI.multiply s t = multiply s t := by cases t <;> rfl
theorem square_tie (s : L4) : GenScalarAPI.square s = square s := rfl
theorem set_tie (s : L4) (t : Option L4) : GenScalarAPI.set s t = set s t := by cases t <;> rfl
theorem setUInt64_tie (i : Nat) : GenScalarAPI.setUInt64 i = setUInt64 i := rfl

end ScalarApiTies
