import Secp.Gen.ScalarAPI
import Secp.Hand.Scalar
/-!
# Ties between the regenerated methods of `scalar.go` and the model of the `Scalar` API

`go2lean` (API mode) translates `Zero One MinusOne Add Subtract Multiply Square Equal LessOrEqual IsZero IsOne set Set
SetUInt64 CSelect` of `scalar.go` on every run: a nil guard (an `Option` argument, the early return as the `none` branch)
followed by calls into `internal/scalar`. `Hand.Scalar.*`, which the C06/C07/C13 theorems are stated about, is
hand-written; each tie says it is the regenerated method, for every receiver and every argument including nil.
-/
namespace ScalarApiTies
open Hand.Scalar

theorem zero_tie : GenScalarAPI.zero = zero := rfl
theorem one_tie : GenScalarAPI.one = one := rfl
theorem minusOne_tie : GenScalarAPI.minusOne = minusOne := rfl
theorem add_tie (s : L4) (t : Option L4) : GenScalarAPI.add s t = add s t := by cases t <;> rfl
theorem subtract_tie (s : L4) (t : Option L4) : GenScalarAPI.subtract s t = subtract s t := by cases t <;> rfl
theorem multiply_tie (s : L4) (t : Option L4) : GenScalarAPI.multiply s t = multiply s t := by cases t <;> rfl
theorem square_tie (s : L4) : GenScalarAPI.square s = square s := rfl
theorem equal_tie (s : L4) (t : Option L4) : GenScalarAPI.equal s t = equal s t := by cases t <;> rfl
theorem lessOrEqual_tie (s t : L4) : GenScalarAPI.lessOrEqual s t = lessOrEqual s t := rfl
theorem isZero_tie (s : L4) : GenScalarAPI.isZero s = isZero s := rfl
theorem isOne_tie (s : L4) : GenScalarAPI.isOne s = isOne s := rfl
theorem set_tie (s : L4) (t : Option L4) : GenScalarAPI.set s t = set s t := by cases t <;> rfl
theorem setUInt64_tie (i : Nat) : GenScalarAPI.setUInt64 i = setUInt64 i := rfl

/-- the error a Go `error` value stands for -/
def errName : Err → String
  | .nilScalar => "errParamNilScalar" | .scalarLength => "errParamScalarLength"
  | .scalarTooBig => "errParamScalarTooBig" | .hexError => "hexError"

theorem cselect_tie (s : L4) (c : Nat) (u v : Option L4) :
    GenScalarAPI.cSelect s c u v = ((cselect s c u v).2, (cselect s c u v).1.map errName) := by
  cases u <;> cases v <;> rfl

end ScalarApiTies
