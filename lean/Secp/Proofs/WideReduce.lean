import Secp.Proofs.BytesLemmas
import Secp.Hand.Field
/-!
# The 48-byte wide reduction `HashToFieldElement`: lemmas shared by both fields (byte strings only)
-/
open Spec

theorem os2ip_zeros (k : Nat) (b : Bytes) : os2ip (List.replicate k 0 ++ b) = os2ip b := by
  induction k with
  | zero => simp
  | succ k ih => rw [List.replicate_succ, List.cons_append, os2ip_cons, ih]; simp

theorem isBytes_replicate_zero (k : Nat) : IsBytes (List.replicate k 0) := by
  intro x hx; rw [List.mem_replicate] at hx; omega

theorem isBytes_append {a b : Bytes} (ha : IsBytes a) (hb : IsBytes b) : IsBytes (a ++ b) := by
  intro x hx; rcases List.mem_append.mp hx with h | h; exact ha x h; exact hb x h

theorem pad32_spec (b : Bytes) (hb : IsBytes b) (hl : b.length ≤ 32) :
    (Hand.pad32 b).length = 32 ∧ IsBytes (Hand.pad32 b) ∧ os2ip (Hand.pad32 b) = os2ip b := by
  unfold Hand.pad32
  refine ⟨by simp; omega, isBytes_append (isBytes_replicate_zero _) hb, os2ip_zeros _ _⟩

theorem split48 (input : Bytes) (hl : input.length = 48) :
    os2ip input = os2ip (input.take 24) * 2 ^ 192 + os2ip (input.drop 24) := by
  conv_lhs => rw [← List.take_append_drop 24 input]
  rw [os2ip_append]
  have : (input.drop 24).length = 24 := by simp [hl]
  rw [this]
  norm_num
