import Secp.Proofs.Decode
import Secp.Proofs.ScalarEnc
/-!
# The 48-byte wide reduction `HashToFieldElement` (both fields): the big-endian integer modulo `p` / `n`
-/
open Spec

theorem os2ip_zeros (k : Nat) (b : Bytes) : os2ip (List.replicate k 0 ++ b) = os2ip b := by
  induction k with
  | zero => simp
  | succ k ih => rw [List.replicate_succ, List.cons_append, os2ip_cons, ih]; simp

theorem isBytes_replicate_zero (k : Nat) : IsBytes (List.replicate k 0) := by
  intro x hx; rw [List.mem_replicate] at hx; omega

theorem isBytes_append {a b : Bytes} (ha : IsBytes a) (hb : IsBytes b) : IsBytes (a ++ b) := by
  intro x hx; rcases List.mem_append.mp hx with h | h; exact ha x h; exact hb x h

theorem pad32_spec (b : Bytes) (hb : IsBytes b) (hl : b.length ≤ 32) :
    (Hand.pad32 b).length = 32 ∧ IsBytes (Hand.pad32 b) ∧ os2ip (Hand.pad32 b) = os2ip b := by
  unfold Hand.pad32
  refine ⟨by simp; omega, isBytes_append (isBytes_replicate_zero _) hb, os2ip_zeros _ _⟩

/-- `FromBytesNoReduce` (base field): the big-endian integer, as a canonical element -/
theorem fp_fromBytesNoReduce (b : Bytes) (hb : IsBytes b) (hl : b.length ≤ 32) :
    limbOk (Hand.Fp.fromBytesNoReduce b) ∧ limbVal (Hand.Fp.fromBytesNoReduce b) = ((os2ip b : Nat) : Fp) := by
  obtain ⟨l32, hb32, hv⟩ := pad32_spec b hb hl
  obtain ⟨okl, evl⟩ := bytesToLimbs_spec _ l32 hb32
  unfold Hand.Fp.fromBytesNoReduce
  obtain ⟨okm, vm⟩ := limb_toMont okl
  exact ⟨okm, by rw [vm, evl, hv]⟩

theorem fn_fromBytesNoReduce (b : Bytes) (hb : IsBytes b) (hl : b.length ≤ 32) :
    sOk (Hand.Fn.fromBytesNoReduce b) ∧ sVal (Hand.Fn.fromBytesNoReduce b) = ((os2ip b : Nat) : Fn) := by
  obtain ⟨l32, hb32, hv⟩ := pad32_spec b hb hl
  obtain ⟨okl, evl⟩ := bytesToLimbs_spec _ l32 hb32
  unfold Hand.Fn.fromBytesNoReduce
  obtain ⟨okm, vm⟩ := s_toMont okl
  exact ⟨okm, by rw [vm, evl, hv]⟩

theorem split48 (input : Bytes) (hl : input.length = 48) :
    os2ip input = os2ip (input.take 24) * 2 ^ 192 + os2ip (input.drop 24) := by
  conv_lhs => rw [← List.take_append_drop 24 input]
  rw [os2ip_append]
  have : (input.drop 24).length = 24 := by simp [hl]
  rw [this]
  norm_num

/-- **HashToFieldElement (base field)**: `OS2IP(input) mod p` for every 48-byte input -/
theorem fp_hashToField (input : Bytes) (hb : IsBytes input) (hl : input.length = 48) :
    limbOk (Hand.Fp.hashToFieldElement input) ∧ limbVal (Hand.Fp.hashToFieldElement input) = ((os2ip input : Nat) : Fp) := by
  have hbt : IsBytes (input.take 24) := fun x hx => hb x (List.mem_of_mem_take hx)
  have hbd : IsBytes (input.drop 24) := fun x hx => hb x (List.mem_of_mem_drop hx)
  unfold Hand.Fp.hashToFieldElement
  simp only
  have hr16 : (List.replicate 16 (0 : Nat)).length = 16 := by simp
  have e1 : (List.replicate 16 0 ++ input).drop 40 = input.drop 24 := by
    have : (List.replicate 16 0 ++ input).drop 40 = ((List.replicate 16 0 ++ input).drop 16).drop 24 := by
      rw [List.drop_drop]
    rw [this, List.drop_left' hr16]
  have e2 : ((List.replicate 16 0 ++ input).drop 16).take 24 = input.take 24 := by
    rw [List.drop_left' hr16]
  have e3 : (List.replicate 16 0 ++ input).take 16 = List.replicate 16 0 := List.take_left' hr16
  rw [e1, e2, e3]
  obtain ⟨oka, va⟩ := fp_fromBytesNoReduce (input.drop 24) hbd (by simp [hl])
  obtain ⟨okb, vb⟩ := fp_fromBytesNoReduce (input.take 24) hbt (by simp [hl])
  obtain ⟨okc, vc⟩ := fp_fromBytesNoReduce (List.replicate 16 0) (isBytes_replicate_zero 16) (by simp)
  have ok192 : limbOk Hand.Fp.two192 := ⟨by decide, by decide⟩
  have v192 : limbVal Hand.Fp.two192 = ((2 ^ 192 : Nat) : Fp) := limbVal_of_mont _ _ (by decide)
  have ok384 : limbOk Hand.Fp.two384 := ⟨by decide, by decide⟩
  obtain ⟨okbm, vbm⟩ := limb_mul okb ok192
  obtain ⟨okcm, vcm⟩ := limb_mul okc ok384
  obtain ⟨ok1, v1⟩ := limb_add oka okbm
  obtain ⟨ok2, v2⟩ := limb_add ok1 okcm
  refine ⟨ok2, ?_⟩
  have hc0 : os2ip (List.replicate 16 0) = 0 := by
    have := os2ip_zeros 16 []; simpa [os2ip_nil] using this
  rw [v2, v1, vbm, vcm, va, vb, vc, v192, hc0, split48 input hl]
  push_cast; ring

/-- **HashToFieldElement (scalar field)**: `OS2IP(input) mod n` for every 48-byte input -/
theorem fn_hashToField (input : Bytes) (hb : IsBytes input) (hl : input.length = 48) :
    sOk (Hand.Fn.hashToFieldElement input) ∧ sVal (Hand.Fn.hashToFieldElement input) = ((os2ip input : Nat) : Fn) := by
  have hbt : IsBytes (input.take 24) := fun x hx => hb x (List.mem_of_mem_take hx)
  have hbd : IsBytes (input.drop 24) := fun x hx => hb x (List.mem_of_mem_drop hx)
  unfold Hand.Fn.hashToFieldElement
  simp only
  have hr16 : (List.replicate 16 (0 : Nat)).length = 16 := by simp
  have e1 : (List.replicate 16 0 ++ input).drop 40 = input.drop 24 := by
    have : (List.replicate 16 0 ++ input).drop 40 = ((List.replicate 16 0 ++ input).drop 16).drop 24 := by
      rw [List.drop_drop]
    rw [this, List.drop_left' hr16]
  have e2 : ((List.replicate 16 0 ++ input).drop 16).take 24 = input.take 24 := by
    rw [List.drop_left' hr16]
  have e3 : (List.replicate 16 0 ++ input).take 16 = List.replicate 16 0 := List.take_left' hr16
  rw [e1, e2, e3]
  obtain ⟨oka, va⟩ := fn_fromBytesNoReduce (input.drop 24) hbd (by simp [hl])
  obtain ⟨okb, vb⟩ := fn_fromBytesNoReduce (input.take 24) hbt (by simp [hl])
  obtain ⟨okc, vc⟩ := fn_fromBytesNoReduce (List.replicate 16 0) (isBytes_replicate_zero 16) (by simp)
  have ok192 : sOk Hand.Fn.two192 := ⟨by decide, by decide⟩
  have v192 : sVal Hand.Fn.two192 = ((2 ^ 192 : Nat) : Fn) := sVal_of_mont _ _ (by decide)
  have ok384 : sOk Hand.Fn.two384 := ⟨by decide, by decide⟩
  obtain ⟨okbm, vbm⟩ := s_mul okb ok192
  obtain ⟨okcm, vcm⟩ := s_mul okc ok384
  obtain ⟨ok1, v1⟩ := s_add oka okbm
  obtain ⟨ok2, v2⟩ := s_add ok1 okcm
  refine ⟨ok2, ?_⟩
  have hc0 : os2ip (List.replicate 16 0) = 0 := by
    have := os2ip_zeros 16 []; simpa [os2ip_nil] using this
  rw [v2, v1, vbm, vcm, va, vb, vc, v192, hc0, split48 input hl]
  push_cast; ring
