import Secp.Proofs.FieldP
import Secp.Spec.Fp
/-! # Points of the specification -/
open Spec

/-- a point of the specification: both coordinates reduced, on the curve -/
def SpecPt : APoint → Prop
  | none => True
  | some (x, y) => x < P ∧ y < P ∧ ((y : Nat) : Fp) ^ 2 = ((x : Nat) : Fp) ^ 3 + 7

