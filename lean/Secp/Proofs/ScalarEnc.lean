import Secp.Proofs.ReduceN
import Secp.Proofs.ScalarCmp
import Secp.Proofs.BytesLemmas
/-!
# Scalar encodings (C07)
-/
open Spec

/-- `Encode` is the 32-byte big-endian canonical value -/
theorem sc_encode (s : L4) (hs : sOk s) : Hand.Scalar.encode s = i2osp (sVal s).val 32 := by
  obtain ⟨ok, ev⟩ := s_fromMont hs.1
  unfold Hand.Scalar.encode
  rw [limbsToBytes_spec _ ok, ev]

/-- `ReduceBytes` on 32 bytes: canonical result denoting the integer mod n; flag 1 exactly when it was `< n` -/
theorem reduceBytes_spec (b : Bytes) (hlen : b.length = 32) (hb : IsBytes b) :
    sOk (Hand.Fn.reduceBytes b).1 ∧ sVal (Hand.Fn.reduceBytes b).1 = ((os2ip b : Nat) : Fn) ∧
    (Hand.Fn.reduceBytes b).2 = (if os2ip b < N then 1 else 0) := by
  obtain ⟨okl, evl⟩ := bytesToLimbs_spec b hlen hb
  unfold Hand.Fn.reduceBytes
  simp only
  generalize Hand.bytesToLimbs b = l at *
  obtain ⟨okr, evr, fl⟩ := scalarReduce_correct l okl
  rw [Nnat_eq] at evr fl
  obtain ⟨okm, vm⟩ := s_toMont okr
  refine ⟨okm, ?_, by rw [fl, evl]⟩
  rw [vm, evr, cast_mod_N, evl]

/-- **Decode**: outcome and stored value for every byte string -/
theorem sc_decode (r : L4) (b : Bytes) (hb : IsBytes b) :
    (b.length = 0 → Hand.Scalar.decode r b = (some .nilScalar, r)) ∧
    (b.length ≠ 0 → b.length ≠ 32 → Hand.Scalar.decode r b = (some .scalarLength, r)) ∧
    (b.length = 32 → os2ip b < N →
        (Hand.Scalar.decode r b).1 = none ∧ sOk (Hand.Scalar.decode r b).2 ∧
        sVal (Hand.Scalar.decode r b).2 = ((os2ip b : Nat) : Fn)) ∧
    (b.length = 32 → ¬ os2ip b < N → (Hand.Scalar.decode r b).1 = some .scalarTooBig) := by
  refine ⟨?_, ?_, ?_, ?_⟩
  · intro h; unfold Hand.Scalar.decode; simp [h]
  · intro h0 h32; unfold Hand.Scalar.decode; simp [h0, h32]
  · intro h32 hlt
    obtain ⟨ok, v, fl⟩ := reduceBytes_spec b h32 hb
    unfold Hand.Scalar.decode
    have h0 : ¬ b.length = 0 := by omega
    have e32 : (32 : Nat) = 0 ↔ False := by decide
    simp only [h32, e32, if_false, ne_eq, not_true_eq_false]
    rw [fl, if_pos hlt]
    simp only [one_ne_zero, if_false]
    exact ⟨trivial, ok, v⟩
  · intro h32 hge
    obtain ⟨ok, v, fl⟩ := reduceBytes_spec b h32 hb
    unfold Hand.Scalar.decode
    have h0 : ¬ b.length = 0 := by omega
    have e32 : (32 : Nat) = 0 ↔ False := by decide
    simp only [h32, e32, if_false, ne_eq, not_true_eq_false]
    rw [fl, if_neg hge]
    simp

/-- `Decode(Encode(s)) = s` -/
theorem sc_decode_encode (r s : L4) (hs : sOk s) : Hand.Scalar.decode r (Hand.Scalar.encode s) = (none, s) := by
  rw [sc_encode s hs]
  have hb : IsBytes (i2osp (sVal s).val 32) := i2osp_isBytes _ _
  have hlen : (i2osp (sVal s).val 32).length = 32 := i2osp_length _ _
  have hv : os2ip (i2osp (sVal s).val 32) = (sVal s).val := by
    rw [os2ip_i2osp]
    apply Nat.mod_eq_of_lt
    have := (sVal s).val_lt
    have hN : N < 256 ^ 32 := by decide
    omega
  obtain ⟨_, _, h3, _⟩ := sc_decode r _ hb
  obtain ⟨e, ok, v⟩ := h3 hlen (by rw [hv]; exact (sVal s).val_lt)
  have : (Hand.Scalar.decode r (i2osp (sVal s).val 32)).2 = s := by
    apply sVal_inj ok hs
    rw [v, hv]; simp
  exact Prod.ext e this

/-- `Encode(Decode(b)) = b` for every accepted `b` -/
theorem sc_encode_decode (r : L4) (b : Bytes) (hb : IsBytes b) (hlen : b.length = 32) (hlt : os2ip b < N) :
    Hand.Scalar.encode (Hand.Scalar.decode r b).2 = b := by
  obtain ⟨_, _, h3, _⟩ := sc_decode r b hb
  obtain ⟨_, ok, v⟩ := h3 hlen hlt
  rw [sc_encode _ ok, v, ZMod.val_natCast, Nat.mod_eq_of_lt hlt]
  have := i2osp_os2ip b hb
  rw [hlen] at this
  exact this
