import Secp.Proofs.ReduceP
import Secp.Proofs.Encode
import Secp.Proofs.SqrtConstsLimb
import Secp.Proofs.SpecBridge
/-!
# Element decoders accept exactly the canonical encodings (C03) and invert the encoders (C04)
-/
open Spec WeierstrassCurve

/-- `FromBytesWithReduce` on 32 bytes: canonical element denoting the integer mod p; flag 1 iff it was `< p` -/
theorem fromBytesWithReduce_spec (b : Bytes) (hlen : b.length = 32) (hb : IsBytes b) :
    limbOk (Hand.Fp.fromBytesWithReduce b).1 ∧ limbVal (Hand.Fp.fromBytesWithReduce b).1 = ((os2ip b : Nat) : Fp) ∧
    (Hand.Fp.fromBytesWithReduce b).2 = (if os2ip b < P then 1 else 0) := by
  obtain ⟨okl, evl⟩ := bytesToLimbs_spec b hlen hb
  unfold Hand.Fp.fromBytesWithReduce
  simp only
  generalize Hand.bytesToLimbs b = l at *
  obtain ⟨okr, evr, fl⟩ := fieldReduce_correct l okl
  rw [Pnat_eq] at evr fl
  obtain ⟨okm, vm⟩ := limb_toMont okr
  refine ⟨okm, ?_, by rw [fl, evl]⟩
  rw [vm, evr, cast_mod_P, evl]

/-- `Secp256Polynomial`: `x³ + 7` -/
theorem poly_spec {x : L4} (hx : limbOk x) :
    limbOk (Curve.secp256Polynomial FL x) ∧ limbVal (Curve.secp256Polynomial FL x) = limbVal x ^ 3 + 7 := by
  have hb := limb_curveConsts.ok_b
  have vb := limb_curveConsts.val_b
  have o1 := limbLawful.ok_square hx
  have o2 := limbLawful.ok_mul o1 hx
  unfold Curve.secp256Polynomial
  simp only
  refine ⟨limbLawful.ok_add o2 hb, ?_⟩
  have e := limbLawful.val_add o2 hb
  have e2 := limbLawful.val_mul o1 hx
  have e3 := limbLawful.val_square hx
  show limbLawful.val _ = _
  rw [e, e2, e3, vb]
  show limbVal x * limbVal x * limbVal x + 7 = _
  ring

theorem one_ok : limbOk FL.one := limbLawful.ok_one
theorem one_val : limbVal FL.one = 1 := limbLawful.val_one

/-- an affine pair `(x, y)` with `z = 1` is a valid element exactly when it is on the curve -/
theorem valid_of_affine (x y : L4) (hx : limbOk x) (hy : limbOk y) (h : limbVal y ^ 2 = limbVal x ^ 3 + 7) :
    PtValid limbLawful ⟨x, y, FL.one⟩ ∧ affPt ⟨x, y, FL.one⟩ = some ((limbVal x).val, (limbVal y).val) := by
  refine ⟨⟨⟨hx, hy, one_ok⟩, ?_, Or.inr (Or.inr ?_)⟩, ?_⟩
  · show limbVal y ^ 2 * limbVal FL.one = limbVal x ^ 3 + 7 * limbVal FL.one ^ 3
    rw [one_val, h]; ring
  · show limbVal FL.one ≠ 0
    rw [one_val]; exact one_ne_zero
  · unfold affPt
    simp only [one_val, one_ne_zero, if_false, div_one]

/-- **DecodeCoordinates** -/
theorem decodeCoordinates_spec (e : Pt L4) (xb yb : Bytes) (hx : IsBytes xb) (hy : IsBytes yb)
    (lx : xb.length = 32) (ly : yb.length = 32) :
    (Spec.decodeCoordinates xb yb = none →
        Hand.ElementL.decodeCoordinates e xb yb = (some .invalidPointEncoding, e)) ∧
    (∀ pt, Spec.decodeCoordinates xb yb = some pt →
        (Hand.ElementL.decodeCoordinates e xb yb).1 = none ∧
        PtValid limbLawful (Hand.ElementL.decodeCoordinates e xb yb).2 ∧
        affPt (Hand.ElementL.decodeCoordinates e xb yb).2 = pt) := by
  obtain ⟨okx, vx, fx⟩ := fromBytesWithReduce_spec xb lx hx
  obtain ⟨oky, vy, fy⟩ := fromBytesWithReduce_spec yb ly hy
  obtain ⟨okp, vp⟩ := poly_spec okx
  have oks := limbLawful.ok_square oky
  have vs : limbVal (FL.square (Hand.Fp.fromBytesWithReduce yb).1) = limbVal (Hand.Fp.fromBytesWithReduce yb).1 ^ 2 := by
    have := limbLawful.val_square oky
    show limbLawful.val _ = _
    rw [this]; show limbVal _ * limbVal _ = _; ring
  -- the curve test of the specification, in ZMod p
  have hon : onCurve (os2ip xb) (os2ip yb) = true ↔ ((os2ip yb : Nat) : Fp) ^ 2 = ((os2ip xb : Nat) : Fp) ^ 3 + 7 := by
    unfold onCurve
    simp only [decide_eq_true_eq]
    constructor
    · intro h
      have := congrArg (fun n : Nat => (n : Fp)) h
      simp only [cast_fmul, cast_fadd] at this
      have h7 : ((7 : Nat) : Fp) = 7 := by simp
      rw [h7] at this
      linear_combination this
    · intro h
      apply cast_inj_of_lt _ _ (fmul_lt _ _) (fadd_lt _ _)
      simp only [cast_fmul, cast_fadd]
      have h7 : ((7 : Nat) : Fp) = 7 := by simp
      rw [h7]
      linear_combination h
  unfold Hand.ElementL.decodeCoordinates Spec.decodeCoordinates Hand.ElementL.F
  simp only [lx, ly, true_and]
  by_cases hxl : os2ip xb < P
  · by_cases hyl : os2ip yb < P
    · rw [fx, fy, if_pos hxl, if_pos hyl]
      simp only [one_ne_zero, if_false]
      by_cases hc : onCurve (os2ip xb) (os2ip yb) = true
      · have heq : limbVal (Curve.secp256Polynomial FL (Hand.Fp.fromBytesWithReduce xb).1) =
            limbVal (FL.square (Hand.Fp.fromBytesWithReduce yb).1) := by
          rw [vp, vs, vx, vy]; exact (hon.mp hc).symm
        have hE : FL.equals (Curve.secp256Polynomial FL (Hand.Fp.fromBytesWithReduce xb).1)
            (FL.square (Hand.Fp.fromBytesWithReduce yb).1) = 1 := limbLawful.equals_of_eq okp oks heq
        rw [hE]
        simp only [hxl, hyl, hc, and_self, if_true, ne_eq, not_true_eq_false, if_false]
        refine ⟨fun h => absurd h (by simp), fun pt hpt => ?_⟩
        have hcurve : limbVal (Hand.Fp.fromBytesWithReduce yb).1 ^ 2 = limbVal (Hand.Fp.fromBytesWithReduce xb).1 ^ 3 + 7 := by
          rw [vx, vy]; exact hon.mp hc
        obtain ⟨hv, ha⟩ := valid_of_affine _ _ okx oky hcurve
        refine ⟨trivial, hv, ?_⟩
        rw [ha, vx, vy, val_cast_of_lt _ hxl, val_cast_of_lt _ hyl]
        exact Option.some.inj hpt
      · have hne : limbVal (Curve.secp256Polynomial FL (Hand.Fp.fromBytesWithReduce xb).1) ≠
            limbVal (FL.square (Hand.Fp.fromBytesWithReduce yb).1) := by
          rw [vp, vs, vx, vy]; intro h; exact hc (hon.mpr h.symm)
        have hE : FL.equals (Curve.secp256Polynomial FL (Hand.Fp.fromBytesWithReduce xb).1)
            (FL.square (Hand.Fp.fromBytesWithReduce yb).1) = 0 := limbLawful.equals_of_ne okp oks hne
        rw [hE]
        simp [hxl, hyl, hc]
    · rw [fx, fy, if_pos hxl, if_neg hyl]
      simp [hxl, hyl]
  · rw [fx, if_neg hxl]
    simp [hxl]

theorem cast_poly (x : Nat) : ((fadd (fmul (fmul x x) x) 7 : Nat) : Fp) = (x : Fp) ^ 3 + 7 := by
  rw [cast_fadd, cast_fmul, cast_fmul]
  have h7 : ((7 : Nat) : Fp) = 7 := by simp
  rw [h7]; ring

/-- the root selected by the specification: a square root of `x³+7` with the requested parity -/
theorem liftX_spec (x par : Nat) (hpar : par = 0 ∨ par = 1) :
    (¬ IsSquare ((x : Fp) ^ 3 + 7) → liftX x par = none) ∧
    (IsSquare ((x : Fp) ^ 3 + 7) → ∃ y, liftX x par = some (x, y) ∧ y < P ∧
        ((y : Nat) : Fp) ^ 2 = (x : Fp) ^ 3 + 7 ∧ y % 2 = par) := by
  unfold liftX
  simp only
  have hcast := cast_poly x
  set y2 := fadd (fmul (fmul x x) x) 7 with hy2
  constructor
  · intro h
    have : isSquare y2 = false := by
      cases hh : isSquare y2
      · rfl
      · exact absurd ((isSquare_iff y2).mp hh) (by rw [hcast]; exact h)
    rw [this]; rfl
  · intro h
    have hs : isSquare y2 = true := (isSquare_iff y2).mpr (by rw [hcast]; exact h)
    rw [hs]
    simp only [if_true]
    have hsq := fsqrt_sq y2 (by rw [hcast]; exact h)
    rw [hcast] at hsq
    have hlt : fsqrt y2 < P := powMod_lt _ _ _ P_gt
    have hne : ((fsqrt y2 : Nat) : Fp) ≠ 0 := by
      intro h0
      rw [h0] at hsq
      exact no_two_torsion (x : Fp) (by rw [← hsq]; simp)
    by_cases hp : fsqrt y2 % 2 = par
    · exact ⟨fsqrt y2, by rw [if_pos hp], hlt, hsq, hp⟩
    · refine ⟨fneg (fsqrt y2), by rw [if_neg hp], fneg_lt _, by rw [cast_fneg, neg_sq]; exact hsq, ?_⟩
      have hv := val_neg_parity _ hne
      rw [← cast_fneg, val_cast_of_lt _ (fneg_lt _), val_cast_of_lt _ hlt] at hv
      rw [hv]
      have := Nat.mod_two_eq_zero_or_one (fsqrt y2)
      omega

theorem xor_bits (a b : Nat) (ha : a = 0 ∨ a = 1) (hb : b = 0 ∨ b = 1) :
    Nat.xor a b = if a = b then 0 else 1 := by
  rcases ha with rfl | rfl <;> rcases hb with rfl | rfl <;> decide

/-- **DecodeCompressed** on a 33-byte string -/
theorem decodeCompressed_spec (e : Pt L4) (pre : Nat) (rest : Bytes) (hb : IsBytes rest) (hl : rest.length = 32) :
    (Spec.decodeCompressed (pre :: rest) = none →
        Hand.ElementL.decodeCompressed e (pre :: rest) = (some .invalidPointEncoding, e)) ∧
    (∀ pt, Spec.decodeCompressed (pre :: rest) = some pt →
        (Hand.ElementL.decodeCompressed e (pre :: rest)).1 = none ∧
        PtValid limbLawful (Hand.ElementL.decodeCompressed e (pre :: rest)).2 ∧
        affPt (Hand.ElementL.decodeCompressed e (pre :: rest)).2 = pt) := by
  obtain ⟨okx, vx, fx⟩ := fromBytesWithReduce_spec rest hl hb
  obtain ⟨okp, vp⟩ := poly_spec okx
  have hone0 : limbLawful.val FL.one ≠ 0 := by rw [limbLawful.val_one]; exact one_ne_zero
  obtain ⟨okr, hr⟩ := sqrtRatio_spec limbLawful limb_sqrtConsts _ _ okp limbLawful.ok_one hone0
  have hv1 : limbLawful.val FL.one = 1 := limbLawful.val_one
  have hvp : limbLawful.val (Curve.secp256Polynomial FL (Hand.Fp.fromBytesWithReduce rest).1) =
      ((os2ip rest : Nat) : Fp) ^ 3 + 7 := by
    show limbVal _ = _
    rw [vp, vx]
  rw [hv1, div_one, hvp] at hr
  unfold Hand.ElementL.decodeCompressed Spec.decodeCompressed Hand.ElementL.F
  have hlen : (pre :: rest).length = 33 := by simp [hl]
  simp only [hlen, ne_eq, not_true_eq_false, if_false, List.headD_cons, List.drop_succ_cons, List.drop_zero, hl, true_and]
  by_cases hpre : pre = 2 ∨ pre = 3
  · have hnp : ¬ (¬ pre = 2 ∧ ¬ pre = 3) := by tauto
    rw [if_neg hnp, if_pos hpre]
    by_cases hxl : os2ip rest < P
    · rw [fx, if_pos hxl, if_pos hxl]
      simp only [one_ne_zero, if_false]
      have hpar : pre - 2 = 0 ∨ pre - 2 = 1 := by rcases hpre with rfl | rfl <;> simp
      obtain ⟨hno, hyes⟩ := liftX_spec (os2ip rest) (pre - 2) hpar
      rcases hr with ⟨hsq, hflag, hroot⟩ | ⟨hnsq, hflag, _⟩
      · -- square: accepted
        obtain ⟨y, hlift, hylt, hysq, hypar⟩ := hyes hsq
        rw [hflag, hlift]
        simp only [ne_eq, not_true_eq_false, if_false, Option.map_some]
        refine ⟨fun h => absurd h (by simp), fun pt hpt => ?_⟩
        generalize hrr : (FieldChains.sqrtRatio FL (Curve.secp256Polynomial FL (Hand.Fp.fromBytesWithReduce rest).1) FL.one).1 = r at *
        have okn := limbLawful.ok_neg okr
        have vn : limbVal (FL.neg r) = - limbVal r := limbLawful.val_neg okr
        have hsg : FL.sgn0 r = (limbVal r).val % 2 := limb_sgn0 okr.1
        have hrne : limbVal r ≠ 0 := by
          intro h0
          have : (limbLawful.val r) ^ 2 = 0 := by show limbVal r ^ 2 = 0; rw [h0]; simp
          rw [hroot] at this
          exact no_two_torsion _ this
        have hl1 : Nat.land pre 1 = pre - 2 := by rcases hpre with rfl | rfl <;> decide
        have hsb : FL.sgn0 r = 0 ∨ FL.sgn0 r = 1 := by rw [hsg]; exact Nat.mod_two_eq_zero_or_one _
        rw [hl1, xor_bits _ _ hsb hpar]
        -- the selected ordinate Y
        have key : ∀ Y : L4, limbOk Y → limbVal Y ^ 2 = ((os2ip rest : Nat) : Fp) ^ 3 + 7 → (limbVal Y).val % 2 = pre - 2 →
            PtValid limbLawful ⟨(Hand.Fp.fromBytesWithReduce rest).1, Y, FL.one⟩ ∧
            affPt ⟨(Hand.Fp.fromBytesWithReduce rest).1, Y, FL.one⟩ = pt := by
          intro Y okY sqY parY
          obtain ⟨hv, ha⟩ := valid_of_affine _ Y okx okY (by rw [vx]; exact sqY)
          refine ⟨hv, ?_⟩
          rw [ha, vx, val_cast_of_lt _ hxl]
          have hYy : limbVal Y = ((y : Nat) : Fp) :=
            root_unique _ _ (by rw [sqY, hysq]) (by rw [parY, val_cast_of_lt _ hylt, hypar])
          rw [hYy, val_cast_of_lt _ hylt]
          exact Option.some.inj hpt
        by_cases hc : FL.sgn0 r = pre - 2
        · rw [if_pos hc, limbLawful.cmove_zero okr okn]
          exact ⟨trivial, key r okr hroot (by rw [← hsg]; exact hc)⟩
        · rw [if_neg hc, limbLawful.cmove_one okr okn]
          refine ⟨trivial, key (FL.neg r) okn (by rw [vn, neg_sq]; exact hroot) ?_⟩
          rw [vn, val_neg_parity _ hrne, ← hsg]
          rcases hsb with h | h <;> rcases hpar with h' | h' <;> omega
      · -- not a square: rejected by both
        rw [hflag, hno hnsq]
        simp
    · rw [fx, if_neg hxl, if_neg hxl]
      simp
  · have hnp : ¬ pre = 2 ∧ ¬ pre = 3 := by tauto
    rw [if_pos hnp, if_neg hpre]
    simp

theorem isBytes_tail {x : Nat} {xs : Bytes} (h : IsBytes (x :: xs)) : IsBytes xs :=
  fun y hy => h y (List.mem_cons_of_mem _ hy)

/-- **DecodeUncompressed** on a 65-byte string -/
theorem decodeUncompressed_spec (e : Pt L4) (pre : Nat) (rest : Bytes) (hb : IsBytes rest) (hl : rest.length = 64) :
    (Spec.decodeUncompressed (pre :: rest) = none →
        Hand.ElementL.decodeUncompressed e (pre :: rest) = (some .invalidPointEncoding, e)) ∧
    (∀ pt, Spec.decodeUncompressed (pre :: rest) = some pt →
        (Hand.ElementL.decodeUncompressed e (pre :: rest)).1 = none ∧
        PtValid limbLawful (Hand.ElementL.decodeUncompressed e (pre :: rest)).2 ∧
        affPt (Hand.ElementL.decodeUncompressed e (pre :: rest)).2 = pt) := by
  have hx : IsBytes (rest.take 32) := fun y hy => hb y (List.mem_of_mem_take hy)
  have hy : IsBytes (rest.drop 32) := fun y hy => hb y (List.mem_of_mem_drop hy)
  have lx : (rest.take 32).length = 32 := by simp [hl]
  have ly : (rest.drop 32).length = 32 := by simp [hl]
  have hc := decodeCoordinates_spec e (rest.take 32) (rest.drop 32) hx hy lx ly
  unfold Hand.ElementL.decodeUncompressed
  have hlen : (pre :: rest).length = 65 := by simp [hl]
  simp only [hlen, ne_eq, not_true_eq_false, if_false, List.headD_cons, List.drop_succ_cons, List.drop_zero]
  by_cases hpre : pre = 4
  · subst hpre
    simp only [not_true_eq_false, if_false]
    have : Spec.decodeUncompressed (4 :: rest) = Spec.decodeCoordinates (rest.take 32) (rest.drop 32) := by
      unfold Spec.decodeUncompressed; simp [hl]
    rw [this]
    exact hc
  · have : Spec.decodeUncompressed (pre :: rest) = none := by
      unfold Spec.decodeUncompressed
      split
      · next h => exact absurd (List.cons.inj h).1 hpre
      · rfl
    rw [this, if_pos hpre]
    exact ⟨fun _ => rfl, fun pt h => absurd h (by simp)⟩

theorem affPt_identity : affPt (Hand.Element.identity FL) = none := by
  unfold affPt Hand.Element.identity
  have : limbVal FL.zero = 0 := limbLawful.val_zero
  simp [this]

/-- **Decode**, for every byte string: it is accepted exactly when the specification accepts it (the single byte 00,
33 bytes 02/03‖x with x < p and x³+7 a square, 65 bytes 04‖x‖y with x, y < p on the curve); an accepted input sets
the receiver to a valid representation of precisely that point; every other input returns the error and the
receiver is unchanged. -/
theorem decode_spec (e : Pt L4) (data : Bytes) (hb : IsBytes data) :
    (Spec.decode data = none → Hand.ElementL.decode e data = (some .invalidPointEncoding, e)) ∧
    (∀ pt, Spec.decode data = some pt →
        (Hand.ElementL.decode e data).1 = none ∧ PtValid limbLawful (Hand.ElementL.decode e data).2 ∧
        affPt (Hand.ElementL.decode e data).2 = pt) := by
  unfold Hand.ElementL.decode Spec.decode
  by_cases h1 : data.length = 1
  · obtain ⟨x, rfl⟩ : ∃ x, data = [x] := by
      match data, h1 with
      | [x], _ => exact ⟨x, rfl⟩
    simp only [List.length_singleton, if_true, List.headD_cons]
    by_cases hx : x = 0
    · subst hx
      simp only [ne_eq, not_true_eq_false, if_false, if_true]
      refine ⟨fun h => absurd h (by simp), fun pt hpt => ⟨trivial, identity_valid limbLawful, ?_⟩⟩
      rw [show Hand.ElementL.F = FL from rfl, affPt_identity]
      exact Option.some.inj hpt
    · have hne : ¬ ([x] : Bytes) = [0] := by simpa using hx
      simp only [ne_eq, hx, not_false_eq_true, if_true, hne, if_false, List.length_singleton]
      exact ⟨fun _ => trivial, fun pt h => absurd h (by simp)⟩
  · have hne : ¬ data = [0] := fun h => h1 (by rw [h]; rfl)
    simp only [h1, hne, if_false]
    by_cases h33 : data.length = 33
    · obtain ⟨pre, rest, rfl⟩ : ∃ p r, data = p :: r := by
        match data, h33 with
        | p :: r, _ => exact ⟨p, r, rfl⟩
      have hl : rest.length = 32 := by simpa using h33
      simp only [h33, if_true]
      exact decodeCompressed_spec e pre rest (isBytes_tail hb) hl
    · simp only [h33, if_false]
      by_cases h65 : data.length = 65
      · obtain ⟨pre, rest, rfl⟩ : ∃ p r, data = p :: r := by
          match data, h65 with
          | p :: r, _ => exact ⟨p, r, rfl⟩
        have hl : rest.length = 64 := by simpa using h65
        simp only [h65, if_true]
        exact decodeUncompressed_spec e pre rest (isBytes_tail hb) hl
      · simp only [h65, if_false]
        exact ⟨fun _ => trivial, fun pt h => absurd h (by simp)⟩

