import Secp.Proofs.LimbLawful
import Secp.Proofs.SqrtRatio
/-! # The constant `c2 = sqrt(-Z)` of `SqrtRatio` at the limb implementation -/
open Spec

theorem limb_sqrtConsts : SqrtConsts limbLawful where
  ok_c2 := ⟨by decide, by decide⟩
  sq_c2 := by
    have h : limbVal ⟨10660218062043021626, 12685808213265501903, 5194980534593283555, 4353995932822220413⟩ =
        ((22612019078283109002402354608917265420620653587239490778472842791191070919257 : Nat) : Fp) :=
      limbVal_of_mont _ _ (by decide)
    show limbVal ⟨10660218062043021626, 12685808213265501903, 5194980534593283555, 4353995932822220413⟩ ^ 2 = 11
    rw [h, ← Nat.cast_pow]
    have : (11 : Fp) = ((11 : Nat) : Fp) := by simp
    rw [this, ZMod.natCast_eq_natCast_iff']
    decide

