import Secp.Proofs.ToMont
/-!
# `Reduce`: the range check `x < m` by the borrow of `x - m`, and the conditional subtraction
-/



theorem mask_select (d x b : Nat) (hd : d < W) (hx : x < W) (hb : b ≤ 1) :
    Nat.lor (Nat.land d (wnot (wneg b))) (Nat.land x (wneg b)) = if b = 0 then d else x := by
  have hW : W = 2^64 := rfl
  rcases Nat.le_one_iff_eq_zero_or_eq_one.mp hb with h | h
  · subst h
    have e1 : wneg 0 = 0 := by decide
    have e2 : wnot 0 = W - 1 := by decide
    rw [e1, e2]
    show (d &&& (W - 1)) ||| (x &&& 0) = _
    rw [hW, Nat.and_two_pow_sub_one_eq_mod, Nat.mod_eq_of_lt (by rw [← hW]; exact hd)]
    simp
  · subst h
    have e1 : wneg 1 = W - 1 := by decide
    have e2 : wnot (W - 1) = 0 := by decide
    rw [e1, e2]
    show (d &&& 0) ||| (x &&& (W - 1)) = _
    rw [hW, Nat.and_two_pow_sub_one_eq_mod, Nat.mod_eq_of_lt (by rw [← hW]; exact hx)]
    simp

theorem refReduce_correct (M : Modulus) (hM : M.Valid) (hMlt : M.val < W^4) (hbig : W^4 < 2 * M.val) (x : L4) (hx : x.ok) :
    (refReduce M x).1.ok ∧ (refReduce M x).1.eval = x.eval % M.val ∧
    (refReduce M x).2 = (if x.eval < M.val then 1 else 0) := by
  obtain ⟨x0, x1, x2, x3⟩ := hx
  unfold refReduce
  simp only
  obtain ⟨f0, m0, c0⟩ := sub64_spec x.l0 M.m0 0 x0 hM.h0 (by omega)
  generalize sub64 x.l0 M.m0 0 = d0 at *
  obtain ⟨f1, m1, c1⟩ := sub64_spec x.l1 M.m1 d0.2 x1 hM.h1 c0
  generalize sub64 x.l1 M.m1 d0.2 = d1 at *
  obtain ⟨f2, m2, c2⟩ := sub64_spec x.l2 M.m2 d1.2 x2 hM.h2 c1
  generalize sub64 x.l2 M.m2 d1.2 = d2 at *
  obtain ⟨f3, m3, c3⟩ := sub64_spec x.l3 M.m3 d2.2 x3 hM.h3 c2
  generalize sub64 x.l3 M.m3 d2.2 = d3 at *
  rw [mask_select _ _ _ m0 x0 c3, mask_select _ _ _ m1 x1 c3, mask_select _ _ _ m2 x2 c3, mask_select _ _ _ m3 x3 c3]
  have hsub : eval4 d0.1 d1.1 d2.1 d3.1 + M.val = x.eval + W^4 * d3.2 := by
    rw [Modulus.val_eq]
    unfold eval4 L4.eval
    linear_combination f0 + W * f1 + W^2 * f2 + W^3 * f3
  have hW4 : W^4 = 2^256 := by decide
  have hD : eval4 d0.1 d1.1 d2.1 d3.1 < W^4 := by unfold eval4; simp only [W] at *; omega
  have hX : x.eval < W^4 := by unfold L4.eval; simp only [W] at *; omega
  by_cases hb : d3.2 = 0
  · simp only [hb, if_true]
    rw [hb] at hsub
    refine ⟨⟨m0, m1, m2, m3⟩, ?_, ?_⟩
    · rw [L4.eval_eq]
      simp only
      generalize eval4 d0.1 d1.1 d2.1 d3.1 = D at *
      generalize x.eval = X at *
      generalize M.val = Mv at *
      have hge : Mv ≤ X := by omega
      have : D = X - Mv := by omega
      rw [this]
      have h2 : X - Mv < Mv := by simp only [hW4] at *; omega
      rw [Nat.mod_eq_sub_mod hge, Nat.mod_eq_of_lt h2]
    · have : ¬ (x.eval < M.val) := by omega
      simp [this]
  · have hb1 : d3.2 = 1 := by omega
    simp only [hb, if_false]
    rw [hb1] at hsub
    have hlt : x.eval < M.val := by simp only [hW4] at *; omega
    refine ⟨⟨x0, x1, x2, x3⟩, ?_, ?_⟩
    · have : (⟨x.l0, x.l1, x.l2, x.l3⟩ : L4) = x := by cases x; rfl
      rw [this]; exact (Nat.mod_eq_of_lt hlt).symm
    · simp [hlt, hb1]
