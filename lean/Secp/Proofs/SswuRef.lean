import Secp.Gen.Curve
/-!
# Structured reference for the generated `SSWU` (definitional tie)
-/
variable {α : Type}

def swA (F : FieldOps α) : α := F.ofMont 15812504324673914017 4924912935180573090 11593825521208392688 5790129131709978969
def swB (F : FieldOps α) : α := F.ofMont 7606388811483 0 0 0
def swZ (F : FieldOps α) : α := F.ofMont 18446744022169932340 18446744073709551615 18446744073709551615 18446744073709551615

/-- tv1 = Z·u² -/
def swTv1 (F : FieldOps α) (u : α) : α := F.mul (swZ F) (F.square u)
/-- tv2 = tv1² + tv1 -/
def swT (F : FieldOps α) (tv1 : α) : α := F.add (F.square tv1) tv1
/-- numerator of x1: B·(tv2 + 1) -/
def swN (F : FieldOps α) (t : α) : α := F.mul (swB F) (F.add t F.one)
/-- denominator of x1: A·CMOV(-tv2, Z, tv2 == 0) -/
def swD (F : FieldOps α) (t : α) : α := F.mul (swA F) (F.cmove (F.isZero t) (F.neg t) (swZ F))
/-- numerator and denominator of g(x1) -/
def swGNum (F : FieldOps α) (N D : α) : α :=
  F.add (F.mul (F.add (F.square N) (F.mul (swA F) (F.square D))) N) (F.mul (swB F) (F.mul (F.square D) D))
def swGDen (F : FieldOps α) (D : α) : α := F.mul (F.square D) D

/-- output stage: candidate selection by `sqrt_ratio`, sign fix, final division -/
def swOut (F : FieldOps α) (u tv1 N D : α) : Pt α :=
  let r := FieldChains.sqrtRatio F (swGNum F N D) (swGDen F D)
  let y := F.cmove r.2 (F.mul (F.mul tv1 u) r.1) r.1
  let e1 := FiatField.isEqual (F.sgn0 u) (F.sgn0 y)
  ⟨F.mul (F.cmove r.2 (F.mul tv1 N) N) (FieldChains.invert F D), F.cmove e1 (F.neg y) y, F.one⟩

theorem sswu_tie (F : FieldOps α) (u : α) :
    Curve.sswu F u = swOut F u (swTv1 F u) (swN F (swT F (swTv1 F u))) (swD F (swT F (swTv1 F u))) := rfl
