import Secp.Hand.Slices
import Mathlib.Tactic.Ring
/-!
# Frame and freshness for the slice model of `vetDSTXMD` (C15)
-/
namespace Hand.Slices
open Spec (Bytes)

theorem alloc_frame (h : Heap) (c : Bytes) (cap : Nat) (i : Nat) (hi : i < h.length) :
    (alloc h c cap).1.getD i [] = h.getD i [] := by
  unfold alloc
  simp only [List.getD_eq_getElem?_getD]
  rw [List.getElem?_append_left hi]

theorem alloc_len (h : Heap) (c : Bytes) (cap : Nat) : (alloc h c cap).1.length = h.length + 1 := by
  unfold alloc; simp

theorem alloc_buf (h : Heap) (c : Bytes) (cap : Nat) : (alloc h c cap).2.buf = h.length := rfl

/-- `append` onto a slice of buffer `b` leaves every other buffer alone -/
theorem append_frame (h : Heap) (s : Slice) (bs : Bytes) (i : Nat) (hi : i < h.length) (hne : i ≠ s.buf) :
    (append h s bs).1.getD i [] = h.getD i [] := by
  unfold append
  split
  · simp only [List.getD_eq_getElem?_getD]
    rw [List.getElem?_set_ne (Ne.symm hne)]
  · exact alloc_frame h _ _ i hi

theorem append_len_ge (h : Heap) (s : Slice) (bs : Bytes) : h.length ≤ (append h s bs).1.length := by
  unfold append
  split
  · simp
  · rw [alloc_len]; omega

/-- the buffer of the result of `append` is the old one or a fresh one -/
theorem append_buf (h : Heap) (s : Slice) (bs : Bytes) : (append h s bs).2.buf = s.buf ∨ (append h s bs).2.buf = h.length := by
  unfold append
  split
  · left; rfl
  · right; rfl

/-- **frame**: `vetDSTXMD` changes no buffer that existed before the call — in particular not the caller's DST backing
array, over its whole length *including the spare capacity beyond the slice* — whatever the layout `(off, len, cap)`;
and **fresh**: the returned slice lives in a buffer allocated by the call. -/
theorem vetDST_frame (H : Bytes → Bytes) (h : Heap) (dst : Slice) :
    (∀ i, i < h.length → (vetDST H h dst).1.getD i [] = h.getD i []) ∧ h.length ≤ (vetDST H h dst).2.buf := by
  unfold vetDST
  simp only
  -- stage 1: optional hashing of an oversize DST into a fresh buffer
  set hd := (if dst.len > 255 then alloc h (H (Hand.Group.dstLongPrefix ++ read h dst)) 32 else (h, dst)) with hhd
  have f1 : ∀ i, i < h.length → hd.1.getD i [] = h.getD i [] := by
    intro i hi
    rw [hhd]; split
    · exact alloc_frame h _ _ i hi
    · rfl
  have l1 : h.length ≤ hd.1.length := by
    rw [hhd]; split
    · rw [alloc_len]; omega
    · exact Nat.le_refl _
  -- stage 2: make([]byte, 0, len+1)
  set hp := alloc hd.1 [] (hd.2.len + 1) with hhp
  have f2 : ∀ i, i < hd.1.length → hp.1.getD i [] = hd.1.getD i [] := fun i hi => alloc_frame _ _ _ i hi
  have l2 : hp.1.length = hd.1.length + 1 := alloc_len _ _ _
  have b2 : hp.2.buf = hd.1.length := rfl
  -- stage 3: append(dstPrime, dst...) : written into the new buffer or a newer one
  set h3 := append hp.1 hp.2 (read hp.1 hd.2) with hh3
  have f3 : ∀ i, i < hd.1.length → h3.1.getD i [] = hp.1.getD i [] := by
    intro i hi
    exact append_frame _ _ _ i (by omega) (by rw [b2]; omega)
  have l3 : hp.1.length ≤ h3.1.length := append_len_ge _ _ _
  have b3 : h3.2.buf = hd.1.length ∨ h3.2.buf = hp.1.length := by
    rcases append_buf hp.1 hp.2 (read hp.1 hd.2) with e | e
    · left; rw [← b2]; exact e
    · right; exact e
  -- stage 4: append the length byte
  have f4 : ∀ i, i < hd.1.length → (append h3.1 h3.2 [(Hand.Group.i2osp1 hd.2.len).headD 0]).1.getD i [] = h3.1.getD i [] := by
    intro i hi
    apply append_frame _ _ _ i (by omega)
    rcases b3 with e | e <;> rw [e] <;> omega
  constructor
  · intro i hi
    have hi1 : i < hd.1.length := by omega
    rw [f4 i hi1, f3 i hi1, f2 i hi1, f1 i hi]
  · rcases append_buf h3.1 h3.2 [(Hand.Group.i2osp1 hd.2.len).headD 0] with e | e
    · rw [e]; rcases b3 with e' | e' <;> rw [e'] <;> omega
    · rw [e]; omega

end Hand.Slices
