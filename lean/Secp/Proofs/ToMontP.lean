import Secp.Proofs.ToMont
import Secp.Proofs.FromMontP
/-! # `ToMont`: the base-field instances (regenerated `FiatField` code) -/

theorem toMont_tie_p (x : L4) : FiatField.toMontgomery x = refToMontP Mp 8392367050913 x := by
  unfold FiatField.toMontgomery refToMontP condSub redStep add4r rowP addShift mulRow Mp
  simp only [cmov_tie_p]

/-- `ToMontgomery` (base field): `out · R ≡ x · R²`, canonical output, for every 4-limb input -/
theorem fieldToMont_correct (x : L4) (hx : x.ok) :
    (FiatField.toMontgomery x).ok ∧ (FiatField.toMontgomery x).eval < Pnat ∧
    ((FiatField.toMontgomery x).eval * W^4) % Pnat = (x.eval * R2pNat) % Pnat := by
  rw [toMont_tie_p, ← R2p_eq, ← Mp_val]
  exact refToMontP_correct Mp Mp_valid Mp_lt 8392367050913 (by decide) (by decide) x hx
