import Secp.Proofs.FromMont
/-!
# `ToMontgomery`: generated code = reference (definitional); reference is Montgomery multiplication by `R² mod m`
-/



/-- one reduction round keeps the accumulator below `m + B` when the input is below `m + W·B` -/
theorem tm_round (M : Modulus) (hM : M.Valid) (t : L5) (ht : t.ok) (B : Nat) (hT : eval5 t < M.val + W * B) :
    ∃ m, m < W ∧ W * eval5 (redStep M t) = eval5 t + m * M.val ∧
      (redStep M t).l0 < W ∧ (redStep M t).l1 < W ∧ (redStep M t).l2 < W ∧ (redStep M t).l3 < W ∧
      (redStep M t).l4 ≤ 1 ∧ eval5 (redStep M t) < M.val + B := by
  obtain ⟨m, hm, er, r0, r1, r2, r3, r4⟩ := redStep_spec M hM t ht
  refine ⟨m, hm, er, r0, r1, r2, r3, r4, ?_⟩
  have b2 : m * M.val ≤ (W - 1) * M.val := Nat.mul_le_mul_right _ (by omega)
  generalize eval5 (redStep M t) = R at *
  generalize eval5 t = T at *
  generalize m * M.val = p2 at *
  generalize M.val = Mv at *
  simp only [W] at *
  omega

theorem add5c_spec (a r : L5) (a0 : a.l0 < W) (a1 : a.l1 < W) (a2 : a.l2 < W) (a3 : a.l3 < W) (a4 : a.l4 ≤ 1)
    (hr : r.ok) (hsum : eval5 a + eval5 r < W^5) :
    eval5 (add5c a r) = eval5 a + eval5 r ∧ (add5c a r).ok := by
  obtain ⟨r0, r1, r2, r3, r4⟩ := hr
  unfold add5c
  simp only
  obtain ⟨f0, m0, c0⟩ := add64_spec a.l0 r.l0 0 a0 r0 (by omega)
  generalize add64 a.l0 r.l0 0 = s0 at *
  obtain ⟨f1, m1, c1⟩ := add64_spec a.l1 r.l1 s0.2 a1 r1 c0
  generalize add64 a.l1 r.l1 s0.2 = s1 at *
  obtain ⟨f2, m2, c2⟩ := add64_spec a.l2 r.l2 s1.2 a2 r2 c1
  generalize add64 a.l2 r.l2 s1.2 = s2 at *
  obtain ⟨f3, m3, c3⟩ := add64_spec a.l3 r.l3 s2.2 a3 r3 c2
  generalize add64 a.l3 r.l3 s2.2 = s3 at *
  have hw1 : wadd s3.2 a.l4 = s3.2 + a.l4 := by
    unfold wadd; apply Nat.mod_eq_of_lt; simp only [W] at *; omega
  -- value of the four low limbs plus the three top contributions
  have hval : (s0.1 + W * s1.1 + W^2 * s2.1 + W^3 * s3.1) + W^4 * (s3.2 + a.l4 + r.l4) = eval5 a + eval5 r := by
    unfold eval5
    linear_combination f0 + W * f1 + W^2 * f2 + W^3 * f3
  have hW4 : W^4 = 2^256 := by decide
  have hW5 : W^5 = 2^320 := by decide
  have htop : s3.2 + a.l4 + r.l4 < W := by
    generalize (s0.1 + W * s1.1 + W^2 * s2.1 + W^3 * s3.1) = Lo at *
    generalize eval5 a + eval5 r = S at *
    simp only [W, hW4, hW5] at *
    omega
  have hw2 : wadd (wadd s3.2 a.l4) r.l4 = s3.2 + a.l4 + r.l4 := by
    rw [hw1]; unfold wadd; exact Nat.mod_eq_of_lt htop
  rw [hw2]
  refine ⟨?_, m0, m1, m2, m3, htop⟩
  rw [← hval]; unfold eval5; ring

theorem rowP_spec (x c : Nat) (hx : x < W) (hc : c < W) : eval5 (rowP x c) = x * (c + W) ∧ (rowP x c).ok := by
  unfold rowP
  simp only
  obtain ⟨e, l, u⟩ := mul64_spec x c hx hc
  generalize mul64 x c = p at *
  have hu : p.1 < W := by simp only [W] at *; omega
  obtain ⟨f, m, cc⟩ := add64_spec p.1 x 0 hu hx (by omega)
  generalize add64 p.1 x 0 = s at *
  refine ⟨?_, l, m, by simp only [W] at *; omega, W_pos, W_pos⟩
  unfold eval5
  simp only
  linear_combination e + W * f

theorem add4r_spec (a r : L5) (a0 : a.l0 < W) (a1 : a.l1 < W) (a2 : a.l2 < W) (a3 : a.l3 < W) (a4 : a.l4 ≤ 1)
    (r0 : r.l0 < W) (r1 : r.l1 < W) (r2 : r.l2 < W) (r3 : r.l3 = 0) (r4 : r.l4 = 0) :
    eval5 (add4r a r) = eval5 a + eval5 r ∧ (add4r a r).ok := by
  unfold add4r
  simp only
  obtain ⟨f0, m0, c0⟩ := add64_spec a.l0 r.l0 0 a0 r0 (by omega)
  generalize add64 a.l0 r.l0 0 = s0 at *
  obtain ⟨f1, m1, c1⟩ := add64_spec a.l1 r.l1 s0.2 a1 r1 c0
  generalize add64 a.l1 r.l1 s0.2 = s1 at *
  obtain ⟨f2, m2, c2⟩ := add64_spec a.l2 r.l2 s1.2 a2 r2 c1
  generalize add64 a.l2 r.l2 s1.2 = s2 at *
  obtain ⟨f3, m3, c3⟩ := add64_spec a.l3 0 s2.2 a3 W_pos c2
  generalize add64 a.l3 0 s2.2 = s3 at *
  have hw1 : wadd s3.2 a.l4 = s3.2 + a.l4 := by
    unfold wadd; apply Nat.mod_eq_of_lt; simp only [W] at *; omega
  rw [hw1]
  refine ⟨?_, m0, m1, m2, m3, by simp only [W] at *; omega⟩
  unfold eval5
  simp only [r3, r4]
  linear_combination f0 + W * f1 + W^2 * f2 + W^3 * f3

/-- final step shared by both variants: conditional subtraction and the congruence -/
theorem tm_final (M : Modulus) (hM : M.Valid) (hMlt : M.val < W^4) (A3 : L5) (X K : Nat)
    (q0 : A3.l0 < W) (q1 : A3.l1 < W) (q2 : A3.l2 < W) (q3 : A3.l3 < W) (q4 : A3.l4 ≤ 1)
    (hb : eval5 A3 < 2 * M.val) (total : W^4 * eval5 A3 = X + K * M.val) :
    (condSub M A3).ok ∧ (condSub M A3).eval < M.val ∧ ((condSub M A3).eval * W^4) % M.val = X % M.val := by
  have cs := condSub_spec M hM hMlt A3 q0 q1 q2 q3 (by omega) hb
  simp only at cs
  obtain ⟨o0, o1, o2, o3, olt, oval⟩ := cs
  refine ⟨⟨o0, o1, o2, o3⟩, by rw [L4.eval_eq]; exact olt, ?_⟩
  rw [L4.eval_eq]
  generalize eval4 (condSub M A3).l0 (condSub M A3).l1 (condSub M A3).l2 (condSub M A3).l3 = V at *
  rcases oval with h | h
  · rw [h, Nat.mul_comm, total, Nat.add_mul_mod_self_right]
  · have : V * W^4 + W^4 * M.val = X + K * M.val := by
      rw [← total, ← h]; ring
    have h2 : (V * W^4 + W^4 * M.val) % M.val = (V * W^4) % M.val := Nat.add_mul_mod_self_right _ _ _
    rw [← h2, this, Nat.add_mul_mod_self_right]

theorem refToMontN_correct (M : Modulus) (hM : M.Valid) (hMlt : M.val < W^4) (B : L4) (hB : B.ok)
    (hBlt : B.eval < M.val) (hfit : M.val + W * B.eval < W^5) (x : L4) (hx : x.ok) :
    (refToMontN M B x).ok ∧ (refToMontN M B x).eval < M.val ∧
    ((refToMontN M B x).eval * W^4) % M.val = (x.eval * B.eval) % M.val := by
  obtain ⟨x0, x1, x2, x3⟩ := hx
  obtain ⟨b0, b1, b2, b3⟩ := hB
  unfold refToMontN
  simp only
  have hBe : B.eval = eval4 B.l0 B.l1 B.l2 B.l3 := rfl
  have rowb : ∀ xi, xi < W → xi * B.eval ≤ (W - 1) * B.eval := fun xi h => Nat.mul_le_mul_right _ (by omega)
  -- round 0
  obtain ⟨ev0, ok0⟩ := mulRow_spec x.l0 B.l0 B.l1 B.l2 B.l3 x0 b0 b1 b2 b3
  rw [← hBe] at ev0
  have hT0 : eval5 (mulRow x.l0 B.l0 B.l1 B.l2 B.l3) < M.val + W * B.eval := by
    rw [ev0]; have := rowb x.l0 x0
    generalize x.l0 * B.eval = p at *; generalize B.eval = Bv at *; simp only [W] at *; omega
  obtain ⟨m0, hm0, e0, a00, a01, a02, a03, a04, bA0⟩ := tm_round M hM _ ok0 B.eval hT0
  rw [ev0] at e0
  generalize redStep M (mulRow x.l0 B.l0 B.l1 B.l2 B.l3) = A0 at *
  -- generic later round
  have round : ∀ (A : L5) (xi : Nat), A.l0 < W → A.l1 < W → A.l2 < W → A.l3 < W → A.l4 ≤ 1 → xi < W →
      eval5 A < M.val + B.eval →
      ∃ m, m < W ∧ W * eval5 (redStep M (add5c A (mulRow xi B.l0 B.l1 B.l2 B.l3))) = eval5 A + xi * B.eval + m * M.val ∧
        (redStep M (add5c A (mulRow xi B.l0 B.l1 B.l2 B.l3))).l0 < W ∧ (redStep M (add5c A (mulRow xi B.l0 B.l1 B.l2 B.l3))).l1 < W ∧
        (redStep M (add5c A (mulRow xi B.l0 B.l1 B.l2 B.l3))).l2 < W ∧ (redStep M (add5c A (mulRow xi B.l0 B.l1 B.l2 B.l3))).l3 < W ∧
        (redStep M (add5c A (mulRow xi B.l0 B.l1 B.l2 B.l3))).l4 ≤ 1 ∧
        eval5 (redStep M (add5c A (mulRow xi B.l0 B.l1 B.l2 B.l3))) < M.val + B.eval := by
    intro A xi q0 q1 q2 q3 q4 hxi hA
    obtain ⟨ev, okr⟩ := mulRow_spec xi B.l0 B.l1 B.l2 B.l3 hxi b0 b1 b2 b3
    rw [← hBe] at ev
    have hb := rowb xi hxi
    have hsum : eval5 A + eval5 (mulRow xi B.l0 B.l1 B.l2 B.l3) < W^5 := by
      rw [ev]
      generalize xi * B.eval = p at *; generalize eval5 A = Av at *; generalize B.eval = Bv at *
      generalize M.val = Mv at *
      have hW5 : W^5 = 2^320 := by decide
      simp only [W, hW5] at *; omega
    obtain ⟨et, okt⟩ := add5c_spec A _ q0 q1 q2 q3 q4 okr hsum
    have hT : eval5 (add5c A (mulRow xi B.l0 B.l1 B.l2 B.l3)) < M.val + W * B.eval := by
      rw [et, ev]
      generalize xi * B.eval = p at *; generalize eval5 A = Av at *; generalize B.eval = Bv at *
      simp only [W] at *; omega
    obtain ⟨m, hm, e, r0, r1, r2, r3, r4, bb⟩ := tm_round M hM _ okt B.eval hT
    exact ⟨m, hm, by rw [e, et, ev], r0, r1, r2, r3, r4, bb⟩
  obtain ⟨m1, hm1, e1, a10, a11, a12, a13, a14, bA1⟩ := round A0 x.l1 a00 a01 a02 a03 a04 x1 bA0
  generalize redStep M (add5c A0 (mulRow x.l1 B.l0 B.l1 B.l2 B.l3)) = A1 at *
  obtain ⟨m2, hm2, e2, a20, a21, a22, a23, a24, bA2⟩ := round A1 x.l2 a10 a11 a12 a13 a14 x2 bA1
  generalize redStep M (add5c A1 (mulRow x.l2 B.l0 B.l1 B.l2 B.l3)) = A2 at *
  obtain ⟨m3, hm3, e3, a30, a31, a32, a33, a34, bA3⟩ := round A2 x.l3 a20 a21 a22 a23 a24 x3 bA2
  generalize redStep M (add5c A2 (mulRow x.l3 B.l0 B.l1 B.l2 B.l3)) = A3 at *
  have total : W^4 * eval5 A3 = x.eval * B.eval + (m0 + W * m1 + W^2 * m2 + W^3 * m3) * M.val := by
    have hxe : x.eval = x.l0 + W * x.l1 + W^2 * x.l2 + W^3 * x.l3 := rfl
    rw [hxe]
    generalize B.eval = Bv at *
    linear_combination W^3 * e3 + W^2 * e2 + W * e1 + e0
  exact tm_final M hM hMlt A3 _ _ a30 a31 a32 a33 a34 (by omega) total

theorem refToMontP_correct (M : Modulus) (hM : M.Valid) (hMlt : M.val < W^4) (c : Nat) (hc : c < W)
    (hBlt : c + W < M.val) (x : L4) (hx : x.ok) :
    (refToMontP M c x).ok ∧ (refToMontP M c x).eval < M.val ∧
    ((refToMontP M c x).eval * W^4) % M.val = (x.eval * (c + W)) % M.val := by
  obtain ⟨x0, x1, x2, x3⟩ := hx
  unfold refToMontP
  simp only
  have rowb : ∀ xi, xi < W → xi * (c + W) ≤ (W - 1) * (c + W) := fun xi h => Nat.mul_le_mul_right _ (by omega)
  obtain ⟨ev0, ok0⟩ := rowP_spec x.l0 c x0 hc
  have hT0 : eval5 (rowP x.l0 c) < M.val + W * (c + W) := by
    rw [ev0]; have := rowb x.l0 x0
    generalize x.l0 * (c + W) = p at *; simp only [W] at *; omega
  obtain ⟨m0, hm0, e0, a00, a01, a02, a03, a04, bA0⟩ := tm_round M hM _ ok0 (c + W) hT0
  rw [ev0] at e0
  generalize redStep M (rowP x.l0 c) = A0 at *
  have round : ∀ (A : L5) (xi : Nat), A.l0 < W → A.l1 < W → A.l2 < W → A.l3 < W → A.l4 ≤ 1 → xi < W →
      eval5 A < M.val + (c + W) →
      ∃ m, m < W ∧ W * eval5 (redStep M (add4r A (rowP xi c))) = eval5 A + xi * (c + W) + m * M.val ∧
        (redStep M (add4r A (rowP xi c))).l0 < W ∧ (redStep M (add4r A (rowP xi c))).l1 < W ∧
        (redStep M (add4r A (rowP xi c))).l2 < W ∧ (redStep M (add4r A (rowP xi c))).l3 < W ∧
        (redStep M (add4r A (rowP xi c))).l4 ≤ 1 ∧
        eval5 (redStep M (add4r A (rowP xi c))) < M.val + (c + W) := by
    intro A xi q0 q1 q2 q3 q4 hxi hA
    obtain ⟨ev, okr⟩ := rowP_spec xi c hxi hc
    obtain ⟨r0, r1, r2, _, _⟩ := okr
    have hb := rowb xi hxi
    obtain ⟨et, okt⟩ := add4r_spec A (rowP xi c) q0 q1 q2 q3 q4 r0 r1 r2 rfl rfl
    have hT : eval5 (add4r A (rowP xi c)) < M.val + W * (c + W) := by
      rw [et, ev]
      generalize xi * (c + W) = p at *; generalize eval5 A = Av at *
      simp only [W] at *; omega
    obtain ⟨m, hm, e, s0, s1, s2, s3, s4, bb⟩ := tm_round M hM _ okt (c + W) hT
    exact ⟨m, hm, by rw [e, et, ev], s0, s1, s2, s3, s4, bb⟩
  obtain ⟨m1, hm1, e1, a10, a11, a12, a13, a14, bA1⟩ := round A0 x.l1 a00 a01 a02 a03 a04 x1 bA0
  generalize redStep M (add4r A0 (rowP x.l1 c)) = A1 at *
  obtain ⟨m2, hm2, e2, a20, a21, a22, a23, a24, bA2⟩ := round A1 x.l2 a10 a11 a12 a13 a14 x2 bA1
  generalize redStep M (add4r A1 (rowP x.l2 c)) = A2 at *
  obtain ⟨m3, hm3, e3, a30, a31, a32, a33, a34, bA3⟩ := round A2 x.l3 a20 a21 a22 a23 a24 x3 bA2
  generalize redStep M (add4r A2 (rowP x.l3 c)) = A3 at *
  have total : W^4 * eval5 A3 = x.eval * (c + W) + (m0 + W * m1 + W^2 * m2 + W^3 * m3) * M.val := by
    unfold L4.eval
    linear_combination W^3 * e3 + W^2 * e2 + W * e1 + e0
  exact tm_final M hM hMlt A3 _ _ a30 a31 a32 a33 a34 (by omega) total

/-- `R² mod p` and `R² mod n`, from 256-bit products only -/
def R2pNat : Nat := (W^4 % Pnat) * (W^4 % Pnat) % Pnat

def R2nNat : Nat := (W^4 % Nnat) * (W^4 % Nnat) % Nnat

theorem R2p_eq : 8392367050913 + W = R2pNat := by decide

theorem R2n_eq : R2n.eval = R2nNat := by decide
